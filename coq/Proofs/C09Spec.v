(* C09, the uniform theorem: the executable spec written from the property text (Spec/SpecC09.v)
   holds of the world model for ALL histories over the full operation language of World.v.

     spec_c09_model : forall ops, dom09 ops = true -> spec_c09 ops (run world0 ops) = true

   [dom09] is executable and collects the one side condition the argument uses: the constant labels
   of every Opts value handed to a metric constructor have pairwise distinct keys, i.e. they are a
   HashMap (Desc.v documents this representation invariant of [o_consts]; tools/pvlib.py renders every
   Opts through [amap_of], which establishes it).  Strings are arbitrary lists of code points here: no
   scalar-value condition is needed.  Histories using OpCustom need no invariant: the spec itself
   exempts their gathers (a user-written collector may hand anything to gather).

   Part A  clause (a): every constructor answers Ok exactly when the text says (one step, any world),
           including the reserved name le (histograms; registry-level common labels).
   Part B  clause (b): a world invariant (every core / vector / registered collector carries a
           well-formed descriptor clear of its registry's common labels; histogram cores and common
           labels never use le), preserved by all operations; what gather returns in such a world.
   Part C  histories, the theorem, the oracle corollary, non-vacuity. *)
Require Import PV.Base.Prelude PV.Base.Utf8 PV.Base.Fnv PV.Base.F64 PV.Base.StrFacts PV.Base.SortFacts.
Require Import PV.Model.Proto PV.Model.Desc PV.Model.Value PV.Model.Hist PV.Model.Vec PV.Model.Registry PV.Model.World.
Require Import PV.Proofs.DescFacts PV.Proofs.C09Facts PV.Proofs.LocalFacts PV.Proofs.OracleFacts PV.Spec.SpecC09.
From Coq Require Import Permutation.
Open Scope N_scope.

(* ---------- the domain ---------- *)
Definition opts_map_like (o : Opts) : bool := nodup_str (map fst (o_consts o)).
Definition op_dom09 (o : op) : bool :=
  match o with
  | OpCounter _ o | OpGauge _ o | OpCounterVec _ o _ | OpGaugeVec _ o _ => opts_map_like o
  | OpHistogram ho | OpHistVec ho _ => opts_map_like (ho_common ho)
  | _ => true
  end.
Definition dom09 (ops : list op) : bool := forallb op_dom09 ops.

Lemma opts_map_like_spec o : opts_map_like o = true <-> NoDup (map fst (o_consts o)).
Proof. apply nodup_str_NoDup. Qed.

(* ================================================================ Part A: constructors *)
Lemma forallb_ext' {A} (f g : A -> bool) l : (forall x, f x = g x) -> forallb f l = forallb g l.
Proof. intros H. induction l as [|x l IH]; cbn [forallb]; auto. rewrite H, IH. reflexivity. Qed.

(* the spec's regular languages are the model's validators *)
Lemma re_label_eq s : re_label s = is_valid_label_name s.
Proof.
  destruct s as [|c r]; [reflexivity|]. unfold re_label, re_match, is_valid_label_name, is_valid_ident. f_equal.
  apply forallb_ext'. intros x. change (cs_nocolon x) with (ch_letter x || ch_us x). change (is_ascii_digit x) with (ch_digit x).
  destruct (ch_letter x), (ch_digit x), (ch_us x); reflexivity.
Qed.
Lemma re_metric_eq s : re_metric s = is_valid_metric_name s.
Proof.
  destruct s as [|c r]; [reflexivity|]. unfold re_metric, re_match, is_valid_metric_name, is_valid_ident. f_equal.
  apply forallb_ext'. intros x. change (cs_colon x) with (ch_letter x || ch_us x || ch_colon x). change (is_ascii_digit x) with (ch_digit x).
  destruct (ch_letter x), (ch_digit x), (ch_us x), (ch_colon x); reflexivity.
Qed.

Lemma forallb_re_label l : forallb re_label l = true <-> Forall valid_label l.
Proof.
  rewrite forallb_forall, Forall_forall. unfold valid_label. split; intros H x Hx; specialize (H x Hx); rewrite re_label_eq in *; exact H.
Qed.

(* the acceptance condition of the text, as a proposition *)
Definition acc (fq help : str) (ckeys vars : list str) : Prop :=
  help <> [] /\ valid_metric fq /\ Forall valid_label (ckeys ++ vars) /\ NoDup vars /\ (forall v, In v vars -> ~ In v ckeys).

Lemma names_accept_iff fq help ckeys vars : names_accept fq help ckeys vars = true <-> acc fq help ckeys vars.
Proof.
  unfold names_accept, acc. rewrite !andb_true_iff, !forallb_re_label, nodup_str_NoDup, re_metric_eq, Forall_app, forallb_forall.
  unfold valid_metric. split.
  - intros (((((A & B) & C) & D) & E) & F). repeat split; auto.
    + destruct help; [discriminate|congruence].
    + intros v Hv. apply mem_str_false. apply negb_true_iff. apply F. exact Hv.
  - intros (A & B & (C & D) & E & F). repeat split; auto.
    + destruct help; [congruence|reflexivity].
    + intros v Hv. apply negb_true_iff. apply mem_str_false. apply F. exact Hv.
Qed.

Lemma acc_nodup fq help keys vars : NoDup keys ->
  (acc fq help keys vars <-> help <> [] /\ valid_metric fq /\ Forall valid_label (keys ++ vars) /\ NoDup (keys ++ vars)).
Proof.
  intros ND. unfold acc. split.
  - intros (A & B & C & D & E). repeat split; auto. apply NoDup_app_intro; auto.
  - intros (A & B & C & D). repeat split; auto.
    + eapply NoDup_app_r; eauto.
    + intros v Hv Hk. revert Hv. eapply NoDup_app_disj; eauto.
Qed.

Lemma eqb_of_iff (a b : bool) : (a = true <-> b = true) -> Bool.eqb a b = true.
Proof. destruct a, b; intros [H1 H2]; auto. Qed.
Lemma some_true_iff {A} (x : option A) : (match x with Some _ => true | None => false end) = true <-> exists a, x = Some a.
Proof. destruct x; split; eauto; [discriminate|intros [a H]; discriminate]. Qed.
Lemma res_ok_iff {A} (r : result A) : res_ok (res_unit r) = true <-> exists a, r = Ok a.
Proof. destruct r; cbn; split; eauto; [discriminate|intros [a H]; discriminate]. Qed.

(* the fully-qualified name of the text is build_fq_name *)
Lemma spec_fq_eq o : spec_opts_fq o = opts_fq_name o.
Proof.
  unfold spec_opts_fq, spec_fq, opts_fq_name, build_fq_name. destruct (o_name o) as [|n0 name]; [reflexivity|].
  destruct (o_namespace o) as [|a ns], (o_subsystem o) as [|b sub]; cbn; rewrite ?app_nil_r; reflexivity.
Qed.

Definition with_vars_accept (o : Opts) (vars : list str) : Prop := opts_accept (opts_with_vars o vars).
Lemma opts_accept_b_iff o vars : NoDup (map fst (o_consts o)) -> (opts_accept_b o vars = true <-> with_vars_accept o vars).
Proof.
  intros ND. unfold opts_accept_b. rewrite names_accept_iff, (acc_nodup _ _ _ _ ND), spec_fq_eq. reflexivity.
Qed.
Lemma opts_no_vars o : o_vars o = [] -> (opts_accept o <-> with_vars_accept o []).
Proof. intros E. unfold with_vars_accept, opts_accept, opts_with_vars, opts_fq_name. cbn. rewrite E. reflexivity. Qed.

Lemma no_le_iff keys vars : no_le keys vars = true <-> ~ In BUCKET_LABEL (keys ++ vars).
Proof.
  unfold no_le. rewrite andb_true_iff, !negb_true_iff, !mem_str_false, in_app_iff. change LE with BUCKET_LABEL. tauto.
Qed.

(* what the constructor steps observe *)
Lemma obs_counter w k o : snd (step w (OpCounter k o)) = ORes (res_unit (value_new o VCounter k [])).
Proof. cbn [step]. destruct (value_new o VCounter k []); reflexivity. Qed.
Lemma obs_gauge w k o : snd (step w (OpGauge k o)) = ORes (res_unit (value_new o VGauge k [])).
Proof. cbn [step]. destruct (value_new o VGauge k []); reflexivity. Qed.
Lemma obs_histogram w ho : snd (step w (OpHistogram ho)) = ORes (res_unit (hcore_new ho [])).
Proof. cbn [step]. destruct (hcore_new ho []); reflexivity. Qed.
Lemma obs_counter_vec w k o ls : snd (step w (OpCounterVec k o ls)) = ORes (res_unit (vec_create (opts_with_vars o ls) (VKValue VCounter k))).
Proof. cbn [step]. destruct (vec_create _ _); reflexivity. Qed.
Lemma obs_gauge_vec w k o ls : snd (step w (OpGaugeVec k o ls)) = ORes (res_unit (vec_create (opts_with_vars o ls) (VKValue VGauge k))).
Proof. cbn [step]. destruct (vec_create _ _); reflexivity. Qed.
Lemma obs_hist_vec w ho ls :
  snd (step w (OpHistVec ho ls)) = ORes (res_unit (vec_create (opts_with_vars (ho_common ho) ls) (VKHist (ho_buckets ho)))).
Proof. cbn [step]. destruct (vec_create _ _); reflexivity. Qed.
Lemma obs_registry w p ls :
  snd (step w (OpRegistry p ls))
  = ORes (res_unit (@reg_new_custom collector p (match ls with Some l => Some (amap_of l) | None => None end))).
Proof. cbn [step]. destruct (reg_new_custom _ _); reflexivity. Qed.
Lemma obs_pulling w name help v :
  snd (step w (OpPulling name help v)) = ORes (match desc_new name help [] [] with Some _ => Ok tt | None => Err EMsg end).
Proof. cbn [step]. destruct (desc_new _ _ _ _); reflexivity. Qed.

Lemma value_ctor_ok o t k : NoDup (map fst (o_consts o)) ->
  (if is_nil (o_vars o) then Bool.eqb (res_ok (res_unit (value_new o t k []))) (opts_accept_b o []) else true) = true.
Proof.
  intros ND. destruct (o_vars o) as [|v0 vs] eqn:Ev; [|reflexivity]. cbn [is_nil]. apply eqb_of_iff.
  rewrite res_ok_iff, (value_new_ok_iff o t k [] ND), (opts_accept_b_iff o [] ND), (opts_no_vars o Ev), Ev. cbn. tauto.
Qed.

Theorem ctor_ok_model w o : op_dom09 o = true -> ctor_ok (o, snd (step w o)) = true.
Proof.
  intros D. destruct o; try reflexivity; cbn [op_dom09] in D; try apply opts_map_like_spec in D.
  - (* OpDesc *) cbn [step snd ctor_ok]. apply eqb_of_iff. rewrite names_accept_iff.
    rewrite <- (desc_new_amap_ok_iff fq help vars consts). destruct (desc_new fq help vars (amap_of consts)); split; eauto.
    + discriminate.
    + intros [d H]; discriminate.
  - (* OpCounter *) rewrite obs_counter. cbn [ctor_ok]. apply value_ctor_ok. exact D.
  - (* OpGauge *) rewrite obs_gauge. cbn [ctor_ok]. apply value_ctor_ok. exact D.
  - (* OpHistogram *) rewrite obs_histogram. cbn [ctor_ok]. cbv zeta. destruct (o_vars (ho_common o)) as [|v0 vs] eqn:Ev; [|reflexivity].
    cbn [is_nil]. apply eqb_of_iff. rewrite res_ok_iff, (hcore_new_ok_iff o [] D), andb_true_iff, andb_true_iff, (opts_accept_b_iff _ [] D), no_le_iff.
    rewrite (opts_no_vars _ Ev), Ev. unfold buckets_accept. cbn [length]. split.
    + intros (A & B & _ & C). split; [split; [exact A|exact B]|]. destruct (check_and_adjust_buckets (ho_buckets o)); [reflexivity|congruence].
    + intros ((A & B) & C). split; [exact A|split; [exact B|split; [reflexivity|]]]. intros E. rewrite E in C. discriminate.
  - (* OpCounterVec *) rewrite obs_counter_vec. cbn [ctor_ok]. apply eqb_of_iff.
    rewrite res_ok_iff, (vec_create_ok_iff (opts_with_vars o labels) _ D), (opts_accept_b_iff o labels D). cbn. unfold with_vars_accept. tauto.
  - (* OpGaugeVec *) rewrite obs_gauge_vec. cbn [ctor_ok]. apply eqb_of_iff.
    rewrite res_ok_iff, (vec_create_ok_iff (opts_with_vars o labels) _ D), (opts_accept_b_iff o labels D). cbn. unfold with_vars_accept. tauto.
  - (* OpHistVec *) rewrite obs_hist_vec. cbn [ctor_ok]. cbv zeta. apply eqb_of_iff.
    rewrite res_ok_iff, (vec_create_ok_iff (opts_with_vars (ho_common o) labels) _ D), andb_true_iff, (opts_accept_b_iff _ labels D), no_le_iff.
    cbn. unfold with_vars_accept. tauto.
  - (* OpRegistry *) rewrite obs_registry. cbn [ctor_ok]. apply eqb_of_iff.
    rewrite res_ok_iff, (@reg_new_custom_ok_iff collector). unfold registry_accept, prefix_ok, common_names, valid_metric.
    rewrite andb_true_iff. change reserved_le with LE.
    assert (X : forall l : list (str * str),
              (forallb re_label (map fst l) && negb (mem_str LE (map fst l))) = true
              <-> Forall valid_label (map fst (amap_of l)) /\ ~ In LE (map fst (amap_of l))).
    { intros l. rewrite andb_true_iff, forallb_re_label, negb_true_iff, mem_str_false, (amap_of_keys l LE).
      rewrite !Forall_forall. split; intros [H1 H2]; (split; [|exact H2]); intros x Hx; apply H1; apply amap_of_keys; exact Hx. }
    destruct prefix as [p|], labels as [l|]; rewrite ?re_metric_eq, ?X.
    + tauto.
    + split; [intros [A _]; auto|intros [A _]; split; [exact A|split; [constructor|intros []]]].
    + tauto.
    + split; [auto|intros _; split; [exact Logic.I|split; [constructor|intros []]]].
  - (* OpPulling *) rewrite obs_pulling. cbn [ctor_ok]. apply eqb_of_iff. rewrite names_accept_iff.
    pose proof (desc_new_amap_ok_iff name help [] []) as H. cbn in H. unfold acc. cbn [app map].
    destruct (desc_new name help [] []) as [d|].
    + cbn. split; auto. intros _. apply H. eauto.
    + cbn. split; [discriminate|]. intros A. apply H in A as [d A]. discriminate.
Qed.

(* ================================================================ Part B: the world invariant *)
(* ---------- list helpers ---------- *)
Lemma Forall_nth {A} (P : A -> Prop) l i x : Forall P l -> nth_error l i = Some x -> P x.
Proof. intros H E. rewrite Forall_forall in H. apply H. eapply nth_error_In; eauto. Qed.
Lemma Forall_upd' {A} (P : A -> Prop) l i f : Forall P l -> (forall x, P x -> P (f x)) -> Forall P (upd l i f).
Proof.
  intros F H. unfold upd. destruct (nth_error l i) eqn:E; auto. apply Forall_list_set; auto. apply H. eapply Forall_nth; eauto.
Qed.
Lemma map_list_set' {A B} (g : A -> B) l i x : map g (list_set l i x) = list_set (map g l) i (g x).
Proof. revert i; induction l; intros [|i]; cbn; auto; f_equal; auto. Qed.
Lemma map_list_set_same {A B} (g : A -> B) l i x y : nth_error l i = Some y -> g x = g y -> map g (list_set l i x) = map g l.
Proof. intros E H. rewrite map_list_set', H. apply list_set_same. apply map_nth_error. exact E. Qed.
Lemma map_upd_same {A B} (g : A -> B) (f : A -> A) l c : (forall x, g (f x) = g x) -> map g (upd l c f) = map g l.
Proof. intros H. unfold upd. destruct (nth_error l c) eqn:E; auto. eapply map_list_set_same; eauto. Qed.
Lemma Forall_nremove' {V} (P : N * V -> Prop) k m : Forall P m -> Forall P (nremove k m).
Proof. induction 1 as [|[k' v'] t H F IH]; cbn; auto. destruct (k =? k'); auto. Qed.
Lemma nlookup_In' {V} k (m : list (N * V)) v : nlookup k m = Some v -> In (k, v) m.
Proof.
  induction m as [|[k' v'] m IH]; cbn; [discriminate|]. destruct (N.eqb_spec k k') as [->|E].
  - intros H; inversion H; auto.
  - auto.
Qed.
Lemma nth_error_map_inv {A B} (f : A -> B) l i y : nth_error (map f l) i = Some y -> exists x, nth_error l i = Some x /\ f x = y.
Proof. revert i; induction l as [|a l IH]; intros [|i]; cbn; try discriminate; [intros H; inversion H; eauto|apply IH]. Qed.

(* ---------- descriptor tables: they only ever grow at the end ---------- *)
Definition dV (w : world) : list Desc := map vc_desc (w_v w).
Definition dH (w : world) : list Desc := map hc_desc (w_h w).
Definition dVec (w : world) : list Desc := map v_desc (w_vec w).
Definition dmono (D D' : list Desc) : Prop := forall i d, nth_error D i = Some d -> nth_error D' i = Some d.
Lemma dmono_refl D : dmono D D.
Proof. intros i d H; exact H. Qed.
Lemma dmono_app D e : dmono D (D ++ e).
Proof. intros i d H. apply nth_error_app_some. exact H. Qed.
Lemma dmono_eq D D' : D' = D -> dmono D D'.
Proof. intros ->. apply dmono_refl. Qed.

(* ---------- the invariant ---------- *)
Definition lab_ok (d : Desc) (ls : list LabelPair) : Prop := desc_wf d /\ Permutation (map lp_name ls) (desc_label_names d).
Definition vcore_ok (c : vcore) : Prop := lab_ok (vc_desc c) (vc_labels c).
(* a histogram core never carries the reserved bucket label le (HistogramCore::new refuses it) *)
Definition hcore_ok (h : hcore) : Prop := lab_ok (hc_desc h) (hc_labels h) /\ ~ In BUCKET_LABEL (desc_label_names (hc_desc h)).
Definition heap_of (DV DH : list Desc) (k : veckind) : list Desc := match k with VKValue _ _ => DV | VKHist _ => DH end.
Definition vec_fine (DV DH : list Desc) (v : veccore) : Prop :=
  describe (v_opts v) = Some (v_desc v) /\ desc_wf (v_desc v)
  /\ Forall (fun hc : N * nat => nth_error (heap_of DV DH (v_kind v)) (snd hc) = Some (v_desc v)) (v_children v).
(* the descriptor of a pulling gauge: well-formed and without labels *)
Definition pull_ok (d : Desc) : Prop := desc_wf d /\ desc_label_names d = [].
Definition coll_fine (DV DH DVec : list Desc) (L : option (list (str * str))) (c : collector) : Prop :=
  match c with
  | CValue i => exists d, nth_error DV i = Some d /\ desc_clear L d
  | CHist i => exists d, nth_error DH i = Some d /\ desc_clear L d
  | CVec i => exists d, nth_error DVec i = Some d /\ desc_clear L d
  | CPulling d _ => pull_ok d /\ desc_clear L d
  | CCustom _ _ => False
  end.
Definition reg_fine (DV DH DVec : list Desc) (rc : regcore collector) : Prop :=
  prefix_ok (r_prefix rc) /\ names_wf (common_names (r_labels rc)) /\ ~ In BUCKET_LABEL (common_names (r_labels rc))
  /\ Forall (fun ic : N * collector => coll_fine DV DH DVec (r_labels rc) (snd ic)) (r_collectors rc).
Definition handle_fine (h : handle) : Prop :=
  match h with HCustom _ _ => False | HPulling d _ => pull_ok d | _ => True end.

Record Inv (w : world) : Prop := mkInv {
  inv_v : Forall vcore_ok (w_v w);
  inv_h : Forall hcore_ok (w_h w);
  inv_vec : Forall (vec_fine (dV w) (dH w)) (w_vec w);
  inv_reg : Forall (reg_fine (dV w) (dH w) (dVec w)) (w_reg w);
  inv_slots : Forall handle_fine (w_slots w) }.

Lemma inv0 : Inv world0.
Proof. constructor; constructor. Qed.

Lemma vec_fine_mono DV DH DV' DH' v : dmono DV DV' -> dmono DH DH' -> vec_fine DV DH v -> vec_fine DV' DH' v.
Proof.
  intros M1 M2 (A & B & C). split; [exact A|split; [exact B|]]. eapply Forall_impl; [|exact C]. intros hc H.
  destruct (v_kind v); cbn [heap_of] in *; auto.
Qed.
Lemma coll_fine_mono DV DH DVec DV' DH' DVec' L c :
  dmono DV DV' -> dmono DH DH' -> dmono DVec DVec' -> coll_fine DV DH DVec L c -> coll_fine DV' DH' DVec' L c.
Proof. intros M1 M2 M3. destruct c; cbn; auto; intros (d & H & C); exists d; split; auto. Qed.
Lemma reg_fine_mono DV DH DVec DV' DH' DVec' rc :
  dmono DV DV' -> dmono DH DH' -> dmono DVec DVec' -> reg_fine DV DH DVec rc -> reg_fine DV' DH' DVec' rc.
Proof.
  intros M1 M2 M3 (A & B & B2 & C). split; [exact A|split; [exact B|split; [exact B2|]]]. eapply Forall_impl; [|exact C]. intros ic.
  apply coll_fine_mono; assumption.
Qed.

(* the general shape of a change: tables grow, the vector / registry tables are re-established by the caller *)
Lemma inv_change w w' :
  Inv w ->
  Forall vcore_ok (w_v w') -> Forall hcore_ok (w_h w') ->
  dmono (dV w) (dV w') -> dmono (dH w) (dH w') -> dmono (dVec w) (dVec w') ->
  (Forall (vec_fine (dV w') (dH w')) (w_vec w) -> Forall (vec_fine (dV w') (dH w')) (w_vec w')) ->
  (Forall (reg_fine (dV w') (dH w') (dVec w')) (w_reg w) -> Forall (reg_fine (dV w') (dH w') (dVec w')) (w_reg w')) ->
  Forall handle_fine (w_slots w') -> Inv w'.
Proof.
  intros [Iv Ih Ivec Ireg Isl] Hv Hh M1 M2 M3 Fvec Freg Hs. constructor; auto.
  - apply Fvec. eapply Forall_impl; [|exact Ivec]. intros v. apply vec_fine_mono; assumption.
  - apply Freg. eapply Forall_impl; [|exact Ireg]. intros rc. apply reg_fine_mono; assumption.
Qed.

(* ---------- primitive changes ---------- *)
Lemma inv_set_slots w s : Inv w -> Forall handle_fine s -> Inv (set_slots w s).
Proof. intros I Hs. apply (inv_change w); cbn; auto using dmono_refl; apply I. Qed.
Lemma inv_push w h : Inv w -> handle_fine h -> Inv (push_slot w h).
Proof. intros I H. apply inv_set_slots; auto. apply Forall_app. split; [apply I|constructor; [exact H|constructor]]. Qed.
Lemma inv_put w s h : Inv w -> handle_fine h -> Inv (put_slot w s h).
Proof. intros I H. apply inv_set_slots; auto. apply Forall_list_set; [apply I|exact H]. Qed.
Lemma slot_fine w s : Inv w -> handle_fine (slot w s).
Proof.
  intros I. unfold slot. destruct (Nat.lt_ge_cases s (length (w_slots w))) as [L|L].
  - pose proof (inv_slots w I) as F. rewrite Forall_forall in F. apply F. apply nth_In; auto.
  - rewrite nth_overflow by auto. exact Logic.I.
Qed.

Lemma inv_updv w c f : Inv w -> (forall x, vc_desc (f x) = vc_desc x /\ vc_labels (f x) = vc_labels x) -> Inv (set_v w (upd (w_v w) c f)).
Proof.
  intros I Hf.
  assert (E : dV (set_v w (upd (w_v w) c f)) = dV w) by (unfold dV; cbn; apply map_upd_same; intros x; apply Hf).
  apply (inv_change w); try rewrite E; cbn; auto using dmono_refl; try apply I.
  apply Forall_upd'; [apply I|]. intros x. unfold vcore_ok. destruct (Hf x) as [-> ->]. auto.
Qed.
Lemma inv_updh w c f : Inv w -> (forall x, hc_desc (f x) = hc_desc x /\ hc_labels (f x) = hc_labels x) -> Inv (set_h w (upd (w_h w) c f)).
Proof.
  intros I Hf.
  assert (E : dH (set_h w (upd (w_h w) c f)) = dH w) by (unfold dH; cbn; apply map_upd_same; intros x; apply Hf).
  apply (inv_change w); try rewrite E; cbn; auto using dmono_refl; try apply I.
  apply Forall_upd'; [apply I|]. intros x. unfold hcore_ok. destruct (Hf x) as [-> ->]. auto.
Qed.
Lemma inv_seth w c h h' : Inv w -> nth_error (w_h w) c = Some h -> hc_desc h' = hc_desc h -> hc_labels h' = hc_labels h ->
  Inv (set_h w (list_set (w_h w) c h')) /\ dH (set_h w (list_set (w_h w) c h')) = dH w.
Proof.
  intros I N E1 E2.
  assert (E : dH (set_h w (list_set (w_h w) c h')) = dH w) by (unfold dH; cbn; eapply map_list_set_same; eauto).
  split; [|exact E]. apply (inv_change w); try rewrite E; cbn; auto using dmono_refl; try apply I.
  apply Forall_list_set; [apply I|]. unfold hcore_ok. rewrite E1, E2. exact (Forall_nth _ _ _ _ (inv_h w I) N).
Qed.
Lemma inv_newv w c : Inv w -> vcore_ok c -> Inv (set_v w (w_v w ++ [c])).
Proof.
  intros I H. apply (inv_change w); cbn; auto using dmono_refl; try apply I.
  - apply Forall_app. split; [apply I|constructor; [exact H|constructor]].
  - unfold dV. cbn. rewrite map_app. apply dmono_app.
Qed.
Lemma inv_newh w h : Inv w -> hcore_ok h -> Inv (set_h w (w_h w ++ [h])).
Proof.
  intros I H. apply (inv_change w); cbn; auto using dmono_refl; try apply I.
  - apply Forall_app. split; [apply I|constructor; [exact H|constructor]].
  - unfold dH. cbn. rewrite map_app. apply dmono_app.
Qed.
Lemma inv_newvec w v : Inv w -> vec_fine (dV w) (dH w) v -> Inv (set_vec w (w_vec w ++ [v])).
Proof.
  intros I H. apply (inv_change w); cbn; auto using dmono_refl; try apply I.
  - unfold dVec. cbn. rewrite map_app. apply dmono_app.
  - intros F. apply Forall_app. split; [exact F|constructor; [exact H|constructor]].
Qed.
Lemma inv_setvec w vi v v' : Inv w -> nth_error (w_vec w) vi = Some v -> v_desc v' = v_desc v -> vec_fine (dV w) (dH w) v' ->
  Inv (set_vec w (list_set (w_vec w) vi v')).
Proof.
  intros I N E H.
  assert (E' : dVec (set_vec w (list_set (w_vec w) vi v')) = dVec w) by (unfold dVec; cbn; eapply map_list_set_same; eauto).
  apply (inv_change w); try rewrite E'; cbn; auto using dmono_refl; try apply I.
  intros F. apply Forall_list_set; auto.
Qed.
Lemma inv_newreg w rc : Inv w -> reg_fine (dV w) (dH w) (dVec w) rc -> Inv (set_reg w (w_reg w ++ [rc])).
Proof.
  intros I H. apply (inv_change w); cbn; auto using dmono_refl; try apply I.
  intros F. apply Forall_app. split; [exact F|constructor; [exact H|constructor]].
Qed.
Lemma inv_setreg w ri rc : Inv w -> reg_fine (dV w) (dH w) (dVec w) rc -> Inv (set_reg w (list_set (w_reg w) ri rc)).
Proof.
  intros I H. apply (inv_change w); cbn; auto using dmono_refl; try apply I.
  intros F. apply Forall_list_set; auto.
Qed.
Lemma inv_fold {E} (f : world -> E -> world) l : (forall w0 e, Inv w0 -> Inv (f w0 e)) -> forall w, Inv w -> Inv (fold_left f l w).
Proof. intros Hf. induction l as [|e l IH]; intros w I; cbn; auto. Qed.

(* ---------- histogram cores keep descriptor and labels ---------- *)
Lemma hc_observe_meta v h : hc_desc (hc_observe h v) = hc_desc h /\ hc_labels (hc_observe h v) = hc_labels h.
Proof. unfold hc_observe, hc_set_shard, hc_set_claim. cbn. destruct (hc_hot h); cbn; auto. Qed.
Lemma hc_flush_meta l h : hc_desc (hc_flush h l) = hc_desc h /\ hc_labels (hc_flush h l) = hc_labels h.
Proof. unfold hc_flush. destruct (lh_count l =? 0); auto. unfold hc_set_shard, hc_set_claim. cbn. destruct (hc_hot h); cbn; auto. Qed.
Lemma hist_metric_meta h m h' : hist_metric h = Some (m, h') ->
  hc_desc h' = hc_desc h /\ hc_labels h' = hc_labels h /\ m_label m = hc_labels h.
Proof.
  unfold hist_metric, hc_proto. destruct (negb _); [discriminate|]. intros H; inversion H; subst; clear H.
  destruct h as [? ? ? [|] ? ? ?]; cbn; auto.
Qed.
Lemma inv_flush_lh w c l : Inv w -> Inv (flush_lh w c l).
Proof. intros I. unfold flush_lh. apply inv_updh; auto. intros x. apply hc_flush_meta. Qed.

(* ---------- freshly constructed cores, vectors, registries ---------- *)
Lemma value_new_core_ok o t k vals c : NoDup (map fst (o_consts o)) -> value_new o t k vals = Ok c -> vcore_ok c.
Proof. intros ND H. apply (value_new_wf o t k vals c ND) in H as (_ & W & P). split; assumption. Qed.
Lemma hcore_new_core_ok o vals h : NoDup (map fst (o_consts (ho_common o))) -> hcore_new o vals = Ok h -> hcore_ok h.
Proof. intros ND H. apply (hcore_new_wf o vals h ND) in H as (_ & W & P & NL). split; [split; assumption|exact NL]. Qed.
Lemma vec_create_fine DV DH o k v : NoDup (map fst (o_consts o)) -> vec_create o k = Ok v -> vec_fine DV DH v.
Proof.
  intros ND H. apply vec_create_inv in H as (d & Hd & -> & _). cbn. split; [exact Hd|split; [|constructor]].
  eapply describe_wf; eauto.
Qed.
Lemma reg_new_fine DV DH DVec p ls rc :
  @reg_new_custom collector p (match ls with Some l => Some (amap_of l) | None => None end) = Ok rc -> reg_fine DV DH DVec rc.
Proof.
  intros H. pose proof (proj1 (reg_new_custom_ok_iff _ _) (ex_intro _ rc H)) as (Hp & Hl & Hle).
  apply reg_new_custom_fields in H as (E1 & E2 & E3). unfold reg_fine. rewrite E1, E2, E3.
  split; [exact Hp|split; [|split; [exact Hle|constructor]]]. split; [exact Hl|].
  destruct ls as [l|]; cbn; [apply amap_of_nodup|constructor].
Qed.

(* ---------- children of vectors ---------- *)
Lemma build_child_inv' w v vals w' hd c :
  Inv w -> vec_fine (dV w) (dH w) v -> build_child w v vals = Ok (w', hd, c) ->
  Inv w' /\ handle_fine hd /\ w_vec w' = w_vec w /\ dmono (dV w) (dV w') /\ dmono (dH w) (dH w')
  /\ nth_error (heap_of (dV w') (dH w') (v_kind v)) c = Some (v_desc v).
Proof.
  intros I (Hd & W & _). unfold build_child. destruct (v_kind v) as [t k|bs].
  - destruct (value_new (v_opts v) t k vals) as [c0|] eqn:E; [|discriminate]. intros H; inversion H; subst; clear H.
    apply value_new_inv in E as (d & ls & Hd' & Hl & ->). assert (d = v_desc v) by congruence. subst d.
    split; [|split; [exact Logic.I|split; [reflexivity|split; [|split; [apply dmono_refl|]]]]].
    + apply inv_newv; auto. split; [exact W|]. cbn. eapply make_label_pairs_names; eauto.
    + unfold dV. cbn. rewrite map_app. apply dmono_app.
    + cbn [heap_of]. unfold dV. cbn. rewrite map_app. rewrite nth_error_app2 by (rewrite map_length; auto).
      rewrite map_length, Nat.sub_diag. reflexivity.
  - destruct (hcore_new (mkHOpts (v_opts v) bs) vals) as [h0|] eqn:E; [|discriminate]. intros H; inversion H; subst; clear H.
    apply hcore_new_inv in E as (d & ls & bs' & Hd' & Hle & Hl & _ & E1 & E2). cbn [ho_common] in Hd'.
    assert (Ed : d = v_desc v) by congruence. rewrite Ed in *. clear Ed Hd'.
    split; [|split; [exact Logic.I|split; [reflexivity|split; [apply dmono_refl|split]]]].
    + apply inv_newh; auto. unfold hcore_ok, lab_ok. rewrite E1, E2. split; [split; [exact W|]|].
      * eapply make_label_pairs_names; eauto.
      * apply has_le_label_false. exact Hle.
    + unfold dH. cbn. rewrite map_app. apply dmono_app.
    + cbn [heap_of]. unfold dH. cbn. rewrite map_app. rewrite nth_error_app2 by (rewrite map_length; auto).
      rewrite map_length, Nat.sub_diag. cbn. rewrite E1. reflexivity.
Qed.

Lemma child_handle_fine v c : handle_fine (child_handle v c).
Proof. unfold child_handle. destruct (v_kind v); exact Logic.I. Qed.

Lemma vgoc_inv w vi h vals w' hd : Inv w -> vec_get_or_create w vi h vals = Ok (w', hd) -> Inv w' /\ handle_fine hd.
Proof.
  intros I. unfold vec_get_or_create. destruct (nth_error (w_vec w) vi) as [v|] eqn:Nv; [|discriminate].
  pose proof (Forall_nth _ _ _ _ (inv_vec w I) Nv) as Fv.
  destruct (nlookup h (v_children v)) as [c|].
  - intros H; inversion H; subst. split; [exact I|apply child_handle_fine].
  - destruct (build_child w v vals) as [[[w1 hd1] c1]|] eqn:B; [|discriminate]. intros H; inversion H; subst; clear H.
    destruct (build_child_inv' _ _ _ _ _ _ I Fv B) as (I1 & Hh & Ev & M1 & M2 & Nc). split; [|exact Hh].
    apply (inv_setvec w1 vi v); auto; [rewrite Ev; exact Nv|].
    pose proof (vec_fine_mono _ _ _ _ v M1 M2 Fv) as (A & B' & C). split; [exact A|split; [exact B'|]].
    cbn [vec_set_children v_children v_kind v_desc]. apply Forall_app. split; [exact C|]. constructor; [exact Nc|constructor].
Qed.

Lemma vec_delete_inv w vi h w' : Inv w -> vec_delete w vi h = Ok w' -> Inv w'.
Proof.
  intros I. unfold vec_delete. destruct (nth_error (w_vec w) vi) as [v|] eqn:Nv; [|discriminate].
  destruct (nlookup h (v_children v)); [|discriminate]. intros H; inversion H; subst; clear H.
  pose proof (Forall_nth _ _ _ _ (inv_vec w I) Nv) as (A & B & C).
  apply (inv_setvec w vi v); auto. split; [exact A|split; [exact B|]]. cbn. apply Forall_nremove'. exact C.
Qed.

Lemma inv_reset_vec w vi : Inv w -> Inv (set_vec w (upd (w_vec w) vi (fun v => vec_set_children v []))).
Proof.
  intros I. unfold upd. destruct (nth_error (w_vec w) vi) as [v|] eqn:Nv.
  - pose proof (Forall_nth _ _ _ _ (inv_vec w I) Nv) as (A & B & C).
    apply (inv_setvec w vi v); auto. split; [exact A|split; [exact B|constructor]].
  - destruct w; exact I.
Qed.

(* ---------- collecting ---------- *)
Definition same_tables (w w' : world) : Prop :=
  dV w' = dV w /\ dH w' = dH w /\ dVec w' = dVec w.
Lemma same_tables_refl w : same_tables w w.
Proof. repeat split. Qed.
Lemma same_tables_trans a b c : same_tables a b -> same_tables b c -> same_tables a c.
Proof. intros (A & B & C) (A' & B' & C'). repeat split; congruence. Qed.

Lemma collect_hist_inv w c m w' : Inv w -> collect_hist w c = Some (m, w') ->
  Inv w' /\ same_tables w w' /\ exists h, nth_error (w_h w) c = Some h /\ m_label m = hc_labels h.
Proof.
  intros I. unfold collect_hist. destruct (nth_error (w_h w) c) as [h|] eqn:Nh; [|discriminate].
  destruct (hist_metric h) as [[m0 h']|] eqn:Hm; [|discriminate]. intros H; inversion H; subst; clear H.
  apply hist_metric_meta in Hm as (E1 & E2 & E3). destruct (inv_seth w c h h' I Nh E1 E2) as [I' E].
  split; [exact I'|split; [|eauto]]. split; [reflexivity|split; [exact E|reflexivity]].
Qed.

Definition labels_of (d : Desc) (m : Metric) : Prop := Permutation (map lp_name (m_label m)) (desc_label_names d).
(* a sample that carries a histogram value has no label called le *)
Definition hist_no_le (m : Metric) : Prop := m_histogram m <> None -> ~ In BUCKET_LABEL (map lp_name (m_label m)).
Definition sample_good (d : Desc) (m : Metric) : Prop := labels_of d m /\ hist_no_le m.

Lemma value_metric_no_hist vc : hist_no_le (value_metric vc).
Proof. unfold hist_no_le, value_metric. destruct (vc_type vc); cbn; congruence. Qed.
Lemma hcore_sample_good w c h m : Inv w -> nth_error (w_h w) c = Some h -> m_label m = hc_labels h -> sample_good (hc_desc h) m.
Proof.
  intros I Nh Lm. destruct (Forall_nth _ _ _ _ (inv_h w I) Nh) as [[W P] NL]. unfold sample_good, labels_of, hist_no_le. rewrite Lm.
  split; [exact P|]. intros _ Hin. apply NL. eapply Permutation_in; [exact P|exact Hin].
Qed.

Lemma collect_children_inv k d cs : forall w ms w',
  Inv w -> Forall (fun hc : N * nat => nth_error (heap_of (dV w) (dH w) k) (snd hc) = Some d) cs ->
  collect_children w k cs = Some (ms, w') ->
  Inv w' /\ same_tables w w' /\ Forall (sample_good d) ms.
Proof.
  induction cs as [|[hh c] cs IH]; intros w ms w' I F H; cbn [collect_children] in H.
  - inversion H; subst. split; [exact I|split; [apply same_tables_refl|constructor]].
  - inversion F as [|? ? Fc F']; subst. cbn [snd] in Fc. destruct k as [t nk|bs].
    + destruct (nth_error (w_v w) c) as [vc|] eqn:Nc; [|discriminate].
      destruct (collect_children w (VKValue t nk) cs) as [[ms1 w1]|] eqn:E; [|discriminate]. inversion H; subst; clear H.
      destruct (IH _ _ _ I F' E) as (I1 & T1 & L1). split; [exact I1|split; [exact T1|]]. constructor; [|exact L1].
      cbn [heap_of] in Fc. unfold dV in Fc. rewrite (map_nth_error vc_desc _ _ Nc) in Fc. injection Fc as Ed.
      split; [|apply value_metric_no_hist].
      unfold labels_of. rewrite value_metric_labels. rewrite <- Ed. exact (proj2 (Forall_nth _ _ _ _ (inv_v w I) Nc)).
    + destruct (collect_hist w c) as [[m w1]|] eqn:E1; [|discriminate].
      destruct (collect_children w1 (VKHist bs) cs) as [[ms1 w2]|] eqn:E2; [|discriminate]. inversion H; subst; clear H.
      destruct (collect_hist_inv _ _ _ _ I E1) as (I1 & T1 & h & Nh & Lm).
      assert (F1 : Forall (fun hc : N * nat => nth_error (heap_of (dV w1) (dH w1) (VKHist bs)) (snd hc) = Some d) cs).
      { destruct T1 as (_ & -> & _). exact F'. }
      destruct (IH _ _ _ I1 F1 E2) as (I2 & T2 & L2). split; [exact I2|split; [eapply same_tables_trans; eauto|]].
      constructor; [|exact L2]. cbn [heap_of] in Fc. unfold dH in Fc. rewrite (map_nth_error hc_desc _ _ Nh) in Fc. injection Fc as Ed.
      rewrite <- Ed. exact (hcore_sample_good w c h m I Nh Lm).
Qed.

(* what a collected family must satisfy for gather (C09Facts.gather_names_wf_gen), plus the le clause *)
Definition fam_good (L : option (list (str * str))) (mf : MetricFamily) : Prop :=
  (exists d, desc_wf d /\ desc_clear L d /\ family_of_desc d mf) /\ Forall hist_no_le (mf_metric mf).

Lemma collect_collector_inv w L c fs w' :
  Inv w -> coll_fine (dV w) (dH w) (dVec w) L c -> collect_collector w c = Some (fs, w') ->
  Inv w' /\ same_tables w w' /\ Forall (fam_good L) fs.
Proof.
  intros I. destruct c as [i|i|vi|ds fams|d v]; cbn [coll_fine collect_collector].
  - intros (d & Nd & Cl). destruct (nth_error (w_v w) i) as [vc|] eqn:Nc; [|discriminate]. intros H; injection H as <- <-.
    split; [exact I|split; [apply same_tables_refl|]]. constructor; [|constructor].
    unfold dV in Nd. rewrite (map_nth_error vc_desc _ _ Nc) in Nd. inversion Nd; subst d.
    destruct (Forall_nth _ _ _ _ (inv_v w I) Nc) as [W P]. split.
    + exists (vc_desc vc). split; [exact W|split; [exact Cl|]].
      split; [reflexivity|]. cbn [value_collect mf_metric]. constructor; [|constructor]. rewrite value_metric_labels. exact P.
    + cbn [value_collect mf_metric]. constructor; [apply value_metric_no_hist|constructor].
  - intros (d & Nd & Cl). destruct (nth_error (w_h w) i) as [h|] eqn:Nh; [|discriminate].
    destruct (collect_hist w i) as [[m w1]|] eqn:E; [|discriminate]. intros H; injection H as <- <-.
    destruct (collect_hist_inv _ _ _ _ I E) as (I1 & T1 & h1 & Nh1 & Lm). assert (h1 = h) by congruence. subst h1.
    split; [exact I1|split; [exact T1|]]. constructor; [|constructor].
    unfold dH in Nd. rewrite (map_nth_error hc_desc _ _ Nh) in Nd. inversion Nd; subst d.
    destruct (Forall_nth _ _ _ _ (inv_h w I) Nh) as [[W P] NL]. destruct (hcore_sample_good w i h m I Nh Lm) as [G1 G2]. split.
    + exists (hc_desc h). split; [exact W|split; [exact Cl|]].
      split; [reflexivity|]. cbn [hist_family mf_metric]. constructor; [exact G1|constructor].
    + cbn [hist_family mf_metric]. constructor; [exact G2|constructor].
  - intros (d & Nd & Cl). destruct (nth_error (w_vec w) vi) as [v|] eqn:Nv; [|discriminate].
    destruct (collect_children w (v_kind v) (v_children v)) as [[ms w1]|] eqn:E; [|discriminate]. intros H; injection H as <- <-.
    unfold dVec in Nd. rewrite (map_nth_error v_desc _ _ Nv) in Nd. inversion Nd; subst d.
    destruct (Forall_nth _ _ _ _ (inv_vec w I) Nv) as (_ & W & C).
    destruct (collect_children_inv _ _ _ _ _ _ I C E) as (I1 & T1 & L1). split; [exact I1|split; [exact T1|]].
    constructor; [|constructor]. split.
    + exists (v_desc v). split; [exact W|split; [exact Cl|]]. split; [reflexivity|].
      cbn [mf_metric]. eapply Forall_impl; [|exact L1]. intros m [G _]. exact G.
    + cbn [mf_metric]. eapply Forall_impl; [|exact L1]. intros m [_ G]. exact G.
  - intros [].
  - intros [[W E0] Cl] H; injection H as <- <-. split; [exact I|split; [apply same_tables_refl|]]. constructor; [|constructor]. split.
    + exists d. split; [exact W|split; [exact Cl|]]. split; [reflexivity|]. cbn [mf_metric]. constructor; [|constructor].
      cbn [m_label map]. rewrite E0. constructor.
    + cbn [mf_metric]. constructor; [|constructor]. unfold hist_no_le. cbn. congruence.
Qed.

Lemma coll_fine_tables w w' L c : same_tables w w' -> coll_fine (dV w) (dH w) (dVec w) L c -> coll_fine (dV w') (dH w') (dVec w') L c.
Proof. intros (-> & -> & ->) H. exact H. Qed.

Lemma collect_all_inv L cs : forall w fs w',
  Inv w -> Forall (fun ic : N * collector => coll_fine (dV w) (dH w) (dVec w) L (snd ic)) cs ->
  collect_all w cs = Some (fs, w') -> Inv w' /\ Forall (fam_good L) fs.
Proof.
  induction cs as [|[i c] cs IH]; intros w fs w' I F H; cbn [collect_all] in H.
  - injection H as <- <-. split; [exact I|constructor].
  - inversion F as [|? ? Fc F']; subst. cbn [snd] in Fc.
    destruct (collect_collector w c) as [[fs1 w1]|] eqn:E1; [|discriminate].
    destruct (collect_all w1 cs) as [[fs2 w2]|] eqn:E2; [|discriminate]. injection H as <- <-.
    destruct (collect_collector_inv _ _ _ _ _ I Fc E1) as (I1 & T1 & G1).
    assert (F1 : Forall (fun ic : N * collector => coll_fine (dV w1) (dH w1) (dVec w1) L (snd ic)) cs).
    { eapply Forall_impl; [|exact F']. intros ic. apply coll_fine_tables. exact T1. }
    destruct (IH _ _ _ I1 F1 E2) as (I2 & G2). split; [exact I2|]. apply Forall_app. split; assumption.
Qed.

(* ---------- gather ---------- *)
(* histogram-valued samples keep "no label le" through merging, sorting and the common labels *)
Lemma gather_hist_no_le prefix labels collected :
  ~ In BUCKET_LABEL (common_names labels) ->
  Forall (fun mf => Forall hist_no_le (mf_metric mf)) collected ->
  Forall (fun mf => Forall hist_no_le (mf_metric mf)) (gather_families prefix labels collected).
Proof.
  intros NL H. unfold gather_families.
  assert (A : Forall (fam_all (fun _ => True) hist_no_le) collected).
  { eapply Forall_impl; [|exact H]. intros mf Hm. split; [exact Logic.I|exact Hm]. }
  apply merge_families_all in A. apply Forall_forall. intros mf' Hmf'. apply in_map_iff in Hmf' as (mf & <- & Hin).
  rewrite Forall_forall in A. destruct (A mf Hin) as [_ Hm].
  pose proof (sort_metrics_Forall hist_no_le _ Hm) as Hs. unfold apply_prefix_labels. cbn [mf_metric].
  destruct labels as [l|]; [|exact Hs]. apply Forall_forall. intros m' Hm'. apply in_map_iff in Hm' as (m & <- & Hmin).
  rewrite Forall_forall in Hs. specialize (Hs m Hmin). unfold hist_no_le in *. cbn [m_histogram m_label]. intros Hh Hle.
  rewrite map_app, in_app_iff in Hle. destruct Hle as [Hle|Hle]; [exact (Hs Hh Hle)|].
  apply NL. cbn [common_names]. eapply Permutation_in; [apply common_pairs_names|exact Hle].
Qed.

Lemma family_wf_ok mf : family_wf mf -> Forall hist_no_le (mf_metric mf) -> family_ok mf = true.
Proof.
  intros [Hn Hm] Hh. unfold family_ok. apply andb_true_iff. split; [rewrite re_metric_eq; exact Hn|].
  apply forallb_forall. intros m Hin. rewrite Forall_forall in Hm, Hh. destruct (Hm m Hin) as [F ND]. specialize (Hh m Hin).
  unfold sample_ok. cbv zeta. rewrite !andb_true_iff. split; [split; [apply forallb_re_label; exact F|apply nodup_str_NoDup; exact ND]|].
  destruct (m_histogram m) as [hh|] eqn:Eh; [|reflexivity]. apply negb_true_iff. apply mem_str_false. change LE with BUCKET_LABEL.
  apply Hh. congruence.
Qed.

Lemma gather_fine w rc fs w' :
  Inv w -> reg_fine (dV w) (dH w) (dVec w) rc -> collect_all w (r_collectors rc) = Some (fs, w') ->
  Inv w' /\ forallb family_ok (gather_families (r_prefix rc) (r_labels rc) fs) = true.
Proof.
  intros I (Hp & Hl & Hle & Hc) H. destruct (collect_all_inv _ _ _ _ _ I Hc H) as [I' G]. split; [exact I'|].
  assert (G1 : Forall (fun mf => exists d, desc_wf d /\ desc_clear (r_labels rc) d /\ family_of_desc d mf) fs).
  { eapply Forall_impl; [|exact G]. intros mf [X _]. exact X. }
  assert (G2 : Forall (fun mf => Forall hist_no_le (mf_metric mf)) fs).
  { eapply Forall_impl; [|exact G]. intros mf [_ X]. exact X. }
  pose proof (gather_names_wf_gen (r_prefix rc) (r_labels rc) fs Hp Hl G1) as W.
  pose proof (gather_hist_no_le (r_prefix rc) (r_labels rc) fs Hle G2) as NL.
  apply forallb_forall. intros mf Hin. rewrite Forall_forall in W, NL. apply family_wf_ok; auto.
Qed.

(* ---------- register / unregister ---------- *)
Lemma collector_of_fine w h c ds : Inv w -> handle_fine h -> collector_of w h = Some (c, ds) ->
  forall L, (forall d, In d ds -> desc_clear L d) -> coll_fine (dV w) (dH w) (dVec w) L c.
Proof.
  intros I Hh H L Cl. destruct h; cbn [collector_of] in H; try discriminate.
  - destruct (nth_error (w_v w) c0) as [vc|] eqn:E; [|discriminate]. injection H as <- <-. cbn.
    exists (vc_desc vc). split; [unfold dV; apply map_nth_error; exact E|apply Cl; left; reflexivity].
  - destruct (nth_error (w_h w) c0) as [hc|] eqn:E; [|discriminate]. injection H as <- <-. cbn.
    exists (hc_desc hc). split; [unfold dH; apply map_nth_error; exact E|apply Cl; left; reflexivity].
  - destruct (nth_error (w_vec w) v) as [vc|] eqn:E; [|discriminate]. injection H as <- <-. cbn.
    exists (v_desc vc). split; [unfold dVec; apply map_nth_error; exact E|apply Cl; left; reflexivity].
  - destruct Hh.
  - injection H as <- <-. cbn. split; [exact Hh|apply Cl; left; reflexivity].
Qed.

Lemma reg_register_collectors {C} (r r' : regcore C) ds c :
  reg_register r ds c = Ok r' -> exists cid, r_collectors r' = r_collectors r ++ [(cid, c)].
Proof.
  unfold reg_register. destruct (reg_check_descs r ds [] 0 []) as [[[seen cid] staged]|e]; [|discriminate].
  destruct (nlookup cid (r_collectors r)); [discriminate|]. intros H. inversion H; subst. cbn. eauto.
Qed.
Lemma reg_unregister_collectors {C} (r r' : regcore C) ds :
  reg_unregister r ds = Ok r' -> exists cid, r_collectors r' = nremove cid (r_collectors r).
Proof. unfold reg_unregister. destruct (nlookup _ _); [|discriminate]. intros H. inversion H; subst. cbn. eauto. Qed.

Lemma register_inv w ri rc c ds rc' h :
  Inv w -> nth_error (w_reg w) ri = Some rc -> handle_fine h -> collector_of w h = Some (c, ds) ->
  reg_register rc ds c = Ok rc' -> Inv (set_reg w (list_set (w_reg w) ri rc')).
Proof.
  intros I Nr Hh Hc Hr. apply inv_setreg; auto. destruct (Forall_nth _ _ _ _ (inv_reg w I) Nr) as (A & B & B2 & C).
  destruct (reg_register_collectors _ _ _ _ Hr) as [cid Ec]. apply reg_register_clear in Hr as (Cl & E1 & E2).
  unfold reg_fine. rewrite E1, E2, Ec. split; [exact A|split; [exact B|split; [exact B2|]]]. apply Forall_app. split; [exact C|].
  constructor; [|constructor]. cbn [snd]. eapply collector_of_fine; eauto.
Qed.
Lemma unregister_inv w ri rc ds rc' :
  Inv w -> nth_error (w_reg w) ri = Some rc -> reg_unregister rc ds = Ok rc' -> Inv (set_reg w (list_set (w_reg w) ri rc')).
Proof.
  intros I Nr Hr. apply inv_setreg; auto. destruct (Forall_nth _ _ _ _ (inv_reg w I) Nr) as (A & B & B2 & C).
  destruct (reg_unregister_collectors _ _ _ Hr) as [cid Ec]. apply reg_unregister_fields in Hr as (E1 & E2).
  unfold reg_fine. rewrite E1, E2, Ec. split; [exact A|split; [exact B|split; [exact B2|]]]. apply Forall_nremove'. exact C.
Qed.

Lemma pulling_fine name help d : desc_new name help [] [] = Some d -> pull_ok d.
Proof.
  intros H. split; [eapply desc_new_wf; eauto; constructor|].
  apply desc_new_label_names in H. cbn in H. apply Permutation_nil. apply Permutation_sym. exact H.
Qed.

(* ---------- one step, all operations ---------- *)
Lemma desc_clear_none d : desc_clear None d.
Proof. intros n _ []. Qed.

Ltac inv_side :=
  first [ exact Logic.I | assumption | (intros ?; split; reflexivity) | (intros ?; apply hc_observe_meta) | (intros ?; apply hc_flush_meta)
        | (eapply pulling_fine; eassumption) ].
Ltac inv_tac :=
  lazymatch goal with
  | |- Inv (push_slot ?w ?h) => apply inv_push; [inv_tac | inv_side]
  | |- Inv (put_slot ?w ?s ?h) => apply inv_put; [inv_tac | inv_side]
  | |- Inv (set_v ?w (upd (w_v ?w) ?c ?f)) => apply inv_updv; [inv_tac | inv_side]
  | |- Inv (set_h ?w (upd (w_h ?w) ?c ?f)) => apply inv_updh; [inv_tac | inv_side]
  | |- Inv (flush_lh ?w ?c ?l) => apply inv_flush_lh; inv_tac
  | |- Inv (set_vec ?w (upd (w_vec ?w) ?vi _)) => apply inv_reset_vec; inv_tac
  | |- Inv (set_v ?w (w_v ?w ++ [?a])) => apply inv_newv; [inv_tac | eapply value_new_core_ok; eassumption]
  | |- Inv (set_h ?w (w_h ?w ++ [?a])) => apply inv_newh; [inv_tac | eapply hcore_new_core_ok; eassumption]
  | |- Inv (set_vec ?w (w_vec ?w ++ [?a])) =>
      apply inv_newvec; [inv_tac | match goal with H : vec_create ?o ?k = Ok a, D : NoDup _ |- _ => exact (vec_create_fine _ _ o k a D H) end]
  | |- Inv (set_reg ?w (w_reg ?w ++ [?a])) =>
      apply inv_newreg; [inv_tac | first [eapply (reg_new_fine _ _ _ _ (Some _)); eassumption | eapply (reg_new_fine _ _ _ _ None); eassumption]]
  | |- Inv (fold_left _ _ ?w) =>
      apply inv_fold; [intros ? [? [? ?]] ?; try match goal with |- context [num_is_zero ?v] => destruct (num_is_zero v) end; inv_tac | inv_tac]
  | |- Inv ?a =>
      first [ assumption
            | match goal with H : vec_delete _ _ _ = Ok a |- _ => eapply vec_delete_inv; [|exact H]; inv_tac end ]
  end.
Ltac vgoc_pre :=
  repeat match goal with
  | H : vec_get_or_create ?w _ _ _ = Ok _, I : Inv ?w |- _ => destruct (vgoc_inv _ _ _ _ _ _ I H); clear H
  end.

(* every operation except OpCustom keeps the invariant, and what a gather returns is well-formed *)
Theorem step_inv w o : op_dom09 o = true -> uses_custom o = false -> Inv w ->
  Inv (fst (step w o)) /\ gather_ok (snd (step w o)) = true.
Proof.
  intros D U I. destruct o; cbn [op_dom09 uses_custom] in D, U; try discriminate U; try apply opts_map_like_spec in D;
    unfold step; cbv beta iota zeta.
  all: repeat dmatch.
  all: cbn [fst snd gather_ok].
  all: vgoc_pre.
  all: try solve [split; [inv_tac|reflexivity]].
  - (* OpRegister *) split; [|reflexivity].
    eapply (register_inv w _ _ _ _ _ (slot w s)); [exact I|eassumption|apply slot_fine; exact I|eassumption|eassumption].
  - (* OpUnregister *) split; [|reflexivity]. eapply unregister_inv; [exact I|eassumption|eassumption].
  - (* OpGather *)
    match goal with Hn : nth_error (w_reg w) _ = Some ?rc, Hc : collect_all w _ = Some _ |- _ =>
      exact (gather_fine w rc _ _ I (Forall_nth _ _ _ _ (inv_reg w I) Hn) Hc) end.
  - (* OpCollect *) split; [|reflexivity].
    match goal with Hc : collector_of w _ = Some (?c, ?ds), Hk : collect_collector w ?c = Some _ |- _ =>
      exact (proj1 (collect_collector_inv w None c _ _ I
                      (collector_of_fine w _ c ds I (slot_fine w s I) Hc None (fun d _ => desc_clear_none d)) Hk)) end.
Qed.

(* ================================================================ Part C: histories *)
Lemma run_ctor_ok ops : forall w, dom09 ops = true -> forallb ctor_ok (combine ops (run w ops)) = true.
Proof.
  induction ops as [|o ops IH]; intros w D; cbn [run combine]; [reflexivity|].
  cbn [dom09 forallb] in D. apply andb_true_iff in D as [D1 D2]. pose proof (ctor_ok_model w o D1) as C.
  destruct (step w o) as [w1 ob]. cbn [combine forallb snd] in *. rewrite C. cbn [andb]. apply IH. exact D2.
Qed.

Lemma run_gather_ok ops : forall w, dom09 ops = true -> existsb uses_custom ops = false -> Inv w ->
  forallb gather_ok (run w ops) = true.
Proof.
  induction ops as [|o ops IH]; intros w D U I; cbn [run]; [reflexivity|].
  cbn [dom09 forallb] in D. apply andb_true_iff in D as [D1 D2]. cbn [existsb] in U. apply orb_false_iff in U as [U1 U2].
  destruct (step_inv w o D1 U1 I) as [I1 G]. destruct (step w o) as [w1 ob]. cbn [fst snd forallb] in *.
  rewrite G. cbn [andb]. apply IH; assumption.
Qed.

(* from any world satisfying the invariant *)
Theorem spec_c09_model_from w ops : Inv w -> dom09 ops = true -> spec_c09 ops (run w ops) = true.
Proof.
  intros I D. unfold spec_c09. apply andb_true_iff. split; [apply run_ctor_ok; exact D|].
  destruct (existsb uses_custom ops) eqn:U; [reflexivity|]. cbn [orb]. apply run_gather_ok; assumption.
Qed.

Theorem spec_c09_model ops : dom09 ops = true -> spec_c09 ops (run world0 ops) = true.
Proof. apply spec_c09_model_from. exact inv0. Qed.

(* the invariant itself along every custom-free history: every registered collector of every
   registry carries a well-formed descriptor clear of the registry's common labels *)
Theorem spec_c09_reachable_inv ops : dom09 ops = true -> existsb uses_custom ops = false -> Inv (run_world world0 ops).
Proof.
  generalize world0 inv0. induction ops as [|o ops IH]; intros w I D U; cbn [run_world]; [exact I|].
  cbn [dom09 forallb] in D. apply andb_true_iff in D as [D1 D2]. cbn [existsb] in U. apply orb_false_iff in U as [U1 U2].
  apply IH; auto. exact (proj1 (step_inv w o D1 U1 I)).
Qed.

(* ---------- the oracle is silent when the implementation agrees with the model ---------- *)
Lemma res_ok_ext (r r' : result unit) : res_eqb r r' = true -> res_ok r = res_ok r'.
Proof. destruct r, r'; cbn; try discriminate; reflexivity. Qed.
Lemma ctor_ok_obs_ext o a b : obs_eqb a b = true -> ctor_ok (o, a) = ctor_ok (o, b).
Proof.
  intros E. destruct o; try reflexivity; destruct a, b; try discriminate E; try reflexivity; cbn [obs_eqb] in E; cbn [ctor_ok];
    try (rewrite (res_ok_ext _ _ E); reflexivity).
  destruct d as [[[? ?] ?]|], d0 as [[[? ?] ?]|]; try discriminate E; reflexivity.
Qed.
Lemma metric_eqb_labels m m' : metric_eqb m m' = true -> m_label m = m_label m'.
Proof.
  unfold metric_eqb. rewrite !andb_true_iff. intros [[[[[[H _] _] _] _] _] _].
  apply (list_eqb_spec lp_eqb lp_eqb_spec). exact H.
Qed.
Lemma metric_eqb_hist m m' : metric_eqb m m' = true ->
  match m_histogram m with Some _ => true | None => false end = match m_histogram m' with Some _ => true | None => false end.
Proof.
  unfold metric_eqb. rewrite !andb_true_iff. intros [[_ H] _]. destruct (m_histogram m), (m_histogram m'); cbn in H; congruence.
Qed.
Lemma family_ok_ext a b : mf_eqb a b = true -> family_ok a = family_ok b.
Proof.
  unfold mf_eqb. rewrite !andb_true_iff. intros [[[Hn _] _] Hm]. apply str_eqb_eq in Hn. unfold family_ok. rewrite Hn. f_equal.
  apply (forallb_list_eqb metric_eqb); auto. intros m m' E. unfold sample_ok. rewrite (metric_eqb_labels _ _ E).
  pose proof (metric_eqb_hist _ _ E) as Hh. destruct (m_histogram m), (m_histogram m'); try discriminate Hh; reflexivity.
Qed.
Lemma gather_ok_obs_ext a b : obs_eqb a b = true -> gather_ok a = gather_ok b.
Proof.
  intros E. destruct a, b; try discriminate E; try reflexivity. cbn [obs_eqb] in E. cbn [gather_ok].
  apply (forallb_list_eqb mf_eqb); auto. apply family_ok_ext.
Qed.

Theorem spec_c09_agree ops a b : obs_agree a b -> spec_c09 ops a = spec_c09 ops b.
Proof.
  intros H. unfold spec_c09. f_equal; [|f_equal].
  - apply (forallb_rel rel_oo); [|apply combine_agree; exact H]. intros [o1 a1] [o2 b1] [E1 E2]. cbn [fst snd] in *. subst.
    apply ctor_ok_obs_ext. exact E2.
  - apply (forallb_rel (fun x y => obs_eqb x y = true)); [|exact H]. intros x y E. apply gather_ok_obs_ext. exact E.
Qed.

Theorem spec_c09_oracle_silent ops impl :
  dom09 ops = true -> first_diff 0 (run world0 ops) impl = None -> spec_c09 ops impl = true.
Proof.
  intros D F. rewrite <- (spec_c09_agree ops _ _ (first_diff_none _ _ _ F)). apply spec_c09_model. exact D.
Qed.

(* ================================================================ non-vacuity *)
(* tools/pvlib.py renders every Opts value as  mkOpts ns sub name help (amap_of consts) vars : all of them are in the domain *)
Lemma rendered_opts_in_domain ns sub name help consts vars : opts_map_like (mkOpts ns sub name help (amap_of consts) vars) = true.
Proof. apply opts_map_like_spec. cbn. apply amap_of_nodup. Qed.

(* a typical registry scenario (prefix p, common label z given twice; histogram vector n_v{c="1"}[b] with a child, a
   counter whose constant label is given twice, a pulling gauge, a gauge whose label clashes with z: its registration is
   refused; three gathers around an unregister and a local-vector flush), followed by refused constructor calls: common
   label le, constant label le on a histogram, a digit-led name with a repeated variable label, Desc::new with a repeated
   variable label and with non-ASCII letters *)
Definition ex09_reg : list op :=
  [OpRegistry (Some [112]) (Some [([122],[121]); ([122],[50])]);
   OpHistVec (mkHOpts (mkOpts [110] [] [118] [104] (amap_of [([99],[49])]) []) []) [[98]];
   OpWith 1%nat [[120]];
   OpObserve 2%nat (bits2f 0x3ff0000000000000);
   OpCounter NF (mkOpts [] [] [99] [104] (amap_of [([97],[49]); ([97],[50])]) []);
   OpInc 3%nat;
   OpPulling [103] [104] (bits2f 0x4000000000000000);
   OpGauge NI (mkOpts [] [] [107] [104] (amap_of [([122],[49])]) []);
   OpRegister 0%nat 1%nat; OpRegister 0%nat 3%nat; OpRegister 0%nat 4%nat; OpRegister 0%nat 5%nat;
   OpGather 0%nat;
   OpUnregister 0%nat 3%nat;
   OpGather 0%nat;
   OpLocal 1%nat;
   OpLvObserve 6%nat [[121]] (bits2f 0x3ff0000000000000);
   OpFlush 6%nat;
   OpGather 0%nat;
   OpRegistry None (Some [([108;101],[49])]);
   OpHistogram (mkHOpts (mkOpts [] [] [104] [104] (amap_of [([108;101],[49])]) []) []);
   OpCounterVec NU (mkOpts [] [] [57] [104] (amap_of []) []) [[97];[97]];
   OpDesc [99] [104] [[97];[97]] [];
   OpDesc [233] [104] [] [([223],[118])]].
(* two scenarios of the plugin's corpus (tools/p_C09.py), as rendered by pvlib.scen_coq *)
Definition ex09_corpus3 : list op :=
  [(OpRegistry (Some [112]) (Some [([97],[120]);([122],[121])]));
   (OpCounter NF (mkOpts [] [] [99] [104] (amap_of [([97],[49])]) []));
   (OpCounterVec NF (mkOpts [] [] [118] [104] (amap_of []) []) [[122]]);
   (OpWith 2%nat [[113]]);
   (OpGauge NI (mkOpts [] [] [103] [104] (amap_of [([98],[49])]) []));
   (OpRegister 0%nat 1%nat);
   (OpRegister 0%nat 2%nat);
   (OpRegister 0%nat 4%nat);
   (OpRegister 0%nat 3%nat);
   (OpGather 0%nat)].
Definition ex09_corpus1 : list op :=
  [(OpHistVec (mkHOpts (mkOpts [] [] [104] [104] (amap_of []) []) []) [[108;101]]);
   (OpHistVec (mkHOpts (mkOpts [] [] [104] [104] (amap_of [([108;101],[49])]) []) []) [[120]]);
   (OpHistogram (mkHOpts (mkOpts [] [] [104] [104] (amap_of [([108;101],[49])]) []) []));
   (OpCounterVec NU (mkOpts [] [] [99] [104] (amap_of [([108;101],[49])]) []) [[108;101;50]]);
   (OpCounterVec NU (mkOpts [] [] [99] [104] (amap_of []) []) [[108;101]])].
(* number of samples in every gather / number of refused constructor calls *)
Definition fam_counts (obs : list obs) : list nat :=
  flat_map (fun o => match o with OFams fs => [length (flat_map mf_metric fs)] | _ => [] end) obs.
Definition refused (obs : list obs) : nat :=
  length (filter (fun o => match o with ORes (Err _) | ODesc None => true | _ => false end) obs).

Example spec_c09_model_nonvacuous :
  dom09 ex09_reg = true /\ spec_c09 ex09_reg (run world0 ex09_reg) = true
  /\ fam_counts (run world0 ex09_reg) = [3%nat; 2%nat; 3%nat] /\ refused (run world0 ex09_reg) = 6%nat
  /\ dom09 ex09_corpus3 = true /\ spec_c09 ex09_corpus3 (run world0 ex09_corpus3) = true
  /\ fam_counts (run world0 ex09_corpus3) = [1%nat] /\ refused (run world0 ex09_corpus3) = 3%nat
  /\ dom09 ex09_corpus1 = true /\ spec_c09 ex09_corpus1 (run world0 ex09_corpus1) = true /\ refused (run world0 ex09_corpus1) = 3%nat.
Proof. vm_compute. repeat split. Qed.

(* the domain condition is needed: an Opts whose constant labels repeat a key is not a HashMap; on such a term the
   model exposes the label twice and the spec rightly rejects (no Rust caller can build this value) *)
Definition ex09_not_a_map : list op :=
  [OpRegistry None None; OpCounter NF (mkOpts [] [] [99] [104] [([97],[49]); ([97],[50])] []);
   OpRegister 0%nat 1%nat; OpGather 0%nat].
Example dom09_needed : dom09 ex09_not_a_map = false /\ spec_c09 ex09_not_a_map (run world0 ex09_not_a_map) = false.
Proof. vm_compute. split; reflexivity. Qed.
