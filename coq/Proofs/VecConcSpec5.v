(* C10: "the linearisation search does not answer NotFound" on ALL validated traces in the domain, collections included.
   Part 1 (this file): the linearisation list built from the ghost log - one action per logged operation, the key snapshot of a
   collection at its ACollect entry, the end of its value reads at the last entry of its window - and the proof that the spec's
   thread rows are exactly the threads' parts of that list, in real-time order.  Part 2: Proofs/VecConcSpec6.v (the simulation). *)
Require Import PV.Base.Prelude PV.Base.StrFacts PV.Model.Conc PV.Model.VecConc PV.Spec.SpecC10.
Require Import PV.Proofs.VecConcBase PV.Proofs.VecConcLin PV.Proofs.VecConcFacts PV.Proofs.VecConcRT PV.Proofs.VecConcStrict.
Require Import PV.Proofs.VecConcSpec PV.Proofs.VecConcSpec2 PV.Proofs.VecConcSpec3 PV.Proofs.VecConcSpec4.
From Coq Require Import Arith Lia Permutation Sorted.
Open Scope nat_scope.

Lemma nle_of_nat a b : a <= b -> (N.of_nat a <= N.of_nat b)%N.
Proof. intros. lia. Qed.

Definition odrec (s : vstate) (e : lent) : drec := match owner s e with Some d => d | None => (O, CBadOp, RUnit, O, O) end.
(* e is the last logged operation of the call d *)
Definition is_last (s : vstate) (d : drec) (e : lent) : bool :=
  forallb (fun e' => negb (inwin d e' && Nat.ltb (le_time e) (le_time e'))) (g_lin s).
Definition mk (tr : list label) (k : akind) (d : drec) : act := {| a_kind := k; a_c := conv tr d |}.
Definition end_part (tr : list label) (s : vstate) (d : drec) (e : lent) : list act := if is_last s d e then [mk tr KEnd d] else [].
Definition entry_acts (tr : list label) (s : vstate) (e : lent) : list act :=
  match le_op e with
  | ACollect => mk tr KSnap (odrec s e) :: end_part tr s (odrec s e) e
  | ARead _ => end_part tr s (odrec s e) e
  | o => [mk tr (kind_of_op o) (odrec s e)]
  end.

Lemma is_last_spec s d e : is_last s d e = true <-> forall e', In e' (g_lin s) -> inwin d e' = true -> le_time e' <= le_time e.
Proof.
  unfold is_last. rewrite forallb_forall. split; intros H e' He'.
  - intros Hw. specialize (H e' He'). rewrite Hw in H. cbn in H. apply negb_true_iff, Nat.ltb_ge in H. exact H.
  - apply negb_true_iff. destruct (inwin d e') eqn:Hw; auto. cbn. apply Nat.ltb_ge. auto.
Qed.

Lemma sorted_last (es : list lent) : es <> [] -> StronglySorted (fun a b => le_time a < le_time b) es ->
  exists el, In el es /\ forall x, In x es -> le_time x <= le_time el.
Proof.
  induction es as [|a es IH]; [congruence|]. intros _ S. apply StronglySorted_inv in S as [S F]. destruct es as [|b es].
  - exists a. split; [left; auto|]. intros x [<-|[]]; lia.
  - destruct (IH ltac:(discriminate) S) as (el & Hel & Hmax). exists el. split; [right; auto|].
    intros x [<-|Hx]; auto. rewrite Forall_forall in F. pose proof (F el Hel). lia.
Qed.

Lemma filter_true_all {A} (f : A -> bool) l : (forall x, In x l -> f x = true) -> filter f l = l.
Proof. induction l as [|a l IH]; cbn; auto. intros H. rewrite (H a (or_introl eq_refl)). f_equal. apply IH. intros; apply H; right; auto. Qed.
Lemma filter_flat_map {A B} (p : B -> bool) (q : A -> bool) (f : A -> list B) l :
  (forall x b, In x l -> In b (f x) -> p b = q x) -> filter p (flat_map f l) = flat_map f (filter q l).
Proof.
  induction l as [|x l IH]; intros H; cbn; auto. rewrite filter_app, IH by (intros; apply H; auto; right; auto).
  destruct (q x) eqn:E; cbn.
  - f_equal. apply filter_true_all. intros b Hb. rewrite (H x b); auto. left; auto.
  - replace (filter p (f x)) with (@nil B); auto. symmetry. clear IH. assert (Hx : forall b, In b (f x) -> p b = false) by (intros b Hb; rewrite (H x b); auto; left; auto).
    revert Hx. generalize (f x). induction l0 as [|b l0 IH0]; intros Hx; cbn; auto. rewrite (Hx b) by (left; auto). apply IH0. intros; apply Hx; right; auto.
Qed.

Section Lin5.
Variables (nl : nat) (tr : list label) (s : vstate).
Hypothesis R : reach nl tr s.
Hypothesis Hopen : forall t, g_open s t = None.
Let cs := map (conv tr) (rev (g_done s)).
Let G := reach_ginv nl tr s R.
Let E := rev (g_lin s).
Definition lacts : list act := flat_map (entry_acts tr s) (rev (g_lin s)).

Lemma entry_rec e : In e (g_lin s) ->
  exists c r ti trr, In (le_tid e, c, r, ti, trr) (g_done s) /\ ti <= le_time e <= trr
    /\ In (opres e) (lins_in (le_tid e) ti trr (g_lin s)) /\ ret_matches nl c r (lins_in (le_tid e) ti trr (g_lin s))
    /\ ti < trr /\ nth_error tr ti = Some (LE (ECall (le_tid e) c)) /\ odrec s e = (le_tid e, c, r, ti, trr).
Proof.
  intros He. destruct (owner_done nl tr s R Hopen e He) as (c & r & ti & trr & Hd & Hw & Hin & Hm & Hti & Hc & Hr).
  exists c, r, ti, trr. repeat split; auto; try lia. unfold odrec. rewrite (owner_unique nl tr s R e _ c r ti trr Hd eq_refl Hw). reflexivity.
Qed.

Lemma entry_acts_call e a : In e (g_lin s) -> In a (entry_acts tr s e) -> a_c a = conv tr (odrec s e).
Proof.
  intros He. unfold entry_acts, end_part. destruct (le_op e); cbn; try (intros [<-|[]]; reflexivity).
  all: destruct (is_last s (odrec s e) e); cbn; try tauto.
  all: try (intros [<-|[<-|[]]]; reflexivity). all: try (intros [<-|[]]; reflexivity).
Qed.
Lemma entry_acts_tid e a : In e (g_lin s) -> In a (entry_acts tr s e) -> atid a = le_tid e.
Proof.
  intros He Ha. unfold atid. rewrite (entry_acts_call e a He Ha). destruct (entry_rec e He) as (c & r & ti & trr & _ & _ & _ & _ & _ & _ & ->). reflexivity.
Qed.
Lemma entry_acts_sorted e : StronglySorted klt (entry_acts tr s e).
Proof.
  unfold entry_acts, end_part. destruct (le_op e); try apply ss1.
  - destruct (is_last s (odrec s e) e); [apply ss2; right; cbn; auto | apply ss1].
  - destruct (is_last s (odrec s e) e); [apply ss1 | apply SSorted_nil].
Qed.

(* the window of a collection: the ACollect entry first, then reads only *)
Lemma collect_window t r ti trr es : In (t, CVCollect, r, ti, trr) (g_done s) ->
  map opres es = lins_in t ti trr (g_lin s) -> 
  exists e1 rest snap vis, es = e1 :: rest /\ opres e1 = (ACollect, RKeys snap) /\ map opres rest = reads vis /\ r = RColl (vis_result vis)
                           /\ Permutation (vis_keys vis) snap.
Proof.
  intros Hd Hes. destruct (G_done tr s G _ _ _ _ _ Hd) as (_ & _ & Hm & _). cbn in Hm. destruct Hm as (snap & vis & Hr & Hls & Hp).
  rewrite Hls in Hes. destruct es as [|e1 rest]; [discriminate|]. cbn in Hes. assert (Ho : opres e1 = (ACollect, RKeys snap)) by (inversion Hes; auto). assert (Hrs : map opres rest = reads vis) by (inversion Hes; auto).
  exists e1, rest, snap, vis. repeat split; auto.
Qed.
Lemma read_op rest vis e : map opres rest = reads vis -> In e rest -> exists c v, le_op e = ARead c /\ le_res e = RValue v.
Proof.
  intros H He. assert (Hin : In (opres e) (reads vis)) by (rewrite <- H; apply in_map; auto).
  destruct (reads_only_reads _ _ _ Hin) as (c & v & A & B). eauto.
Qed.

(* two entries of one thread: all actions of the earlier precede all actions of the later *)
Lemma acts_ordered5 e e' a b : In e (g_lin s) -> In e' (g_lin s) -> le_tid e = le_tid e' -> le_time e < le_time e' ->
  In a (entry_acts tr s e) -> In b (entry_acts tr s e') -> klt a b.
Proof.
  intros He He' Ht Hlt Ha Hb.
  pose proof (entry_acts_call e a He Ha) as Ca. pose proof (entry_acts_call e' b He' Hb) as Cb.
  destruct (entry_rec e He) as (c & r & ti & trr & Hd & Hw & Hin & Hm & Hti & Hc & Eo).
  destruct (entry_rec e' He') as (c' & r' & ti' & trr' & Hd' & Hw' & Hin' & Hm' & Hti' & Hc' & Eo').
  unfold klt. rewrite Ca, Cb, Eo, Eo'. cbn [conv c_ci]. rewrite <- Ht in *.
  destruct (G_disj tr s G _ _ _ _ _ _ _ _ _ Hd Hd') as [Eq|[Eq|Eq]]; [| | lia].
  2:{ left. pose proof (evpos_strict tr ti ti' _ Hc ltac:(lia)). lia. }
  inversion Eq; subst c' r' ti' trr'. right. split; auto.
  destruct (window_list nl tr s R _ _ _ _ _ Hd) as (es & Hes & Ses & Hmem).
  assert (M1 : In e es) by (apply Hmem; auto). assert (M2 : In e' es) by (apply Hmem; auto).
  assert (Hne : e <> e') by (intros ->; lia).
  destruct c; try (rewrite <- Hes in Hm; cbn in Hm; tauto).
  - rewrite <- Hes in Hm. cbn in Hm. destruct (Nat.eqb (length k) nl); [destruct Hm as (_ & ch & Hm) | destruct Hm as (_ & Hm)].
    + destruct es as [|e1 [|e2 [|e3 es]]]; try discriminate. inversion Hm as [[O1 O2]].
      apply StronglySorted_inv in Ses as [_ F]. apply Forall_inv in F.
      destruct M1 as [<-|[<-|[]]], M2 as [<-|[<-|[]]]; try congruence; try lia.
      assert (P1 : le_op e1 = AGet k) by (unfold opres in O1; inversion O1; auto).
      assert (P2 : le_op e2 = AUpd ch d) by (unfold opres in O2; inversion O2; auto).
      unfold entry_acts in Ha, Hb. rewrite P1 in Ha. rewrite P2 in Hb. destruct Ha as [<-|[]]. destruct Hb as [<-|[]]. cbn. lia.
    + destruct es; [destruct M1 | discriminate].
  - rewrite <- Hes in Hm. cbn in Hm. destruct (Nat.eqb (length k) nl).
    + destruct Hm as [(_ & Hm)|(_ & Hm)]; destruct es as [|e1 [|e2 es]]; try discriminate; destruct M1 as [<-|[]], M2 as [<-|[]]; congruence.
    + destruct Hm as (_ & Hm). destruct es; [destruct M1 | discriminate].
  - rewrite <- Hes in Hm. cbn in Hm. destruct Hm as (_ & Hm). destruct es as [|e1 [|e2 es]]; try discriminate. destruct M1 as [<-|[]], M2 as [<-|[]]. congruence.
  - (* a collection *)
    destruct (collect_window _ _ _ _ es Hd Hes) as (e1 & rest & snap & vis & -> & O1 & Hrest & _ & _).
    apply StronglySorted_inv in Ses as [_ F]. rewrite Forall_forall in F.
    assert (Hnl : is_last s (le_tid e, CVCollect, r, ti, trr) e = false).
    { destruct (is_last s (le_tid e, CVCollect, r, ti, trr) e) eqn:El; auto. rewrite is_last_spec in El.
      specialize (El e' He'). rewrite (proj2 (inwin_spec _ _ _ _ _ e')) in El by auto. specialize (El eq_refl). lia. }
    assert (He'r : In e' rest).
    { destruct M2 as [<-|]; auto. destruct M1 as [<-|M1]; [congruence|]. apply F in M1. lia. }
    destruct (read_op _ _ _ Hrest He'r) as (c2 & v2 & Po' & _).
    unfold entry_acts, end_part in Ha, Hb. rewrite Eo in Ha. rewrite Eo' in Hb. rewrite Hnl in Ha. rewrite Po' in Hb.
    destruct (is_last s (le_tid e, CVCollect, r, ti, trr) e'); [|destruct Hb]. destruct Hb as [<-|[]].
    destruct M1 as [<-|M1].
    + assert (P1 : le_op e1 = ACollect) by (unfold opres in O1; inversion O1; auto). rewrite P1 in Ha. destruct Ha as [<-|[]]. cbn. lia.
    + destruct (read_op _ _ _ Hrest M1) as (c1 & v1 & Po & _). rewrite Po in Ha. destruct Ha.
Qed.

Lemma in_acts_of_conv d k : In (mk tr k d) (acts_of false nl (conv tr d)) <->
  match d with (_, c, _, _, _) =>
    match c with
    | CWithInc key _ => length key = nl /\ (k = KGet \/ k = KUpd)
    | CRemove key => length key = nl /\ k = KRem
    | CVReset => k = KReset
    | CVCollect => k = KSnap \/ k = KEnd
    | _ => False
    end end.
Proof.
  destruct d as [[[[t c] r] ti] trr]. unfold acts_of, mk. cbn [conv c_call]. destruct c; cbn; try tauto.
  - destruct (Nat.eqb (length k0) nl) eqn:El; [apply Nat.eqb_eq in El | apply Nat.eqb_neq in El]; cbn; split.
    + intros [H|[H|[]]]; inversion H; auto.
    + intros (_ & [->| ->]); auto.
    + tauto.
    + tauto.
  - destruct (Nat.eqb (length k0) nl) eqn:El; [apply Nat.eqb_eq in El | apply Nat.eqb_neq in El]; cbn; split.
    + intros [H|[]]; inversion H; auto.
    + intros (_ & ->); auto.
    + tauto.
    + tauto.
  - split; [intros [H|[]]; inversion H; auto | intros ->; auto].
  - split; [intros [H|[H|[]]]; inversion H; auto | intros [->| ->]; auto].
Qed.

Lemma rows_equal5 t : flat_map (acts_of false nl) (filter (fun c => Nat.eqb (c_t c) t) cs) = filter (tidb t) lacts.
Proof.
  assert (Hfilt : filter (tidb t) lacts = flat_map (entry_acts tr s) (filter (fun e => Nat.eqb (le_tid e) t) E)).
  { unfold lacts. apply filter_flat_map. intros e b He Hb. apply (in_E s) in He. unfold tidb. rewrite (entry_acts_tid e b He Hb). reflexivity. }
  rewrite Hfilt. apply (sorted_unique klt klt_irrefl klt_asym).
  - apply ssorted_flat_map; [intros; apply acts_of_sorted|].
    eapply ssorted_impl_in; [apply (thread_calls_sorted nl tr s R t)|].
    intros x y _ _ Hxy a b Ha Hb. apply acts_of_call in Ha, Hb. left. rewrite Ha, Hb. exact Hxy.
  - apply ssorted_flat_map; [intros; apply entry_acts_sorted|].
    eapply ssorted_impl_in; [apply ssorted_filter'; apply (E_sorted nl tr s R)|].
    intros e e' He He' Hlt a b Ha Hb. apply filter_In in He as [He Ht]. apply filter_In in He' as [He' Ht'].
    apply (in_E s) in He, He'. apply Nat.eqb_eq in Ht, Ht'. apply (acts_ordered5 e e' a b He He'); auto; congruence.
  - intros a. rewrite !in_flat_map. split.
    + (* every action of a call of t is among the actions of one of its entries *)
      intros (c & Hc & Ha). apply filter_In in Hc as [Hc Ht]. apply Nat.eqb_eq in Ht.
      apply (in_cs2 tr s) in Hc as ([[[[t0 c0] r0] ti0] tr0] & Hd & ->). cbn in Ht. subst t0.
      destruct (G_done tr s G _ _ _ _ _ Hd) as (_ & _ & Hm & _). rewrite (reach_nl nl tr s R) in Hm.
      assert (Hgoal : forall x, In x (lins_in t ti0 tr0 (g_lin s)) -> (forall e, In e (g_lin s) -> opres e = x -> odrec s e = (t, c0, r0, ti0, tr0) -> In a (entry_acts tr s e)) ->
                      exists e, In e (filter (fun e => Nat.eqb (le_tid e) t) E) /\ In a (entry_acts tr s e)).
      { intros x Hx Hin. destruct (entry_of_done s t _ _ ti0 tr0 x Hd Hx) as (e & He & Eo & Et & Hw).
        exists e. split; [apply filter_In; split; [apply (in_E s); auto | rewrite Et; apply Nat.eqb_refl]|].
        apply Hin; auto. unfold odrec. rewrite (owner_unique nl tr s R e t c0 r0 ti0 tr0 Hd Et Hw). reflexivity. }
      pose proof (acts_of_call _ _ _ Ha) as Hac. destruct a as [ak ac]. cbn in Hac. subst ac.
      change {| a_kind := ak; a_c := conv tr (t, c0, r0, ti0, tr0) |} with (mk tr ak (t, c0, r0, ti0, tr0)) in *.
      apply (proj1 (in_acts_of_conv (t, c0, r0, ti0, tr0) ak)) in Ha.
      destruct c0; try tauto; cbn in Hm.
      * destruct Ha as (Hl & Hk). apply Nat.eqb_eq in Hl. rewrite Hl in Hm. destruct Hm as (_ & ch & Hls). destruct Hk as [->| ->].
        -- apply (Hgoal (AGet k, RChild ch)); [rewrite Hls; left; auto|]. intros e _ Eo Ed. unfold entry_acts. unfold opres in Eo. inversion Eo as [[Ho Hr]]. rewrite Ho, Ed. left; auto.
        -- apply (Hgoal (AUpd ch d, RDone)); [rewrite Hls; right; left; auto|]. intros e _ Eo Ed. unfold entry_acts. unfold opres in Eo. inversion Eo as [[Ho Hr]]. rewrite Ho, Ed. left; auto.
      * destruct Ha as (Hl & ->). apply Nat.eqb_eq in Hl. rewrite Hl in Hm.
        assert (Hx : exists x, In (ARemove k, x) (lins_in t ti0 tr0 (g_lin s))) by (destruct Hm as [(_ & ->)|(_ & ->)]; eexists; left; eauto).
        destruct Hx as (x & Hx). apply (Hgoal _ Hx). intros e _ Eo Ed. unfold entry_acts. unfold opres in Eo. inversion Eo as [[Ho Hr]]. rewrite Ho, Ed. left; auto.
      * subst ak. destruct Hm as (_ & Hls). apply (Hgoal (AReset, RDone)); [rewrite Hls; left; auto|].
        intros e _ Eo Ed. unfold entry_acts. unfold opres in Eo. inversion Eo as [[Ho Hr]]. rewrite Ho, Ed. left; auto.
      * (* a collection: the snapshot at its ACollect entry, the end at the last entry of its window *)
        destruct (window_list nl tr s R _ _ _ _ _ Hd) as (es & Hes & Ses & Hmem).
        destruct (collect_window _ _ _ _ es Hd Hes) as (e1 & rest & snap & vis & Ees & O1 & Hrest & _ & _).
        destruct Ha as [->| ->].
        -- assert (He1 : In e1 es) by (rewrite Ees; left; auto). apply Hmem in He1 as (He1 & Et & Hw).
           exists e1. split; [apply filter_In; split; [apply (in_E s); auto | rewrite Et; apply Nat.eqb_refl]|].
           unfold entry_acts. assert (P1 : le_op e1 = ACollect) by (unfold opres in O1; inversion O1; auto). rewrite P1.
           unfold odrec. rewrite (owner_unique nl tr s R e1 t _ _ _ _ Hd Et Hw). left; auto.
        -- destruct (sorted_last es ltac:(rewrite Ees; discriminate) Ses) as (el & Hel & Hmax).
           pose proof Hel as Hel'. apply Hmem in Hel' as (Hel1 & Et & Hw).
           exists el. split; [apply filter_In; split; [apply (in_E s); auto | rewrite Et; apply Nat.eqb_refl]|].
           assert (Hod : odrec s el = (t, CVCollect, r0, ti0, tr0)) by (unfold odrec; rewrite (owner_unique nl tr s R el t _ _ _ _ Hd Et Hw); reflexivity).
           assert (Hlast : is_last s (t, CVCollect, r0, ti0, tr0) el = true).
           { apply is_last_spec. intros e' He' Hw'. apply Hmax. apply Hmem. apply inwin_spec in Hw'. tauto. }
           unfold entry_acts, end_part. rewrite Hod, Hlast. rewrite Ees in Hel. destruct Hel as [<-|Hel].
           ++ assert (P1 : le_op e1 = ACollect) by (unfold opres in O1; inversion O1; auto). rewrite P1. right; left; auto.
           ++ destruct (read_op _ _ _ Hrest Hel) as (c2 & v2 & Po & _). rewrite Po. left; auto.
    + (* the actions of an entry of t belong to its call *)
      intros (e & He & Ha). apply filter_In in He as [He Ht]. apply (in_E s) in He. apply Nat.eqb_eq in Ht.
      destruct (entry_rec e He) as (c & r & ti & trr & Hd & Hw & Hin & Hm & _ & _ & Eo).
      exists (conv tr (le_tid e, c, r, ti, trr)). split.
      * apply filter_In. split; [apply (in_cs2 tr s); eexists; split; [exact Hd | reflexivity] | cbn; rewrite Ht; apply Nat.eqb_refl].
      * pose proof (entry_acts_call e a He Ha) as Hac. rewrite Eo in Hac. destruct a as [ak ac]. cbn in Hac. subst ac.
        change {| a_kind := ak; a_c := conv tr (le_tid e, c, r, ti, trr) |} with (mk tr ak (le_tid e, c, r, ti, trr)) in *.
        apply (proj2 (in_acts_of_conv (le_tid e, c, r, ti, trr) ak)). unfold opres in Hin. unfold entry_acts, end_part, mk in Ha.
        destruct (le_op e) eqn:Eop.
        -- destruct Ha as [Ha|[]]. inversion Ha; subst ak. destruct (rm_get _ _ _ _ _ _ Hm Hin) as (d & ch & -> & Hl & _). auto.
        -- destruct Ha as [Ha|[]]. inversion Ha; subst ak. destruct (rm_upd _ _ _ _ _ _ _ Hm Hin) as (k & -> & Hl & _). auto.
        -- destruct Ha as [Ha|[]]. inversion Ha; subst ak. destruct (rm_remove _ _ _ _ _ _ Hm Hin) as (-> & Hl & _). auto.
        -- destruct Ha as [Ha|[]]. inversion Ha; subst ak. rewrite (rm_reset _ _ _ _ _ Hm Hin). reflexivity.
        -- rewrite (rm_collect_like _ _ _ _ _ _ Hm Hin) by auto. destruct Ha as [Ha|Ha]; [inversion Ha; auto|].
           destruct (is_last s (odrec s e) e); [|destruct Ha]. destruct Ha as [Ha|[]]. inversion Ha; auto.
        -- rewrite (rm_collect_like _ _ _ _ _ _ Hm Hin) by eauto.
           destruct (is_last s (odrec s e) e); [|destruct Ha]. destruct Ha as [Ha|[]]. inversion Ha; auto.
Qed.

Lemma lacts_member5 a : In a lacts -> exists e c r ti trr, In e (g_lin s) /\ In (le_tid e, c, r, ti, trr) (g_done s) /\ ti <= le_time e <= trr /\ ti < trr
                                   /\ a_c a = conv tr (le_tid e, c, r, ti, trr).
Proof.
  unfold lacts. intros H. apply in_flat_map in H as (e & He & Ha). apply (in_E s) in He.
  destruct (entry_rec e He) as (c & r & ti & trr & Hd & Hw & _ & _ & Hti & _ & Eo).
  exists e, c, r, ti, trr. repeat split; auto; try lia. rewrite (entry_acts_call e a He Ha), Eo. reflexivity.
Qed.
Lemma lacts_window5 a : In a lacts -> (c_ri (a_c a) <? c_ci (a_c a))%N = false.
Proof.
  intros H. destruct (lacts_member5 a H) as (e & c & r & ti & trr & _ & _ & _ & Hti & ->). cbn [conv c_ri c_ci].
  apply N.ltb_ge. apply nle_of_nat. apply evpos_mono. apply Nat.lt_le_incl; exact Hti.
Qed.
Lemma lacts_tid5 a : In a lacts -> atid a < S (max_tid cs).
Proof.
  intros H. destruct (lacts_member5 a H) as (e & c & r & ti & trr & _ & Hd & _ & _ & Ea). unfold atid. rewrite Ea.
  assert (Hin : In (conv tr (le_tid e, c, r, ti, trr)) cs) by (apply (in_cs2 tr s); eexists; split; [exact Hd | reflexivity]).
  pose proof (max_tid_bound cs _ Hin). lia.
Qed.

Lemma ss_rt_ok L : StronglySorted (fun a b => (c_ri (a_c b) <? c_ci (a_c a))%N = false) L -> rt_ok L.
Proof. induction 1 as [|a L S IH F]; cbn; auto. split; auto. rewrite Forall_forall in F. auto. Qed.

Lemma lacts_rt5 : rt_ok lacts.
Proof.
  apply ss_rt_ok. unfold lacts. apply ssorted_flat_map.
  - (* the actions of one entry belong to one call *)
    intros e He. apply (in_E s) in He.
    assert (Hsame : forall a b, In a (entry_acts tr s e) -> In b (entry_acts tr s e) -> (c_ri (a_c b) <? c_ci (a_c a))%N = false).
    { intros a b Ha Hb. rewrite (entry_acts_call e a He Ha), (entry_acts_call e b He Hb).
      destruct (entry_rec e He) as (c & r & ti & trr & _ & _ & _ & _ & Hti & _ & ->). cbn [conv c_ri c_ci].
      apply N.ltb_ge. apply nle_of_nat. apply evpos_mono. apply Nat.lt_le_incl; exact Hti. }
    revert Hsame. generalize (entry_acts tr s e). induction l as [|x l IHl]; intros Hs; constructor.
    + apply IHl. intros; apply Hs; right; auto.
    + apply Forall_forall. intros y Hy. apply Hs; [left | right]; auto.
  - eapply ssorted_impl_in; [apply (E_sorted nl tr s R)|].
    intros e e' He He' Hlt a b Ha Hb. apply (in_E s) in He, He'.
    rewrite (entry_acts_call e a He Ha), (entry_acts_call e' b He' Hb).
    destruct (entry_rec e He) as (c & r & ti & trr & _ & Hw & _ & _ & _ & _ & ->).
    destruct (entry_rec e' He') as (c' & r' & ti' & trr' & _ & Hw' & _ & _ & _ & _ & ->). cbn [conv c_ri c_ci].
    apply N.ltb_ge. apply nle_of_nat. apply evpos_mono. cbn beta in Hlt. clear - Hw Hw' Hlt. lia.
Qed.

Lemma all_acts_rows : all_acts false nl cs = rows_of (S (max_tid cs)) lacts.
Proof. unfold all_acts, rows_of. apply map_ext. intros t. etransitivity; [apply (thread_acts_eq nl tr s R t) | apply rows_equal5]. Qed.
End Lin5.
