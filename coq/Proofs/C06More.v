(* C06  additions to C06Facts.v:
   1. the no-collision hypotheses are decidable on a finite pool (so that they can be discharged
      by computation for a concrete history, and shown satisfiable);
   2. a history of OpRegister / OpUnregister calls of the WORLD model (the interpreter that is
      compared with the implementation) on one registry is exactly a registry-level history
      (reg_trace / reg_final), which is what the theorems of C06Facts.v speak about;
   3. the scenario of the repaired defect (commit b8e028c) evaluated on the model. *)
Require Import PV.Base.Prelude PV.Base.StrFacts PV.Base.Utf8 PV.Base.Fnv PV.Base.F64.
Require Import PV.Model.Proto PV.Model.Desc PV.Model.Value PV.Model.Hist PV.Model.Vec PV.Model.Registry PV.Model.World.
Require Import PV.Proofs.DescFacts PV.Proofs.C06Facts.
From Coq Require Import Permutation.
Open Scope N_scope.

(* ====================================================================================== *)
(* 1. the hypotheses on a finite pool                                                      *)
(* ====================================================================================== *)
Lemma ids_exact_on_incl (P Q : Desc -> Prop) : (forall d, P d -> Q d) -> ids_exact_on Q -> ids_exact_on P.
Proof. intros H HQ d1 d2 H1 H2. apply HQ; auto. Qed.
Lemma dims_exact_on_incl (P Q : Desc -> Prop) : (forall d, P d -> Q d) -> dims_exact_on Q -> dims_exact_on P.
Proof. intros H HQ d1 d2 H1 H2. apply HQ; auto. Qed.
Lemma cids_exact_on_incl (P Q : list Desc -> Prop) : (forall d, P d -> Q d) -> cids_exact_on Q -> cids_exact_on P.
Proof. intros H HQ d1 d2 H1 H2. apply HQ; auto. Qed.

Definition ids_exact_list_b (l : list Desc) : bool :=
  forallb (fun a => forallb (fun b => Bool.eqb (d_id a =? d_id b) (same_idb a b)) l) l.
Definition dims_exact_list_b (l : list Desc) : bool :=
  forallb (fun a => forallb (fun b => negb (str_eqb (d_fq_name a) (d_fq_name b))
                                      || Bool.eqb (d_dim a =? d_dim b) (same_dimb a b)) l) l.
Definition same_id_set_b (a b : list Desc) : bool :=
  forallb (fun i => memN i (map d_id b)) (map d_id a) && forallb (fun i => memN i (map d_id a)) (map d_id b).
Definition cids_exact_list_b (cl : list (list Desc)) : bool :=
  forallb (fun a => forallb (fun b => negb (collector_id a =? collector_id b) || same_id_set_b a b) cl) cl.

Lemma ids_exact_on_list l : ids_exact_list_b l = true -> ids_exact_on (fun d => In d l).
Proof.
  unfold ids_exact_list_b, ids_exact_on. intros H d1 d2 H1 H2. rewrite forallb_forall in H. specialize (H d1 H1).
  rewrite forallb_forall in H. specialize (H d2 H2). apply Bool.eqb_prop in H.
  rewrite <- same_idb_spec, <- H, N.eqb_eq. tauto.
Qed.
Lemma dims_exact_on_list l : dims_exact_list_b l = true -> dims_exact_on (fun d => In d l).
Proof.
  unfold dims_exact_list_b, dims_exact_on. intros H d1 d2 H1 H2 En. rewrite forallb_forall in H. specialize (H d1 H1).
  rewrite forallb_forall in H. specialize (H d2 H2). rewrite En, str_eqb_refl in H. cbn [negb orb] in H.
  apply Bool.eqb_prop in H. rewrite <- same_dimb_spec, <- H, N.eqb_eq. tauto.
Qed.
Lemma cids_exact_on_list cl : cids_exact_list_b cl = true -> cids_exact_on (fun ds => In ds cl).
Proof.
  unfold cids_exact_list_b, cids_exact_on. intros H ds1 ds2 H1 H2 E i. rewrite forallb_forall in H. specialize (H ds1 H1).
  rewrite forallb_forall in H. specialize (H ds2 H2). rewrite E, N.eqb_refl in H. cbn [negb orb] in H.
  unfold same_id_set_b in H. apply andb_true_iff in H as [Ha Hb]. rewrite forallb_forall in Ha, Hb.
  split; intros Hi; [apply memN_In, Ha|apply memN_In, Hb]; exact Hi.
Qed.

Lemma hist_P_flat {C} (ops : list (regop C)) d : hist_P ops d <-> In d (flat_map op_ds ops).
Proof.
  unfold hist_P. rewrite in_flat_map. split; intros (o & H1 & H2); exists o; auto.
Qed.
Lemma hist_CP_map {C} (ops : list (regop C)) ds : hist_CP ops ds <-> In ds (map op_ds ops).
Proof.
  unfold hist_CP. rewrite in_map_iff. split; intros (o & H1 & H2); exists o; auto.
Qed.

(* the three hypotheses of history_refines_fresh, decided by computation for a concrete history *)
Definition history_collision_free_b {C} (ops : list (regop C)) : bool :=
  ids_exact_list_b (flat_map op_ds ops) && dims_exact_list_b (flat_map op_ds ops) && cids_exact_list_b (map op_ds ops).
Theorem history_collision_free {C} (ops : list (regop C)) :
  history_collision_free_b ops = true ->
  ids_exact_on (hist_P ops) /\ dims_exact_on (hist_P ops) /\ cids_exact_on (hist_CP ops).
Proof.
  unfold history_collision_free_b. rewrite !andb_true_iff. intros [[H1 H2] H3]. split; [|split].
  - eapply ids_exact_on_incl; [|apply ids_exact_on_list; exact H1]. intros d. apply hist_P_flat.
  - eapply dims_exact_on_incl; [|apply dims_exact_on_list; exact H2]. intros d. apply hist_P_flat.
  - eapply cids_exact_on_incl; [|apply cids_exact_on_list; exact H3]. intros d. apply hist_CP_map.
Qed.

(* ====================================================================================== *)
(* 2. world histories on one registry are registry histories                               *)
(* ====================================================================================== *)
Lemma c6_nth_error_list_set {A} (l : list A) : forall i x y, nth_error l i = Some y -> nth_error (list_set l i x) i = Some x.
Proof.
  induction l as [|a l IH]; intros [|i] x y H; cbn in *; try discriminate; auto. eapply IH; eauto.
Qed.

(* the call [o] of the world model, made on registry slot [r], is the registry-level call [ro] *)
Inductive reg_call (w : world) (r : nat) : op -> regop collector -> Prop :=
| RC_register s c ds : collector_of w (slot w s) = Some (c, ds) -> reg_call w r (OpRegister r s) (RRegister ds c)
| RC_unregister s c ds : collector_of w (slot w s) = Some (c, ds) -> reg_call w r (OpUnregister r s) (RUnregister ds).

Lemma collector_of_set_reg w x h : collector_of (set_reg w x) h = collector_of w h.
Proof. destruct h; reflexivity. Qed.
Lemma reg_call_set_reg w x r o ro : reg_call w r o ro -> reg_call (set_reg w x) r o ro.
Proof.
  intros H. destruct H as [s c ds H|s c ds H].
  - apply RC_register. rewrite collector_of_set_reg. exact H.
  - apply (RC_unregister _ _ s c ds). rewrite collector_of_set_reg. exact H.
Qed.

Definition obs_of_res (x : result unit) : obs := ORes x.
Lemma c6_Forall2_impl {A B} (R1 R2 : A -> B -> Prop) l1 l2 :
  (forall a b, R1 a b -> R2 a b) -> Forall2 R1 l1 l2 -> Forall2 R2 l1 l2.
Proof. intros H F. induction F; constructor; auto. Qed.

Theorem world_history_is_registry_history ops : forall w rops r ri rc,
  slot w r = HRegistry ri -> nth_error (w_reg w) ri = Some rc ->
  Forall2 (reg_call w r) ops rops ->
  run w ops = map obs_of_res (reg_trace rc rops)
  /\ nth_error (w_reg (run_world w ops)) ri = Some (reg_final rc rops)
  /\ w_slots (run_world w ops) = w_slots w /\ w_v (run_world w ops) = w_v w
  /\ w_h (run_world w ops) = w_h w /\ w_vec (run_world w ops) = w_vec w.
Proof.
  induction ops as [|o ops IH]; intros w rops r ri rc Hs Hr F; inversion F as [|? ro ? rops' Hc F']; subst.
  - cbn. repeat split; auto.
  - cbn [run run_world reg_trace reg_final map].
    assert (St : step w o = (match snd (reg_step rc ro) with
                             | Ok _ => set_reg w (list_set (w_reg w) ri (fst (reg_step rc ro)))
                             | Err _ => w
                             end, obs_of_res (snd (reg_step rc ro)))).
    { destruct Hc as [s c ds Hc|s c ds Hc].
      - rewrite (world_register_step w r s ri rc c ds Hs Hc Hr). cbn [reg_step]. destruct (reg_register rc ds c); reflexivity.
      - rewrite (world_unregister_step w r s ri rc c ds Hs Hc Hr). cbn [reg_step]. destruct (reg_unregister rc ds); reflexivity. }
    rewrite St. cbn [fst snd].
    destruct (snd (reg_step rc ro)) as [[]|e] eqn:E.
    + set (w1 := set_reg w (list_set (w_reg w) ri (fst (reg_step rc ro)))).
      destruct (IH w1 rops' r ri (fst (reg_step rc ro))) as (H1 & H2 & H3 & H4 & H5 & H6).
      * exact Hs.
      * unfold w1. cbn [set_reg w_reg]. eapply c6_nth_error_list_set. exact Hr.
      * eapply c6_Forall2_impl; [|exact F']. intros a b Hab. apply reg_call_set_reg. exact Hab.
      * rewrite H1. repeat split; auto.
    + rewrite (reg_step_err rc ro e E).
      destruct (IH w rops' r ri rc Hs Hr F') as (H1 & H2 & H3). rewrite H1. repeat split; auto; apply H3.
Qed.

(* ====================================================================================== *)
(* 3. the scenario of the repaired defect, on the model                                    *)
(* ====================================================================================== *)
Definition s_t : str := [116].                       (* t *)
Definition s_fresh : str := [102;114;101;115;104].   (* fresh *)
Definition s_h : str := [104].                       (* h *)
Definition s_helpA : str := [104;101;108;112;32;65]. (* help A *)
Definition s_helpB : str := [104;101;108;112;32;66]. (* help B *)
Definition defect_ops : list op :=
  [ OpRegistry None None;
    OpCounter NF (mkOpts [] [] s_t s_h [] []);
    OpRegister 0 1;
    OpCustom [(s_fresh, s_helpA, [], []); (s_t, s_h, [], [])] [];
    OpRegister 0 2;                                  (* refused on its 2nd descriptor *)
    OpCounter NF (mkOpts [] [] s_fresh s_helpB [] []);
    OpRegister 0 3;                                  (* the 1st descriptor's name is still free for any help *)
    OpGather 0 ].
Lemma defect_scenario_model :
  run world0 defect_ops =
  [ ORes (Ok tt); ORes (Ok tt); ORes (Ok tt); ORes (Ok tt); ORes (Err EAlreadyReg); ORes (Ok tt); ORes (Ok tt);
    OFams [ mkMF s_fresh s_helpB COUNTER [mkMetric [] None (Some f_zero) None None None None];
            mkMF s_t s_h COUNTER [mkMetric [] None (Some f_zero) None None None None] ] ].
Proof. vm_compute. reflexivity. Qed.

(* a history that satisfies the hypotheses of history_refines_fresh and exercises every clause:
   accepted, refused for an equal descriptor, refused for another help on the 2nd descriptor,
   the same collector twice, unregister, unregister again, register again *)
Definition mk_d (fq help : str) (consts : list (str * str)) : Desc :=
  match desc_new fq help [] consts with Some d => d | None => mkDesc [] [] [] [] 0 0 end.
Definition ex_dt := mk_d s_t s_h [].
Definition ex_dt' := mk_d s_t s_helpB [([107], [49])].            (* t{k="1"}, other help and label names *)
Definition ex_dfA := mk_d s_fresh s_helpA [].
Definition ex_dfB := mk_d s_fresh s_helpB [].
Definition ex_history : list (regop unit) :=
  [ RRegister [ex_dt] tt; RRegister [ex_dfA; ex_dt] tt; RRegister [ex_dfA; ex_dt'] tt; RRegister [ex_dt] tt;
    RRegister [ex_dfB] tt; RUnregister [ex_dt]; RUnregister [ex_dt]; RRegister [ex_dt] tt ].
Lemma ex_history_collision_free : history_collision_free_b ex_history = true.
Proof. vm_compute. reflexivity. Qed.
Lemma ex_history_trace :
  reg_trace reg_empty ex_history =
  [Ok tt; Err EAlreadyReg; Err EMsg; Err EAlreadyReg; Ok tt; Ok tt; Err EMsg; Ok tt].
Proof. vm_compute. reflexivity. Qed.

(* ====================================================================================== *)
(* 4. the defect repaired by edcf206: collectors were filed under the wrapping SUM of ids   *)
(* ====================================================================================== *)
(* the pre-repair combiner *)
Definition collector_id_sum (ds : list Desc) : N := fold_left (fun a i => wrap64 (a + i)) (distinct_ids ds []) 0.
Definition s_x : str := [120].  Definition s_y : str := [121].  Definition s_g : str := [103].  Definition s_k : str := [107].
Definition mk_dv (fq help : str) (consts : list (str * str)) : Desc := mk_d fq help consts.
(* C1 = [g{k="1"}; y], C2 = [g{k="2"}; x]: four different descriptors, the same sum of ids *)
Definition ex_C1 : list Desc := [mk_d s_g s_h [(s_k, [49])]; mk_d s_y s_h []].
Definition ex_C2 : list Desc := [mk_d s_g s_h [(s_k, [50])]; mk_d s_x s_h []].
(* A = [x{k="3"} help B; y], B = [x{k="2"} help B; x]: B disagrees with itself (x with and without k) *)
Definition ex_A : list Desc := [mk_d s_x s_helpB [(s_k, [51])]; mk_d s_y s_h []].
Definition ex_B : list Desc := [mk_d s_x s_helpB [(s_k, [50])]; mk_d s_x s_h []].
Lemma sum_ids_collided :
  collector_id_sum ex_C1 = collector_id_sum ex_C2 /\ collector_id ex_C1 <> collector_id ex_C2
  /\ collector_id_sum ex_A = collector_id_sum ex_B /\ collector_id ex_A <> collector_id ex_B.
Proof. vm_compute. repeat split; discriminate. Qed.
(* with the repaired collector id the histories run as the text demands: both C1 and C2 are
   accepted and can be unregistered; B is refused (Msg: it disagrees with itself) and
   unregistering it - it is not registered - fails and leaves A in place *)
Definition ex_history2 : list (regop unit) :=
  [ RRegister ex_C1 tt; RRegister ex_C2 tt; RUnregister ex_C1; RUnregister ex_C2; RRegister ex_C2 tt ].
Definition ex_history3 : list (regop unit) :=
  [ RRegister ex_A tt; RRegister ex_B tt; RUnregister ex_B; RUnregister ex_A ].
Lemma ex_history23_collision_free : history_collision_free_b ex_history2 && history_collision_free_b ex_history3 = true.
Proof. vm_compute. reflexivity. Qed.
Lemma ex_history23_trace :
  reg_trace reg_empty ex_history2 = [Ok tt; Ok tt; Ok tt; Ok tt; Ok tt]
  /\ reg_trace reg_empty ex_history3 = [Ok tt; Err EMsg; Err EMsg; Ok tt].
Proof. vm_compute. auto. Qed.
