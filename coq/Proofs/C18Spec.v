(* C18: the executable spec of Spec/SpecC18.v (written from the property text) accepts the model:
   every judgement of the accounting engine - counts, sums and collections of shared and local
   histograms after every operation, the seconds returned by stop_and_record / stop_and_discard
   (equal to the elapsed input and not negative), the closure form handing back its result - is
   true of the model's own observations, for every history in the domain of Proofs/C12Spec.v
   (which contains everything the C18 generator emits: OpTimer, OpTimerStop in all four modes,
   OpClosure, on shared histograms - plain or children of a histogram vector - and local histograms,
   interleaved with observe / flush / clear / clone / drop / reads / collections). *)
Require Import PV.Base.Prelude PV.Base.F64.
Require Import PV.Model.Proto PV.Model.Desc PV.Model.Value PV.Model.Hist PV.Model.Vec PV.Model.Registry PV.Model.World.
Require Import PV.Spec.SpecC12 PV.Spec.SpecC18 PV.Proofs.C12Spec.
Open Scope N_scope.

Theorem c18_spec_model ops : ops_in_domain ops = true -> spec_c18 ops (run world0 ops) = true.
Proof.
  intros D. unfold spec_c18. rewrite run_length, Nat.eqb_refl. cbn [andb]. exact (acct_model ops D).
Qed.
