(* C10: the strict failure class.  Part 3: the simulation for the strict action system and the theorem
   "on validated traces a failure of the strict spec is always in the known class". *)
Require Import PV.Base.Prelude PV.Base.StrFacts PV.Model.Conc PV.Model.VecConc PV.Spec.SpecC10.
Require Import PV.Proofs.VecConcBase PV.Proofs.VecConcLin PV.Proofs.VecConcFacts PV.Proofs.VecConcRT PV.Proofs.VecConcStrict.
Require Import PV.Proofs.VecConcSpec PV.Proofs.VecConcSpec2 PV.Proofs.VecConcSpec3 PV.Proofs.VecConcSpec4 PV.Proofs.VecConcSpec5 PV.Proofs.VecConcSpec6.
Require Import PV.Proofs.VecConcSpec7 PV.Proofs.VecConcSpec8.
From Coq Require Import Arith Lia Permutation Sorted.
Open Scope nat_scope.


Lemma sumN_perm A B : Permutation A B -> sumN A = sumN B.
Proof. unfold sumN. induction 1; cbn; auto; try lia; try congruence. Qed.
Lemma sumN_same A B : NoDup A -> NoDup B -> (forall x, In x A <-> In x B) -> sumN A = sumN B.
Proof. intros NA NB H. apply sumN_perm. apply NoDup_Permutation; auto. Qed.
Lemma split_unique {A} (l a a' b b' : list A) e : NoDup l -> l = a ++ e :: b -> l = a' ++ e :: b' -> a = a'.
Proof.
  intros ND E1 E2. subst l. revert a' E2 ND. induction a as [|x a IH]; intros a' E2 ND.
  - destruct a' as [|y a']; auto. cbn in E2. injection E2 as Hy Hb. subst y. exfalso. cbn in ND. apply NoDup_cons_iff in ND as [Hn _].
    apply Hn. rewrite Hb. apply in_app_iff. right; left; auto.
  - destruct a' as [|y a']; cbn in E2.
    + injection E2 as Hy Hb. subst x. exfalso. cbn in ND. apply NoDup_cons_iff in ND as [Hn _]. apply Hn. apply in_app_iff. right; left; auto.
    + injection E2 as Hy Hb. subst y. f_equal. apply (IH a'); auto. cbn in ND. apply NoDup_cons_iff in ND. tauto.
Qed.
Lemma time_inj (log : list lent) a b : StronglySorted (fun x y => le_time y < le_time x) log -> In a log -> In b log -> le_time a = le_time b -> a = b.
Proof.
  induction 1 as [|x l S IH F]; [intros []|]. rewrite Forall_forall in F. intros [->|Ha] [->|Hb] E; auto.
  - apply F in Hb. lia.
  - apply F in Ha. lia.
Qed.

Section SimStrict.
Variables (nl : nat) (tr : list label) (s : vstate).
Hypothesis R : reach nl tr s.
Hypothesis Hopen : forall t, g_open s t = None.
Let cs := map (conv tr) (rev (g_done s)).
Let G := reach_ginv nl tr s R.
Hypothesis Hincs : incs_ok cs = true.
Hypothesis Hno : collect_overlaps_two nl cs = false.

(* as SimR of Proofs/VecConcSpec6.v, without the thread-local key snapshot (the strict collection is one action) *)
Record SimS (x : sst) (E1 : list lent) : Prop := {
  T_map : m_map x = rev (a_keys (a_map (AB E1)));
  T_next : m_next x = a_next (AB E1);
  T_val : forall c, vget c (m_val x) = sumN (amounts c E1);
  T_dom : forall k c, In (k, c) (m_map x) -> In c (map fst (m_val x));
  T_handle : forall t e0, last_of t E1 = Some e0 -> forall k c, opres e0 = (AGet k, RChild c) ->
               nget 0%N t (m_handle x) = c /\ In c (map fst (m_val x)) }.

Lemma sim_extend_s x x' E1 e : SimS x E1 ->
  m_map x' = rev (a_keys (a_map (AB (E1 ++ [e])))) -> m_next x' = a_next (AB (E1 ++ [e])) ->
  (forall c, vget c (m_val x') = sumN (amounts c (E1 ++ [e]))) ->
  (forall k c, In (k, c) (m_map x') -> In c (map fst (m_val x'))) ->
  (forall c, In c (map fst (m_val x)) -> In c (map fst (m_val x'))) ->
  (forall t, t <> le_tid e -> nget 0%N t (m_handle x') = nget 0%N t (m_handle x)) ->
  (forall k c, opres e = (AGet k, RChild c) -> nget 0%N (le_tid e) (m_handle x') = c /\ In c (map fst (m_val x'))) ->
  SimS x' (E1 ++ [e]).
Proof.
  intros [I1 I2 I3 I4 I5] Hm Hn Hv Hd Hmono Hho Hhs. constructor; auto.
  intros t e0. rewrite last_of_snoc. destruct (Nat.eqb (le_tid e) t) eqn:Et.
  - apply Nat.eqb_eq in Et. subst t. intros H; inversion H; subst e0. auto.
  - apply Nat.eqb_neq in Et. intros H k c Ho. destruct (I5 t e0 H k c Ho) as [A B]. rewrite Hho by auto. auto.
Qed.

Section StepS.
Variables (E1 : list lent) (e : lent) (E2 : list lent).
Hypothesis HE : rev (g_lin s) = E1 ++ e :: E2.
Variable x : sst.
Hypothesis HS : SimS x E1.

Lemma step_get k : le_op e = AGet k -> exists x', run_acts x (sentry_acts tr s e) = Some x' /\ SimS x' (E1 ++ [e]).
Proof.
  intros Hop. pose proof (pre_e s _ _ _ HE) as He.
  destruct (entry_rec nl tr s R Hopen e He) as (c & r & ti & trr & Hd & Hw & Hin & Hm & Hti & Hcall & Eo).
  destruct (pre_cons nl tr s R _ _ _ HE) as [Hc1 Hr]. unfold opres in Hin. rewrite Hop in Hin, Hr.
  destruct (rm_get _ _ _ _ _ _ Hm Hin) as (d & ch & -> & Hl & _ & Hres & _).
  unfold sentry_acts. rewrite Hop, Eo. cbn [kind_of_op run_acts]. unfold apply_act, mk. cbn [a_kind a_c conv c_call c_ret c_t].
  pose proof (AB_nodup E1) as NDk.
  assert (Hmg : mget k (m_map x) = option_map fst (klookup k (a_map (AB E1)))) by (rewrite (T_map _ _ HS); apply mget_rev_keys; auto).
  assert (Hq : forall c0, amounts c0 (E1 ++ [e]) = amounts c0 E1) by (intros; apply amounts_snoc_quiet; intros ? ?; rewrite Hop; discriminate).
  rewrite Hmg. cbn [aspec] in Hr. destruct (klookup k (a_map (AB E1))) as [[c0 v0]|] eqn:Ek; cbn [option_map fst snd] in Hr |- *.
  - (* the key is there *)
    eexists. split; [reflexivity|]. rewrite Hres in Hr. inversion Hr; subst c0.
    apply (sim_extend_s x _ E1 e HS); cbn [m_map m_next m_val m_handle m_snap]; rewrite ?(AB_snoc E1 e), ?Hop; cbn [aspec]; rewrite ?Ek; cbn [fst]; auto.
    + apply (T_map _ _ HS).
    + apply (T_next _ _ HS).
    + intros c0. rewrite Hq. apply (T_val _ _ HS).
    + apply (T_dom _ _ HS).
    + intros t Ht. apply nget_cons_other; auto.
    + intros k' c' Ho. unfold opres in Ho. rewrite Hres in Ho. inversion Ho; subst c'. rewrite nget_cons_same. split; auto.
      apply (T_dom _ _ HS k). apply mget_some_in. rewrite Hmg. reflexivity.
  - (* a new child *)
    eexists. split; [reflexivity|]. rewrite Hres in Hr. inversion Hr; subst ch.
    pose proof (T_next _ _ HS) as Hnx.
    apply (sim_extend_s x _ E1 e HS); cbn [m_map m_next m_val m_handle m_snap]; rewrite ?(AB_snoc E1 e), ?Hop; cbn [aspec]; rewrite ?Ek; cbn [fst a_map a_next]; auto.
    + rewrite keys_insert by auto. rewrite rev_app_distr. cbn. rewrite Hnx, (T_map _ _ HS). reflexivity.
    + rewrite Hnx. reflexivity.
    + intros c0. rewrite Hq. cbn [vget]. destruct (c0 =? m_next x)%N eqn:Ec; [|apply (T_val _ _ HS)].
      apply N.eqb_eq in Ec. subst c0. rewrite (no_upd_before nl tr s R Hopen E1 e E2 HE); [reflexivity | rewrite Hnx; lia].
    + intros k' c' [Hi|Hi]; [inversion Hi; left; auto | right; apply (T_dom _ _ HS k'); auto].
    + intros c0 Hc0. right; auto.
    + intros t Ht. apply nget_cons_other; auto.
    + intros k' c' Ho. unfold opres in Ho. rewrite Hres in Ho. assert (Hc' : c' = m_next x) by (rewrite Hnx; inversion Ho; auto). subst c'.
      rewrite nget_cons_same. split; [reflexivity | left; reflexivity].
Qed.


Lemma step_upd c d : le_op e = AUpd c d -> exists x', run_acts x (sentry_acts tr s e) = Some x' /\ SimS x' (E1 ++ [e]).
Proof.
  intros Hop. pose proof (pre_e s _ _ _ HE) as He.
  destruct (upd_owner nl tr s R Hopen e c d He Hop) as (k & r & ti & trr & Hd & Hw & Hl & Hti & Hls & _).
  assert (Eo : odrec s e = (le_tid e, CWithInc k d, r, ti, trr)) by (unfold odrec; rewrite (owner_unique nl tr s R e _ _ _ _ _ Hd eq_refl Hw); reflexivity).
  unfold sentry_acts. rewrite Hop, Eo. cbn [kind_of_op run_acts]. unfold apply_act, mk. cbn [a_kind a_c conv c_call c_ret c_t].
  eexists. split; [reflexivity|].
  (* the handle of the thread is the child of the preceding get-or-create of the same call *)
  destruct (window_list nl tr s R _ _ _ _ _ Hd) as (es & Hes & Ses & Hmem). rewrite Hls in Hes.
  destruct es as [|e1 [|e2 [|e3 es]]]; try discriminate. cbn [map] in Hes.
  assert (O1 : opres e1 = (AGet k, RChild c)) by congruence.
  assert (M : In e [e1; e2]) by (apply Hmem; auto). apply StronglySorted_inv in Ses as [_ F]. apply Forall_inv in F.
  assert (e = e2). { destruct M as [<-|[<-|[]]]; auto. unfold opres in O1. rewrite Hop in O1. discriminate. } subst e2.
  assert (M1 : In e1 (g_lin s) /\ le_tid e1 = le_tid e /\ ti <= le_time e1 <= trr) by (apply Hmem; left; auto). destruct M1 as (M1 & M2 & M3).
  destruct (last_in_window nl tr s R E1 e E2 HE e1 _ _ _ _ Hd Hw M1 M2 ltac:(lia) F) as (e0 & Hlast & He0 & Ht0 & Htime & Eo0).
  assert (e0 = e1).
  { assert (M0 : In e0 [e1; e]) by (apply Hmem; repeat split; auto; lia). destruct M0 as [<-|[<-|[]]]; auto. lia. } subst e0.
  destruct (T_handle _ _ HS _ _ Hlast k c O1) as [Hh Hdom]. rewrite Hh.
  apply (sim_extend_s x _ E1 e HS); cbn [m_map m_next m_val m_handle m_snap]; rewrite ?(AB_snoc E1 e), ?Hop; cbn [aspec fst a_map a_next]; auto.
  - rewrite keys_bump. apply (T_map _ _ HS).
  - apply (T_next _ _ HS).
  - intros c0. rewrite amounts_app, sumN_app.
    assert (Hs1 : sumN [d] = d) by (unfold sumN; cbn [fold_right]; apply N.add_0_r).
    assert (Hs0 : sumN [] = 0%N) by reflexivity.
    unfold amounts at 2. cbn [flat_map]. rewrite Hop, app_nil_r. destruct (c =? c0)%N eqn:Ec.
    + apply N.eqb_eq in Ec. subst c0. rewrite vget_vadd_same by auto. rewrite (T_val _ _ HS), Hs1. reflexivity.
    + apply N.eqb_neq in Ec. rewrite vget_vadd_other by auto. rewrite (T_val _ _ HS), Hs0, N.add_0_r. reflexivity.
  - intros k' c' Hi. rewrite dom_vadd. apply (T_dom _ _ HS k'); auto.
  - intros c0. rewrite dom_vadd. auto.
  - intros k' c' Ho. unfold opres in Ho. rewrite Hop in Ho. discriminate.
Qed.


Lemma step_remove k : le_op e = ARemove k -> exists x', run_acts x (sentry_acts tr s e) = Some x' /\ SimS x' (E1 ++ [e]).
Proof.
  intros Hop. pose proof (pre_e s _ _ _ HE) as He.
  destruct (entry_rec nl tr s R Hopen e He) as (c & r & ti & trr & Hd & Hw & Hin & Hm & Hti & Hcall & Eo).
  destruct (pre_cons nl tr s R _ _ _ HE) as [Hc1 Hr]. unfold opres in Hin. rewrite Hop in Hin, Hr.
  destruct (rm_remove _ _ _ _ _ _ Hm Hin) as (-> & Hl & Hres).
  unfold sentry_acts. rewrite Hop, Eo. cbn [kind_of_op run_acts]. unfold apply_act, mk. cbn [a_kind a_c conv c_call c_ret c_t].
  pose proof (AB_nodup E1) as NDk.
  assert (Hmg : mget k (m_map x) = option_map fst (klookup k (a_map (AB E1)))) by (rewrite (T_map _ _ HS); apply mget_rev_keys; auto).
  assert (Hq : forall c0, amounts c0 (E1 ++ [e]) = amounts c0 E1) by (intros; apply amounts_snoc_quiet; intros ? ?; rewrite Hop; discriminate).
  rewrite Hmg. cbn [aspec] in Hr. destruct (klookup k (a_map (AB E1))) as [[c0 v0]|] eqn:Ek; cbn [option_map fst snd] in Hr |- *.
  - destruct Hres as [(Hx & ->)|(Hx & _)]; [|congruence]. eexists. split; [reflexivity|].
    apply (sim_extend_s x _ E1 e HS); cbn [m_map m_next m_val m_handle m_snap]; rewrite ?(AB_snoc E1 e), ?Hop; cbn [aspec]; rewrite ?Ek; cbn [fst a_map a_next]; auto.
    + rewrite keys_remove, <- mdel_rev, (T_map _ _ HS). reflexivity.
    + apply (T_next _ _ HS).
    + intros c1. rewrite Hq. apply (T_val _ _ HS).
    + intros k' c' Hi. apply mdel_In in Hi. apply (T_dom _ _ HS k'); auto.
    + intros k' c' Ho. unfold opres in Ho. rewrite Hop in Ho. discriminate.
  - destruct Hres as [(Hx & _)|(Hx & ->)]; [congruence|]. eexists. split; [reflexivity|].
    apply (sim_extend_s x _ E1 e HS); cbn [m_map m_next m_val m_handle m_snap]; rewrite ?(AB_snoc E1 e), ?Hop; cbn [aspec]; rewrite ?Ek; cbn [fst a_map a_next]; auto.
    + apply (T_map _ _ HS).
    + apply (T_next _ _ HS).
    + intros c1. rewrite Hq. apply (T_val _ _ HS).
    + apply (T_dom _ _ HS).
    + intros k' c' Ho. unfold opres in Ho. rewrite Hop in Ho. discriminate.
Qed.


Lemma step_reset : le_op e = AReset -> exists x', run_acts x (sentry_acts tr s e) = Some x' /\ SimS x' (E1 ++ [e]).
Proof.
  intros Hop. pose proof (pre_e s _ _ _ HE) as He.
  destruct (entry_rec nl tr s R Hopen e He) as (c & r & ti & trr & Hd & Hw & Hin & Hm & Hti & Hcall & Eo).
  unfold opres in Hin. rewrite Hop in Hin. rewrite (rm_reset _ _ _ _ _ Hm Hin) in *.
  unfold sentry_acts. rewrite Hop, Eo. cbn [kind_of_op run_acts]. unfold apply_act, mk. cbn [a_kind a_c conv c_call c_ret c_t].
  assert (Hq : forall c0, amounts c0 (E1 ++ [e]) = amounts c0 E1) by (intros; apply amounts_snoc_quiet; intros ? ?; rewrite Hop; discriminate).
  eexists. split; [reflexivity|].
  apply (sim_extend_s x _ E1 e HS); cbn [m_map m_next m_val m_handle m_snap]; rewrite ?(AB_snoc E1 e), ?Hop; cbn [aspec fst a_map a_next]; auto.
  - apply (T_next _ _ HS).
  - intros c1. rewrite Hq. apply (T_val _ _ HS).
  - intros k' c' [].
  - intros k' c' Ho. unfold opres in Ho. rewrite Hop in Ho. discriminate.
Qed.


(* what the stability invariant says about a read entry of a collection's window *)
Lemma kinv_window t r ti trr e1 rest snap vis yR c v :
  In (t, CVCollect, r, ti, trr) (g_done s) -> opres e1 = (ACollect, RKeys snap) -> map opres rest = reads vis ->
  StronglySorted (fun a b => le_time a < le_time b) (e1 :: rest) ->
  (forall y, In y (e1 :: rest) <-> In y (g_lin s) /\ le_tid y = t /\ ti <= le_time y <= trr) ->
  In yR rest -> opres yR = (ARead c, RValue v) ->
  exists older, (forall y, In y older <-> In y (g_lin s) /\ le_time y < le_time yR)
    /\ a_keys (a_map (arun ainit (map opres (rev older)))) = snap
    /\ (forall y, In y (g_lin s) -> le_tid y = t -> le_time e1 < le_time y < le_time yR -> exists c', le_op y = ARead c' /\ c' <> c)
    /\ exists newer, g_lin s = newer ++ yR :: older.
Proof.
  intros Hd O1 Hrest Ses Hmem HyR OR.
  assert (HyR' : In yR (g_lin s) /\ le_tid yR = t /\ ti <= le_time yR <= trr) by (apply Hmem; right; auto). destruct HyR' as (A1 & A2 & A3).
  assert (He1 : In e1 (g_lin s) /\ le_tid e1 = t /\ ti <= le_time e1 <= trr) by (apply Hmem; left; auto). destruct He1 as (B1 & B2 & B3).
  pose proof Ses as Ses'. apply StronglySorted_inv in Ses' as [_ F]. rewrite Forall_forall in F. pose proof (F yR HyR) as Hlt1.
  destruct yR as [[[tm t0] o0] r0]. unfold opres in OR; cbn in OR. inversion OR; subst o0 r0. cbn in A2. subst t0.
  apply in_split in A1 as (newer & older & Elog).
  pose proof (G_sorted tr s G) as S0. pose proof S0 as S1. rewrite Elog in S1. destruct (sorted_before _ _ _ S1) as (I1 & I2 & _).
  rewrite Forall_forall in I1, I2.
  assert (Hold : forall y, In y older <-> In y (g_lin s) /\ le_time y < tm).
  { intros y. split.
    - intros Hy. split; [rewrite Elog; apply in_app_iff; right; right; auto | apply I1 in Hy; exact Hy].
    - intros [Hy Hl]. rewrite Elog in Hy. apply in_app_iff in Hy as [Hy|[Hy|Hy]]; auto; [apply I2 in Hy; cbn in Hy; lia | subst y; cbn in Hl; lia]. }
  destruct (reach_kinv nl tr s R newer tm t c v older Elog) as (snap' & tc & Hz & Hbetween & Hkeys).
  assert (Hz' : In (tc, t, ACollect, RKeys snap') (g_lin s) /\ tc < tm) by (apply (Hold (tc, t, ACollect, RKeys snap')); auto). destruct Hz' as [Hz1 Hz2].
  cbn in Hlt1, A3.
  assert (Htc : tc = le_time e1).
  { destruct (Nat.lt_trichotomy tc (le_time e1)) as [H|[H|H]]; auto; exfalso.
    - assert (He1o : In e1 older) by (apply Hold; split; auto). destruct (Hbetween e1 He1o B2 H) as (c' & Hc' & _). unfold opres in O1. congruence.
    - assert (Mz : In (tc, t, ACollect, RKeys snap') (e1 :: rest)) by (apply Hmem; cbn; repeat split; auto; lia).
      destruct Mz as [Mz|Mz]; [rewrite Mz in H; cbn in H; lia|]. destruct (read_op _ _ _ Hrest Mz) as (c' & v' & X & _). discriminate. }
  assert (Hze : (tc, t, ACollect, RKeys snap') = e1) by (apply (time_inj (g_lin s)); auto).
  assert (Hsn : snap' = snap) by (unfold opres in O1; rewrite <- Hze in O1; cbn in O1; congruence). rewrite Hsn in Hkeys.
  exists older. split; [exact Hold|]. split; [exact Hkeys|]. split; [|eauto].
  intros y Hy Hty Htm. apply Hbetween; auto; [apply Hold; split; auto; cbn in Htm; lia | lia].
Qed.

Lemma step_coll_s : (le_op e = ACollect \/ exists c0, le_op e = ARead c0) -> exists x', run_acts x (sentry_acts tr s e) = Some x' /\ SimS x' (E1 ++ [e]).
Proof.
  intros Hop. pose proof (pre_e s _ _ _ HE) as He.
  destruct (collect_setup nl tr s R Hopen E1 e E2 HE Hop) as (r & ti & trr & e1 & rest & snap & vis & Hd & Hw & Eo & Hr & Hp & O1 & Hrest & Els & Ses & Hmem & Hret).
  assert (Hq : forall c1, amounts c1 (E1 ++ [e]) = amounts c1 E1) by (intros; apply amounts_snoc_quiet; intros ? ? Hx; destruct Hop as [Ho|(? & Ho)]; rewrite Ho in Hx; discriminate).
  assert (Hsame : fst (aspec (AB E1) (le_op e)) = AB E1) by (destruct Hop as [Ho|(? & Ho)]; rewrite Ho; reflexivity).
  assert (Hsim : SimS x (E1 ++ [e])).
  { apply (sim_extend_s x x E1 e HS); rewrite ?(AB_snoc E1 e), ?Hsame; auto.
    - apply (T_map _ _ HS).
    - apply (T_next _ _ HS).
    - intros c1. rewrite Hq. apply (T_val _ _ HS).
    - apply (T_dom _ _ HS).
    - intros k' c' Ho. unfold opres in Ho. destruct Hop as [Hx|(? & Hx)]; rewrite Hx in Ho; discriminate. }
  exists x. split; auto.
  assert (Hacts : sentry_acts tr s e = if is_pivot s (le_tid e, CVCollect, r, ti, trr) e then [mk tr KColl (le_tid e, CVCollect, r, ti, trr)] else []).
  { unfold sentry_acts. destruct Hop as [Hx|(? & Hx)]; rewrite Hx, Eo; reflexivity. }
  rewrite Hacts. destruct (is_pivot s (le_tid e, CVCollect, r, ti, trr) e) eqn:Epiv; [|reflexivity].
  (* the collection takes effect here: keys and values are exactly what it returned *)
  pose proof Ses as Ses'. apply StronglySorted_inv in Ses' as [_ F]. rewrite Forall_forall in F.
  assert (P1 : le_op e1 = ACollect) by (unfold opres in O1; congruence).
  assert (M : In e (e1 :: rest)) by (apply Hmem; auto).
  assert (E1e1 : In e1 (g_lin s) /\ le_tid e1 = le_tid e /\ ti <= le_time e1 <= trr) by (apply Hmem; left; auto).
  (* the map still has the snapshot's keys *)
  assert (Hkeys : a_keys (a_map (AB E1)) = snap).
  { destruct M as [<-|M].
    - destruct (pre_cons nl tr s R _ _ _ HE) as [_ Hres]. rewrite P1 in Hres. cbn [aspec snd] in Hres.
      assert (B : le_res e1 = RKeys snap) by (unfold opres in O1; congruence). rewrite B in Hres. inversion Hres; auto.
    - destruct (read_op _ _ _ Hrest M) as (cp & vp & Po & Pr).
      destruct (kinv_window _ _ _ _ e1 rest snap vis e cp vp Hd O1 Hrest Ses Hmem M ltac:(unfold opres; congruence)) as (older & Hold & Hk & _ & newer & Elog).
      assert (E1 = rev older); [|subst E1; exact Hk].
      apply (split_unique (rev (g_lin s)) E1 (rev older) E2 (rev newer) e); auto.
      + apply NoDup_rev. apply ssorted_nodup. apply (G_sorted tr s G).
      + rewrite Elog, rev_app_distr. cbn [rev]. rewrite <- app_assoc. reflexivity. }
  pose proof (AB_nodup E1) as NDk. subst r. set (l := vis_result vis) in *.
  assert (Hlen : Nat.eqb (length l) (length (m_map x)) = true).
  { apply Nat.eqb_eq. rewrite (T_map _ _ HS), rev_length, Hkeys. unfold l, vis_result. rewrite map_length.
    apply Permutation_length in Hp. unfold vis_keys in Hp. rewrite map_length in Hp. exact Hp. }
  assert (Hnd : nodup_keys (map fst l) = true) by (apply nodup_keys_NoDup; eapply (returned_collection_nodup nl tr s R); eauto).
  assert (Hkey : forall k c, In (k, c) snap -> mget k (m_map x) = Some c).
  { intros k c Hin. rewrite (T_map _ _ HS). apply mget_In; [rewrite map_rev, keys_fst; apply NoDup_rev; auto | rewrite <- in_rev, Hkeys; auto]. }
  assert (Hvk : forall k c v, In (k, c, v) vis -> In (k, c) snap).
  { intros k c v Hv. apply (Permutation_in _ Hp). unfold vis_keys. apply in_map_iff. exists (k, c, v). auto. }
  assert (Hfa : forallb (fun kv => match mget (fst kv) (m_map x) with Some ch => (vget ch (m_val x) =? snd kv)%N | None => false end) l = true).
  { apply forallb_forall. intros [k v] Hkv. unfold l, vis_result in Hkv. apply in_map_iff in Hkv as ([[k0 c] v0] & Ekv & Hvis). cbn in Ekv. inversion Ekv; subst k0 v0. cbn [fst snd].
    rewrite (Hkey k c) by eauto. apply N.eqb_eq.
    assert (Hrd : In (ARead c, RValue v) (map opres rest)) by (rewrite Hrest; unfold reads; apply in_map_iff; exists (k, c, v); auto).
    apply in_map_iff in Hrd as (eRd & Eo' & HeRd).
    assert (HeRd' : In eRd (g_lin s) /\ le_tid eRd = le_tid e /\ ti <= le_time eRd <= trr) by (apply (Hmem eRd); right; auto).
    destruct (read_sum nl tr s R Hopen Hincs eRd c v (proj1 HeRd') Eo') as (older & Hold & NDo & Hv & HF & HN).
    rewrite (T_val _ _ HS), Hv. destruct (E1_good nl tr s R Hopen Hincs E1 e E2 HE c) as [GF GN]. apply sumN_same; auto.
    (* the same updates of c precede this point and the read of c *)
    assert (Hcold : eRd <> e -> hot s (le_tid e, CVCollect, RColl l, ti, trr) c = false).
    { intros Hne. destruct (hot s (le_tid e, CVCollect, RColl l, ti, trr) c) eqn:Hh; auto. exfalso.
      assert (Hrh : read_hot s (le_tid e, CVCollect, RColl l, ti, trr) eRd = true).
      { unfold read_hot. rewrite (proj2 (inwin_spec _ _ _ _ _ eRd)) by tauto. assert (X : le_op eRd = ARead c) by (unfold opres in Eo'; congruence). rewrite X. exact Hh. }
      unfold is_pivot in Epiv. destruct M as [<-|M].
      - rewrite P1 in Epiv. apply negb_true_iff in Epiv. rewrite (existsb_intro _ _ eRd (proj1 HeRd') Hrh) in Epiv. discriminate.
      - destruct (read_op _ _ _ Hrest M) as (cp & vp & Po & Pr). rewrite Po in Epiv. apply andb_true_iff in Epiv as [Hhp Hfirst].
        assert (Hinp : In (ARead cp, RValue vp) (reads vis)) by (rewrite <- Hrest; replace (ARead cp, RValue vp) with (opres e) by (unfold opres; congruence); apply in_map; auto).
        unfold reads in Hinp. apply in_map_iff in Hinp as ([[kp cp'] vp'] & Ep & Hvp). inversion Ep; subst cp' vp'.
        assert (c = cp) by (eapply (hot_unique nl tr s R Hopen Hno); [exact Hd | exact (proj1 E1e1) | exact O1 | eapply Hvk; exact Hvis | eapply Hvk; exact Hvp | exact Hh | exact Hhp]).
        subst cp.
        (* two reads of one child in one collection *)
        destruct (Nat.lt_trichotomy (le_time eRd) (le_time e)) as [Hlt|[Heq|Hlt]].
        + destruct (kinv_window _ _ _ _ e1 rest snap vis e c vp Hd O1 Hrest Ses Hmem M ltac:(unfold opres; congruence)) as (_ & _ & _ & Hb & _).
          destruct (Hb eRd (proj1 HeRd') (proj1 (proj2 HeRd')) ltac:(pose proof (F eRd HeRd); lia)) as (c' & Hc' & Hne'). unfold opres in Eo'. congruence.
        + apply Hne. apply (time_inj (g_lin s)); auto; [apply (G_sorted tr s G) | tauto].
        + destruct (kinv_window _ _ _ _ e1 rest snap vis eRd c v Hd O1 Hrest Ses Hmem HeRd Eo') as (_ & _ & _ & Hb & _).
          destruct (Hb e He eq_refl ltac:(pose proof (F e M); lia)) as (c' & Hc' & Hne'). congruence. }
    intros d0. rewrite !in_amounts. split; intros (y & Hy & Hoy); exists y; (split; [|exact Hoy]).
    + destruct (pre_in nl tr s R E1 e E2 HE y Hy) as [Hy1 Hy2]. apply Hold. split; auto.
      destruct (Nat.eq_dec (le_time eRd) (le_time e)) as [Heq|Hneq]; [lia|].
      assert (Hne : eRd <> e) by (intros ->; lia). apply Hcold in Hne.
      destruct (Nat.lt_ge_cases (le_time y) (le_time eRd)); auto. exfalso.
      assert (Hh : hot s (le_tid e, CVCollect, RColl l, ti, trr) c = true); [|congruence].
      apply hot_spec. exists y, d0. repeat split; auto; lia.
    + apply Hold in Hy as [Hy1 Hy2]. apply (pre_mem nl tr s R E1 e E2 HE); auto.
      destruct (Nat.eq_dec (le_time eRd) (le_time e)) as [Heq|Hneq]; [lia|].
      assert (Hne : eRd <> e) by (intros ->; lia). apply Hcold in Hne.
      destruct (Nat.lt_ge_cases (le_time y) (le_time e)); auto. exfalso.
      assert (Hh : hot s (le_tid e, CVCollect, RColl l, ti, trr) c = true); [|congruence].
      apply hot_spec. exists y, d0. repeat split; auto; lia. }
  cbn [run_acts]. unfold apply_act, mk. cbn [a_kind a_c conv c_call c_ret c_t].
  match goal with |- context [if ?b then _ else _] =>
    replace b with true by (symmetry; apply andb_true_iff; split; [apply andb_true_iff; split; [exact Hlen | exact Hnd] | exact Hfa]) end.
  reflexivity.
Qed.

Lemma sim_step_s : exists x', run_acts x (sentry_acts tr s e) = Some x' /\ SimS x' (E1 ++ [e]).
Proof.
  destruct (le_op e) eqn:Hop; [eapply step_get | eapply step_upd | eapply step_remove | apply step_reset | apply step_coll_s | apply step_coll_s]; eauto.
Qed.
End StepS.

Lemma replay_from_s : forall E2 E1 x, rev (g_lin s) = E1 ++ E2 -> SimS x E1 -> replay_ok x (flat_map (sentry_acts tr s) E2).
Proof.
  induction E2 as [|e E2 IH]; intros E1 x HE HS; cbn [flat_map]; [exact I|].
  destruct (sim_step_s E1 e E2 HE x HS) as (x' & Hrun & HS'). eapply replay_app; eauto.
  apply (IH (E1 ++ [e])); auto. rewrite <- app_assoc. exact HE.
Qed.
Lemma sim_init_s : SimS sst0 [].
Proof. constructor; cbn; auto; try (intros; tauto); try discriminate. Qed.

Theorem strict_linearisation_exists_when_no_overlap : lin_exists sst0 (all_acts true nl cs).
Proof.
  unfold cs. rewrite (all_acts_rows_s nl tr s R Hopen). apply lin_from_list.
  - apply (slacts_tid nl tr s R Hopen).
  - apply (slacts_window nl tr s R Hopen).
  - apply (slacts_rt nl tr s R Hopen).
  - apply (replay_from_s (rev (g_lin s)) [] sst0); [reflexivity | apply sim_init_s].
Qed.
End SimStrict.

(* ------------------------------------------------------------------ on validated traces a strict failure is in the known class *)
Theorem strict_failure_is_known_class nl nth es :
  vcheck nl nth es = true -> in_domain nth es = true -> spec_c10_strict nl es = false -> known_c10 nl es = true.
Proof.
  intros Hv Hd Hs. unfold known_c10. rewrite Hs, (relaxed_spec_of_validated_full nl nth es Hv Hd). cbn [negb andb].
  destruct (collect_overlaps_two nl (fst (extract es))) eqn:Ho; auto. exfalso.
  pose proof (relaxed_spec_of_validated_partial3 nl nth es Hv Hd) as Hb. unfold proved_clauses3 in Hb.
  unfold spec_c10_strict in Hs. destruct (extract_of_validated nl nth es Hv Hd) as (tr & s & R & Hvis & Hopen & Hex).
  rewrite Hex in *. cbn [fst] in *. rewrite Hb in Hs. cbn [andb] in Hs. unfold search_ok in Hs.
  destruct (incs_ok (map (conv tr) (rev (g_done s)))) eqn:Hi; [|discriminate].
  destruct (lin_search true nl (map (conv tr) (rev (g_done s)))) eqn:Hl; try discriminate.
  apply strict_search_exact in Hl. apply Hl. unfold strict_linearisation_exists.
  apply (strict_linearisation_exists_when_no_overlap nl tr s R Hopen Hi Ho).
Qed.
