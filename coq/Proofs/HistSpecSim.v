(* Infrastructure for the link between the trace validator and the executable spec (Proofs/HistSpec.v):
   how an accepted event changes the per-thread call bookkeeping of the executable model, the unfolded equations of
   the spec's step function, and list lemmas. *)
Require Import PV.Base.Prelude PV.Base.F64 PV.Model.Conc PV.Model.HistConc PV.Model.HistExec PV.Spec.SpecC02.
Require Import PV.Proofs.HistConcLemmas PV.Proofs.HistConcInv PV.Proofs.HistConcProof PV.Proofs.HistConcOwn.
Require Import PV.Proofs.HistExecSound PV.Proofs.HistExecInv PV.Proofs.HistConcThms.
Require Import PV.Proofs.HistValues PV.Proofs.HistLog PV.Proofs.HistReads PV.Proofs.HistMain PV.Proofs.HistSpecArith.
From Coq Require Import ZArith Lia Bool Arith Permutation.
Open Scope Z_scope.

(* ---- the kind of call a thread is in ---- *)
Inductive ckind := KNone | KObs | KCol (l0 : nat) | KCount | KSum.
Definition kind_of (a : aux) : ckind :=
  match a with
  | ANone => KNone | AObs | AObsRet => KObs
  | ACol l0 => KCol l0 | AColRet l0 _ _ _ _ => KCol l0
  | ASCount _ => KCount | ASSum _ _ _ _ => KSum
  end.
Definition call_aux (x : xst) (c : call) : aux :=
  match c with
  | CObs _ | CBatch _ => AObs
  | CCollect => ACol (length (recs (base x)))
  | CSCount => ASCount None
  | CSSum => ASSum false None None false
  | _ => ANone
  end.
Definition ret_match (a : aux) (r : retv) : Prop :=
  match r with
  | RUnit => a = AObsRet
  | RSnap _ _ _ => exists l0 k N sv bs, a = AColRet l0 k N sv bs
  | RVal b => (exists v, a = ASCount (Some v) /\ Z.of_N b = v) \/ (exists h v, a = ASSum true (Some h) (Some v) true /\ b = zbits v)
  | _ => False
  end.

Section S.
Variable bounds : list Z.
Notation hexec := (hexec bounds).

Lemma set_ax_eq x t a u : set_ax x t a u = if Nat.eqb u t then a else ax x u.
Proof. reflexivity. Qed.

Theorem hexec_ax x e x' : hexec x e = Some x' ->
  (forall u, u <> ev_tid e -> ax x' u = ax x u) /\
  match e with
  | ECall t c => ax x t = ANone /\ ax x' t = call_aux x c /\ kind_of (call_aux x c) <> KNone /\ cuts x' = cuts x
  | ERet t r => base x' = base x /\ ax x' t = ANone /\ kind_of (ax x t) <> KNone /\ ret_match (ax x t) r
                /\ (match r with RSnap _ _ _ => True | _ => cuts x' = cuts x end)
  | EAt t _ _ _ _ _ _ _ | ELock t _ _ _ | EUnlock t _ _ =>
      kind_of (ax x' t) = kind_of (ax x t) /\ kind_of (ax x t) <> KNone /\ cuts x' = cuts x
  | _ => False
  end.
Proof.
  intros H. unfold HistExec.hexec in H. destruct e; try discriminate H.
  all: break_match H; inversion H; subst; cbn [ev_tid ax cuts base xmk].
  all: split; [intros u Hu; first [reflexivity | rewrite set_ax_eq; destruct (Nat.eqb_spec u t); [contradiction|reflexivity]]|].
  all: rewrite ?set_ax_eq, ?Nat.eqb_refl.
  all: repeat match goal with E : ax _ _ = _ |- _ => rewrite E; clear E end; cbn [kind_of call_aux ret_match].
  all: try (repeat split; auto; try discriminate; fail).
  all: try (repeat split; auto; try discriminate; eauto 8; fail).
  all: boolfacts.
  all: try (repeat split; auto; try discriminate; [left; eexists; split; [reflexivity|auto]]; fail).
  all: try (repeat split; auto; try discriminate; [right; do 2 eexists; split; [reflexivity|auto]]; fail).
Qed.

(* the values a read-only call has loaded so far change only at the load itself *)
Theorem hexec_readvals x e x' t : hexec x e = Some x' -> ev_tid e = t ->
  (forall r, e <> ERet t r) -> (forall c, e <> ECall t c) ->
  (forall v, ax x' t = ASCount (Some v) -> ax x t = ASCount (Some v) \/ ax x t = ASCount None)
  /\ (forall a h v u, ax x' t = ASSum a h (Some v) u -> (exists a' u', ax x t = ASSum a' h (Some v) u') \/ ax x t = ASSum true h None false).
Proof.
  intros H Ht Hr Hc. unfold HistExec.hexec in H. destruct e; try discriminate H; cbn [ev_tid] in Ht; subst.
  1: exfalso; eapply Hc; reflexivity.
  1: exfalso; eapply Hr; reflexivity.
  all: break_match H; inversion H; subst; cbn [ax xmk]; rewrite ?set_ax_eq, ?Nat.eqb_refl.
  all: split; [intros vv Hv|intros aa hh vv uu Hv]; try discriminate Hv.
  all: repeat match goal with E : ax _ _ = _ |- _ => rewrite E in *; clear E end; try discriminate Hv.
  all: try (inversion Hv; subst; eauto; fail).
  all: try (left; assumption).
  all: try (left; eauto; fail).
Qed.

End S.

(* ---- list lemmas ---- *)
Lemma remove_nat_in t l u : NoDup l -> (In u (remove_nat t l) <-> In u l /\ u <> t).
Proof.
  induction l as [|a l IH]; intros Hn; cbn [remove_nat]; [cbn; tauto|]. inversion Hn; subst.
  destruct (Nat.eqb_spec a t).
  - subst. split; [intros Hu; split; [right; auto|intros ->; contradiction]|intros [[->|Hu] Hne]; [contradiction|auto]].
  - cbn [In]. rewrite IH by auto. split; [intros [->|[Hu Hne]]; auto|intros [[->|Hu] Hne]; auto].
Qed.
Lemma remove_nat_nodup t l : NoDup l -> NoDup (remove_nat t l).
Proof.
  induction l as [|a l IH]; intros Hn; cbn [remove_nat]; auto. inversion Hn; subst. destruct (Nat.eqb a t); auto.
  constructor; auto. intros Hin. apply remove_nat_in in Hin; auto. tauto.
Qed.
Lemma remove_nat_filter (f : nat -> bool) t l : f t = false -> filter f (remove_nat t l) = filter f l.
Proof.
  intros Hf. induction l as [|a l IH]; cbn [remove_nat filter]; auto. destruct (Nat.eqb_spec a t).
  - subst. rewrite Hf. reflexivity.
  - cbn [filter]. rewrite IH. reflexivity.
Qed.
Lemma remove_nat_single t : remove_nat t [t] = [].
Proof. cbn. rewrite Nat.eqb_refl. reflexivity. Qed.

(* a filter whose predicate is switched off at one (once occurring) element *)
Lemma filter_switch_off (f g : nat -> bool) t l : NoDup l -> In t l -> f t = true -> g t = false ->
  (forall u, u <> t -> g u = f u) -> exists l1 l2, filter f l = l1 ++ t :: l2 /\ filter g l = l1 ++ l2.
Proof.
  intros Hn Hin Hf Hg Hfg. induction l as [|a l IH]; [destruct Hin|]. inversion Hn; subst. cbn [filter].
  destruct (Nat.eq_dec a t) as [->|Hne].
  - rewrite Hf, Hg. exists [], (filter f l). split; [reflexivity|]. cbn. apply filter_ext_in. intros u Hu. apply Hfg. intros ->. contradiction.
  - destruct Hin as [->|Hin]; [contradiction|]. destruct (IH H2 Hin) as (l1 & l2 & E1 & E2). rewrite (Hfg a Hne), E1, E2.
    destruct (f a); [exists (a :: l1), l2|exists l1, l2]; auto.
Qed.

Lemma flat_map_concat {A B} (f : A -> list B) l : flat_map f l = concat (map f l).
Proof. induction l; cbn; auto. rewrite IHl. reflexivity. Qed.

Lemma firstn_snoc_le {A} k (l : list A) a : (k <= length l)%nat -> firstn k (l ++ [a]) = firstn k l.
Proof. intros H. rewrite firstn_app. replace (k - length l)%nat with O by lia. cbn. apply app_nil_r. Qed.

Lemma NoDup_concat_disjoint {A} (L1 L2 : list (list A)) v : NoDup (concat (L1 ++ L2)) -> In v (concat L1) -> ~ In v (concat L2).
Proof.
  rewrite concat_app. induction (concat L1) as [|a l IH]; cbn; intros Hn Hin; [destruct Hin|].
  inversion Hn; subst. destruct Hin as [->|Hin].
  - intros H. apply H1. apply in_app_iff. auto.
  - apply IH; auto.
Qed.

Lemma in_concat_nth {A} (L : list (list A)) i vs v : nth_error L i = Some vs -> In v vs -> In v (concat L).
Proof. intros H Hv. apply in_concat. exists vs. split; auto. eapply nth_error_In; eauto. Qed.

Lemma nth_error_skipn_in {A} (L : list A) k i x : nth_error L i = Some x -> (k <= i)%nat -> In x (skipn k L).
Proof. intros H Hk. apply (nth_error_In _ (i - k)). rewrite nth_error_skipn. replace (k + (i - k))%nat with i by lia. auto. Qed.

(* ---- the spec's step function, unfolded per event ---- *)
Definition mark_done (t : nat) : list ocall -> list ocall :=
  fix mark (l : list ocall) : list ocall :=
    match l with
    | [] => []
    | oc :: r => if Nat.eqb (oc_t oc) t && negb (oc_done oc) && negb (existsb (fun o => Nat.eqb (oc_t o) t && negb (oc_done o)) r)
                 then {| oc_t := t; oc_vals := oc_vals oc; oc_done := true |} :: r else oc :: mark r
    end.

Definition tv (obs : list ocall) : list (nat * list Z) := map (fun oc => (oc_t oc, oc_vals oc)) obs.

Lemma mark_done_tv t l : tv (mark_done t l) = tv l.
Proof.
  induction l as [|oc l IH]; cbn [mark_done]; auto. fold (mark_done t).
  destruct (Nat.eqb (oc_t oc) t && negb (oc_done oc) && negb (existsb (fun o => Nat.eqb (oc_t o) t && negb (oc_done o)) l)) eqn:E.
  - cbn [tv map]. apply andb_true_iff in E as [E _]. apply andb_true_iff in E as [E _]. apply Nat.eqb_eq in E. rewrite E. reflexivity.
  - cbn [tv map]. fold (tv (mark_done t l)). fold (tv l). rewrite IH. reflexivity.
Qed.

Lemma mark_done_in t l oc' : In oc' (mark_done t l) -> oc_done oc' = true ->
  (In oc' l) \/ (oc_t oc' = t /\ exists oc, In oc l /\ oc_t oc = t /\ oc_vals oc = oc_vals oc').
Proof.
  induction l as [|oc l IH]; cbn [mark_done]; [intros []|]. fold (mark_done t).
  destruct (Nat.eqb (oc_t oc) t && negb (oc_done oc) && negb (existsb (fun o => Nat.eqb (oc_t o) t && negb (oc_done o)) l)) eqn:E.
  - apply andb_true_iff in E as [E _]. apply andb_true_iff in E as [E _]. apply Nat.eqb_eq in E.
    intros [<-|Hin] Hd; [|left; right; auto]. right. cbn. split; [reflexivity|]. exists oc. split; [left; reflexivity|]. split; [exact E|reflexivity].
  - intros [<-|Hin] Hd; [left; left; auto|]. destruct (IH Hin Hd) as [H|(H1 & oc0 & H2 & H3)]; [left; right; auto|].
    right. split; auto. exists oc0. split; [right; auto|auto].
Qed.

Lemma all_vals_tv obs : all_vals obs = concat (map snd (tv obs)).
Proof. unfold all_vals, tv. rewrite flat_map_concat, map_map. reflexivity. Qed.

Lemma zvals_bits_vals bs : zvals bs = bits_vals bs.
Proof. induction bs as [|b bs IH]; cbn [zvals]; [reflexivity|]. rewrite IH. reflexivity. Qed.

(* ---- the loads of the two read-only calls ---- *)
Section S2.
Variable bounds : list Z.
Notation hexec := (hexec bounds).

Lemma hexec_load_count x e x' t v : Inv (length bounds) (base x) -> hexec x e = Some x' -> ev_tid e = t ->
  ax x t = ASCount None -> ax x' t = ASCount (Some v) -> v = sumf r_cnt (recs (base x)).
Proof.
  intros I H Ht Ha Ha'. destruct e; cbn [ev_tid] in Ht; subst; try discriminate H.
  3: { destruct (sample_count_load_exact bounds x t cell k o o2 before after ok x' I Ha H) as [E _]. congruence. }
  all: unfold HistExec.hexec in H; rewrite Ha in H; break_match H; inversion H; subst; cbn [ax xmk] in Ha'; rewrite ?set_ax_eq, ?Nat.eqb_refl in Ha'; congruence.
Qed.

Lemma hexec_load_sum x e x' t h v : Inv (length bounds) (base x) -> Own (base x) -> SInv x -> hexec x e = Some x' -> ev_tid e = t ->
  ax x t = ASSum true h None false -> (exists a u, ax x' t = ASSum a h (Some v) u) ->
  (forall u i, thr (base x) u <> OWork i) -> v = sumf (full O) (recs (base x)).
Proof.
  intros I Ow S H Ht Ha (a & u & Ha') Hq. destruct e; cbn [ev_tid] in Ht; subst; try discriminate H.
  3: { destruct h as [h|].
       - destruct (sample_sum_load_exact bounds x t h cell k o o2 before after ok x' I Ow S Ha H) as (v' & E1 & _ & _ & _ & E2). rewrite E1 in Ha'. inversion Ha'; subst. auto.
       - unfold HistExec.hexec in H; rewrite Ha in H; break_match H; inversion H; subst; cbn [ax xmk] in Ha'; rewrite ?set_ax_eq, ?Nat.eqb_refl in Ha'; congruence. }
  all: unfold HistExec.hexec in H; rewrite Ha in H; break_match H; inversion H; subst; cbn [ax xmk] in Ha'; rewrite ?set_ax_eq, ?Nat.eqb_refl in Ha'; congruence.
Qed.
End S2.
