(* C10: the strict failure class.  Part 1: while a collection reads its children the key set of the map does not change
   (a fact about the ghost log of every reachable state), and the choice of the single point at which a collection can take effect
   when at most one of the children it shows is updated during its window. *)
Require Import PV.Base.Prelude PV.Base.StrFacts PV.Model.Conc PV.Model.VecConc PV.Spec.SpecC10.
Require Import PV.Proofs.VecConcBase PV.Proofs.VecConcLin PV.Proofs.VecConcFacts PV.Proofs.VecConcRT PV.Proofs.VecConcStrict.
Require Import PV.Proofs.VecConcSpec PV.Proofs.VecConcSpec2 PV.Proofs.VecConcSpec3 PV.Proofs.VecConcSpec4 PV.Proofs.VecConcSpec5 PV.Proofs.VecConcSpec6.
From Coq Require Import Arith Lia Permutation Sorted.
Open Scope nat_scope.

(* ------------------------------------------------------------------ the key set is stable while a collection reads *)
(* for every logged read of a collection: the thread's key snapshot precedes it, only reads of that thread lie in between, and the
   abstract map just before the read still has exactly the snapshot's keys and children *)
Definition keys_stable (older : list lent) (t : nat) (c : N) : Prop :=
  exists snap tc, In (tc, t, ACollect, RKeys snap) older
    /\ (forall y, In y older -> le_tid y = t -> tc < le_time y -> exists c', le_op y = ARead c' /\ c' <> c)
    /\ a_keys (a_map (arun ainit (map opres (rev older)))) = snap.
Definition KInv (s : vstate) : Prop :=
  forall newer tm t c v older, g_lin s = newer ++ (tm, t, ARead c, RValue v) :: older -> keys_stable older t c.

Lemma kinv_tail (e : lent) log : (forall c v, (le_op e, le_res e) <> (ARead c, RValue v)) ->
  (forall newer tm t c v older, log = newer ++ (tm, t, ARead c, RValue v) :: older -> keys_stable older t c) ->
  forall newer tm t c v older, e :: log = newer ++ (tm, t, ARead c, RValue v) :: older -> keys_stable older t c.
Proof.
  intros Hq H newer tm t c v older E. destruct newer as [|x newer]; cbn in E; inversion E; subst; [|eauto].
  exfalso. apply (Hq c v). reflexivity.
Qed.

Lemma reach_kinv nl tr s : reach nl tr s -> KInv s.
Proof.
  intros R; induction R as [|tr s l s' R IH Hs]; [intros [|x newer] ? ? ? ? ? E; cbn in E; discriminate|].
  unfold step in Hs. destruct (step0 s l) as [s0|] eqn:E0; [|discriminate]. inversion Hs; subst s'. clear Hs. unfold KInv. cbn [g_lin tick].
  destruct (step0_log s l s0 E0) as [El|(t & o & r & El & Hl)]; rewrite El; [exact IH|].
  destruct o; try (apply kinv_tail; [cbn; intros ? ? Hx; discriminate | exact IH]).
  (* a collection loads one child *)
  cbn in Hl. destruct Hl as (o' & b & a & ->).
  intros newer tm t0 c0 v0 older E. destruct newer as [|x newer]; cbn in E; [|inversion E; subst; eapply IH; eauto].
  inversion E; subst tm t0 c0 older. clear E.
  pose proof (reach_ginv nl tr s R) as G. pose proof (reach_mem nl tr s R) as MI.
  unfold step0 in E0. destruct (v_pc s t) eqn:Epc; try discriminate.
  assert (Hfresh : memN c (vis_cells vis) = false).
  { destruct (key_of_cell c (v_map s)); [|discriminate]. destruct (memN c (vis_cells vis)); [discriminate | reflexivity]. }
  pose proof (M_pc s MI t) as Hpm. rewrite Epc in Hpm. cbn in Hpm. destruct Hpm as (Hsnap & _ & _).
  destruct (busy_open tr s t G ltac:(rewrite Epc; discriminate)) as (cl & ti & Ho).
  pose proof (G_open tr s G t) as Go. rewrite Ho, Epc in Go. destruct Go as (_ & (Hcl & Hls) & _).
  unfold lins_of in Hls. destruct (rev (filter (mineb t ti) (g_lin s))) as [|eC rs] eqn:Ef; [discriminate|]. cbn [map] in Hls.
  assert (OC : opres eC = (ACollect, RKeys snap)) by congruence. assert (Hrs : map opres rs = reads vis) by congruence.
  assert (Hmem : forall y, In y (eC :: rs) <-> In y (g_lin s) /\ mineb t ti y = true).
  { intros y. rewrite <- Ef, <- in_rev, filter_In. tauto. }
  assert (HC : In eC (g_lin s) /\ mineb t ti eC = true) by (apply Hmem; left; auto). destruct HC as [HC1 HC2].
  unfold mineb in HC2. apply andb_true_iff in HC2 as [HCt HCi]. apply Nat.eqb_eq in HCt. apply Nat.leb_le in HCi.
  assert (Ssort : StronglySorted (fun a b => le_time a < le_time b) (eC :: rs)).
  { rewrite <- Ef. apply (ssorted_rev (fun a b => le_time b < le_time a)). apply ssorted_filter'. apply (G_sorted tr s G). }
  exists snap, (le_time eC). split; [|split].
  - destruct eC as [[[tc tt] oc] rc]. unfold opres in OC. cbn in *. inversion OC; subst. exact HC1.
  - intros y Hy Hty Hlt. assert (My : In y (eC :: rs)).
    { apply Hmem. split; auto. unfold mineb. rewrite Hty, Nat.eqb_refl. cbn. apply Nat.leb_le. lia. }
    destruct My as [<-|My]; [lia|]. destruct (read_op rs vis y Hrs My) as (c1 & v1 & A1 & _). exists c1. split; auto.
    intros ->. apply memN_false in Hfresh. apply Hfresh.
    assert (Hin : In (opres y) (reads vis)) by (rewrite <- Hrs; apply in_map; auto). unfold reads in Hin.
    apply in_map_iff in Hin as ([[k2 c2] v2] & E2 & Hv2). unfold opres in E2. rewrite A1 in E2. inversion E2; subst c2.
    unfold vis_cells. apply in_map_iff. exists (k2, c, v2). auto.
  - destruct (chron_consistent nl tr s R) as [_ Hr]. unfold chron in Hr. rewrite Hr, (M_abs s MI). cbn [a_map]. unfold abs_of.
    rewrite abs_map_keys. congruence.
Qed.

(* ------------------------------------------------------------------ the point at which a collection takes effect in a strict linearisation *)
Definition in_span (d : drec) (y : lent) : bool := match d with (_, _, _, ti, trr) => Nat.leb ti (le_time y) && Nat.leb (le_time y) trr end.
(* child c is updated during the window of d *)
Definition hot (s : vstate) (d : drec) (c : N) : bool :=
  existsb (fun y => in_span d y && match le_op y with AUpd c' _ => (c' =? c)%N | _ => false end) (g_lin s).
Definition read_hot (s : vstate) (d : drec) (y : lent) : bool := inwin d y && match le_op y with ARead c => hot s d c | _ => false end.
(* the first read of an updated child if there is one, else the key snapshot *)
Definition is_pivot (s : vstate) (d : drec) (e : lent) : bool :=
  match le_op e with
  | ARead c => hot s d c && negb (existsb (fun y => read_hot s d y && Nat.ltb (le_time y) (le_time e)) (g_lin s))
  | ACollect => negb (existsb (read_hot s d) (g_lin s))
  | _ => false
  end.
Definition sentry_acts (tr : list label) (s : vstate) (e : lent) : list act :=
  match le_op e with
  | ACollect | ARead _ => if is_pivot s (odrec s e) e then [mk tr KColl (odrec s e)] else []
  | o => [mk tr (kind_of_op o) (odrec s e)]
  end.

Lemma hot_spec s t c0 r ti trr c : hot s (t, c0, r, ti, trr) c = true <-> exists y d, In y (g_lin s) /\ ti <= le_time y <= trr /\ le_op y = AUpd c d.
Proof.
  unfold hot. rewrite existsb_exists. split.
  - intros (y & Hy & H). apply andb_true_iff in H as [H1 H2]. cbn in H1. apply andb_true_iff in H1 as [A B]. apply Nat.leb_le in A, B.
    destruct (le_op y) eqn:Eo; try discriminate. apply N.eqb_eq in H2. subst c1. exists y, d. auto.
  - intros (y & d & Hy & Hw & Ho). exists y. split; auto. cbn. rewrite Ho, N.eqb_refl.
    destruct Hw as [A B]. apply Nat.leb_le in A, B. rewrite A, B. reflexivity.
Qed.

Section Pivot.
Variables (nl : nat) (tr : list label) (s : vstate).
Hypothesis R : reach nl tr s.
Hypothesis Hopen : forall t, g_open s t = None.
Let cs := map (conv tr) (rev (g_done s)).
Let G := reach_ginv nl tr s R.
Hypothesis Hno : collect_overlaps_two nl cs = false.

(* the window of a completed collection *)
Lemma collect_win t r ti trr : In (t, CVCollect, r, ti, trr) (g_done s) ->
  exists e1 rest snap vis,
    r = RColl (vis_result vis) /\ Permutation (vis_keys vis) snap /\ opres e1 = (ACollect, RKeys snap) /\ map opres rest = reads vis
    /\ lins_in t ti trr (g_lin s) = (ACollect, RKeys snap) :: reads vis
    /\ StronglySorted (fun a b => le_time a < le_time b) (e1 :: rest)
    /\ (forall y, In y (e1 :: rest) <-> In y (g_lin s) /\ le_tid y = t /\ ti <= le_time y <= trr).
Proof.
  intros Hd. destruct (window_list nl tr s R _ _ _ _ _ Hd) as (es & Hes & Ses & Hmem).
  destruct (collect_window nl tr s R _ _ _ _ es Hd Hes) as (e1 & rest & snap & vis & -> & O1 & Hrest & Hr & Hp).
  assert (Els : lins_in t ti trr (g_lin s) = (ACollect, RKeys snap) :: reads vis) by (rewrite <- Hes; cbn [map]; rewrite O1, Hrest; reflexivity).
  exists e1, rest, snap, vis. split; [exact Hr|]. split; [exact Hp|]. split; [exact O1|]. split; [exact Hrest|]. split; [exact Els|]. split; [exact Ses | exact Hmem].
Qed.

(* the key snapshot of a collection is the map just before its ACollect entry *)
Lemma snap_is_map e1 snap : In e1 (g_lin s) -> opres e1 = (ACollect, RKeys snap) ->
  exists L1 L3, chron s = L1 ++ opres e1 :: L3 /\ consistent ainit L1 /\ snap = a_keys (a_map (arun ainit L1))
                /\ (forall x, In x L1 -> exists e0, In e0 (g_lin s) /\ opres e0 = x /\ le_time e0 < le_time e1).
Proof.
  intros He O1. destruct (chron_before nl tr s R e1 He) as (L1 & L3 & Ech & HL1). exists L1, L3.
  pose proof (chron_cons nl tr s R) as Hc. rewrite Ech in Hc. split; auto. split; [apply consistent_app in Hc; tauto|]. split; auto.
  rewrite O1 in Hc. apply consistent_mid in Hc as [Hr _]. cbn [aspec snd] in Hr. inversion Hr; auto.
Qed.

(* the children a collection shows under different keys are different, and a shown child belongs to its key for ever *)
Lemma shown_update_key t r ti trr e1 snap k c y d : In (t, CVCollect, r, ti, trr) (g_done s) ->
  In e1 (g_lin s) -> opres e1 = (ACollect, RKeys snap) -> In (k, c) snap ->
  In y (g_lin s) -> le_op y = AUpd c d ->
  exists kr tiw trw, In (le_tid y, CWithInc k d, kr, tiw, trw) (g_done s) /\ length k = nl /\ tiw <= le_time y <= trw.
Proof.
  intros Hd He1 O1 Hk Hy Ho.
  destruct (upd_owner nl tr s R Hopen y c d Hy Ho) as (k' & r' & ti' & trr' & Hd' & Hw' & Hl' & _ & Hls' & _).
  destruct (entry_of_done s _ _ _ ti' trr' (AGet k', RChild c) Hd' ltac:(rewrite Hls'; left; auto)) as (eG & HeG & EoG & _).
  destruct (snap_is_map e1 snap He1 O1) as (L1 & L3 & Ech & Hc1 & Hs & _).
  assert (Hg : In (AGet k, RChild c) (chron s)).
  { rewrite Ech. apply in_app_iff. left. rewrite Hs in Hk. apply keys_entry in Hk as (v & Hk). eapply log_map_handed; eauto. }
  assert (k' = k) by (apply (child_id_one_key nl tr s R k' k c); auto; rewrite <- EoG; apply (in_chron s); auto). subst k'.
  exists r', ti', trr'. auto.
Qed.

Lemma overlaps_of t r ti trr tw cw rw tiw trw y : In (t, CVCollect, r, ti, trr) (g_done s) -> In (tw, cw, rw, tiw, trw) (g_done s) ->
  ti <= le_time y <= trr -> tiw <= le_time y <= trw ->
  overlaps (conv tr (t, CVCollect, r, ti, trr)) (conv tr (tw, cw, rw, tiw, trw)) = true.
Proof.
  intros Hd Hw H1 H2. destruct (G_done tr s G _ _ _ _ _ Hd) as (_ & _ & _ & Hc & Hr). destruct (G_done tr s G _ _ _ _ _ Hw) as (_ & _ & _ & Hcw & Hrw).
  unfold overlaps. cbn [conv c_ci c_ri]. apply andb_true_iff. split; eapply ev_lt_of; eauto.
  - destruct (Nat.eq_dec ti trw) as [->|]; [rewrite Hc in Hrw; discriminate | lia].
  - destruct (Nat.eq_dec tiw trr) as [->|]; [rewrite Hcw in Hr; discriminate | lia].
Qed.

Lemma hot_unique t r ti trr e1 snap k1 c1 k2 c2 : In (t, CVCollect, r, ti, trr) (g_done s) ->
  In e1 (g_lin s) -> opres e1 = (ACollect, RKeys snap) -> In (k1, c1) snap -> In (k2, c2) snap ->
  hot s (t, CVCollect, r, ti, trr) c1 = true -> hot s (t, CVCollect, r, ti, trr) c2 = true -> c1 = c2.
Proof.
  intros Hd He1 O1 Hk1 Hk2 H1 H2. apply hot_spec in H1 as (y1 & d1 & Hy1 & Hw1 & Ho1). apply hot_spec in H2 as (y2 & d2 & Hy2 & Hw2 & Ho2).
  destruct (shown_update_key _ _ _ _ e1 snap k1 c1 y1 d1 Hd He1 O1 Hk1 Hy1 Ho1) as (r1 & tiw1 & trw1 & HW1 & Hl1 & Hww1).
  destruct (shown_update_key _ _ _ _ e1 snap k2 c2 y2 d2 Hd He1 O1 Hk2 Hy2 Ho2) as (r2 & tiw2 & trw2 & HW2 & Hl2 & Hww2).
  destruct (key_eqb k1 k2) eqn:Ek.
  - apply key_eqb_eq in Ek. subst k2. destruct (snap_is_map e1 snap He1 O1) as (L1 & L3 & _ & _ & Hs & _).
    assert (ND : NoDup (map fst snap)) by (rewrite Hs, keys_fst; apply nodup_run; constructor).
    pose proof (mget_In snap k1 c1 ND Hk1) as A. pose proof (mget_In snap k1 c2 ND Hk2) as B. congruence.
  - exfalso. assert (Ht : collect_overlaps_two nl cs = true); [|rewrite Hno in Ht; discriminate].
    unfold collect_overlaps_two. eapply existsb_intro; [apply (in_cs2 tr s); eexists; split; [exact Hd | reflexivity]|]. cbn [conv c_call].
    eapply existsb_intro; [apply (in_cs2 tr s); eexists; split; [exact HW1 | reflexivity]|].
    apply andb_true_iff. split; [apply andb_true_iff; split|].
    + unfold is_upd. cbn [conv c_call]. rewrite Hl1. apply Nat.eqb_refl.
    + exact (overlaps_of _ _ _ _ _ _ _ _ _ y1 Hd HW1 Hw1 Hww1).
    + eapply existsb_intro; [apply (in_cs2 tr s); eexists; split; [exact HW2 | reflexivity]|].
      apply andb_true_iff. split; [apply andb_true_iff; split|].
      * unfold is_upd. cbn [conv c_call]. rewrite Hl2. apply Nat.eqb_refl.
      * exact (overlaps_of _ _ _ _ _ _ _ _ _ y2 Hd HW2 Hw2 Hww2).
      * unfold upd_key. cbn [conv c_call]. change (skey_eqb k1 k2) with (key_eqb k1 k2). rewrite Ek. reflexivity.
Qed.
End Pivot.
