(* C06, concurrent part, 2: the ghost linearisation log of Model/RegConc.v.  For every reachable state: the log
   replays on the sequential registry ([qspec] = Registry.v's functions, one call at a time) to the abstract state and the
   logged results; every call logs exactly ONE operation - itself - and returns the logged (sequential) result; the
   logged operation lies inside the call / return window of its call; calls and returns of the trace are exactly the
   recorded ones. *)
Require Import PV.Base.Prelude PV.Base.StrFacts PV.Base.F64.
Require Import PV.Model.Proto PV.Model.Desc PV.Model.Value PV.Model.Registry PV.Model.Conc PV.Model.RegConc.
Require Import PV.Proofs.RegConcBase.
From Coq Require Import Arith Lia Sorted.
Open Scope nat_scope.

Definition qopres (e : qlent) : rcall * rret := (ql_op e, ql_res e).
Definition qmineb (t ti : nat) (e : qlent) : bool := Nat.eqb (ql_tid e) t && Nat.leb ti (ql_time e).
Definition qwinb (t ti tr : nat) (e : qlent) : bool := qmineb t ti e && Nat.leb (ql_time e) tr.
(* operations logged by thread t since time ti / between ti and tr, oldest first *)
Definition qlins_of (t ti : nat) (log : list qlent) : list (rcall * rret) := map qopres (rev (filter (qmineb t ti) log)).
Definition qlins_in (t ti tr : nat) (log : list qlent) : list (rcall * rret) := map qopres (rev (filter (qwinb t ti tr) log)).

(* what a call returns, given what was linearised for it: the call itself, once, with the returned result *)
Definition qret_matches (c : rcall) (r : rret) (ls : list (rcall * rret)) : Prop := ls = [(c, r)].

(* what has been logged so far for the current call of a thread at program counter p *)
Definition qpc_shape (c : rcall) (p : qpc) (ls : list (rcall * rret)) : Prop :=
  match p with
  | QIdle => False
  | QReg1 i | QReg2 i | QReg3 i _ => c = RRegister i /\ ls = []
  | QReg4 i r => c = RRegister i /\ ls = [(c, r)]
  | QUn1 i | QUn2 i => c = RUnregister i /\ ls = []
  | QUn3 i r => c = RUnregister i /\ ls = [(c, r)]
  | QGa1 | QGa2 => c = RGather /\ ls = []
  | QGa3 v _ => c = RGather /\ ls = [(c, RFams v)]
  | QR r => qret_matches c r ls
  end.

Record QGInv (tr : list qlabel) (s : qstate) : Prop := {
  QG_now : qg_now s = length tr;
  QG_time : Forall (fun e => ql_time e < qg_now s) (qg_lin s);
  QG_sorted : StronglySorted (fun a b => ql_time b < ql_time a) (qg_lin s);
  QG_replay : qreplay (q_ct s) qinit (map ql_op (rev (qg_lin s))) = (qg_abs s, map ql_res (rev (qg_lin s)));
  QG_open : forall t, match qg_open s t with
                      | None => q_pc s t = QIdle
                      | Some (c, ti) =>
                          ti < qg_now s /\ qpc_shape c (q_pc s t) (qlins_of t ti (qg_lin s))
                          /\ nth_error tr ti = Some (QE (RgCall t c))
                          /\ (forall c' r' ti' tr', In (t, c', r', ti', tr') (qg_done s) -> tr' < ti)
                      end;
  QG_done : forall t c r ti trr, In (t, c, r, ti, trr) (qg_done s) ->
             ti < trr /\ trr < qg_now s /\ qret_matches c r (qlins_in t ti trr (qg_lin s))
             /\ nth_error tr ti = Some (QE (RgCall t c)) /\ nth_error tr trr = Some (QE (RgRet t r));
  QG_disj : forall t c1 r1 ti1 tr1 c2 r2 ti2 tr2,
             In (t, c1, r1, ti1, tr1) (qg_done s) -> In (t, c2, r2, ti2, tr2) (qg_done s) ->
             (c1, r1, ti1, tr1) = (c2, r2, ti2, tr2) \/ tr1 < ti2 \/ tr2 < ti1;
  QG_owner : forall e, In e (qg_lin s) ->
             (exists c ti, qg_open s (ql_tid e) = Some (c, ti) /\ ti <= ql_time e)
             \/ (exists c r ti trr, In (ql_tid e, c, r, ti, trr) (qg_done s) /\ ti <= ql_time e <= trr);
  QG_calls : forall i t c, nth_error tr i = Some (QE (RgCall t c)) ->
             qg_open s t = Some (c, i) \/ exists r trr, In (t, c, r, i, trr) (qg_done s);
  QG_rets : forall i t r, nth_error tr i = Some (QE (RgRet t r)) -> exists c ti, In (t, c, r, ti, i) (qg_done s) }.

(* ------------------------------------------------------------------ lemmas on the log filters *)
Lemma qlins_of_cons t ti e log :
  qlins_of t ti (e :: log) = if qmineb t ti e then qlins_of t ti log ++ [qopres e] else qlins_of t ti log.
Proof. unfold qlins_of. cbn. destruct (qmineb t ti e); auto. cbn. rewrite map_app; auto. Qed.
Lemma qlins_in_cons t ti tr e log :
  qlins_in t ti tr (e :: log) = if qwinb t ti tr e then qlins_in t ti tr log ++ [qopres e] else qlins_in t ti tr log.
Proof. unfold qlins_in. cbn. destruct (qwinb t ti tr e); auto. cbn. rewrite map_app; auto. Qed.
Lemma qlins_in_of t ti tr log : Forall (fun e => ql_time e <= tr) log -> qlins_in t ti tr log = qlins_of t ti log.
Proof.
  intros H. unfold qlins_in, qlins_of. f_equal. f_equal. induction H as [|e log He _ IH]; cbn; auto.
  unfold qwinb at 1. apply Nat.leb_le in He. rewrite He, andb_true_r, IH; auto.
Qed.
Lemma qlins_of_nil t ti log : Forall (fun e => ql_time e < ti) log -> qlins_of t ti log = [].
Proof.
  intros H. unfold qlins_of. replace (filter (qmineb t ti) log) with (@nil qlent); auto.
  induction H as [|e log He _ IH]; cbn; auto. unfold qmineb at 1.
  replace (Nat.leb ti (ql_time e)) with false by (symmetry; apply Nat.leb_gt; auto). rewrite andb_false_r; auto.
Qed.

Lemma qreplay_snoc ct a os o :
  qreplay ct a (os ++ [o]) = (fst (qspec ct (fst (qreplay ct a os)) o), snd (qreplay ct a os) ++ [snd (qspec ct (fst (qreplay ct a os)) o)]).
Proof.
  revert a; induction os as [|x os IH]; intros a; cbn [qreplay app fst snd].
  - destruct (qspec ct a o); reflexivity.
  - destruct (qspec ct a x) as [a1 r1]. rewrite IH. destruct (qreplay ct a1 os); reflexivity.
Qed.

Lemma q_nth_error_snoc_old {A} (l : list A) x i : i < length l -> nth_error (l ++ [x]) i = nth_error l i.
Proof. intros H. apply nth_error_app1; auto. Qed.
Lemma q_nth_error_snoc_last {A} (l : list A) x : nth_error (l ++ [x]) (length l) = Some x.
Proof. rewrite nth_error_app2, Nat.sub_diag; auto. Qed.
Lemma q_nth_error_snoc_inv {A} (l : list A) x i y : nth_error (l ++ [x]) i = Some y ->
  (i < length l /\ nth_error l i = Some y) \/ (i = length l /\ y = x).
Proof.
  intros H. destruct (Nat.lt_ge_cases i (length l)) as [Hl|Hl].
  - left. rewrite nth_error_app1 in H; auto.
  - right. rewrite nth_error_app2 in H by auto. destruct (i - length l) as [|n] eqn:E.
    + cbn in H. inversion H. split; auto. lia.
    + cbn in H. destruct n; discriminate.
Qed.

Definition q_not_callret (l : qlabel) : Prop :=
  match l with QE (RgCall _ _) | QE (RgRet _ _) => False | _ => True end.

Lemma view_eqb_eq a b : view_eqb a b = true -> a = b.
Proof.
  revert b; induction a as [|[k v] a IH]; destruct b as [|[k' v'] b]; cbn; try congruence.
  intros H. apply andb_true_iff in H as [H H3]. apply andb_true_iff in H as [H1 H2].
  apply str_eqb_eq in H1. apply N.eqb_eq in H2. subst. f_equal; auto.
Qed.
Lemma rret_eqb_eq a b : rret_eqb a b = true -> a = b.
Proof. destruct a, b; cbn; try discriminate; auto. intros H. apply view_eqb_eq in H. congruence. Qed.

Lemma q_idle_no_open tr s t : QGInv tr s -> q_pc s t = QIdle -> qg_open s t = None.
Proof.
  intros G H. pose proof (QG_open tr s G t) as Ho. destruct (qg_open s t) as [[c ti]|]; auto.
  destruct Ho as (_ & Hs & _). rewrite H in Hs. destruct Hs.
Qed.
Lemma q_busy_open tr s t : QGInv tr s -> q_pc s t <> QIdle -> exists c ti, qg_open s t = Some (c, ti).
Proof.
  intros G H. pose proof (QG_open tr s G t) as Ho. destruct (qg_open s t) as [[c ti]|]; eauto. tauto.
Qed.

(* ------------------------------------------------------------------ the four kinds of ghost steps *)
Section Steps.
Variables (tr : list qlabel) (s s' : qstate) (l : qlabel) (t : nat).
Hypothesis G : QGInv tr s.
Hypothesis Enow : qg_now s' = S (qg_now s).
Hypothesis Ect : q_ct s' = q_ct s.

(* a step that logs nothing and is neither a call nor a return marker *)
Lemma qginv_pc p' :
  qg_lin s' = qg_lin s -> qg_open s' = qg_open s -> qg_done s' = qg_done s -> qg_abs s' = qg_abs s ->
  (forall u, q_pc s' u = qupd (q_pc s) t p' u) ->
  q_pc s t <> QIdle ->
  (forall c ls, qpc_shape c (q_pc s t) ls -> qpc_shape c p' ls) ->
  q_not_callret l -> QGInv (tr ++ [l]) s'.
Proof.
  intros E1 E2 E3 E4 Hpc Hbusy Hshape Hl. pose proof (QG_now tr s G) as Hlen. destruct G as [G1 G2 G3 G4 G5 G6 G7 G8 G9 G10].
  constructor; rewrite ?E1, ?E2, ?E3, ?E4, ?Enow, ?Ect.
  - rewrite app_length; cbn; lia.
  - eapply Forall_impl; [|exact G2]. cbn; intros; lia.
  - auto.
  - auto.
  - intros u. rewrite Hpc. specialize (G5 u). unfold qupd. destruct (Nat.eqb u t) eqn:Eu.
    + apply Nat.eqb_eq in Eu; subst u. destruct (qg_open s t) as [[c ti]|]; [|tauto].
      destruct G5 as (A & B & C & D). repeat split; auto. rewrite q_nth_error_snoc_old; auto; lia.
    + destruct (qg_open s u) as [[c ti]|]; auto.
      destruct G5 as (A & B & C & D). repeat split; auto. rewrite q_nth_error_snoc_old; auto; lia.
  - intros u c r ti trr Hin. destruct (G6 _ _ _ _ _ Hin) as (A & B & C & D & E). repeat split; auto.
    all: rewrite q_nth_error_snoc_old; auto; lia.
  - auto.
  - auto.
  - intros i u c Hn. apply q_nth_error_snoc_inv in Hn as [[_ Hn]|[_ Hn]]; [eauto|]. subst l. destruct Hl.
  - intros i u r Hn. apply q_nth_error_snoc_inv in Hn as [[_ Hn]|[_ Hn]]; [eauto|]. subst l. destruct Hl.
Qed.

(* a linearisation step of thread t *)
Lemma qginv_lin p' o :
  qg_lin s' = (qg_now s, t, o, snd (qspec (q_ct s) (qg_abs s) o)) :: qg_lin s ->
  qg_open s' = qg_open s -> qg_done s' = qg_done s -> qg_abs s' = fst (qspec (q_ct s) (qg_abs s) o) ->
  (forall u, q_pc s' u = qupd (q_pc s) t p' u) ->
  q_pc s t <> QIdle ->
  (forall c ls, qpc_shape c (q_pc s t) ls -> qpc_shape c p' (ls ++ [(o, snd (qspec (q_ct s) (qg_abs s) o))])) ->
  q_not_callret l -> QGInv (tr ++ [l]) s'.
Proof.
  intros E1 E2 E3 E4 Hpc Hbusy Hshape Hl. pose proof (QG_now tr s G) as Hlen. destruct (q_busy_open tr s t G Hbusy) as (c0 & ti0 & Hopen).
  destruct G as [G1 G2 G3 G4 G5 G6 G7 G8 G9 G10].
  set (e := (qg_now s, t, o, snd (qspec (q_ct s) (qg_abs s) o))) in *.
  assert (Hti0 : ti0 < qg_now s) by (specialize (G5 t); rewrite Hopen in G5; tauto).
  constructor; rewrite ?E1, ?E2, ?E3, ?E4, ?Enow, ?Ect.
  - rewrite app_length; cbn; lia.
  - constructor; [cbn; lia|]. eapply Forall_impl; [|exact G2]. cbn; intros; lia.
  - constructor; auto.
  - cbn [rev]. rewrite !map_app. cbn [map]. rewrite qreplay_snoc, G4. reflexivity.
  - intros u. rewrite Hpc. specialize (G5 u). unfold qupd. destruct (Nat.eqb u t) eqn:Eu.
    + apply Nat.eqb_eq in Eu; subst u. rewrite Hopen in *. destruct G5 as (A & B & C & D). repeat split; auto.
      * rewrite qlins_of_cons. unfold qmineb, e; cbn. rewrite Nat.eqb_refl.
        replace (Nat.leb ti0 (qg_now s)) with true by (symmetry; apply Nat.leb_le; lia). cbn. apply Hshape; auto.
      * rewrite q_nth_error_snoc_old; auto; lia.
    + destruct (qg_open s u) as [[c ti]|]; auto.
      destruct G5 as (A & B & C & D). repeat split; auto.
      * rewrite qlins_of_cons. unfold qmineb, e; cbn. rewrite Nat.eqb_sym, Eu. cbn. auto.
      * rewrite q_nth_error_snoc_old; auto; lia.
  - intros u c r ti trr Hin. destruct (G6 _ _ _ _ _ Hin) as (A & B & C & D & E). repeat split; auto.
    + rewrite qlins_in_cons. unfold qwinb, e; cbn.
      replace (Nat.leb (qg_now s) trr) with false by (symmetry; apply Nat.leb_gt; lia). rewrite andb_false_r. auto.
    + rewrite q_nth_error_snoc_old; auto; lia.
    + rewrite q_nth_error_snoc_old; auto; lia.
  - auto.
  - intros x [Hx|Hx]; [|auto]. subst x. left. exists c0, ti0. unfold e; cbn. split; auto. lia.
  - intros i u c Hn. apply q_nth_error_snoc_inv in Hn as [[_ Hn]|[_ Hn]]; [eauto|]. subst l. destruct Hl.
  - intros i u r Hn. apply q_nth_error_snoc_inv in Hn as [[_ Hn]|[_ Hn]]; [eauto|]. subst l. destruct Hl.
Qed.

(* a call marker *)
Lemma qginv_call c p' :
  l = QE (RgCall t c) ->
  qg_lin s' = qg_lin s -> qg_open s' = qupd (qg_open s) t (Some (c, qg_now s)) -> qg_done s' = qg_done s -> qg_abs s' = qg_abs s ->
  (forall u, q_pc s' u = qupd (q_pc s) t p' u) ->
  q_pc s t = QIdle -> qpc_shape c p' [] -> QGInv (tr ++ [l]) s'.
Proof.
  intros El E1 E2 E3 E4 Hpc Hidle Hshape. pose proof (QG_now tr s G) as Hlen. pose proof (q_idle_no_open tr s t G Hidle) as Hno.
  destruct G as [G1 G2 G3 G4 G5 G6 G7 G8 G9 G10].
  constructor; rewrite ?E1, ?E2, ?E3, ?E4, ?Enow, ?Ect.
  - rewrite app_length; cbn; lia.
  - eapply Forall_impl; [|exact G2]. cbn; intros; lia.
  - auto.
  - auto.
  - intros u. rewrite Hpc. specialize (G5 u). unfold qupd. destruct (Nat.eqb u t) eqn:Eu.
    + apply Nat.eqb_eq in Eu; subst u. repeat split; auto.
      * rewrite qlins_of_nil; auto.
      * rewrite Hlen, El. apply q_nth_error_snoc_last.
      * intros c' r' ti' tr' Hin. apply G6 in Hin. lia.
    + destruct (qg_open s u) as [[c1 ti]|]; auto.
      destruct G5 as (A & B & C & D). repeat split; auto. rewrite q_nth_error_snoc_old; auto; lia.
  - intros u c1 r ti trr Hin. destruct (G6 _ _ _ _ _ Hin) as (A & B & C & D & E). repeat split; auto.
    all: rewrite q_nth_error_snoc_old; auto; lia.
  - auto.
  - intros x Hx. destruct (G8 x Hx) as [(c1 & ti & Ho & Hle)|H]; [|auto].
    left. exists c1, ti. split; auto. unfold qupd. destruct (Nat.eqb (ql_tid x) t) eqn:Ex; auto.
    apply Nat.eqb_eq in Ex. congruence.
  - intros i u c1 Hn. apply q_nth_error_snoc_inv in Hn as [[_ Hn]|[Hi Hn]].
    + destruct (G9 _ _ _ Hn) as [Ho|Hd]; auto. left. unfold qupd. destruct (Nat.eqb u t) eqn:Eu; auto.
      apply Nat.eqb_eq in Eu. congruence.
    + subst l. inversion Hn; subst. left. rewrite qupd_same. congruence.
  - intros i u r Hn. apply q_nth_error_snoc_inv in Hn as [[_ Hn]|[_ Hn]]; [eauto|]. subst l. discriminate.
Qed.

(* a return marker *)
Lemma qginv_ret c r ti :
  l = QE (RgRet t r) ->
  qg_lin s' = qg_lin s -> qg_open s' = qupd (qg_open s) t None -> qg_done s' = (t, c, r, ti, qg_now s) :: qg_done s -> qg_abs s' = qg_abs s ->
  (forall u, q_pc s' u = qupd (q_pc s) t QIdle u) ->
  q_pc s t = QR r -> qg_open s t = Some (c, ti) -> QGInv (tr ++ [l]) s'.
Proof.
  intros El E1 E2 E3 E4 Hpc Hr Hopen. pose proof (QG_now tr s G) as Hlen.
  destruct G as [G1 G2 G3 G4 G5 G6 G7 G8 G9 G10].
  pose proof (G5 t) as Gt. rewrite Hopen, Hr in Gt. destruct Gt as (Gt1 & Gt2 & Gt3 & Gt4).
  constructor; rewrite ?E1, ?E2, ?E3, ?E4, ?Enow, ?Ect.
  - rewrite app_length; cbn; lia.
  - eapply Forall_impl; [|exact G2]. cbn; intros; lia.
  - auto.
  - auto.
  - intros u. rewrite Hpc. specialize (G5 u). unfold qupd. destruct (Nat.eqb u t) eqn:Eu; auto.
    destruct (qg_open s u) as [[c1 ti1]|]; auto.
    destruct G5 as (A & B & C & D). repeat split; auto.
    + rewrite q_nth_error_snoc_old; auto; lia.
    + intros c' r' ti' tr' [Hin|Hin]; [|eauto]. inversion Hin; subst. rewrite Nat.eqb_refl in Eu. discriminate.
  - intros u c1 r1 ti1 trr [Hin|Hin].
    + inversion Hin; subst. repeat split; auto.
      * rewrite qlins_in_of; auto. eapply Forall_impl; [|exact G2]. cbn; intros; lia.
      * rewrite q_nth_error_snoc_old; auto; lia.
      * rewrite Hlen. apply q_nth_error_snoc_last.
    + destruct (G6 _ _ _ _ _ Hin) as (A & B & C & D & E). repeat split; auto.
      all: rewrite q_nth_error_snoc_old; auto; lia.
  - intros u c1 r1 ti1 tr1 c2 r2 ti2 tr2 [H1|H1] [H2|H2].
    + inversion H1; inversion H2; subst. auto.
    + inversion H1; subst. right; right. eapply Gt4; eauto.
    + inversion H2; subst. right; left. eapply Gt4; eauto.
    + eauto.
  - intros x Hx. destruct (G8 x Hx) as [(c1 & ti1 & Ho & Hle)|(c1 & r1 & ti1 & trr & Hin & Hle)].
    + destruct (Nat.eqb (ql_tid x) t) eqn:Ex.
      * apply Nat.eqb_eq in Ex. rewrite Ex, Hopen in Ho. assert (Hc : c1 = c /\ ti1 = ti) by (inversion Ho; auto).
        destruct Hc as [-> ->]. right. exists c, r, ti, (qg_now s).
        split; [left; congruence|]. rewrite Forall_forall in G2. apply G2 in Hx. lia.
      * left. exists c1, ti1. split; auto. unfold qupd. rewrite Ex; auto.
    + right. exists c1, r1, ti1, trr. split; auto. right; auto.
  - intros i u c1 Hn. apply q_nth_error_snoc_inv in Hn as [[_ Hn]|[_ Hn]].
    + destruct (G9 _ _ _ Hn) as [Ho|(r1 & trr & Hd)].
      * destruct (Nat.eqb u t) eqn:Eu.
        -- apply Nat.eqb_eq in Eu; subst u. rewrite Hopen in Ho. assert (Hc : c = c1 /\ ti = i) by (inversion Ho; auto).
           destruct Hc as [<- <-]. right. exists r, (qg_now s). left; auto.
        -- left. unfold qupd. rewrite Eu; auto.
      * right. exists r1, trr. right; auto.
    + subst l. discriminate.
  - intros i u r1 Hn. apply q_nth_error_snoc_inv in Hn as [[_ Hn]|[Hi Hn]].
    + destruct (G10 _ _ _ Hn) as (c1 & ti1 & Hd). exists c1, ti1. right; auto.
    + subst l. inversion Hn; subst. exists c, ti. left. congruence.
Qed.
End Steps.

Lemma qginv_init ct : QGInv [] (qstate0 ct).
Proof.
  constructor; cbn; auto; try apply Forall_nil; try apply SSorted_nil.
  all: try (intros [|i] ? ? HH; discriminate).
  all: try (intros; tauto).
Qed.

Lemma qupd_self (s : qstate) t u : q_pc s u = qupd (q_pc s) t (q_pc s t) u.
Proof. unfold qupd. destruct (Nat.eqb u t) eqn:E; auto. apply Nat.eqb_eq in E; subst; auto. Qed.

Ltac qpcne := match goal with E : q_pc _ _ = _ |- _ <> _ => rewrite E; discriminate end.
Ltac qshape_intro :=
  let c0 := fresh "c0" in let ls := fresh "ls" in let Hs := fresh "Hs" in
  intros c0 ls Hs; match goal with E : q_pc _ _ = _ |- _ => rewrite E in Hs end; cbn [qpc_shape] in Hs |- *.

Lemma qginv_step tr s l s' : QLockInv s -> QTabInv s -> QGInv tr s -> qstep s l = Some s' -> QGInv (tr ++ [l]) s'.
Proof.
  intros LI TI G H. unfold qstep in H. destruct (qstep0 s l) as [s0|] eqn:H0; [|discriminate]. inversion H; subst s'; clear H.
  qinv_step H0; qboolp.
  (* call markers *)
  all: try solve [eapply qginv_call with (t := t); [exact G | reflexivity | reflexivity | reflexivity | reflexivity | reflexivity | reflexivity | reflexivity
                                                   | intros u; reflexivity | assumption | cbn [qpc_shape]; auto ]].
  (* return marker *)
  all: try solve [match goal with Hr : rret_eqb _ _ = true |- _ => apply rret_eqb_eq in Hr; subst end;
                  eapply qginv_ret with (t := t); [exact G | reflexivity | reflexivity | reflexivity | reflexivity | reflexivity | reflexivity | reflexivity
                                                  | intros u; reflexivity | eassumption | eassumption]].
  (* blocked lock attempts, desc(): nothing moves *)
  all: try solve [eapply qginv_pc with (t := t) (p' := q_pc s0 t);
                  [exact G | reflexivity | reflexivity | reflexivity | reflexivity | reflexivity | reflexivity | intros u; exact (qupd_self (qtick s0) t u)
                  | qpcne | auto | exact I]].
  all: try solve [eapply qginv_pc with (t := t) (p' := q_pc s0 t);
                  [exact G | reflexivity | reflexivity | reflexivity | reflexivity | reflexivity | reflexivity | intros u; exact (qupd_self (qtick s0) t u)
                  | intros HH; rewrite HH in *; discriminate | auto | exact I]].
  (* steps that log nothing and keep the shape *)
  all: try solve [eapply qginv_pc with (t := t);
                  [exact G | reflexivity | reflexivity | reflexivity | reflexivity | reflexivity | reflexivity | intros u; reflexivity
                  | qpcne | qshape_intro; exact Hs | exact I]].
  all: try solve [eapply qginv_pc with (t := t);
                  [exact G | reflexivity | reflexivity | reflexivity | reflexivity | reflexivity | reflexivity | intros u; reflexivity
                  | qpcne | qshape_intro; unfold qret_matches; destruct Hs as (-> & ->); reflexivity | exact I]].
  (* linearisation steps *)
  - (* register: commit *)
    pose proof (QT_pc s TI t) as Hv. match goal with EE : q_pc s t = _ |- _ => rewrite EE in Hv end. cbn [pc_tab] in Hv. pose proof (QT_abs s TI) as Ha.
    assert (Hres : snd (qspec (q_ct s) (qg_abs s) (RRegister i)) = ret_of v) by (cbn [qspec snd]; rewrite Ha, <- Hv; reflexivity).
    destruct v as [tb|e0].
    + eapply qginv_lin with (t := t) (o := RRegister i);
        [exact G | reflexivity | reflexivity | reflexivity | reflexivity | reflexivity | reflexivity | intros u; reflexivity | qpcne | | exact I].
      qshape_intro. destruct Hs as (-> & ->). rewrite Hres. split; reflexivity.
    + eapply qginv_lin with (t := t) (o := RRegister i);
        [exact G | reflexivity | reflexivity | reflexivity | reflexivity | reflexivity | reflexivity | intros u; reflexivity | qpcne | | exact I].
      qshape_intro. destruct Hs as (-> & ->). rewrite Hres. split; reflexivity.
  - (* unregister *)
    pose proof (QT_abs s TI) as Ha.
    assert (Hres : snd (qspec (q_ct s) (qg_abs s) (RUnregister i)) = ret_of (reg_unregister (q_tab s) (descs_of (q_ct s) i)))
      by (cbn [qspec snd]; rewrite Ha; reflexivity).
    destruct (reg_unregister (q_tab s) (descs_of (q_ct s) i)) as [tb|e0].
    + eapply qginv_lin with (t := t) (o := RUnregister i);
        [exact G | reflexivity | reflexivity | reflexivity | reflexivity | reflexivity | reflexivity | intros u; reflexivity | qpcne | | exact I].
      qshape_intro. destruct Hs as (-> & ->). rewrite Hres. split; reflexivity.
    + eapply qginv_lin with (t := t) (o := RUnregister i);
        [exact G | reflexivity | reflexivity | reflexivity | reflexivity | reflexivity | reflexivity | intros u; reflexivity | qpcne | | exact I].
      qshape_intro. destruct Hs as (-> & ->). rewrite Hres. split; reflexivity.
  - (* gather: the read *)
    pose proof (QT_abs s TI) as Ha.
    eapply qginv_lin with (t := t) (o := RGather);
      [exact G | reflexivity | reflexivity | reflexivity | reflexivity | reflexivity | reflexivity | intros u; reflexivity | qpcne | | exact I].
    qshape_intro. destruct Hs as (-> & ->). cbn [qspec snd]. rewrite Ha. split; reflexivity.
Qed.

Lemma qreach_ginv ct tr s : qreach ct tr s -> QGInv tr s.
Proof. induction 1; [apply qginv_init | eapply qginv_step; eauto using qreach_lock, qreach_tab]. Qed.
