(* C04, layer 3: from lines to families.

   - every line the encoder writes for a metric is `sample_line name postfix m additional value`
     for a small table of (postfix, additional label, value) triples ([metric_specs]); the raw
     sample the reader must see for it is `mk_sample` of the same triple;
   - the flat list of lines of a list of good families ([family_lines]) and what render_families
     computes;
   - reading the lines of a family one by one gives [family_plines];
   - grouping: the fold of group_step over these lines produces one RawGroup per family;
   - assembling: the raw samples of a group regroup into exactly [view_family]:
     counter / gauge one sample per metric; histogram = buckets (+Inf) + _sum + _count;
     summary = quantiles + _sum + _count. *)
From Coq Require Import String Ascii.
Require Import PV.Base.Prelude PV.Base.F64 PV.Base.Utf8 PV.Base.Utf8Facts PV.Base.StrFacts.
Require Import PV.Model.Proto PV.Model.Desc PV.Model.Value PV.Model.Text PV.Model.TextParse.
Require Import PV.Spec.SpecC04.
Require Import PV.Proofs.TextEscape PV.Proofs.TextLine.
Open Scope N_scope.

(* ------------------------------------------------------------------ generic list facts *)
Lemma ofold_app {S A} (f : S -> A -> option S) a b s :
  ofold f s (a ++ b) = match ofold f s a with Some s' => ofold f s' b | None => None end.
Proof. revert s. induction a as [|x a IH]; cbn; intros s; [reflexivity|]. destruct (f s x); auto. Qed.
Lemma existsb_map {A B} (f : B -> bool) (g : A -> B) l : existsb f (map g l) = existsb (fun x => f (g x)) l.
Proof. induction l as [|x l IH]; cbn; [reflexivity|]. now rewrite IH. Qed.
Lemma existsb_rev {A} (f : A -> bool) l : existsb f (rev l) = existsb f l.
Proof. induction l as [|x l IH]; cbn; [reflexivity|]. rewrite existsb_app, IH. cbn. rewrite orb_false_r. apply orb_comm. Qed.
Lemma forallb_flat_map {A B} (p : B -> bool) (f : A -> list B) l :
  forallb p (flat_map f l) = forallb (fun x => forallb p (f x)) l.
Proof. induction l as [|x l IH]; cbn; [reflexivity|]. now rewrite forallb_app, IH. Qed.
Lemma map_opt_flat_map {A B C} (f : B -> option C) (g : A -> list B) (h : A -> list C) l :
  (forall x, In x l -> map_opt f (g x) = Some (h x)) -> map_opt f (flat_map g l) = Some (flat_map h l).
Proof.
  induction l as [|x l IH]; cbn [flat_map]; intros H; [reflexivity|].
  apply map_opt_app; [apply H; now left | apply IH; intros y Hy; apply H; now right].
Qed.

Lemma map_flat_map {A B C} (f : B -> C) (g : A -> list B) l : map f (flat_map g l) = flat_map (fun x => map f (g x)) l.
Proof. induction l as [|x l IH]; cbn; [reflexivity|]. now rewrite map_app, IH. Qed.

Lemma labels_eqb_refl a : labels_eqb a a = true.
Proof. induction a as [|[n v] a IH]; cbn; auto. now rewrite !list_eqN_refl, IH. Qed.
Lemma ots_eqb_refl a : ots_eqb a a = true.
Proof. destruct a; cbn; auto. apply Z.eqb_refl. Qed.

Lemma app_neq_suffix (a x y : str) : x <> y -> list_eqN (a ++ x) (a ++ y) = false.
Proof. intros H. apply list_eqN_neq. intros E. apply app_inv_head in E. contradiction. Qed.

(* ------------------------------------------------------------------ the table of lines of one metric *)
Definition lspec := (option str * option LabelPair * f64)%type.
Definition opt_specs (o : option (list lspec)) : list lspec := match o with Some l => l | None => [] end.

Section Oracles.
  Variable show : f64 -> str.
  Variable showz : Z -> str.

  Definition spec_line (name : str) (m : Metric) (s : lspec) : str :=
    let '(p, a, v) := s in sample_line show showz name p m a v.
  Definition spec_sample (name : str) (m : Metric) (s : lspec) : PSample :=
    let '(p, a, v) := s in mk_sample name p m a v.

  Definition bucket_spec (b : Bucket) : lspec := (Some k_bucket, Some (mkLP k_le (show (b_upper b))), f_of_N (b_cum b)).
  Definition hist_item_specs (h : Histogram) : list lspec :=
    List.map bucket_spec (h_bucket h)
    ++ (if existsb (fun b => ik_pos_inf (b_upper b)) (h_bucket h) then []
        else [(Some k_bucket, Some (mkLP k_le k_pos_inf), f_of_N (h_count h))]).
  Definition hist_specs (m : Metric) : list lspec :=
    let h := get_histogram m in
    hist_item_specs h ++ [(Some k_sum, None, h_sum h); (Some k_count, None, f_of_N (h_count h))].
  Definition quantile_spec (q : Quantile) : lspec := (None, Some (mkLP k_quantile (show (q_quantile q))), q_value q).
  Definition summary_specs (m : Metric) : list lspec :=
    let s := get_summary m in
    List.map quantile_spec (s_quantile s) ++ [(Some k_sum, None, s_sum s); (Some k_count, None, f_of_N (s_count s))].
  Definition metric_specs (t : MetricType) (m : Metric) : option (list lspec) :=
    match t with
    | COUNTER => Some [(None, None, get_counter m)]
    | GAUGE => Some [(None, None, get_gauge m)]
    | HISTOGRAM => Some (hist_specs m)
    | SUMMARY => Some (summary_specs m)
    | UNTYPED => None
    end.

  Lemma metric_lines_specs t name m :
    metric_lines show showz t name m = option_map (List.map (spec_line name m)) (metric_specs t m).
  Proof.
    destruct t; cbn [metric_lines metric_specs option_map map spec_line]; try reflexivity.
    - unfold summary_lines, summary_specs. rewrite map_app, map_map. reflexivity.
    - unfold hist_lines, hist_specs, hist_item_specs. rewrite !map_app, map_map, <- app_assoc.
      destruct (existsb (fun b => ik_pos_inf (b_upper b)) (h_bucket (get_histogram m))); reflexivity.
  Qed.

  Definition metric_samples (t : MetricType) (name : str) (m : Metric) : list PSample :=
    List.map (spec_sample name m) (opt_specs (metric_specs t m)).
  Definition metric_lines' (t : MetricType) (name : str) (m : Metric) : list str :=
    List.map (spec_line name m) (opt_specs (metric_specs t m)).

  (* ---------------------------------------------------------------- families: lines, expected parsed lines *)
  Definition family_lines (f : MetricFamily) : list str :=
    header_lines f ++ flat_map (metric_lines' (mf_type f) (mf_name f)) (mf_metric f).
  Definition help_opt (f : MetricFamily) : option str := if is_nil (mf_help f) then None else Some (mf_help f).
  Definition header_plines (f : MetricFamily) : list PLine :=
    (if is_nil (mf_help f) then [] else [PLHelp (mf_name f) (mf_help f)]) ++ [PLType (mf_name f) (mf_type f)].
  Definition family_samples (f : MetricFamily) : list PSample :=
    flat_map (metric_samples (mf_type f) (mf_name f)) (mf_metric f).
  Definition family_plines (f : MetricFamily) : list PLine :=
    header_plines f ++ List.map PLSample (family_samples f).

  (* what render_families computes on families that pass the checks *)
  Definition good_family (f : MetricFamily) : Prop := bad_family f = false.

  Lemma good_family_inv f : good_family f -> check_metric_family f = true /\ mf_type f <> UNTYPED /\ mf_metric f <> [] /\ mf_name f <> [].
  Proof.
    unfold good_family, bad_family, check_metric_family. intros H.
    apply orb_false_elim in H as [H H3]. apply orb_false_elim in H as [H1 H2].
    rewrite H1, H2. repeat split; try (intros E; rewrite E in *; discriminate).
  Qed.

  Lemma metrics_lines_good t name ms : t <> UNTYPED ->
    metrics_lines show showz t name ms = (flat_map (metric_lines' t name) ms, true).
  Proof.
    intros Ht. induction ms as [|m ms IH]; [reflexivity|]. cbn [metrics_lines flat_map].
    rewrite metric_lines_specs, IH. unfold metric_lines'. destruct t; try contradiction; reflexivity.
  Qed.
  Lemma render_families_good fams : Forall good_family fams ->
    render_families show showz fams = (flat_map family_lines fams, true).
  Proof.
    induction 1 as [|f fams Hf Hfs IH]; [reflexivity|]. cbn [render_families flat_map].
    destruct (good_family_inv f Hf) as (Hc & Ht & _). rewrite Hc. cbn [negb].
    rewrite (metrics_lines_good _ _ _ Ht), IH. unfold family_lines. rewrite <- app_assoc. reflexivity.
  Qed.

  (* ---------------------------------------------------------------- the numbers contract, per metric *)
  Definition metric_nums (t : MetricType) (m : Metric) : Prop :=
    (forall x, In x (metric_floats t m) -> float_token_ok x (show x) = true) /\ ts_ok showz m.

  Lemma numbers_ok_metric fams f m :
    numbers_ok show showz fams = true -> In f fams -> In m (mf_metric f) -> metric_nums (mf_type f) m.
  Proof.
    unfold numbers_ok. intros H Hf Hm. apply andb_prop in H as [H1 H2]. rewrite forallb_forall in H1, H2. split.
    - intros x Hx. apply H1. unfold fams_floats. apply in_flat_map. exists f. split; auto. apply in_flat_map. eauto.
    - unfold ts_ok. intros E. apply H2. unfold fams_ints. apply in_flat_map. exists f. split; auto.
      apply in_flat_map. exists m. split; auto. rewrite E. now left.
  Qed.

  (* ---------------------------------------------------------------- each line of a metric reads back as its raw sample *)
  Definition spec_ok (m : Metric) (s : lspec) : Prop :=
    let '(p, a, v) := s in
    forallb mname_char (opt_str p) = true /\ Forall lname_ok (m_label m ++ opt_list a) /\ float_token_ok v (show v) = true.

  Lemma lname_ok_app1 ls n v : Forall lname_ok ls -> p_valid_name lname_char n = true -> Forall lname_ok (ls ++ opt_list (Some (mkLP n v))).
  Proof. intros H Hn. apply Forall_app. split; auto. constructor; auto. Qed.
  Lemma lname_ok_app0 ls : Forall lname_ok ls -> Forall lname_ok (ls ++ opt_list None).
  Proof. intros H. cbn. now rewrite app_nil_r. Qed.

  Lemma metric_specs_ok t m specs :
    metric_specs t m = Some specs -> Forall lname_ok (m_label m) -> metric_nums t m -> Forall (spec_ok m) specs.
  Proof.
    intros Hs Hl [Hn _]. destruct t; cbn [metric_specs] in Hs; inversion Hs; subst; clear Hs.
    - repeat constructor; auto using lname_ok_app0. apply Hn. now left.
    - repeat constructor; auto using lname_ok_app0. apply Hn. now left.
    - unfold summary_specs. apply Forall_app. split.
      + apply Forall_map, Forall_forall. intros q Hq. repeat split; auto.
        * apply lname_ok_app1; auto.
        * apply Hn. cbn [metric_floats]. apply in_or_app. left. apply in_flat_map. exists q. split; auto. right. now left.
      + repeat constructor; auto using lname_ok_app0; apply Hn; cbn [metric_floats]; apply in_or_app; right; cbn; auto.
    - unfold hist_specs, hist_item_specs. rewrite !Forall_app. repeat split.
      + apply Forall_map, Forall_forall. intros b Hb. repeat split; auto.
        * apply lname_ok_app1; auto.
        * apply Hn. cbn [metric_floats]. apply in_or_app. left. apply in_flat_map. exists b. split; auto. right. now left.
      + destruct (existsb _ _); constructor; [|constructor]. repeat split; auto.
        * apply lname_ok_app1; auto.
        * apply Hn. cbn [metric_floats]. apply in_or_app. right. now left.
      + repeat constructor; auto using lname_ok_app0; apply Hn; cbn [metric_floats]; apply in_or_app; right; cbn; auto.
  Qed.

  Lemma parse_spec_line name m s :
    p_valid_name mname_char name = true -> spec_ok m s -> ts_ok showz m ->
    parse_line (spec_line name m s) = Some (PLSample (spec_sample name m s)).
  Proof. destruct s as [[p a] v]. intros Hn (H1 & H2 & H3) Ht. apply parse_line_sample_line; auto. Qed.

  Lemma parse_metric_lines t name m :
    p_valid_name mname_char name = true -> Forall lname_ok (m_label m) -> metric_nums t m ->
    map_opt parse_line (metric_lines' t name m) = Some (List.map PLSample (metric_samples t name m)).
  Proof.
    intros Hn Hl Hnum. unfold metric_lines', metric_samples. rewrite map_map.
    destruct (metric_specs t m) as [specs|] eqn:E; [|reflexivity]. cbn [opt_specs].
    pose proof (metric_specs_ok _ _ _ E Hl Hnum) as Hok. rewrite Forall_forall in Hok.
    apply map_opt_map. intros s Hs. apply parse_spec_line; auto. apply Hnum.
  Qed.

  Lemma parse_header_lines f :
    p_valid_name mname_char (mf_name f) = true ->
    map_opt parse_line (header_lines f) = Some (header_plines f).
  Proof.
    intros Hn. unfold header_lines, header_plines. apply map_opt_app.
    - destruct (is_nil (mf_help f)); cbn [map_opt]; [reflexivity|]. rewrite parse_line_help by auto. reflexivity.
    - cbn [map_opt]. rewrite parse_line_type by auto. reflexivity.
  Qed.

  Lemma parse_family_lines f :
    p_valid_name mname_char (mf_name f) = true ->
    (forall m, In m (mf_metric f) -> Forall lname_ok (m_label m) /\ metric_nums (mf_type f) m) ->
    map_opt parse_line (family_lines f) = Some (family_plines f).
  Proof.
    intros Hn Hm. unfold family_lines, family_plines, family_samples. apply map_opt_app; [apply parse_header_lines; auto|].
    rewrite map_flat_map.
    apply map_opt_flat_map. intros m Hin. destruct (Hm m Hin). apply parse_metric_lines; auto.
  Qed.
End Oracles.

(* ------------------------------------------------------------------ grouping lines into families *)
Section Group.
  Variable show : f64 -> str.

  Definition fam_group (f : MetricFamily) : RawGroup :=
    mkRG (mf_name f) (help_opt f) (Some (mf_type f)) (rev (family_samples show f)).
  (* the open group, if any, already has a sample: the next HELP / TYPE line opens a new group *)
  Definition st_ready (st : gstate) : Prop := match snd st with None => True | Some g => rg_rsamples g <> [] end.

  Lemma group_header st f : st_ready st ->
    ofold group_step st (header_plines f) = Some (close_group st, Some (mkRG (mf_name f) (help_opt f) (Some (mf_type f)) [])).
  Proof.
    destruct st as [cl [[gn gh gt gs]|]]; unfold st_ready, header_plines, help_opt, close_group; cbn [snd fst rg_rsamples]; intros Hr.
    - destruct gs as [|s gs]; [congruence|].
      destruct (is_nil (mf_help f)); cbn [app ofold group_step snd fst rg_name rg_rsamples rg_help rg_type is_nil];
        rewrite ?andb_false_r; cbn [ofold group_step snd fst rg_name rg_rsamples rg_help rg_type is_nil];
        rewrite ?list_eqN_refl; reflexivity.
    - destruct (is_nil (mf_help f)); cbn [app ofold group_step snd fst rg_name rg_rsamples rg_help rg_type is_nil];
        rewrite ?list_eqN_refl; reflexivity.
  Qed.

  Lemma group_samples n h t samples : forall cl acc,
    Forall (fun s => belongs (mkRG n h (Some t) []) (ps_name s) = true) samples ->
    ofold group_step (cl, Some (mkRG n h (Some t) acc)) (List.map PLSample samples)
    = Some (cl, Some (mkRG n h (Some t) (rev samples ++ acc))).
  Proof.
    induction samples as [|s samples IH]; intros cl acc H; [reflexivity|]. inversion H as [|? ? Hs Hr]; subst.
    cbn [map ofold group_step snd fst rg_name rg_help rg_type rg_rsamples].
    change (belongs (mkRG n h (Some t) acc) (ps_name s)) with (belongs (mkRG n h (Some t) []) (ps_name s)). rewrite Hs.
    rewrite IH by auto. cbn [rev]. rewrite <- app_assoc. reflexivity.
  Qed.

  Lemma metric_samples_belong t name h m :
    Forall (fun s => belongs (mkRG name h (Some t) []) (ps_name s) = true) (metric_samples show t name m).
  Proof.
    unfold metric_samples. apply Forall_map.
    assert (E0 : forall a v, t <> HISTOGRAM -> belongs (mkRG name h (Some t) []) (ps_name (spec_sample name m (None, a, v))) = true).
    { intros a v Ht. unfold belongs. cbn [rg_eff_type rg_type rg_name spec_sample mk_sample ps_name opt_str]. rewrite app_nil_r.
      destruct t; try congruence; rewrite list_eqN_refl; auto. }
    assert (E1 : forall a v, t = HISTOGRAM \/ t = SUMMARY ->
                 belongs (mkRG name h (Some t) []) (ps_name (spec_sample name m (Some k_sum, a, v))) = true
                 /\ belongs (mkRG name h (Some t) []) (ps_name (spec_sample name m (Some k_count, a, v))) = true).
    { intros a v Ht. unfold belongs. cbn [rg_eff_type rg_type rg_name spec_sample mk_sample ps_name opt_str].
      change k_sum with sfx_sum. change k_count with sfx_count.
      destruct Ht as [-> | ->]; rewrite !list_eqN_refl, ?orb_true_r; auto. }
    destruct t; cbn [metric_specs opt_specs].
    - repeat constructor. apply E0. discriminate.
    - repeat constructor. apply E0. discriminate.
    - unfold summary_specs. apply Forall_app. split.
      + apply Forall_map, Forall_forall. intros q _. unfold quantile_spec. apply E0. discriminate.
      + repeat constructor; apply E1; auto.
    - constructor.
    - unfold hist_specs, hist_item_specs. rewrite !Forall_app.
      assert (Eb : forall a v, belongs (mkRG name h (Some HISTOGRAM) []) (ps_name (spec_sample name m (Some k_bucket, a, v))) = true).
      { intros a v. unfold belongs. cbn [rg_eff_type rg_type rg_name spec_sample mk_sample ps_name opt_str].
        change k_bucket with sfx_bucket. now rewrite list_eqN_refl. }
      repeat split.
      + apply Forall_map, Forall_forall. intros b _. apply Eb.
      + destruct (existsb _ _); repeat constructor. apply Eb.
      + repeat constructor; apply E1; auto.
  Qed.

  Lemma family_samples_belong f h :
    Forall (fun s => belongs (mkRG (mf_name f) h (Some (mf_type f)) []) (ps_name s) = true) (family_samples show f).
  Proof. unfold family_samples. apply Forall_flat_map, Forall_forall. intros m _. apply metric_samples_belong. Qed.

  Lemma group_family st f : st_ready st ->
    ofold group_step st (family_plines show f) = Some (close_group st, Some (fam_group f)).
  Proof.
    intros Hr. unfold family_plines. rewrite ofold_app, (group_header _ _ Hr).
    rewrite group_samples by apply family_samples_belong. rewrite app_nil_r. reflexivity.
  Qed.

  Lemma metric_specs_nonempty t m l : metric_specs show t m = Some l -> l <> [].
  Proof.
    destruct t; cbn [metric_specs]; intros [= <-]; try discriminate.
    - unfold summary_specs. intros E. apply app_eq_nil in E as [_ E]. discriminate.
    - unfold hist_specs. intros E. apply app_eq_nil in E as [_ E]. discriminate.
  Qed.
  Lemma family_samples_nonempty f : good_family f -> family_samples show f <> [].
  Proof.
    intros Hg. destruct (good_family_inv f Hg) as (_ & Ht & Hm & _). unfold family_samples.
    destruct (mf_metric f) as [|m ms]; [congruence|]. cbn [flat_map]. intros E. apply app_eq_nil in E as [E _].
    unfold metric_samples in E. apply map_eq_nil in E.
    destruct (metric_specs show (mf_type f) m) as [l|] eqn:El.
    - apply (metric_specs_nonempty _ _ _ El). exact E.
    - destruct (mf_type f); try discriminate. contradiction.
  Qed.
  Lemma fam_group_ready cl f : good_family f -> st_ready (cl, Some (fam_group f)).
  Proof.
    intros Hg. unfold st_ready, fam_group. cbn [snd rg_rsamples]. intros E.
    apply (family_samples_nonempty f Hg). rewrite <- (rev_involutive (family_samples show f)), E. reflexivity.
  Qed.

  Lemma group_families fams : forall st, st_ready st -> Forall good_family fams ->
    exists st', ofold group_step st (flat_map (family_plines show) fams) = Some st' /\ st_ready st'
                /\ close_group st' = rev (List.map fam_group fams) ++ close_group st.
  Proof.
    induction fams as [|f fams IH]; intros st Hr Hg.
    - exists st. auto.
    - inversion Hg as [|? ? Hf Hfs]; subst. cbn [flat_map]. rewrite ofold_app, (group_family _ _ Hr).
      destruct (IH _ (fam_group_ready (close_group st) f Hf) Hfs) as (st' & E & Hr' & Hc).
      exists st'. repeat split; auto. rewrite Hc. cbn [map rev]. rewrite <- app_assoc. reflexivity.
  Qed.

  (* ---------------------------------------------------------------- regrouping the samples of one family *)
  Definition label_free (lbl : str) (m : Metric) : Prop := Forall (fun l => lp_name l <> lbl) (m_label m).
  Definition floats_ok (t : MetricType) (m : Metric) : Prop :=
    forall x, In x (metric_floats t m) -> float_token_ok x (show x) = true.

  Lemma extract_label_last lbl tok L : Forall (fun l => lp_name l <> lbl) L ->
    extract_label lbl (view_labels (L ++ [mkLP lbl tok])) = Some (tok, view_labels L).
  Proof.
    induction 1 as [|l L Hl HL IH]; cbn [view_labels map app extract_label lp_name lp_value].
    - now rewrite list_eqN_refl.
    - rewrite (list_eqN_neq _ _ Hl). unfold view_labels in IH. rewrite IH. reflexivity.
  Qed.

  Definition cur_ok (m : Metric) (cur : option MCur) : Prop :=
    match cur with
    | None => True
    | Some c => mc_labels c = view_labels (m_label m) /\ mc_ts c = view_ts m /\ mc_sum c = None
    end.
  Definition cur_items (cur : option MCur) : list (f64 * f64) := match cur with None => [] | Some c => mc_items c end.

  Lemma item_step_ok lbl m nm tok k v acc cur :
    label_free lbl m -> parse_float tok = Some k -> cur_ok m cur ->
    item_step lbl (acc, cur) (mkPS nm (view_labels (m_label m ++ [mkLP lbl tok])) v (view_ts m))
    = Some (acc, Some (mkMC (view_labels (m_label m)) (view_ts m) ((k, v) :: cur_items cur) None)).
  Proof.
    intros Hf Hp Hc. unfold item_step. cbn [ps_labels ps_ts ps_value snd fst]. rewrite (extract_label_last _ _ _ Hf), Hp.
    destruct cur as [[cl ct ci cs]|]; [|reflexivity]. cbn in Hc. destruct Hc as (-> & -> & ->).
    cbn [is_none mc_sum andb cur_items mc_items mc_labels mc_ts]. unfold same_metric. cbn [mc_labels mc_ts].
    rewrite labels_eqb_refl, ots_eqb_refl. reflexivity.
  Qed.

  (* items: (token, key, value) *)
  Definition item := (str * f64 * f64)%type.
  Definition item_kv (it : item) : f64 * f64 := (snd (fst it), snd it).
  Definition item_sample (name : str) (pf : option str) (m : Metric) (lbl : str) (it : item) : PSample :=
    mk_sample name pf m (Some (mkLP lbl (fst (fst it)))) (snd it).
  Definition item_ok (it : item) : Prop := parse_float (fst (fst it)) = Some (snd (fst it)).

  Lemma items_fold (step : mstate -> PSample -> option mstate) lbl pf name m :
    (forall st it, step st (item_sample name pf m lbl it) = item_step lbl st (item_sample name pf m lbl it)) ->
    label_free lbl m ->
    forall its it acc cur, Forall item_ok (it :: its) -> cur_ok m cur ->
    ofold step (acc, cur) (List.map (item_sample name pf m lbl) (it :: its))
    = Some (acc, Some (mkMC (view_labels (m_label m)) (view_ts m) (rev (List.map item_kv (it :: its)) ++ cur_items cur) None)).
  Proof.
    intros Hstep Hf. induction its as [|it' its IH]; intros it acc cur Hok Hc; inversion Hok as [|? ? Hi Hr]; subst.
    - cbn [map ofold]. rewrite Hstep. unfold item_sample, mk_sample. cbn [opt_list].
      rewrite (item_step_ok _ _ _ _ _ _ _ _ Hf Hi Hc). destruct it as [[tok k] v]. reflexivity.
    - change (map (item_sample name pf m lbl) (it :: it' :: its)) with (item_sample name pf m lbl it :: map (item_sample name pf m lbl) (it' :: its)).
      cbn [ofold]. rewrite Hstep. unfold item_sample at 1, mk_sample. cbn [opt_list].
      rewrite (item_step_ok _ _ _ _ _ _ _ _ Hf Hi Hc).
      rewrite IH by (auto; cbn; auto). cbn [cur_items mc_items].
      change (map item_kv (it :: it' :: its)) with (item_kv it :: map item_kv (it' :: its)).
      cbn [rev]. rewrite <- !app_assoc. destruct it as [[tok k] v]. reflexivity.
  Qed.

  Lemma sum_step_some need m nm v acc items :
    sum_step need (acc, Some (mkMC (view_labels (m_label m)) (view_ts m) items None)) (mkPS nm (view_labels (m_label m)) v (view_ts m))
    = Some (acc, Some (mkMC (view_labels (m_label m)) (view_ts m) items (Some v))).
  Proof.
    unfold sum_step. cbn [snd fst mc_sum is_none andb ps_labels ps_ts ps_value mc_labels mc_ts mc_items]. unfold same_metric.
    cbn [mc_labels mc_ts]. rewrite labels_eqb_refl, ots_eqb_refl. reflexivity.
  Qed.
  Lemma count_step_ok hist m nm v acc items sm : negb hist || has_pos_inf items = true ->
    count_step hist (acc, Some (mkMC (view_labels (m_label m)) (view_ts m) items (Some sm))) (mkPS nm (view_labels (m_label m)) v (view_ts m))
    = Some (mkVM (view_labels (m_label m)) (if hist then VPHist (rev items) sm v else VPSummary (rev items) sm v) (view_ts m) :: acc, None).
  Proof.
    intros H. unfold count_step. cbn [snd fst mc_sum ps_labels ps_ts ps_value mc_labels mc_ts mc_items]. unfold same_metric.
    cbn [mc_labels mc_ts]. rewrite labels_eqb_refl, ots_eqb_refl, H. reflexivity.
  Qed.

  (* ---- histogram *)
  Definition hist_items (h : Histogram) : list item :=
    List.map (fun b => (show (b_upper b), b_upper b, f_of_N (b_cum b))) (h_bucket h)
    ++ (if existsb (fun b => ik_pos_inf (b_upper b)) (h_bucket h) then [] else [(k_pos_inf, infinity, f_of_N (h_count h))]).

  Lemma hist_items_samples name m :
    List.map (spec_sample name m) (hist_item_specs show (get_histogram m))
    = List.map (item_sample name (Some k_bucket) m k_le) (hist_items (get_histogram m)).
  Proof.
    unfold hist_item_specs, hist_items. rewrite !map_app, !map_map. f_equal.
    destruct (existsb _ _); reflexivity.
  Qed.
  Lemma hist_items_kv h :
    List.map item_kv (hist_items h)
    = List.map (fun b => (b_upper b, f_of_N (b_cum b))) (h_bucket h)
      ++ (if existsb (fun b => PrimFloat.eqb (b_upper b) infinity) (h_bucket h) then [] else [(infinity, f_of_N (h_count h))]).
  Proof.
    unfold hist_items. rewrite map_app, map_map. f_equal.
    change (fun b => ik_pos_inf (b_upper b)) with (fun b => PrimFloat.eqb (b_upper b) infinity).
    destruct (existsb _ _); reflexivity.
  Qed.
  Lemma hist_items_pos_inf h : has_pos_inf (rev (List.map item_kv (hist_items h))) = true.
  Proof.
    unfold has_pos_inf. rewrite existsb_rev, hist_items_kv, existsb_app, existsb_map. cbn [fst].
    destruct (existsb (fun b => PrimFloat.eqb (b_upper b) infinity) (h_bucket h)); reflexivity.
  Qed.
  Lemma hist_items_ok m : floats_ok HISTOGRAM m -> Forall item_ok (hist_items (get_histogram m)).
  Proof.
    intros Hn. unfold hist_items. apply Forall_app. split.
    - apply Forall_map, Forall_forall. intros b Hb. unfold item_ok. cbn [fst snd].
      apply float_token_parse. apply Hn. cbn [metric_floats]. apply in_or_app. left. apply in_flat_map. exists b. split; auto. now left.
    - destruct (existsb _ _); constructor; [exact parse_float_pos_inf | constructor].
  Qed.
  Lemma hist_items_nonempty h : hist_items h <> [].
  Proof.
    unfold hist_items. destruct (h_bucket h) as [|b bs]; [discriminate|]. discriminate.
  Qed.

  Lemma hist_metric_fold name m acc : label_free k_le m -> floats_ok HISTOGRAM m ->
    ofold (hist_step name) (acc, None) (metric_samples show HISTOGRAM name m) = Some (view_metric HISTOGRAM m :: acc, None).
  Proof.
    intros Hf Hn. unfold metric_samples. cbn [metric_specs opt_specs]. unfold hist_specs.
    rewrite map_app, hist_items_samples, ofold_app.
    destruct (hist_items (get_histogram m)) as [|it its] eqn:E; [exfalso; eapply hist_items_nonempty; eauto|].
    rewrite (items_fold (hist_step name) k_le (Some k_bucket) name m).
    - cbn [map ofold spec_sample cur_items]. rewrite app_nil_r.
      unfold mk_sample. cbn [opt_list opt_str]. rewrite !app_nil_r.
      unfold hist_step at 1. cbn [ps_name].
      rewrite (app_neq_suffix name k_sum sfx_bucket) by discriminate. change k_sum with sfx_sum. rewrite list_eqN_refl.
      rewrite sum_step_some.
      unfold hist_step at 1. cbn [ps_name].
      rewrite (app_neq_suffix name k_count sfx_bucket), (app_neq_suffix name k_count sfx_sum) by discriminate.
      change k_count with sfx_count. rewrite list_eqN_refl.
      change (item_kv it :: map item_kv its) with (map item_kv (it :: its)). rewrite <- E.
      rewrite count_step_ok.
      + rewrite rev_involutive. rewrite hist_items_kv. reflexivity.
      + rewrite hist_items_pos_inf. reflexivity.
    - intros st it0. unfold hist_step, item_sample, mk_sample. cbn [ps_name opt_str].
      change k_bucket with sfx_bucket. rewrite list_eqN_refl. reflexivity.
    - exact Hf.
    - rewrite <- E. apply hist_items_ok, Hn.
    - exact I.
  Qed.

  (* ---- summary *)
  Definition summary_items (s : Summary) : list item :=
    List.map (fun q => (show (q_quantile q), q_quantile q, q_value q)) (s_quantile s).
  Lemma summary_items_samples name m :
    List.map (spec_sample name m) (List.map (quantile_spec show) (s_quantile (get_summary m)))
    = List.map (item_sample name None m k_quantile) (summary_items (get_summary m)).
  Proof. unfold summary_items. rewrite !map_map. reflexivity. Qed.
  Lemma summary_items_ok m : floats_ok SUMMARY m -> Forall item_ok (summary_items (get_summary m)).
  Proof.
    intros Hn. unfold summary_items. apply Forall_map, Forall_forall. intros q Hq. unfold item_ok. cbn [fst snd].
    apply float_token_parse. apply Hn. cbn [metric_floats]. apply in_or_app. left. apply in_flat_map. exists q. split; auto. now left.
  Qed.

  Lemma name_neq_suffix (name sfx : str) : sfx <> [] -> list_eqN (name ++ []) (name ++ sfx) = false.
  Proof. intros H. apply app_neq_suffix. congruence. Qed.

  Lemma summary_metric_fold name m acc : label_free k_quantile m -> floats_ok SUMMARY m ->
    ofold (summary_step name) (acc, None) (metric_samples show SUMMARY name m) = Some (view_metric SUMMARY m :: acc, None).
  Proof.
    intros Hf Hn. unfold metric_samples. cbn [metric_specs opt_specs]. unfold summary_specs.
    rewrite map_app, summary_items_samples, ofold_app.
    assert (Hsum : forall st v, summary_step name st (mk_sample name (Some k_sum) m None v)
                                = sum_step false st (mkPS (name ++ k_sum) (view_labels (m_label m)) v (view_ts m))).
    { intros st v. unfold summary_step, mk_sample. cbn [ps_name opt_str opt_list]. rewrite app_nil_r.
      change k_sum with sfx_sum. rewrite list_eqN_refl. reflexivity. }
    assert (Hcount : forall st v, summary_step name st (mk_sample name (Some k_count) m None v)
                                = count_step false st (mkPS (name ++ k_count) (view_labels (m_label m)) v (view_ts m))).
    { intros st v. unfold summary_step, mk_sample. cbn [ps_name opt_str opt_list]. rewrite app_nil_r.
      rewrite (app_neq_suffix name k_count sfx_sum) by discriminate. change k_count with sfx_count. rewrite list_eqN_refl. reflexivity. }
    destruct (summary_items (get_summary m)) as [|it its] eqn:E.
    - cbn [map ofold spec_sample]. rewrite Hsum. unfold sum_step at 1. cbn [snd fst ps_labels ps_ts ps_value].
      rewrite Hcount, count_step_ok by reflexivity.
      unfold view_metric, view_summary. unfold summary_items in E. apply map_eq_nil in E. rewrite E. reflexivity.
    - rewrite (items_fold (summary_step name) k_quantile None name m).
      + cbn [map ofold spec_sample cur_items]. rewrite app_nil_r.
        rewrite Hsum, sum_step_some, Hcount, count_step_ok by reflexivity.
        change (item_kv it :: map item_kv its) with (map item_kv (it :: its)).
        rewrite rev_involutive, <- E. unfold view_metric, view_summary, summary_items. rewrite map_map. reflexivity.
      + intros st it0. unfold summary_step, item_sample, mk_sample. cbn [ps_name opt_str].
        rewrite (name_neq_suffix name sfx_sum), (name_neq_suffix name sfx_count) by discriminate.
        rewrite app_nil_r, list_eqN_refl. reflexivity.
      + exact Hf.
      + rewrite <- E. apply summary_items_ok, Hn.
      + exact I.
  Qed.

  (* ---- all metrics of a family *)
  Lemma typed_metrics_fold (step : mstate -> PSample -> option mstate) t name ms :
    (forall m acc, In m ms -> ofold step (acc, None) (metric_samples show t name m) = Some (view_metric t m :: acc, None)) ->
    forall acc, ofold step (acc, None) (flat_map (metric_samples show t name) ms) = Some (rev (List.map (view_metric t) ms) ++ acc, None).
  Proof.
    induction ms as [|m ms IH]; intros H acc; [reflexivity|]. cbn [flat_map]. rewrite ofold_app, H by now left.
    rewrite IH by (intros; apply H; now right). cbn [map rev]. rewrite <- app_assoc. reflexivity.
  Qed.

  Definition metric_ok (t : MetricType) (m : Metric) : Prop :=
    (t = HISTOGRAM -> label_free k_le m) /\ (t = SUMMARY -> label_free k_quantile m) /\ floats_ok t m.

  Lemma assemble_metrics_family t name ms : t <> UNTYPED -> (forall m, In m ms -> metric_ok t m) ->
    assemble_metrics t name (flat_map (metric_samples show t name) ms) = Some (List.map (view_metric t) ms).
  Proof.
    intros Ht Hm.
    assert (Hval : forall g, (forall m, view_metric t m = mkVM (view_labels (m_label m)) (VPValue (g m)) (view_ts m)) ->
                   (forall m, metric_samples show t name m = [mk_sample name None m None (g m)]) ->
                   map_opt (fun s => if list_eqN (ps_name s) name then Some (mkVM (ps_labels s) (VPValue (ps_value s)) (ps_ts s)) else None)
                     (flat_map (metric_samples show t name) ms) = Some (List.map (view_metric t) ms)).
    { intros g Hv Hs. clear Hm. induction ms as [|m ms IH]; [reflexivity|]. cbn [flat_map map]. rewrite Hs. cbn [app map_opt].
      rewrite IH. unfold mk_sample. cbn [ps_name ps_labels ps_value ps_ts opt_str opt_list]. rewrite !app_nil_r, list_eqN_refl, Hv. reflexivity. }
    destruct t; try contradiction; cbn [assemble_metrics].
    - apply (Hval get_counter); reflexivity.
    - apply (Hval get_gauge); reflexivity.
    - rewrite (typed_metrics_fold (summary_step name) SUMMARY name ms).
      + rewrite app_nil_r, rev_involutive. reflexivity.
      + intros m acc Hin. destruct (Hm m Hin) as (_ & H2 & H3). apply summary_metric_fold; auto.
    - rewrite (typed_metrics_fold (hist_step name) HISTOGRAM name ms).
      + rewrite app_nil_r, rev_involutive. reflexivity.
      + intros m acc Hin. destruct (Hm m Hin) as (H1 & _ & H3). apply hist_metric_fold; auto.
  Qed.

  Theorem assemble_family f : good_family f -> (forall m, In m (mf_metric f) -> metric_ok (mf_type f) m) ->
    assemble (fam_group f) = Some (view_family f).
  Proof.
    intros Hg Hm. destruct (good_family_inv f Hg) as (_ & Ht & _). unfold assemble, fam_group.
    cbn [rg_eff_type rg_type rg_name rg_rsamples rg_help]. rewrite rev_involutive. unfold family_samples.
    rewrite assemble_metrics_family by auto. reflexivity.
  Qed.

  (* ---------------------------------------------------------------- the parsed lines of good families regroup into the view *)
  Theorem parse_plines_families fams : Forall good_family fams ->
    (forall f m, In f fams -> In m (mf_metric f) -> metric_ok (mf_type f) m) ->
    parse_plines (flat_map (family_plines show) fams) = Some (view fams).
  Proof.
    intros Hg Hm. unfold parse_plines.
    destruct (group_families fams ([], None) I Hg) as (st' & E & _ & Hc). rewrite E, Hc. cbn [close_group snd fst].
    rewrite app_nil_r, rev_involutive. unfold view.
    apply map_opt_map. intros f Hf. rewrite Forall_forall in Hg. apply assemble_family; auto.
  Qed.

  (* the same when the header of one more family follows (what an Err run leaves behind): the extra
     header reads as a family without metrics *)
  Lemma assemble_empty n h t : assemble (mkRG n h (Some t) []) = Some (mkVF n h t []).
  Proof. unfold assemble. destruct t; reflexivity. Qed.

  Theorem parse_plines_families_hdr fams f : Forall good_family fams ->
    (forall f m, In f fams -> In m (mf_metric f) -> metric_ok (mf_type f) m) ->
    parse_plines (flat_map (family_plines show) fams ++ header_plines f)
    = Some (view fams ++ [mkVF (mf_name f) (help_opt f) (mf_type f) []]).
  Proof.
    intros Hg Hm. unfold parse_plines. rewrite ofold_app.
    destruct (group_families fams ([], None) I Hg) as (st' & E & Hr & Hc). rewrite E, (group_header _ _ Hr), Hc.
    unfold close_group. cbn [snd fst]. rewrite app_nil_r. cbn [rev]. rewrite rev_involutive.
    apply map_opt_app.
    - unfold view. apply map_opt_map. intros f0 Hf. rewrite Forall_forall in Hg. apply assemble_family; auto.
    - cbn [map_opt]. rewrite assemble_empty. reflexivity.
  Qed.
End Group.
