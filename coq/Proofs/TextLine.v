(* C04, layer 2: one rendered line is read back as what it was rendered from.

   - labels: parse_labels inverts render_labels (fuel = length of the input suffices);
   - a sample line: parse_sample (sample_line ...) = the raw sample;
   - HELP / TYPE lines;
   - characters of rendered lines (no raw LF, scalar values only), for a generic character class;
   - lines_of (unlines ls) = ls when no line contains LF. *)
From Coq Require Import String Ascii.
Require Import PV.Base.Prelude PV.Base.F64 PV.Base.Utf8 PV.Base.Utf8Facts PV.Base.StrFacts.
Require Import PV.Model.Proto PV.Model.Desc PV.Model.Text PV.Model.TextParse.
Require Import PV.Proofs.TextEscape.
Open Scope N_scope.

Definition opt_str (o : option str) : str := match o with Some p => p | None => [] end.

(* ------------------------------------------------------------------ labels *)
Definition lname_ok (l : LabelPair) : Prop := p_valid_name lname_char (lp_name l) = true.

Lemma lname_first nm : p_valid_name lname_char nm = true ->
  exists c r, nm = c :: r /\ is_blank c = false /\ (c =? 125) = false /\ (c =? 35) = false.
Proof.
  destruct nm as [|c r]; [discriminate|]. intros H. exists c, r. split; auto.
  apply p_valid_name_chars in H. cbn [forallb] in H. apply andb_prop in H as [H _].
  unfold lname_char, p_alpha, p_digit in H. unfold is_blank. ucon. repeat split; charb.
Qed.
Lemma mname_first nm : p_valid_name mname_char nm = true ->
  exists c r, nm = c :: r /\ is_blank c = false /\ (c =? 35) = false.
Proof.
  destruct nm as [|c r]; [discriminate|]. intros H. exists c, r. split; auto.
  apply p_valid_name_chars in H. cbn [forallb] in H. apply andb_prop in H as [H _].
  unfold mname_char, lname_char, p_alpha, p_digit in H. unfold is_blank. ucon. repeat split; charb.
Qed.

(* one label, then whatever follows its closing quote *)
Lemma parse_labels_step f nm v r4 : p_valid_name lname_char nm = true ->
  parse_labels (S f) (nm ++ 61 :: 34 :: escape_plain true v ++ 34 :: r4) =
  match skip_blanks r4 with
  | d :: r5 =>
      if d =? 44 then match parse_labels f r5 with Some (ls, r6) => Some ((nm, v) :: ls, r6) | None => None end
      else if d =? 125 then Some ([(nm, v)], r5) else None
  | [] => None
  end.
Proof.
  intros Hn. destruct (lname_first nm Hn) as (c & r & -> & Hb & Hr & _).
  cbn [parse_labels app]. rewrite (skip_blanks_id _ _ Hb). ucon. rewrite Hr.
  change (c :: r ++ 61 :: 34 :: escape_plain true v ++ 34 :: r4) with ((c :: r) ++ 61 :: (34 :: escape_plain true v ++ 34 :: r4)).
  rewrite span_app by (auto using p_valid_name_chars). rewrite Hn. cbn [negb].
  rewrite skip_blanks_id by reflexivity. evN. cbn [negb].
  rewrite skip_blanks_id by reflexivity. evN. cbn [negb].
  rewrite read_quoted_escape. reflexivity.
Qed.

Lemma parse_labels_render ls : forall l fuel rest,
  lname_ok l -> Forall lname_ok ls -> (length ls <= fuel)%nat ->
  parse_labels (S fuel) (render_label l ++ render_label_tail ls ++ rest) = Some (view_labels (l :: ls), rest).
Proof.
  induction ls as [|l' ls IH]; intros l fuel rest Hl Hls Hf.
  - unfold render_label. rewrite escape_string_plain, <- !app_assoc. ucon. cbn [app render_label_tail].
    rewrite parse_labels_step by exact Hl. rewrite skip_blanks_id by reflexivity. evN. reflexivity.
  - inversion Hls as [|? ? Hl' Hls']; subst. destruct fuel as [|fuel]; [cbn in Hf; lia|].
    unfold render_label at 1. rewrite escape_string_plain, <- !app_assoc. ucon. cbn [app render_label_tail].
    rewrite parse_labels_step by exact Hl. ucon. rewrite skip_blanks_id by reflexivity. evN.
    rewrite <- app_assoc. rewrite IH; auto. cbn in Hf. lia.
Qed.

Lemma render_label_tail_length ls : (length ls < length (render_label_tail ls))%nat.
Proof. induction ls; cbn; [lia|]. rewrite app_length. lia. Qed.

(* ------------------------------------------------------------------ a sample line *)
Section Oracles.
  Variable show : f64 -> str.
  Variable showz : Z -> str.

  Definition mk_sample (name : str) (postfix : option str) (m : Metric) (additional : option LabelPair) (value : f64) : PSample :=
    mkPS (name ++ opt_str postfix) (view_labels (m_label m ++ opt_list additional)) value (view_ts m).

  (* the part of parse_sample after the labels *)
  Definition value_tail (nm : str) (ls : list (str * str)) (r1 : str) : option PSample :=
    let '(v, r2) := token (skip_blanks r1) in
    match parse_float v with
    | None => None
    | Some x =>
        match skip_blanks r2 with
        | [] => Some (mkPS nm ls x None)
        | r3 =>
            let '(t, r4) := token r3 in
            match parse_int t with
            | None => None
            | Some z => match skip_blanks r4 with
                        | [] => Some (mkPS nm ls x (Some z))
                        | _ :: _ => None
                        end
            end
        end
    end.

  Definition ts_text (m : Metric) : str := if (get_ts m =? 0)%Z then [] else 32 :: showz (get_ts m).
  Definition ts_ok (m : Metric) : Prop := (get_ts m =? 0)%Z = false -> int_token_ok (get_ts m) (showz (get_ts m)) = true.

  Lemma value_tail_ok nm ls m v :
    float_token_ok v (show v) = true -> ts_ok m ->
    value_tail nm ls (32 :: show v ++ ts_text m) = Some (mkPS nm ls v (view_ts m)).
  Proof.
    intros Hv Ht. apply float_token_parse in Hv as [Hp Hc]. pose proof (parse_float_nonempty _ _ Hp) as Hne.
    apply num_chars_printable in Hc. unfold value_tail, ts_text, view_ts, ts_ok in *.
    rewrite skip_blanks_sp. rewrite skip_blanks_printable by auto. destruct (get_ts m =? 0)%Z.
    - rewrite app_nil_r. rewrite token_all by auto. rewrite Hp. reflexivity.
    - specialize (Ht eq_refl). apply int_token_parse in Ht as [Hz Hzc]. pose proof (parse_int_nonempty _ _ Hz) as Hzne.
      apply num_chars_printable in Hzc.
      rewrite token_app by auto. rewrite Hp. rewrite skip_blanks_sp.
      remember (showz (get_ts m)) as t eqn:Et. clear Et. destruct t as [|c s]; [congruence|].
      pose proof Hzc as Hzc'. cbn [forallb] in Hzc'. apply andb_prop in Hzc' as [Hc1 _].
      rewrite (skip_blanks_id _ _ (printable_not_blank _ Hc1)). rewrite token_all by auto. rewrite Hz. reflexivity.
  Qed.

  Lemma parse_sample_unfold l :
    parse_sample l =
    let '(nm, r) := span mname_char l in
    if negb (p_valid_name mname_char nm) then None
    else
      match (match r with
             | [] => None
             | c :: r' =>
                 if c =? c_lbrace then parse_labels (S (length r')) r'
                 else if is_blank c then
                   match skip_blanks r with
                   | c2 :: r2 => if c2 =? c_lbrace then parse_labels (S (length r2)) r2 else Some ([], r)
                   | [] => None
                   end
                 else None
             end) with
      | None => None
      | Some (ls, r1) => value_tail nm ls r1
      end.
  Proof. reflexivity. Qed.

  Theorem parse_sample_line name postfix m additional v :
    p_valid_name mname_char name = true -> forallb mname_char (opt_str postfix) = true ->
    Forall lname_ok (m_label m ++ opt_list additional) ->
    float_token_ok v (show v) = true -> ts_ok m ->
    parse_sample (sample_line show showz name postfix m additional v) = Some (mk_sample name postfix m additional v).
  Proof.
    intros Hn Hp Hl Hv Ht. unfold mk_sample.
    assert (E : sample_line show showz name postfix m additional v =
                (name ++ opt_str postfix) ++ render_labels (m_label m ++ opt_list additional) ++ 32 :: show v ++ ts_text m).
    { unfold sample_line, ts_text. ucon. rewrite <- !app_assoc. reflexivity. }
    rewrite E. clear E.
    assert (Hn' : p_valid_name mname_char (name ++ opt_str postfix) = true) by (apply p_valid_name_app; auto).
    set (N := name ++ opt_str postfix) in *. set (L := m_label m ++ opt_list additional) in *.
    rewrite parse_sample_unfold.
    destruct L as [|l ls]; cbn [render_labels app].
    - rewrite span_app by (auto using p_valid_name_chars). rewrite Hn'. cbn [negb]. ucon. evN. cbn [is_blank].
      change (is_blank 32) with true. cbn iota.
      pose proof Hv as Hv'. apply float_token_parse in Hv' as [Hpf Hc]. pose proof (parse_float_nonempty _ _ Hpf) as Hne.
      rewrite skip_blanks_sp.
      destruct (show v) as [|c s] eqn:Es; [congruence|]. cbn [forallb] in Hc. apply andb_prop in Hc as [Hc1 _].
      cbn [app]. rewrite (skip_blanks_id _ _ (printable_not_blank _ (num_char_printable _ Hc1))).
      assert (Hb : (c =? 123) = false) by (unfold num_char, p_alpha, p_digit in Hc1; charb).
      rewrite Hb. change (32 :: c :: s ++ ts_text m) with (32 :: (c :: s) ++ ts_text m). rewrite <- Es in *.
      apply value_tail_ok; auto.
    - rewrite span_app by (auto using p_valid_name_chars). rewrite Hn'. cbn [negb]. ucon. evN. cbn iota.
      inversion Hl as [|? ? Hl1 Hl2]; subst. rewrite <- app_assoc.
      rewrite parse_labels_render; auto.
      + apply value_tail_ok; auto.
      + pose proof (render_label_tail_length ls). rewrite !app_length. lia.
  Qed.

  (* ------------------------------------------------------------------ whole lines *)
  Lemma parse_line_sample l s :
    (exists c r, l = c :: r /\ is_blank c = false /\ (c =? 35) = false) -> parse_sample l = Some s ->
    parse_line l = Some (PLSample s).
  Proof.
    intros (c & r & -> & Hb & Hh) Hs. unfold parse_line. rewrite (skip_blanks_id _ _ Hb). ucon. rewrite Hh, Hs. reflexivity.
  Qed.

  Theorem parse_line_sample_line name postfix m additional v :
    p_valid_name mname_char name = true -> forallb mname_char (opt_str postfix) = true ->
    Forall lname_ok (m_label m ++ opt_list additional) ->
    float_token_ok v (show v) = true -> ts_ok m ->
    parse_line (sample_line show showz name postfix m additional v) = Some (PLSample (mk_sample name postfix m additional v)).
  Proof.
    intros Hn Hp Hl Hv Ht. apply parse_line_sample; [|apply parse_sample_line; auto].
    destruct (mname_first _ Hn) as (c & r & -> & Hb & Hh). unfold sample_line. cbn [app]. eauto.
  Qed.

  Lemma parse_line_hash kw rest : forallb printable kw = true -> kw <> [] ->
    parse_line (35 :: 32 :: kw ++ 32 :: rest) =
    if list_eqN kw kw_help then
      let '(nm, r2) := token (skip_blanks (32 :: rest)) in
      if negb (p_valid_name mname_char nm) then None
      else match r2 with
           | [] => Some (PLHelp nm [])
           | _ :: doc => Some (PLHelp nm (unescape_help doc))
           end
    else if list_eqN kw kw_type then
      let '(nm, r2) := token (skip_blanks (32 :: rest)) in
      if negb (p_valid_name mname_char nm) then None
      else
        let '(tw, r3) := token (skip_blanks r2) in
        match parse_type_word tw, skip_blanks r3 with
        | Some t, [] => Some (PLType nm t)
        | _, _ => None
        end
    else Some PLNone.
  Proof.
    intros Hk Hne. unfold parse_line. rewrite skip_blanks_id by reflexivity. ucon. evN. cbn iota.
    rewrite skip_blanks_sp. rewrite skip_blanks_printable by auto. rewrite token_app by auto. reflexivity.
  Qed.

  Theorem parse_line_help name help :
    p_valid_name mname_char name = true ->
    parse_line (k_help ++ name ++ [SP] ++ escape_string help false) = Some (PLHelp name help).
  Proof.
    intros Hn. pose proof (forallb_impl _ _ _ mname_char_printable (p_valid_name_chars _ _ Hn)) as Hpr.
    pose proof (p_valid_name_nonempty _ _ Hn) as Hne.
    rewrite escape_string_plain.
    change (k_help ++ name ++ [SP] ++ escape_plain false help) with (35 :: 32 :: kw_help ++ 32 :: name ++ 32 :: escape_plain false help).
    rewrite parse_line_hash by (reflexivity || discriminate). rewrite list_eqN_refl.
    rewrite skip_blanks_sp, skip_blanks_printable by auto. rewrite token_app by auto. rewrite Hn. cbn [negb].
    rewrite unescape_help_escape. reflexivity.
  Qed.

  Lemma parse_type_word_ok t : parse_type_word (type_word t) = Some t.
  Proof. destruct t; vm_compute; reflexivity. Qed.
  Lemma type_word_printable t : forallb printable (type_word t) = true.
  Proof. destruct t; vm_compute; reflexivity. Qed.
  Lemma type_word_nonempty t : type_word t <> [].
  Proof. destruct t; discriminate. Qed.

  Theorem parse_line_type name t :
    p_valid_name mname_char name = true ->
    parse_line (k_type ++ name ++ [SP] ++ type_word t) = Some (PLType name t).
  Proof.
    intros Hn. pose proof (forallb_impl _ _ _ mname_char_printable (p_valid_name_chars _ _ Hn)) as Hpr.
    pose proof (p_valid_name_nonempty _ _ Hn) as Hne.
    change (k_type ++ name ++ [SP] ++ type_word t) with (35 :: 32 :: kw_type ++ 32 :: name ++ 32 :: type_word t).
    rewrite parse_line_hash by (reflexivity || discriminate).
    change (list_eqN kw_type kw_help) with false. rewrite list_eqN_refl. cbn iota.
    rewrite skip_blanks_sp, skip_blanks_printable by auto. rewrite token_app by auto. rewrite Hn. cbn [negb].
    rewrite skip_blanks_sp. rewrite <- (app_nil_r (type_word t)) at 1.
    rewrite skip_blanks_printable by auto using type_word_printable, type_word_nonempty. rewrite app_nil_r.
    rewrite token_all by apply type_word_printable. rewrite parse_type_word_ok. reflexivity.
  Qed.

  (* ------------------------------------------------------------------ characters of rendered lines *)
  Section LineChars.
    Variables P Q : N -> bool.
    Hypothesis HPp : forall c, printable c = true -> P c = true.
    Hypothesis HP32 : P 32 = true.
    Hypothesis HPesc : forall q s, forallb Q s = true -> forallb P (escape_plain q s) = true.

    Lemma P_printables s : forallb printable s = true -> forallb P s = true.
    Proof. apply forallb_impl, HPp. Qed.

    Definition label_P (l : LabelPair) : Prop := forallb P (lp_name l) = true /\ forallb Q (lp_value l) = true.

    Lemma render_label_P l : label_P l -> forallb P (render_label l) = true.
    Proof.
      intros [H1 H2]. unfold render_label. rewrite escape_string_plain, !forallb_app, H1, (HPesc _ _ H2).
      cbn. rewrite !HPp by reflexivity. reflexivity.
    Qed.
    Lemma render_label_tail_P ls : Forall label_P ls -> forallb P (render_label_tail ls) = true.
    Proof.
      induction 1 as [|l ls Hl Hls IH]; cbn [render_label_tail forallb].
      - rewrite HPp by reflexivity. reflexivity.
      - rewrite forallb_app, IH, (render_label_P _ Hl), HPp by reflexivity. reflexivity.
    Qed.
    Lemma render_labels_P ls : Forall label_P ls -> forallb P (render_labels ls) = true.
    Proof.
      destruct 1 as [|l ls Hl Hls]; [reflexivity|]. cbn [render_labels forallb].
      rewrite forallb_app, (render_label_tail_P _ Hls), (render_label_P _ Hl), HPp by reflexivity. reflexivity.
    Qed.

    Definition ts_P (m : Metric) : Prop := (get_ts m =? 0)%Z = false -> forallb P (showz (get_ts m)) = true.

    Lemma sample_line_P name postfix m additional v :
      forallb P name = true -> forallb P (opt_str postfix) = true ->
      Forall label_P (m_label m ++ opt_list additional) -> forallb P (show v) = true -> ts_P m ->
      forallb P (sample_line show showz name postfix m additional v) = true.
    Proof.
      intros Hn Hp Hl Hv Ht. unfold sample_line.
      assert (Hts : forallb P (if (get_ts m =? 0)%Z then [] else SP :: showz (get_ts m)) = true).
      { unfold ts_P in Ht. destruct (get_ts m =? 0)%Z; [reflexivity|]. cbn [forallb]. ucon. rewrite HP32, Ht; auto. }
      destruct postfix as [pf|]; cbn [opt_str] in Hp;
        rewrite !forallb_app, Hn, ?Hp, (render_labels_P _ Hl), Hv, Hts; cbn [forallb andb]; ucon; rewrite HP32; reflexivity.
    Qed.
    Lemma P_ascii s : forallb (fun c => printable c || (c =? 32)) s = true -> forallb P s = true.
    Proof.
      apply forallb_impl. intros c H. apply orb_prop in H as [H|H]; [auto|]. apply N.eqb_eq in H. now subst.
    Qed.
    Lemma help_line_P name help : forallb P name = true -> forallb Q help = true ->
      forallb P (k_help ++ name ++ [SP] ++ escape_string help false) = true.
    Proof.
      intros Hn Hh. rewrite escape_string_plain, !forallb_app, Hn, (HPesc _ _ Hh), (P_ascii k_help), (P_ascii [SP]) by reflexivity.
      reflexivity.
    Qed.
    Lemma type_line_P name t : forallb P name = true -> forallb P (k_type ++ name ++ [SP] ++ type_word t) = true.
    Proof.
      intros Hn. rewrite !forallb_app, Hn, (P_printables _ (type_word_printable t)), (P_ascii k_type), (P_ascii [SP]) by reflexivity.
      reflexivity.
    Qed.
  End LineChars.
End Oracles.

(* ------------------------------------------------------------------ lines *)
Definition nolf (c : N) : bool := negb (c =? 10).
Definition line_nolf (l : str) : Prop := forallb nolf l = true.

Lemma split_on_line l rest : line_nolf l -> split_on 10 (l ++ 10 :: rest) = l :: split_on 10 rest.
Proof.
  unfold line_nolf. induction l as [|c l IH]; cbn [app split_on forallb]; intros H.
  - evN. reflexivity.
  - apply andb_prop in H as [H1 H2]. unfold nolf in H1. apply negb_true_iff in H1. rewrite H1, IH by auto. reflexivity.
Qed.
Lemma unlines_cons l ls : unlines (l :: ls) = l ++ 10 :: unlines ls.
Proof. unfold unlines. cbn [flat_map]. rewrite <- app_assoc. reflexivity. Qed.
Lemma unlines_app a b : unlines (a ++ b) = unlines a ++ unlines b.
Proof. apply flat_map_app. Qed.
Lemma split_on_unlines ls : Forall line_nolf ls -> split_on 10 (unlines ls) = ls ++ [[]].
Proof.
  induction 1 as [|l ls Hl Hls IH]; [reflexivity|]. rewrite unlines_cons, split_on_line, IH by auto. reflexivity.
Qed.
Theorem lines_of_unlines ls : Forall line_nolf ls -> lines_of (unlines ls) = Some ls.
Proof.
  intros H. unfold lines_of. change c_lf with 10. rewrite (split_on_unlines _ H), rev_app_distr. cbn [rev app].
  rewrite rev_involutive. reflexivity.
Qed.

(* the two character classes used later *)
Lemma nolf_printable c : printable c = true -> nolf c = true.
Proof. intros H. unfold nolf. now rewrite (printable_not_lf _ H). Qed.
Lemma nolf_escape q s : forallb (fun _ => true) s = true -> forallb nolf (escape_plain q s) = true.
Proof. intros _. apply escape_plain_no_lf. Qed.
Lemma scalarb_escape q s : forallb scalarb s = true -> forallb scalarb (escape_plain q s) = true.
Proof. apply escape_plain_scalar. Qed.

Lemma map_opt_app {A B} (f : A -> option B) a b ya yb :
  map_opt f a = Some ya -> map_opt f b = Some yb -> map_opt f (a ++ b) = Some (ya ++ yb).
Proof.
  revert ya. induction a as [|x a IH]; cbn; intros ya.
  - intros [= <-]. auto.
  - destruct (f x) as [y|]; [|discriminate]. destruct (map_opt f a) as [ys|]; [|discriminate]. intros [= <-] Hb.
    rewrite (IH ys eq_refl Hb). reflexivity.
Qed.
Lemma map_opt_map {A B C} (f : B -> option C) (g : A -> B) (h : A -> C) l :
  (forall x, In x l -> f (g x) = Some (h x)) -> map_opt f (map g l) = Some (map h l).
Proof.
  induction l as [|x l IH]; cbn [map map_opt]; intros H; [reflexivity|].
  rewrite (H x (or_introl eq_refl)), IH; auto. intros y Hy. apply H. now right.
Qed.
