(* [fork of Proofs/C07SpecWorld.v that allows custom collectors exposing no families]
   Layer B3/B4 of the C07/C14 spec proofs: the invariant of reachable worlds (library collectors
   only) and what it says about the families collected from the collectors of one registry.
   - [WI w]: every value / histogram core carries the label pairs make_label_pairs gives for its
     descriptor; a vector's children are keyed by the hash of their values and carry the vector's
     descriptor; a registry holds library collectors keyed by their collector id, with distinct
     keys, and same-name descriptors are compatible; a registry may also hold custom collectors exposing no families; custom handles expose no families.
   - [cout w c]: what collecting c returns, as a pure function of the world; a collection
     changes the world only inside histogram cores and does not change any [cout] ([weq]).
   - [reg_shape]: the collected list of a registry satisfies [lib_shape], [payloads_ok], and
     [agree_type] when same-name collectors have one kind. *)
Require Import PV.Base.Prelude PV.Base.Utf8 PV.Base.Fnv PV.Base.F64 PV.Base.StrFacts PV.Base.SortFacts.
Require Import PV.Model.Proto PV.Model.Desc PV.Model.Value PV.Model.Hist PV.Model.Vec PV.Model.Registry PV.Model.World.
Require Import PV.Proofs.DescFacts PV.Proofs.GatherFacts PV.Proofs.C07SpecGather PV.Proofs.C07SpecLabels PV.Proofs.C07SpecHist.
From Coq Require Import Permutation Sorting.Sorted.
Open Scope N_scope.

(* ---------- list helpers ---------- *)
Definition prefix {A} (a b : list A) : Prop := exists c, b = a ++ c.
Lemma prefix_refl {A} (a : list A) : prefix a a.
Proof. exists []. rewrite app_nil_r. reflexivity. Qed.
Lemma prefix_snoc {A} (a : list A) x : prefix a (a ++ [x]).
Proof. exists [x]. reflexivity. Qed.
Lemma prefix_nth {A} (a b : list A) i x : prefix a b -> nth_error a i = Some x -> nth_error b i = Some x.
Proof. intros [c ->] H. rewrite nth_error_app1; auto. apply nth_error_Some. congruence. Qed.
Lemma prefix_length {A} (a b : list A) : prefix a b -> (length a <= length b)%nat.
Proof. intros [c ->]. rewrite app_length. lia. Qed.
Lemma prefix_of_eq {A} (a b : list A) : b = a -> prefix a b.
Proof. intros ->. apply prefix_refl. Qed.

Lemma list_set_length {A} (l : list A) i x : length (list_set l i x) = length l.
Proof. revert i; induction l as [|y l IH]; intros i; destruct i; cbn; auto. Qed.
Lemma In_list_set {A} (l : list A) i x z : In z (list_set l i x) -> In z l \/ z = x.
Proof.
  revert i; induction l as [|y l IH]; intros i; destruct i; cbn; auto.
  - intros [<-|H]; auto.
  - intros [<-|H]; auto. destruct (IH _ H); auto.
Qed.
Lemma map_list_set_same {A B} (f : A -> B) (l : list A) i x y :
  nth_error l i = Some x -> f y = f x -> map f (list_set l i y) = map f l.
Proof.
  revert i; induction l as [|z l IH]; intros i; destruct i; cbn; try discriminate.
  - intros H E. inversion H; subst. rewrite E. reflexivity.
  - intros H E. f_equal. eapply IH; eauto.
Qed.
Lemma nth_list_set_eq {A} (l : list A) i x : (i < length l)%nat -> nth_error (list_set l i x) i = Some x.
Proof. revert i; induction l as [|z l IH]; intros i; destruct i; cbn; try lia; auto. intros H. apply IH. lia. Qed.
Lemma nth_list_set_neq {A} (l : list A) i j x : i <> j -> nth_error (list_set l i x) j = nth_error l j.
Proof. revert i j; induction l as [|z l IH]; intros i j H; destruct i, j; cbn; auto; try congruence. Qed.
Lemma upd_spec {A} (l : list A) i (f : A -> A) :
  upd l i f = match nth_error l i with Some x => list_set l i (f x) | None => l end.
Proof. reflexivity. Qed.
Lemma map_upd_same {A B} (g : A -> B) (l : list A) i (f : A -> A) : (forall x, g (f x) = g x) -> map g (upd l i f) = map g l.
Proof. intros H. unfold upd. destruct (nth_error l i) eqn:E; auto. eapply map_list_set_same; eauto. Qed.
Lemma In_upd {A} (l : list A) i (f : A -> A) z : In z (upd l i f) -> In z l \/ exists x, In x l /\ z = f x.
Proof.
  unfold upd. destruct (nth_error l i) eqn:E; auto. intros H. apply In_list_set in H as [H|H]; auto.
  right. exists a. split; auto. eapply nth_error_In; eauto.
Qed.

(* ---------- signatures: the parts of the cores that never change ---------- *)
Definition vsig (vc : vcore) := (vc_desc vc, vc_type vc, vc_labels vc).
Definition hsig (h : hcore) := (hc_desc h, hc_labels h).
Definition vecsig (v : veccore) := (v_desc v, v_opts v, v_kind v).
Record sigs := mkSigs { VS : list (Desc * valtype * list LabelPair); HS : list (Desc * list LabelPair);
                        CS : list (Desc * Opts * veckind) }.
Definition sigs_of (w : world) : sigs := mkSigs (map vsig (w_v w)) (map hsig (w_h w)) (map vecsig (w_vec w)).
Definition sle (S S' : sigs) : Prop := prefix (VS S) (VS S') /\ prefix (HS S) (HS S') /\ prefix (CS S) (CS S').
Lemma sle_refl S : sle S S.
Proof. repeat split; apply prefix_refl. Qed.

Definition labelled (d : Desc) (ls : list LabelPair) : Prop := exists vals, length vals = length (d_vars d) /\ ls = lpairs d vals.
Definition vwf (vc : vcore) : Prop := dwf (vc_desc vc) /\ labelled (vc_desc vc) (vc_labels vc).
Definition hwf (h : hcore) : Prop := dwf (hc_desc h) /\ labelled (hc_desc h) (hc_labels h) /\ Q h.

Definition child_ok (S : sigs) (v : veccore) (hc : N * nat) : Prop :=
  exists vals, length vals = length (d_vars (v_desc v)) /\ fst hc = fnv1a (label_values_preimage vals) /\
    match v_kind v with
    | VKValue t _ => nth_error (VS S) (snd hc) = Some (v_desc v, t, lpairs (v_desc v) vals)
    | VKHist _ => nth_error (HS S) (snd hc) = Some (v_desc v, lpairs (v_desc v) vals)
    end.
Definition vecwf (S : sigs) (v : veccore) : Prop :=
  dwf (v_desc v) /\ describe (v_opts v) = Some (v_desc v) /\ NoDup (map fst (v_children v)) /\ Forall (child_ok S v) (v_children v).

Definition ddummy : Desc := mkDesc [] [] [] [] 0 0.
Definition cdescS (S : sigs) (c : collector) : Desc :=
  match c with
  | CValue i => match nth_error (VS S) i with Some (d, _, _) => d | None => ddummy end
  | CHist i => match nth_error (HS S) i with Some (d, _) => d | None => ddummy end
  | CVec i => match nth_error (CS S) i with Some (d, _, _) => d | None => ddummy end
  | CCustom _ _ => ddummy
  | CPulling d _ => d
  end.
Definition ctypeS (S : sigs) (c : collector) : MetricType :=
  match c with
  | CValue i => match nth_error (VS S) i with Some (_, t, _) => valtype_mtype t | None => COUNTER end
  | CHist _ => HISTOGRAM
  | CVec i => match nth_error (CS S) i with Some (_, _, k) => veckind_mtype k | None => COUNTER end
  | CCustom _ _ => COUNTER
  | CPulling _ _ => GAUGE
  end.
Definition pull_desc (d : Desc) : Prop := dwf d /\ d_vars d = [] /\ d_const_pairs d = [].
Definition clibS (S : sigs) (c : collector) : Prop :=
  match c with
  | CValue i => (i < length (VS S))%nat
  | CHist i => (i < length (HS S))%nat
  | CVec i => (i < length (CS S))%nat
  | CCustom _ _ => False
  | CPulling d _ => pull_desc d
  end.
Definition ckeyS (S : sigs) (c : collector) : N := collector_id [cdescS S c].
Definition compat_rel (S : sigs) (a b : N * collector) : Prop :=
  d_fq_name (cdescS S (snd a)) = d_fq_name (cdescS S (snd b)) -> desc_compat (cdescS S (snd a)) (cdescS S (snd b)) = true.
(* a user-written collector that exposes no families *)
Definition cempty (c : collector) : Prop := match c with CCustom _ [] => True | _ => False end.
Definition cokS (S : sigs) (c : collector) : Prop := clibS S c \/ cempty c.
Definition ckeyG (S : sigs) (c : collector) : N := match c with CCustom ds _ => collector_id ds | _ => ckeyS S c end.
Definition compat_rel2 (S : sigs) (a b : N * collector) : Prop := clibS S (snd a) -> clibS S (snd b) -> compat_rel S a b.
Definition regwf (S : sigs) (rc : regcore collector) : Prop :=
  Forall (fun kc => cokS S (snd kc) /\ fst kc = ckeyG S (snd kc)) (r_collectors rc)
  /\ NoDup (map fst (r_collectors rc))
  /\ ForallOrdPairs (compat_rel2 S) (r_collectors rc).

Definition slotwf (w : world) (h : handle) : Prop :=
  match h with
  | HDead => True
  | HValue c => (c < length (w_v w))%nat
  | HHist c => (c < length (w_h w))%nat
  | HVec v => (v < length (w_vec w))%nat
  | HRegistry r => (r < length (w_reg w))%nat
  | HPulling d _ => pull_desc d
  | HCustom _ fams => fams = []
  | _ => True          (* local metrics and timers: nothing is needed of them *)
  end.
Definition regslots (sl : list handle) : list nat := flat_map (fun h => match h with HRegistry r => [r] | _ => [] end) sl.

Record WI (w : world) : Prop := mkWI {
  wi_v : Forall vwf (w_v w);
  wi_h : Forall hwf (w_h w);
  wi_vec : Forall (vecwf (sigs_of w)) (w_vec w);
  wi_reg : Forall (regwf (sigs_of w)) (w_reg w);
  wi_slots : Forall (slotwf w) (w_slots w) }.

Lemma WI0 : WI world0.
Proof. split; cbn; auto. Qed.

(* ---------- monotonicity in the signatures ---------- *)
Lemma child_ok_mono S S' v hc : sle S S' -> child_ok S v hc -> child_ok S' v hc.
Proof.
  intros (A & B & _) (vals & L & E & H). exists vals. split; [exact L|]. split; [exact E|].
  destruct (v_kind v); eapply prefix_nth; eauto.
Qed.
Lemma vecwf_mono S S' v : sle S S' -> vecwf S v -> vecwf S' v.
Proof.
  intros Hs (A & B & C & D). split; [exact A|]. split; [exact B|]. split; [exact C|].
  eapply Forall_impl; [|exact D]. intros hc. apply child_ok_mono; auto.
Qed.
Lemma clib_mono S S' c : sle S S' -> clibS S c -> clibS S' c.
Proof.
  intros (A & B & C). destruct c; cbn; auto; intros H.
  - pose proof (prefix_length _ _ A). lia.
  - pose proof (prefix_length _ _ B). lia.
  - pose proof (prefix_length _ _ C). lia.
Qed.
Lemma nth_error_lt_some {A} (l : list A) i : (i < length l)%nat -> exists x, nth_error l i = Some x.
Proof. intros H. destruct (nth_error l i) eqn:E; eauto. apply nth_error_None in E. lia. Qed.
Lemma cdesc_mono S S' c : sle S S' -> clibS S c -> cdescS S' c = cdescS S c /\ ctypeS S' c = ctypeS S c.
Proof.
  intros (A & B & C). destruct c; cbn; auto; intros H.
  - destruct (nth_error_lt_some _ _ H) as [x E]. rewrite E, (prefix_nth _ _ _ _ A E). auto.
  - destruct (nth_error_lt_some _ _ H) as [x E]. rewrite E, (prefix_nth _ _ _ _ B E). auto.
  - destruct (nth_error_lt_some _ _ H) as [x E]. rewrite E, (prefix_nth _ _ _ _ C E). auto.
Qed.
Lemma FOP_impl_in {A} (R R' : A -> A -> Prop) l :
  (forall a b, In a l -> In b l -> R a b -> R' a b) -> ForallOrdPairs R l -> ForallOrdPairs R' l.
Proof.
  intros H F. induction F as [|a l Ha F IH]; constructor.
  - apply Forall_forall. intros b Hb. rewrite Forall_forall in Ha. apply H; [left|right|]; auto.
  - apply IH. intros x y Hx Hy. apply H; right; auto.
Qed.
Lemma regwf_mono S S' rc : sle S S' -> regwf S rc -> regwf S' rc.
Proof.
  intros Hs (A & B & C). split; [|split; auto].
  - eapply Forall_impl; [|exact A]. intros kc [[L|L] K].
    + split; [left; eapply clib_mono; eauto|]. rewrite K. destruct (snd kc) eqn:E; try reflexivity; cbn [ckeyG]; unfold ckeyS;
        destruct (cdesc_mono S S' _ Hs L) as [-> _]; reflexivity.
    + split; [right; exact L|]. rewrite K. destruct (snd kc); try destruct L. reflexivity.
  - eapply FOP_impl_in; [|exact C]. intros a b Ha Hb R La Lb.
    assert (La0 : clibS S (snd a)).
    { rewrite Forall_forall in A. destruct (A a Ha) as [[L|L] _]; auto. destruct (snd a); try destruct L; destruct La. }
    assert (Lb0 : clibS S (snd b)).
    { rewrite Forall_forall in A. destruct (A b Hb) as [[L|L] _]; auto. destruct (snd b); try destruct L; destruct Lb. }
    unfold compat_rel. destruct (cdesc_mono S S' (snd a) Hs La0) as [-> _]. destruct (cdesc_mono S S' (snd b) Hs Lb0) as [-> _].
    apply R; auto.
Qed.

(* the uniform way to re-establish the invariant after a step *)
Lemma WI_step w w' :
  WI w -> sle (sigs_of w) (sigs_of w') -> (length (w_reg w) <= length (w_reg w'))%nat ->
  (forall x, In x (w_v w') -> In x (w_v w) \/ vwf x) ->
  (forall x, In x (w_h w') -> In x (w_h w) \/ hwf x) ->
  (forall x, In x (w_vec w') -> In x (w_vec w) \/ vecwf (sigs_of w') x) ->
  (forall x, In x (w_reg w') -> In x (w_reg w) \/ regwf (sigs_of w') x) ->
  (forall x, In x (w_slots w') -> In x (w_slots w) \/ slotwf w' x) -> WI w'.
Proof.
  intros [Wv Wh Wc Wr Ws] Hs Lr Hv Hh Hc Hr Hsl.
  pose proof Hs as (PV & PH & PC). cbn in PV, PH, PC.
  apply prefix_length in PV, PH, PC. rewrite !map_length in PV, PH, PC.
  split; auto; apply Forall_forall; intros x Hx.
  - destruct (Hv x Hx) as [H|H]; auto. rewrite Forall_forall in Wv. auto.
  - destruct (Hh x Hx) as [H|H]; auto. rewrite Forall_forall in Wh. auto.
  - destruct (Hc x Hx) as [H|H]; auto. rewrite Forall_forall in Wc. eapply vecwf_mono; eauto.
  - destruct (Hr x Hx) as [H|H]; auto. rewrite Forall_forall in Wr. eapply regwf_mono; eauto.
  - destruct (Hsl x Hx) as [H|H]; auto. rewrite Forall_forall in Ws. specialize (Ws x H).
    destruct x; cbn in *; auto; lia.
Qed.

(* ====================================================================================== *)
(* Pure collection.                                                                        *)
(* ====================================================================================== *)
Definition vmetric_at (w : world) (c : nat) : option Metric := option_map value_metric (nth_error (w_v w) c).
Definition hsnap (h : hcore) : option Metric := option_map fst (hist_metric h).
Definition hmetric_at (w : world) (c : nat) : option Metric :=
  match nth_error (w_h w) c with Some h => hsnap h | None => None end.
Definition child_metric (w : world) (k : veckind) (c : nat) : option Metric :=
  match k with VKValue _ _ => vmetric_at w c | VKHist _ => hmetric_at w c end.
Fixpoint children_out (w : world) (k : veckind) (cs : list (N * nat)) : option (list Metric) :=
  match cs with
  | [] => Some []
  | (_, c) :: r => match child_metric w k c, children_out w k r with
                   | Some m, Some ms => Some (m :: ms)
                   | _, _ => None
                   end
  end.
Definition cout (w : world) (c : collector) : option (list MetricFamily) :=
  match c with
  | CValue i => option_map (fun vc => [value_collect vc]) (nth_error (w_v w) i)
  | CHist i => match nth_error (w_h w) i with
               | Some h => option_map (fun m => [hist_family h [m]]) (hsnap h)
               | None => None
               end
  | CVec vi => match nth_error (w_vec w) vi with
               | Some v => option_map (fun ms => [mkMF (d_fq_name (v_desc v)) (d_help (v_desc v)) (veckind_mtype (v_kind v)) ms])
                                      (children_out w (v_kind v) (v_children v))
               | None => None
               end
  | CCustom _ fams => Some fams
  | CPulling d v => Some [mkMF (d_fq_name d) (d_help d) GAUGE [mkMetric [] (Some v) None None None None None]]
  end.
Definition cout_list (w : world) (c : collector) : list MetricFamily := match cout w c with Some l => l | None => [] end.
Definition couts (w : world) (cs : list (N * collector)) : list MetricFamily := flat_map (fun kc => cout_list w (snd kc)) cs.

Definition heq (h h' : hcore) : Prop := Q h /\ Q h' /\ hsig h' = hsig h /\ hsnap h' = hsnap h.
Definition weq (w w' : world) : Prop :=
  w_v w' = w_v w /\ w_vec w' = w_vec w /\ w_reg w' = w_reg w /\ w_slots w' = w_slots w /\ Forall2 heq (w_h w) (w_h w').
Definition WQ (w : world) : Prop := Forall Q (w_h w).
Lemma WI_WQ w : WI w -> WQ w.
Proof. intros W. eapply Forall_impl; [|apply (wi_h _ W)]. intros h (_ & _ & H). exact H. Qed.
Lemma Forall2_refl_on {A} (R : A -> A -> Prop) l : Forall (fun x => R x x) l -> Forall2 R l l.
Proof. induction 1; constructor; auto. Qed.
Lemma weq_refl w : WQ w -> weq w w.
Proof.
  intros H. split; [reflexivity|]. split; [reflexivity|]. split; [reflexivity|]. split; [reflexivity|].
  apply Forall2_refl_on. eapply Forall_impl; [|exact H]. intros h Hq. split; [exact Hq|]. split; [exact Hq|]. split; reflexivity.
Qed.
Lemma Forall2_trans' {A} (R : A -> A -> Prop) : (forall x y z, R x y -> R y z -> R x z) ->
  forall a b c, Forall2 R a b -> Forall2 R b c -> Forall2 R a c.
Proof. intros T a b c H; revert c; induction H; intros c H'; inversion H'; subst; constructor; eauto. Qed.
Lemma heq_trans x y z : heq x y -> heq y z -> heq x z.
Proof. intros (A & B & C & D) (A' & B' & C' & D'). split; [exact A|]. split; [exact B'|]. split; congruence. Qed.
Lemma weq_trans a b c : weq a b -> weq b c -> weq a c.
Proof.
  intros (A1 & A2 & A3 & A4 & A5) (B1 & B2 & B3 & B4 & B5). repeat split; try congruence.
  eapply Forall2_trans'; eauto. apply heq_trans.
Qed.
Lemma weq_WQ w w' : weq w w' -> WQ w'.
Proof.
  intros (_ & _ & _ & _ & H). unfold WQ. induction H as [|x y l l' (_ & Hq & _) _ IH]; constructor; auto.
Qed.
Lemma Forall2_nth {A B} (R : A -> B -> Prop) l l' i : Forall2 R l l' ->
  match nth_error l i, nth_error l' i with Some x, Some y => R x y | None, None => True | _, _ => False end.
Proof. intros H; revert i; induction H; intros i; destruct i; cbn; auto. apply IHForall2. Qed.
Lemma hmetric_weq w w' c : weq w w' -> hmetric_at w' c = hmetric_at w c.
Proof.
  intros (_ & _ & _ & _ & H). unfold hmetric_at. pose proof (Forall2_nth _ _ _ c H) as X.
  destruct (nth_error (w_h w) c), (nth_error (w_h w') c); try tauto. destruct X as (_ & _ & _ & E). exact E.
Qed.
Lemma child_metric_weq w w' k c : weq w w' -> child_metric w' k c = child_metric w k c.
Proof.
  intros H. destruct k; cbn [child_metric]; [|apply hmetric_weq; auto]. unfold vmetric_at. destruct H as (-> & _). reflexivity.
Qed.
Lemma children_out_weq w w' k cs : weq w w' -> children_out w' k cs = children_out w k cs.
Proof.
  intros H. induction cs as [|[h c] r IH]; cbn [children_out]; auto. rewrite IH, (child_metric_weq w w' k c H). reflexivity.
Qed.
Lemma cout_weq w w' c : weq w w' -> cout w' c = cout w c.
Proof.
  intros H. destruct c; cbn [cout]; auto.
  - destruct H as (-> & _). reflexivity.
  - destruct H as (_ & _ & _ & _ & H). pose proof (Forall2_nth _ _ _ c H) as X.
    destruct (nth_error (w_h w) c), (nth_error (w_h w') c); try tauto. destruct X as (_ & _ & Es & E). rewrite E.
    unfold hist_family. unfold hsig in Es. inversion Es. reflexivity.
  - pose proof H as (_ & -> & _). destruct (nth_error (w_vec w) v); auto. rewrite (children_out_weq w w' _ _ H). reflexivity.
Qed.
Lemma couts_weq w w' cs : weq w w' -> couts w' cs = couts w cs.
Proof.
  intros H. unfold couts. induction cs as [|kc r IH]; cbn; auto. unfold cout_list at 1 3. rewrite (cout_weq w w' _ H), IH. reflexivity.
Qed.

Lemma Forall2_list_set {A} (R : A -> A -> Prop) l i x y :
  Forall (fun z => R z z) l -> nth_error l i = Some x -> R x y -> Forall2 R l (list_set l i y).
Proof.
  intros F; revert i; induction F as [|z l Hz F IH]; intros i; destruct i; cbn; try discriminate.
  - intros H Rxy. inversion H; subst. constructor; auto. apply Forall2_refl_on; auto.
  - intros H Rxy. constructor; auto.
Qed.
Lemma collect_hist_pure w c m w1 : WQ w -> collect_hist w c = Some (m, w1) -> hmetric_at w c = Some m /\ weq w w1.
Proof.
  intros Hq. unfold collect_hist, hmetric_at, hsnap. destruct (nth_error (w_h w) c) as [h|] eqn:E; [|discriminate].
  destruct (hist_metric h) as [[m' h']|] eqn:Eh; [|discriminate]. intros H. inversion H; subst m' w1. clear H. split; [reflexivity|].
  assert (Qh : Q h) by (unfold WQ in Hq; rewrite Forall_forall in Hq; apply Hq; eapply nth_error_In; eauto).
  destruct (hist_metric_again h m h' Qh Eh) as (Q' & Ed & El & h'' & E2).
  split; [reflexivity|]. split; [reflexivity|]. split; [reflexivity|]. split; [reflexivity|].
  cbn. apply (Forall2_list_set heq _ _ h); auto.
  - eapply Forall_impl; [|exact Hq]. intros z Hz. split; [exact Hz|]. split; [exact Hz|]. split; reflexivity.
  - split; [exact Qh|]. split; [exact Q'|]. split; [unfold hsig; congruence|]. unfold hsnap. rewrite E2, Eh. reflexivity.
Qed.
Lemma collect_children_pure k cs : forall w ms w1, WQ w ->
  collect_children w k cs = Some (ms, w1) -> children_out w k cs = Some ms /\ weq w w1.
Proof.
  induction cs as [|[h c] r IH]; intros w ms w1 Hq; cbn [collect_children children_out].
  - intros H. inversion H; subst. split; auto. apply weq_refl; auto.
  - destruct k.
    + cbn [child_metric]. unfold vmetric_at. destruct (nth_error (w_v w) c) as [vc|]; [|discriminate].
      destruct (collect_children w (VKValue t k) r) as [[ms' w']|] eqn:E; [|discriminate].
      intros H. inversion H; subst. destruct (IH _ _ _ Hq E) as [A B]. cbn [child_metric] in A. rewrite A. auto.
    + cbn [child_metric]. destruct (collect_hist w c) as [[m w2]|] eqn:Ec; [|discriminate].
      destruct (collect_hist_pure _ _ _ _ Hq Ec) as [A B]. rewrite A.
      destruct (collect_children w2 (VKHist buckets) r) as [[ms' w']|] eqn:E; [|discriminate].
      intros H. inversion H; subst. destruct (IH _ _ _ (weq_WQ _ _ B) E) as [C D].
      rewrite (children_out_weq _ _ _ _ B) in C. rewrite C. split; auto. eapply weq_trans; eauto.
Qed.
Lemma collect_collector_pure w c fs w1 : WQ w -> collect_collector w c = Some (fs, w1) -> cout w c = Some fs /\ weq w w1.
Proof.
  intros Hq. destruct c; cbn [collect_collector cout].
  - destruct (nth_error (w_v w) c); [|discriminate]. intros H. inversion H; subst. split; auto. apply weq_refl; auto.
  - destruct (nth_error (w_h w) c) as [h|] eqn:E; [|discriminate].
    destruct (collect_hist w c) as [[m w2]|] eqn:Ec; [|discriminate]. intros H. inversion H; subst.
    destruct (collect_hist_pure _ _ _ _ Hq Ec) as [A B]. unfold hmetric_at in A. rewrite E in A. rewrite A. auto.
  - destruct (nth_error (w_vec w) v) as [vv|]; [|discriminate].
    destruct (collect_children w (v_kind vv) (v_children vv)) as [[ms w2]|] eqn:Ec; [|discriminate].
    intros H. inversion H; subst. destruct (collect_children_pure _ _ _ _ _ Hq Ec) as [A B]. rewrite A. auto.
  - intros H. inversion H; subst. split; auto. apply weq_refl; auto.
  - intros H. inversion H; subst. split; auto. apply weq_refl; auto.
Qed.
Lemma collect_all_pure cs : forall w fs w', WQ w -> collect_all w cs = Some (fs, w') -> fs = couts w cs /\ weq w w'.
Proof.
  induction cs as [|[k c] r IH]; intros w fs w' Hq; cbn [collect_all].
  - intros H. inversion H; subst. split; auto. apply weq_refl; auto.
  - destruct (collect_collector w c) as [[fs1 w1]|] eqn:Ec; [|discriminate].
    destruct (collect_all w1 r) as [[fs2 w2]|] eqn:Ea; [|discriminate]. intros H. inversion H; subst.
    destruct (collect_collector_pure _ _ _ _ Hq Ec) as [A B]. destruct (IH _ _ _ (weq_WQ _ _ B) Ea) as [C D].
    split; [|eapply weq_trans; eauto]. unfold couts. cbn [flat_map snd]. unfold cout_list at 1. rewrite A. f_equal.
    rewrite C. apply couts_weq. exact B.
Qed.

(* the invariant survives a collection *)
Lemma Forall2_map_eq {A B} (R : A -> A -> Prop) (f : A -> B) l l' : (forall x y, R x y -> f y = f x) -> Forall2 R l l' -> map f l' = map f l.
Proof. intros H F. induction F; cbn; f_equal; auto. Qed.
Lemma sigs_weq w w' : weq w w' -> sigs_of w' = sigs_of w.
Proof.
  intros (A & B & _ & _ & H). unfold sigs_of. rewrite A, B. f_equal. eapply Forall2_map_eq; [|exact H]. intros x y (_ & _ & E & _). exact E.
Qed.
Lemma WI_weq w w' : WI w -> weq w w' -> WI w'.
Proof.
  intros W E. pose proof (sigs_weq _ _ E) as Es. pose proof E as (A & B & C & D & H).
  assert (G : Forall hwf (w_h w')).
  { pose proof (wi_h _ W) as Wh. clear -H Wh. induction H as [|x y l l' (_ & Qy & Ey & _) F IH]; constructor.
    - inversion Wh; subst. destruct H1 as (D1 & D2 & _). unfold hsig in Ey. inversion Ey. unfold hwf. rewrite H0, H1. auto.
    - inversion Wh; auto. }
  apply (WI_step w w'); auto.
  - rewrite Es. apply sle_refl.
  - rewrite C. lia.
  - rewrite A. auto.
  - intros y Hy. right. rewrite Forall_forall in G. auto.
  - rewrite B. auto.
  - rewrite C. auto.
  - rewrite D. auto.
Qed.
