(* C17: facts about the three-outcome models of Model/PanicSites.v.
   For every listed panic site on a Result-returning path: the firing condition of its guard is
   excluded by the checks evaluated before it (for ALL arguments; size sites under the explicit
   bound), hence the three-outcome model equals the total model of Model/*.v read as Ok / Err, and
   the exact Err conditions of C05 / C06 / C08 / C09 / C13 carry over. *)
Require Import PV.Base.Prelude PV.Base.Utf8 PV.Base.Fnv PV.Base.F64 PV.Base.SortFacts PV.Base.StrFacts PV.Base.Utf8Facts.
Require Import PV.Model.Proto PV.Model.Desc PV.Model.Value PV.Model.Hist PV.Model.Vec PV.Model.Registry PV.Model.World.
Require Import PV.Model.Text PV.Model.Pb PV.Model.PanicSites.
Require Import PV.Proofs.DescFacts PV.Proofs.C09Facts PV.Proofs.HistFacts PV.Proofs.C05Facts PV.Proofs.C06Facts PV.Proofs.PbFacts.
Require Import PV.gen.PanicInventory.
From Coq Require Import Permutation.
Open Scope N_scope.

(* ====================================================================================== *)
(* 0. the source still contains exactly the inventoried panic tokens                        *)
(* ====================================================================================== *)
(* gen/PanicInventory.v is rewritten by tools/p_C17.py from the repository's working tree on every
   run.  A panic-capable token added to (or removed from) one of the scanned files makes these
   two equalities fail. *)
Lemma source_inventory_is_model_inventory : SourceInventory.source_inventory = Inventory.model_inventory.
Proof. reflexivity. Qed.
Lemma source_sites_are_model_sites : SourceInventory.source_site_presence = Inventory.model_site_presence.
Proof. reflexivity. Qed.
(* every site that is on a Result-returning path has a TPanic branch number, and the numbers are distinct *)
Lemma site_ids_distinct : NoDup (map Inventory.s_id Inventory.model_sites).
Proof. repeat constructor; cbn; intuition discriminate. Qed.

(* ====================================================================================== *)
(* 1. generalities                                                                          *)
(* ====================================================================================== *)
Definition no_panic {A} (x : tri A) : Prop := forall s, x <> TPanic s.
Definition never_panics (o : outcome) : Prop := forall s, o <> OutPanic s.

Lemma of_option_no_panic {A} (o : option A) : no_panic (of_option o).
Proof. destruct o; intros s H; discriminate. Qed.
Lemma of_result_no_panic {A} (r : result A) : no_panic (of_result r).
Proof. destruct r; intros s H; discriminate. Qed.
Lemma outcome_of_no_panic {A} (x : tri A) : no_panic x -> never_panics (outcome_of x).
Proof. intros H s E. destruct x; try discriminate. apply (H site). reflexivity. Qed.
Lemma tbind_no_panic {A B} (x : tri A) (f : A -> tri B) : no_panic x -> (forall a, x = TOk a -> no_panic (f a)) -> no_panic (tbind x f).
Proof. intros Hx Hf s. destruct x as [a|e|s']; cbn; [apply Hf; reflexivity|discriminate|]. exfalso. apply (Hx s'). reflexivity. Qed.
Lemma never_panics_iff o : never_panics o <-> is_panic o = false.
Proof. destruct o; cbn; split; intros H; try reflexivity; try (intros s' E; discriminate). exfalso. apply (H site). reflexivity. Qed.

Lemma usize_isize : isize_max < usize_max. Proof. reflexivity. Qed.

(* ====================================================================================== *)
(* 2. Desc::new                                                                             *)
(* ====================================================================================== *)
(* site 1: every name the loop unwraps was collected from the keys of the same map *)
Lemma desc_unwrap_guard (consts : list (str * str)) :
  existsb (fun k => is_none (alookup k consts)) (sort_by str_leb (map fst consts)) = false.
Proof.
  apply existsb_false_iff. intros k Hk. apply sort_by_In in Hk.
  destruct (alookup_some_key k consts Hk) as [v ->]. reflexivity.
Qed.
(* ... and it is a real condition: looking up a name that is not a key does fire *)
Lemma desc_unwrap_guard_fires_otherwise (consts : list (str * str)) k :
  ~ In k (map fst consts) -> is_none (alookup k consts) = true.
Proof. intros H. apply alookup_None in H. rewrite H. reflexivity. Qed.

Theorem desc_new_t_total fq help vars consts :
  lenN consts < usize_max -> desc_new_t fq help vars consts = of_option (desc_new fq help vars consts).
Proof.
  intros B. unfold desc_new_t, desc_new.
  destruct (is_nil help); [reflexivity|]. destruct (is_valid_metric_name fq); cbn [negb]; [|reflexivity].
  assert (G : (usize_max <? lenN consts + 1) = false) by (apply N.ltb_ge; lia). rewrite G.
  destruct (forallb (fun kv => is_valid_label_name (fst kv)) consts); cbn [negb]; [|reflexivity].
  rewrite desc_unwrap_guard. reflexivity.
Qed.
Theorem desc_new_no_panic fq help vars consts : lenN consts < usize_max -> no_panic (desc_new_t fq help vars consts).
Proof. intros B. rewrite desc_new_t_total by exact B. apply of_option_no_panic. Qed.
(* the size bound is needed: a map with usize::MAX entries makes `len + 1` overflow *)
Lemma desc_new_cap_guard fq help vars consts :
  help <> [] -> is_valid_metric_name fq = true -> lenN consts = usize_max -> desc_new_t fq help vars consts = TPanic S_DESC_CAP.
Proof.
  intros Hh Hf Hl. unfold desc_new_t. destruct help; [congruence|]. cbn [is_nil]. rewrite Hf. cbn [negb].
  rewrite Hl. reflexivity.
Qed.

Definition opts_bounded (o : Opts) : Prop := lenN (o_consts o) + lenN (o_vars o) < usize_max.
Lemma lenN_nonneg {A} (l : list A) : 0 <= lenN l. Proof. unfold lenN. lia. Qed.
Lemma describe_t_total o : opts_bounded o -> describe_t o = of_option (describe o).
Proof. intros B. unfold describe_t, describe. apply desc_new_t_total. unfold opts_bounded in B. pose proof (lenN_nonneg (o_vars o)). lia. Qed.

(* ====================================================================================== *)
(* 3. make_label_pairs, Value::new                                                          *)
(* ====================================================================================== *)
(* site 3: after the cardinality check every index below variable_labels.len() is in bounds *)
Lemma index_oob_false n m : (n <= m)%nat -> index_oob n m = false.
Proof.
  intros L. unfold index_oob. apply existsb_false_iff. intros i Hi. apply in_seq in Hi. apply Nat.leb_gt. lia.
Qed.
(* ... and without the check it is not: fewer values than names make the index go out of bounds *)
Lemma index_oob_true n m : (m < n)%nat -> index_oob n m = true.
Proof.
  intros L. unfold index_oob. apply existsb_exists. exists m. split; [apply in_seq; lia|apply Nat.leb_le; lia].
Qed.

Definition desc_bounded (d : Desc) : Prop := lenN (d_vars d) + lenN (d_const_pairs d) <= usize_max.

Theorem make_label_pairs_t_total d vals : desc_bounded d -> make_label_pairs_t d vals = of_result (make_label_pairs d vals).
Proof.
  intros B. unfold make_label_pairs_t, make_label_pairs, make_label_pairs_body.
  destruct (lenN (d_vars d) =? lenN vals) eqn:E; cbn [negb]; [|reflexivity].
  assert (G : (usize_max <? lenN (d_vars d) + lenN (d_const_pairs d)) = false) by (apply N.ltb_ge; exact B). rewrite G.
  destruct (is_nil (d_vars d) && is_nil (d_const_pairs d)); [reflexivity|]. destruct (is_nil (d_vars d)); [reflexivity|].
  apply lenN_eqb in E. rewrite index_oob_false by lia. reflexivity.
Qed.
Theorem make_label_pairs_no_panic d vals : desc_bounded d -> no_panic (make_label_pairs_t d vals).
Proof. intros B. rewrite make_label_pairs_t_total by exact B. apply of_result_no_panic. Qed.
(* what the check at value.rs:118 protects: without it, too few values panic at value.rs:138 *)
Theorem make_label_pairs_unchecked_panics d vals :
  desc_bounded d -> (length vals < length (d_vars d))%nat -> make_label_pairs_unchecked d vals = TPanic S_MLP_INDEX.
Proof.
  intros B L. unfold make_label_pairs_unchecked, make_label_pairs_body.
  assert (G : (usize_max <? lenN (d_vars d) + lenN (d_const_pairs d)) = false) by (apply N.ltb_ge; exact B). rewrite G.
  destruct (d_vars d) as [|v vs] eqn:E; [cbn in L; lia|]. cbn [is_nil andb]. rewrite index_oob_true by exact L. reflexivity.
Qed.

Lemma cpairs_length consts : length (cpairs consts) = length consts.
Proof. unfold cpairs. rewrite sort_by_length, map_length. reflexivity. Qed.
Lemma describe_bounded o d : opts_bounded o -> describe o = Some d -> desc_bounded d.
Proof.
  intros B H. apply describe_fields in H as (_ & _ & E1 & E2). unfold desc_bounded, opts_bounded, lenN in *.
  rewrite E1, E2, cpairs_length. lia.
Qed.

Theorem value_new_t_total o t k vals : opts_bounded o -> value_new_t o t k vals = of_result (value_new o t k vals).
Proof.
  intros B. unfold value_new_t, value_new. rewrite describe_t_total by exact B.
  destruct (describe o) as [d|] eqn:Ed; cbn [of_option tbind]; [|reflexivity].
  rewrite make_label_pairs_t_total by (eapply describe_bounded; eauto).
  destruct (make_label_pairs d vals); reflexivity.
Qed.
Theorem value_new_no_panic o t k vals : opts_bounded o -> no_panic (value_new_t o t k vals).
Proof. intros B. rewrite value_new_t_total by exact B. apply of_result_no_panic. Qed.

(* ====================================================================================== *)
(* 4. check_and_adjust_buckets, HistogramCore::new                                          *)
(* ====================================================================================== *)
Lemma skipn_cons_inv {A} (l : list A) : forall i x r, skipn i l = x :: r ->
  nth_error l i = Some x /\ skipn (S i) l = r /\ length l = (i + S (length r))%nat.
Proof.
  induction l as [|y l IH]; intros i x r H.
  - destruct i; discriminate.
  - destruct i as [|i].
    + cbn in H. inversion H; subst. cbn. auto.
    + cbn [skipn] in H. destruct (IH i x r H) as (A1 & A2 & A3). cbn [nth_error length]. repeat split; auto. lia.
Qed.

(* sites 5, 6: inside the loop the list has an element, and `i < len - 1` is what makes i + 1 an index *)
Lemma check_loop_spec all : forall rest i, skipn i all = rest ->
  check_loop (length all) all rest i = if buckets_increasing rest then TOk tt else TErr EMsg.
Proof.
  induction rest as [|ub r IH]; intros i H; [reflexivity|].
  destruct (skipn_cons_inv all i ub r H) as (Hn & Hs & Hl).
  cbn [check_loop buckets_increasing]. destruct (f_is_nan ub); cbn [negb andb]; [reflexivity|].
  assert (E0 : Nat.eqb (length all) 0 = false) by (apply Nat.eqb_neq; lia). rewrite E0.
  destruct r as [|next r'].
  - assert (E1 : Nat.ltb i (length all - 1) = false) by (apply Nat.ltb_ge; cbn in Hl; lia). rewrite E1.
    reflexivity.
  - assert (E1 : Nat.ltb i (length all - 1) = true) by (apply Nat.ltb_lt; cbn in Hl; lia). rewrite E1.
    destruct (skipn_cons_inv all (S i) next r' Hs) as (Hn' & _ & _). rewrite Hn'.
    destruct (PrimFloat.leb next ub); cbn [negb andb]; [reflexivity|].
    apply IH. exact Hs.
Qed.

Theorem check_and_adjust_buckets_t_total bs : check_and_adjust_buckets_t bs = of_option (check_and_adjust_buckets bs).
Proof.
  unfold check_and_adjust_buckets_t, check_and_adjust_buckets. cbv zeta.
  set (bs0 := if is_nil bs then DEFAULT_BUCKETS else bs).
  assert (NE : bs0 <> []).
  { unfold bs0. destruct bs; cbn [is_nil]; [apply default_nonempty|discriminate]. }
  rewrite (check_loop_spec bs0 bs0 O eq_refl).
  destruct (buckets_increasing bs0); cbn [tbind of_option]; [|reflexivity].
  unfold drop_last_inf. destruct (rev bs0) as [|t r] eqn:R.
  - exfalso. apply NE. apply (f_equal (@rev _)) in R. rewrite rev_involutive in R. exact R.
  - reflexivity.
Qed.
Theorem check_and_adjust_buckets_no_panic bs : no_panic (check_and_adjust_buckets_t bs).
Proof. rewrite check_and_adjust_buckets_t_total. apply of_option_no_panic. Qed.
(* the guards are real conditions: the loop body run on a list shorter than it believes panics *)
Lemma check_loop_guards_fire :
  check_loop 0 [] [f_one] O = TPanic S_CAB_SUB /\ check_loop 2 [f_one] [f_one] O = TPanic S_CAB_INDEX.
Proof. apply conj; vm_compute; reflexivity. Qed.

Theorem hcore_new_t_total o vals : opts_bounded (ho_common o) -> hcore_new_t o vals = of_result (hcore_new o vals).
Proof.
  intros B. unfold hcore_new_t, hcore_new, hopts_describe. rewrite describe_t_total by exact B.
  destruct (describe (ho_common o)) as [d|] eqn:Ed; cbn [of_option tbind]; [|reflexivity].
  destruct (has_le_label d); [reflexivity|].
  rewrite make_label_pairs_t_total by (eapply describe_bounded; eauto).
  destruct (make_label_pairs d vals); cbn [of_result tbind]; [|reflexivity].
  rewrite check_and_adjust_buckets_t_total. destruct (check_and_adjust_buckets (ho_buckets o)); reflexivity.
Qed.
Theorem hcore_new_no_panic o vals : opts_bounded (ho_common o) -> no_panic (hcore_new_t o vals).
Proof. intros B. rewrite hcore_new_t_total by exact B. apply of_result_no_panic. Qed.

(* ====================================================================================== *)
(* 5. linear_buckets / exponential_buckets                                                  *)
(* ====================================================================================== *)
Definition count_bounded (count : N) : Prop := count * 8 <= isize_max.
Lemma count_lt1 count : (count <? 1) = Nat.ltb (N.to_nat count) 1.
Proof.
  destruct (count <? 1) eqn:E.
  - apply N.ltb_lt in E. symmetry. apply Nat.ltb_lt. lia.
  - apply N.ltb_ge in E. symmetry. apply Nat.ltb_ge. lia.
Qed.
Theorem linear_buckets_t_total start width count :
  count_bounded count -> linear_buckets_t start width count = of_option (linear_buckets start width (N.to_nat count)).
Proof.
  intros B. unfold linear_buckets_t, linear_buckets. rewrite count_lt1. destruct (Nat.ltb (N.to_nat count) 1); [reflexivity|].
  destruct (PrimFloat.leb width f_zero); [reflexivity|].
  assert (G : (isize_max <? count * 8) = false) by (apply N.ltb_ge; exact B). rewrite G. reflexivity.
Qed.
Theorem exponential_buckets_t_total start factor count :
  count_bounded count -> exponential_buckets_t start factor count = of_option (exponential_buckets start factor (N.to_nat count)).
Proof.
  intros B. unfold exponential_buckets_t, exponential_buckets. rewrite count_lt1. destruct (Nat.ltb (N.to_nat count) 1); [reflexivity|].
  destruct (PrimFloat.leb start f_zero); [reflexivity|]. destruct (PrimFloat.leb factor f_one); [reflexivity|].
  assert (G : (isize_max <? count * 8) = false) by (apply N.ltb_ge; exact B). rewrite G. reflexivity.
Qed.
Theorem linear_buckets_no_panic start width count : count_bounded count -> no_panic (linear_buckets_t start width count).
Proof. intros B. rewrite linear_buckets_t_total by exact B. apply of_option_no_panic. Qed.
Theorem exponential_buckets_no_panic start factor count : count_bounded count -> no_panic (exponential_buckets_t start factor count).
Proof. intros B. rewrite exponential_buckets_t_total by exact B. apply of_option_no_panic. Qed.
(* exact error conditions, from the documentation of the two functions *)
Theorem linear_buckets_err_iff start width count : count_bounded count ->
  (linear_buckets_t start width count = TErr EMsg <-> count = 0 \/ PrimFloat.leb width f_zero = true).
Proof.
  intros B. unfold linear_buckets_t. assert (G : (isize_max <? count * 8) = false) by (apply N.ltb_ge; exact B). rewrite G.
  destruct (count <? 1) eqn:E.
  - apply N.ltb_lt in E. split; auto. intros _. left. lia.
  - apply N.ltb_ge in E. destruct (PrimFloat.leb width f_zero); split; auto; try discriminate. intros [H|H]; [lia|discriminate].
Qed.
Theorem exponential_buckets_err_iff start factor count : count_bounded count ->
  (exponential_buckets_t start factor count = TErr EMsg <->
   count = 0 \/ PrimFloat.leb start f_zero = true \/ PrimFloat.leb factor f_one = true).
Proof.
  intros B. unfold exponential_buckets_t. assert (G : (isize_max <? count * 8) = false) by (apply N.ltb_ge; exact B). rewrite G.
  destruct (count <? 1) eqn:E.
  - apply N.ltb_lt in E. split; auto. intros _. left. lia.
  - apply N.ltb_ge in E. destruct (PrimFloat.leb start f_zero); [split; auto|].
    destruct (PrimFloat.leb factor f_one); split; auto; try discriminate. intros [H|[H|H]]; [lia|discriminate|discriminate].
Qed.
(* beyond the bound the allocation of the result panics (capacity overflow): "bounded size" is needed *)
Lemma buckets_cap_guard_fires :
  linear_buckets_t f_zero f_one (2 ^ 60) = TPanic S_LIN_CAP /\ exponential_buckets_t f_one (f_one + f_one)%float (2 ^ 60) = TPanic S_EXP_CAP.
Proof. apply conj; vm_compute; reflexivity. Qed.

(* ====================================================================================== *)
(* 6. MetricVec                                                                             *)
(* ====================================================================================== *)
Theorem vec_create_t_total o k : opts_bounded o -> vec_create_t o k = of_result (vec_create o k).
Proof.
  intros B. unfold vec_create_t, vec_create. cbv zeta.
  destruct (match k with VKHist _ => _ | _ => false end); [reflexivity|].
  rewrite describe_t_total by exact B. destruct (describe o); reflexivity.
Qed.
Theorem vec_create_no_panic o k : opts_bounded o -> no_panic (vec_create_t o k).
Proof. intros B. rewrite vec_create_t_total by exact B. apply of_result_no_panic. Qed.

Lemma build_child_t_total v vals : opts_bounded (v_opts v) ->
  outcome_of (build_child_t v vals) =
  outcome_of (of_result (match v_kind v with
                         | VKValue t k => res_unit (value_new (v_opts v) t k vals)
                         | VKHist bs => res_unit (hcore_new (mkHOpts (v_opts v) bs) vals)
                         end)).
Proof.
  intros B. unfold build_child_t. destruct (v_kind v) as [t k|bs].
  - rewrite value_new_t_total by exact B. destruct (value_new (v_opts v) t k vals); reflexivity.
  - rewrite hcore_new_t_total by exact B. destruct (hcore_new (mkHOpts (v_opts v) bs) vals); reflexivity.
Qed.
Lemma build_child_no_panic v vals : opts_bounded (v_opts v) -> never_panics (outcome_of (build_child_t v vals)).
Proof. intros B. rewrite build_child_t_total by exact B. apply outcome_of_no_panic. apply of_result_no_panic. Qed.
(* the world model's build_child reports the same result *)
Lemma build_child_world w v vals : opts_bounded (v_opts v) ->
  outcome_of (build_child_t v vals) = outcome_of (of_result (res_unit (build_child w v vals))).
Proof.
  intros B. rewrite build_child_t_total by exact B. unfold build_child. destruct (v_kind v) as [t k|bs].
  - destruct (value_new (v_opts v) t k vals); reflexivity.
  - destruct (hcore_new (mkHOpts (v_opts v) bs) vals); reflexivity.
Qed.

Theorem get_metric_with_label_values_no_panic v vals :
  opts_bounded (v_opts v) -> never_panics (get_metric_with_label_values_o v vals).
Proof.
  intros B. unfold get_metric_with_label_values_o. destruct (hash_label_values (v_desc v) vals); [|intros s H; discriminate].
  destruct (nlookup a (v_children v)); [intros s H; discriminate|]. apply build_child_no_panic. exact B.
Qed.
Theorem get_metric_with_no_panic v labels : opts_bounded (v_opts v) -> never_panics (get_metric_with_o v labels).
Proof.
  intros B. unfold get_metric_with_o. destruct (hash_labels (v_desc v) labels) as [[h vs]|e]; [|intros s H; discriminate].
  destruct (nlookup h (v_children v)); [intros s H; discriminate|]. apply build_child_no_panic. exact B.
Qed.
Theorem remove_label_values_no_panic v vals : never_panics (remove_label_values_o v vals).
Proof.
  unfold remove_label_values_o. destruct (hash_label_values (v_desc v) vals); [|intros s H; discriminate].
  destruct (nlookup a (v_children v)); intros s H; discriminate.
Qed.
Theorem remove_no_panic v labels : never_panics (remove_o v labels).
Proof.
  unfold remove_o. destruct (hash_labels (v_desc v) labels) as [[h vs]|e]; [|intros s H; discriminate].
  destruct (nlookup h (v_children v)); intros s H; discriminate.
Qed.

(* exact error conditions for a vector that MetricVec::create built ([coherent]: its descriptor is
   that of its options) whose bucket configuration is acceptable (C08) *)
Theorem get_metric_with_label_values_err_iff v vals :
  opts_bounded (v_opts v) -> coherent v -> good_buckets v ->
  forall e, get_metric_with_label_values_o v vals = OutErr e <->
            length vals <> length (d_vars (v_desc v)) /\ e = ECard (lenN (d_vars (v_desc v))) (lenN vals).
Proof.
  intros B C G e. unfold get_metric_with_label_values_o.
  destruct (hash_label_values (v_desc v) vals) as [h|e'] eqn:H.
  - apply hash_label_values_inv in H as [L _]. split; [|intros [N _]; contradiction].
    destruct (nlookup h (v_children v)); [discriminate|]. rewrite (build_child_world world0) by exact B.
    unfold good_buckets in G. destruct (v_kind v) as [tk nk|bs0] eqn:K.
    + rewrite (build_child_value_ok world0 v vals tk nk K C L). discriminate.
    + destruct (check_and_adjust_buckets bs0) as [bs|] eqn:Bk; [|congruence].
      rewrite (build_child_hist_ok world0 v vals bs0 bs K C L Bk). discriminate.
  - apply hash_label_values_err_inv in H as [N ->]. split.
    + intros E. inversion E. auto.
    + intros [_ ->]. reflexivity.
Qed.
Theorem get_metric_with_err_iff v labels :
  opts_bounded (v_opts v) -> coherent v -> good_buckets v ->
  forall e, get_metric_with_o v labels = OutErr e <-> hash_labels (v_desc v) labels = Err e.
Proof.
  intros B C G e. unfold get_metric_with_o.
  destruct (hash_labels (v_desc v) labels) as [[h vs]|e'] eqn:H.
  - split; [|discriminate]. apply hash_labels_ok_inv in H as (_ & _ & -> & H2). apply hash_label_values_inv in H2 as [L _].
    destruct (nlookup h (v_children v)); [discriminate|]. rewrite (build_child_world world0) by exact B.
    unfold good_buckets in G. destruct (v_kind v) as [tk nk|bs0] eqn:K.
    + rewrite (build_child_value_ok world0 v _ tk nk K C L). discriminate.
    + destruct (check_and_adjust_buckets bs0) as [bs|] eqn:Bk; [|congruence].
      rewrite (build_child_hist_ok world0 v _ bs0 bs K C L Bk). discriminate.
  - split; intros E; inversion E; reflexivity.
Qed.
Theorem remove_label_values_err_iff v vals e :
  remove_label_values_o v vals = OutErr e <->
  (length vals <> length (d_vars (v_desc v)) /\ e = ECard (lenN (d_vars (v_desc v))) (lenN vals))
  \/ (length vals = length (d_vars (v_desc v)) /\ e = EMsg /\ nlookup (fnv1a (label_values_preimage vals)) (v_children v) = None).
Proof.
  unfold remove_label_values_o. destruct (hash_label_values (v_desc v) vals) as [h|e'] eqn:H.
  - apply hash_label_values_inv in H as [L ->]. destruct (nlookup _ (v_children v)) eqn:K.
    + split; [discriminate|]. intros [[N _]|(_ & _ & N)]; [contradiction|discriminate].
    + split; [intros E; inversion E; right; auto|]. intros [[N _]|(_ & -> & _)]; [contradiction|reflexivity].
  - apply hash_label_values_err_inv in H as [N ->]. split.
    + intros E. inversion E. left. auto.
    + intros [[_ ->]|[L _]]; [reflexivity|contradiction].
Qed.

(* ====================================================================================== *)
(* 7. Registry                                                                              *)
(* ====================================================================================== *)
Theorem new_custom_no_panic prefix labels : never_panics (new_custom_o prefix labels).
Proof. apply outcome_of_no_panic, of_result_no_panic. Qed.
Theorem register_no_panic {C} (r : regcore C) ds c : never_panics (register_o r ds c).
Proof. apply outcome_of_no_panic, of_result_no_panic. Qed.
Theorem unregister_no_panic {C} (r : regcore C) ds : never_panics (unregister_o r ds).
Proof. apply outcome_of_no_panic, of_result_no_panic. Qed.
(* site 14, default feature set: the initialiser unwraps `Ok(())` *)
Theorem default_registry_init_no_panic : never_panics (default_registry_init_o default_features_process_registration).
Proof. intros s H. discriminate. Qed.
Lemma default_registry_init_guard_fires e : default_registry_init_o (Err e) = OutPanic S_DEFAULT_REG.
Proof. reflexivity. Qed.

Lemma outcome_of_result_ok {A} (r : result A) : outcome_of (of_result r) = OutOk <-> exists a, r = Ok a.
Proof. destruct r; cbn; split; intros H; try discriminate; eauto. destruct H; discriminate. Qed.
Lemma outcome_of_result_err {A} (r : result A) e : outcome_of (of_result r) = OutErr e <-> r = Err e.
Proof. destruct r; cbn; split; intros H; try discriminate; inversion H; reflexivity. Qed.
Lemma outcome_cases o : never_panics o -> o = OutOk \/ exists e, o = OutErr e.
Proof. intros H. destruct o; eauto. exfalso. apply (H site). reflexivity. Qed.

Theorem new_custom_err_iff prefix labels :
  (exists e, new_custom_o prefix labels = OutErr e) <->
  ~ (prefix_ok prefix /\ Forall valid_label (common_names labels) /\ ~ In reserved_le (common_names labels)).
Proof.
  rewrite <- (@reg_new_custom_ok_iff unit). unfold new_custom_o.
  destruct (@reg_new_custom unit prefix labels) as [r|e]; cbn; split.
  - intros [e H]. discriminate.
  - intros H. exfalso. apply H. eauto.
  - intros _ [r H]. discriminate.
  - eauto.
Qed.
Theorem register_err_iff {C} (r : regcore C) ds c :
  (exists e, register_o r ds c = OutErr e) <-> ~ (hash_fine r ds /\ nlookup (collector_id ds) (r_collectors r) = None).
Proof.
  rewrite <- (register_ok_iff_hash r ds c). unfold register_o. destruct (reg_register r ds c) as [r'|e]; cbn; split.
  - intros [e H]. discriminate.
  - intros H. exfalso. apply H. eauto.
  - intros _ [r' H]. discriminate.
  - eauto.
Qed.
Theorem unregister_err_iff {C} (r : regcore C) ds e :
  unregister_o r ds = OutErr e <-> e = EMsg /\ nlookup (collector_id ds) (r_collectors r) = None.
Proof.
  unfold unregister_o, reg_unregister. destruct (nlookup (collector_id ds) (r_collectors r)); cbn; split.
  - discriminate.
  - intros [_ H]. discriminate.
  - intros H. inversion H. auto.
  - intros [-> _]. reflexivity.
Qed.

(* a user-written collector's descriptors *)
Lemma custom_descs_t_total ds :
  Forall (fun d => lenN (amap_of (snd d)) < usize_max) ds ->
  custom_descs_t ds = match build_descs ds with Some _ => TOk tt | None => TErr EMsg end.
Proof.
  induction 1 as [|[[[fq help] vars] consts] r Hb _ IH]; [reflexivity|].
  cbn [custom_descs_t build_descs]. cbn [snd] in Hb. rewrite desc_new_t_total by exact Hb. rewrite IH.
  destruct (desc_new fq help vars (amap_of consts)); destruct (build_descs r); reflexivity.
Qed.

(* ====================================================================================== *)
(* 8. The text encoder                                                                      *)
(* ====================================================================================== *)
(* an ASCII byte occurs in the UTF-8 encoding of a character only as that very character *)
Lemma utf8c_ascii c b : In b (utf8c c) -> b < 0x80 -> c = b /\ utf8c c = [b].
Proof.
  unfold utf8c. intros Hin Hb.
  destruct (c <? 0x80) eqn:E1.
  - destruct Hin as [<-|[]]. auto.
  - exfalso. destruct (c <? 0x800).
    + cbn [In] in Hin. destruct Hin as [H|[H|[]]]; subst b; revert Hb.
      * generalize (c / 64). intros q L. lia.
      * generalize (c mod 64). intros q L. lia.
    + destruct (c <? 0x10000).
      * cbn [In] in Hin. destruct Hin as [H|[H|[H|[]]]]; subst b; revert Hb.
        -- generalize (c / 64 / 64). intros q L. lia.
        -- generalize ((c / 64) mod 64). intros q L. lia.
        -- generalize (c mod 64). intros q L. lia.
      * cbn [In] in Hin. destruct Hin as [H|[H|[H|[H|[]]]]]; subst b; revert Hb.
        -- generalize (c / 64 / 64 / 64). intros q L. lia.
        -- generalize ((c / 64 / 64) mod 64). intros q L. lia.
        -- generalize ((c / 64) mod 64). intros q L. lia.
        -- generalize (c mod 64). intros q L. lia.
Qed.

Lemma needle_is_needs_escape q b : needle q b = needs_escape q b.
Proof. reflexivity. Qed.
Lemma needle_ascii q b : needle q b = true -> b < 0x80.
Proof.
  unfold needle. intros H. apply orb_true_iff in H as [H|H]; [apply orb_true_iff in H as [H|H]|apply andb_true_iff in H as [_ H]];
    apply N.eqb_eq in H; subst; reflexivity.
Qed.

Lemma find_first_skip p a : (forall b, In b a -> p b = false) -> forall r i, find_first p (a ++ r) i = find_first p r (i + length a)%nat.
Proof.
  induction a as [|x a IH]; intros H r i; cbn [app find_first length].
  - f_equal. lia.
  - rewrite (H x (or_introl eq_refl)). rewrite IH by (intros b Hb; apply H; right; exact Hb). f_equal. lia.
Qed.

(* sites 10, 11: memchr stops at the first byte of the first character that needs escaping *)
Lemma find_first_utf8 q s : forall i,
  find_first (needle q) (utf8 s) i =
  match split_first (needs_escape q) s with
  | None => None
  | Some (prefix, _) => Some (i + length (utf8 prefix))%nat
  end.
Proof.
  induction s as [|c r IH]; intros i; [reflexivity|].
  change (utf8 (c :: r)) with (utf8c c ++ utf8 r). cbn [split_first].
  destruct (needs_escape q c) eqn:E.
  - rewrite <- needle_is_needs_escape in E. pose proof (needle_ascii q c E) as A.
    assert (U : utf8c c = [c]) by (unfold utf8c; apply N.ltb_lt in A; rewrite A; reflexivity).
    rewrite U. cbn [app find_first]. rewrite E. cbn. f_equal. lia.
  - rewrite find_first_skip.
    2:{ intros b Hb. destruct (needle q b) eqn:Nb; [|reflexivity]. exfalso.
        destruct (utf8c_ascii c b Hb (needle_ascii q b Nb)) as [-> _]. rewrite needle_is_needs_escape in Nb. congruence. }
    rewrite IH. destruct (split_first (needs_escape q) r) as [[a b]|]; [|reflexivity].
    f_equal. change (utf8 (c :: a)) with (utf8c c ++ utf8 a). rewrite app_length. lia.
Qed.

Lemma split_first_app p s a b : split_first p s = Some (a, b) -> s = a ++ b.
Proof.
  revert a b. induction s as [|c r IH]; intros a b H; [discriminate|]. cbn [split_first] in H.
  destruct (p c).
  - inversion H; subst. reflexivity.
  - destruct (split_first p r) as [[a' b']|]; [|discriminate]. inversion H; subst. cbn. f_equal. apply IH. reflexivity.
Qed.
Lemma char_boundary_prefix a b : is_char_boundary (a ++ b) (length (utf8 a)) = true.
Proof.
  unfold is_char_boundary. apply existsb_exists. exists (length a). split.
  - apply in_seq. rewrite app_length. lia.
  - rewrite firstn_app, Nat.sub_diag, firstn_all. cbn [firstn]. rewrite app_nil_r. apply Nat.eqb_refl.
Qed.

Definition str_bounded (s : str) : Prop := blen (utf8 s) <= isize_max.

Theorem escape_string_t_total s q : str_bounded s -> escape_string_t s q = TOk (escape_string s q).
Proof.
  intros B. unfold escape_string_t, escape_string. rewrite find_first_utf8.
  destruct (split_first (needs_escape q) s) as [[a b]|] eqn:S; [|reflexivity].
  assert (G : (two64 <=? blen (utf8 s) * 2) = false).
  { apply N.leb_gt. unfold str_bounded, isize_max in B. unfold two64. lia. }
  rewrite G. pose proof (split_first_app _ _ _ _ S) as Es.
  assert (CB : is_char_boundary s (0 + length (utf8 a)) = true) by (rewrite Es; apply char_boundary_prefix).
  rewrite CB. reflexivity.
Qed.
Theorem escape_string_no_panic s q : str_bounded s -> no_panic (escape_string_t s q).
Proof. intros B. rewrite escape_string_t_total by exact B. intros x H. discriminate. Qed.
(* the guards are real conditions: an index inside a multi-byte character is not a boundary *)
Lemma char_boundary_guard_fires : is_char_boundary [0xE9] 1 = false /\ is_char_boundary [0xE9] 2 = true.
Proof. apply conj; vm_compute; reflexivity. Qed.

Section TextFacts.
  Variable show : f64 -> str.
  Variable showz : Z -> str.

  Definition text_bounded (fams : list MetricFamily) : Prop :=
    Forall (fun sq => str_bounded (fst sq)) (flat_map (family_escapes show) fams).

  Lemma first_escape_panic_none l : Forall (fun sq => str_bounded (fst sq)) l -> first_escape_panic l = None.
  Proof.
    induction 1 as [|[s q] r H _ IH]; [reflexivity|]. cbn [first_escape_panic]. cbn [fst] in H.
    rewrite escape_string_t_total by exact H. exact IH.
  Qed.

  Lemma encode_not_epanic buf fams : encode show showz buf fams <> EPanic.
  Proof. unfold encode, finish. destruct (snd (encode_impl show showz fams buf)); discriminate. Qed.

  Theorem text_encode_no_panic buf fams : text_bounded fams -> never_panics (text_encode_o show showz buf fams).
  Proof.
    intros B. unfold text_encode_o. rewrite (first_escape_panic_none _ B).
    pose proof (encode_not_epanic buf fams). destruct (encode show showz buf fams); try congruence; intros s E; discriminate.
  Qed.

  (* the result of the encoder does not depend on the writer's contents nor on the number oracles *)
  Lemma write_metrics_flag t name : forall ms w,
    snd (write_metrics show showz w t name ms) = is_nil ms || negb (mtype_eqb t UNTYPED).
  Proof.
    induction ms as [|m r IH]; intros w; [reflexivity|]. cbn [write_metrics is_nil orb].
    destruct t; cbn [write_metric mtype_eqb negb].
    - rewrite IH. destruct r; reflexivity.
    - rewrite IH. destruct r; reflexivity.
    - rewrite IH. destruct r; reflexivity.
    - reflexivity.
    - destruct (write_buckets show showz w name m (h_bucket (get_histogram m)) false) as [w1 inf]. rewrite IH. destruct r; reflexivity.
  Qed.
  Lemma encode_impl_flag : forall fams w, snd (encode_impl show showz fams w) = forallb text_accepts fams.
  Proof.
    induction fams as [|mf r IH]; intros w; [reflexivity|]. cbn [encode_impl forallb].
    assert (TA : text_accepts mf = check_metric_family mf && negb (mtype_eqb (mf_type mf) UNTYPED)) by reflexivity. rewrite TA.
    destruct (check_metric_family mf) eqn:C; cbn [negb andb]; [|reflexivity].
    match goal with |- context [write_metrics show showz ?w0 ?t ?n ?ms] =>
      pose proof (write_metrics_flag t n ms w0) as F; destruct (write_metrics show showz w0 t n ms) as [w1 ok] end.
    cbn [snd] in F. unfold check_metric_family in C. apply andb_true_iff in C as [C _].
    destruct (mf_metric mf); [discriminate|]. cbn [is_nil orb] in F. subst ok.
    destruct (mtype_eqb (mf_type mf) UNTYPED); cbn [negb]; [reflexivity|apply IH].
  Qed.

  Theorem text_encode_decision buf fams : text_bounded fams -> text_encode_o show showz buf fams = text_decision fams.
  Proof.
    intros B. unfold text_encode_o, text_decision. rewrite (first_escape_panic_none _ B).
    unfold encode, finish. rewrite encode_impl_flag. destruct (forallb text_accepts fams); reflexivity.
  Qed.

  Definition text_refused (mf : MetricFamily) : Prop := mf_metric mf = [] \/ mf_name mf = [] \/ mf_type mf = UNTYPED.
  Lemma text_accepts_false mf : text_accepts mf = false <-> text_refused mf.
  Proof.
    unfold text_accepts, check_metric_family, text_refused.
    destruct (mf_metric mf), (mf_name mf), (mf_type mf); cbn; split; intros H; try discriminate; auto;
      destruct H as [H|[H|H]]; discriminate.
  Qed.
  Theorem text_encode_err_iff buf fams e : text_bounded fams ->
    (text_encode_o show showz buf fams = OutErr e <-> e = EMsg /\ exists mf, In mf fams /\ text_refused mf).
  Proof.
    intros B. rewrite (text_encode_decision buf fams B). unfold text_decision.
    destruct (forallb text_accepts fams) eqn:F.
    - split; [discriminate|]. intros (_ & mf & Hin & R). rewrite forallb_forall in F. apply text_accepts_false in R.
      rewrite (F mf Hin) in R. discriminate.
    - split.
      + intros H. inversion H. split; [reflexivity|].
        assert (X : ~ (forall mf, In mf fams -> text_accepts mf = true)) by (rewrite <- forallb_forall; congruence).
        clear F H. induction fams as [|mf r IH].
        * exfalso. apply X. intros mf [].
        * destruct (text_accepts mf) eqn:A.
          -- destruct IH as (mf' & Hin & R).
             ++ unfold text_bounded in B. cbn [flat_map] in B. apply Forall_app in B. apply B.
             ++ intros Y. apply X. intros mf' [<-|Hin]; auto.
             ++ exists mf'. split; [right; exact Hin|exact R].
          -- exists mf. split; [left; reflexivity|apply text_accepts_false; exact A].
      + intros [-> _]. reflexivity.
  Qed.

  (* the repair 3d1bf37: the pinned encoder differs from today's exactly where it panicked *)
  Theorem text_pinned_vs_repaired fams :
    match text_encode_pinned_o fams with
    | OutPanic s => s = S_TEXT_UNTYPED /\ text_decision fams = OutErr EMsg
    | o => text_decision fams = o
    end.
  Proof.
    unfold text_decision. induction fams as [|mf r IH]; [reflexivity|]. cbn [text_encode_pinned_o forallb].
    assert (TA : text_accepts mf = check_metric_family mf && negb (mtype_eqb (mf_type mf) UNTYPED)) by reflexivity. rewrite TA.
    destruct (check_metric_family mf); cbn [negb andb]; [|reflexivity].
    destruct (mtype_eqb (mf_type mf) UNTYPED); cbn [negb]; [split; reflexivity|exact IH].
  Qed.
End TextFacts.

(* ====================================================================================== *)
(* 9. The protobuf encoder                                                                  *)
(* ====================================================================================== *)
Lemma encode_to_not_ppanic : forall fams buf, encode_to buf fams <> PPanic.
Proof.
  induction fams as [|f r IH]; intros buf; cbn [encode_to]; [discriminate|].
  destruct (negb (check_family f)); [discriminate|]. destruct (MAX_MESSAGE_SIZE <? blen (enc_Family f)); [discriminate|apply IH].
Qed.
Theorem pb_encode_no_panic fams : never_panics (pb_encode_o fams).
Proof.
  unfold pb_encode_o. pose proof (encode_to_not_ppanic fams []). destruct (encode_to [] fams); try congruence; intros s E; discriminate.
Qed.
Theorem pb_encode_ok_iff fams : pb_encode_o fams = OutOk <-> Forall accepted fams.
Proof.
  rewrite <- encode_ok_iff. unfold pb_encode_o, encode_stream. destruct (encode_to [] fams); split; intros H; try discriminate; eauto;
    destruct H; discriminate.
Qed.
Theorem pb_encode_err_iff fams : (exists e, pb_encode_o fams = OutErr e) <-> exists f, In f fams /\ (refused f \/ too_large f).
Proof.
  destruct (outcome_cases _ (pb_encode_no_panic fams)) as [O|[e O]].
  - split.
    + intros [e H]. congruence.
    + intros (f & Hin & R). apply pb_encode_ok_iff in O. rewrite Forall_forall in O. destruct (O f Hin) as [A1 A2]. tauto.
  - split; [intros _|eauto].
    assert (X : ~ Forall accepted fams) by (rewrite <- pb_encode_ok_iff; congruence).
    clear O. induction fams as [|f r IH]; [exfalso; apply X; constructor|].
    destruct (check_family f) eqn:C.
    + destruct (MAX_MESSAGE_SIZE <? blen (enc_Family f)) eqn:L.
      * exists f. split; [left; reflexivity|right]. apply N.ltb_lt in L. exact L.
      * destruct IH as (f' & Hin & R).
        -- intros Y. apply X. constructor; [|exact Y]. split; [apply check_family_true; exact C|]. unfold too_large. apply N.ltb_ge in L. lia.
        -- exists f'. split; [right; exact Hin|exact R].
    + exists f. split; [left; reflexivity|left]. apply check_family_false. exact C.
Qed.

(* ====================================================================================== *)
(* 10. The operations of the world model                                                    *)
(* ====================================================================================== *)
(* the size bound of one operation in a world *)
Definition vec_bounded_at (w : world) (vi : nat) : Prop :=
  match nth_error (w_vec w) vi with Some v => opts_bounded (v_opts v) | None => True end.
Definition op_bounded (w : world) (o : op) : Prop :=
  match o with
  | OpDesc _ _ _ consts => lenN (amap_of consts) < usize_max
  | OpCounter _ o | OpGauge _ o => opts_bounded o
  | OpHistogram o => opts_bounded (ho_common o)
  | OpCounterVec _ o labels | OpGaugeVec _ o labels => opts_bounded (opts_with_vars o labels)
  | OpHistVec o labels => opts_bounded (opts_with_vars (ho_common o) labels)
  | OpWith s _ | OpWithMap s _ => match slot w s with HVec vi => vec_bounded_at w vi | _ => True end
  | OpCustom ds _ => Forall (fun d => lenN (amap_of (snd d)) < usize_max) ds
  | OpLinearBuckets _ _ c | OpExpBuckets _ _ c => count_bounded c
  | _ => True
  end.

Ltac np := first [apply outcome_of_no_panic; first [apply of_result_no_panic | apply of_option_no_panic] | intros ? ?; discriminate].

(* For every Result-returning operation: the three-outcome model never panics, and what the world
   model (the one compared with the implementation on every run) reports is that outcome. *)
Theorem api_outcome_sound w o oc :
  op_bounded w o -> api_outcome w o = Some oc -> never_panics oc /\ obs_class (snd (step w o)) = Some oc.
Proof.
  intros B H. destruct o; cbn [api_outcome] in H; try discriminate; cbn [op_bounded] in B.
  - (* OpDesc *) inversion H; subst oc; clear H. rewrite desc_new_t_total by exact B. split; [np|].
    cbn [step snd]. destruct (desc_new fq help vars (amap_of consts)); reflexivity.
  - (* OpCounter *) inversion H; subst oc; clear H. rewrite value_new_t_total by exact B. split; [np|].
    cbn [step]. destruct (value_new o VCounter k []); reflexivity.
  - (* OpGauge *) inversion H; subst oc; clear H. rewrite value_new_t_total by exact B. split; [np|].
    cbn [step]. destruct (value_new o VGauge k []); reflexivity.
  - (* OpHistogram *) inversion H; subst oc; clear H. rewrite hcore_new_t_total by exact B. split; [np|].
    cbn [step]. destruct (hcore_new o []); reflexivity.
  - (* OpCounterVec *) inversion H; subst oc; clear H. rewrite vec_create_t_total by exact B. split; [np|].
    cbn [step]. destruct (vec_create (opts_with_vars o labels) (VKValue VCounter k)); reflexivity.
  - (* OpGaugeVec *) inversion H; subst oc; clear H. rewrite vec_create_t_total by exact B. split; [np|].
    cbn [step]. destruct (vec_create (opts_with_vars o labels) (VKValue VGauge k)); reflexivity.
  - (* OpHistVec *) inversion H; subst oc; clear H. rewrite vec_create_t_total by exact B. split; [np|].
    cbn [step]. destruct (vec_create (opts_with_vars (ho_common o) labels) (VKHist (ho_buckets o))); reflexivity.
  - (* OpWith *) cbn [step]. destruct (slot w s); try discriminate. unfold vec_bounded_at in B.
    destruct (nth_error (w_vec w) v) as [vc|] eqn:Hv; [|discriminate]. inversion H; subst oc; clear H.
    split; [apply get_metric_with_label_values_no_panic; exact B|].
    unfold get_metric_with_label_values_o. destruct (hash_label_values (v_desc vc) vals) as [h|e]; [|reflexivity].
    unfold vec_get_or_create. rewrite Hv. destruct (nlookup h (v_children vc)); [reflexivity|].
    rewrite (build_child_world w) by exact B. destruct (build_child w vc vals) as [[[w' hd] c]|e]; reflexivity.
  - (* OpWithMap *) cbn [step]. destruct (slot w s); try discriminate. unfold vec_bounded_at in B.
    destruct (nth_error (w_vec w) v) as [vc|] eqn:Hv; [|discriminate]. inversion H; subst oc; clear H.
    split; [apply get_metric_with_no_panic; exact B|].
    unfold get_metric_with_o. destruct (hash_labels (v_desc vc) (amap_of kvs)) as [[h vs]|e]; [|reflexivity].
    unfold vec_get_or_create. rewrite Hv. destruct (nlookup h (v_children vc)); [reflexivity|].
    rewrite (build_child_world w) by exact B. destruct (build_child w vc vs) as [[[w' hd] c]|e]; reflexivity.
  - (* OpRemove *) cbn [step]. destruct (slot w s); try discriminate.
    destruct (nth_error (w_vec w) v) as [vc|] eqn:Hv; [|discriminate]. inversion H; subst oc; clear H.
    split; [apply remove_label_values_no_panic|].
    unfold remove_label_values_o. destruct (hash_label_values (v_desc vc) vals) as [h|e]; [|reflexivity].
    unfold vec_delete. rewrite Hv. destruct (nlookup h (v_children vc)); reflexivity.
  - (* OpRemoveMap *) cbn [step]. destruct (slot w s); try discriminate.
    destruct (nth_error (w_vec w) v) as [vc|] eqn:Hv; [|discriminate]. inversion H; subst oc; clear H.
    split; [apply remove_no_panic|].
    unfold remove_o. destruct (hash_labels (v_desc vc) (amap_of kvs)) as [[h vs]|e]; [|reflexivity].
    unfold vec_delete. rewrite Hv. destruct (nlookup h (v_children vc)); reflexivity.
  - (* OpLvRemove *) cbn [step]. destruct (slot w s); cbn [local_vec_of] in H; try discriminate.
    + destruct (nth_error (w_vec w) v) as [vc|] eqn:Hv; [|discriminate]. inversion H; subst oc; clear H.
      split; [apply remove_label_values_no_panic|].
      unfold remove_label_values_o. destruct (hash_label_values (v_desc vc) vals) as [h|e]; [|reflexivity].
      unfold vec_delete, put_slot, set_slots. cbn [w_vec]. rewrite Hv. destruct (nlookup h (v_children vc)); reflexivity.
    + destruct (nth_error (w_vec w) v) as [vc|] eqn:Hv; [|discriminate]. inversion H; subst oc; clear H.
      split; [apply remove_label_values_no_panic|].
      unfold remove_label_values_o. destruct (hash_label_values (v_desc vc) vals) as [h|e]; [|reflexivity].
      assert (E : w_vec (match nlookup h cache with Some (c, l) => flush_lh w c l | None => w end) = w_vec w).
      { destruct (nlookup h cache) as [[c l]|]; reflexivity. }
      unfold vec_delete, put_slot, set_slots. cbn [w_vec]. rewrite E, Hv. destruct (nlookup h (v_children vc)); reflexivity.
  - (* OpRegistry *) inversion H; subst oc; clear H. split; [apply new_custom_no_panic|].
    cbn [step]. unfold new_custom_o. 
    destruct (@reg_new_custom unit prefix (match labels with Some l => Some (amap_of l) | None => None end)) as [r|e] eqn:E1;
    destruct (@reg_new_custom collector prefix (match labels with Some l => Some (amap_of l) | None => None end)) as [r'|e'] eqn:E2;
    unfold reg_new_custom in E1, E2; destruct (_ || _); inversion E1; inversion E2; reflexivity.
  - (* OpRegister *) cbn [step]. destruct (slot w r); try discriminate.
    destruct (collector_of w (slot w s)) as [[c ds]|]; [|discriminate].
    destruct (nth_error (w_reg w) r0) as [rc|]; [|discriminate]. inversion H; subst oc; clear H.
    split; [apply register_no_panic|]. unfold register_o. destruct (reg_register rc ds c); reflexivity.
  - (* OpUnregister *) cbn [step]. destruct (slot w r); try discriminate.
    destruct (collector_of w (slot w s)) as [[c ds]|]; [|discriminate].
    destruct (nth_error (w_reg w) r0) as [rc|]; [|discriminate]. inversion H; subst oc; clear H.
    split; [apply unregister_no_panic|]. unfold unregister_o. destruct (reg_unregister rc ds); reflexivity.
  - (* OpCustom *) inversion H; subst oc; clear H. rewrite custom_descs_t_total by exact B. cbn [step].
    destruct (build_descs ds); split; try reflexivity; intros x E; discriminate.
  - (* OpPulling *) inversion H; subst oc; clear H. unfold pulling_gauge_new_t. rewrite desc_new_t_total by reflexivity. split; [np|].
    cbn [step]. destruct (desc_new name help [] []); reflexivity.
  - (* OpLinearBuckets *) inversion H; subst oc; clear H. rewrite linear_buckets_t_total by exact B. split; [np|].
    cbn [step snd]. destruct (linear_buckets start width (N.to_nat count)); reflexivity.
  - (* OpExpBuckets *) inversion H; subst oc; clear H. rewrite exponential_buckets_t_total by exact B. split; [np|].
    cbn [step snd]. destruct (exponential_buckets start factor (N.to_nat count)); reflexivity.
Qed.

(* which operations are covered *)
Definition returns_result (o : op) : bool :=
  match o with
  | OpDesc _ _ _ _ | OpCounter _ _ | OpGauge _ _ | OpHistogram _ | OpCounterVec _ _ _ | OpGaugeVec _ _ _ | OpHistVec _ _
  | OpWith _ _ | OpWithMap _ _ | OpRemove _ _ | OpRemoveMap _ _ | OpLvRemove _ _ | OpRegistry _ _ | OpRegister _ _
  | OpUnregister _ _ | OpCustom _ _ | OpPulling _ _ _ | OpLinearBuckets _ _ _ | OpExpBuckets _ _ _ => true
  | _ => false
  end.
(* an operation of that list that has no modelled outcome is an ill-typed scenario step (dead slot) *)
Lemma api_outcome_defined w o : returns_result o = true -> api_outcome w o = None -> snd (step w o) = OBad.
Proof.
  intros R H. destruct o; try discriminate; cbn [api_outcome] in H; try discriminate; cbn [step].
  - destruct (slot w s); try reflexivity. destruct (nth_error (w_vec w) v); [discriminate|reflexivity].
  - destruct (slot w s); try reflexivity. destruct (nth_error (w_vec w) v); [discriminate|reflexivity].
  - destruct (slot w s); try reflexivity. destruct (nth_error (w_vec w) v); [discriminate|reflexivity].
  - destruct (slot w s); try reflexivity. destruct (nth_error (w_vec w) v); [discriminate|reflexivity].
  - destruct (slot w s); cbn [local_vec_of] in H; try reflexivity; destruct (nth_error (w_vec w) v); try discriminate; reflexivity.
  - destruct (slot w r); try reflexivity. destruct (collector_of w (slot w s)) as [[c ds]|]; [|reflexivity].
    destruct (nth_error (w_reg w) r0); [discriminate|reflexivity].
  - destruct (slot w r); try reflexivity. destruct (collector_of w (slot w s)) as [[c ds]|]; [|reflexivity].
    destruct (nth_error (w_reg w) r0); [discriminate|reflexivity].
Qed.

(* ====================================================================================== *)
(* 11. exact error conditions of the constructors (from C09 / C08)                          *)
(* ====================================================================================== *)
Lemma of_option_err_iff {A} (o : option A) : (exists e, of_option o = TErr e) <-> ~ exists a, o = Some a.
Proof. destruct o; cbn; split; intros H; try (destruct H; discriminate); eauto. exfalso. apply H. eauto. intros [a E]. discriminate. Qed.
Lemma of_result_err_iff {A} (r : result A) : (exists e, of_result r = TErr e) <-> ~ exists a, r = Ok a.
Proof. destruct r; cbn; split; intros H; try (destruct H; discriminate); eauto. exfalso. apply H. eauto. intros [a E]. discriminate. Qed.
Lemma of_option_err_kind {A} (o : option A) e : of_option o = TErr e -> e = EMsg.
Proof. destruct o; cbn; intros H; inversion H; reflexivity. Qed.

Theorem desc_new_err_iff fq help vars consts :
  lenN consts < usize_max -> NoDup (map fst consts) ->
  ((exists e, desc_new_t fq help vars consts = TErr e) <->
   ~ (help <> [] /\ is_valid_metric_name fq = true
      /\ Forall (fun n => is_valid_label_name n = true) (map fst consts ++ vars)
      /\ NoDup (map fst consts ++ vars))).
Proof. intros B ND. rewrite desc_new_t_total by exact B. rewrite of_option_err_iff. rewrite (desc_new_ok_iff fq help vars consts ND). tauto. Qed.
Theorem desc_new_err_kind fq help vars consts e : lenN consts < usize_max -> desc_new_t fq help vars consts = TErr e -> e = EMsg.
Proof. intros B. rewrite desc_new_t_total by exact B. apply of_option_err_kind. Qed.

Theorem value_new_err_iff o t k vals :
  opts_bounded o -> NoDup (map fst (o_consts o)) ->
  ((exists e, value_new_t o t k vals = TErr e) <-> ~ (opts_accept o /\ length vals = length (o_vars o))).
Proof. intros B ND. rewrite value_new_t_total by exact B. rewrite of_result_err_iff. rewrite (value_new_ok_iff o t k vals ND). tauto. Qed.
Theorem hcore_new_err_iff o vals :
  opts_bounded (ho_common o) -> NoDup (map fst (o_consts (ho_common o))) ->
  ((exists e, hcore_new_t o vals = TErr e) <->
   ~ (opts_accept (ho_common o)
      /\ ~ In BUCKET_LABEL (map fst (o_consts (ho_common o)) ++ o_vars (ho_common o))
      /\ length vals = length (o_vars (ho_common o))
      /\ check_and_adjust_buckets (ho_buckets o) <> None)).
Proof. intros B ND. rewrite hcore_new_t_total by exact B. rewrite of_result_err_iff. rewrite (hcore_new_ok_iff o vals ND). tauto. Qed.
Theorem vec_create_err_iff o k :
  opts_bounded o -> NoDup (map fst (o_consts o)) ->
  ((exists e, vec_create_t o k = TErr e) <->
   ~ (opts_accept o /\ (is_hist_kind k -> ~ In BUCKET_LABEL (map fst (o_consts o) ++ o_vars o)))).
Proof. intros B ND. rewrite vec_create_t_total by exact B. rewrite of_result_err_iff. rewrite (vec_create_ok_iff o k ND). tauto. Qed.
(* bucket lists: Err exactly when (after default substitution) a bound is NaN or a bound is not below its successor *)
Theorem check_and_adjust_buckets_err_iff bs :
  (exists e, check_and_adjust_buckets_t bs = TErr e) <-> buckets_increasing (if is_nil bs then DEFAULT_BUCKETS else bs) = false.
Proof.
  rewrite check_and_adjust_buckets_t_total. unfold check_and_adjust_buckets. cbv zeta.
  destruct (buckets_increasing (if is_nil bs then DEFAULT_BUCKETS else bs)); cbn; split; intros H; try discriminate; eauto.
  destruct H; discriminate.
Qed.

(* ====================================================================================== *)
(* 12. every branch is reachable (witnesses, by computation)                                 *)
(* ====================================================================================== *)
(* "a" = [97], "b" = [98], "h" = [104], "9" = [57], "le" = [108;101] *)
Example ex_desc_new :
  desc_new_t [97] [] [] [] = TErr EMsg                                   (* empty help *)
  /\ desc_new_t [57] [104] [] [] = TErr EMsg                             (* invalid metric name *)
  /\ desc_new_t [97] [104] [] [([57], [])] = TErr EMsg                   (* invalid constant label name *)
  /\ desc_new_t [97] [104] [[57]] [] = TErr EMsg                         (* invalid variable label name *)
  /\ desc_new_t [97] [104] [[98]; [98]] [] = TErr EMsg                   (* repeated variable label *)
  /\ desc_new_t [97] [104] [[98]] [([98], [])] = TErr EMsg               (* variable label repeats a constant label *)
  /\ outcome_of (desc_new_t [97] [104] [[98]] [([99], [100])]) = OutOk.
Proof. repeat apply conj; vm_compute; reflexivity. Qed.

Definition ex_desc : Desc := mkDesc [97] [104] [mkLP [99] [100]] [[98]] 0 0.
Example ex_make_label_pairs :
  make_label_pairs_t ex_desc [] = TErr (ECard 1 0) /\ make_label_pairs_t ex_desc [[120]; [121]] = TErr (ECard 1 2)
  /\ outcome_of (make_label_pairs_t ex_desc [[120]]) = OutOk
  /\ make_label_pairs_unchecked ex_desc [] = TPanic S_MLP_INDEX.
Proof. repeat apply conj; vm_compute; reflexivity. Qed.

Example ex_buckets :
  check_and_adjust_buckets_t [nan] = TErr EMsg
  /\ check_and_adjust_buckets_t [f_one; f_one] = TErr EMsg
  /\ check_and_adjust_buckets_t [f_one; f_zero] = TErr EMsg
  /\ check_and_adjust_buckets_t [f_one; nan] = TErr EMsg
  /\ check_and_adjust_buckets_t [f_zero; f_one; infinity] = TOk [f_zero; f_one]
  /\ check_and_adjust_buckets_t [] = TOk DEFAULT_BUCKETS.
Proof. repeat apply conj; vm_compute; reflexivity. Qed.

Definition ex_opts (name : str) (consts : list (str * str)) (vars : list str) : Opts := mkOpts [] [] name [104] consts vars.
Example ex_constructors :
  outcome_of (value_new_t (ex_opts [] [] []) VCounter NF []) = OutErr EMsg                      (* empty name *)
  /\ outcome_of (value_new_t (ex_opts [97] [] [[98]]) VGauge NI []) = OutErr (ECard 1 0)        (* plain metric with a variable label *)
  /\ outcome_of (value_new_t (ex_opts [97] [] []) VCounter NU []) = OutOk
  /\ outcome_of (hcore_new_t (mkHOpts (ex_opts [97] [([108; 101], [])] []) []) []) = OutErr EMsg   (* constant label le *)
  /\ outcome_of (hcore_new_t (mkHOpts (ex_opts [97] [] []) [f_one; f_zero]) []) = OutErr EMsg     (* buckets not increasing *)
  /\ outcome_of (hcore_new_t (mkHOpts (ex_opts [97] [] []) [nan]) []) = OutErr EMsg
  /\ outcome_of (hcore_new_t (mkHOpts (ex_opts [97] [] []) []) []) = OutOk
  /\ outcome_of (vec_create_t (ex_opts [97] [] [[108; 101]]) (VKHist [])) = OutErr EMsg            (* variable label le *)
  /\ outcome_of (vec_create_t (ex_opts [97] [] [[57]]) (VKValue VCounter NF)) = OutErr EMsg
  /\ outcome_of (vec_create_t (ex_opts [97] [] [[108; 101]]) (VKValue VCounter NF)) = OutOk.
Proof. repeat apply conj; vm_compute; reflexivity. Qed.

Definition two : f64 := (f_one + f_one)%float.
Definition half : f64 := (f_one / two)%float.
Example ex_bucket_helpers :
  linear_buckets_t f_zero f_one 0 = TErr EMsg
  /\ linear_buckets_t f_zero f_zero 3 = TErr EMsg
  /\ linear_buckets_t f_zero (- f_one)%float 3 = TErr EMsg
  /\ linear_buckets_t f_one two 3 = TOk [f_one; (f_one + two)%float; (f_one + two * two)%float]
  /\ exponential_buckets_t f_one two 0 = TErr EMsg
  /\ exponential_buckets_t f_zero two 3 = TErr EMsg
  /\ exponential_buckets_t (- f_one)%float two 3 = TErr EMsg
  /\ exponential_buckets_t f_one f_one 3 = TErr EMsg
  /\ exponential_buckets_t f_one half 3 = TErr EMsg
  /\ exponential_buckets_t f_one two 3 = TOk [f_one; two; (two * two)%float].
Proof. repeat apply conj; vm_compute; reflexivity. Qed.
(* observed, documented behaviour (not a panic and not one of the documented error conditions): a
   NaN width / start / factor is not refused by the helpers, because `NaN <= 0.0` is false; the list
   they return is then refused by the histogram constructor *)
Example helpers_let_nan_through :
  linear_buckets_t f_zero nan 2 = TOk [nan; nan] /\ exponential_buckets_t f_one nan 2 = TOk [f_one; nan]
  /\ exponential_buckets_t infinity two 2 = TOk [infinity; infinity]
  /\ check_and_adjust_buckets_t [nan; nan] = TErr EMsg /\ check_and_adjust_buckets_t [f_one; nan] = TErr EMsg
  /\ check_and_adjust_buckets_t [infinity; infinity] = TErr EMsg.
Proof. repeat apply conj; vm_compute; reflexivity. Qed.

Definition ex_vec_r : result veccore := Eval vm_compute in vec_create (ex_opts [118] [] [[97]; [98]]) (VKValue VCounter NF).
Definition ex_vec : veccore :=
  match ex_vec_r with Ok v => v | Err _ => mkVec ex_desc (ex_opts [] [] []) (VKValue VCounter NF) [] end.
Definition ex_vec1 : veccore := vec_set_children ex_vec [(fnv1a (label_values_preimage [[120]; [121]]), O)].
Example ex_vec_requests :
  vec_create (ex_opts [118] [] [[97]; [98]]) (VKValue VCounter NF) = Ok ex_vec
  /\ get_metric_with_label_values_o ex_vec [[120]] = OutErr (ECard 2 1)
  /\ get_metric_with_label_values_o ex_vec [[120]; [121]] = OutOk
  /\ get_metric_with_o ex_vec [([97], [120])] = OutErr (ECard 2 1)
  /\ get_metric_with_o ex_vec [([97], [120]); ([99], [121])] = OutErr EMsg          (* a declared name is missing *)
  /\ get_metric_with_o ex_vec [([98], [121]); ([97], [120])] = OutOk
  /\ remove_label_values_o ex_vec [[120]; [121]] = OutErr EMsg                      (* no such child *)
  /\ remove_label_values_o ex_vec1 [[120]] = OutErr (ECard 2 1)
  /\ remove_label_values_o ex_vec1 [[120]; [121]] = OutOk
  /\ remove_o ex_vec1 [([98], [121]); ([97], [120])] = OutOk
  /\ remove_o ex_vec1 [([98], [121]); ([97], [122])] = OutErr EMsg
  /\ remove_o ex_vec1 [([98], [121])] = OutErr (ECard 2 1).
Proof. repeat apply conj; vm_compute; reflexivity. Qed.

Definition ex_d (name : str) : list Desc := match desc_new name [104] [] [] with Some d => [d] | None => [] end.
Definition ex_reg1 : regcore unit := match reg_register reg_empty (ex_d [97]) tt with Ok r => r | Err _ => reg_empty end.
Example ex_registry :
  new_custom_o (Some []) None = OutErr EMsg /\ new_custom_o (Some [57]) None = OutErr EMsg
  /\ new_custom_o None (Some [([57], [])]) = OutErr EMsg /\ new_custom_o (Some [97]) (Some [([98], [])]) = OutOk
  /\ register_o (@reg_empty unit) (ex_d [97]) tt = OutOk
  /\ register_o ex_reg1 (ex_d [97]) tt = OutErr EAlreadyReg                          (* registered twice *)
  /\ register_o ex_reg1 (ex_d [98]) tt = OutOk
  /\ unregister_o ex_reg1 (ex_d [98]) = OutErr EMsg                                  (* not registered *)
  /\ unregister_o ex_reg1 (ex_d [97]) = OutOk.
Proof. repeat apply conj; vm_compute; reflexivity. Qed.

Definition ex_show : f64 -> str := fun _ => [48].
Definition ex_showz : Z -> str := fun _ => [48].
Definition ex_metric : Metric := mkMetric [mkLP [97] [92; 0xE9; 10]] None (Some f_one) None None None None.
Example ex_text :
  text_encode_o ex_show ex_showz [] [mkMF [97] [104] COUNTER []] = OutErr EMsg              (* no metrics *)
  /\ text_encode_o ex_show ex_showz [] [mkMF [] [104] COUNTER [ex_metric]] = OutErr EMsg     (* no name *)
  /\ text_encode_o ex_show ex_showz [] [mkMF [97] [104] UNTYPED [ex_metric]] = OutErr EMsg   (* unsupported type *)
  /\ text_encode_o ex_show ex_showz [] [mkMF [97] [104] COUNTER [ex_metric]; mkMF [98] [] HISTOGRAM [ex_metric]] = OutOk
  /\ text_encode_pinned_o [mkMF [97] [104] UNTYPED [ex_metric]] = OutPanic S_TEXT_UNTYPED    (* the pinned tree *)
  /\ text_bounded ex_show [mkMF [97] [104] COUNTER [ex_metric]; mkMF [98] [] HISTOGRAM [ex_metric]].
Proof.
  repeat apply conj.
  1-5: vm_compute; reflexivity.
  unfold text_bounded. repeat apply Forall_cons; try apply Forall_nil; unfold str_bounded; cbn [fst]; vm_compute; discriminate.
Qed.
Example ex_pb :
  pb_encode_o [pb_of_family (mkMF [97] [104] COUNTER [])] = OutErr EMsg
  /\ pb_encode_o [pb_of_family (mkMF [] [104] COUNTER [ex_metric])] = OutErr EMsg
  /\ pb_encode_o [pb_of_family (mkMF [97] [104] UNTYPED [ex_metric])] = OutOk
  /\ pb_encode_o [mkPFamily None None None []] = OutErr EMsg.
Proof. repeat apply conj; vm_compute; reflexivity. Qed.
(* the failing writer: 3 bytes accepted, then an io error *)
Example ex_limited_writer :
  limit_eres 3 [1; 2] (EOk [1; 2; 10; 11; 12; 13]) = EErr EOther [1; 2; 10; 11; 12]
  /\ limit_eres 4 [1; 2] (EOk [1; 2; 10; 11; 12; 13]) = EOk [1; 2; 10; 11; 12; 13]
  /\ limit_eres 0 [] (EErr EMsg []) = EErr EMsg [] /\ limit_eres 0 [] (EErr EMsg [7]) = EErr EOther [].
Proof. repeat apply conj; vm_compute; reflexivity. Qed.

(* the hypotheses of the general theorems are satisfiable *)
Example ex_bounds :
  opts_bounded (ex_opts [97] [([98], [])] [[99]]) /\ desc_bounded ex_desc /\ count_bounded 4096 /\ str_bounded [92; 0xE9; 10]
  /\ coherent ex_vec /\ good_buckets ex_vec /\ opts_bounded (v_opts ex_vec).
Proof.
  repeat apply conj; vm_compute; first [reflexivity | discriminate | exact I].
Qed.

(* ShardIndex::from (site 19, not on a Result-returning path): `n >> 63` of a u64 is 0 or 1 *)
Lemma shard_index_in_range n : n < two64 -> n / 2 ^ 63 < 2.
Proof. intros H. apply N.div_lt_upper_bound; [discriminate|]. unfold two64 in H. change (2 ^ 63 * 2) with 0x10000000000000000. exact H. Qed.
