(* C06, concurrent part, 9: the executable spec holds of every validated trace.
     c06_spec_of_validated :  rcheck cs nth es = true -> in_domain_tbl cs nth es = true -> no_collision_tbl cs = true
                              -> spec_c06conc cs es = true
   Ingredients: the ghost log of the model orders the completed calls inside their windows and replays on the sequential
   registry (Proofs/RegConcLin.v); the spec's marker bookkeeping is the model's, through the index map E
   (Proofs/RegConcExtract.v); under no collision every answer of the sequential registry is explained by the spec's
   structural registry (Proofs/RegConcSpecSeq.v); an order with these properties is an [order_exists] derivation on the rows
   the search starts from (Proofs/RegConcOrder.v); and the search never answers NotFound when such a derivation exists
   (Proofs/RegConcSearch.v, exactness) - so no completeness argument and no bound on the search budget are needed. *)
Require Import PV.Base.Prelude PV.Base.StrFacts PV.Base.F64.
Require Import PV.Proofs.C06Facts PV.Proofs.C06More PV.Proofs.C06Spec.
Require Import PV.Model.Proto PV.Model.Desc PV.Model.Value PV.Model.Registry PV.Model.Conc PV.Model.RegConc.
Require Import PV.Proofs.RegConcBase PV.Proofs.RegConcLin PV.Proofs.RegConcFacts PV.Proofs.RegConcOrder PV.Proofs.RegConcExtract.
Require Import PV.Spec.SpecC06 PV.Spec.SpecC06Conc PV.Proofs.RegConcSearch PV.Proofs.RegConcSpecSeq.
From Coq Require Import Arith Lia Sorted.
Open Scope nat_scope.

(* ------------------------------------------------------------------ the domain *)
Definition tids_below (nth : nat) (es : list revent) : bool :=
  forallb (fun e => match rev_tid e with Some t => Nat.ltb t nth | None => true end) es.
(* constant-label lists with distinct keys (the harness builds a HashMap from them); every event belongs to one of the nth threads *)
Definition in_domain_tbl (cs : list (list sdesc)) (nth : nat) (es : list revent) : bool := consts_ok cs && tids_below nth es.

(* ------------------------------------------------------------------ generic list facts *)
Lemma forall_exists_F2 {A B} (R : A -> B -> Prop) l : (forall a, In a l -> exists b, R a b) -> exists l', Forall2 R l l'.
Proof.
  induction l as [|a l IH]; intros H; [exists []; constructor|].
  destruct (H a (or_introl eq_refl)) as [b Hb]. destruct IH as [l' Hl']; [intros; apply H; right; auto|]. exists (b :: l'). constructor; auto.
Qed.
Lemma F2_In_l {A B} (R : A -> B -> Prop) l l' a : Forall2 R l l' -> In a l -> exists b, In b l' /\ R a b.
Proof. induction 1; intros []; subst; [eexists; split; [left; reflexivity|auto] | destruct (IHForall2 H1) as (b & ? & ?); eauto using in_cons]. Qed.
Lemma F2_In_r {A B} (R : A -> B -> Prop) l l' b : Forall2 R l l' -> In b l' -> exists a, In a l /\ R a b.
Proof. induction 1; intros []; subst; [eexists; split; [left; reflexivity|auto] | destruct (IHForall2 H1) as (a & ? & ?); eauto using in_cons]. Qed.
Lemma ssorted_snoc_gen {A} (R : A -> A -> Prop) l x : StronglySorted R l -> Forall (fun c => R c x) l -> StronglySorted R (l ++ [x]).
Proof.
  induction 1 as [|a l S IH F]; cbn; intros H; [repeat constructor|]. inversion H; subst. constructor; auto. apply Forall_app. split; auto.
Qed.
Lemma ssorted_rev {A} (R : A -> A -> Prop) l : StronglySorted R l -> StronglySorted (fun a b => R b a) (rev l).
Proof.
  induction 1 as [|a l S IH F]; cbn; [constructor|]. apply ssorted_snoc_gen; auto.
  rewrite Forall_forall in *. intros x Hx. apply in_rev in Hx. auto.
Qed.
Lemma ssorted_lt_NoDup {A} (f : A -> nat) l : StronglySorted (fun a b => f a < f b) l -> NoDup l.
Proof. induction 1 as [|a l S IH F]; constructor; auto. intros Hin. rewrite Forall_forall in F. apply F in Hin. lia. Qed.
Lemma qmax_tid_bound l c : In c l -> qc_t c <= qmax_tid l.
Proof.
  unfold qmax_tid. assert (G : forall l m, m <= fold_left (fun m c => Nat.max m (qc_t c)) l m) by (induction l0 as [|x l0 IH]; intros m; cbn; [lia | specialize (IH (Nat.max m (qc_t x))); lia]).
  assert (H : forall l m, In c l -> qc_t c <= fold_left (fun m c => Nat.max m (qc_t c)) l m).
  { induction l0 as [|x l0 IH]; intros m Hin; [destruct Hin|]. destruct Hin as [->|Hin]; cbn; [specialize (G l0 (Nat.max m (qc_t c))); lia | auto]. }
  apply H.
Qed.

(* the rows the search starts from, when the calls of each thread are listed in invocation order already *)
Lemma all_calls_rows done : (forall t, StronglySorted ci_lt (filter (of_tid t) done)) -> all_calls done = rows (qmax_tid done) done.
Proof. intros H. unfold all_calls, rows. apply map_ext. intros t. unfold thread_calls. apply isort_id. apply H. Qed.

Section Final.
Variables (cs : list (list sdesc)) (ct : ctable).
Hypothesis Hb : build_ctable cs = Some ct.
Hypothesis Hc : consts_ok cs = true.
Hypothesis NC : no_collision_tbl cs = true.
Variables (tr : list qlabel) (s : qstate).
Hypothesis R : qreach ct tr s.
Hypothesis Hidle : forall t, qg_open s t = None.

Let G := qreach_ginv ct tr s R.

Definition owns (e : qlent) (d : qdrec) : Prop :=
  let '(t, c, r, ti, trr) := d in ql_tid e = t /\ ti <= ql_time e <= trr /\ ql_op e = c /\ ql_res e = r.

Lemma done_facts t c r ti trr : In (t, c, r, ti, trr) (qg_done s) ->
  ti < trr /\ trr < length tr /\ nth_error tr ti = Some (QE (RgCall t c)) /\ nth_error tr trr = Some (QE (RgRet t r))
  /\ qlins_in t ti trr (qg_lin s) = [(c, r)].
Proof. intros H. destruct (QG_done tr s G _ _ _ _ _ H) as (A & B & C & D & F). rewrite (QG_now tr s G) in B. auto. Qed.

Lemma own_exists e : In e (qg_lin s) -> exists d, In d (qg_done s) /\ owns e d.
Proof.
  intros He. destruct (QG_owner tr s G e He) as [(c & ti & Ho & _)|(c & r & ti & trr & Hd & Hle)]; [rewrite Hidle in Ho; discriminate|].
  exists (ql_tid e, c, r, ti, trr). split; auto. destruct (done_facts _ _ _ _ _ Hd) as (_ & _ & _ & _ & Hm).
  assert (Hx : In (qopres e) (qlins_in (ql_tid e) ti trr (qg_lin s))) by (apply qlins_in_In; exists e; repeat split; auto; apply qwinb_spec; auto).
  rewrite Hm in Hx. destruct Hx as [Hx|[]]. inversion Hx. cbn. auto.
Qed.
Lemma own_unique e d1 d2 : In d1 (qg_done s) -> In d2 (qg_done s) -> owns e d1 -> owns e d2 -> d1 = d2.
Proof.
  destruct d1 as [[[[t1 c1] r1] ti1] tr1], d2 as [[[[t2 c2] r2] ti2] tr2]. intros H1 H2 (A1 & B1 & _) (A2 & B2 & _). subst t1 t2.
  destruct (QG_disj tr s G _ _ _ _ _ _ _ _ _ H1 H2) as [Eq|[Eq|Eq]]; [inversion Eq; reflexivity | lia | lia].
Qed.
Lemma own_of_done d : In d (qg_done s) -> exists e, In e (qg_lin s) /\ owns e d.
Proof.
  destruct d as [[[[t c] r] ti] trr]. intros H. destruct (done_logged ct tr s R _ _ _ _ _ H) as (e & A & B & C & D & F). exists e. cbn. auto.
Qed.
Lemma own_single e1 e2 d : In d (qg_done s) -> In e1 (qg_lin s) -> In e2 (qg_lin s) -> owns e1 d -> owns e2 d -> e1 = e2.
Proof.
  destruct d as [[[[t c] r] ti] trr]. intros Hd H1 H2 (A1 & B1 & _) (A2 & B2 & _).
  destruct (done_facts _ _ _ _ _ Hd) as (_ & _ & _ & _ & Hm). unfold qlins_in in Hm.
  assert (F1 : In e1 (rev (filter (qwinb t ti trr) (qg_lin s)))) by (rewrite <- in_rev; apply filter_In; split; auto; apply qwinb_spec; auto).
  assert (F2 : In e2 (rev (filter (qwinb t ti trr) (qg_lin s)))) by (rewrite <- in_rev; apply filter_In; split; auto; apply qwinb_spec; auto).
  destruct (rev (filter (qwinb t ti trr) (qg_lin s))) as [|x [|y l]]; cbn in Hm; try discriminate.
  destruct F1 as [<-|[]], F2 as [<-|[]]. reflexivity.
Qed.

(* the completed calls in the order of their linearisation steps *)
Lemma lin_list : exists Lm, Forall2 (fun e d => In d (qg_done s) /\ owns e d) (rev (qg_lin s)) Lm.
Proof. apply forall_exists_F2. intros e He. apply in_rev in He. apply own_exists. exact He. Qed.

Lemma time_sorted : StronglySorted (fun a b => ql_time a < ql_time b) (rev (qg_lin s)).
Proof. apply (ssorted_rev _ _ (QG_sorted tr s G)). Qed.

Section WithL.
Variable Lm : list qdrec.
Hypothesis HL : Forall2 (fun e d => In d (qg_done s) /\ owns e d) (rev (qg_lin s)) Lm.

Lemma Lm_iff d : In d (qg_done s) <-> In d Lm.
Proof.
  split.
  - intros Hd. destruct (own_of_done d Hd) as (e & He & Ho). apply in_rev in He.
    destruct (F2_In_l _ _ _ e HL He) as (d' & Hd' & Hin & Ho'). rewrite (own_unique e d d' Hd Hin Ho Ho'). exact Hd'.
  - intros Hd. destruct (F2_In_r _ _ _ d HL Hd) as (e & _ & Hin & _). exact Hin.
Qed.

Let X := extract_corr ct tr s R.
Let done := qx_done (fst (xrun (qvisible tr))).
Lemma done_eq : done = map (conv tr) (rev (qg_done s)).
Proof. apply (XI_done _ _ _ X). Qed.
Lemma done_In c : In c done <-> exists d, In d (qg_done s) /\ c = conv tr d.
Proof.
  rewrite done_eq, in_map_iff. split; intros (d & A & B).
  - exists d. rewrite <- in_rev in B. auto.
  - exists d. rewrite <- in_rev. auto.
Qed.

Lemma conv_win d : In d (qg_done s) -> (qc_ci (conv tr d) < qc_ri (conv tr d))%N.
Proof. destruct d as [[[[t c] r] ti] trr]. intros H. destruct (done_facts _ _ _ _ _ H) as (A & _ & C & _). cbn. eapply E_event_lt; eauto. Qed.

Lemma conv_disj d1 d2 : In d1 (qg_done s) -> In d2 (qg_done s) -> qc_t (conv tr d1) = qc_t (conv tr d2) ->
  qc_ri (conv tr d1) <> qc_ri (conv tr d2) ->
  (qc_ri (conv tr d1) < qc_ci (conv tr d2) \/ qc_ri (conv tr d2) < qc_ci (conv tr d1))%N.
Proof.
  destruct d1 as [[[[t1 c1] r1] ti1] tr1], d2 as [[[[t2 c2] r2] ti2] tr2]. cbn. intros H1 H2 Et Hne. subst t2.
  destruct (done_facts _ _ _ _ _ H1) as (_ & _ & _ & Hr1 & _). destruct (done_facts _ _ _ _ _ H2) as (_ & _ & _ & Hr2 & _).
  destruct (QG_disj tr s G _ _ _ _ _ _ _ _ _ H1 H2) as [Eq|[Eq|Eq]].
  - inversion Eq; subst. congruence.
  - left. eapply E_event_lt; eauto.
  - right. eapply E_event_lt; eauto.
Qed.

(* distinct linearised calls returned at distinct events *)
Lemma ri_inj e1 e2 d1 d2 : In e1 (qg_lin s) -> In e2 (qg_lin s) -> In d1 (qg_done s) -> In d2 (qg_done s) -> owns e1 d1 -> owns e2 d2 ->
  qc_ri (conv tr d1) = qc_ri (conv tr d2) -> e1 = e2.
Proof.
  intros He1 He2 Hd1 Hd2 O1 O2 Eq. assert (d1 = d2); [|subst d2; eapply own_single; eauto].
  destruct d1 as [[[[t1 c1] r1] ti1] tr1], d2 as [[[[t2 c2] r2] ti2] tr2]. cbn in Eq.
  destruct (done_facts _ _ _ _ _ Hd1) as (_ & _ & _ & Hr1 & _). destruct (done_facts _ _ _ _ _ Hd2) as (_ & _ & _ & Hr2 & _).
  assert (tr1 = tr2).
  { destruct (Nat.lt_trichotomy tr1 tr2) as [H|[H|H]]; auto.
    - pose proof (E_event_lt tr _ _ _ Hr1 H). lia.
    - pose proof (E_event_lt tr _ _ _ Hr2 H). lia. }
  subst tr2. rewrite Hr1 in Hr2. inversion Hr2; subst.
  destruct (QG_disj tr s G _ _ _ _ _ _ _ _ _ Hd1 Hd2) as [Eq'|[Eq'|Eq']]; [inversion Eq'; reflexivity | |].
  - destruct (done_facts _ _ _ _ _ Hd2). lia.
  - destruct (done_facts _ _ _ _ _ Hd1). lia.
Qed.

Definition OwnR (e : qlent) (d : qdrec) : Prop := In d (qg_done s) /\ owns e d.

Lemma L_nodup_gen le ld : Forall2 OwnR le ld -> NoDup le -> (forall e, In e le -> In e (qg_lin s)) ->
  NoDup (map qc_ri (map (conv tr) ld)).
Proof.
  induction 1 as [|e d l l' [Hd Ho] F IH]; intros ND Hsub; cbn; [constructor|].
  inversion ND; subst. constructor; [|apply IH; auto; intros; apply Hsub; right; auto].
  intros Hin. apply in_map_iff in Hin as (c & Ec & Hc'). apply in_map_iff in Hc' as (d' & <- & Hd').
  destruct (F2_In_r _ _ _ d' F Hd') as (e' & He' & Hdd' & Ho').
  assert (e = e'); [|subst e'; contradiction].
  eapply (ri_inj e e' d d'); eauto; apply Hsub; [left|right]; auto.
Qed.
Lemma L_nodup : NoDup (map qc_ri (map (conv tr) Lm)).
Proof.
  apply (L_nodup_gen (rev (qg_lin s))); [exact HL | apply (ssorted_lt_NoDup ql_time); apply time_sorted | intros e He; apply in_rev; exact He].
Qed.

Lemma L_lin_ok_gen le ld : Forall2 OwnR le ld -> StronglySorted (fun a b => ql_time a < ql_time b) le -> lin_ok (map (conv tr) ld).
Proof.
  induction 1 as [|e d l l' [Hd Ho] F IH]; intros S; cbn; auto.
  apply StronglySorted_inv in S as [S Fa]. split; [|apply IH; auto].
  intros b Hbb. apply in_map_iff in Hbb as (d' & <- & Hd'). destruct (F2_In_r _ _ _ d' F Hd') as (e' & He' & Hdd' & Ho').
  rewrite Forall_forall in Fa. specialize (Fa e' He').
  destruct d as [[[[t c] r] ti] trr], d' as [[[[t' c'] r'] ti'] trr']. cbn in *.
  destruct Ho as (_ & W & _). destruct Ho' as (_ & W' & _).
  pose proof (E_mono tr ti trr' ltac:(lia)). lia.
Qed.
Lemma L_lin_ok : lin_ok (map (conv tr) Lm).
Proof. apply (L_lin_ok_gen (rev (qg_lin s))); [exact HL | apply time_sorted]. Qed.

Lemma L_replay_gen le ld : Forall2 OwnR le ld -> forall x a, SR ct x a -> qconsistent ct a (map qopres le) ->
  replay_ok areg (apply_call cs) x (map (conv tr) ld).
Proof.
  induction 1 as [|e d l l' [Hd Ho] F IH]; intros x a Hx Hcons; cbn [map replay_ok]; auto.
  cbn [map qconsistent] in Hcons. unfold qopres at 1 in Hcons. destruct Hcons as [Hr Hcons].
  destruct d as [[[[t c] r] ti] trr]. cbn in Ho. destruct Ho as (_ & _ & Eop & Eres).
  assert (Hrange : match ql_op e with RRegister i | RUnregister i => i < length ct | RGather => True end).
  { rewrite Eop. destruct (done_facts _ _ _ _ _ Hd) as (_ & _ & Hcall & _). exact (calls_range ct tr s R _ _ _ Hcall). }
  destruct (sr_step cs ct Hb Hc NC x a (ql_op e) Hx Hrange) as (x' & Ha & Hx').
  exists x'. split.
  - rewrite apply_call_cr. cbn [conv qc_call qc_ret]. rewrite <- Eop, <- Eres, <- Hr. exact Ha.
  - eapply IH; eauto.
Qed.
Lemma L_replay : forall x a, SR ct x a -> qconsistent ct a (map qopres (rev (qg_lin s))) ->
  replay_ok areg (apply_call cs) x (map (conv tr) Lm).
Proof. apply L_replay_gen. exact HL. Qed.

Lemma order_with_L : sequential_order_exists cs done.
Proof.
  unfold sequential_order_exists.
  assert (Dwin : forall c, In c done -> (qc_ci c < qc_ri c)%N) by (intros c Hc'; apply done_In in Hc' as (d & Hd & ->); apply conv_win; auto).
  assert (Ddisj : forall a b, In a done -> In b done -> qc_t a = qc_t b -> qc_ri a <> qc_ri b -> (qc_ri a < qc_ci b \/ qc_ri b < qc_ci a)%N).
  { intros a b Ha Hb'. apply done_In in Ha as (d1 & H1 & ->). apply done_In in Hb' as (d2 & H2 & ->). apply conv_disj; auto. }
  assert (Ssort : StronglySorted ri_lt done) by (apply (XI_sorted _ _ _ X)).
  rewrite all_calls_rows.
  - apply (order_from_lin_gen areg (apply_call cs) done (qmax_tid done) Dwin (qmax_tid_bound done) Ddisj (map (conv tr) Lm) done areg0); auto.
    + intros c. rewrite done_In, in_map_iff. split; intros (d & A & B).
      * exists d. split; auto. apply Lm_iff; auto.
      * exists d. split; auto. apply Lm_iff; auto.
    + apply L_nodup.
    + intros c Hc'. apply in_map_iff in Hc' as (d & <- & Hd). apply done_In. exists d. split; auto. apply Lm_iff; auto.
    + apply L_lin_ok.
    + apply (L_replay areg0 qinit).
      * apply sr_init.
      * destruct (qchron_consistent ct tr s R) as [Hcn _]. exact Hcn.
  - (* each thread's calls are listed in invocation order *)
    intros t. pose proof (ssorted_filter ri_lt (of_tid t) done Ssort) as Sf.
    assert (Hin : forall c, In c (filter (of_tid t) done) -> In c done /\ qc_t c = t).
    { intros c Hc'. apply filter_In in Hc' as [A B]. unfold of_tid in B. apply Nat.eqb_eq in B. auto. }
    induction Sf as [|a l Sl IH Fa]; constructor.
    + apply IH. intros c Hc'. apply Hin. right; auto.
    + rewrite Forall_forall in *. intros b Hb'. unfold ci_lt. specialize (Fa b Hb'). unfold ri_lt in Fa.
      destruct (Hin a (or_introl eq_refl)) as [Ia Ta]. destruct (Hin b (or_intror Hb')) as [Ib Tb].
      destruct (Ddisj a b Ia Ib ltac:(congruence) ltac:(lia)) as [H|H].
      * pose proof (Dwin a Ia). lia.
      * pose proof (Dwin a Ia). lia.
Qed.
End WithL.

Theorem order_of_reach : sequential_order_exists cs (qx_done (fst (xrun (qvisible tr)))).
Proof. destruct lin_list as [Lm HL]. exact (order_with_L Lm HL). Qed.

Lemma extract_wf : qx_ok (fst (xrun (qvisible tr))) = true /\ qx_open (fst (xrun (qvisible tr))) = [].
Proof.
  pose proof (extract_corr ct tr s R) as X. split; [apply (XI_ok _ _ _ X)|].
  destruct (qx_open (fst (xrun (qvisible tr)))) as [|[t v] l] eqn:Eq; auto.
  pose proof (XI_open _ _ _ X t) as Ho. rewrite Eq, Hidle in Ho. cbn in Ho. rewrite Nat.eqb_refl in Ho. discriminate.
Qed.

Lemma extract_range : calls_in_range cs (qx_done (fst (xrun (qvisible tr)))) = true.
Proof.
  pose proof (extract_corr ct tr s R) as X. rewrite (XI_done _ _ _ X). unfold calls_in_range. apply forallb_forall.
  intros c Hc'. apply in_map_iff in Hc' as (d & <- & Hd). rewrite <- in_rev in Hd. destruct d as [[[[t c] r] ti] trr]. cbn.
  destruct (done_facts _ _ _ _ _ Hd) as (_ & _ & Hcall & _). pose proof (calls_range ct tr s R _ _ _ Hcall) as Hr.
  rewrite (q_len cs ct Hb Hc). destruct c; auto; apply Nat.ltb_lt; exact Hr.
Qed.
End Final.

(* ------------------------------------------------------------------ the theorem *)
Lemma q_all_idle_spec n s : q_all_idle n s = true -> forall t, t < n -> q_pc s t = QIdle.
Proof.
  induction n as [|n IH]; intros H t Ht; [lia|]. cbn in H. apply andb_true_iff in H as [H1 H2].
  destruct (Nat.eq_dec t n) as [->|Hn]; [destruct (q_pc s n); try discriminate; reflexivity | apply IH; auto; lia].
Qed.
Lemma qvisible_In tr e : In (QE e) tr -> In e (qvisible tr).
Proof. intros H. unfold qvisible. apply in_flat_map. exists (QE e). split; auto. left; auto. Qed.

Theorem c06_spec_of_validated cs nth es :
  rcheck cs nth es = true -> in_domain_tbl cs nth es = true -> no_collision_tbl cs = true -> spec_c06conc cs es = true.
Proof.
  intros Hv Hd NC. unfold in_domain_tbl in Hd. apply andb_true_iff in Hd as [Hc Ht].
  destruct (rvalidated_is_reachable cs nth es Hv) as (ct & tr & s & Hb & R & Hvis & Hfin).
  assert (Hidle : forall t, qg_open s t = None).
  { intros t. pose proof (QG_open tr s (qreach_ginv ct tr s R) t) as Ho. destruct (qg_open s t) as [[c ti]|] eqn:Eo; auto. exfalso.
    destruct Ho as (_ & Hsh & Hcall & _). apply nth_error_In, qvisible_In in Hcall. rewrite Hvis in Hcall.
    unfold tids_below in Ht. rewrite forallb_forall in Ht. specialize (Ht _ Hcall). cbn in Ht. apply Nat.ltb_lt in Ht.
    unfold qfinal in Hfin. rewrite !andb_true_iff in Hfin. destruct Hfin as [[Hi _] _].
    rewrite (q_all_idle_spec nth s Hi t Ht) in Hsh. exact Hsh. }
  destruct (extract_wf ct tr s R Hidle) as [Hok Hopen].
  pose proof (extract_range cs ct Hb Hc tr s R) as Hrange.
  pose proof (order_of_reach cs ct Hb Hc NC tr s R Hidle) as Hord.
  unfold xrun in *. rewrite Hvis in *.
  unfold spec_c06conc, qextract. fold x0.
  destruct (fold_left qxstep es (x0, 0%N)) as [x i] eqn:Ef. cbn [fst] in *.
  rewrite Hok, Hopen, Hrange. cbn [is_nil andb].
  destruct (order_search cs (qx_done x)) eqn:Es; auto. exfalso. exact (order_search_exact cs _ Es Hord).
Qed.
