(* C06, concurrent part, 6: what gather shows, name by name.  The model's view of a gather (Model/RegConc.v [gather_view]:
   Registry.v gather_families over one single-sample family per descriptor of every registered collector, no prefix, no common
   labels) lists every described name once, with as many samples as descriptors carry it - exactly what the spec's
   [expected_view] (Spec/SpecC06Conc.v) tallies from the registered collectors' names.  Pure list facts. *)
Require Import PV.Base.Prelude PV.Base.StrFacts PV.Base.SortFacts PV.Base.F64.
Require Import PV.Model.Proto PV.Model.Desc PV.Model.Value PV.Model.Registry PV.Model.Conc PV.Model.RegConc.
Require Import PV.Proofs.GatherFacts PV.Spec.SpecC06Conc.
From Coq Require Import Arith Lia Sorted Permutation.
Open Scope N_scope.

Fixpoint cnt (n : str) (l : list str) : N :=
  match l with [] => 0 | x :: r => (if str_eqb n x then 1 else 0) + cnt n r end.
Lemma cnt_app n a b : cnt n (a ++ b) = cnt n a + cnt n b.
Proof. induction a as [|x a IH]; cbn [cnt app]; [lia|]. rewrite IH. lia. Qed.
Lemma cnt_zero n l : cnt n l = 0 <-> ~ In n l.
Proof.
  induction l as [|x l IH]; cbn [cnt In]; [tauto|]. destruct (str_eqb n x) eqn:E.
  - apply str_eqb_eq in E. subst. split; [lia | intros H; exfalso; apply H; auto].
  - apply str_eqb_neq in E. rewrite N.add_0_l, IH. split; [intros H [H1|H1]; [congruence|auto] | tauto].
Qed.

(* ------------------------------------------------------------------ the spec's tally *)
Lemma view_get_None n v : view_get n v = None <-> ~ In n (map fst v).
Proof.
  induction v as [|[m k] v IH]; cbn [view_get map fst In]; [tauto|]. destruct (str_eqb n m) eqn:E.
  - apply str_eqb_eq in E. subst. split; [discriminate | intros H; exfalso; apply H; auto].
  - apply str_eqb_neq in E. rewrite IH. split; [intros H [H1|H1]; [congruence|auto] | tauto].
Qed.
Lemma view_count_get n m v :
  view_get n (view_count m v) = if str_eqb n m then Some (match view_get m v with Some k => k + 1 | None => 1 end) else view_get n v.
Proof.
  induction v as [|[x k] v IH]; cbn [view_count view_get].
  - destruct (str_eqb n m); reflexivity.
  - destruct (str_eqb m x) eqn:Emx; cbn [view_get].
    + apply str_eqb_eq in Emx. subst x. destruct (str_eqb n m); reflexivity.
    + rewrite IH. destruct (str_eqb n x) eqn:Enx; auto.
      destruct (str_eqb n m) eqn:Enm; auto. apply str_eqb_eq in Enx, Enm. subst. rewrite str_eqb_refl in Emx. discriminate.
Qed.
Lemma view_count_keys m v : map fst (view_count m v) = map fst v ++ (if mem_str m (map fst v) then [] else [m]).
Proof.
  induction v as [|[x k] v IH]; cbn [view_count map fst mem_str app]; auto.
  destruct (str_eqb m x); cbn [map fst orb app]; [rewrite app_nil_r; reflexivity | rewrite IH; reflexivity].
Qed.
Definition tally (names : list str) : list (str * N) := fold_left (fun v n => view_count n v) names [].
Lemma tally_snoc names m : tally (names ++ [m]) = view_count m (tally names).
Proof. unfold tally. rewrite fold_left_app. reflexivity. Qed.
Lemma tally_get n names : view_get n (tally names) = if cnt n names =? 0 then None else Some (cnt n names).
Proof.
  induction names as [|m names IH] using rev_ind; [reflexivity|].
  rewrite tally_snoc, view_count_get, cnt_app. cbn [cnt]. destruct (str_eqb n m) eqn:E.
  - apply str_eqb_eq in E. subst m. rewrite IH. destruct (cnt n names =? 0) eqn:Ez.
    + apply N.eqb_eq in Ez. rewrite Ez. reflexivity.
    + replace (cnt n names + (1 + 0) =? 0) with false by (symmetry; apply N.eqb_neq; lia). f_equal; lia.
  - rewrite IH. rewrite !N.add_0_r. reflexivity.
Qed.
Lemma tally_keys_NoDup names : NoDup (map fst (tally names)).
Proof.
  induction names as [|m names IH] using rev_ind; [constructor|].
  rewrite tally_snoc, view_count_keys. destruct (mem_str m (map fst (tally names))) eqn:E; [rewrite app_nil_r; auto|].
  apply mem_str_false in E. apply NoDup_rev in IH. rewrite <- (rev_involutive (_ ++ [m])). apply NoDup_rev.
  rewrite rev_app_distr. cbn. constructor; auto. rewrite <- in_rev. exact E.
Qed.
Lemma tally_keys_In n names : In n (map fst (tally names)) <-> In n names.
Proof.
  split.
  - intros H. destruct (view_get n (tally names)) eqn:E; [|apply view_get_None in E; contradiction].
    rewrite tally_get in E. destruct (cnt n names =? 0) eqn:Ez; [discriminate|]. apply N.eqb_neq in Ez.
    destruct (in_dec str_eq_dec n names) as [I|I]; auto. apply cnt_zero in I. contradiction.
  - intros H. destruct (view_get n (tally names)) eqn:E.
    + destruct (in_dec str_eq_dec n (map fst (tally names))) as [I|I]; auto. apply view_get_None in I. congruence.
    + rewrite tally_get in E. destruct (cnt n names =? 0) eqn:Ez; [|discriminate]. apply N.eqb_eq, cnt_zero in Ez. contradiction.
Qed.

(* ------------------------------------------------------------------ the model's view *)
(* families as the scenario's collectors expose them: one sample each *)
Definition single (mf : MetricFamily) : Prop := length (mf_metric mf) = 1%nat.

Lemma single_sel n collected : Forall single collected ->
  length (concat (map mf_metric (GatherFacts.fams_of n collected))) = N.to_nat (cnt n (map mf_name collected)).
Proof.
  induction 1 as [|mf l Hs _ IH]; cbn [GatherFacts.fams_of filter map concat cnt length]; [reflexivity|].
  fold (GatherFacts.fams_of n l). unfold sel, nonempty_fam. rewrite (str_eqb_sym (mf_name mf) n).
  assert (Hne : is_nil (mf_metric mf) = false) by (unfold single in Hs; destruct (mf_metric mf); [discriminate|reflexivity]).
  rewrite Hne. cbn [negb]. rewrite andb_true_r. destruct (str_eqb n (mf_name mf)); cbn [map concat].
  - rewrite app_length, IH, Hs. lia.
  - rewrite IH. lia.
Qed.

Lemma name_sorted_NoDup m : name_sorted m -> NoDup (map mf_name m).
Proof.
  induction 1 as [|x m S IH F]; cbn; constructor; auto. intros H. apply in_map_iff in H as (y & E & Hy).
  rewrite Forall_forall in F. apply F in Hy. unfold name_lt in Hy. rewrite E, str_cmp_refl in Hy. discriminate.
Qed.

Definition fam_view (m : list MetricFamily) : list (str * N) := map (fun mf => (mf_name mf, N.of_nat (length (mf_metric mf)))) m.

Lemma gathered_view collected :
  fam_view (gather_families None None collected) = fam_view (merge_families collected).
Proof.
  unfold gather_families, fam_view. rewrite map_map. apply map_ext. intros mf. cbn. rewrite sort_by_length. reflexivity.
Qed.

Theorem merged_view_matches collected : Forall single collected ->
  view_matches (fam_view (merge_families collected)) (tally (map mf_name collected)) = true.
Proof.
  intros Hs. set (M := merge_families collected). set (names := map mf_name collected).
  assert (HM : forall x, In x M -> In (mf_name x) names /\ N.of_nat (length (mf_metric x)) = cnt (mf_name x) names).
  { intros x Hx. pose proof (merge_In collected x Hx) as E.
    assert (Hl : length (mf_metric x) = N.to_nat (cnt (mf_name x) names)).
    { unfold names. rewrite <- (single_sel (mf_name x) collected Hs). destruct (GatherFacts.fams_of (mf_name x) collected) as [|f r]; cbn in E; [discriminate|].
      inversion E as [E']. cbn. reflexivity. }
    destruct (merged_of_nonempty _ _ _ E) as [_ Hne]. split; [|lia].
    destruct (in_dec str_eq_dec (mf_name x) names) as [I|I]; auto. apply cnt_zero in I. rewrite I in Hl. destruct (mf_metric x); [congruence|discriminate]. }
  assert (HN : forall n, In n names -> In n (map mf_name M)).
  { intros n Hn. unfold names in Hn. apply in_map_iff in Hn as (f & <- & Hf).
    destruct (fam_lookup (mf_name f) M) as [x|] eqn:E.
    - apply fam_lookup_In in E as [Hx En]. rewrite <- En. apply in_map. exact Hx.
    - unfold M in E. rewrite merge_lookup in E.
      assert (Hin : In f (GatherFacts.fams_of (mf_name f) collected)).
      { apply fams_of_In. split; auto. split; auto. rewrite Forall_forall in Hs. specialize (Hs f Hf). unfold single in Hs. destruct (mf_metric f); discriminate. }
      destruct (GatherFacts.fams_of (mf_name f) collected); [destruct Hin | discriminate]. }
  assert (HND : NoDup (map mf_name M)) by (apply name_sorted_NoDup, merge_sorted).
  assert (Hkeys : map fst (fam_view M) = map mf_name M) by (unfold fam_view; rewrite map_map; reflexivity).
  unfold view_matches. rewrite !andb_true_iff. split; [split|].
  - apply Nat.eqb_eq. rewrite <- (map_length fst (fam_view M)), <- (map_length fst (tally names)), Hkeys.
    apply Permutation_length. apply NoDup_Permutation; auto; [apply tally_keys_NoDup|].
    intros n. rewrite tally_keys_In. split; [|apply HN]. intros H. apply in_map_iff in H as (x & <- & Hx). apply HM; auto.
  - rewrite Hkeys. apply nodup_str_NoDup. exact HND.
  - apply forallb_forall. intros nk Hnk. unfold fam_view in Hnk. apply in_map_iff in Hnk as (x & <- & Hx). cbn [fst snd].
    destruct (HM x Hx) as [Hin Hc]. rewrite tally_get. destruct (cnt (mf_name x) names =? 0) eqn:Ez.
    + apply N.eqb_eq, cnt_zero in Ez. contradiction.
    + rewrite Hc. apply N.eqb_refl.
Qed.
