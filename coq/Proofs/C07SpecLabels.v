(* Layer B1 of the C07/C14 spec proofs: the label pairs of the samples of library collectors.
   - [dwf d]: what Desc::new guarantees of a descriptor built from a const-label MAP (distinct keys);
   - [lpairs d vals]: the label pairs make_label_pairs gives a sample;
   - samples of one collector with different variable values have different value tuples;
   - samples of two collectors whose descriptors share the name, the const-label names and the
     variable names (up to order) have equally many labels, and equal value tuples only if the
     descriptors have the same id. *)
Require Import PV.Base.Prelude PV.Base.Fnv PV.Base.F64 PV.Base.StrFacts PV.Base.SortFacts.
Require Import PV.Model.Proto PV.Model.Desc PV.Model.Value.
Require Import PV.Proofs.DescFacts PV.Proofs.GatherFacts PV.Proofs.C07SpecGather.
From Coq Require Import Permutation Sorting.Sorted.
Open Scope N_scope.

Definition cn (d : Desc) : list str := map lp_name (d_const_pairs d).
Record dwf (d : Desc) : Prop := mkDwf {
  dwf_nodup : NoDup (cn d ++ d_vars d);
  dwf_sorted : sort_by lp_leb (d_const_pairs d) = d_const_pairs d;
  dwf_id : d_id d = fnv1a (id_preimage (d_fq_name d) (map lp_value (d_const_pairs d))) }.

Lemma cvals_cpairs consts : NoDup (map fst consts) -> cvals consts = map lp_value (cpairs consts).
Proof.
  intros ND. unfold cvals, cnames, cpairs.
  assert (E : sort_by str_leb (map fst consts) = map lp_name (sort_by lp_leb (map (fun kv : str * str => mkLP (fst kv) (snd kv)) consts))).
  { change lp_leb with (fun a b => str_leb (lp_name a) (lp_name b)). rewrite (sort_by_map' lp_name str_leb), map_map. reflexivity. }
  rewrite E, map_map. apply map_ext_in.
  intros p Hp. apply -> (sort_by_In lp_leb) in Hp. apply in_map_iff in Hp as ([k v] & <- & Hkv). cbn [lp_name lp_value fst snd].
  rewrite (alookup_NoDup_In k v consts ND Hkv). reflexivity.
Qed.
Lemma cpairs_names consts : Permutation (map lp_name (cpairs consts)) (map fst consts).
Proof.
  unfold cpairs. eapply Permutation_trans; [apply Permutation_map, sort_by_perm|]. rewrite map_map. cbn. reflexivity.
Qed.
Lemma desc_new_wf fq help vars consts d :
  NoDup (map fst consts) -> desc_new fq help vars consts = Some d ->
  dwf d /\ d_fq_name d = fq /\ d_help d = help /\ d_vars d = vars /\ d_const_pairs d = cpairs consts.
Proof.
  intros ND H.
  assert (Hex : exists d, desc_new fq help vars consts = Some d) by eauto.
  apply (desc_new_ok_iff fq help vars consts ND) in Hex as (_ & _ & _ & NDall).
  apply desc_new_inv in H as (_ & _ & _ & names & _ & ->). cbn. repeat split; auto; cbn.
  - unfold cn. cbn. eapply Permutation_NoDup; [|exact NDall]. apply Permutation_app_tail. apply Permutation_sym, cpairs_names.
  - unfold cpairs. apply sort_by_sorted_id. apply sort_by_sorted; [apply lp_leb_total|apply lp_leb_trans].
  - rewrite cvals_cpairs by auto. reflexivity.
Qed.

(* ---------- make_label_pairs ---------- *)
Definition zipped (d : Desc) (vals : list str) : list LabelPair :=
  map (fun nv => mkLP (fst nv) (snd nv)) (combine (d_vars d) vals).
Definition lpairs (d : Desc) (vals : list str) : list LabelPair :=
  if is_nil (d_vars d) then d_const_pairs d else sort_by lp_leb (zipped d vals ++ d_const_pairs d).
Lemma make_label_pairs_ok d vals ls :
  make_label_pairs d vals = Ok ls -> length vals = length (d_vars d) /\ ls = lpairs d vals.
Proof.
  unfold make_label_pairs, lpairs, lenN. destruct (N.of_nat (length (d_vars d)) =? N.of_nat (length vals)) eqn:E; cbn [negb]; [|discriminate].
  apply N.eqb_eq in E. apply Nat2N.inj in E.
  destruct (is_nil (d_vars d)) eqn:Ev; cbn [andb].
  - destruct (is_nil (d_const_pairs d)) eqn:Ec; intros H; inversion H; split; auto.
    destruct (d_const_pairs d); [reflexivity|discriminate].
  - intros H; inversion H; split; auto.
Qed.
Lemma lpairs_form d vals : dwf d -> length vals = length (d_vars d) -> lpairs d vals = sort_by lp_leb (zipped d vals ++ d_const_pairs d).
Proof.
  intros W L. unfold lpairs. destruct (d_vars d) as [|v vs] eqn:E; cbn [is_nil]; auto.
  unfold zipped. rewrite E. cbn [combine map app]. symmetry. apply (dwf_sorted _ W).
Qed.
Lemma zipped_names d vals : length vals = length (d_vars d) -> map lp_name (zipped d vals) = d_vars d.
Proof.
  intros L. unfold zipped. rewrite map_map. cbn [lp_name].
  revert vals L. induction (d_vars d) as [|v vs IH]; destruct vals as [|x vals]; cbn; try discriminate; auto.
  intros L. f_equal. apply IH. lia.
Qed.
Lemma zipped_values d vals : length vals = length (d_vars d) -> map lp_value (zipped d vals) = vals.
Proof.
  intros L. unfold zipped. rewrite map_map. cbn [lp_value].
  revert vals L. induction (d_vars d) as [|v vs IH]; destruct vals as [|x vals]; cbn; try discriminate; auto.
  intros L. f_equal. apply IH. lia.
Qed.
Lemma lpairs_length d vals : dwf d -> length vals = length (d_vars d) ->
  length (lpairs d vals) = (length (d_vars d) + length (d_const_pairs d))%nat.
Proof.
  intros W L. rewrite lpairs_form by auto. rewrite sort_by_length, app_length.
  rewrite <- (map_length lp_name (zipped d vals)), zipped_names by auto. reflexivity.
Qed.
Lemma lpairs_names d vals : dwf d -> length vals = length (d_vars d) ->
  map lp_name (lpairs d vals) = sort_by str_leb (d_vars d ++ cn d).
Proof.
  intros W L. rewrite lpairs_form by auto.
  change lp_leb with (fun a b => str_leb (lp_name a) (lp_name b)). rewrite (sort_by_map' lp_name str_leb).
  rewrite map_app, zipped_names by auto. reflexivity.
Qed.

(* the stable sort looks at the names only *)
Lemma insert_names_only x1 x2 : lp_name x1 = lp_name x2 -> forall s1 s2, map lp_name s1 = map lp_name s2 ->
  map lp_name (insert_by lp_leb x1 s1) = map lp_name (insert_by lp_leb x2 s2)
  /\ (map lp_value (insert_by lp_leb x1 s1) = map lp_value (insert_by lp_leb x2 s2) ->
      lp_value x1 = lp_value x2 /\ map lp_value s1 = map lp_value s2).
Proof.
  intros Ex. induction s1 as [|y1 s1 IH]; destruct s2 as [|y2 s2]; cbn [map]; try discriminate.
  - intros _. cbn. split; [congruence|]. intros H. inversion H. auto.
  - intros H. inversion H as [[Ey Es]]. cbn [insert_by].
    assert (T : lp_leb x1 y1 = lp_leb x2 y2) by (unfold lp_leb; rewrite Ex, Ey; reflexivity). rewrite T.
    destruct (lp_leb x2 y2); cbn [map].
    + split; [congruence|]. intros V. inversion V. split; congruence.
    + destruct (IH s2 Es) as [A B]. split; [congruence|]. intros V. inversion V. destruct (B H2). split; congruence.
Qed.
Lemma sort_names_only l1 : forall l2, map lp_name l1 = map lp_name l2 ->
  map lp_name (sort_by lp_leb l1) = map lp_name (sort_by lp_leb l2)
  /\ (map lp_value (sort_by lp_leb l1) = map lp_value (sort_by lp_leb l2) -> map lp_value l1 = map lp_value l2).
Proof.
  induction l1 as [|x1 l1 IH]; destruct l2 as [|x2 l2]; cbn [map]; try discriminate; auto.
  intros H. inversion H as [[Ex El]]. destruct (IH l2 El) as [A B]. cbn [sort_by fold_right].
  fold (sort_by lp_leb l1) (sort_by lp_leb l2). destruct (insert_names_only x1 x2 Ex _ _ A) as [C D].
  split; auto. intros V. destruct (D V) as [E1 E2]. f_equal; auto.
Qed.

(* samples of one collector: different variable values, different value tuples *)
Lemma lpairs_values_inj d vals1 vals2 : dwf d ->
  length vals1 = length (d_vars d) -> length vals2 = length (d_vars d) ->
  map lp_value (lpairs d vals1) = map lp_value (lpairs d vals2) -> vals1 = vals2.
Proof.
  intros W L1 L2. rewrite !lpairs_form by auto. intros V.
  assert (N : map lp_name (zipped d vals1 ++ d_const_pairs d) = map lp_name (zipped d vals2 ++ d_const_pairs d)).
  { rewrite !map_app, !zipped_names by auto. reflexivity. }
  destruct (sort_names_only _ _ N) as [_ B]. specialize (B V). rewrite !map_app in B. apply app_inv_tail in B.
  rewrite !zipped_values in B by auto. exact B.
Qed.

(* ---------- two collectors under one name ---------- *)
(* what registration's dimension-hash check guarantees absent an FNV collision (same help, same
   label names), sharpened by: the SAME names are constant in both *)
Definition desc_compat (d d' : Desc) : bool :=
  str_eqb (d_help d) (d_help d')
  && list_eqb str_eqb (cn d) (cn d')
  && list_eqb str_eqb (sort_by str_leb (d_vars d)) (sort_by str_leb (d_vars d')).
Lemma list_str_eqb_eq a b : list_eqb str_eqb a b = true <-> a = b.
Proof. rewrite (kernel_list _ _ kernel_str a b), !map_id. tauto. Qed.
Lemma desc_compat_spec d d' : desc_compat d d' = true <->
  d_help d = d_help d' /\ cn d = cn d' /\ sort_by str_leb (d_vars d) = sort_by str_leb (d_vars d').
Proof. unfold desc_compat. rewrite !andb_true_iff, str_eqb_eq, !list_str_eqb_eq. tauto. Qed.
Lemma desc_compat_refl d : desc_compat d d = true.
Proof. apply desc_compat_spec. auto. Qed.
Lemma desc_compat_sym d d' : desc_compat d d' = true -> desc_compat d' d = true.
Proof. rewrite !desc_compat_spec. intros (A & B & C). auto. Qed.

Lemma pairs_eq_of_names_values (a : list LabelPair) : forall b, map lp_name a = map lp_name b -> map lp_value a = map lp_value b -> a = b.
Proof.
  induction a as [|[n v] a IH]; destruct b as [|[n' v'] b]; cbn; try discriminate; auto.
  intros H1 H2. inversion H1. inversion H2. subst. f_equal. auto.
Qed.
Lemma same_names_subset_eq (a : list LabelPair) : forall b, map lp_name a = map lp_name b -> NoDup (map lp_name b) ->
  (forall p, In p a -> In p b) -> a = b.
Proof.
  induction a as [|p a IH]; destruct b as [|q b]; cbn [map]; try discriminate; auto.
  intros H ND Sub. inversion H as [[En Et]]. inversion ND as [|? ? Nq NDb]; subst.
  assert (p = q).
  { destruct (Sub p (or_introl eq_refl)) as [E|Hin]; auto. exfalso. apply Nq. rewrite <- En. apply in_map. exact Hin. }
  subst q. f_equal. apply IH; auto. intros r Hr. destruct (Sub r (or_intror Hr)) as [E|Hin]; auto.
  exfalso. subst r. apply Nq. rewrite <- Et. apply in_map. exact Hr.
Qed.

Lemma compat_vars_perm d1 d2 : desc_compat d1 d2 = true -> Permutation (d_vars d1) (d_vars d2).
Proof.
  intros C. apply desc_compat_spec in C as (_ & _ & C).
  eapply Permutation_trans; [apply Permutation_sym, (sort_by_perm str_leb)|]. rewrite C. apply sort_by_perm.
Qed.
Lemma compat_label_count d1 d2 vals1 vals2 : dwf d1 -> dwf d2 -> desc_compat d1 d2 = true ->
  length vals1 = length (d_vars d1) -> length vals2 = length (d_vars d2) ->
  length (lpairs d1 vals1) = length (lpairs d2 vals2).
Proof.
  intros W1 W2 C L1 L2. rewrite !lpairs_length by auto. rewrite (Permutation_length (compat_vars_perm _ _ C)).
  apply desc_compat_spec in C as (_ & C & _). unfold cn in C. apply (f_equal (@length str)) in C. rewrite !map_length in C. lia.
Qed.
Lemma compat_same_values_same_consts d1 d2 vals1 vals2 : dwf d1 -> dwf d2 -> desc_compat d1 d2 = true ->
  length vals1 = length (d_vars d1) -> length vals2 = length (d_vars d2) ->
  map lp_value (lpairs d1 vals1) = map lp_value (lpairs d2 vals2) -> d_const_pairs d1 = d_const_pairs d2.
Proof.
  intros W1 W2 C L1 L2 V. pose proof (compat_vars_perm _ _ C) as Pv. apply desc_compat_spec in C as (_ & Cn & _).
  assert (N : map lp_name (lpairs d1 vals1) = map lp_name (lpairs d2 vals2)).
  { rewrite !lpairs_names by auto. rewrite Cn. apply sort_strs_perm_inv. apply Permutation_app_tail. exact Pv. }
  pose proof (pairs_eq_of_names_values _ _ N V) as E.
  apply same_names_subset_eq; auto.
  - pose proof (dwf_nodup _ W2) as ND. apply NoDup_app_l in ND. exact ND.
  - intros p Hp.
    assert (Hin : In p (lpairs d2 vals2)).
    { rewrite <- E, lpairs_form by auto. apply sort_by_In. apply in_or_app. right. exact Hp. }
    rewrite lpairs_form in Hin by auto. apply -> (sort_by_In lp_leb) in Hin. apply in_app_or in Hin as [Hz|Hc]; auto.
    exfalso. assert (Hv : In (lp_name p) (d_vars d2)) by (rewrite <- (zipped_names d2 vals2) by auto; apply in_map; exact Hz).
    assert (Hc : In (lp_name p) (cn d2)) by (rewrite <- Cn; apply in_map; exact Hp).
    exact (NoDup_app_disj _ _ _ (dwf_nodup _ W2) Hc Hv).
Qed.
(* equal value tuples only if the two descriptors are the same as far as their id goes *)
Lemma compat_same_values_same_id d1 d2 vals1 vals2 : dwf d1 -> dwf d2 -> d_fq_name d1 = d_fq_name d2 -> desc_compat d1 d2 = true ->
  length vals1 = length (d_vars d1) -> length vals2 = length (d_vars d2) ->
  map lp_value (lpairs d1 vals1) = map lp_value (lpairs d2 vals2) -> d_id d1 = d_id d2.
Proof.
  intros W1 W2 En C L1 L2 V. rewrite (dwf_id _ W1), (dwf_id _ W2), En.
  rewrite (compat_same_values_same_consts d1 d2 vals1 vals2); auto.
Qed.
