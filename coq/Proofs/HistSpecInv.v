(* The simulation invariant between the executable spec's bookkeeping (Spec/SpecC02.sst, driven by call / return
   markers) and the instrumented model run (Proofs/HistLog.ost), and its preservation by every accepted event
   except the three kinds of return markers (those are in Proofs/HistSpec.v). *)
Require Import PV.Base.Prelude PV.Base.F64 PV.Model.Conc PV.Model.HistConc PV.Model.HistExec PV.Spec.SpecC02.
Require Import PV.Proofs.HistConcLemmas PV.Proofs.HistConcInv PV.Proofs.HistConcProof PV.Proofs.HistConcOwn.
Require Import PV.Proofs.HistExecSound PV.Proofs.HistExecInv PV.Proofs.HistConcThms.
Require Import PV.Proofs.HistValues PV.Proofs.HistLog PV.Proofs.HistReads PV.Proofs.HistMain.
Require Import PV.Proofs.HistSpecArith PV.Proofs.HistSpecSim.
From Coq Require Import ZArith Lia Bool Arith Permutation.
Open Scope Z_scope.

Definition cvals (t : nat) (obs : list ocall) : list (list Z) := map snd (filter (fun p => Nat.eqb (fst p) t) (tv obs)).
Definition claimers (o : ost) (s : sst) : list nat := filter (fun t : nat => is_claim (thr (base (ox o)) t)) (s_pending s).
Definition pmask (o : ost) (k : nat) : Z := mask_of (prefix_values o k).
Definition evals (e : event) : list Z := match call_vals e with Some vs => vs | None => [] end.

Record J (o : ost) (s : sst) : Prop := {
  J_pend_nd : NoDup (s_pending s);
  J_pend : forall t, In t (s_pending s) <-> ax (ox o) t <> ANone;
  J_perm : Permutation (all_vals (s_obs s)) (concat (vlog o) ++ concat (map (pend o) (claimers o s)));
  J_ncalls : forall t, length (cvals t (s_obs s)) = ncalls o t;
  J_tick : forall i t q, nth_error (owners o) i = Some (t, q) ->
             exists vs, nth_error (cvals t (s_obs s)) (q - 1) = Some vs /\ nth_error (vlog o) i = Some vs;
  J_unclaimed : forall t, is_claim (thr (base (ox o)) t) = true ->
             nth_error (cvals t (s_obs s)) (ncalls o t - 1) = Some (pend o t);
  J_done : forall oc, In oc (s_obs s) -> oc_done oc = true -> exists i, nth_error (vlog o) i = Some (oc_vals oc);
  J_nonempty : forall p, In p (tv (s_obs s)) -> snd p <> [];
  J_col : forall cc, In cc (s_col s) -> exists l0, kind_of (ax (ox o) (cc_t cc)) = KCol l0 /\ (l0 <= length (vlog o))%nat
             /\ (forall vs, In vs (cc_done_at_call cc) -> exists i, (i < l0)%nat /\ nth_error (vlog o) i = Some vs)
             /\ (forall m, In m (cc_prev cc) -> exists k1, (k1 <= l0)%nat /\ m = pmask o k1)
             /\ (cc_quiet cc = true -> length (vlog o) = l0 /\ s_pending s = [cc_t cc]);
  J_col_ex : forall t l0, kind_of (ax (ox o) t) = KCol l0 -> exists cc, In cc (s_col s) /\ cc_t cc = t;
  J_sums : forall m, In m (s_sums s) -> exists k1, (k1 <= length (vlog o))%nat /\ m = pmask o k1;
  J_reads_kind : forall t q, In (t, q) (s_reads s) -> kind_of (ax (ox o) t) = KCount \/ kind_of (ax (ox o) t) = KSum;
  J_reads : forall t, In (t, true) (s_reads s) ->
             s_pending s = [t]
             /\ (forall v, ax (ox o) t = ASCount (Some v) -> v = Z.of_nat (length (all_vals (s_obs s))))
             /\ (forall a h v u, ax (ox o) t = ASSum a h (Some v) u -> v = zsum (all_vals (s_obs s)))
}.

Section I.
Variable bounds : list Z.
Notation B := (length bounds).

(* what holds of every state of the instrumented run *)
Definition RI (o : ost) : Prop :=
  Good bounds (ox o) /\ SInv (ox o) /\ OInv bounds o /\ exists es0, orun bounds oinit es0 = Some o.

Lemma RI_init : RI oinit.
Proof. split; [apply good_init|]. split; [apply sinv_init|]. split; [apply oinv_init|]. exists []. reflexivity. Qed.

Lemma orun_snoc es : forall o o1 e o2, orun bounds o es = Some o1 -> ostep bounds o1 e = Some o2 -> orun bounds o (es ++ [e]) = Some o2.
Proof.
  induction es as [|e0 es IH]; intros o o1 e o2 H1 H2; cbn in *.
  - inversion H1; subst. rewrite H2. reflexivity.
  - destruct (ostep bounds o e0); [eauto|discriminate].
Qed.

Lemma RI_step o e o' : RI o -> ostep bounds o e = Some o' -> RI o'.
Proof.
  intros (G & S & OI & es0 & Hr) H.
  assert (Hx : hexec bounds (ox o) e = Some (ox o')).
  { unfold ostep in H. destruct (hexec bounds (ox o) e); [|discriminate]. inversion H; reflexivity. }
  split; [eapply (good_step bounds od_sc od_sc_ok); eauto|]. split; [destruct G as (I & _); eapply hexec_sinv; eauto|].
  split; [eapply ostep_inv; eauto|]. exists (es0 ++ [e]). eapply orun_snoc; eauto.
Qed.

Lemma J_init : J oinit sinit.
Proof.
  constructor; cbn.
  all: try (intros; contradiction).
  all: try (intros; discriminate).
  all: try constructor.
  all: try reflexivity.
  - intros []. 
  - intros H. exfalso. apply H. reflexivity.
  - intros i t q H. destruct i; discriminate.
Qed.

(* ---- fields of the next instrumented state ---- *)
Lemma ostep_fields o e o' : ostep bounds o e = Some o' ->
  hexec bounds (ox o) e = Some (ox o')
  /\ ncalls o' = match call_vals e with Some _ => fupd (ncalls o) (ev_tid e) (S (ncalls o (ev_tid e))) | None => ncalls o end
  /\ pend o' = match call_vals e with Some vs => fupd (pend o) (ev_tid e) vs | None => pend o end
  /\ (length (recs (base (ox o'))) = length (recs (base (ox o))) -> vlog o' = vlog o /\ owners o' = owners o)
  /\ (length (recs (base (ox o'))) <> length (recs (base (ox o))) ->
      vlog o' = vlog o ++ [pend o' (ev_tid e)] /\ owners o' = owners o ++ [(ev_tid e, ncalls o' (ev_tid e))]).
Proof.
  unfold ostep. destruct (hexec bounds (ox o) e) as [x'|]; [|discriminate]. intros H. inversion H; subst; clear H. cbn [ox ncalls pend vlog owners].
  split; [reflexivity|]. split; [reflexivity|]. split; [reflexivity|]. split.
  - intros E. rewrite E, Nat.eqb_refl. cbn. auto.
  - intros E. apply Nat.eqb_neq in E. rewrite E. cbn. auto.
Qed.

Lemma pmask_stable o o' ext k : vlog o' = vlog o ++ ext -> (k <= length (vlog o))%nat -> pmask o' k = pmask o k.
Proof. intros E Hk. unfold pmask, prefix_values. rewrite E, firstn_app. replace (k - length (vlog o))%nat with O by lia. cbn. rewrite app_nil_r. reflexivity. Qed.

Lemma nth_error_ext {A} (l ext : list A) i x : nth_error l i = Some x -> nth_error (l ++ ext) i = Some x.
Proof. intros H. rewrite nth_error_app1; auto. apply nth_error_Some. congruence. Qed.

Lemma cvals_app t a b : cvals t (a ++ b) = cvals t a ++ cvals t b.
Proof. unfold cvals, tv. rewrite map_app, filter_app, map_app. reflexivity. Qed.
Lemma cvals_single t oc : cvals t [oc] = if Nat.eqb (oc_t oc) t then [oc_vals oc] else [].
Proof. unfold cvals, tv. cbn. destruct (Nat.eqb (oc_t oc) t); reflexivity. Qed.
Lemma tv_app a b : tv (a ++ b) = tv a ++ tv b.
Proof. unfold tv. apply map_app. Qed.
Lemma all_vals_app a b : all_vals (a ++ b) = all_vals a ++ all_vals b.
Proof. unfold all_vals. apply flat_map_app. Qed.

(* a thread whose last call is claimed: every one of its calls owns a ticket carrying its values *)
Lemma call_has_ticket o s t vs : OInv bounds o -> J o s -> is_claim (thr (base (ox o)) t) = false ->
  In vs (cvals t (s_obs s)) -> exists i, nth_error (vlog o) i = Some vs.
Proof.
  intros OI Jv Hc Hin. apply In_nth_error in Hin as [p Hp].
  assert (Hlt : (p < ncalls o t)%nat) by (rewrite <- (J_ncalls _ _ Jv t); apply nth_error_Some; congruence).
  destruct (O_all _ _ OI t (S p)) as [i Hi]. { unfold claimed. rewrite Hc. lia. }
  destruct (J_tick _ _ Jv _ _ _ Hi) as (vs' & H1 & H2). replace (S p - 1)%nat with p in H1 by lia. exists i. congruence.
Qed.


Lemma quiet_perm o s t : J o s -> s_pending s = [t] -> is_claim (thr (base (ox o)) t) = false ->
  Permutation (all_vals (s_obs s)) (concat (vlog o)).
Proof.
  intros Jv Hp Hc. pose proof (J_perm _ _ Jv) as P. unfold claimers in P. rewrite Hp in P. cbn [filter] in P. rewrite Hc in P.
  cbn in P. rewrite app_nil_r in P. exact P.
Qed.

Lemma recs_all_totals o : OInv bounds o ->
  sumf r_cnt (recs (base (ox o))) = Z.of_nat (length (concat (vlog o))) /\ sumf (full O) (recs (base (ox o))) = zsum (concat (vlog o)).
Proof.
  intros OI. pose proof (vals_forall2 bounds o (length (vlog o)) OI) as F. rewrite firstn_all in F.
  rewrite (O_vlen _ _ OI), firstn_all in F. destruct (recs_totals bounds _ _ F) as [H1 H2]. split; auto. apply (H2 O).
Qed.

(* ---- an internal event that claims no ticket ---- *)
Lemma J_internal_other o s e o' t :
  RI o -> J o s -> ostep bounds o e = Some o' -> ev_tid e = t ->
  (forall r, e <> ERet t r) -> (forall c, e <> ECall t c) ->
  call_vals e = None -> quiet_change (base (ox o)) (base (ox o')) ->
  kind_of (ax (ox o') t) = kind_of (ax (ox o) t) -> kind_of (ax (ox o) t) <> KNone -> (forall u, u <> t -> ax (ox o') u = ax (ox o) u) ->
  J o' s.
Proof.
  intros (G & S & OI & _) Jv Hs Ht Hnr Hnc Hcv (Hlen & Hrq & Htq) Hk Hnn Hax.
  destruct (ostep_fields _ _ _ Hs) as (Hx & Hnc' & Hpd & Hsame & _). rewrite Hcv in Hnc', Hpd. destruct (Hsame Hlen) as [Hv Ho].
  destruct G as (I & X & Ow).
  assert (Hcl : forall u, is_claim (thr (base (ox o')) u) = is_claim (thr (base (ox o)) u)).
  { intros u. specialize (Htq u). destruct (is_claim (thr (base (ox o')) u)) eqn:E1; destruct (is_claim (thr (base (ox o)) u)) eqn:E2; auto.
    - rewrite Htq in E1 by auto. congruence.
    - rewrite Htq in E1 by auto. congruence. }
  assert (Hclm : claimers o' s = claimers o s) by (unfold claimers; apply filter_ext; auto).
  assert (Hnone : forall u, ax (ox o') u <> ANone <-> ax (ox o) u <> ANone).
  { intros u. destruct (Nat.eq_dec u t) as [->|Hu]; [|rewrite Hax by auto; tauto].
    split; intros _ E; [rewrite E in Hnn; apply Hnn; reflexivity|rewrite E in Hk; cbn in Hk; apply Hnn; auto]. }
  assert (Hkind : forall u, kind_of (ax (ox o') u) = kind_of (ax (ox o) u)).
  { intros u. destruct (Nat.eq_dec u t) as [->|Hu]; [auto|rewrite Hax by auto; reflexivity]. }
  constructor.
  - apply (J_pend_nd _ _ Jv).
  - intros u. rewrite (J_pend _ _ Jv u). symmetry. apply Hnone.
  - rewrite Hv, Hpd, Hclm. apply (J_perm _ _ Jv).
  - intros u. rewrite Hnc'. apply (J_ncalls _ _ Jv).
  - rewrite Ho, Hv. apply (J_tick _ _ Jv).
  - intros u Hu. rewrite Hcl in Hu. rewrite Hnc', Hpd. apply (J_unclaimed _ _ Jv); auto.
  - rewrite Hv. apply (J_done _ _ Jv).
  - apply (J_nonempty _ _ Jv).
  - intros cc Hcc. rewrite Hkind, Hv. destruct (J_col _ _ Jv cc Hcc) as (l0 & A1 & A2 & A3 & A4 & A5). exists l0. repeat split; auto.
    + intros m Hm. destruct (A4 m Hm) as (k1 & B1 & B2). exists k1. split; auto. unfold pmask, prefix_values in *. rewrite Hv. auto.
    + apply A5; auto.
    + apply A5; auto.
  - intros u l0. rewrite Hkind. apply (J_col_ex _ _ Jv).
  - intros m Hm. rewrite Hv. destruct (J_sums _ _ Jv m Hm) as (k1 & B1 & B2). exists k1. split; auto. unfold pmask, prefix_values in *. rewrite Hv. auto.
  - intros u q. rewrite Hkind. apply (J_reads_kind _ _ Jv).
  - intros u Hu. destruct (J_reads _ _ Jv u Hu) as (P1 & P2 & P3). split; auto.
    destruct (Nat.eq_dec u t) as [->|Hne]; [|rewrite Hax by auto; auto].
    assert (Hidle : thr (base (ox o)) t = Idle).
    { apply (X_reads _ X). destruct (J_reads_kind _ _ Jv _ _ Hu) as [Hkk|Hkk]; destruct (ax (ox o) t); try discriminate Hkk; eauto 8. }
    assert (Hnc0 : is_claim (thr (base (ox o)) t) = false) by (rewrite Hidle; reflexivity).
    pose proof (quiet_perm _ _ _ Jv P1 Hnc0) as Pm.
    destruct (recs_all_totals o OI) as [T1 T2].
    destruct (hexec_readvals bounds _ _ _ t Hx Ht Hnr Hnc) as [R1 R2]. split.
    + intros v Hv'. destruct (R1 v Hv') as [E|E]; [auto|].
      rewrite (hexec_load_count bounds _ _ _ t v I Hx Ht E Hv'), T1. f_equal. symmetry. apply Permutation_length. auto.
    + intros a h v u Hv'. destruct (R2 a h v u Hv') as [(a' & u' & E)|E]; [eapply P3; eauto|].
      assert (Hq : forall w i, thr (base (ox o)) w <> OWork i).
      { intros w i. destruct (Nat.eq_dec w t) as [->|Hw]; [rewrite Hidle; discriminate|].
        assert (ax (ox o) w = ANone). { destruct (ax (ox o) w) eqn:Ew; auto; exfalso; assert (In w (s_pending s)) by (apply (J_pend _ _ Jv); rewrite Ew; discriminate); rewrite P1 in H; destruct H as [H|[]]; auto. }
        rewrite (X_none _ X w H). discriminate. }
      rewrite (hexec_load_sum bounds _ _ _ t h v I Ow S Hx Ht E (ex_intro _ a (ex_intro _ u Hv')) Hq), T2. symmetry. apply zsum_perm. auto.
Qed.


(* ---- the claim: one new ticket ---- *)
Lemma J_claim o s e o' t cc ws :
  RI o -> J o s -> ostep bounds o e = Some o' -> ev_tid e = t -> call_vals e = None ->
  thr (base (ox o)) t = OClaim cc ws ->
  recs (base (ox o')) = recs (base (ox o)) ++ [mkrec cc ws (hot (base (ox o)))] ->
  thr (base (ox o')) = set_thr (base (ox o)) t (OWork (length (recs (base (ox o))))) ->
  kind_of (ax (ox o') t) = kind_of (ax (ox o) t) -> (forall u, u <> t -> ax (ox o') u = ax (ox o) u) ->
  J o' s.
Proof.
  intros (G & S & OI & _) Jv Hs Ht Hcv Hcl Hrecs Hthr Hk Hax.
  destruct (ostep_fields _ _ _ Hs) as (Hx & Hnc' & Hpd & _ & Hgrow). rewrite Hcv in Hnc', Hpd.
  destruct Hgrow as [Hv Ho]. { rewrite Hrecs, app_length. cbn. lia. } rewrite Ht, Hpd in Hv. rewrite Ht, Hnc' in Ho.
  destruct G as (I & X & Ow).
  assert (Hobs : ax (ox o) t = AObs) by (apply (X_obs _ X); left; eauto).
  assert (Hkt : kind_of (ax (ox o) t) = KObs) by (rewrite Hobs; reflexivity).
  assert (Hkind : forall u, kind_of (ax (ox o') u) = kind_of (ax (ox o) u)).
  { intros u. destruct (Nat.eq_dec u t) as [->|Hu]; [auto|rewrite Hax by auto; reflexivity]. }
  assert (Hnone : forall u, ax (ox o') u <> ANone <-> ax (ox o) u <> ANone).
  { intros u. split; intros H E; apply H; specialize (Hkind u); rewrite E in Hkind; cbn in Hkind;
      [destruct (ax (ox o') u); try discriminate; reflexivity|destruct (ax (ox o) u); try discriminate; reflexivity]. }
  assert (Htp : In t (s_pending s)) by (apply (J_pend _ _ Jv); rewrite Hobs; discriminate).
  assert (Hclu : forall u, u <> t -> is_claim (thr (base (ox o')) u) = is_claim (thr (base (ox o)) u)).
  { intros u Hu. rewrite Hthr. unfold set_thr. destruct (Nat.eqb_spec u t); [contradiction|reflexivity]. }
  assert (Hclt : is_claim (thr (base (ox o')) t) = false) by (rewrite Hthr; unfold set_thr; rewrite Nat.eqb_refl; reflexivity).
  assert (Hnotq : forall u, s_pending s = [u] -> u = t) by (intros u Hp; rewrite Hp in Htp; destruct Htp as [?|[]]; auto).
  constructor.
  - apply (J_pend_nd _ _ Jv).
  - intros u. rewrite (J_pend _ _ Jv u). symmetry. apply Hnone.
  - destruct (filter_switch_off (fun u => is_claim (thr (base (ox o)) u)) (fun u => is_claim (thr (base (ox o')) u)) t (s_pending s)
                (J_pend_nd _ _ Jv) Htp) as (l1 & l2 & E1 & E2); auto. { rewrite Hcl; reflexivity. }
    pose proof (J_perm _ _ Jv) as P. unfold claimers in *. rewrite E1 in P. rewrite E2, Hv, Hpd.
    eapply Permutation_trans; [exact P|]. rewrite !map_app, !concat_app. cbn [map concat]. rewrite app_nil_r, <- !app_assoc.
    apply Permutation_app_head. rewrite !app_assoc. apply Permutation_app_tail. apply Permutation_app_comm.
  - intros u. rewrite Hnc'. apply (J_ncalls _ _ Jv).
  - intros i u q Hi. rewrite Ho in Hi. rewrite Hv. apply nth_error_snoc in Hi as [[Hl Hi]|[Hl Hi]].
    + destruct (J_tick _ _ Jv _ _ _ Hi) as (vs & A1 & A2). exists vs. split; auto. apply nth_error_ext; auto.
    + inversion Hi; subst u q. exists (pend o t). split; [apply (J_unclaimed _ _ Jv); rewrite Hcl; reflexivity|].
      rewrite Hl, (O_len _ _ OI), <- (O_vlen _ _ OI), nth_error_app2, Nat.sub_diag by lia. reflexivity.
  - intros u Hu. destruct (Nat.eq_dec u t) as [->|Hne]; [congruence|]. rewrite Hclu in Hu by auto. rewrite Hnc', Hpd. apply (J_unclaimed _ _ Jv); auto.
  - intros oc Hoc Hd. destruct (J_done _ _ Jv oc Hoc Hd) as [i Hi]. exists i. rewrite Hv. apply nth_error_ext; auto.
  - apply (J_nonempty _ _ Jv).
  - intros c Hc. rewrite Hkind. destruct (J_col _ _ Jv c Hc) as (l0 & A1 & A2 & A3 & A4 & A5). exists l0. split; auto. split; [rewrite Hv, app_length; lia|].
    split; [|split].
    + intros vs Hvs. destruct (A3 vs Hvs) as (i & B1 & B2). exists i. split; auto. rewrite Hv. apply nth_error_ext; auto.
    + intros m Hm. destruct (A4 m Hm) as (k1 & B1 & B2). exists k1. split; auto. rewrite (pmask_stable o o' _ k1 Hv); auto. lia.
    + intros Hq. exfalso. destruct (A5 Hq) as [_ Hp]. rewrite (Hnotq _ Hp) in A1. congruence.
  - intros u l0. rewrite Hkind. apply (J_col_ex _ _ Jv).
  - intros m Hm. destruct (J_sums _ _ Jv m Hm) as (k1 & B1 & B2). exists k1. split; [rewrite Hv, app_length; lia|]. rewrite (pmask_stable o o' _ k1 Hv); auto.
  - intros u q. rewrite Hkind. apply (J_reads_kind _ _ Jv).
  - intros u Hu. exfalso. destruct (J_reads _ _ Jv u Hu) as (P1 & _). pose proof (Hnotq _ P1); subst u.
    destruct (J_reads_kind _ _ Jv _ _ Hu); congruence.
Qed.


(* ---- invocations ---- *)
Lemma sstep_obs_call s t c vs : call_vals (ECall t c) = Some vs ->
  sstep bounds s (ECall t c) =
  {| s_obs := s_obs s ++ [{| oc_t := t; oc_vals := vs; oc_done := false |}]; s_col := s_col (disturb s t); s_sums := s_sums s;
     s_pending := t :: s_pending s; s_reads := s_reads (disturb s t); s_ok := s_ok s |}.
Proof.
  destruct c; cbn [call_vals]; intros H; try discriminate H.
  - destruct (z_of_bits bits) as [v|] eqn:E; [|discriminate]. inversion H; subst. unfold sstep. rewrite E. reflexivity.
  - unfold sstep. rewrite zvals_bits_vals, H. reflexivity.
Qed.

Lemma disturb_col s t cc' : In cc' (s_col (disturb s t)) ->
  exists cc, In cc (s_col s) /\ cc_t cc' = cc_t cc /\ cc_done_at_call cc' = cc_done_at_call cc /\ cc_prev cc' = cc_prev cc
             /\ (cc_quiet cc' = true -> cc_t cc = t /\ cc_quiet cc = true).
Proof.
  cbn [disturb s_col]. intros H. apply in_map_iff in H as (cc & E & Hc). exists cc. split; auto.
  destruct (Nat.eqb_spec (cc_t cc) t); subst cc'; cbn; repeat split; auto; discriminate.
Qed.
Lemma disturb_col_ex s t cc : In cc (s_col s) -> exists cc', In cc' (s_col (disturb s t)) /\ cc_t cc' = cc_t cc.
Proof.
  intros H. cbn [disturb s_col]. eexists. split; [apply in_map; eauto|]. destruct (Nat.eqb (cc_t cc) t); reflexivity.
Qed.
Lemma disturb_reads s t u q : In (u, q) (s_reads (disturb s t)) ->
  exists q0, In (u, q0) (s_reads s) /\ (q = true -> u = t /\ q0 = true).
Proof.
  cbn [disturb s_reads]. intros H. apply in_map_iff in H as ([u0 q0] & E & Hr). cbn [fst] in E.
  destruct (Nat.eqb_spec u0 t).
  - inversion E; subst. exists q. split; auto.
  - inversion E; subst. exists q0. split; auto. discriminate.
Qed.

Lemma pmask_same o o' k : vlog o' = vlog o -> pmask o' k = pmask o k.
Proof. intros E. unfold pmask, prefix_values. rewrite E. reflexivity. Qed.

Lemma J_call_obs o s t c vs o' cc ws :
  RI o -> J o s -> ostep bounds o (ECall t c) = Some o' -> call_vals (ECall t c) = Some vs -> vs <> [] ->
  recs (base (ox o')) = recs (base (ox o)) -> thr (base (ox o')) = set_thr (base (ox o)) t (OClaim cc ws) ->
  ax (ox o) t = ANone -> ax (ox o') t = AObs -> (forall u, u <> t -> ax (ox o') u = ax (ox o) u) ->
  J o' (sstep bounds s (ECall t c)).
Proof.
  intros (G & SI & OI & _) Jv Hs Hcv Hne Hrecs Hthr Hat Hat' Hax.
  destruct (ostep_fields _ _ _ Hs) as (Hx & Hnc' & Hpd & Hsame & _). rewrite Hcv in Hnc', Hpd. cbn [ev_tid] in Hnc', Hpd.
  destruct Hsame as [Hv Ho]; [rewrite Hrecs; reflexivity|].
  rewrite (sstep_obs_call s t c vs Hcv).
  set (new := {| oc_t := t; oc_vals := vs; oc_done := false |}).
  assert (Htp : ~ In t (s_pending s)) by (intros H; apply (J_pend _ _ Jv) in H; auto).
  assert (Hclu : forall u, u <> t -> is_claim (thr (base (ox o')) u) = is_claim (thr (base (ox o)) u)).
  { intros u Hu. rewrite Hthr. unfold set_thr. destruct (Nat.eqb_spec u t); [contradiction|reflexivity]. }
  assert (Hclt : is_claim (thr (base (ox o')) t) = true) by (rewrite Hthr; unfold set_thr; rewrite Nat.eqb_refl; reflexivity).
  assert (Hcv_u : forall u, cvals u (s_obs s ++ [new]) = cvals u (s_obs s) ++ (if Nat.eqb t u then [vs] else [])).
  { intros u. rewrite cvals_app, cvals_single. reflexivity. }
  assert (Hkne : forall u, kind_of (ax (ox o) u) <> KNone -> u <> t) by (intros u H ->; rewrite Hat in H; apply H; reflexivity).
  constructor; cbn [s_obs s_col s_sums s_pending s_reads].
  - constructor; auto. apply (J_pend_nd _ _ Jv).
  - intros u. cbn [In]. destruct (Nat.eq_dec u t) as [->|Hu].
    + rewrite Hat'. split; [discriminate|auto].
    + rewrite Hax by auto. rewrite <- (J_pend _ _ Jv u). split; [intros [->|H]; [contradiction|auto]|auto].
  - unfold claimers. cbn [s_pending filter]. rewrite Hclt.
    assert (E : filter (fun u : nat => is_claim (thr (base (ox o')) u)) (s_pending s) = claimers o s).
    { unfold claimers. apply filter_ext_in. intros u Hu. apply Hclu. intros ->. contradiction. }
    rewrite E. cbn [map concat]. rewrite Hpd. unfold fupd at 1. rewrite Nat.eqb_refl.
    assert (E2 : map (fupd (pend o) t vs) (claimers o s) = map (pend o) (claimers o s)).
    { apply map_ext_in. intros u Hu. unfold fupd. destruct (Nat.eqb_spec u t); [|reflexivity]. subst. exfalso. apply Htp. unfold claimers in Hu. apply filter_In in Hu. tauto. }
    rewrite E2, Hv, all_vals_app. unfold all_vals at 2. cbn [flat_map new oc_vals]. rewrite app_nil_r.
    eapply Permutation_trans; [apply Permutation_app_tail; apply (J_perm _ _ Jv)|].
    rewrite <- app_assoc. apply Permutation_app_head. apply Permutation_app_comm.
  - intros u. rewrite Hcv_u, app_length, (J_ncalls _ _ Jv u), Hnc'. unfold fupd. rewrite (Nat.eqb_sym t u). destruct (Nat.eqb_spec u t); [subst; cbn; lia|cbn; lia].
  - intros i u q Hi. rewrite Ho in Hi. rewrite Hv. destruct (J_tick _ _ Jv _ _ _ Hi) as (ws0 & A1 & A2). exists ws0. split; auto.
    rewrite Hcv_u. apply nth_error_ext; auto.
  - intros u Hu. rewrite Hcv_u, Hnc', Hpd. unfold fupd. destruct (Nat.eqb_spec u t).
    + subst. rewrite Nat.eqb_refl. replace (S (ncalls o t) - 1)%nat with (length (cvals t (s_obs s))) by (rewrite (J_ncalls _ _ Jv t); lia).
      rewrite nth_error_app2, Nat.sub_diag by lia. reflexivity.
    + rewrite Hclu in Hu by auto. assert (Nat.eqb t u = false) as -> by (apply Nat.eqb_neq; auto). rewrite app_nil_r. apply (J_unclaimed _ _ Jv); auto.
  - intros oc Hoc Hd. rewrite Hv. apply in_app_iff in Hoc as [Hoc|[<-|[]]]; [apply (J_done _ _ Jv); auto|discriminate].
  - intros p Hp. rewrite tv_app in Hp. apply in_app_iff in Hp as [Hp|[<-|[]]]; [apply (J_nonempty _ _ Jv); auto|exact Hne].
  - intros c' Hc'. destruct (disturb_col _ _ _ Hc') as (c0 & Hc0 & E1 & E2 & E3 & E4).
    destruct (J_col _ _ Jv c0 Hc0) as (l0 & A1 & A2 & A3 & A4 & A5).
    assert (Hct : cc_t c0 <> t) by (apply Hkne; rewrite A1; discriminate).
    exists l0. rewrite E1, E2, E3, Hv, Hax by auto. split; auto. split; auto. split; auto. split.
    + intros m Hm. destruct (A4 m Hm) as (k1 & B1 & B2). exists k1. split; auto. rewrite (pmask_same o o'); auto.
    + intros Hq. exfalso. destruct (E4 Hq). contradiction.
  - intros u l0 Hu. assert (u <> t) by (intros ->; rewrite Hat' in Hu; discriminate). rewrite Hax in Hu by auto.
    destruct (J_col_ex _ _ Jv u l0 Hu) as (c0 & Hc0 & E). destruct (disturb_col_ex s t c0 Hc0) as (c' & H1 & H2). exists c'. split; auto. congruence.
  - intros m Hm. destruct (J_sums _ _ Jv m Hm) as (k1 & B1 & B2). exists k1. rewrite Hv. split; auto. rewrite (pmask_same o o'); auto.
  - intros u q Hu. destruct (disturb_reads _ _ _ _ Hu) as (q0 & H0 & _). pose proof (J_reads_kind _ _ Jv _ _ H0) as Hk.
    assert (u <> t) by (apply Hkne; destruct Hk as [Hk|Hk]; rewrite Hk; discriminate). rewrite Hax by auto. auto.
  - intros u Hu. exfalso. destruct (disturb_reads _ _ _ _ Hu) as (q0 & H0 & Hq). destruct (Hq eq_refl) as [-> ->].
    pose proof (J_reads_kind _ _ Jv _ _ H0) as Hk. rewrite Hat in Hk. destruct Hk; discriminate.
Qed.


Lemma sstep_collect_call s t :
  sstep bounds s (ECall t CCollect) =
  {| s_obs := s_obs s;
     s_col := [{| cc_t := t; cc_done_at_call := map oc_vals (filter oc_done (s_obs s)); cc_prev := s_sums s; cc_quiet := is_nil (s_pending s) |}] ++ s_col (disturb s t);
     s_sums := s_sums s; s_pending := t :: s_pending s; s_reads := [] ++ s_reads (disturb s t); s_ok := s_ok s |}.
Proof. reflexivity. Qed.
Lemma sstep_read_call s t c : c = CSCount \/ c = CSSum ->
  sstep bounds s (ECall t c) =
  {| s_obs := s_obs s; s_col := [] ++ s_col (disturb s t); s_sums := s_sums s; s_pending := t :: s_pending s;
     s_reads := [(t, is_nil (s_pending s))] ++ s_reads (disturb s t); s_ok := s_ok s |}.
Proof. intros [->| ->]; reflexivity. Qed.

Lemma J_call_other o s t c o' ncol nrd :
  RI o -> J o s -> ostep bounds o (ECall t c) = Some o' -> call_vals (ECall t c) = None ->
  quiet_change (base (ox o)) (base (ox o')) ->
  ax (ox o) t = ANone -> (forall u, u <> t -> ax (ox o') u = ax (ox o) u) -> kind_of (ax (ox o') t) <> KNone ->
  (forall cc, In cc ncol -> cc_t cc = t /\ cc_done_at_call cc = map oc_vals (filter oc_done (s_obs s)) /\ cc_prev cc = s_sums s /\ cc_quiet cc = is_nil (s_pending s)) ->
  (forall l0, kind_of (ax (ox o') t) = KCol l0 -> l0 = length (vlog o) /\ ncol <> []) ->
  (ncol <> [] -> exists l0, kind_of (ax (ox o') t) = KCol l0) ->
  (forall u q, In (u, q) nrd -> u = t /\ q = is_nil (s_pending s) /\ (ax (ox o') t = ASCount None \/ ax (ox o') t = ASSum false None None false)) ->
  J o' {| s_obs := s_obs s; s_col := ncol ++ s_col (disturb s t); s_sums := s_sums s; s_pending := t :: s_pending s;
          s_reads := nrd ++ s_reads (disturb s t); s_ok := s_ok s |}.
Proof.
  intros (G & SI & OI & _) Jv Hs Hcv (Hlen & Hrq & Htq) Hat Hax Hnn Hcol Hcolk Hcolne Hrd.
  destruct (ostep_fields _ _ _ Hs) as (Hx & Hnc' & Hpd & Hsame & _). rewrite Hcv in Hnc', Hpd. destruct (Hsame Hlen) as [Hv Ho].
  destruct G as (I & X & Ow).
  assert (Hidle : thr (base (ox o)) t = Idle) by (apply (X_none _ X); auto).
  assert (Hcl : forall u, is_claim (thr (base (ox o')) u) = is_claim (thr (base (ox o)) u)).
  { intros u. specialize (Htq u). destruct (is_claim (thr (base (ox o')) u)) eqn:E1; destruct (is_claim (thr (base (ox o)) u)) eqn:E2; auto.
    - rewrite Htq in E1 by auto. congruence.
    - rewrite Htq in E1 by auto. congruence. }
  assert (Htp : ~ In t (s_pending s)) by (intros H; apply (J_pend _ _ Jv) in H; auto).
  assert (Hkne : forall u, kind_of (ax (ox o) u) <> KNone -> u <> t) by (intros u H ->; rewrite Hat in H; apply H; reflexivity).
  assert (Hclm : claimers o' {| s_obs := s_obs s; s_col := ncol ++ s_col (disturb s t); s_sums := s_sums s; s_pending := t :: s_pending s;
          s_reads := nrd ++ s_reads (disturb s t); s_ok := s_ok s |} = claimers o s).
  { unfold claimers. cbn [s_pending filter]. rewrite Hcl, Hidle. cbn [is_claim]. apply filter_ext; auto. }
  constructor; cbn [s_obs s_col s_sums s_pending s_reads].
  - constructor; auto. apply (J_pend_nd _ _ Jv).
  - intros u. cbn [In]. destruct (Nat.eq_dec u t) as [->|Hu].
    + split; [intros _ E; rewrite E in Hnn; apply Hnn; reflexivity|auto].
    + rewrite Hax by auto. rewrite <- (J_pend _ _ Jv u). split; [intros [->|H]; [contradiction|auto]|auto].
  - rewrite Hclm, Hv, Hpd. apply (J_perm _ _ Jv).
  - intros u. rewrite Hnc'. apply (J_ncalls _ _ Jv).
  - rewrite Ho, Hv. apply (J_tick _ _ Jv).
  - intros u Hu. rewrite Hcl in Hu. rewrite Hnc', Hpd. apply (J_unclaimed _ _ Jv); auto.
  - rewrite Hv. apply (J_done _ _ Jv).
  - apply (J_nonempty _ _ Jv).
  - intros c' Hc'. apply in_app_iff in Hc' as [Hc'|Hc'].
    + destruct (Hcol c' Hc') as (E1 & E2 & E3 & E4). destruct Hcolne as [l0 Hl0]; [intros ->; destruct Hc'|].
      destruct (Hcolk l0 Hl0) as [-> _]. exists (length (vlog o)). rewrite E1, E2, E3, E4, Hv. split; auto. split; auto. split; [|split].
      * intros vs Hvs. apply in_map_iff in Hvs as (oc & <- & Hoc). apply filter_In in Hoc as [Hoc Hd].
        destruct (J_done _ _ Jv oc Hoc Hd) as [i Hi]. exists i. split; auto. apply nth_error_Some. congruence.
      * intros m Hm. destruct (J_sums _ _ Jv m Hm) as (k1 & B1 & B2). exists k1. split; auto. rewrite (pmask_same o o'); auto.
      * intros Hq. split; auto. destruct (s_pending s); [reflexivity|discriminate].
    + destruct (disturb_col _ _ _ Hc') as (c0 & Hc0 & E1 & E2 & E3 & E4).
      destruct (J_col _ _ Jv c0 Hc0) as (l0 & A1 & A2 & A3 & A4 & A5).
      assert (Hct : cc_t c0 <> t) by (apply Hkne; rewrite A1; discriminate).
      exists l0. rewrite E1, E2, E3, Hv, Hax by auto. split; auto. split; auto. split; auto. split.
      * intros m Hm. destruct (A4 m Hm) as (k1 & B1 & B2). exists k1. split; auto. rewrite (pmask_same o o'); auto.
      * intros Hq. exfalso. destruct (E4 Hq). contradiction.
  - intros u l0 Hu. destruct (Nat.eq_dec u t) as [->|Hne].
    + destruct (Hcolk l0 Hu) as [_ Hn]. destruct ncol as [|c0 r]; [contradiction|]. exists c0. split; [left; reflexivity|]. apply (Hcol c0); left; reflexivity.
    + rewrite Hax in Hu by auto. destruct (J_col_ex _ _ Jv u l0 Hu) as (c0 & Hc0 & E). destruct (disturb_col_ex s t c0 Hc0) as (c' & H1 & H2).
      exists c'. split; [apply in_app_iff; right; auto|congruence].
  - intros m Hm. destruct (J_sums _ _ Jv m Hm) as (k1 & B1 & B2). exists k1. rewrite Hv. split; auto. rewrite (pmask_same o o'); auto.
  - intros u q Hu. apply in_app_iff in Hu as [Hu|Hu].
    + destruct (Hrd u q Hu) as (-> & _ & [E|E]); rewrite E; auto.
    + destruct (disturb_reads _ _ _ _ Hu) as (q0 & H0 & _). pose proof (J_reads_kind _ _ Jv _ _ H0) as Hk.
      assert (u <> t) by (apply Hkne; destruct Hk as [Hk|Hk]; rewrite Hk; discriminate). rewrite Hax by auto. auto.
  - intros u Hu. apply in_app_iff in Hu as [Hu|Hu].
    + destruct (Hrd u true Hu) as (-> & Hq & E). split; [destruct (s_pending s); [reflexivity|discriminate]|].
      split; [intros v Hv'|intros a h v w Hv']; destruct E as [E|E]; rewrite E in Hv'; discriminate.
    + exfalso. destruct (disturb_reads _ _ _ _ Hu) as (q0 & H0 & Hq). destruct (Hq eq_refl) as [-> ->].
      pose proof (J_reads_kind _ _ Jv _ _ H0) as Hk. rewrite Hat in Hk. destruct Hk; discriminate.
Qed.


(* ---- return markers: the bookkeeping part ---- *)
Lemma cvals_in t obs oc : In oc obs -> oc_t oc = t -> In (oc_vals oc) (cvals t obs).
Proof.
  intros H Ht. unfold cvals, tv. apply in_map_iff. exists (oc_t oc, oc_vals oc). split; [reflexivity|].
  apply filter_In. split; [apply in_map_iff; eauto|]. cbn. apply Nat.eqb_eq; auto.
Qed.

Lemma J_return o s e o' t obs' col' sums' reads' ok' :
  RI o -> J o s -> ostep bounds o e = Some o' -> ev_tid e = t -> call_vals e = None ->
  base (ox o') = base (ox o) -> ax (ox o') t = ANone -> ax (ox o) t <> ANone -> (forall u, u <> t -> ax (ox o') u = ax (ox o) u) ->
  thr (base (ox o)) t = Idle ->
  tv obs' = tv (s_obs s) ->
  (forall oc, In oc obs' -> oc_done oc = true -> exists i, nth_error (vlog o) i = Some (oc_vals oc)) ->
  (forall cc, In cc col' -> In cc (s_col s) /\ cc_t cc <> t) ->
  (forall cc, In cc (s_col s) -> cc_t cc <> t -> In cc col') ->
  (forall m, In m sums' -> In m (s_sums s) \/ exists k1, (k1 <= length (vlog o))%nat /\ m = pmask o k1) ->
  (forall u q, In (u, q) reads' -> In (u, q) (s_reads s) /\ u <> t) ->
  J o' {| s_obs := obs'; s_col := col'; s_sums := sums'; s_pending := remove_nat t (s_pending s); s_reads := reads'; s_ok := ok' |}.
Proof.
  intros (G & SI & OI & _) Jv Hs Ht Hcv Hbase Hat' Hat Hax Hidle Htv Hdone Hcol Hcolex Hsums Hreads.
  destruct (ostep_fields _ _ _ Hs) as (Hx & Hnc' & Hpd & Hsame & _). rewrite Hcv in Hnc', Hpd.
  destruct Hsame as [Hv Ho]; [rewrite Hbase; reflexivity|].
  assert (Htp : In t (s_pending s)) by (apply (J_pend _ _ Jv); auto).
  assert (Hnotq : forall u, s_pending s = [u] -> u = t) by (intros u Hp; rewrite Hp in Htp; destruct Htp as [?|[]]; auto).
  assert (Hcv' : forall u, cvals u obs' = cvals u (s_obs s)) by (intros u; unfold cvals; rewrite Htv; reflexivity).
  assert (Hav : all_vals obs' = all_vals (s_obs s)) by (rewrite !all_vals_tv, Htv; reflexivity).
  constructor; cbn [s_obs s_col s_sums s_pending s_reads].
  - apply remove_nat_nodup. apply (J_pend_nd _ _ Jv).
  - intros u. rewrite remove_nat_in by apply (J_pend_nd _ _ Jv). destruct (Nat.eq_dec u t) as [->|Hu].
    + rewrite Hat'. split; [intros [_ H]; contradiction|intros H; exfalso; apply H; reflexivity].
    + rewrite Hax by auto. rewrite (J_pend _ _ Jv u). tauto.
  - unfold claimers. cbn [s_pending]. rewrite Hbase, remove_nat_filter by (rewrite Hidle; reflexivity). rewrite Hav, Hv, Hpd. apply (J_perm _ _ Jv).
  - intros u. rewrite Hcv', Hnc'. apply (J_ncalls _ _ Jv).
  - intros i u q. rewrite Ho, Hv, Hcv'. apply (J_tick _ _ Jv).
  - intros u. rewrite Hbase, Hcv', Hnc', Hpd. apply (J_unclaimed _ _ Jv).
  - rewrite Hv. exact Hdone.
  - rewrite Htv. apply (J_nonempty _ _ Jv).
  - intros c Hc. destruct (Hcol c Hc) as [Hc0 Hne]. destruct (J_col _ _ Jv c Hc0) as (l0 & A1 & A2 & A3 & A4 & A5).
    exists l0. rewrite Hax, Hv by auto. split; auto. split; auto. split; auto. split.
    + intros m Hm. destruct (A4 m Hm) as (k1 & B1 & B2). exists k1. split; auto. rewrite (pmask_same o o'); auto.
    + intros Hq. exfalso. destruct (A5 Hq) as [_ Hp]. apply Hne. apply Hnotq. auto.
  - intros u l0 Hu. assert (u <> t) by (intros ->; rewrite Hat' in Hu; discriminate). rewrite Hax in Hu by auto.
    destruct (J_col_ex _ _ Jv u l0 Hu) as (c0 & Hc0 & E). exists c0. split; auto. apply Hcolex; auto. congruence.
  - intros m Hm. rewrite Hv. destruct (Hsums m Hm) as [H0|(k1 & B1 & B2)].
    + destruct (J_sums _ _ Jv m H0) as (k1 & B1 & B2). exists k1. split; auto. rewrite (pmask_same o o'); auto.
    + exists k1. split; auto. rewrite (pmask_same o o'); auto.
  - intros u q Hu. destruct (Hreads u q Hu) as [H0 Hne]. rewrite Hax by auto. apply (J_reads_kind _ _ Jv _ _ H0).
  - intros u Hu. exfalso. destruct (Hreads u true Hu) as [H0 Hne]. destruct (J_reads _ _ Jv u H0) as (P1 & _). apply Hne. apply Hnotq. auto.
Qed.

End I.
