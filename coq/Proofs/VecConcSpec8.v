(* C10: the strict failure class.  Part 2: if no collection overlaps updates to two different label-value tuples, the ghost log yields a
   STRICT linearisation (a collection is ONE action, placed at the first read of the one child that is updated during its window, or
   at its key snapshot if none is); hence on validated traces a failure of the strict spec is always in the known class. *)
Require Import PV.Base.Prelude PV.Base.StrFacts PV.Model.Conc PV.Model.VecConc PV.Spec.SpecC10.
Require Import PV.Proofs.VecConcBase PV.Proofs.VecConcLin PV.Proofs.VecConcFacts PV.Proofs.VecConcRT PV.Proofs.VecConcStrict.
Require Import PV.Proofs.VecConcSpec PV.Proofs.VecConcSpec2 PV.Proofs.VecConcSpec3 PV.Proofs.VecConcSpec4 PV.Proofs.VecConcSpec5 PV.Proofs.VecConcSpec6 PV.Proofs.VecConcSpec7.
From Coq Require Import Arith Lia Permutation Sorted.
Open Scope nat_scope.

Lemma acts_of_s_call nl c a : In a (acts_of true nl c) -> a_c a = c.
Proof.
  unfold acts_of. destruct (c_call c); cbn; try tauto.
  - destruct (Nat.eqb (length k) nl); cbn; [intros [<-|[<-|[]]]; auto | tauto].
  - destruct (Nat.eqb (length k) nl); cbn; [intros [<-|[]]; auto | tauto].
  - intros [<-|[]]; auto.
  - intros [<-|[]]; auto.
Qed.
Lemma acts_of_s_sorted nl c : StronglySorted klt (acts_of true nl c).
Proof.
  unfold acts_of. destruct (c_call c); try apply SSorted_nil.
  - destruct (Nat.eqb (length k) nl); [apply ss2; right; cbn; auto | apply SSorted_nil].
  - destruct (Nat.eqb (length k) nl); [apply ss1 | apply SSorted_nil].
  - apply ss1.
  - apply ss1.
Qed.

Section LinS.
Variables (nl : nat) (tr : list label) (s : vstate).
Hypothesis R : reach nl tr s.
Hypothesis Hopen : forall t, g_open s t = None.
Let cs := map (conv tr) (rev (g_done s)).
Let G := reach_ginv nl tr s R.
Hypothesis Hno : collect_overlaps_two nl cs = false.
Definition slacts : list act := flat_map (sentry_acts tr s) (rev (g_lin s)).

Lemma in_acts_of_conv_s d k : In (mk tr k d) (acts_of true nl (conv tr d)) <->
  match d with (_, c, _, _, _) =>
    match c with
    | CWithInc key _ => length key = nl /\ (k = KGet \/ k = KUpd)
    | CRemove key => length key = nl /\ k = KRem
    | CVReset => k = KReset
    | CVCollect => k = KColl
    | _ => False
    end end.
Proof.
  destruct d as [[[[t c] r] ti] trr]. unfold acts_of, mk. cbn [conv c_call]. destruct c; cbn; try tauto.
  - destruct (Nat.eqb (length k0) nl) eqn:El; [apply Nat.eqb_eq in El | apply Nat.eqb_neq in El]; cbn; split.
    + intros [H|[H|[]]]; inversion H; auto.
    + intros (_ & [->| ->]); auto.
    + tauto.
    + tauto.
  - destruct (Nat.eqb (length k0) nl) eqn:El; [apply Nat.eqb_eq in El | apply Nat.eqb_neq in El]; cbn; split.
    + intros [H|[]]; inversion H; auto.
    + intros (_ & ->); auto.
    + tauto.
    + tauto.
  - split; [intros [H|[]]; inversion H; auto | intros ->; auto].
  - split; [intros [H|[]]; inversion H; auto | intros ->; auto].
Qed.

Lemma thread_acts_eq_s t : thread_acts true nl cs t = flat_map (acts_of true nl) (filter (fun c => Nat.eqb (c_t c) t) cs).
Proof. unfold thread_acts. rewrite isort_id; auto. apply (thread_calls_sorted nl tr s R). Qed.

Lemma sentry_acts_call e a : In e (g_lin s) -> In a (sentry_acts tr s e) -> a_c a = conv tr (odrec s e).
Proof.
  intros He. unfold sentry_acts. destruct (le_op e); cbn; try (intros [<-|[]]; reflexivity).
  all: destruct (is_pivot s (odrec s e) e); cbn; try tauto; intros [<-|[]]; reflexivity.
Qed.
Lemma sentry_acts_tid e a : In e (g_lin s) -> In a (sentry_acts tr s e) -> atid a = le_tid e.
Proof.
  intros He Ha. unfold atid. rewrite (sentry_acts_call e a He Ha). destruct (entry_rec nl tr s R Hopen e He) as (c & r & ti & trr & _ & _ & _ & _ & _ & _ & ->). reflexivity.
Qed.
Lemma sentry_acts_sorted e : StronglySorted klt (sentry_acts tr s e).
Proof.
  unfold sentry_acts. destruct (le_op e); try apply ss1.
  all: destruct (is_pivot s (odrec s e) e); [apply ss1 | apply SSorted_nil].
Qed.
Lemma sentry_collect e a : In e (g_lin s) -> (le_op e = ACollect \/ exists c, le_op e = ARead c) -> In a (sentry_acts tr s e) ->
  is_pivot s (odrec s e) e = true /\ a = mk tr KColl (odrec s e).
Proof.
  intros He Hop Ha. unfold sentry_acts in Ha. destruct Hop as [Hop|(c & Hop)]; rewrite Hop in Ha.
  all: destruct (is_pivot s (odrec s e) e); [destruct Ha as [<-|[]]; auto | destruct Ha].
Qed.

(* exactly one entry of a collection's window is its pivot *)
Lemma read_hot_in_window t r ti trr y : read_hot s (t, CVCollect, r, ti, trr) y = true ->
  le_tid y = t /\ ti <= le_time y <= trr /\ exists c, le_op y = ARead c /\ hot s (t, CVCollect, r, ti, trr) c = true.
Proof.
  unfold read_hot. intros H. apply andb_true_iff in H as [H1 H2]. apply inwin_spec in H1 as [A B]. repeat split; auto; try lia.
  destruct (le_op y); try discriminate. eauto.
Qed.
Lemma pivot_unique t r ti trr e e' : In (t, CVCollect, r, ti, trr) (g_done s) ->
  In e (g_lin s) -> In e' (g_lin s) -> le_tid e = t -> le_tid e' = t -> ti <= le_time e <= trr -> ti <= le_time e' <= trr ->
  is_pivot s (t, CVCollect, r, ti, trr) e = true -> is_pivot s (t, CVCollect, r, ti, trr) e' = true -> le_time e = le_time e'.
Proof.
  intros Hd He He' Ht Ht' Hw Hw' Hp Hp'.
  assert (Hrh : forall y c, In y (g_lin s) -> le_tid y = t -> ti <= le_time y <= trr -> le_op y = ARead c -> hot s (t, CVCollect, r, ti, trr) c = true ->
                read_hot s (t, CVCollect, r, ti, trr) y = true).
  { intros y c Hy Hty Hwy Hoy Hh. unfold read_hot. rewrite (proj2 (inwin_spec _ _ _ _ _ y)) by auto. rewrite Hoy. exact Hh. }
  unfold is_pivot in Hp, Hp'. destruct (le_op e) eqn:Eo; try discriminate; destruct (le_op e') eqn:Eo'; try discriminate.
  - (* two key snapshots in one window *)
    destruct (collect_win nl tr s R _ _ _ _ Hd) as (e1 & rest & snap & vis & _ & _ & O1 & Hrest & _ & Ses & Hmem).
    assert (M : In e (e1 :: rest)) by (apply Hmem; auto). assert (M' : In e' (e1 :: rest)) by (apply Hmem; auto).
    destruct M as [<-|M]; [|destruct (read_op _ _ _ Hrest M) as (? & ? & X & _); congruence].
    destruct M' as [<-|M']; [reflexivity | destruct (read_op _ _ _ Hrest M') as (? & ? & X & _); congruence].
  - apply negb_true_iff in Hp. apply andb_true_iff in Hp' as [Hh' _].
    rewrite (existsb_intro _ _ e' He' (Hrh e' c He' Ht' Hw' Eo' Hh')) in Hp. discriminate.
  - apply negb_true_iff in Hp'. apply andb_true_iff in Hp as [Hh _].
    rewrite (existsb_intro _ _ e He (Hrh e c He Ht Hw Eo Hh)) in Hp'. discriminate.
  - apply andb_true_iff in Hp as [Hh Hf]. apply andb_true_iff in Hp' as [Hh' Hf']. apply negb_true_iff in Hf, Hf'.
    destruct (Nat.lt_trichotomy (le_time e) (le_time e')) as [Hlt|[Heq|Hlt]]; auto; exfalso.
    + rewrite (existsb_intro _ _ e He) in Hf'; [discriminate|]. rewrite (Hrh e c He Ht Hw Eo Hh). apply Nat.ltb_lt. exact Hlt.
    + rewrite (existsb_intro _ _ e' He') in Hf; [discriminate|]. rewrite (Hrh e' c0 He' Ht' Hw' Eo' Hh'). apply Nat.ltb_lt. exact Hlt.
Qed.

Lemma pivot_exists t r ti trr : In (t, CVCollect, r, ti, trr) (g_done s) ->
  exists e, In e (g_lin s) /\ le_tid e = t /\ ti <= le_time e <= trr /\ (le_op e = ACollect \/ exists c, le_op e = ARead c)
            /\ is_pivot s (t, CVCollect, r, ti, trr) e = true.
Proof.
  intros Hd. destruct (collect_win nl tr s R _ _ _ _ Hd) as (e1 & rest & snap & vis & _ & _ & O1 & Hrest & _ & Ses & Hmem).
  assert (P1 : le_op e1 = ACollect) by (unfold opres in O1; congruence).
  destruct (filter (read_hot s (t, CVCollect, r, ti, trr)) (e1 :: rest)) as [|h hs] eqn:Ef.
  - (* no read of an updated child: the key snapshot *)
    assert (M1 : In e1 (g_lin s) /\ le_tid e1 = t /\ ti <= le_time e1 <= trr) by (apply Hmem; left; auto). destruct M1 as (A & B & C).
    exists e1. repeat split; auto; try lia. unfold is_pivot. rewrite P1. apply negb_true_iff.
    destruct (existsb (read_hot s (t, CVCollect, r, ti, trr)) (g_lin s)) eqn:Ex; auto. apply existsb_exists in Ex as (y & Hy & Hr).
    destruct (read_hot_in_window _ _ _ _ y Hr) as (A1 & A2 & _).
    assert (In y (filter (read_hot s (t, CVCollect, r, ti, trr)) (e1 :: rest))) by (apply filter_In; split; auto; apply Hmem; auto). rewrite Ef in H. destruct H.
  - (* the first read of an updated child *)
    assert (Hh : In h (filter (read_hot s (t, CVCollect, r, ti, trr)) (e1 :: rest))) by (rewrite Ef; left; auto). apply filter_In in Hh as [Hh1 Hh2].
    apply Hmem in Hh1 as (A & B & C). destruct (read_hot_in_window _ _ _ _ h Hh2) as (_ & _ & c & Hoc & Hhot).
    exists h. repeat split; auto; try lia; [right; eauto|]. unfold is_pivot. rewrite Hoc, Hhot. cbn [andb]. apply negb_true_iff.
    destruct (existsb (fun y => read_hot s (t, CVCollect, r, ti, trr) y && Nat.ltb (le_time y) (le_time h)) (g_lin s)) eqn:Ex; auto.
    apply existsb_exists in Ex as (y & Hy & Hr). apply andb_true_iff in Hr as [Hr Hlt]. apply Nat.ltb_lt in Hlt.
    destruct (read_hot_in_window _ _ _ _ y Hr) as (A1 & A2 & _).
    assert (Hyf : In y (filter (read_hot s (t, CVCollect, r, ti, trr)) (e1 :: rest))) by (apply filter_In; split; auto; apply Hmem; auto).
    assert (Sf : StronglySorted (fun a b => le_time a < le_time b) (filter (read_hot s (t, CVCollect, r, ti, trr)) (e1 :: rest))) by (apply ssorted_filter'; auto).
    rewrite Ef in Hyf, Sf. apply StronglySorted_inv in Sf as [_ F]. rewrite Forall_forall in F.
    destruct Hyf as [<-|Hyf]; [lia | apply F in Hyf; lia].
Qed.

Lemma acts_ordered_s e e' a b : In e (g_lin s) -> In e' (g_lin s) -> le_tid e = le_tid e' -> le_time e < le_time e' ->
  In a (sentry_acts tr s e) -> In b (sentry_acts tr s e') -> klt a b.
Proof.
  intros He He' Ht Hlt Ha Hb.
  pose proof (sentry_acts_call e a He Ha) as Ca. pose proof (sentry_acts_call e' b He' Hb) as Cb.
  destruct (entry_rec nl tr s R Hopen e He) as (c & r & ti & trr & Hd & Hw & Hin & Hm & Hti & Hc & Eo).
  destruct (entry_rec nl tr s R Hopen e' He') as (c' & r' & ti' & trr' & Hd' & Hw' & Hin' & Hm' & Hti' & Hc' & Eo').
  unfold klt. rewrite Ca, Cb, Eo, Eo'. cbn [conv c_ci]. rewrite <- Ht in *.
  destruct (G_disj tr s G _ _ _ _ _ _ _ _ _ Hd Hd') as [Eq|[Eq|Eq]]; [| | lia].
  2:{ left. pose proof (evpos_strict tr ti ti' _ Hc ltac:(lia)). lia. }
  inversion Eq; subst c' r' ti' trr'. right. split; auto.
  destruct (window_list nl tr s R _ _ _ _ _ Hd) as (es & Hes & Ses & Hmem).
  assert (M1 : In e es) by (apply Hmem; auto). assert (M2 : In e' es) by (apply Hmem; auto).
  assert (Hne : e <> e') by (intros ->; lia).
  destruct c; try (rewrite <- Hes in Hm; cbn in Hm; tauto).
  - rewrite <- Hes in Hm. cbn in Hm. destruct (Nat.eqb (length k) nl); [destruct Hm as (_ & ch & Hm) | destruct Hm as (_ & Hm)].
    + destruct es as [|e1 [|e2 [|e3 es]]]; try discriminate. cbn [map] in Hm.
      assert (O1 : opres e1 = (AGet k, RChild ch)) by congruence. assert (O2 : opres e2 = (AUpd ch d, RDone)) by congruence.
      apply StronglySorted_inv in Ses as [_ F]. apply Forall_inv in F.
      destruct M1 as [<-|[<-|[]]], M2 as [<-|[<-|[]]]; try congruence; try lia.
      assert (P1 : le_op e1 = AGet k) by (unfold opres in O1; congruence).
      assert (P2 : le_op e2 = AUpd ch d) by (unfold opres in O2; congruence).
      unfold sentry_acts in Ha, Hb. rewrite P1 in Ha. rewrite P2 in Hb. destruct Ha as [<-|[]]. destruct Hb as [<-|[]]. cbn. lia.
    + destruct es; [destruct M1 | discriminate].
  - rewrite <- Hes in Hm. cbn in Hm. destruct (Nat.eqb (length k) nl).
    + destruct Hm as [(_ & Hm)|(_ & Hm)]; destruct es as [|e1 [|e2 es]]; try discriminate; destruct M1 as [<-|[]], M2 as [<-|[]]; congruence.
    + destruct Hm as (_ & Hm). destruct es; [destruct M1 | discriminate].
  - rewrite <- Hes in Hm. cbn in Hm. destruct Hm as (_ & Hm). destruct es as [|e1 [|e2 es]]; try discriminate. destruct M1 as [<-|[]], M2 as [<-|[]]. congruence.
  - (* a collection has one pivot *)
    exfalso. destruct (collect_window nl tr s R _ _ _ _ es Hd Hes) as (e1 & rest & snap & vis & -> & O1 & Hrest & _ & _).
    assert (Hops : forall y, In y (e1 :: rest) -> le_op y = ACollect \/ exists c0, le_op y = ARead c0).
    { intros y [<-|Hy]; [left; unfold opres in O1; congruence | right; destruct (read_op _ _ _ Hrest Hy) as (c0 & v0 & X & _); eauto]. }
    destruct (sentry_collect e a He (Hops e M1) Ha) as [Pa _]. destruct (sentry_collect e' b He' (Hops e' M2) Hb) as [Pb _].
    rewrite Eo in Pa. rewrite Eo' in Pb.
    pose proof (pivot_unique _ _ _ _ e e' Hd He He' eq_refl (eq_sym Ht) Hw Hw' Pa Pb). lia.
Qed.

Lemma rows_equal_s t : flat_map (acts_of true nl) (filter (fun c => Nat.eqb (c_t c) t) cs) = filter (tidb t) slacts.
Proof.
  assert (Hfilt : filter (tidb t) slacts = flat_map (sentry_acts tr s) (filter (fun e => Nat.eqb (le_tid e) t) (rev (g_lin s)))).
  { unfold slacts. apply filter_flat_map. intros e b He Hb. apply (in_E s) in He. unfold tidb. rewrite (sentry_acts_tid e b He Hb). reflexivity. }
  rewrite Hfilt. apply (sorted_unique klt klt_irrefl klt_asym).
  - apply ssorted_flat_map; [intros; apply acts_of_s_sorted|].
    eapply ssorted_impl_in; [apply (thread_calls_sorted nl tr s R t)|].
    intros x y _ _ Hxy a b Ha Hb. apply acts_of_s_call in Ha, Hb. left. rewrite Ha, Hb. exact Hxy.
  - apply ssorted_flat_map; [intros; apply sentry_acts_sorted|].
    eapply ssorted_impl_in; [apply ssorted_filter'; apply (E_sorted nl tr s R)|].
    intros e e' He He' Hlt a b Ha Hb. apply filter_In in He as [He Ht]. apply filter_In in He' as [He' Ht'].
    apply (in_E s) in He, He'. apply Nat.eqb_eq in Ht, Ht'. cbn beta in Hlt. apply (acts_ordered_s e e' a b He He'); auto; congruence.
  - intros a. rewrite !in_flat_map. split.
    + intros (c & Hc & Ha). apply filter_In in Hc as [Hc Ht]. apply Nat.eqb_eq in Ht.
      apply (in_cs2 tr s) in Hc as ([[[[t0 c0] r0] ti0] tr0] & Hd & ->). cbn in Ht. subst t0.
      destruct (G_done tr s G _ _ _ _ _ Hd) as (_ & _ & Hm & _). rewrite (reach_nl nl tr s R) in Hm.
      assert (Hgoal : forall x, In x (lins_in t ti0 tr0 (g_lin s)) -> (forall e, In e (g_lin s) -> opres e = x -> odrec s e = (t, c0, r0, ti0, tr0) -> In a (sentry_acts tr s e)) ->
                      exists e, In e (filter (fun e => Nat.eqb (le_tid e) t) (rev (g_lin s))) /\ In a (sentry_acts tr s e)).
      { intros x Hx Hin. destruct (entry_of_done s t _ _ ti0 tr0 x Hd Hx) as (e & He & Eo & Et & Hw).
        exists e. split; [apply filter_In; split; [apply (in_E s); auto | rewrite Et; apply Nat.eqb_refl]|].
        apply Hin; auto. unfold odrec. rewrite (owner_unique nl tr s R e t c0 r0 ti0 tr0 Hd Et Hw). reflexivity. }
      pose proof (acts_of_s_call _ _ _ Ha) as Hac. destruct a as [ak ac]. cbn in Hac. subst ac.
      change {| a_kind := ak; a_c := conv tr (t, c0, r0, ti0, tr0) |} with (mk tr ak (t, c0, r0, ti0, tr0)) in *.
      apply (proj1 (in_acts_of_conv_s (t, c0, r0, ti0, tr0) ak)) in Ha.
      destruct c0; try tauto; cbn in Hm.
      * destruct Ha as (Hl & Hk). apply Nat.eqb_eq in Hl. rewrite Hl in Hm. destruct Hm as (_ & ch & Hls). destruct Hk as [->| ->].
        -- apply (Hgoal (AGet k, RChild ch)); [rewrite Hls; left; auto|]. intros e _ Eo Ed. unfold sentry_acts. assert (Ho : le_op e = AGet k) by (unfold opres in Eo; congruence). rewrite Ho, Ed. left; auto.
        -- apply (Hgoal (AUpd ch d, RDone)); [rewrite Hls; right; left; auto|]. intros e _ Eo Ed. unfold sentry_acts. assert (Ho : le_op e = AUpd ch d) by (unfold opres in Eo; congruence). rewrite Ho, Ed. left; auto.
      * destruct Ha as (Hl & ->). apply Nat.eqb_eq in Hl. rewrite Hl in Hm.
        assert (Hx : exists x, In (ARemove k, x) (lins_in t ti0 tr0 (g_lin s))) by (destruct Hm as [(_ & ->)|(_ & ->)]; eexists; left; eauto).
        destruct Hx as (x & Hx). apply (Hgoal _ Hx). intros e _ Eo Ed. unfold sentry_acts. assert (Ho : le_op e = ARemove k) by (unfold opres in Eo; congruence). rewrite Ho, Ed. left; auto.
      * subst ak. destruct Hm as (_ & Hls). apply (Hgoal (AReset, RDone)); [rewrite Hls; left; auto|].
        intros e _ Eo Ed. unfold sentry_acts. assert (Ho : le_op e = AReset) by (unfold opres in Eo; congruence). rewrite Ho, Ed. left; auto.
      * (* the collection's single action sits at its pivot *)
        subst ak. destruct (pivot_exists _ _ _ _ Hd) as (e & He & Et & Hw & Hop & Hp).
        exists e. split; [apply filter_In; split; [apply (in_E s); auto | rewrite Et; apply Nat.eqb_refl]|].
        assert (Hod : odrec s e = (t, CVCollect, r0, ti0, tr0)) by (unfold odrec; rewrite (owner_unique nl tr s R e t _ _ _ _ Hd Et Hw); reflexivity).
        unfold sentry_acts. destruct Hop as [Hop|(c1 & Hop)]; rewrite Hop, Hod, Hp; left; reflexivity.
    + intros (e & He & Ha). apply filter_In in He as [He Ht]. apply (in_E s) in He. apply Nat.eqb_eq in Ht.
      destruct (entry_rec nl tr s R Hopen e He) as (c & r & ti & trr & Hd & Hw & Hin & Hm & _ & _ & Eo).
      exists (conv tr (le_tid e, c, r, ti, trr)). split.
      * apply filter_In. split; [apply (in_cs2 tr s); eexists; split; [exact Hd | reflexivity] | cbn; rewrite Ht; apply Nat.eqb_refl].
      * pose proof (sentry_acts_call e a He Ha) as Hac. rewrite Eo in Hac. destruct a as [ak ac]. cbn in Hac. subst ac.
        change {| a_kind := ak; a_c := conv tr (le_tid e, c, r, ti, trr) |} with (mk tr ak (le_tid e, c, r, ti, trr)) in *.
        apply (proj2 (in_acts_of_conv_s (le_tid e, c, r, ti, trr) ak)). unfold opres in Hin.
        destruct (le_op e) eqn:Eop.
        -- unfold sentry_acts, mk in Ha. rewrite Eop in Ha. destruct Ha as [Ha|[]]. inversion Ha; subst ak. destruct (rm_get _ _ _ _ _ _ Hm Hin) as (d & ch & -> & Hl & _). auto.
        -- unfold sentry_acts, mk in Ha. rewrite Eop in Ha. destruct Ha as [Ha|[]]. inversion Ha; subst ak. destruct (rm_upd _ _ _ _ _ _ _ Hm Hin) as (k & -> & Hl & _). auto.
        -- unfold sentry_acts, mk in Ha. rewrite Eop in Ha. destruct Ha as [Ha|[]]. inversion Ha; subst ak. destruct (rm_remove _ _ _ _ _ _ Hm Hin) as (-> & Hl & _). auto.
        -- unfold sentry_acts, mk in Ha. rewrite Eop in Ha. destruct Ha as [Ha|[]]. inversion Ha; subst ak. rewrite (rm_reset _ _ _ _ _ Hm Hin). reflexivity.
        -- rewrite (rm_collect_like _ _ _ _ _ _ Hm Hin) by auto. destruct (sentry_collect e _ He (or_introl Eop) Ha) as [_ Ea]. unfold mk in Ea. inversion Ea; auto.
        -- rewrite (rm_collect_like _ _ _ _ _ _ Hm Hin) by eauto. destruct (sentry_collect e _ He (or_intror (ex_intro _ c0 Eop)) Ha) as [_ Ea]. unfold mk in Ea. inversion Ea; auto.
Qed.

Lemma slacts_member a : In a slacts -> exists e c r ti trr, In e (g_lin s) /\ In (le_tid e, c, r, ti, trr) (g_done s) /\ ti <= le_time e <= trr /\ ti < trr
                                   /\ a_c a = conv tr (le_tid e, c, r, ti, trr).
Proof.
  unfold slacts. intros H. apply in_flat_map in H as (e & He & Ha). apply (in_E s) in He.
  destruct (entry_rec nl tr s R Hopen e He) as (c & r & ti & trr & Hd & Hw & _ & _ & Hti & _ & Eo).
  exists e, c, r, ti, trr. repeat split; auto; try lia. rewrite (sentry_acts_call e a He Ha), Eo. reflexivity.
Qed.
Lemma slacts_window a : In a slacts -> (c_ri (a_c a) <? c_ci (a_c a))%N = false.
Proof.
  intros H. destruct (slacts_member a H) as (e & c & r & ti & trr & _ & _ & _ & Hti & ->). cbn [conv c_ri c_ci].
  apply N.ltb_ge. apply nle_of_nat. apply evpos_mono. apply Nat.lt_le_incl; exact Hti.
Qed.
Lemma slacts_tid a : In a slacts -> atid a < S (max_tid cs).
Proof.
  intros H. destruct (slacts_member a H) as (e & c & r & ti & trr & _ & Hd & _ & _ & Ea). unfold atid. rewrite Ea.
  assert (Hin : In (conv tr (le_tid e, c, r, ti, trr)) cs) by (apply (in_cs2 tr s); eexists; split; [exact Hd | reflexivity]).
  pose proof (max_tid_bound cs _ Hin). lia.
Qed.
Lemma slacts_rt : rt_ok slacts.
Proof.
  apply ss_rt_ok. unfold slacts. apply ssorted_flat_map.
  - intros e He. apply (in_E s) in He.
    assert (Hsame : forall a b, In a (sentry_acts tr s e) -> In b (sentry_acts tr s e) -> (c_ri (a_c b) <? c_ci (a_c a))%N = false).
    { intros a b Ha Hb. rewrite (sentry_acts_call e a He Ha), (sentry_acts_call e b He Hb).
      destruct (entry_rec nl tr s R Hopen e He) as (c & r & ti & trr & _ & _ & _ & _ & Hti & _ & ->). cbn [conv c_ri c_ci].
      apply N.ltb_ge. apply nle_of_nat. apply evpos_mono. apply Nat.lt_le_incl; exact Hti. }
    revert Hsame. generalize (sentry_acts tr s e). induction l as [|x l IHl]; intros Hs; constructor.
    + apply IHl. intros; apply Hs; right; auto.
    + apply Forall_forall. intros y Hy. apply Hs; [left | right]; auto.
  - eapply ssorted_impl_in; [apply (E_sorted nl tr s R)|].
    intros e e' He He' Hlt a b Ha Hb. apply (in_E s) in He, He'.
    rewrite (sentry_acts_call e a He Ha), (sentry_acts_call e' b He' Hb).
    destruct (entry_rec nl tr s R Hopen e He) as (c & r & ti & trr & _ & Hw & _ & _ & _ & _ & ->).
    destruct (entry_rec nl tr s R Hopen e' He') as (c' & r' & ti' & trr' & _ & Hw' & _ & _ & _ & _ & ->). cbn [conv c_ri c_ci].
    apply N.ltb_ge. apply nle_of_nat. apply evpos_mono. cbn beta in Hlt. clear - Hw Hw' Hlt. lia.
Qed.
Lemma all_acts_rows_s : all_acts true nl cs = rows_of (S (max_tid cs)) slacts.
Proof. unfold all_acts, rows_of. apply map_ext. intros t. etransitivity; [apply thread_acts_eq_s | apply rows_equal_s]. Qed.
End LinS.
