(* C06, concurrent part, 0: the facts about the SEQUENTIAL registry (Model/Registry.v reg_register) that the admission
   corollaries of Proofs/RegConcFacts.v need, proved directly on the per-descriptor loop [reg_check_descs] and independent of
   how a collector is keyed in collectors_by_id (the key is only ever looked up, never inspected):
     a successful registration
       - was of a collector none of whose descriptor ids was registered,
       - records exactly its descriptors' ids (appended to desc_ids),
       - records for each of its names the dimension hash of its descriptors of that name, agrees with every hash that was
         recorded before, and changes no recorded hash. *)
Require Import PV.Base.Prelude PV.Base.StrFacts PV.Base.F64.
Require Import PV.Model.Proto PV.Model.Desc PV.Model.Value PV.Model.Registry.
Open Scope N_scope.

(* ------------------------------------------------------------------ association lists *)
Lemma qs_alookup_app {V} k (a b : list (str * V)) :
  alookup k (a ++ b) = match alookup k a with Some v => Some v | None => alookup k b end.
Proof. induction a as [|[k' v'] a IH]; cbn; auto. destruct (str_eqb k k'); auto. Qed.
Lemma qs_alookup_map_replace {V} n k (v : V) m :
  alookup n (map (fun kv => if str_eqb k (fst kv) then (fst kv, v) else kv) m)
  = if str_eqb n k then match alookup k m with Some _ => Some v | None => None end else alookup n m.
Proof.
  induction m as [|[k' v'] m IH]; cbn [map alookup fst].
  - destruct (str_eqb n k); reflexivity.
  - destruct (str_eqb k k') eqn:E1; cbn [fst].
    + apply str_eqb_eq in E1. subst k'. destruct (str_eqb n k) eqn:E2; auto.
    + destruct (str_eqb n k') eqn:E2.
      * apply str_eqb_eq in E2. subst k'. rewrite str_eqb_sym, E1. reflexivity.
      * exact IH.
Qed.
Lemma qs_alookup_ainsert {V} n k (v : V) m :
  alookup n (ainsert k v m) = if str_eqb n k then Some v else alookup n m.
Proof.
  unfold ainsert. destruct (alookup k m) as [v0|] eqn:E.
  - rewrite qs_alookup_map_replace, E. reflexivity.
  - rewrite qs_alookup_app. cbn [alookup]. destruct (str_eqb n k) eqn:E2.
    + apply str_eqb_eq in E2. subst n. rewrite E. reflexivity.
    + destruct (alookup n m); reflexivity.
Qed.
Lemma qs_ainsert_In {V} n h k (v : V) m : In (n, h) (ainsert k v m) -> (n = k /\ h = v) \/ In (n, h) m.
Proof.
  unfold ainsert. destruct (alookup k m) as [v0|].
  - intros H. apply in_map_iff in H as ([k' v'] & E & Hin). cbn [fst] in E. destruct (str_eqb k k') eqn:E1.
    + apply str_eqb_eq in E1. inversion E; subst. auto.
    + inversion E; subst. auto.
  - intros H. apply in_app_or in H as [H|[H|[]]]; auto. inversion H; auto.
Qed.
Definition qs_ains {V} (m : list (str * V)) (kv : str * V) := ainsert (fst kv) (snd kv) m.
Lemma qs_alookup_fold {V} n (kvs : list (str * V)) : forall m,
  alookup n (fold_left qs_ains kvs m) = match alookup n (rev kvs) with Some v => Some v | None => alookup n m end.
Proof.
  induction kvs as [|[k v] kvs IH]; intros m; cbn [fold_left rev]; auto.
  rewrite IH, qs_alookup_app. destruct (alookup n (rev kvs)); auto. unfold qs_ains. cbn [fst snd alookup].
  rewrite qs_alookup_ainsert. destruct (str_eqb n k); auto.
Qed.

(* ------------------------------------------------------------------ the loop *)
Section Loop.
Context {C : Type}.
Implicit Types (r : regcore C) (d : Desc) (ds pre : list Desc).

Definition qs_stage (pre : list Desc) : list (str * N) :=
  fold_left (fun m d => ainsert (d_fq_name d) (d_dim d) m) pre [].
Lemma qs_stage_snoc pre d : qs_stage (pre ++ [d]) = ainsert (d_fq_name d) (d_dim d) (qs_stage pre).
Proof. unfold qs_stage. rewrite fold_left_app. reflexivity. Qed.
Lemma qs_stage_In n h pre : In (n, h) (qs_stage pre) -> exists d, In d pre /\ d_fq_name d = n /\ d_dim d = h.
Proof.
  induction pre as [|d pre IH] using rev_ind; [intros []|].
  rewrite qs_stage_snoc. intros H. apply qs_ainsert_In in H as [[-> ->]|H].
  - exists d. split; auto. apply in_or_app. right. left. auto.
  - destruct (IH H) as (d' & Hin & E1 & E2). exists d'. split; auto. apply in_or_app. auto.
Qed.
Lemma qs_stage_key pre d : In d pre -> exists h, alookup (d_fq_name d) (qs_stage pre) = Some h.
Proof.
  induction pre as [|x pre IH] using rev_ind; [intros []|].
  intros H. rewrite qs_stage_snoc, qs_alookup_ainsert. destruct (str_eqb (d_fq_name d) (d_fq_name x)) eqn:E; eauto.
  apply in_app_or in H as [H|[H|[]]]; auto. subst x. rewrite str_eqb_refl in E. discriminate.
Qed.

(* the descriptors already accepted in this collector agree with the recorded hashes and with each other *)
Definition qs_pre_ok r pre : Prop :=
  (forall d' h, In d' pre -> alookup (d_fq_name d') (r_dim_hashes r) = Some h -> h = d_dim d')
  /\ (forall d1 d2, In d1 pre -> In d2 pre -> d_fq_name d1 = d_fq_name d2 -> d_dim d1 = d_dim d2).
Lemma qs_pre_ok_nil r : qs_pre_ok r [].
Proof. split; intros; contradiction. Qed.

(* one pass of the loop body that did not return *)
Lemma qs_body_ok r pre d :
  qs_pre_ok r pre ->
  (match match alookup (d_fq_name d) (r_dim_hashes r) with Some h => Some h | None => alookup (d_fq_name d) (qs_stage pre) end
   with Some h => negb (h =? d_dim d) | None => false end) = false ->
  qs_pre_ok r (pre ++ [d]).
Proof.
  intros [H1 H2] Hk.
  assert (Hpd : forall d', In d' pre -> d_fq_name d' = d_fq_name d -> d_dim d' = d_dim d).
  { intros d' Hd' En. destruct (alookup (d_fq_name d) (r_dim_hashes r)) as [h|] eqn:El.
    - apply negb_false_iff, N.eqb_eq in Hk. rewrite <- En in El. rewrite <- (H1 d' h Hd' El). exact Hk.
    - destruct (qs_stage_key pre d' Hd') as [h Hh]. rewrite En in Hh. rewrite Hh in Hk. apply negb_false_iff, N.eqb_eq in Hk.
      apply alookup_In, qs_stage_In in Hh as (d0 & Hin0 & En0 & Eh0). rewrite <- Hk, <- Eh0. apply H2; auto. congruence. }
  split.
  - intros d' h Hin Hl. apply in_app_or in Hin as [Hin|[<-|[]]]; [eauto|].
    rewrite Hl in Hk. apply negb_false_iff, N.eqb_eq in Hk. exact Hk.
  - intros d1 d2 I1 I2 En. apply in_app_or in I1 as [I1|[<-|[]]]; apply in_app_or in I2 as [I2|[<-|[]]]; auto.
    symmetry. apply Hpd; auto.
Qed.

Lemma qs_check_ok r ds : forall pre cid seen' cid' staged',
  qs_pre_ok r pre ->
  reg_check_descs r ds (rev (map d_id pre)) cid (qs_stage pre) = Ok (seen', cid', staged') ->
  qs_pre_ok r (pre ++ ds) /\ seen' = rev (map d_id (pre ++ ds)) /\ staged' = qs_stage (pre ++ ds)
  /\ (forall d, In d ds -> ~ In (d_id d) (r_desc_ids r)).
Proof.
  induction ds as [|d ds IH]; intros pre cid seen' cid' staged' Hp H; cbn [reg_check_descs] in H.
  - inversion H; subst. rewrite app_nil_r. split; [exact Hp|]. split; [reflexivity|]. split; [reflexivity|]. intros d [].
  - destruct (memN (d_id d) (r_desc_ids r)) eqn:Em; [discriminate|].
    match type of H with (if ?b then _ else _) = _ => destruct b; [discriminate|] end.
    match type of H with (if ?b then _ else _) = _ => destruct b eqn:Ek; [discriminate|] end.
    destruct (memN (d_id d) (rev (map d_id pre))); [discriminate|].
    pose proof (qs_body_ok r pre d Hp Ek) as Hp'.
    assert (E1 : d_id d :: rev (map d_id pre) = rev (map d_id (pre ++ [d]))) by (rewrite map_app, rev_app_distr; reflexivity).
    rewrite E1, <- qs_stage_snoc in H.
    destruct (IH _ _ _ _ _ Hp' H) as (A & B & Cc & D). rewrite <- app_assoc in A, B, Cc. cbn [app] in A, B, Cc.
    split; [exact A|]. split; [exact B|]. split; [exact Cc|]. intros d0 [<-|Hd0]; [apply memN_false; exact Em | auto].
Qed.

(* RegistryCore::register, when it succeeds *)
Lemma qs_register_ok_inv r ds c r' : reg_register r ds c = Ok r' ->
  qs_pre_ok r ds
  /\ (forall d, In d ds -> ~ In (d_id d) (r_desc_ids r))
  /\ r_desc_ids r' = r_desc_ids r ++ map d_id ds
  /\ r_dim_hashes r' = fold_left qs_ains (qs_stage ds) (r_dim_hashes r).
Proof.
  unfold reg_register. destruct (reg_check_descs r ds [] 0 []) as [[[seen cid] staged]|e] eqn:E; [|discriminate].
  destruct (nlookup cid (r_collectors r)); [discriminate|]. intros H; inversion H; subst; cbn [r_desc_ids r_dim_hashes].
  destruct (qs_check_ok r ds [] 0 seen cid staged (qs_pre_ok_nil r) E) as (A & B & Cc & D). cbn [app] in A, B, Cc.
  subst seen staged. rewrite rev_involutive. split; [exact A|]. split; [exact D|]. split; reflexivity.
Qed.

Lemma qs_register_ok_fresh_ids r ds c r' d : reg_register r ds c = Ok r' -> In d ds -> ~ In (d_id d) (r_desc_ids r).
Proof. intros H Hd. apply qs_register_ok_inv in H as (_ & Hf & _). auto. Qed.
Lemma qs_register_ok_ids r ds c r' d : reg_register r ds c = Ok r' -> In d ds -> In (d_id d) (r_desc_ids r').
Proof.
  intros H Hd. apply qs_register_ok_inv in H as (_ & _ & E & _). rewrite E. apply in_or_app. right. apply in_map. exact Hd.
Qed.
Lemma qs_register_ok_ids_mono r ds c r' x : reg_register r ds c = Ok r' -> In x (r_desc_ids r) -> In x (r_desc_ids r').
Proof. intros H Hx. apply qs_register_ok_inv in H as (_ & _ & E & _). rewrite E. apply in_or_app. auto. Qed.

(* dimension hashes: what a successful registration records, and that records are never changed *)
Lemma qs_register_ok_dims r ds c r' n :
  reg_register r ds c = Ok r' ->
  (forall d, In d ds -> d_fq_name d = n -> alookup n (r_dim_hashes r') = Some (d_dim d))
  /\ (forall h, alookup n (r_dim_hashes r) = Some h -> alookup n (r_dim_hashes r') = Some h)
  /\ (forall d h, In d ds -> d_fq_name d = n -> alookup n (r_dim_hashes r) = Some h -> h = d_dim d).
Proof.
  intros H. apply qs_register_ok_inv in H as ([P1 P2] & _ & _ & E).
  assert (Hst : forall h, alookup n (rev (qs_stage ds)) = Some h -> exists d, In d ds /\ d_fq_name d = n /\ d_dim d = h).
  { intros h Hl. apply alookup_In in Hl. apply in_rev in Hl. apply qs_stage_In in Hl. exact Hl. }
  split; [|split].
  - intros d Hd En. rewrite E, qs_alookup_fold.
    destruct (alookup n (rev (qs_stage ds))) as [h|] eqn:El.
    + destruct (Hst h eq_refl) as (d' & Hd' & En' & <-). f_equal. apply P2; auto. congruence.
    + exfalso. destruct (qs_stage_key ds d Hd) as [h Hh]. rewrite En in Hh. apply alookup_In in Hh.
      apply alookup_None in El. apply El. apply in_map_iff. exists (n, h). split; auto. apply -> in_rev. exact Hh.
  - intros h Hl. rewrite E, qs_alookup_fold.
    destruct (alookup n (rev (qs_stage ds))) as [h'|] eqn:El; auto.
    destruct (Hst h' eq_refl) as (d' & Hd' & En' & <-). f_equal. symmetry. apply P1; auto. rewrite En'. exact Hl.
  - intros d h Hd En Hl. apply P1; auto. rewrite En. exact Hl.
Qed.

(* unregister never touches the dimension hashes *)
Lemma qs_unregister_dims r ds r' : reg_unregister r ds = Ok r' -> r_dim_hashes r' = r_dim_hashes r.
Proof. unfold reg_unregister. destruct (nlookup _ (r_collectors r)); [|discriminate]. intros H; inversion H; reflexivity. Qed.
End Loop.
