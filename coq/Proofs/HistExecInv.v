(* Ghost invariants of the executable histogram model: the bookkeeping of invocation / flip /
   return points (cut bounds) and the well-formedness of per-thread call states. *)
Require Import PV.Base.Prelude PV.Base.F64 PV.Model.Conc PV.Model.HistConc PV.Model.HistExec.
Require Import PV.Proofs.HistConcLemmas PV.Proofs.HistConcInv PV.Proofs.HistConcProof PV.Proofs.HistExecSound.
From Coq Require Import ZArith Lia Bool Arith.
Open Scope Z_scope.

Section S.
Variable bounds : list Z.
Notation B := (length bounds).
Notation hexec := (hexec bounds).

Definition lenr (x : xst) : nat := length (recs (base x)).

Record XInv (x : xst) : Prop := {
  X_col : forall u l0, ax x u = ACol l0 ->
            (l0 <= lenr x)%nat /\ (thr (base x) u = CLockWait \/ exists p, thr (base x) u = CIn p)
            /\ (forall p, thr (base x) u = CIn p -> p <> CFlip -> (l0 <= K (base x))%nat);
  X_colret : forall u l0 k N sv bs, ax x u = AColRet l0 k N sv bs ->
            (l0 <= k)%nat /\ (k <= lenr x)%nat /\ In (k, (N, sv, rev bs)) (snaps (base x)) /\ thr (base x) u = Idle;
  X_cuts : forall c, In c (cuts x) ->
            (cut_l0 c <= cut_k c)%nat /\ (cut_k c <= cut_l1 c)%nat /\ (cut_l1 c <= lenr x)%nat /\ In (cut_k c, cut_res c) (snaps (base x));
  X_none : forall u, ax x u = ANone -> thr (base x) u = Idle;
  X_obs : forall u, (ax x u = AObs <-> (exists c ws, thr (base x) u = OClaim c ws) \/ (exists i, thr (base x) u = OWork i));
  X_obsret : forall u, ax x u = AObsRet -> thr (base x) u = Idle;
  X_reads : forall u, (exists v, ax x u = ASCount v) \/ (exists a b c d, ax x u = ASSum a b c d) -> thr (base x) u = Idle
}.

Lemma xinv_init : XInv xinit.
Proof.
  constructor; cbn; intros; try discriminate; try contradiction; auto.
  split; [discriminate|]. intros [(c & ws & H)|(i & H)]; discriminate.
Qed.

Ltac lookup u t :=
  unfold set_ax, set_thr in *;
  let E := fresh "E" in destruct (Nat.eqb u t) eqn:E; [apply Nat.eqb_eq in E; subst u|apply Nat.eqb_neq in E].


Definition is_obs_state (ts : tstate) : Prop := (exists c ws, ts = OClaim c ws) \/ (exists i, ts = OWork i).

Definition aux_ok (b : st) (t : nat) (a : aux) : Prop :=
  match a with
  | ACol l0 => (l0 <= length (recs b))%nat /\ (thr b t = CLockWait \/ exists p, thr b t = CIn p)
               /\ (forall p, thr b t = CIn p -> p <> CFlip -> (l0 <= K b)%nat)
  | AColRet l0 k N sv bs => (l0 <= k)%nat /\ (k <= length (recs b))%nat /\ In (k, (N, sv, rev bs)) (snaps b) /\ thr b t = Idle
  | AObs => is_obs_state (thr b t)
  | _ => thr b t = Idle
  end.

Lemma xinv_update x b' t a' sl' cuts' rd' :
  Inv B (base x) -> XInv x ->
  (length (recs (base x)) <= length (recs b'))%nat ->
  (forall y, In y (snaps (base x)) -> In y (snaps b')) ->
  (forall u, u <> t -> thr b' u = thr (base x) u) ->
  (K b' = K (base x) \/ exists q, thr (base x) t = CIn q) ->
  aux_ok b' t a' ->
  (forall c, In c cuts' -> In c (cuts x) \/
       ((cut_l0 c <= cut_k c)%nat /\ (cut_k c <= cut_l1 c)%nat /\ (cut_l1 c <= length (recs b'))%nat /\ In (cut_k c, cut_res c) (snaps b'))) ->
  XInv {| base := b'; ax := set_ax x t a'; slock := sl'; cuts := cuts'; reads := rd' |}.
Proof.
  intros I X Hlen Hsn Hfr HK Ha Hc.
  assert (HKu : forall u l0 p, u <> t -> ax x u = ACol l0 -> thr (base x) u = CIn p -> p <> CFlip -> (l0 <= K b')%nat).
  { intros u l0 p Hu Hax Hp Hnf. destruct HK as [->|[q Hq]].
    - destruct (X_col _ X u l0 Hax) as (_ & _ & H3). eauto.
    - exfalso. pose proof (I_lock1 _ _ I _ _ Hq) as L1. pose proof (I_lock1 _ _ I _ _ Hp) as L2. congruence. }
  constructor; cbn [base ax cuts lenr]; unfold lenr; cbn [base].
  - intros u l0 H. lookup u t.
    + subst a'. exact Ha.
    + destruct (X_col _ X u l0 H) as (H1 & H2 & H3). rewrite (Hfr u E). repeat split; auto.
      * unfold lenr in H1. lia.
      * intros p Hp Hn. eapply HKu; eauto.
  - intros u l0 k N sv bs H. lookup u t.
    + subst a'. exact Ha.
    + destruct (X_colret _ X u l0 k N sv bs H) as (H1 & H2 & H3 & H4). rewrite (Hfr u E). unfold lenr in H2. repeat split; auto. lia.
  - intros c Hin. destruct (Hc c Hin) as [Hold|Hnew]; auto.
    destruct (X_cuts _ X c Hold) as (H1 & H2 & H3 & H4). unfold lenr in H3. repeat split; auto. lia.
  - intros u H. lookup u t.
    + subst a'. exact Ha.
    + rewrite (Hfr u E). apply (X_none _ X); auto.
  - intros u. lookup u t.
    + split.
      * intros ->. exact Ha.
      * intros Hs. destruct a'; cbn in Ha; auto; exfalso; unfold is_obs_state in Hs;
          try (rewrite Ha in Hs; destruct Hs as [(c & ws & Hs)|(i & Hs)]; discriminate).
        -- destruct Ha as (_ & [Ha|[p Ha]] & _); rewrite Ha in Hs; destruct Hs as [(c & ws & Hs)|(i & Hs)]; discriminate.
        -- destruct Ha as (_ & _ & _ & Ha); rewrite Ha in Hs; destruct Hs as [(c & ws & Hs)|(i & Hs)]; discriminate.
    + rewrite (Hfr u E). apply (X_obs _ X).
  - intros u H. lookup u t.
    + subst a'. exact Ha.
    + rewrite (Hfr u E). apply (X_obsret _ X); auto.
  - intros u H. lookup u t.
    + destruct H as [(v & H)|(a & b & c & d & H)]; subst a'; exact Ha.
    + rewrite (Hfr u E). apply (X_reads _ X); auto.
Qed.


Lemma set_thr_same' s t a : set_thr s t a t = a.
Proof. unfold set_thr. rewrite Nat.eqb_refl. reflexivity. Qed.

Ltac side :=
  match goal with
  | |- (length (recs (base _)) <= length (recs _))%nat => cbn [recs mk]; rewrite ?app_length, ?set_nth_length; cbn [length]; lia
  | |- forall y, In y (snaps (base _)) -> In y (snaps _) => cbn [snaps mk]; intros; auto with datatypes
  | |- forall u, u <> ?t -> thr _ u = thr (base _) u =>
      let u := fresh "u" in let Hu := fresh "Hu" in
      intros u Hu; cbn [thr mk]; unfold set_thr; try rewrite (proj2 (Nat.eqb_neq u t) Hu); reflexivity
  | |- K _ = K (base _) \/ _ => first [left; reflexivity | right; eauto]
  | |- forall c, In c (cuts _) -> _ => intros; left; assumption
  end.

Theorem hexec_xinv x e x' :
  Inv B (base x) -> XInv x -> hexec x e = Some x' -> XInv x'.
Proof.
  intros I X H. unfold HistExec.hexec in H. destruct e; try discriminate H.
  - (* ECall *)
    break_match H; inversion H; subst; unfold xmk; apply xinv_update; auto; try side; cbn [aux_ok thr mk recs K]; rewrite ?set_thr_same'; auto.
    + left. eauto.
    + left. eauto.
    + repeat split; auto. intros p Hp. discriminate.
  - (* ERet *)
    break_match H; inversion H; subst; unfold xmk.
    + apply xinv_update; auto; try side; cbn [aux_ok]. apply (X_obsret _ X); auto.
    + destruct (X_colret _ X _ _ _ _ _ _ E) as (H1 & H2 & H3 & H4).
      apply xinv_update; auto; try side; cbn [aux_ok]; auto.
      intros c [<-|Hc]; [right; cbn; unfold lenr in H2; repeat split; auto|left; auto].
    + apply xinv_update; auto; try side; cbn [aux_ok]. apply (X_reads _ X). left; eauto.
    + apply xinv_update; auto; try side; cbn [aux_ok]. apply (X_reads _ X). right; eauto 6.
  - (* EAt *)
    break_match H; inversion H; subst; try exact X; unfold xmk; apply xinv_update; auto; try side;
      cbn [aux_ok thr mk recs K]; rewrite ?set_thr_same'; auto.
    all: try (left; eauto; fail).
    all: try (right; eauto; fail).
    all: try match goal with HH : ax _ ?t = ACol ?l0, XX : XInv _ |- _ =>
           destruct (X_col _ XX t l0 HH) as (Hc1 & Hc2 & Hc3) end.
    all: try (repeat split; eauto; [cbn [recs mk]; rewrite ?app_length, ?set_nth_length; lia | intros p0 Hp0 Hn0; inversion Hp0; subst; try (exfalso; apply Hn0; reflexivity); try (eapply Hc3; eauto; discriminate)]; fail).
    all: unfold lenr in Hc1; (split; [lia|split; [right; eauto|]]).
    all: intros p0 Hp0 Hn0; try lia; eapply Hc3; eauto; discriminate.
  - (* ELock *)
    break_match H; inversion H; subst; try exact X; unfold xmk; apply xinv_update; auto; try side;
      cbn [aux_ok thr mk recs K]; rewrite ?set_thr_same'; auto.
    match goal with HH : ax _ ?t = ACol ?l0, XX : XInv _ |- _ => destruct (X_col _ XX t l0 HH) as (Hc1 & Hc2 & Hc3) end.
    unfold lenr in Hc1. split; [lia|split; [right; eauto|]]. intros p0 Hp0 Hn0. inversion Hp0; subst. exfalso. apply Hn0. reflexivity.
  - (* EUnlock *)
    break_match H; inversion H; subst; try exact X; unfold xmk; apply xinv_update; auto; try side;
      cbn [aux_ok thr mk recs K snaps]; rewrite ?set_thr_same'; auto.
    match goal with HH : ax _ ?t = ACol ?l0, XX : XInv _ |- _ => destruct (X_col _ XX t l0 HH) as (Hc1 & Hc2 & Hc3) end.
    repeat split.
    + eapply Hc3; eauto. discriminate.
    + apply (I_Kle _ _ I).
    + left. reflexivity.
Qed.
End S.
