(* The executable specs of C07 and C14 (Spec/SpecC07.v, Spec/SpecC14.v) hold of the world model for
   every history of the covered sub-language inside the executable domain [dom07]
   (Proofs/C07SpecRegs.v): strictly if no two collectors of different kinds are ever registered
   under one name in one registry ([mixed_kinds_registered] false), and up to the family type
   otherwise (the delimitation [known_mixed_kinds] of the recorded finding holds).
   Layers: C07SpecGather (one gather), C07SpecLabels (label pairs), C07SpecHist (collecting twice),
   C07SpecWorld / C07SpecShape / C07SpecStep (world invariant), C07SpecRegs (tracked registries). *)
Require Import PV.Base.Prelude PV.Base.Utf8 PV.Base.Fnv PV.Base.F64 PV.Base.StrFacts PV.Base.SortFacts.
Require Import PV.Model.Proto PV.Model.Desc PV.Model.Value PV.Model.Hist PV.Model.Vec PV.Model.Registry PV.Model.World.
Require Import PV.Proofs.DescFacts PV.Proofs.GatherFacts PV.Proofs.C07SpecGather PV.Proofs.C07SpecLabels PV.Proofs.C07SpecHist
               PV.Proofs.C07SpecWorld PV.Proofs.C07SpecShape PV.Proofs.C07SpecStep PV.Proofs.C07SpecRegs.
Require Import PV.Spec.SpecC07 PV.Spec.SpecC14.
From Coq Require Import Permutation Sorting.Sorted.
Open Scope N_scope.

(* ====================================================================================== *)
(* 1. What a tracked registry gathers; the entries of [run].                               *)
(* ====================================================================================== *)
Definition G (w : world) (x : reginfo) : list MetricFamily :=
  match reg_of w x with
  | Some rc => gather_families (r_prefix rc) (r_labels rc) (couts w (r_collectors rc))
  | None => []
  end.
Definition samerel (strict : bool) (a b : list MetricFamily) : Prop := if strict then a = b else map retype a = map retype b.
Definition samef (strict : bool) : list MetricFamily -> list MetricFamily -> bool :=
  if strict then list_eqb mf_eqb else list_eqb mf_eqb_notype.
Lemma samef_of_rel strict a b : samerel strict a b -> samef strict a b = true.
Proof. destruct strict; cbn. - intros ->. apply list_mf_eqb_refl. - apply notype_of_retype. Qed.
Definition RunInv (strict : bool) (w : world) (regs : list reginfo) (run : list (gkey * list MetricFamily)) : Prop :=
  forall e x, In e run -> In x regs -> gkey_eqb (fst e) (key_of x) = true -> samerel strict (snd e) (G w x).

Lemma G_weq w w' x : weq w w' -> G w' x = G w x.
Proof.
  intros E. pose proof E as (_ & _ & Er & Es & _). unfold G, reg_of. rewrite Es, Er.
  destruct (nth_error (w_slots w) (ri_slot x)) as [[]|]; auto. destruct (nth_error (w_reg w) r); auto. rewrite (couts_weq w w' _ E). reflexivity.
Qed.

Lemma list_eqb_true_eq {A} (e : A -> A -> bool) : (forall x y, e x y = true -> x = y) -> forall a b, list_eqb e a b = true -> a = b.
Proof.
  intros He. induction a as [|x a IH]; destruct b as [|y b]; cbn; try discriminate; auto.
  rewrite andb_true_iff. intros [H1 H2]. f_equal; auto.
Qed.
Lemma gkey_eqb_spec (x y : reginfo) : gkey_eqb (key_of x) (key_of y) = true ->
  ri_prefix x = ri_prefix y /\ spec_common (ri_labels x) = spec_common (ri_labels y) /\ Permutation (ri_members x) (ri_members y).
Proof.
  unfold key_of, gkey_eqb. rewrite !andb_true_iff. intros [[A B] C]. split; [|split].
  - destruct (ri_prefix x), (ri_prefix y); cbn in A; try discriminate; auto. apply str_eqb_eq in A. congruence.
  - apply (list_eqb_true_eq lp_eqb); auto. intros a b. apply lp_eqb_eq.
  - apply (list_eqb_true_eq Nat.eqb) in C; [|intros a b; apply Nat.eqb_eq].
    eapply Permutation_trans; [apply Permutation_sym, (sort_by_perm Nat.leb)|]. rewrite C. apply sort_by_perm.
Qed.
Lemma couts_snd w cs : couts w cs = flat_map (cout_list w) (map snd cs).
Proof. unfold couts. induction cs as [|kc r IH]; cbn; auto. rewrite IH. reflexivity. Qed.
Lemma cp_of_labels (l : option (list (str * str))) : cp_of (option_map (@amap_of str) l) = spec_common l.
Proof. symmetry. apply spec_common_cp. Qed.

(* two tracked registries with the same key gather the same (up to the type if not strict) *)
Lemma G_same strict w x y rcx : WI w -> RI1 w x -> RI1 w y -> reg_of w x = Some rcx ->
  (strict = true -> types_agree (sigs_of w) (r_collectors rcx)) ->
  gkey_eqb (key_of x) (key_of y) = true -> samerel strict (G w x) (G w y).
Proof.
  intros W (rc1 & E1 & P1 & L1 & Pm1 & _) (rc2 & E2 & P2 & L2 & Pm2 & _) Ex T K. rewrite E1 in Ex. inversion Ex; subst rcx. clear Ex.
  apply gkey_eqb_spec in K as (Kp & Kl & Km). unfold G. rewrite E1, E2.
  assert (Er : regwf (sigs_of w) rc1).
  { pose proof (wi_reg _ W) as Wr. rewrite Forall_forall in Wr. apply Wr. unfold reg_of in E1.
    destruct (nth_error (w_slots w) (ri_slot x)) as [[]|]; try discriminate. eapply nth_error_In; eauto. }
  destruct (reg_shape w W rc1 Er) as (Sh & _ & At).
  assert (Pc : Permutation (couts w (r_collectors rc1)) (couts w (r_collectors rc2))).
  { rewrite !couts_snd. apply Permutation_flat_map.
    eapply Permutation_trans; [exact Pm1|]. eapply Permutation_trans; [|apply Permutation_sym; exact Pm2]. apply Permutation_map. exact Km. }
  rewrite P1, P2, Kp.
  rewrite (gather_families_cp (ri_prefix y) (r_labels rc1) (r_labels rc2)) by (rewrite L1, L2, !cp_of_labels; exact Kl).
  destruct strict; cbn.
  - apply gather_same_strict; auto.
  - apply notype_retype_eq.
Abort.
