(* [fork of Proofs/C07Spec.v that allows custom collectors exposing no families: domain dom07c]
   The executable specs of C07 and C14 (Spec/SpecC07.v, Spec/SpecC14.v) hold of the world model for
   every history (all operations except OpCustom) inside the executable domain [dom07]
   (Proofs/C07SpecRegs.v): strictly if no two collectors of different kinds are ever registered
   under one name in one registry ([mixed_kinds_registered] false), and up to the family type
   otherwise (the delimitation [known_mixed_kinds] of the recorded finding holds).
   Layers: C07SpecGather (one gather), C07SpecLabels (label pairs), C07SpecHist (collecting twice),
   C07SpecWorld / C07SpecShape / C07SpecStep (world invariant), C07SpecRegs (tracked registries). *)
Require Import PV.Base.Prelude PV.Base.Utf8 PV.Base.Fnv PV.Base.F64 PV.Base.StrFacts PV.Base.SortFacts.
Require Import PV.Model.Proto PV.Model.Desc PV.Model.Value PV.Model.Hist PV.Model.Vec PV.Model.Registry PV.Model.World.
Require Import PV.Proofs.DescFacts PV.Proofs.GatherFacts PV.Proofs.C07SpecGather PV.Proofs.C07SpecLabels PV.Proofs.C07SpecHist
               PV.Proofs.C07SpecCustomWorld PV.Proofs.C07SpecCustomShape PV.Proofs.C07SpecCustomStep PV.Proofs.C07SpecCustomRegs.
Require Import PV.Spec.SpecC07 PV.Spec.SpecC14.
From Coq Require Import Permutation Sorting.Sorted.
Open Scope N_scope.

(* ====================================================================================== *)
(* 1. What a tracked registry gathers; the entries of [run].                               *)
(* ====================================================================================== *)
Definition G (gs : list handle) (w : world) (x : reginfo) : list MetricFamily :=
  match reg_of gs w x with
  | Some rc => gather_families (r_prefix rc) (r_labels rc) (couts w (r_collectors rc))
  | None => []
  end.
Definition samerel (strict : bool) (a b : list MetricFamily) : Prop := if strict then a = b else map retype a = map retype b.
Definition samef (strict : bool) : list MetricFamily -> list MetricFamily -> bool :=
  if strict then list_eqb mf_eqb else list_eqb mf_eqb_notype.
Lemma samef_of_rel strict a b : samerel strict a b -> samef strict a b = true.
Proof. destruct strict; cbn. - intros ->. apply list_mf_eqb_refl. - apply notype_of_retype. Qed.
Definition RunInv (strict : bool) (gs : list handle) (w : world) (regs : list reginfo) (run : list (gkey * list MetricFamily)) : Prop :=
  forall e x, In e run -> In x regs -> gkey_eqb (fst e) (key_of x) = true -> samerel strict (snd e) (G gs w x).

Lemma G_weq gs w w' x : weq w w' -> G gs w' x = G gs w x.
Proof.
  intros E. pose proof E as (_ & _ & Er & _ & _). unfold G, reg_of. rewrite Er.
  destruct (gslot gs (ri_slot x)); auto. destruct (nth_error (w_reg w) r); auto. rewrite (couts_weq w w' _ E). reflexivity.
Qed.
Lemma list_eqb_true_eq {A} (e : A -> A -> bool) : (forall x y, e x y = true -> x = y) -> forall a b, list_eqb e a b = true -> a = b.
Proof.
  intros He. induction a as [|x a IH]; destruct b as [|y b]; cbn; try discriminate; auto.
  rewrite andb_true_iff. intros [H1 H2]. f_equal; auto.
Qed.
Lemma gkey_eqb_spec (x y : reginfo) : gkey_eqb (key_of x) (key_of y) = true ->
  ri_prefix x = ri_prefix y /\ spec_common (ri_labels x) = spec_common (ri_labels y) /\ Permutation (ri_members x) (ri_members y).
Proof.
  unfold key_of, gkey_eqb. rewrite !andb_true_iff. intros [[A B] C]. split; [|split].
  - destruct (ri_prefix x), (ri_prefix y); cbn in A; try discriminate; auto. apply str_eqb_eq in A. congruence.
  - apply (list_eqb_true_eq lp_eqb); auto. intros a b. apply lp_eqb_eq.
  - apply (list_eqb_true_eq Nat.eqb) in C; [|intros a b; apply Nat.eqb_eq].
    eapply Permutation_trans; [apply Permutation_sym, (sort_by_perm Nat.leb)|]. rewrite C. apply sort_by_perm.
Qed.
Lemma couts_snd w cs : couts w cs = flat_map (cout_list w) (map snd cs).
Proof. unfold couts. induction cs as [|kc r IH]; cbn; auto. rewrite IH. reflexivity. Qed.
Lemma cp_of_labels (l : option (list (str * str))) : cp_of (option_map (@amap_of str) l) = spec_common l.
Proof. symmetry. apply spec_common_cp. Qed.

Lemma gather_same_retype p l c c' : Permutation c c' -> lib_shape c ->
  map retype (gather_families p l c) = map retype (gather_families p l c').
Proof.
  intros P S. rewrite <- !gather_retype. apply gather_same_strict.
  - apply Permutation_map; auto.
  - apply lib_shape_retype; auto.
  - apply agree_type_retype.
Qed.

(* two tracked registries with the same key gather the same (up to the type if not strict) *)
Lemma regwf_at w ri rc : WI w -> nth_error (w_reg w) ri = Some rc -> regwf (sigs_of w) rc.
Proof. intros W E. pose proof (wi_reg _ W) as Wr. rewrite Forall_forall in Wr. apply Wr. eapply nth_error_In; eauto. Qed.
Lemma reg_of_wf gs w x rc : WI w -> reg_of gs w x = Some rc -> regwf (sigs_of w) rc.
Proof. intros W E. unfold reg_of in E. destruct (gslot gs (ri_slot x)); try discriminate. eapply regwf_at; eauto. Qed.
Lemma G_same strict gs w x y rcx : WI w -> RI1 gs w x -> RI1 gs w y -> reg_of gs w x = Some rcx ->
  (strict = true -> types_agree (sigs_of w) (r_collectors rcx)) ->
  gkey_eqb (key_of x) (key_of y) = true -> samerel strict (G gs w x) (G gs w y).
Proof.
  intros W (rc1 & E1 & P1 & L1 & Pm1 & _) (rc2 & E2 & P2 & L2 & Pm2 & _) Ex T K. rewrite E1 in Ex. inversion Ex; subst rcx. clear Ex.
  apply gkey_eqb_spec in K as (Kp & Kl & Km). unfold G. rewrite E1, E2.
  pose proof (reg_of_wf _ _ _ _ W E1) as Er.
  destruct (reg_shape w W rc1 Er) as (Sh & _ & At).
  assert (Pc : Permutation (couts w (r_collectors rc1)) (couts w (r_collectors rc2))).
  { rewrite !couts_snd. apply Permutation_flat_map.
    eapply Permutation_trans; [exact Pm1|]. eapply Permutation_trans; [|apply Permutation_sym; exact Pm2]. apply Permutation_map. exact Km. }
  rewrite P1, P2, Kp.
  rewrite (gather_families_cp (ri_prefix y) (r_labels rc1) (r_labels rc2)) by (rewrite L1, L2, !cp_of_labels; exact Kl).
  destruct strict; cbn.
  - apply gather_same_strict; auto.
  - apply gather_same_retype; auto.
Qed.

Lemma RI_in gs w regs x : RI gs w regs -> In x regs -> RI1 gs w x.
Proof. intros R H. unfold RI in R. rewrite Forall_forall in R. auto. Qed.
Lemma reg_of_slot gs w x ri rc : reg_of gs w x = Some rc -> gslot gs (ri_slot x) = HRegistry ri -> nth_error (w_reg w) ri = Some rc.
Proof. unfold reg_of. intros H E. rewrite E in H. exact H. Qed.
Lemma GI_reg gs w r ri : GI gs w -> slot w r = HRegistry ri -> gslot gs r = HRegistry ri.
Proof. intros G0 H. rewrite (GI_real gs w r G0); auto. rewrite H. reflexivity. Qed.

Lemma gather_case strict gs w regs run r x ri rc fs w' :
  WI w -> GI gs w -> RI gs w regs -> RunInv strict gs w regs run -> ri_find r regs = Some x -> slot w r = HRegistry ri ->
  nth_error (w_reg w) ri = Some rc -> collect_all w (r_collectors rc) = Some (fs, w') ->
  (strict = true -> types_agree (sigs_of w) (r_collectors rc)) ->
  let fams := gather_families (r_prefix rc) (r_labels rc) fs in
  chk_c07 strict w x fams = true
  /\ forallb (fun e => negb (gkey_eqb (fst e) (key_of x)) || samef strict (snd e) fams) run = true
  /\ RunInv strict gs w' regs ((key_of x, fams) :: run)
  /\ (strict = true -> forallb family_homogeneous fams = true) /\ weq w w'.
Proof.
  intros W G0 R Ru Hf Hs Hr Hc T. cbv zeta. apply ri_find_some in Hf as [Hx Ex].
  pose proof (RI_in _ _ _ _ R Hx) as R1. pose proof R1 as (rc1 & E1 & P1 & L1 & Pm1 & Fm1).
  rewrite <- Ex in Hs. pose proof (reg_of_slot _ _ _ _ _ E1 (GI_reg _ _ _ _ G0 Hs)) as Hr'. rewrite Hr in Hr'. inversion Hr'; subst rc1. clear Hr'.
  destruct (collect_all_pure _ _ _ _ (WI_WQ _ W) Hc) as [Efs Hw]. subst fs.
  assert (EG : gather_families (r_prefix rc) (r_labels rc) (couts w (r_collectors rc)) = G gs w x) by (unfold G; rewrite E1; reflexivity).
  pose proof (regwf_at _ _ _ W Hr) as Er. destruct (reg_shape w W rc Er) as (Sh & Pay & At).
  split; [|split; [|split; [|split]]]; auto.
  - unfold chk_c07, collected_now. rewrite Hs, Hr, Hc. rewrite P1, L1. apply gather_ok_model; auto.
  - apply forallb_forall. intros e He. destruct (gkey_eqb (fst e) (key_of x)) eqn:K; cbn [negb orb]; auto.
    apply samef_of_rel. rewrite EG. apply (Ru e x); auto.
  - intros e y [<-|He] Hy K; cbn [fst snd] in *.
    + rewrite (G_weq _ _ _ _ Hw), EG. eapply G_same; eauto. apply (RI_in _ _ _ _ R Hy).
    + rewrite (G_weq _ _ _ _ Hw). apply Ru; auto.
  - intros Es. apply gather_homogeneous_b; auto.
Qed.

(* ====================================================================================== *)
(* 2. The bookkeeping of [mixed_walk] against the world.                                   *)
(* ====================================================================================== *)
Definition sent (gs : list handle) (w : world) (s : nat) : option (ckind * str) := went (sigs_of w) (gslot gs s).
Definition nomix (es : list (ckind * str)) : Prop := forall e e', In e es -> In e' es -> snd e = snd e' -> fst e = fst e'.
Definition ents (gs : list handle) (w : world) (members : list nat) : list (ckind * str) :=
  flat_map (fun s => match sent gs w s with Some e => [e] | None => [] end) members.
Definition MI1 (gs : list handle) (w : world) (rk : list (nat * list (ckind * str))) (x : reginfo) : Prop :=
  exists es, In (ri_slot x, es) rk /\ Permutation es (ents gs w (ri_members x)) /\ nomix es.
Record MI (gs : list handle) (w : world) (sk : list (option (ckind * str))) (rk : list (nat * list (ckind * str))) (regs : list reginfo) : Prop := mkMI {
  mi_len : length sk = length gs;
  mi_ent : forall s, is_mem (gslot gs s) = true -> nth s sk None = sent gs w s;
  mi_regs : Forall (MI1 gs w rk) regs }.
Lemma ctype_lib S c : ctypeS S c = COUNTER \/ ctypeS S c = GAUGE \/ ctypeS S c = HISTOGRAM.
Proof.
  destruct c; cbn; auto.
  - destruct (nth_error (VS S) c) as [[[d t] l]|]; auto. destruct t; auto.
  - destruct (nth_error (CS S) v) as [[[d o] k]|]; auto. destruct k as [t k|bs]; cbn; auto. destruct t; auto.
Qed.
Lemma kind_of_inj S a b : kind_of (ctypeS S a) = kind_of (ctypeS S b) -> ctypeS S a = ctypeS S b.
Proof.
  destruct (ctype_lib S a) as [-> | [-> | ->]], (ctype_lib S b) as [-> | [-> | ->]]; cbn; congruence.
Qed.
Lemma clib_cofh_coll S h : clibS S (cofh h) -> is_coll h = true.
Proof. destruct h; cbn; try tauto; try reflexivity. Qed.
Lemma MI_types gs w rk x rc : RI1 gs w x -> MI1 gs w rk x -> reg_of gs w x = Some rc -> types_agree (sigs_of w) (r_collectors rc).
Proof.
  intros (rc1 & E1 & _ & _ & Pm & Fm) (es & _ & Pe & Nm) Er. rewrite E1 in Er. inversion Er; subst rc1. clear Er.
  assert (Hent : forall a, In a (r_collectors rc) -> clibS (sigs_of w) (snd a) ->
            In (kind_of (ctypeS (sigs_of w) (snd a)), d_fq_name (cdescS (sigs_of w) (snd a))) es).
  { intros a Ha La. assert (Hin : In (snd a) (map (cof gs) (ri_members x))).
    { eapply Permutation_in; [exact Pm|]. apply in_map. exact Ha. }
    apply in_map_iff in Hin as (s & Es & Hs). unfold cof in Es. rewrite <- Es in La. pose proof (clib_cofh_coll _ _ La) as Hcl.
    eapply Permutation_in; [apply Permutation_sym; exact Pe|]. unfold ents. apply in_flat_map. exists s. split; auto.
    unfold sent, went. rewrite Hcl, Es. left. reflexivity. }
  intros a b Ha Hb La Lb En. apply kind_of_inj. apply (Nm _ _ (Hent a Ha La) (Hent b Hb Lb)). exact En.
Qed.

(* ====================================================================================== *)
(* 3. One step of the spec's walk, of [mixed_walk] and of the domain.                      *)
(* ====================================================================================== *)
Definition sk_next (sk : list (option (ckind * str))) (o : op) (ob : obs) := match slot_entry o ob sk with Some e => sk ++ [e] | None => sk end.
Definition add_entry (r : nat) (e : ckind * str) (x : nat * list (ckind * str)) := if Nat.eqb (fst x) r then (fst x, e :: snd x) else x.
Definition del_entry (r : nat) (e : ckind * str) (x : nat * list (ckind * str)) := if Nat.eqb (fst x) r then (fst x, remove_entry e (snd x)) else x.
Definition mixes (r : nat) (e : ckind * str) (rk : list (nat * list (ckind * str))) : bool :=
  existsb (fun x => Nat.eqb (fst x) r && existsb (fun e' => str_eqb (snd e') (snd e) && negb (ckind_eqb (fst e') (fst e))) (snd x)) rk.
Definition rk_next (sk : list (option (ckind * str))) (rk : list (nat * list (ckind * str))) (o : op) (ob : obs) :=
  match o, ob with
  | OpRegistry _ _, ORes (Ok _) => (length sk, []) :: rk
  | OpRegister r s, ORes (Ok _) => match nth s sk None with Some e => map (add_entry r e) rk | None => rk end
  | OpUnregister r s, ORes (Ok _) => match nth s sk None with Some e => map (del_entry r e) rk | None => rk end
  | _, _ => rk
  end.
Lemma mixed_step sk rk o ob ops obs : mixed_walk sk rk (o :: ops) (ob :: obs) = false ->
  mixed_walk (sk_next sk o ob) (rk_next sk rk o ob) ops obs = false
  /\ (forall r s u e, o = OpRegister r s -> ob = ORes (Ok u) -> nth s sk None = Some e -> mixes r e rk = false).
Proof.
  cbn [mixed_walk]. fold (sk_next sk o ob). unfold rk_next.
  destruct o as [| | | | | | | | | | | | | | | | | | | | | | | | | | | | | | | | | | |r1 s1|r1 s1| | | | | | | ];
    try (intros H; split; [exact H|intros; discriminate]);
    destruct ob as [| [u|e0] | | | | | | | | | | | |]; try (intros H; split; [exact H|intros; discriminate]).
  - destruct (nth s1 sk None) as [e|] eqn:En.
    + intros H. apply orb_false_iff in H as [A B]. split; [exact B|]. intros r' s' u' e' Eo _ En'. inversion Eo; subst. rewrite En in En'. inversion En'; subst. exact A.
    + intros H. split; [exact H|]. intros r' s' u' e' Eo _ En'. inversion Eo; subst. congruence.
  - destruct (nth s1 sk None) as [e|] eqn:En; intros H; split; auto; intros; discriminate.
Qed.
Lemma walk_nongather chk same w regs run o ob ops obs : (forall r, o <> OpGather r) ->
  walk chk same w regs run (o :: ops) (ob :: obs) = walk chk same (fst (step w o)) (track w regs o ob) [] ops obs.
Proof.
  intros H. cbn [walk]. destruct o; try reflexivity; try (destruct ob as [| [u|e0] | | | | | | | | | | | |]; reflexivity).
  exfalso. eapply H; eauto.
Qed.
Lemma track_other w regs o ob : is_regop o = false -> track w regs o ob = regs.
Proof. destruct o; try discriminate; reflexivity. Qed.
Lemma rk_next_other sk rk o ob : is_regop o = false -> rk_next sk rk o ob = rk.
Proof. destruct o; try discriminate; reflexivity. Qed.
Lemma slot_entry_nopush o ob sk : pushes o = false -> slot_entry o ob sk = None.
Proof. destruct o; try discriminate; reflexivity. Qed.
Lemma slot_entry_push o ob sk : pushes o = true -> exists e, slot_entry o ob sk = Some e.
Proof. destruct o; try discriminate; cbn; eauto. Qed.
Lemma went_cust S h : is_cust h = true -> went S h = None.
Proof. destruct h; try discriminate. reflexivity. Qed.
Lemma slot_entry_spec o ob sk w w' h : is_ok ob = true -> entry_spec w w' o h ->
  (forall s, is_coll (slot w s) = true -> nth s sk None = went (sigs_of w) (slot w s)) -> slot_entry o ob sk = Some (went (sigs_of w') h).
Proof.
  intros Ho He Hm. destruct o; cbn [entry_spec] in He; try contradiction; cbn [slot_entry]; try rewrite Ho; try (rewrite He; reflexivity);
    try (rewrite (went_cust _ _ He); reflexivity);
    destruct He as [Hc He]; rewrite (Hm _ Hc); rewrite He; reflexivity.
Qed.

Lemma is_coll_stable h : is_coll h = true -> stable h = true.
Proof. intros H. unfold stable. rewrite H. reflexivity. Qed.
Lemma sent_frame gs gs' w w' s : GI gs w -> frame w w' -> sagree gs gs' -> is_mem (gslot gs s) = true ->
  gslot gs' s = gslot gs s /\ sent gs' w' s = sent gs w s.
Proof.
  intros G0 (Hs & _) (_ & Sf & _) Hc. pose proof (Sf s (is_mem_stable _ Hc)) as E. split; auto.
  unfold sent. rewrite E. apply went_mono; auto. intros Hcl. apply clib_of_slotwf; auto. apply GI_wf; auto.
Qed.
Lemma ents_frame gs gs' w w' m : GI gs w -> frame w w' -> sagree gs gs' -> Forall (fun s => is_mem (gslot gs s) = true) m ->
  ents gs' w' m = ents gs w m.
Proof.
  intros G0 F Sa Fm. unfold ents. induction Fm as [|s m Hs Fm IH]; cbn [flat_map]; auto.
  rewrite (proj2 (sent_frame gs gs' w w' s G0 F Sa Hs)), IH. reflexivity.
Qed.
Lemma MI1_frame gs gs' w w' rk x : GI gs w -> frame w w' -> sagree gs gs' -> RI1 gs w x -> MI1 gs w rk x -> MI1 gs' w' rk x.
Proof.
  intros G0 F Sa (rc & _ & _ & _ & _ & Fm) (es & A & B & C). exists es. split; auto. split; auto.
  rewrite (ents_frame gs gs' w w' _ G0 F Sa Fm). exact B.
Qed.

Record INVg (strict : bool) (gs : list handle) (w : world) (regs : list reginfo) (sk : list (option (ckind * str))) (rk : list (nat * list (ckind * str))) : Prop := mkINV {
  i_wi : WI w; i_gi : GI gs w; i_ri : RI gs w regs; i_tr : Tracked gs regs; i_nd : NoDup (map ri_slot regs);
  i_mi : strict = true -> MI gs w sk rk regs }.
Definition INV strict w regs sk rk : Prop := exists gs, INVg strict gs w regs sk rk.

Lemma MI_regs_frame gs gs' w w' rk regs : GI gs w -> frame w w' -> sagree gs gs' -> RI gs w regs ->
  Forall (MI1 gs w rk) regs -> Forall (MI1 gs' w' rk) regs.
Proof.
  intros G0 F Sa R Mr. apply Forall_forall. intros x Hx. rewrite Forall_forall in Mr.
  apply (MI1_frame gs gs' w w' rk x G0 F Sa (RI_in _ _ _ _ R Hx) (Mr x Hx)).
Qed.
Lemma MI_push gs w w' sk rk regs o ob h : GI gs w -> RI gs w regs -> MI gs w sk rk regs -> frame w w' -> pushes o = true ->
  (is_mem h = true -> is_ok ob = true /\ entry_spec w w' o h) -> MI (gs ++ [h]) w' (sk_next sk o ob) rk regs.
Proof.
  intros G0 R [Ml Me Mr] F P Hh. unfold sk_next. destruct (slot_entry_push o ob sk P) as [e Ee]. rewrite Ee. split.
  - rewrite !app_length, Ml. reflexivity.
  - intros s Hc. destruct (Nat.lt_trichotomy s (length gs)) as [Hl|[Hl|Hl]].
    + rewrite gslot_snoc_old in Hc by auto. rewrite app_nth1 by lia. rewrite (Me s Hc). symmetry.
      apply (sent_frame gs (gs ++ [h]) w w' s G0 F (sagree_push gs h) Hc).
    + subst s. rewrite gslot_snoc_new in Hc. destruct (Hh Hc) as [Ho Hs].
      assert (Hm : forall s, is_coll (slot w s) = true -> nth s sk None = went (sigs_of w) (slot w s)).
      { intros s0 Hc0. pose proof (GI_real gs w s0 G0 (is_coll_stable _ Hc0)) as Eg. rewrite <- Eg in Hc0 |- *. apply Me.
        unfold is_mem. rewrite Hc0. reflexivity. }
      rewrite (slot_entry_spec o ob sk w w' h Ho Hs Hm) in Ee. inversion Ee; subst e.
      unfold sent. rewrite gslot_snoc_new. rewrite <- Ml, app_nth2 by lia. rewrite Nat.sub_diag. reflexivity.
    + exfalso. unfold gslot in Hc. rewrite nth_overflow in Hc; [discriminate|]. rewrite app_length. cbn. lia.
  - apply (MI_regs_frame gs (gs ++ [h]) w w' rk regs G0 F (sagree_push gs h) R Mr).
Qed.
Lemma MI_nopush gs gs' w w' sk rk regs o ob : GI gs w -> RI gs w regs -> MI gs w sk rk regs -> frame w w' -> pushes o = false ->
  sagree gs gs' -> length gs' = length gs -> MI gs' w' (sk_next sk o ob) rk regs.
Proof.
  intros G0 R [Ml Me Mr] F P Sa El. unfold sk_next. rewrite (slot_entry_nopush o ob sk P). split.
  - congruence.
  - intros s Hc. pose proof Sa as (_ & _ & Sb).
    assert (Hl : (s < length gs)%nat) by (rewrite <- El; apply gslot_lt; intros E; rewrite E in Hc; discriminate).
    pose proof (Sb s Hl (is_mem_stable _ Hc)) as E. rewrite E in Hc. rewrite (Me s Hc). symmetry.
    apply (sent_frame gs gs' w w' s G0 F Sa Hc).
  - apply (MI_regs_frame gs gs' w w' rk regs G0 F Sa R Mr).
Qed.

Lemma INV_of_res strict w regs sk rk o w' ob : INV strict w regs sk rk -> step_res w o w' ob ->
  INV strict w' regs (sk_next sk o ob) rk.
Proof.
  intros [gs [W G0 R T ND M]] [[W' F] Er Sl].
  assert (Hregs : forall ri rc, nth_error (w_reg w) ri = Some rc -> nth_error (w_reg w') ri = Some rc) by (rewrite Er; auto).
  destruct (pushes o) eqn:P.
  - destruct Sl as (h & Es & Nr & Hh). exists (gs ++ [h]).
    assert (Hw : slotwf w' h).
    { pose proof (wi_slots _ W') as Ws. rewrite Forall_forall in Ws. apply Ws. rewrite Es. apply in_or_app. right. left. reflexivity. }
    split; auto.
    + eapply ghost_push; eauto.
    + apply Forall_forall. intros x Hx. eapply RI1_frame; [apply sagree_push|exact Hregs|apply (RI_in _ _ _ _ R Hx)].
    + eapply Tracked_frame; [apply sagree_push| |exact T]. intros s Hs.
      destruct (Nat.eq_dec s (length gs)) as [->|Ne].
      * rewrite gslot_snoc_new. destruct h; try reflexivity. exfalso. eapply Nr; eauto.
      * unfold gslot. rewrite nth_overflow; [reflexivity|]. rewrite app_length. cbn. lia.
    + intros Es'. apply (MI_push gs w w' sk rk regs o ob h G0 R (M Es') F P Hh).
  - assert (Hg : exists gs', GI gs' w' /\ sagree gs gs' /\ length gs' = length gs).
    { destruct Sl as [Sl|(s & h0 & h' & En & Sl & Hn & Hst & Hd)].
      - exists gs. split; [eapply ghost_same; eauto|]. split; [apply sagree_refl|reflexivity].
      - eapply ghost_put; eauto. }
    destruct Hg as (gs' & G' & Sa & El). exists gs'. split; auto.
    + apply Forall_forall. intros x Hx. eapply RI1_frame; [exact Sa|exact Hregs|apply (RI_in _ _ _ _ R Hx)].
    + eapply Tracked_frame; [exact Sa| |exact T]. intros s Hs. unfold gslot. rewrite nth_overflow; [reflexivity|lia].
    + intros Es'. apply (MI_nopush gs gs' w w' sk rk regs o ob G0 R (M Es') F P Sa El).
Qed.
Lemma INV_other strict w regs sk rk o : INV strict w regs sk rk -> op_lang o = true -> clone_ok w o = true -> is_regop o = false ->
  INV strict (fst (step w o)) (track w regs o (snd (step w o))) (sk_next sk o (snd (step w o))) (rk_next sk rk o (snd (step w o))).
Proof.
  intros I Hl Hc Hr. rewrite track_other, rk_next_other by auto. apply (INV_of_res strict w); auto. apply step_other; auto.
  destruct I as [gs I]. apply I.
Qed.

(* ---------- OpRegistry ---------- *)
Lemma reg_new_custom_ok p lab (r : regcore collector) : reg_new_custom p lab = Ok r -> r = mkReg [] [] [] lab p.
Proof. unfold reg_new_custom. destruct (_ || _); [discriminate|]. intros H. inversion H. reflexivity. Qed.
Lemma opt_amap (l : option (list (str * str))) : match l with Some l0 => Some (amap_of l0) | None => None end = option_map (@amap_of str) l.
Proof. destruct l; reflexivity. Qed.

Lemma RI1_reg_lt gs w x : RI1 gs w x -> (ri_slot x < length gs)%nat.
Proof.
  intros (rc & Er & _). unfold reg_of in Er. apply gslot_lt. intros E. rewrite E in Er. discriminate.
Qed.
Lemma INV_registry strict w regs sk rk p l r : INV strict w regs sk rk ->
  reg_new_custom p (option_map (@amap_of str) l) = Ok r ->
  INV strict (push_slot (set_reg w (w_reg w ++ [r])) (HRegistry (length (w_reg w))))
      (mkRI (length (w_slots w)) p l [] :: regs) (sk ++ [None]) ((length sk, []) :: rk).
Proof.
  intros [gs [W G0 R T ND M]] Hr. apply reg_new_custom_ok in Hr.
  assert (F : WF w (push_slot (set_reg w (w_reg w ++ [r])) (HRegistry (length (w_reg w))))) by (apply P_newreg; auto; rewrite Hr; reflexivity).
  set (w' := push_slot (set_reg w (w_reg w ++ [r])) (HRegistry (length (w_reg w)))) in *.
  pose proof (GI_len _ _ G0) as Hlen. set (hn := HRegistry (length (w_reg w))) in *.
  assert (Sa : sagree gs (gs ++ [hn])) by apply sagree_push.
  assert (Hregs : forall ri rc, nth_error (w_reg w) ri = Some rc -> nth_error (w_reg w') ri = Some rc).
  { intros ri rc H. cbn. rewrite nth_error_app1; auto. apply nth_error_Some. congruence. }
  exists (gs ++ [hn]). split.
  - apply F.
  - pose proof G0 as (A & B & C). split; [|split].
    + cbn [w' push_slot set_slots w_slots]. apply Forall2_app; auto. constructor; [left; reflexivity|constructor].
    + apply Forall_app. split; [eapply GI_frame_wf; [apply F|exact B]|]. constructor; auto. cbn. rewrite app_length. cbn. lia.
    + rewrite regslots_app, C. cbn. rewrite app_length. cbn. rewrite seq_app. reflexivity.
  - constructor.
    + exists r. unfold reg_of. cbn [ri_slot]. rewrite <- Hlen, gslot_snoc_new. cbn [hn w' push_slot set_slots set_reg w_reg].
      rewrite nth_error_app2 by lia. rewrite Nat.sub_diag. cbn. rewrite Hr. cbn. repeat split; auto.
    + apply Forall_forall. intros x Hx. eapply RI1_frame; [exact Sa|exact Hregs|apply (RI_in _ _ _ _ R Hx)].
  - intros s ri H. destruct (Nat.lt_trichotomy s (length gs)) as [Hl|[Hl|Hl]].
    + rewrite gslot_snoc_old in H by auto. destruct (T s ri H) as (x & Hx & Ex). exists x. split; [right|]; auto.
    + subst s. eexists. split; [left; reflexivity|]. cbn. congruence.
    + exfalso. unfold gslot in H. rewrite nth_overflow in H; [discriminate|]. rewrite app_length. cbn. lia.
  - cbn [map ri_slot]. constructor; auto. intros Hin. apply in_map_iff in Hin as (x & Ex & Hx).
    pose proof (RI1_reg_lt _ _ _ (RI_in _ _ _ _ R Hx)). lia.
  - intros Es. destruct (M Es) as [Ml Me Mr]. split.
    + rewrite !app_length, Ml. reflexivity.
    + intros s Hc. destruct (Nat.lt_trichotomy s (length gs)) as [Hl|[Hl|Hl]].
      * rewrite gslot_snoc_old in Hc by auto. rewrite app_nth1 by lia. rewrite (Me s Hc). symmetry.
        apply (sent_frame gs (gs ++ [hn]) w w' s G0 (proj2 F) Sa Hc).
      * subst s. rewrite gslot_snoc_new in Hc. discriminate.
      * exfalso. unfold gslot in Hc. rewrite nth_overflow in Hc; [discriminate|]. rewrite app_length. cbn. lia.
    + constructor.
      * exists []. cbn [ri_slot ri_members map]. split; [left; rewrite Ml, Hlen; reflexivity|]. split; [constructor|]. intros e e' [].
      * apply Forall_forall. intros x Hx. rewrite Forall_forall in Mr.
        destruct (MI1_frame gs (gs ++ [hn]) w w' rk x G0 (proj2 F) Sa (RI_in _ _ _ _ R Hx) (Mr x Hx)) as (es & A1 & B1 & C1). exists es. split; [right|]; auto.
Qed.

(* ---------- OpRegister / OpUnregister ---------- *)
Lemma ri_update_map r f regs : map ri_slot (ri_update r f regs) = map ri_slot regs.
Proof. unfold ri_update. rewrite map_map. apply map_ext. intros x. destruct (Nat.eqb (ri_slot x) r); reflexivity. Qed.
Lemma ri_update_in r f regs y : In y (ri_update r f regs) ->
  exists x, In x regs /\ y = (if Nat.eqb (ri_slot x) r then mkRI (ri_slot x) (ri_prefix x) (ri_labels x) (f (ri_members x)) else x).
Proof. unfold ri_update. intros H. apply in_map_iff in H as (x & E & Hx). eauto. Qed.

Lemma existsb_false {A} (f : A -> bool) l : existsb f l = false -> forall x, In x l -> f x = false.
Proof. induction l as [|y l IH]; cbn; [tauto|]. intros H x [<-|Hx]; apply orb_false_iff in H as [A1 B1]; auto. Qed.
Lemma ckind_eqb_eq a b : ckind_eqb a b = true <-> a = b.
Proof. destruct a, b; cbn; split; intros; try discriminate; auto. Qed.
Lemma remove_entry_perm e es : In e es -> Permutation es (e :: remove_entry e es).
Proof.
  induction es as [|x es IH]; cbn; [tauto|]. destruct (ckind_eqb (fst x) (fst e) && str_eqb (snd x) (snd e)) eqn:E.
  - apply andb_true_iff in E as [A B]. apply ckind_eqb_eq in A. apply str_eqb_eq in B. destruct x, e; cbn in *; subst. auto.
  - intros [H|H].
    + subst x. rewrite str_eqb_refl in E. replace (ckind_eqb (fst e) (fst e)) with true in E by (symmetry; apply ckind_eqb_eq; auto). discriminate.
    + rewrite (IH H) at 1. apply perm_swap.
Qed.
Lemma remove_entry_sub e es x : In x (remove_entry e es) -> In x es.
Proof. induction es as [|y es IH]; cbn; auto. destruct (_ && _); cbn; intros H; auto. destruct H; auto. Qed.

Section RegOps.
  Variables (strict : bool) (gs : list handle) (w : world) (regs : list reginfo) (sk : list (option (ckind * str))) (rk : list (nat * list (ckind * str))).
  Variables (r s ri : nat) (c : collector) (ds : list Desc) (rc rc' : regcore collector).
  Hypothesis I : INVg strict gs w regs sk rk.
  Hypothesis Hr : slot w r = HRegistry ri.
  Hypothesis Hc : collector_of w (slot w s) = Some (c, ds).
  Hypothesis Hn : nth_error (w_reg w) ri = Some rc.
  Let S := sigs_of w.
  Let w' := set_reg w (list_set (w_reg w) ri rc').

  Lemma ro_coll : is_mem (gslot gs s) = true /\ c = cof gs s /\ cokS S c /\ collector_id ds = ckeyG S c
    /\ ((is_coll (gslot gs s) = true /\ clibS S c) \/ (is_cust (gslot gs s) = true /\ is_ccustom c = true)).
  Proof.
    destruct (collector_of_spec w (slot w s) c ds (slot_wf w s (i_wi _ _ _ _ _ _ I)) Hc) as [(A & B & C & D)|(A & B & C)].
    - pose proof (GI_real gs w s (i_gi _ _ _ _ _ _ I) (is_coll_stable _ A)) as E. unfold cof. rewrite E.
      split; [unfold is_mem; rewrite A; reflexivity|]. split; auto. split; [left; auto|]. split; [|left; auto].
      rewrite C. destruct c; try reflexivity. destruct D.
    - assert (St : stable (slot w s) = true) by (unfold stable; rewrite A; apply orb_true_r).
      pose proof (GI_real gs w s (i_gi _ _ _ _ _ _ I) St) as E. unfold cof. rewrite E.
      split; [unfold is_mem; rewrite A; apply orb_true_r|]. split; auto. rewrite C. split; [right; exact Logic.I|]. split; [reflexivity|right; auto].
  Qed.
  Lemma ro_slot_r : gslot gs r = HRegistry ri.
  Proof. apply (GI_reg gs w r ri (i_gi _ _ _ _ _ _ I) Hr). Qed.
  Lemma ro_reg_of x : ri_slot x = r -> reg_of gs w x = Some rc.
  Proof. intros Ex. unfold reg_of. rewrite Ex, ro_slot_r. exact Hn. Qed.
  Lemma ro_other x : ri_slot x <> r -> RI1 gs w x -> RI1 gs w' x.
  Proof.
    intros Ne R1. apply RI_setreg_other; auto. intros E. apply Ne.
    apply (GI_reg_unique gs w _ _ ri (i_gi _ _ _ _ _ _ I) E ro_slot_r).
  Qed.
  Lemma ro_ri_lt : (ri < length (w_reg w))%nat.
  Proof. apply nth_error_Some. congruence. Qed.
  Lemma ro_reg_of' x : ri_slot x = r -> reg_of gs w' x = Some rc'.
  Proof. intros Ex. unfold reg_of. cbn [w' set_reg w_reg]. rewrite Ex, ro_slot_r. apply nth_list_set_eq. apply ro_ri_lt. Qed.
  Lemma ro_sent s0 : sent gs w' s0 = sent gs w s0.
  Proof. reflexivity. Qed.

  (* the invariants that do not depend on the members *)
  Lemma ro_common f regs' : regs' = ri_update r f regs -> regwf S rc' ->
    WI w' /\ GI gs w' /\ Tracked gs regs' /\ NoDup (map ri_slot regs').
  Proof.
    intros -> Hw. destruct I as [W G0 R T ND M]. pose proof (P_setreg w ri rc' W Hw) as F. split; [apply F|]. split; [|split].
    - destruct G0 as (A & B & C). split; [exact A|]. split; [eapply GI_frame_wf; [apply F|exact B]|].
      cbn [w' set_reg w_reg]. rewrite list_set_length. exact C.
    - intros s0 ri0 H. destruct (T s0 ri0 H) as (x & Hx & Ex). unfold ri_update.
      exists (if Nat.eqb (ri_slot x) r then mkRI (ri_slot x) (ri_prefix x) (ri_labels x) (f (ri_members x)) else x).
      split; [apply in_map_iff; eauto|]. destruct (Nat.eqb (ri_slot x) r); auto.
    - rewrite ri_update_map. exact ND.
  Qed.

  Lemma ents_cons m : ents gs w (s :: m) = match sent gs w s with Some e => e :: ents gs w m | None => ents gs w m end.
  Proof. unfold ents. cbn [flat_map]. destruct (sent gs w s); reflexivity. Qed.
  Lemma sent_cases : (is_coll (gslot gs s) = true /\ exists e0, sent gs w s = Some e0) \/ (is_cust (gslot gs s) = true /\ sent gs w s = None).
  Proof.
    destruct ro_coll as (_ & _ & _ & _ & [[A _]|[A _]]).
    - left. split; auto. unfold sent, went. rewrite A. eauto.
    - right. split; auto. apply went_cust. exact A.
  Qed.

  Lemma INV_register :
    reg_register rc ds c = Ok rc' -> is_ccustom c || register_compat S rc (cdescS S c) = true ->
    (strict = true -> forall e, nth s sk None = Some e -> mixes r e rk = false) ->
    INVg strict gs w' (ri_update r (fun m => s :: m) regs) sk (match nth s sk None with Some e => map (add_entry r e) rk | None => rk end).
  Proof.
    intros Hreg Hcomp Hmix. destruct ro_coll as (Cl & Ec & Lc & Ek & Hcase). pose proof I as [W G0 R T ND M].
    pose proof (reg_register_gen _ _ _ _ Hreg) as (_ & Ecs & Ep & El).
    assert (Hw : regwf S rc').
    { eapply (register_regwf S rc c ds rc'); eauto; [apply (regwf_at w ri rc W Hn)|]. intros L.
      destruct c; cbn in L; try destruct L; cbn [is_ccustom orb] in Hcomp; exact Hcomp. }
    destruct (ro_common (fun m => s :: m) _ eq_refl Hw) as (W' & G' & T' & ND').
    split; auto.
    - apply Forall_forall. intros y Hy. apply ri_update_in in Hy as (x & Hx & ->). pose proof (RI_in _ _ _ _ R Hx) as R1.
      destruct (Nat.eqb (ri_slot x) r) eqn:Ex; [|apply Nat.eqb_neq in Ex; apply ro_other; auto].
      apply Nat.eqb_eq in Ex. destruct R1 as (rc1 & E1 & P1 & L1 & Pm & Fm). rewrite (ro_reg_of x Ex) in E1. inversion E1; subst rc1.
      exists rc'. split; [apply ro_reg_of'; auto|]. cbn [ri_prefix ri_labels ri_members]. split; [congruence|]. split; [congruence|]. split.
      + rewrite Ecs, map_app. cbn [map snd]. rewrite Ec. eapply Permutation_trans; [apply Permutation_app_comm|]. cbn. constructor. exact Pm.
      + constructor; auto.
    - intros Es. destruct (M Es) as [Ml Me Mr]. rewrite (Me s Cl).
      destruct sent_cases as [(Hcl & e0 & Ee)|(Hcu & Ee)]; rewrite Ee.
      + assert (En : nth s sk None = Some e0) by (rewrite (Me s Cl); exact Ee).
        assert (Hm0 : mixes r e0 rk = false) by (apply Hmix; auto).
        split; auto. apply Forall_forall. intros y Hy. apply ri_update_in in Hy as (x & Hx & ->). rewrite Forall_forall in Mr.
        destruct (Mr x Hx) as (es & A & B & C). destruct (Nat.eqb (ri_slot x) r) eqn:Ex.
        * apply Nat.eqb_eq in Ex. exists (e0 :: es). cbn [ri_slot ri_members]. split; [|split].
          -- apply in_map_iff. exists (ri_slot x, es). split; auto. unfold add_entry. cbn [fst snd]. rewrite Ex, Nat.eqb_refl. reflexivity.
          -- change (ents gs w' (s :: ri_members x)) with (ents gs w (s :: ri_members x)). rewrite ents_cons, Ee. constructor. exact B.
          -- assert (Hn0 : forall e', In e' es -> snd e' = snd e0 -> fst e' = fst e0).
             { intros e' He' En'. unfold mixes in Hm0. pose proof (existsb_false _ _ Hm0 _ A) as X. cbn [fst snd] in X.
               rewrite Ex, Nat.eqb_refl in X. cbn [andb] in X. pose proof (existsb_false _ _ X _ He') as Y. cbn beta in Y.
               rewrite En', str_eqb_refl in Y. cbn [andb] in Y. apply negb_false_iff in Y. apply ckind_eqb_eq. exact Y. }
             intros e1 e2 [<-|H1] [<-|H2] E12; auto. symmetry. apply Hn0; auto.
        * exists es. cbn. split; [|split; auto]. apply in_map_iff. exists (ri_slot x, es). split; auto. unfold add_entry. cbn [fst]. rewrite Ex. reflexivity.
      + split; auto. apply Forall_forall. intros y Hy. apply ri_update_in in Hy as (x & Hx & ->). rewrite Forall_forall in Mr.
        destruct (Mr x Hx) as (es & A & B & C). exists es. destruct (Nat.eqb (ri_slot x) r) eqn:Ex; cbn [ri_slot ri_members]; split; auto; split; auto.
        change (ents gs w' (s :: ri_members x)) with (ents gs w (s :: ri_members x)). rewrite ents_cons, Ee. exact B.
  Qed.

  Lemma INV_unregister :
    reg_unregister rc ds = Ok rc' ->
    (forall x, In x regs -> ri_slot x = r -> In s (ri_members x)) ->
    INVg strict gs w' (ri_update r (remove_nat s) regs) sk (match nth s sk None with Some e => map (del_entry r e) rk | None => rk end).
  Proof.
    intros Hreg Hmem. destruct ro_coll as (Cl & Ec & Lc & Ekk & Hcase). pose proof I as [W G0 R T ND M].
    pose proof (reg_unregister_spec _ _ _ Hreg) as (Ecs & Ep & El).
    pose proof (regwf_at w ri rc W Hn) as Hw0.
    assert (Hw : regwf S rc') by (eapply unregister_regwf; eauto).
    destruct (ro_common (remove_nat s) _ eq_refl Hw) as (W' & G' & T' & ND').
    split; auto.
    - apply Forall_forall. intros y Hy. apply ri_update_in in Hy as (x & Hx & ->). pose proof (RI_in _ _ _ _ R Hx) as R1.
      destruct (Nat.eqb (ri_slot x) r) eqn:Ex; [|apply Nat.eqb_neq in Ex; apply ro_other; auto].
      apply Nat.eqb_eq in Ex. pose proof (Hmem x Hx Ex) as Hs. destruct R1 as (rc1 & E1 & P1 & L1 & Pm & Fm).
      rewrite (ro_reg_of x Ex) in E1. inversion E1; subst rc1.
      exists rc'. split; [apply ro_reg_of'; auto|]. cbn [ri_prefix ri_labels ri_members]. split; [congruence|]. split; [congruence|]. split.
      + assert (Hin : In c (map snd (r_collectors rc))).
        { eapply Permutation_in; [apply Permutation_sym; exact Pm|]. rewrite Ec. apply in_map. exact Hs. }
        apply in_map_iff in Hin as ([k0 c0] & E0 & Hk). cbn in E0. subst c0.
        destruct Hw0 as (F0 & ND0 & _). rewrite Forall_forall in F0. destruct (F0 _ Hk) as [_ K0]. cbn [fst snd] in K0.
        assert (Ek : collector_id ds = k0) by (rewrite Ekk, K0; reflexivity).
        destruct (nremove_split k0 c (r_collectors rc) ND0 Hk) as (l1 & l2 & Esp & Enr).
        rewrite Ecs, Ek, Enr. rewrite Esp in Pm. rewrite map_app in *. cbn [map snd] in Pm.
        apply (Permutation_cons_inv (a := c)).
        eapply Permutation_trans; [apply Permutation_middle|]. eapply Permutation_trans; [exact Pm|].
        rewrite Ec. eapply Permutation_trans; [apply Permutation_map; apply remove_nat_perm; exact Hs|]. cbn [map]. apply Permutation_refl.
      + eapply Forall_sub; [|exact Fm]. intros z. apply remove_nat_sub.
    - intros Es. destruct (M Es) as [Ml Me Mr]. rewrite (Me s Cl).
      assert (Hperm : forall m, In s m -> Permutation (ents gs w m) (ents gs w (s :: remove_nat s m))).
      { intros m Hs. unfold ents. apply Permutation_flat_map. apply remove_nat_perm. exact Hs. }
      destruct sent_cases as [(Hcl & e0 & Ee)|(Hcu & Ee)]; rewrite Ee.
      + split; auto. apply Forall_forall. intros y Hy. apply ri_update_in in Hy as (x & Hx & ->). rewrite Forall_forall in Mr.
        destruct (Mr x Hx) as (es & A & B & C). destruct (Nat.eqb (ri_slot x) r) eqn:Ex.
        * apply Nat.eqb_eq in Ex. pose proof (Hmem x Hx Ex) as Hs. exists (remove_entry e0 es). cbn [ri_slot ri_members]. split; [|split].
          -- apply in_map_iff. exists (ri_slot x, es). split; auto. unfold del_entry. cbn [fst snd]. rewrite Ex, Nat.eqb_refl. reflexivity.
          -- pose proof (Permutation_trans B (Hperm _ Hs)) as B'. rewrite ents_cons, Ee in B'.
             assert (He0 : In e0 es) by (eapply Permutation_in; [apply Permutation_sym; exact B'|left; reflexivity]).
             apply (Permutation_cons_inv (a := e0)).
             eapply Permutation_trans; [apply Permutation_sym, remove_entry_perm; exact He0|]. exact B'.
          -- intros e1 e2 H1 H2. apply C; eapply remove_entry_sub; eauto.
        * exists es. cbn. split; [|split; auto]. apply in_map_iff. exists (ri_slot x, es). split; auto. unfold del_entry. cbn [fst]. rewrite Ex. reflexivity.
      + split; auto. apply Forall_forall. intros y Hy. apply ri_update_in in Hy as (x & Hx & ->). rewrite Forall_forall in Mr.
        destruct (Mr x Hx) as (es & A & B & C). exists es. destruct (Nat.eqb (ri_slot x) r) eqn:Ex; cbn [ri_slot ri_members]; split; auto; split; auto.
        apply Nat.eqb_eq in Ex. pose proof (Hmem x Hx Ex) as Hs.
        pose proof (Permutation_trans B (Hperm _ Hs)) as B'. rewrite ents_cons, Ee in B'. exact B'.
  Qed.
End RegOps.

(* ---------- every operation but gather ---------- *)
Lemma INV_same strict w regs sk rk o ob : INV strict w regs sk rk -> pushes o = false -> INV strict w regs (sk_next sk o ob) rk.
Proof. intros I P. apply (INV_of_res strict w regs sk rk o w ob I). apply res_same; auto. destruct I as [gs I]. apply I. Qed.
Lemma existsb_nat_in s l : existsb (Nat.eqb s) l = true -> In s l.
Proof. intros H. apply existsb_exists in H as (x & Hx & E). apply Nat.eqb_eq in E. subst. exact Hx. Qed.

Lemma INV_step strict w regs sk rk o : INV strict w regs sk rk ->
  op_lang o = true -> clone_ok w o = true -> op_dyn w regs o (snd (step w o)) = true ->
  (strict = true -> forall r s u e, o = OpRegister r s -> snd (step w o) = ORes (Ok u) -> nth s sk None = Some e -> mixes r e rk = false) ->
  INV strict (fst (step w o)) (track w regs o (snd (step w o))) (sk_next sk o (snd (step w o))) (rk_next sk rk o (snd (step w o))).
Proof.
  intros I Hl Hc Hd Hm. destruct (is_regop o) eqn:Hr; [|apply INV_other; auto].
  assert (W : WI w) by (destruct I as [gs I]; apply I).
  destruct o; try discriminate Hr; clear Hr Hl Hc; revert Hd Hm; cbn [step].
  - (* OpRegistry *) rewrite opt_amap. destruct (reg_new_custom prefix (option_map (@amap_of str) labels)) as [r|e] eqn:E; cbn [fst snd]; intros _ _.
    + apply INV_registry; auto.
    + apply (INV_of_res strict w regs sk rk (OpRegistry prefix labels) _ (ORes (Err e)) I). apply res_dead; auto.
  - (* OpRegister *)
    destruct (slot w r) eqn:Er; try (cbn [fst snd]; intros _ _; apply (INV_same strict w regs sk rk (OpRegister r s) OBad I eq_refl)).
    destruct (collector_of w (slot w s)) as [[c ds]|] eqn:Ec; [|cbn [fst snd]; intros _ _; apply (INV_same strict w regs sk rk (OpRegister r s) OBad I eq_refl)].
    destruct (nth_error (w_reg w) r0) as [rc|] eqn:En; [|cbn [fst snd]; intros _ _; apply (INV_same strict w regs sk rk (OpRegister r s) OBad I eq_refl)].
    destruct (reg_register rc ds c) as [rc'|e] eqn:Eg; cbn [fst snd].
    + cbn [op_dyn track rk_next]. rewrite Er, Ec, En. intros Hd Hm. destruct I as [gs I]. exists gs.
      apply (INV_register strict gs w regs sk rk r s r0 c ds rc rc' I Er Ec En Eg Hd). intros Es e He. eapply Hm; eauto.
    + intros _ _. apply (INV_same strict w regs sk rk (OpRegister r s) (ORes (Err e)) I eq_refl).
  - (* OpUnregister *)
    destruct (slot w r) eqn:Er; try (cbn [fst snd]; intros _ _; apply (INV_same strict w regs sk rk (OpUnregister r s) OBad I eq_refl)).
    destruct (collector_of w (slot w s)) as [[c ds]|] eqn:Ec; [|cbn [fst snd]; intros _ _; apply (INV_same strict w regs sk rk (OpUnregister r s) OBad I eq_refl)].
    destruct (nth_error (w_reg w) r0) as [rc|] eqn:En; [|cbn [fst snd]; intros _ _; apply (INV_same strict w regs sk rk (OpUnregister r s) OBad I eq_refl)].
    destruct (reg_unregister rc ds) as [rc'|e] eqn:Eg; cbn [fst snd].
    + cbn [op_dyn track rk_next]. intros Hd _. destruct I as [gs I]. exists gs.
      apply (INV_unregister strict gs w regs sk rk r s r0 c ds rc rc' I Er Ec En Eg). intros x Hx Ex.
      destruct (ri_find r regs) as [x0|] eqn:Ef.
      * apply ri_find_some in Ef as [Hx0 Ex0]. assert (x = x0) by (apply (NoDup_map_inj_on ri_slot regs); auto; [apply I|congruence]).
        subst x0. apply existsb_nat_in. exact Hd.
      * exfalso. eapply ri_find_none; eauto.
    + intros _ _. apply (INV_same strict w regs sk rk (OpUnregister r s) (ORes (Err e)) I eq_refl).
Qed.

(* ====================================================================================== *)
(* 4. The induction over histories.                                                        *)
(* ====================================================================================== *)
Definition hom_ob (ob : obs) : bool := match ob with OFams fams => forallb family_homogeneous fams | _ => true end.
Definition is_fams (ob : obs) : bool := match ob with OFams _ => true | _ => false end.

Lemma step_not_fams w o : op_lang o = true -> (forall r, o <> OpGather r) -> is_fams (snd (step w o)) = false.
Proof.
  intros Hl Hg. destruct o; try discriminate Hl; try (exfalso; eapply Hg; reflexivity); cbn [step];
    repeat match goal with |- context [match ?x with _ => _ end] => destruct x end; reflexivity.
Qed.

Lemma classic_gather o : (exists r, o = OpGather r) \/ (forall r, o <> OpGather r).
Proof. destruct o; try (right; intros r0; discriminate). left. eauto. Qed.

(* what a gather observes *)
Lemma gather_obs w r :
  (exists ri rc fs w', slot w r = HRegistry ri /\ nth_error (w_reg w) ri = Some rc /\ collect_all w (r_collectors rc) = Some (fs, w')
                       /\ step w (OpGather r) = (w', OFams (gather_families (r_prefix rc) (r_labels rc) fs)))
  \/ is_fams (snd (step w (OpGather r))) = false.
Proof.
  cbn [step]. destruct (slot w r) eqn:Es; auto. destruct (nth_error (w_reg w) r0) as [rc|] eqn:En; auto.
  destruct (collect_all w (r_collectors rc)) as [[fs w']|] eqn:Ec; auto. left. exists r0, rc, fs, w'. auto.
Qed.
Lemma walk_gather_nofams chk same w regs rn r ob ops obs : is_fams ob = false ->
  walk chk same w regs rn (OpGather r :: ops) (ob :: obs) = walk chk same (fst (step w (OpGather r))) regs [] ops obs.
Proof. intros H. cbn [walk]. destruct ob; try reflexivity. discriminate. Qed.

(* a gather keeps the invariant with the same ghost table *)
Lemma INVg_weq strict gs w w' regs sk rk : INVg strict gs w regs sk rk -> weq w w' -> INVg strict gs w' regs sk rk.
Proof.
  intros [W G0 R T ND M] E. pose proof (weq_frame _ _ E) as F. pose proof E as (_ & _ & Er & Es & _).
  assert (Hregs : forall ri rc, nth_error (w_reg w) ri = Some rc -> nth_error (w_reg w') ri = Some rc) by (rewrite Er; auto).
  split; auto.
  - eapply WI_weq; eauto.
  - eapply ghost_same; eauto.
  - apply Forall_forall. intros x Hx. eapply RI1_frame; [apply sagree_refl|exact Hregs|apply (RI_in _ _ _ _ R Hx)].
  - intros Es'. destruct (M Es') as [Ml Me Mr]. split; auto.
    + intros s Hc. rewrite (Me s Hc). symmetry. apply (sent_frame gs gs w w' s G0 F (sagree_refl gs) Hc).
    + apply (MI_regs_frame gs gs w w' rk regs G0 F (sagree_refl gs) R Mr).
Qed.

Definition INVr strict w regs sk rk rn : Prop := exists gs, INVg strict gs w regs sk rk /\ RunInv strict gs w regs rn.
Lemma INVr_nil strict w regs sk rk : INV strict w regs sk rk -> INVr strict w regs sk rk [].
Proof. intros [gs I]. exists gs. split; auto. intros e x []. Qed.

Theorem walk_model strict : forall ops w regs rn sk rk,
  INVr strict w regs sk rk rn -> dom_walk w regs ops = true ->
  (strict = true -> mixed_walk sk rk ops (World.run w ops) = false) ->
  walk (chk_c07 strict) (samef strict) w regs rn ops (World.run w ops) = true
  /\ (strict = true -> forallb hom_ob (World.run w ops) = true).
Proof.
  induction ops as [|o ops IH]; intros w regs rn sk rk Ir Hd Hmx; [split; reflexivity|].
  assert (I : INV strict w regs sk rk) by (destruct Ir as [gs [I _]]; exists gs; exact I).
  cbn [dom_walk] in Hd. apply andb_true_iff in Hd as [Hd Hd4]. apply andb_true_iff in Hd as [Hd Hd3]. apply andb_true_iff in Hd as [Hd1 Hd2].
  cbn [World.run] in *. destruct (step w o) as [w' ob] eqn:Est. cbn [fst snd] in *.
  assert (E1 : fst (step w o) = w') by (rewrite Est; reflexivity). assert (E2 : snd (step w o) = ob) by (rewrite Est; reflexivity).
  assert (Hms : strict = true -> mixed_walk (sk_next sk o ob) (rk_next sk rk o ob) ops (World.run w' ops) = false
                                 /\ (forall r s u e, o = OpRegister r s -> ob = ORes (Ok u) -> nth s sk None = Some e -> mixes r e rk = false)).
  { intros Es. apply mixed_step. auto. }
  assert (I' : INV strict w' (track w regs o ob) (sk_next sk o ob) (rk_next sk rk o ob)).
  { rewrite <- E1, <- E2. apply INV_step; auto; rewrite ?E2; auto. intros Es. apply (Hms Es). }
  assert (Hmx' : strict = true -> mixed_walk (sk_next sk o ob) (rk_next sk rk o ob) ops (World.run w' ops) = false) by (intros Es; apply (Hms Es)).
  assert (Nongather : is_fams ob = false -> track w regs o ob = regs \/ (forall r, o <> OpGather r) ->
            walk (chk_c07 strict) (samef strict) w regs rn (o :: ops) (ob :: World.run w' ops) = true
            /\ (strict = true -> forallb hom_ob (ob :: World.run w' ops) = true)).
  { intros Hnf Hng.
    assert (Ew : walk (chk_c07 strict) (samef strict) w regs rn (o :: ops) (ob :: World.run w' ops)
                 = walk (chk_c07 strict) (samef strict) w' (track w regs o ob) [] ops (World.run w' ops)).
    { destruct (classic_gather o) as [[r ->]|Hn].
      - rewrite walk_gather_nofams by auto. rewrite E1. reflexivity.
      - rewrite walk_nongather by auto. rewrite E1. reflexivity. }
    destruct (IH w' (track w regs o ob) [] _ _ (INVr_nil _ _ _ _ _ I') Hd4 Hmx') as [A B].
    split; [rewrite Ew; exact A|]. intros Es. cbn [forallb]. rewrite (B Es), andb_true_r. destruct ob; try reflexivity. discriminate. }
  destruct (classic_gather o) as [[r ->]|Hn].
  - destruct (gather_obs w r) as [(ri & rc & fs & w1 & Hs & Hr & Hc & Estep)|Hnf].
    2:{ rewrite E2 in Hnf. apply Nongather; auto. }
    rewrite Est in Estep. inversion Estep; subst w1 ob. clear Estep.
    destruct Ir as [gs [Ig Ru]]. pose proof Ig as [W G0 R T ND M].
    destruct (T r ri (GI_reg _ _ _ _ G0 Hs)) as (x0 & Hx0 & Ex0).
    destruct (ri_find r regs) as [x|] eqn:Ef; [|exfalso; eapply ri_find_none; eauto].
    assert (Ty : strict = true -> types_agree (sigs_of w) (r_collectors rc)).
    { intros Es. destruct (M Es) as [_ _ Mr]. rewrite Forall_forall in Mr. pose proof Ef as Ef'. apply ri_find_some in Ef' as [Hx Ex].
      apply (MI_types gs w rk x rc (RI_in _ _ _ _ R Hx) (Mr x Hx)). pose proof (RI_in _ _ _ _ R Hx) as (rc1 & Er1 & _).
      rewrite <- Ex in Hs. rewrite Er1. f_equal. pose proof (reg_of_slot _ _ _ _ _ Er1 (GI_reg _ _ _ _ G0 Hs)) as X. congruence. }
    destruct (gather_case strict gs w regs rn r x ri rc fs w' W G0 R Ru Ef Hs Hr Hc Ty) as (A & B & C & D & Hw).
    assert (Ir' : INVr strict w' regs sk rk ((key_of x, gather_families (r_prefix rc) (r_labels rc) fs) :: rn)).
    { exists gs. split; auto. eapply INVg_weq; eauto. }
    destruct (IH w' regs _ _ _ Ir' Hd4 Hmx') as [A' B'].
    split.
    + cbn [walk]. rewrite Ef, A, B. cbn [andb]. rewrite E1. exact A'.
    + intros Es. cbn [forallb hom_ob]. rewrite (D Es), (B' Es). reflexivity.
  - apply Nongather; auto. rewrite <- E2. apply step_not_fams; auto.
Qed.

(* ====================================================================================== *)
(* 5. The theorems.                                                                        *)
(* ====================================================================================== *)
Lemma INV0 strict : INV strict world0 [] [] [].
Proof.
  exists []. split.
  - apply WI0.
  - split; [constructor|]. split; [constructor|reflexivity].
  - constructor.
  - intros s ri H. destruct s; discriminate.
  - constructor.
  - intros _. split; [reflexivity| |constructor]. intros s Hs. destruct s; discriminate.
Qed.

Theorem c07_spec_strict_custom ops : dom07c ops = true -> mixed_kinds_registered ops (World.run world0 ops) = false ->
  spec_c07 ops (World.run world0 ops) = true.
Proof.
  intros Hd Hm. unfold spec_c07. apply (walk_model true ops world0 [] [] [] [] (INVr_nil _ _ _ _ _ (INV0 true)) Hd). intros _. exact Hm.
Qed.
Theorem c07_known_delimited_custom ops : dom07c ops = true -> mixed_kinds_registered ops (World.run world0 ops) = true ->
  known_mixed_kinds ops (World.run world0 ops) = true.
Proof.
  intros Hd Hm. unfold known_mixed_kinds. rewrite Hm.
  apply (walk_model false ops world0 [] [] [] [] (INVr_nil _ _ _ _ _ (INV0 false)) Hd). intros H. discriminate.
Qed.
Theorem c07_spec_model_custom ops : dom07c ops = true ->
  spec_c07 ops (World.run world0 ops) = true \/ known_mixed_kinds ops (World.run world0 ops) = true.
Proof.
  intros Hd. destruct (mixed_kinds_registered ops (World.run world0 ops)) eqn:Hm.
  - right. apply c07_known_delimited_custom; auto.
  - left. apply c07_spec_strict_custom; auto.
Qed.

(* ====================================================================================== *)
(* 6. Non-vacuity: generated scenarios are inside the domain.                              *)
(* ====================================================================================== *)
(* tools/p_C07.py many_labels_scenario (seed 7) *)
Definition ex_many_labels_c : list op :=
  [(OpCounter NF (mkOpts [] [] [97] [104] (amap_of [([107],[49])]) []));
   (OpIncBy 0%nat (VF (bits2f 0x4014000000000000)));
   (OpRegistry (Some [112]) (Some [([122;111;110;101],[121]);([99;50],[50]);([99;49],[49]);([101;110;118],[120])]));
   (OpRegistry (Some [112]) (Some [([99;50],[50]);([101;110;118],[120]);([122;111;110;101],[121]);([99;49],[49])]));
   (OpRegistry (Some [112]) (Some [([99;50],[50]);([99;49],[49]);([122;111;110;101],[121]);([101;110;118],[120])]));
   (OpRegister 1%nat 0%nat);
   (OpRegister 2%nat 0%nat);
   (OpRegister 3%nat 0%nat);
   (OpGather 1%nat);
   (OpGather 2%nat);
   (OpGather 3%nat)].
(* tools/p_C07.py c14_witness(True): the recorded finding *)
Definition ex_c14_witness_c : list op :=
  [(OpCounter NF (mkOpts [] [] [120] [104] (amap_of [([107],[49])]) []));
   (OpGauge NF (mkOpts [] [] [120] [104] (amap_of [([107],[50])]) []));
   (OpIncBy 0%nat (VF (bits2f 0x4014000000000000)));
   (OpSet 1%nat (VF (bits2f 0x401c000000000000)));
   (OpRegistry None None);
   (OpRegistry None None);
   (OpRegister 2%nat 0%nat);
   (OpRegister 2%nat 1%nat);
   (OpRegister 3%nat 1%nat);
   (OpRegister 3%nat 0%nat);
   (OpGather 2%nat);
   (OpGather 3%nat)].
(* tools/p_C07.py GatherGen(random.Random(129)).run(): histogram vectors and a counter vector with children,
   two registries with four common labels, all registration orders, an unregistration, four gathers *)
Definition ex_gathergen_c : list op :=
  [(OpHistVec (mkHOpts (mkOpts [] [] [97;95] [104] (amap_of [([97],[97])]) []) [(bits2f 0x3f747ae147ae147b);(bits2f 0x3fe0000000000000);(bits2f 0x3ff0000000000000);(bits2f 0x4024000000000000)]) [[119]]);
   (OpHistVec (mkHOpts (mkOpts [] [] [97;95] [104] (amap_of [([97],[])]) []) [(bits2f 0x4024000000000000);(bits2f 0x4059000000000000);(bits2f 0x7ff0000000000000)]) [[119]]);
   (OpCounterVec NU (mkOpts [] [] [109;50] [109;117;108;116;105;10;108;105;110;101] (amap_of [([97],[48])]) []) [[118]]);
   (OpHistVec (mkHOpts (mkOpts [] [] [97;66] [109;117;108;116;105;10;108;105;110;101] (amap_of [([95;99],[98;99])]) []) [(bits2f 0xbff0000000000000);(bits2f 0x3f747ae147ae147b);(bits2f 0x3fb999999999999a)]) [[86]]);
   (OpWith 0%nat [[97]]);
   (OpWithMap 1%nat [([119],[97;98])]);
   (OpWithMap 1%nat [([119],[50])]);
   (OpWithMap 1%nat [([119],[120;32;121])]);
   (OpWith 2%nat [[49]]);
   (OpWithMap 2%nat [([118],[105;118;108;116;108;100;103;109;111;99;116;121;98;100])]);
   (OpWith 3%nat [[66]]);
   (OpObserve 4%nat (bits2f 0x40fe240c9fbe76c9));
   (OpObserve 6%nat (bits2f 0x4059000000000000));
   (OpObserve 10%nat (bits2f 0xbfb9999999999999));
   (OpObserve 10%nat (bits2f 0x3ff0000000000000));
   (OpRegistry None (Some [([90],[10;34;99;92]);([100;99],[]);([99;49;48],[120;32;121]);([95;114],[233])]));
   (OpRegistry None (Some [([100;99],[]);([90],[10;34;99;92]);([95;114],[233]);([99;49;48],[120;32;121])]));
   (OpRegister 11%nat 1%nat);
   (OpRegister 11%nat 3%nat);
   (OpRegister 11%nat 2%nat);
   (OpRegister 11%nat 0%nat);
   (OpRegister 12%nat 2%nat);
   (OpRegister 12%nat 1%nat);
   (OpRegister 12%nat 0%nat);
   (OpRegister 12%nat 3%nat);
   (OpGather 12%nat);
   (OpGather 11%nat);
   (OpUnregister 11%nat 3%nat);
   (OpUnregister 12%nat 3%nat);
   (OpGather 12%nat);
   (OpGather 11%nat)]
.

Example ex_many_labels_in_domain_c :
  dom07c ex_many_labels_c = true /\ mixed_kinds_registered ex_many_labels_c (World.run world0 ex_many_labels_c) = false
  /\ spec_c07 ex_many_labels_c (World.run world0 ex_many_labels_c) = true.
Proof. split; [vm_compute; reflexivity|]. split; [vm_compute; reflexivity|]. apply c07_spec_strict_custom; vm_compute; reflexivity. Qed.
Example ex_gathergen_in_domain_c :
  dom07c ex_gathergen_c = true /\ mixed_kinds_registered ex_gathergen_c (World.run world0 ex_gathergen_c) = false
  /\ length (filter is_fams (World.run world0 ex_gathergen_c)) = 4%nat.
Proof. split; [vm_compute; reflexivity|]. split; vm_compute; reflexivity. Qed.
(* the witness of the known finding is inside the domain and in the known class: the strict spec
   fails on the model, the delimited one holds (by the theorem, and by computation) *)
Example ex_c14_witness_in_domain_c :
  dom07c ex_c14_witness_c = true /\ mixed_kinds_registered ex_c14_witness_c (World.run world0 ex_c14_witness_c) = true
  /\ spec_c07 ex_c14_witness_c (World.run world0 ex_c14_witness_c) = false
  /\ spec_c14 ex_c14_witness_c (World.run world0 ex_c14_witness_c) = false
  /\ known_mixed_kinds ex_c14_witness_c (World.run world0 ex_c14_witness_c) = true.
Proof. repeat split; vm_compute; reflexivity. Qed.

(* local metrics, timers and OpDrop - of a local histogram, of the handle of a REGISTERED counter and of
   a registry handle - between back-to-back gathers of two registries *)
Definition ex_locals_drop_c : list op :=
  [OpCounter NF (mkOpts [] [] [120] [104] (amap_of [([107],[49])]) []);
   OpHistogram (mkHOpts (mkOpts [] [] [104] [104] [] []) []);
   OpCounterVec NU (mkOpts [] [] [118] [104] [] []) [[108]];
   OpRegistry None None; OpRegistry None None;
   OpRegister 3%nat 0%nat; OpRegister 3%nat 1%nat; OpRegister 3%nat 2%nat;
   OpRegister 4%nat 2%nat; OpRegister 4%nat 1%nat; OpRegister 4%nat 0%nat;
   OpLocal 0%nat; OpInc 5%nat; OpFlush 5%nat;
   OpLocal 1%nat; OpObserve 6%nat (bits2f 0x3ff0000000000000);
   OpTimer 1%nat; OpTimerStop 7%nat TObserve 1 5;
   OpLocal 2%nat; OpLvInc 8%nat [[97]] (VU 2); OpFlush 8%nat;
   OpGather 3%nat; OpGather 4%nat;
   OpDrop 6%nat; OpDrop 0%nat; OpLvRemove 8%nat [[97]];
   OpGather 4%nat; OpGather 3%nat;
   OpDrop 3%nat; OpGather 3%nat; OpGather 4%nat].
Example ex_locals_drop_in_domain_c :
  dom07c ex_locals_drop_c = true /\ mixed_kinds_registered ex_locals_drop_c (World.run world0 ex_locals_drop_c) = false
  /\ length (filter is_fams (World.run world0 ex_locals_drop_c)) = 5%nat
  /\ spec_c07 ex_locals_drop_c (World.run world0 ex_locals_drop_c) = true.
Proof. split; [vm_compute; reflexivity|]. split; [vm_compute; reflexivity|]. split; [vm_compute; reflexivity|]. apply c07_spec_strict_custom; vm_compute; reflexivity. Qed.

(* ---------- histories with user-written collectors (OpCustom) ---------- *)
(* tools/p_C07.py GatherGen(random.Random(7), overlap=1.0).run(): a custom collector sharing a descriptor with a
   registered counter is unregistered (refused), a second one is registered (refused: the id is taken), gathers in between *)
Definition ex_custom_gen : list op :=
  [(OpCounterVec NF (mkOpts [] [] [97;66] [97] (amap_of [([95;99],[49]);([97],[49])]) []) []);
   (OpCounter NF (mkOpts [] [] [97;66] [97] (amap_of [([97],[49;48]);([95;99],[105;110;100;98;102;113;101;121;115;98;110;112;115;102])]) []));
   (OpWith 0%nat []);
   (OpWith 0%nat []);
   (OpIncBy 2%nat (VF (bits2f 0x7e37e43c8800759c)));
   (OpIncBy 3%nat (VF (bits2f 0x3fb999999999999a)));
   (OpRegistry (Some [110;115]) (Some [([99;49;48],[98]);([90],[])]));
   (OpRegistry (Some [110;115]) (Some [([90],[]);([99;49;48],[98])]));
   (OpRegister 4%nat 1%nat);
   (OpRegister 4%nat 0%nat);
   (OpRegister 5%nat 0%nat);
   (OpRegister 5%nat 1%nat);
   (OpGather 5%nat);
   (OpGather 4%nat);
   (OpRemove 0%nat []);
   (OpGather 5%nat);
   (OpGather 4%nat);
   (OpCustom [([97;66],[97],[],[([97],[49;48]);([95;99],[105;110;100;98;102;113;101;121;115;98;110;112;115;102])]);([122;122;95;111;116;104;101;114],[104],[],[])] []);
   (OpUnregister 4%nat 6%nat);
   (OpUnregister 5%nat 6%nat);
   (OpCustom [([97;66],[97],[],[([97],[49;48]);([95;99],[105;110;100;98;102;113;101;121;115;98;110;112;115;102])]);([122;122;95;111;116;104;101;114;50],[104],[],[])] []);
   (OpRegister 4%nat 7%nat);
   (OpRegister 5%nat 7%nat);
   (OpGather 5%nat);
   (OpGather 4%nat);
   (OpGather 5%nat);
   (OpUnregister 4%nat 7%nat);
   (OpUnregister 5%nat 7%nat)].
(* a custom collector claiming the descriptor of an UNREGISTERED counter is accepted by two registries (the
   counter itself is then refused), gathered over, collected, unregistered from one registry and dropped *)
Definition ex_custom_accepted : list op :=
  [OpCounter NF (mkOpts [] [] [120] [104] (amap_of [([107],[49])]) []);
   OpGauge NF (mkOpts [] [] [121] [104] [] []);
   OpRegistry None None; OpRegistry None None;
   OpRegister 2%nat 0%nat; OpRegister 2%nat 1%nat; OpRegister 3%nat 1%nat; OpRegister 3%nat 0%nat;
   OpGather 2%nat; OpGather 3%nat;
   OpUnregister 2%nat 0%nat; OpUnregister 3%nat 0%nat;
   OpCustom [([120],[104],[],[([107],[49])]); ([122;122;95;111;116;104;101;114;50],[104],[],[])] [];
   OpRegister 2%nat 4%nat; OpRegister 3%nat 4%nat; OpRegister 2%nat 0%nat;
   OpGather 2%nat; OpGather 3%nat;
   OpCollect 4%nat; OpDescOf 4%nat;
   OpUnregister 2%nat 4%nat; OpDrop 4%nat; OpUnregister 3%nat 4%nat;
   OpGather 3%nat; OpGather 2%nat].
Example ex_custom_gen_in_domain :
  dom07c ex_custom_gen = true /\ mixed_kinds_registered ex_custom_gen (World.run world0 ex_custom_gen) = false
  /\ length (filter is_fams (World.run world0 ex_custom_gen)) = 7%nat
  /\ spec_c07 ex_custom_gen (World.run world0 ex_custom_gen) = true.
Proof. split; [vm_compute; reflexivity|]. split; [vm_compute; reflexivity|]. split; [vm_compute; reflexivity|]. apply c07_spec_strict_custom; vm_compute; reflexivity. Qed.
Example ex_custom_accepted_in_domain :
  dom07c ex_custom_accepted = true /\ mixed_kinds_registered ex_custom_accepted (World.run world0 ex_custom_accepted) = false
  /\ nth 13 (World.run world0 ex_custom_accepted) OBad = ORes (Ok tt) /\ nth 14 (World.run world0 ex_custom_accepted) OBad = ORes (Ok tt)
  /\ nth 15 (World.run world0 ex_custom_accepted) OBad = ORes (Err EAlreadyReg)
  /\ nth 20 (World.run world0 ex_custom_accepted) OBad = ORes (Ok tt)
  /\ length (filter is_fams (World.run world0 ex_custom_accepted)) = 6%nat
  /\ spec_c07 ex_custom_accepted (World.run world0 ex_custom_accepted) = true.
Proof. repeat (split; [vm_compute; reflexivity|]). apply c07_spec_strict_custom; vm_compute; reflexivity. Qed.

(* ====================================================================================== *)
(* 7. What the domain's compatibility condition means.                                     *)
(* ====================================================================================== *)
(* For descriptors built by Desc::new from const-label maps, [desc_compat] says exactly that the
   byte strings hashed into the two dimension hashes are equal.  RegistryCore::register accepts a
   descriptor under a known name only if the dimension HASHES are equal; so a registration that
   the model accepts and that violates [register_compat] exhibits an FNV-1a collision between two
   different dimension pre-images: the domain condition is "no such collision among same-name
   descriptors registered in one registry". *)
Lemma cn_cnames_c consts d : d_const_pairs d = cpairs consts -> cn d = cnames consts.
Proof.
  intros E. unfold cn, cnames. rewrite E. unfold cpairs.
  change lp_leb with (fun a b => str_leb (lp_name a) (lp_name b)). rewrite (sort_by_map' lp_name str_leb), map_map. reflexivity.
Qed.
Theorem desc_compat_iff_dim_bytes_c fq1 help1 vars1 consts1 d1 b1 fq2 help2 vars2 consts2 d2 b2 :
  NoDup (map fst consts1) -> NoDup (map fst consts2) -> wf_str help1 -> wf_str help2 ->
  desc_new fq1 help1 vars1 consts1 = Some d1 -> desc_new fq2 help2 vars2 consts2 = Some d2 ->
  desc_dim_bytes help1 vars1 consts1 = Some b1 -> desc_dim_bytes help2 vars2 consts2 = Some b2 ->
  (desc_compat d1 d2 = true <-> b1 = b2).
Proof.
  intros N1 N2 W1 W2 H1 H2 B1 B2.
  destruct (desc_new_wf _ _ _ _ _ N1 H1) as (_ & _ & Eh1 & Ev1 & Ec1). destruct (desc_new_wf _ _ _ _ _ N2 H2) as (_ & _ & Eh2 & Ev2 & Ec2).
  apply desc_new_inv in H1 as (_ & _ & F1 & _). apply desc_new_inv in H2 as (_ & _ & F2 & _).
  rewrite desc_compat_spec, (desc_dim_bytes_iff help1 vars1 consts1 b1 help2 vars2 consts2 b2 W1 W2 N1 N2 F1 F2 B1 B2).
  rewrite Eh1, Eh2, Ev1, Ev2, (cn_cnames_c consts1 d1 Ec1), (cn_cnames_c consts2 d2 Ec2). split.
  - intros (A & B & C). split; auto. split.
    + eapply Permutation_trans; [apply Permutation_sym, cnames_perm|]. rewrite B. apply cnames_perm.
    + eapply Permutation_trans; [apply Permutation_sym, (sort_by_perm str_leb)|]. rewrite C. apply sort_by_perm.
  - intros (A & B & C). split; auto. split; apply sort_strs_perm_inv; auto.
Qed.
