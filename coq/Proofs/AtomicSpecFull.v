(* The remaining clauses of spec_c01 / spec_c11 on validated traces, derived from the linearisation that
   AtomicSpecFacts.lin_of_validated provides (an order of all calls that replays on the spec's sequential object to the returned
   values and respects real time):
     prefix_sum_split, subset_sum_complete   amounts linearised before a read = completed amounts + some overlapping ones
     clauseA_int, clauseB_int                (A) read-subset and (B) monotone reads, integer counter (no wrap-around)
     c01_spec_of_validated_int_full          trace_ok IntOps es -> dom01_int es -> spec_c01 false es
     clauseA_gauge_int, c11_spec_of_validated_int_full   the same for the integer gauge (signed amounts, no i64 overflow)
     f2bits_inj                              the canonical 64-bit pattern determines the float (Flocq: Zdigits_correct)
     clauseB_float, c01_spec_of_validated_float_partial  (B) for the float counter (non-negative increments, F4)
   Not proved: clause (A) for floats (exactness of binary64 sums inside exact_window). *)
Require Import PV.Base.Prelude PV.Base.F64 PV.Model.Conc PV.Model.AtomicConc PV.Proofs.AtomicConcFacts PV.Spec.SpecC01 PV.Spec.SpecC11.
Require Import PV.Proofs.AtomicSpecFacts.
From Coq Require Import Lia Permutation ZArith Floats.
Require Import PV.Proofs.F64Facts.
From Flocq Require Import Core Digits.
Import ListNotations.
Open Scope Z_scope.

(* ------------------------------------------------------------------ f2bits is injective *)
Lemma valid_bounds s m e : valid_binary (S754_finite s m e) = true ->
  Zpos m < 2 ^ 53 /\ -1074 <= e <= 971 /\ (Zpos m < 2 ^ 52 -> e = -1074).
Proof.
  cbn [valid_binary]. unfold bounded, canonical_mantissa. intros H. apply andb_prop in H. destruct H as [H1 H2].
  apply Zeq_bool_eq in H1. apply Zle_bool_imp_le in H2. unfold fexp, emin in H1. unfold prec, emax in *.
  rewrite Zpos_digits2_pos in H1.
  pose proof (Zdigits_correct radix2 (Zpos m)) as [D1 D2]. pose proof (Zdigits_gt_0 radix2 (Zpos m)) as D0.
  set (D := Zdigits radix2 (Zpos m)) in *. cbn [Z.abs] in D1, D2.
  assert (D0' : 0 < D) by (apply D0; discriminate).
  destruct (Z_le_gt_dec (3 - 1024 - 53) (D + e - 53)) as [L|G].
  - rewrite Z.max_l in H1 by lia. assert (D = 53) by lia. rewrite H in D1, D2.
    change (Zpower radix2 (53 - 1)) with (2 ^ 52) in D1. change (Zpower radix2 53) with (2 ^ 53) in D2. lia.
  - rewrite Z.max_r in H1 by lia. assert (D <= 52) by lia.
    assert (Zpower radix2 D <= 2 ^ 52). { change (Zpower radix2 D) with (2 ^ D). apply Z.pow_le_mono_r; lia. }
    lia.
Qed.

Lemma sf2bits_inj x y : valid_binary x = true -> valid_binary y = true -> sf2bits x = sf2bits y -> x = y.
Proof.
  intros Vx Vy.
  assert (K : forall s m e, valid_binary (S754_finite s m e) = true ->
     exists v, sf2bits (S754_finite s m e) = (if s then 2 ^ 63 else 0) + v /\
       ((Zpos m < 2 ^ 52 /\ v = Zpos m /\ e = -1074) \/
        (2 ^ 52 <= Zpos m < 2 ^ 53 /\ v = (e + 1075) * 2 ^ 52 + (Zpos m - 2 ^ 52) /\ -1074 <= e <= 971))).
  { intros s m e V. destruct (valid_bounds s m e V) as [B1 [B2 B3]]. cbn [sf2bits].
    change (Z.shiftl 1 52) with (2 ^ 52). change (Z.shiftl 1 63) with (2 ^ 63). rewrite Z.shiftl_mul_pow2 by lia.
    destruct (Z.ltb_spec (Zpos m) (2 ^ 52)).
    - exists (Zpos m). split; [destruct s; reflexivity|]. left. auto.
    - exists ((e + 1075) * 2 ^ 52 + (Zpos m - 2 ^ 52)). split; [destruct s; lia|]. right. repeat split; lia. }
  destruct x as [sx|sx| |sx mx ex], y as [sy|sy| |sy my ey]; intros E;
    try (destruct (K _ _ _ Vx) as [vx [Ex Cx]]; rewrite Ex in E; clear Ex);
    try (destruct (K _ _ _ Vy) as [vy [Ey Cy]]; rewrite Ey in E; clear Ey);
    cbn [sf2bits] in E;
    change (Z.shiftl 1 63) with 9223372036854775808 in E; change (Z.shiftl 2047 52) with 9218868437227405312 in E;
    change (Z.shiftl 4095 51) with 9221120237041090560 in E;
    change (2 ^ 63) with 9223372036854775808 in *; change (2 ^ 52) with 4503599627370496 in *; change (2 ^ 53) with 9007199254740992 in *;
    clear K; try reflexivity;
    try (destruct sx, sy; try reflexivity; exfalso; lia);
    try (exfalso; destruct sx; lia); try (exfalso; destruct sy; lia);
    try (exfalso; destruct sx; destruct Cx as [[? [? ?]]|[? [? ?]]]; lia);
    try (exfalso; destruct sy; destruct Cy as [[? [? ?]]|[? [? ?]]]; lia);
    try (exfalso; destruct sx, sy; destruct Cx as [[? [? ?]]|[? [? ?]]]; lia);
    try (exfalso; destruct sx, sy; destruct Cy as [[? [? ?]]|[? [? ?]]]; lia).
  destruct sx, sy; destruct Cx as [[? [? ?]]|[? [? ?]]], Cy as [[? [? ?]]|[? [? ?]]]; subst;
    try (exfalso; lia); try (assert (mx = my) by lia; subst; reflexivity);
    try (assert (ex = ey) by lia; assert (mx = my) by lia; subst; reflexivity).
Qed.

Lemma sf2bits_nonneg x : valid_binary x = true -> 0 <= sf2bits x.
Proof.
  intros V. destruct x as [sx|sx| |sx m e]; cbn [sf2bits]; change (Z.shiftl 1 63) with 9223372036854775808; change (Z.shiftl 2047 52) with 9218868437227405312;
    change (Z.shiftl 4095 51) with 9221120237041090560.
  - destruct sx; lia.
  - destruct sx; lia.
  - lia.
  - destruct (valid_bounds sx m e V) as [B1 [B2 B3]]. change (Z.shiftl 1 52) with 4503599627370496.
    rewrite Z.shiftl_mul_pow2 by lia. change (2 ^ 52) with 4503599627370496.
    destruct (Zpos m <? 4503599627370496) eqn:E; [destruct sx; lia|]. apply Z.ltb_ge in E. destruct sx; lia.
Qed.

Theorem f2bits_inj (x y : f64) : f2bits x = f2bits y -> x = y.
Proof.
  unfold f2bits. intros H. apply Prim2SF_inj. apply sf2bits_inj; try apply Prim2SF_valid.
  apply Z2N.inj; auto; apply sf2bits_nonneg, Prim2SF_valid.
Qed.

Definition sumZ (l : list Z) : Z := fold_right Z.add 0 l.
Lemma sumZ_app a b : sumZ (a ++ b) = sumZ a + sumZ b.
Proof. unfold sumZ. induction a as [|x a IH]; cbn [app fold_right]; [lia|]. rewrite IH. lia. Qed.
Lemma sumZ_perm a b : Permutation a b -> sumZ a = sumZ b.
Proof. unfold sumZ. induction 1; cbn [fold_right]; lia. Qed.
Lemma fold_left_sumZ l : forall a, fold_left Z.add l a = a + sumZ l.
Proof. unfold sumZ. induction l as [|x l IH]; intros a; cbn [fold_left fold_right]; [lia|]. rewrite IH. lia. Qed.
Lemma sumZ_nonneg l : (forall x, In x l -> 0 <= x) -> 0 <= sumZ l.
Proof. unfold sumZ. induction l as [|x l IH]; cbn [fold_right]; intros H; [lia|]. assert (0 <= x) by (apply H; now left). assert (0 <= fold_right Z.add 0 l) by (apply IH; intros; apply H; now right). lia. Qed.

Section Sums.
Context {A : Type}.
Lemma sum_filter (f : A -> Z) p l : sumZ (map f (filter p l)) = sumZ (map (fun c => if p c then f c else 0) l).
Proof. unfold sumZ. induction l as [|x l IH]; cbn [filter map fold_right]; auto. destruct (p x); cbn [map fold_right]; rewrite IH; lia. Qed.
Lemma sum_ext_in (f g : A -> Z) l : (forall c, In c l -> f c = g c) -> sumZ (map f l) = sumZ (map g l).
Proof. unfold sumZ. induction l as [|x l IH]; cbn [map fold_right]; intros H; auto. rewrite (H x) by now left. rewrite IH; auto. intros; apply H; now right. Qed.
Lemma sum_plus (f g : A -> Z) l : sumZ (map (fun c => f c + g c) l) = sumZ (map f l) + sumZ (map g l).
Proof. unfold sumZ. induction l as [|x l IH]; cbn [map fold_right]; [lia|]. rewrite IH. lia. Qed.
Lemma subset_sum_complete (f : A -> Z) (p : A -> bool) l : forall base,
  subset_sum (map f l) base (base + sumZ (map (fun c => if p c then f c else 0) l)) = true.
Proof.
  unfold sumZ. induction l as [|x l IH]; intros base; cbn [map subset_sum fold_right].
  - apply Z.eqb_eq. lia.
  - destruct (p x).
    + destruct (subset_sum (map f l) base _); auto.
      replace (base + (f x + fold_right Z.add 0 (map (fun c => if p c then f c else 0) l)))
        with ((base + f x) + fold_right Z.add 0 (map (fun c => if p c then f c else 0) l)) by lia. apply IH.
    + replace (base + (0 + fold_right Z.add 0 (map (fun c => if p c then f c else 0) l)))
        with (base + fold_right Z.add 0 (map (fun c => if p c then f c else 0) l)) by lia. now rewrite IH.
Qed.
End Sums.

Lemma NoDup_app_parts {A} (a b : list A) : NoDup (a ++ b) -> NoDup a /\ NoDup b /\ (forall x, In x a -> ~ In x b).
Proof.
  induction a as [|y a IH]; cbn; intros H; [repeat split; auto; constructor|]. inversion H; subst.
  destruct (IH H3) as [A1 [A2 A3]]. repeat split; auto.
  - constructor; auto. intros Hin. apply H2. apply in_or_app. now left.
  - intros x [<-|Hx] Hb; [apply H2; apply in_or_app; now right|exact (A3 x Hx Hb)].
Qed.

(* ------------------------------------------------------------------ order facts *)
Lemma RT_after l1 g l2 : RT (l1 ++ g :: l2) -> forall a, In a l2 -> returned_before a g = false.
Proof. induction l1 as [|b l1 IH]; cbn; intros [H1 H2]; auto. Qed.
Lemma RT_before l1 g l2 : RT (l1 ++ g :: l2) -> forall c, In c l1 -> returned_before g c = false.
Proof.
  induction l1 as [|b l1 IH]; cbn; intros [H1 H2] c Hc; [contradiction|]. destruct Hc as [<-|Hc]; auto.
  apply H1. apply in_or_app. right. now left.
Qed.
Lemma iar_is_rb a b : invoked_after_return a b = returned_before b a.
Proof. reflexivity. Qed.

Definition inlist (l : list crec) (c : crec) : bool := existsb (fun d => Nat.eqb (c_inv d) (c_inv c)) l.
Lemma inl_in l c : In c l -> inlist l c = true.
Proof. intros H. apply existsb_exists. exists c. split; auto. apply Nat.eqb_refl. Qed.
Lemma inl_notin l c : ~ In (c_inv c) (map c_inv l) -> inlist l c = false.
Proof.
  intros H. unfold inlist. destruct (existsb _ l) eqn:E; auto. apply existsb_exists in E. destruct E as [d [Hd E]].
  apply Nat.eqb_eq in E. exfalso. apply H. rewrite <- E. now apply in_map.
Qed.

Section Order.
Variables (cs ord : list crec).
Hypothesis Hmem : forall x, In x cs <-> In x ord.
Hypothesis Hnd : NoDup (map c_inv ord).
Hypothesis Hndc : NoDup (map c_inv cs).
Hypothesis Hrt : RT ord.
Hypothesis Hret : forall c, In c cs -> exists r, c_res c = Some r /\ (c_inv c < r)%nat.

Lemma perm_cs_ord : Permutation cs ord.
Proof.
  apply NoDup_Permutation; auto; eapply NoDup_map_inv; eauto.
Qed.
Lemma self_not_before c : In c cs -> returned_before c c = false.
Proof. intros H. destruct (Hret c H) as [r [E L]]. unfold returned_before. rewrite E. apply Nat.ltb_ge. lia. Qed.

Variables (l1 l2 : list crec) (g : crec).
Hypothesis Hsplit : ord = l1 ++ g :: l2.

Lemma nd_split : ~ In (c_inv g) (map c_inv l1) /\ (forall c, In c l2 -> ~ In (c_inv c) (map c_inv l1)) /\ NoDup (map c_inv l1).
Proof.
  rewrite Hsplit, map_app in Hnd. cbn [map] in Hnd. destruct (NoDup_app_parts _ _ Hnd) as [A1 [A2 A3]].
  split; [|split; auto].
  - intros H. apply (A3 _ H). now left.
  - intros c Hc H. apply (A3 _ H). right. now apply in_map.
Qed.

Lemma before_in_l1 c : In c cs -> returned_before c g = true -> In c l1.
Proof.
  intros Hc Hb. apply Hmem in Hc. rewrite Hsplit in Hc. apply in_app_or in Hc. destruct Hc as [Hc|[<-|Hc]]; auto.
  - rewrite self_not_before in Hb; [discriminate|]. apply Hmem. rewrite Hsplit. apply in_or_app. right. now left.
  - rewrite Hsplit in Hrt. rewrite (RT_after _ _ _ Hrt c Hc) in Hb. discriminate.
Qed.
Lemma l1_not_after c : In c l1 -> invoked_after_return c g = false.
Proof. intros Hc. rewrite iar_is_rb. rewrite Hsplit in Hrt. exact (RT_before _ _ _ Hrt c Hc). Qed.

(* amounts of the calls linearised before g = amounts of the calls that returned before g was invoked + amounts of SOME of the
   calls that overlap g *)
Variable F : crec -> Z.
Variable isamt : crec -> bool.
Hypothesis HF : forall c, isamt c = false -> F c = 0.
Lemma prefix_sum_split :
  let incs := filter isamt cs in
  let sure := filter (fun c => returned_before c g) incs in
  let maybe := filter (fun c => negb (returned_before c g) && negb (invoked_after_return c g)) incs in
  sumZ (map F l1) = sumZ (map F sure) + sumZ (map (fun c => if inlist l1 c then F c else 0) maybe).
Proof.
  intros incs sure maybe. destruct nd_split as [Ng [N2 N1]].
  assert (E1 : sumZ (map F l1) = sumZ (map (fun c => if inlist l1 c then F c else 0) cs)).
  { rewrite (sumZ_perm _ _ (Permutation_map _ perm_cs_ord)), Hsplit, map_app, sumZ_app. cbn [map].
    change (sumZ ((if inlist l1 g then F g else 0) :: map (fun c => if inlist l1 c then F c else 0) l2))
      with ((if inlist l1 g then F g else 0) + sumZ (map (fun c => if inlist l1 c then F c else 0) l2)).
    rewrite (inl_notin l1 g Ng).
    rewrite (sum_ext_in (fun c => if inlist l1 c then F c else 0) (fun _ => 0) l2).
    - rewrite (sum_ext_in (fun c => if inlist l1 c then F c else 0) F l1).
      + assert (sumZ (map (fun _ : crec => 0) l2) = 0) by (clear; unfold sumZ; induction l2; cbn; auto). lia.
      + intros c Hc. now rewrite inl_in.
    - intros c Hc. now rewrite (inl_notin l1 c (N2 c Hc)). }
  rewrite E1. unfold sure, maybe, incs. rewrite !sum_filter. rewrite <- sum_plus. apply sum_ext_in. intros c Hc.
  destruct (isamt c) eqn:Ea.
  - destruct (returned_before c g) eqn:Eb; cbn.
    + rewrite (inl_in l1 c (before_in_l1 c Hc Eb)). lia.
    + destruct (invoked_after_return c g) eqn:Ei; cbn; [|lia].
      destruct (inlist l1 c) eqn:El; [|lia]. exfalso. apply existsb_exists in El. destruct El as [d [Hd El]]. apply Nat.eqb_eq in El.
      assert (d = c).
      { eapply (NoDup_map_inj_in c_inv cs Hndc); auto. apply Hmem. rewrite Hsplit. apply in_or_app. now left. }
      subst d. rewrite (l1_not_after c Hd) in Ei. discriminate.
  - rewrite (HF c Ea). destruct (inlist l1 c); lia.
Qed.
End Order.

(* ------------------------------------------------------------------ replay *)
Lemma replay_app S step a : forall s b, replay S step s (a ++ b) =
  match replay S step s a with
  | Some (s1, o1) => match replay S step s1 b with Some (s2, o2) => Some (s2, o1 ++ o2) | None => None end
  | None => None
  end.
Proof.
  induction a as [|c a IH]; intros s b; cbn.
  - destruct (replay S step s b) as [[s2 o2]|]; auto.
  - destruct (step s (c_call c)) as [[s1 o]|]; auto. rewrite IH.
    destruct (replay S step s1 a) as [[s2 o2]|]; auto. destruct (replay S step s2 b) as [[s3 o3]|]; auto.
Qed.
Lemma replay_length S step l : forall s sf os, replay S step s l = Some (sf, os) -> length os = length l.
Proof.
  induction l as [|c l IH]; cbn; intros s sf os H; [now inversion H|].
  destruct (step s (c_call c)) as [[s1 o]|]; try discriminate. destruct (replay S step s1 l) as [[s2 o2]|] eqn:E; try discriminate.
  inversion H; subst. cbn. f_equal. eauto.
Qed.

Lemma Forall2_len {A B} (P : A -> B -> Prop) l m : Forall2 P l m -> length l = length m.
Proof. induction 1; cbn; auto. Qed.

(* what the linearisation says at one call g: the state before it, its output, its return check *)
Lemma at_call S step same ord l1 g l2 s0 sf os :
  ord = l1 ++ g :: l2 -> replay S step s0 ord = Some (sf, os) -> Forall2 (fun c o => ret_ok same c o = true) ord os ->
  exists s1 o1 s2 o, replay S step s0 l1 = Some (s1, o1) /\ step s1 (c_call g) = Some (s2, o) /\ ret_ok same g o = true /\
                     exists o2, replay S step s2 l2 = Some (sf, o2).
Proof.
  intros -> Hr Hf. rewrite replay_app in Hr. destruct (replay S step s0 l1) as [[s1 o1]|] eqn:E1; try discriminate.
  cbn in Hr. destruct (step s1 (c_call g)) as [[s2 o]|] eqn:E2; try discriminate.
  destruct (replay S step s2 l2) as [[s3 o3]|] eqn:E3; try discriminate. inversion Hr; subst.
  exists s1, o1, s2, o. repeat split; eauto.
  apply Forall2_app_inv_l in Hf. destruct Hf as [p1 [p2 [F1 [F2 Ep]]]].
  assert (length p1 = length o1).
  { rewrite (replay_length _ _ _ _ _ _ E1). symmetry. eapply Forall2_len; eauto. }
  assert (p1 = o1 /\ p2 = o :: o3).
  { clear - Ep H. revert o1 Ep H. induction p1 as [|x p1 IH]; intros [|y o1] Ep H; cbn in *; try discriminate; auto.
    inversion Ep; subst. destruct (IH o1 H2) as [-> ->]; auto. }
  destruct H0 as [-> ->]. now inversion F2.
Qed.

(* ================================================================== the integer counter *)
Definition F01 (c : crec) : Z := amount_or0 false c.
Definition isinc (c : crec) : bool := is_inc (c_call c).
Lemma F01_zero c : isinc c = false -> F01 c = 0.
Proof. unfold isinc, F01, amount_or0. destruct (c_call c); cbn; auto; discriminate. Qed.
Lemma F01_nonneg c : 0 <= F01 c.
Proof. unfold F01, amount_or0. destruct (c_call c); cbn; lia. Qed.
Lemma sumF01_nonneg l : 0 <= sumZ (map F01 l).
Proof. apply sumZ_nonneg. intros x Hx. apply in_map_iff in Hx. destruct Hx as [c [<- _]]. apply F01_nonneg. Qed.

Definition no_reset (l : list crec) : Prop := forall c, In c l -> is_reset (c_call c) = false.

Lemma wrap64_Z x : Z.of_N x < 2 ^ 64 -> wrap64 x = x.
Proof. intros H. apply wrap64_small. unfold two64. lia. Qed.

Lemma ctr_int_run l : forall s sf os, replay N ctr_step_int s l = Some (sf, os) ->
  Z.of_N s + sumZ (map F01 l) < 2 ^ 64 ->
  Z.of_N sf <= Z.of_N s + sumZ (map F01 l) /\ (no_reset l -> Z.of_N sf = Z.of_N s + sumZ (map F01 l)).
Proof.
  induction l as [|c l IH]; intros s sf os H B.
  - cbn in H. inversion H; subst. unfold sumZ; cbn. split; intros; lia.
  - cbn [replay] in H. cbn [map] in B. cbn [map]. change (sumZ (F01 c :: map F01 l)) with (F01 c + sumZ (map F01 l)) in *.
    pose proof (sumF01_nonneg l) as Hn. pose proof (F01_nonneg c) as Hc.
    destruct (ctr_step_int s (c_call c)) as [[s1 o]|] eqn:E; try discriminate.
    destruct (replay N ctr_step_int s1 l) as [[s2 o2]|] eqn:E2; try discriminate. inversion H; subst.
    assert (K : forall s1', s1 = s1' -> Z.of_N s1' <= Z.of_N s + F01 c -> (is_reset (c_call c) = false -> Z.of_N s1' = Z.of_N s + F01 c) ->
                Z.of_N sf <= Z.of_N s + (F01 c + sumZ (map F01 l)) /\
                (no_reset (c :: l) -> Z.of_N sf = Z.of_N s + (F01 c + sumZ (map F01 l)))).
    { intros s1' -> L1 L2. destruct (IH s1' sf o2 E2) as [I1 I2]; [lia|]. split; [lia|].
      intros Hnr. rewrite I2; [rewrite L2; [lia|apply Hnr; now left]|]. intros c0 Hc0. apply Hnr. now right. }
    assert (R0 : is_reset (c_call c) = false \/ is_reset (c_call c) = true) by (destruct (is_reset (c_call c)); auto).
    remember (F01 c) as fc eqn:Efc. unfold F01, amount_or0 in Efc.
    destruct (c_call c) as [ | |b|b|b| | |b|b|b| | | |k0 d0|k0| | | ]; cbn in E; try discriminate E; inversion E; subst s1 o; cbn in Efc; subst fc.
    + apply (K (s + 1)%N); [apply wrap64_Z; lia|lia|lia].
    + apply (K (s + b)%N); [apply wrap64_Z; lia|lia|lia].
    + apply (K s); [reflexivity|lia|lia].
    + apply (K 0%N); [reflexivity|lia|discriminate].
    + apply (K (s + b)%N); [apply wrap64_Z; lia|lia|lia].
Qed.

Section CtrInt.
Variables (cs ord : list crec) (sf : N) (os : list (option N)).
Hypothesis Hmem : forall x, In x cs <-> In x ord.
Hypothesis Hnd : NoDup (map c_inv ord).
Hypothesis Hndc : NoDup (map c_inv cs).
Hypothesis Hrt : RT ord.
Hypothesis Hret : forall c, In c cs -> exists r, c_res c = Some r /\ (c_inv c < r)%nat.
Hypothesis Hrep : replay N ctr_step_int 0%N ord = Some (sf, os).
Hypothesis Hok : Forall2 (fun c o => ret_ok same_int c o = true) ord os.
(* the executable side conditions *)
Hypothesis Hu64 : forall c v, In c cs -> c_ret c = RVal v -> (v < two64)%N.
Hypothesis Hsum : sumZ (map F01 cs) < 2 ^ 64.

Lemma sum_ord : sumZ (map F01 ord) = sumZ (map F01 cs).
Proof. symmetry. apply sumZ_perm, Permutation_map. apply perm_cs_ord; auto. Qed.

(* a read linearised after the prefix l1 returned the state the prefix leads to *)
Lemma get_at l1 g l2 : ord = l1 ++ g :: l2 -> is_get (c_call g) = true ->
  exists s1 o1 v o2, replay N ctr_step_int 0%N l1 = Some (s1, o1) /\ c_ret g = RVal v /\ v = s1 /\
                     replay N ctr_step_int s1 l2 = Some (sf, o2).
Proof.
  intros Hs Hg. destruct (at_call N ctr_step_int same_int ord l1 g l2 0%N sf os Hs Hrep Hok) as [s1 [o1 [s2 [o [R1 [St [Ro [o2 R2]]]]]]]].
  assert (Hin : In g cs) by (apply Hmem; rewrite Hs; apply in_or_app; right; now left).
  destruct (c_call g) eqn:Ec; cbn in Hg; try discriminate Hg. cbn in St. inversion St; subst s2 o.
  unfold ret_ok in Ro. destruct (Hret g Hin) as [r [Er _]]. rewrite Er in Ro.
  destruct (c_ret g) as [|v| | |] eqn:Ev; try discriminate Ro.
  exists s1, o1, v, o2. repeat split; auto.
  unfold same_int in Ro. apply N.eqb_eq in Ro. rewrite wrap64_small in Ro; auto. eapply Hu64; eauto.
Qed.

Theorem clauseA_int g : In g cs -> is_get (c_call g) = true -> read_subset_ok false cs g = true.
Proof.
  intros Hin Hg. unfold read_subset_ok. destruct (Hret g Hin) as [r [Er _]]. rewrite Er.
  assert (Hio : In g ord) by now apply Hmem. apply in_split in Hio. destruct Hio as [l1 [l2 Hs]].
  destruct (get_at l1 g l2 Hs Hg) as [s1 [o1 [v [o2 [R1 [Ev [-> R2]]]]]]]. rewrite Ev.
  destruct (existsb _ cs) eqn:Ex; auto.
  assert (Hnr : no_reset l1).
  { intros c Hc. destruct (is_reset (c_call c)) eqn:Er2; auto. exfalso.
    assert (Hcc : In c cs) by (apply Hmem; rewrite Hs; apply in_or_app; now left).
    assert (existsb (fun r0 => is_reset (c_call r0) && negb (invoked_after_return r0 g)) cs = true).
    { apply existsb_exists. exists c. split; auto. rewrite Er2, (l1_not_after ord Hrt l1 l2 g Hs c Hc). reflexivity. }
    congruence. }
  assert (Hb : sumZ (map F01 l1) <= sumZ (map F01 cs)).
  { rewrite <- sum_ord, Hs, map_app, sumZ_app. pose proof (sumF01_nonneg (g :: l2)). lia. }
  destruct (ctr_int_run l1 0%N s1 o1 R1) as [_ I2]; [cbn; lia|]. specialize (I2 Hnr). cbn in I2.
  cbn [qdec]. rewrite fold_left_sumZ. rewrite I2.
  change (amount_or0 false) with F01.
  rewrite (prefix_sum_split cs ord Hmem Hnd Hndc Hrt Hret l1 l2 g Hs F01 isinc F01_zero). cbn zeta.
  rewrite Z.add_0_l. apply subset_sum_complete.
Qed.

Theorem clauseB_int : monotone_ok false cs = true.
Proof.
  unfold monotone_ok. apply forallb_forall. intros g1 H1. apply forallb_forall. intros g2 H2.
  apply filter_In in H1. destruct H1 as [H1 G1]. apply filter_In in H2. destruct H2 as [H2 G2].
  destruct (returned_before g1 g2) eqn:Eb; cbn [andb]; auto.
  destruct (Hret g2 H2) as [r2 [Er2 _]]. rewrite Er2. cbn [andb].
  destruct (reset_between cs g1 g2) eqn:Erb; cbn [negb]; auto.
  assert (Hio : In g2 ord) by now apply Hmem. apply in_split in Hio. destruct Hio as [p [l3 Hs2]].
  pose proof (before_in_l1 cs ord Hmem Hrt Hret p l3 g2 Hs2 g1 H1 Eb) as Hp. apply in_split in Hp. destruct Hp as [l1 [m Hp]].
  assert (Hs1 : ord = l1 ++ g1 :: (m ++ g2 :: l3)) by (rewrite Hs2, Hp, <- app_assoc; reflexivity).
  destruct (get_at l1 g1 _ Hs1 G1) as [s1 [o1 [v1 [o2 [R1 [Ev1 [-> R2]]]]]]].
  destruct (get_at p g2 l3 Hs2 G2) as [sm [om [v2 [o3 [R3 [Ev2 [-> R4]]]]]]].
  rewrite Ev1, Ev2. unfold val_leb. apply N.leb_le.
  (* the state before g2 is the state before g1 advanced over m *)
  rewrite Hp, replay_app, R1 in R3. cbn [replay] in R3.
  destruct (c_call g1) eqn:Ec1; cbn in G1; try discriminate G1. cbn [ctr_step_int] in R3.
  destruct (replay N ctr_step_int s1 m) as [[sm' om']|] eqn:Rm; try discriminate R3. inversion R3; subst sm'.
  assert (Hnr : no_reset m).
  { intros c Hc. destruct (is_reset (c_call c)) eqn:Erc; auto. exfalso.
    assert (Hcc : In c cs) by (apply Hmem; rewrite Hs1; apply in_or_app; right; right; apply in_or_app; now left).
    unfold reset_between in Erb.
    assert (Hf : (is_reset (c_call c) && negb (returned_before c g1) && negb (invoked_after_return c g2)) = false).
    { destruct (is_reset (c_call c) && negb (returned_before c g1) && negb (invoked_after_return c g2)) eqn:E; auto.
      assert (existsb (fun r => is_reset (c_call r) && negb (returned_before r g1) && negb (invoked_after_return r g2)) cs = true)
        by (apply existsb_exists; exists c; auto). congruence. }
    rewrite Erc in Hf. cbn [andb] in Hf.
    destruct (returned_before c g1) eqn:Eb1.
    - pose proof (before_in_l1 cs ord Hmem Hrt Hret l1 _ g1 Hs1 c Hcc Eb1) as Hl1.
      destruct (nd_split ord Hnd l1 _ g1 Hs1) as [_ [N2 _]].
      apply (N2 c); [apply in_or_app; now left|now apply in_map].
    - cbn in Hf. assert (Hcp : In c p) by (rewrite Hp; apply in_or_app; right; now right).
      rewrite (l1_not_after ord Hrt p l3 g2 Hs2 c Hcp) in Hf. discriminate. }
  pose proof (sumF01_nonneg m) as Hm0. pose proof (sumF01_nonneg l1) as Hl0.
  assert (Hb : sumZ (map F01 l1) + sumZ (map F01 m) <= sumZ (map F01 cs)).
  { rewrite <- sum_ord, Hs1, map_app, sumZ_app. cbn [map].
    change (sumZ (F01 g1 :: map F01 (m ++ g2 :: l3))) with (F01 g1 + sumZ (map F01 (m ++ g2 :: l3))).
    rewrite map_app, sumZ_app. pose proof (F01_nonneg g1). pose proof (sumF01_nonneg (g2 :: l3)). lia. }
  destruct (ctr_int_run l1 0%N s1 o1 R1) as [I1 _]; [cbn; lia|]. cbn in I1.
  destruct (ctr_int_run m s1 sm om' Rm) as [_ J2]; [lia|]. specialize (J2 Hnr). lia.
Qed.
End CtrInt.

(* ================================================================== C01, integer flavour: the full statement *)
Definition ret_u64 (c : crec) : bool := match c_ret c with RVal v => (v <? two64)%N | _ => true end.
(* executable domain: only counter calls; returned patterns are 64-bit; the increments of the trace do not wrap around *)
Definition dom01_int (es : list event) : bool :=
  calls_in counter_call es &&
  (let '(cs, _) := calls_of es O [] in forallb ret_u64 cs && (sumZ (map F01 cs) <? 2 ^ 64)).

Theorem c01_spec_of_validated_int_full es : trace_ok IntOps es = true -> dom01_int es = true -> spec_c01 false es = true.
Proof.
  intros Hok Hd. unfold dom01_int in Hd. apply andb_prop in Hd. destruct Hd as [Hd1 Hd2].
  apply spec_c01_from_clauses; [now apply c01_core_of_validated_int|].
  destruct (lin_of_validated IntOps int_laws N ctr_step_int same_int Rint counter_call 0%N ctr_int_step int_same
              (conj eq_refl eq_refl) es Hok (calls_in_spec _ _ Hd1)) as [cs [ord [sf [os [E [Fd [Hmem [Hnd [Hndc [Hrt [Hret [Hrep Hf]]]]]]]]]]]].
  unfold spec_c01_AB. rewrite E in *. apply andb_prop in Hd2. destruct Hd2 as [Hu Hs]. apply Z.ltb_lt in Hs.
  assert (Hu64 : forall c v, In c cs -> c_ret c = RVal v -> (v < two64)%N).
  { intros c v Hc Ev. rewrite forallb_forall in Hu. specialize (Hu c Hc). unfold ret_u64 in Hu. rewrite Ev in Hu. now apply N.ltb_lt. }
  apply andb_true_intro. split.
  - destruct (all_decode false cs); auto. apply forallb_forall. intros g Hg. destruct (is_get (c_call g)) eqn:Eg; auto.
    eapply clauseA_int; eauto.
  - eapply clauseB_int; eauto.
Qed.

(* ================================================================== C11, integer flavour: the read-subset clause *)
Definition F11 (c : crec) : Z := amount0 false c.
Definition isar (c : crec) : bool := is_arith_call (c_call c).
Lemma F11_zero c : isar c = false -> F11 c = 0.
Proof. unfold isar, F11, amount0, is_arith_call. destruct (c_call c); cbn; auto; discriminate. Qed.

Lemma i64_roundtrip z : - 2 ^ 63 <= z < 2 ^ 63 -> i64_to_Z (i64_of_Z z) = z.
Proof.
  intros H. unfold i64_to_Z, i64_of_Z.
  destruct (Z_lt_le_dec z 0) as [Hn|Hp].
  - assert (E : z mod 0x10000000000000000 = z + 18446744073709551616).
    { rewrite <- (Z_mod_plus_full z 1 18446744073709551616). apply Z.mod_small. lia. }
    rewrite E. rewrite Z2N.id by lia.
    destruct (Z.to_N (z + 18446744073709551616) <? 9223372036854775808)%N eqn:El; [apply N.ltb_lt in El; lia|lia].
  - rewrite Z.mod_small by lia. rewrite Z2N.id by lia.
    destruct (Z.to_N z <? 9223372036854775808)%N eqn:El; [lia|apply N.ltb_ge in El; lia].
Qed.

Definition no_set (l : list crec) : Prop := forall c, In c l -> is_set (c_call c) = false.
Definition sumabs (l : list crec) : Z := sumZ (map (fun c => Z.abs (F11 c)) l).
Lemma sumabs_nonneg l : 0 <= sumabs l.
Proof. apply sumZ_nonneg. intros x Hx. apply in_map_iff in Hx. destruct Hx as [c [<- _]]. lia. Qed.

Lemma gauge_int_run l : forall s sf os, replay N gauge_step_int s l = Some (sf, os) -> no_set l ->
  Z.abs (i64_to_Z s) + sumabs l < 2 ^ 63 -> i64_to_Z sf = i64_to_Z s + sumZ (map F11 l).
Proof.
  induction l as [|c l IH]; intros s sf os H Hns B.
  - cbn in H. inversion H; subst. unfold sumZ; cbn. lia.
  - cbn [replay] in H. unfold sumabs in B. cbn [map] in B. cbn [map].
    change (sumZ (Z.abs (F11 c) :: map (fun c0 => Z.abs (F11 c0)) l)) with (Z.abs (F11 c) + sumabs l) in B.
    change (sumZ (F11 c :: map F11 l)) with (F11 c + sumZ (map F11 l)).
    pose proof (sumabs_nonneg l) as Hn.
    destruct (gauge_step_int s (c_call c)) as [[s1 o]|] eqn:E; try discriminate.
    destruct (replay N gauge_step_int s1 l) as [[s2 o2]|] eqn:E2; try discriminate. inversion H; subst.
    assert (K : i64_to_Z s1 = i64_to_Z s + F11 c).
    { assert (Hc : is_set (c_call c) = false) by (apply Hns; now left).
      assert (Ha : Z.abs (i64_to_Z s) + Z.abs (F11 c) < 2 ^ 63) by lia. clear B.
      remember (F11 c) as fc eqn:Efc. unfold F11, amount0, arith_amount in Efc.
      destruct (c_call c) as [ | |b|b|b| | |b|b|b| | | |k0 d0|k0| | | ]; cbn [gauge_step_int] in E; try discriminate E; try discriminate Hc;
        inversion E; subst s1 o; cbn [sdec qone] in Efc; subst fc.
      - apply i64_roundtrip. lia.
      - apply i64_roundtrip. lia.
      - apply i64_roundtrip. lia.
      - apply i64_roundtrip. lia.
      - lia. }
    rewrite (IH s1 sf o2 E2); [lia| |].
    + intros c0 Hc0. apply Hns. now right.
    + rewrite K. lia.
Qed.

Section GaugeInt.
Variables (cs ord : list crec) (sf : N) (os : list (option N)).
Hypothesis Hmem : forall x, In x cs <-> In x ord.
Hypothesis Hnd : NoDup (map c_inv ord).
Hypothesis Hndc : NoDup (map c_inv cs).
Hypothesis Hrt : RT ord.
Hypothesis Hret : forall c, In c cs -> exists r, c_res c = Some r /\ (c_inv c < r)%nat.
Hypothesis Hrep : replay N gauge_step_int 0%N ord = Some (sf, os).
Hypothesis Hok : Forall2 (fun c o => ret_ok same_int c o = true) ord os.
Hypothesis Hu64 : forall c v, In c cs -> c_ret c = RVal v -> (v < two64)%N.
Hypothesis Hsum : sumabs cs < 2 ^ 63.
Hypothesis Hnoset : no_set cs.

Theorem clauseA_gauge_int g : In g cs -> is_get (c_call g) = true -> gauge_read_ok false cs g = true.
Proof.
  intros Hin Hg. unfold gauge_read_ok. destruct (Hret g Hin) as [r [Er _]]. rewrite Er.
  assert (Hio : In g ord) by now apply Hmem. apply in_split in Hio. destruct Hio as [l1 [l2 Hs]].
  destruct (at_call N gauge_step_int same_int ord l1 g l2 0%N sf os Hs Hrep Hok) as [s1 [o1 [s2 [o [R1 [St [Ro [o2 R2]]]]]]]].
  destruct (c_call g) eqn:Ec; cbn in Hg; try discriminate Hg. cbn in St. inversion St; subst s2 o.
  unfold ret_ok in Ro. rewrite Er in Ro. destruct (c_ret g) as [|v| | |] eqn:Ev; try discriminate Ro.
  unfold same_int in Ro. apply N.eqb_eq in Ro. rewrite wrap64_small in Ro by (eapply Hu64; eauto). subst v.
  assert (Hl1 : forall c, In c l1 -> In c cs) by (intros c Hc; apply Hmem; rewrite Hs; apply in_or_app; now left).
  assert (Hb : sumabs l1 <= sumabs cs).
  { unfold sumabs. rewrite (sumZ_perm _ _ (Permutation_map _ (perm_cs_ord cs ord Hmem Hnd Hndc))), Hs, map_app, sumZ_app.
    pose proof (sumabs_nonneg (g :: l2)). unfold sumabs in H. lia. }
  pose proof (gauge_int_run l1 0%N s1 o1 R1 (fun c Hc => Hnoset c (Hl1 c Hc))) as Hrun.
  change (i64_to_Z 0) with 0 in Hrun. rewrite Z.add_0_l in Hrun.
  cbn [sdec]. rewrite Hrun by (cbn [Z.abs]; lia). rewrite fold_left_sumZ. change (amount0 false) with F11.
  rewrite (prefix_sum_split cs ord Hmem Hnd Hndc Hrt Hret l1 l2 g Hs F11 isar F11_zero). cbn zeta.
  rewrite Z.add_0_l. apply subset_sum_complete.
Qed.
End GaugeInt.

Definition dom11_int (es : list event) : bool :=
  calls_in gauge_dom es &&
  (let '(cs, _) := calls_of es O [] in forallb ret_u64 cs && (sumabs cs <? 2 ^ 63)).

Theorem c11_spec_of_validated_int_full es : trace_ok IntOps es = true -> dom11_int es = true -> spec_c11 false es = true.
Proof.
  intros Hok Hd. unfold dom11_int in Hd. apply andb_prop in Hd. destruct Hd as [Hd1 Hd2].
  apply spec_c11_from_clauses; [now apply c11_core_of_validated_int|].
  destruct (lin_of_validated IntOps int_laws N gauge_step_int same_int eq gauge_dom 0%N gauge_int_step int_same
              eq_refl es Hok (calls_in_spec _ _ Hd1)) as [cs [ord [sf [os [E [Fd [Hmem [Hnd [Hndc [Hrt [Hret [Hrep Hf]]]]]]]]]]]].
  unfold spec_c11_A. rewrite E in *. apply andb_prop in Hd2. destruct Hd2 as [Hu Hs]. apply Z.ltb_lt in Hs.
  assert (Hu64 : forall c v, In c cs -> c_ret c = RVal v -> (v < two64)%N).
  { intros c v Hc Ev. rewrite forallb_forall in Hu. specialize (Hu c Hc). unfold ret_u64 in Hu. rewrite Ev in Hu. now apply N.ltb_lt. }
  destruct (existsb (fun c => is_set (c_call c)) cs) eqn:Ex; cbn [negb andb]; auto.
  destruct (small_amounts false cs); auto.
  apply forallb_forall. intros g Hg. destruct (is_get (c_call g)) eqn:Eg; auto.
  eapply clauseA_gauge_int; eauto.
  intros c Hc. destruct (is_set (c_call c)) eqn:Es; auto.
  assert (existsb (fun c0 => is_set (c_call c0)) cs = true) by (apply existsb_exists; exists c; auto). congruence.
Qed.

(* ================================================================== C01, float flavour: clause (B) *)
Local Opaque bits2f f2bits.
Definition fnonneg (c : crec) : bool :=
  match c_call c with CAdd d | CFlush d => PrimFloat.leb 0 (bits2f d) | _ => true end.

Lemma ctr_float_run l : forall s sf os, replay f64 ctr_step_float s l = Some (sf, os) ->
  (forall c, In c l -> fnonneg c = true) -> PrimFloat.leb 0 s = true ->
  PrimFloat.leb 0 sf = true /\ (no_reset l -> PrimFloat.leb s sf = true).
Proof.
  induction l as [|c l IH]; intros s sf os H Hnn Hs.
  - cbn in H. inversion H; subst. split; auto. intros _. now apply leb_refl_nonneg.
  - cbn [replay] in H. destruct (ctr_step_float s (c_call c)) as [[s1 o]|] eqn:E; try discriminate H.
    destruct (replay f64 ctr_step_float s1 l) as [[s2 o2]|] eqn:E2; try discriminate H. inversion H; subst s2 os. clear H.
    assert (Hc : fnonneg c = true) by (apply Hnn; now left).
    assert (K : PrimFloat.leb 0 s1 = true /\ (is_reset (c_call c) = false -> PrimFloat.leb s s1 = true)).
    { unfold fnonneg in Hc. destruct (c_call c) as [ | |b|b|b| | |b|b|b| | | |k0 d0|k0| | | ]; cbn [ctr_step_float] in E; try discriminate E;
        inversion E; subst s1 o; clear E.
      - destruct (add_mono s 1 Hs eq_refl) as [A B]. split; auto.
      - destruct (add_mono s (bits2f b) Hs Hc) as [A B]. split; auto.
      - split; auto. intros _. now apply leb_refl_nonneg.
      - split; [reflexivity|discriminate].
      - destruct (PrimFloat.eqb (bits2f b) 0).
        + split; auto. intros _. now apply leb_refl_nonneg.
        + destruct (add_mono s (bits2f b) Hs Hc) as [A B]. split; auto. }
    destruct K as [K1 K2]. destruct (IH s1 sf o2 E2 (fun c0 Hc0 => Hnn c0 (or_intror Hc0)) K1) as [I1 I2]. split; auto.
    intros Hnr. eapply leb_trans; [apply K2; apply Hnr; now left|]. apply I2. intros c0 Hc0. apply Hnr. now right.
Qed.

Section CtrFloat.
Variables (cs ord : list crec) (sf : f64) (os : list (option N)).
Hypothesis Hmem : forall x, In x cs <-> In x ord.
Hypothesis Hnd : NoDup (map c_inv ord).
Hypothesis Hndc : NoDup (map c_inv cs).
Hypothesis Hrt : RT ord.
Hypothesis Hret : forall c, In c cs -> exists r, c_res c = Some r /\ (c_inv c < r)%nat.
Hypothesis Hrep : replay f64 ctr_step_float 0%float ord = Some (sf, os).
Hypothesis Hok : Forall2 (fun c o => ret_ok same_float c o = true) ord os.
Hypothesis Hnn : forall c, In c cs -> fnonneg c = true.

Lemma fget_at l1 g l2 : ord = l1 ++ g :: l2 -> is_get (c_call g) = true ->
  exists s1 o1 v o2, replay f64 ctr_step_float 0%float l1 = Some (s1, o1) /\ c_ret g = RVal v /\ bits2f v = s1 /\
                     replay f64 ctr_step_float s1 l2 = Some (sf, o2).
Proof.
  intros Hs Hg. destruct (at_call f64 ctr_step_float same_float ord l1 g l2 0%float sf os Hs Hrep Hok) as [s1 [o1 [s2 [o [R1 [St [Ro [o2 R2]]]]]]]].
  assert (Hin : In g cs) by (apply Hmem; rewrite Hs; apply in_or_app; right; now left).
  destruct (c_call g) eqn:Ec; cbn in Hg; try discriminate Hg. cbn [ctr_step_float] in St. inversion St; subst s2 o.
  unfold ret_ok in Ro. destruct (Hret g Hin) as [r [Er _]]. rewrite Er in Ro.
  destruct (c_ret g) as [|v| | |] eqn:Ev; try discriminate Ro.
  exists s1, o1, v, o2. repeat split; auto.
  unfold same_float in Ro. apply N.eqb_eq in Ro. now apply f2bits_inj.
Qed.

Theorem clauseB_float : monotone_ok true cs = true.
Proof.
  unfold monotone_ok. apply forallb_forall. intros g1 H1. apply forallb_forall. intros g2 H2.
  apply filter_In in H1. destruct H1 as [H1 G1]. apply filter_In in H2. destruct H2 as [H2 G2].
  destruct (returned_before g1 g2) eqn:Eb; cbn [andb]; auto.
  destruct (Hret g2 H2) as [r2 [Er2 _]]. rewrite Er2. cbn [andb].
  destruct (reset_between cs g1 g2) eqn:Erb; cbn [negb]; auto.
  assert (Hio : In g2 ord) by now apply Hmem. apply in_split in Hio. destruct Hio as [p [l3 Hs2]].
  pose proof (before_in_l1 cs ord Hmem Hrt Hret p l3 g2 Hs2 g1 H1 Eb) as Hp. apply in_split in Hp. destruct Hp as [l1 [m Hp]].
  assert (Hs1 : ord = l1 ++ g1 :: (m ++ g2 :: l3)) by (rewrite Hs2, Hp, <- app_assoc; reflexivity).
  destruct (fget_at l1 g1 _ Hs1 G1) as [s1 [o1 [v1 [o2 [R1 [Ev1 [Eq1 R2]]]]]]].
  destruct (fget_at p g2 l3 Hs2 G2) as [sm [om [v2 [o3 [R3 [Ev2 [Eq2 R4]]]]]]].
  rewrite Ev1, Ev2. unfold val_leb. rewrite Eq1, Eq2.
  rewrite Hp, replay_app, R1 in R3. cbn [replay] in R3.
  destruct (c_call g1) eqn:Ec1; cbn in G1; try discriminate G1. cbn [ctr_step_float] in R3.
  destruct (replay f64 ctr_step_float s1 m) as [[sm' om']|] eqn:Rm; try discriminate R3. inversion R3; subst sm'.
  assert (Hnr : no_reset m).
  { intros c Hc. destruct (is_reset (c_call c)) eqn:Erc; auto. exfalso.
    assert (Hcc : In c cs) by (apply Hmem; rewrite Hs1; apply in_or_app; right; right; apply in_or_app; now left).
    unfold reset_between in Erb.
    assert (Hf : (is_reset (c_call c) && negb (returned_before c g1) && negb (invoked_after_return c g2)) = false).
    { destruct (is_reset (c_call c) && negb (returned_before c g1) && negb (invoked_after_return c g2)) eqn:E; auto.
      assert (existsb (fun r => is_reset (c_call r) && negb (returned_before r g1) && negb (invoked_after_return r g2)) cs = true)
        by (apply existsb_exists; exists c; auto). congruence. }
    rewrite Erc in Hf. cbn [andb] in Hf.
    destruct (returned_before c g1) eqn:Eb1.
    - pose proof (before_in_l1 cs ord Hmem Hrt Hret l1 _ g1 Hs1 c Hcc Eb1) as Hl1.
      destruct (nd_split ord Hnd l1 _ g1 Hs1) as [_ [N2 _]].
      apply (N2 c); [apply in_or_app; now left|now apply in_map].
    - cbn in Hf. assert (Hcp : In c p) by (rewrite Hp; apply in_or_app; right; now right).
      rewrite (l1_not_after ord Hrt p l3 g2 Hs2 c Hcp) in Hf. discriminate. }
  assert (Hin1 : forall c, In c l1 -> In c cs) by (intros c Hc; apply Hmem; rewrite Hs1; apply in_or_app; now left).
  assert (Hinm : forall c, In c m -> In c cs) by (intros c Hc; apply Hmem; rewrite Hs1; apply in_or_app; right; right; apply in_or_app; now left).
  destruct (ctr_float_run l1 0%float s1 o1 R1 (fun c Hc => Hnn c (Hin1 c Hc)) eq_refl) as [P1 _].
  destruct (ctr_float_run m s1 sm om' Rm (fun c Hc => Hnn c (Hinm c Hc)) P1) as [_ P2]. exact (P2 Hnr).
Qed.
End CtrFloat.

(* ---- the clauses of spec_c01, one by one *)
Definition spec_c01_A (isf : bool) (es : list event) : bool :=
  let '(cs, _) := calls_of es O [] in
  if all_decode isf cs then forallb (fun g => if is_get (c_call g) then read_subset_ok isf cs g else true) cs else true.
Definition spec_c01_B (isf : bool) (es : list event) : bool :=
  let '(cs, _) := calls_of es O [] in monotone_ok isf cs.
Lemma spec_c01_from_clauses3 isf es :
  spec_c01_core isf es = true -> spec_c01_A isf es = true -> spec_c01_B isf es = true -> spec_c01 isf es = true.
Proof.
  intros H1 H2 H3. apply spec_c01_from_clauses; auto. unfold spec_c01_AB, spec_c01_A, spec_c01_B in *.
  destruct (calls_of es 0 []) as [cs ok]. now rewrite H2, H3.
Qed.

(* executable domain of the float statement: only counter calls, non-negative (non-NaN) increments - the documented
   precondition of inc_by *)
Definition dom01_float (es : list event) : bool :=
  calls_in counter_call es && (let '(cs, _) := calls_of es O [] in forallb fnonneg cs).

(* float flavour: every clause except (A) *)
Theorem c01_spec_of_validated_float_partial es : trace_ok FloatOps es = true -> dom01_float es = true ->
  spec_c01_core true es = true /\ spec_c01_B true es = true.
Proof.
  intros Hok Hd. unfold dom01_float in Hd. apply andb_prop in Hd. destruct Hd as [Hd1 Hd2].
  split; [now apply c01_core_of_validated_float|].
  destruct (lin_of_validated FloatOps float_laws f64 ctr_step_float same_float eq counter_call 0%float ctr_float_step float_same
              eq_refl es Hok (calls_in_spec _ _ Hd1)) as [cs [ord [sf [os [E [Fd [Hmem [Hnd [Hndc [Hrt [Hret [Hrep Hf]]]]]]]]]]]].
  unfold spec_c01_B. rewrite E in *. eapply clauseB_float; eauto.
  intros c Hc. rewrite forallb_forall in Hd2. auto.
Qed.
