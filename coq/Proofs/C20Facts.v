(* C20  Registration macros are faithful shorthands (lemmas).

   Part A (token level, about the arms REGENERATED from src/macros.rs, gen/MacroArms.v):
     - the regenerated arm inventory equals the pinned one the model was written against;
     - every arm of every macro is covered by an invocation case;
     - for every case (public arm x with/without trailing comma x repetition lengths 0..4) the
       invocation selects the intended arm and its full expansion with opaque argument atoms is the
       Rust spelling [render] of the explicit-call term of Model/Macros.v.
   Part B (meaning, for ALL argument values and ALL worlds): evaluating an explicit-call term is
     the explicit constructor followed by register on the named / default registry; the metric has
     the name, help, constant labels, variable labels and buckets of the explicit options; only the
     targeted registry changes; the returned handle and the registered collector are the same
     metric (an update through the handle is what that registry's gather collects); a refused
     registration evaluates to Err and leaves no handle and no trace. *)
From Coq Require Import String Ascii.
Require Import PV.Base.Prelude PV.Base.F64.
Require Import PV.Model.Proto PV.Model.Desc PV.Model.Value PV.Model.Hist PV.Model.Vec PV.Model.Registry PV.Model.World.
Require Import PV.Model.MacroRules PV.Model.Macros PV.Model.MacroCases PV.Model.MacroArmsPinned PV.gen.MacroArms.
Require Import PV.Proofs.DescFacts PV.Proofs.C06Facts.
Open Scope string_scope.
Open Scope list_scope.

(* ====================================================================================== *)
(* A. expansion of the regenerated arms                                                    *)
(* ====================================================================================== *)

(* the macro table parsed from the regenerated token data *)
Definition source_table : table := match parse_table macro_arms with Some t => t | None => [] end.

Lemma source_table_parses : exists t, parse_table macro_arms = Some t /\ length t = length macro_arms.
Proof. vm_compute. eexists; split; reflexivity. Qed.

Lemma inventory_eq : macro_arms = pinned_arms.
Proof. vm_compute. reflexivity. Qed.

(* ---- soundness of the boolean equality used by the computational check ---- *)
Lemma tt_eqb_sound : forall f a b, tt_eqb f a b = true -> a = b.
Proof.
  induction f as [|f IH]; intros a b H; [discriminate|].
  assert (L : forall x y,
             (fix l_eqb (x y : list tt) : bool :=
                match x, y with
                | [], [] => true
                | p :: x', q :: y' => tt_eqb f p q && l_eqb x' y'
                | _, _ => false
                end) x y = true -> x = y).
  { induction x as [|p x IHx]; destruct y as [|q' y]; intros E; try discriminate; auto.
    apply andb_true_iff in E as [E1 E2]. f_equal; auto. }
  destruct a, b; cbn [tt_eqb] in H; try discriminate.
  - apply String.eqb_eq in H. congruence.
  - apply andb_true_iff in H as [H1 H2]. apply String.eqb_eq in H1. apply L in H2. congruence.
  - apply String.eqb_eq in H. congruence.
  - apply L in H. congruence.
Qed.
Lemma tts_eqb_sound : forall a b, tts_eqb a b = true -> a = b.
Proof.
  induction a as [|p a IH]; destruct b as [|q' b]; cbn [tts_eqb]; intros H; try discriminate; auto.
  apply andb_true_iff in H as [H1 H2]. apply tt_eqb_sound in H1. f_equal; auto.
Qed.

Definition case_okb (tb : table) (c : icase) (comma : bool) : bool :=
  match selected_arm FUEL tb (i_macro c) (args_of c comma), expand_call tb (i_macro c) (args_of c comma) with
  | Some n, Some out => Nat.eqb n (i_arm c) && tts_eqb out (render (i_nf c))
  | _, _ => false
  end.
Definition case_ok (tb : table) (c : icase) (comma : bool) : Prop :=
  selected_arm FUEL tb (i_macro c) (args_of c comma) = Some (i_arm c)
  /\ expand_call tb (i_macro c) (args_of c comma) = Some (render (i_nf c)).

Lemma case_okb_sound tb c comma : case_okb tb c comma = true -> case_ok tb c comma.
Proof.
  unfold case_okb, case_ok. destruct (selected_arm _ _ _ _) as [n|]; [|discriminate].
  destruct (expand_call _ _ _) as [out|]; [|discriminate]. intros H. apply andb_true_iff in H as [H1 H2].
  apply Nat.eqb_eq in H1. apply tts_eqb_sound in H2. subst. auto.
Qed.

(* every case, without and (where the arm allows it) with a trailing comma *)
Lemma all_cases_okb :
  forallb (fun c => case_okb source_table c false && (negb (i_comma c) || case_okb source_table c true)) all_cases = true.
Proof. vm_compute. reflexivity. Qed.

Theorem all_cases_expand c comma :
  In c all_cases -> (comma = true -> i_comma c = true) -> case_ok source_table c comma.
Proof.
  intros Hin Hc. pose proof all_cases_okb as H. rewrite forallb_forall in H. specialize (H c Hin).
  apply andb_true_iff in H as [H1 H2]. apply case_okb_sound. destruct comma; auto.
  rewrite (Hc eq_refl) in H2. exact H2.
Qed.

(* an arm that does not take a trailing comma rejects one (nothing else matches either) *)
Lemma no_comma_rejected :
  forallb (fun c => i_comma c || match expand_call source_table (i_macro c) (args_of c true) with None => true | Some _ => false end)
          all_cases = true.
Proof. vm_compute. reflexivity. Qed.

(* every arm of every macro in the source is exercised by some case *)
Definition covered (tb : table) : bool :=
  forallb (fun ma : string * list arm =>
             forallb (fun i => existsb (fun c => String.eqb (i_macro c) (fst ma) && Nat.eqb (i_arm c) i) all_cases)
                     (seq 0 (length (snd ma)))) tb.
Lemma all_arms_covered : covered source_table = true /\ length source_table = 26%nat.
Proof. vm_compute. split; reflexivity. Qed.

(* the cases of documented arms mention no helper *)
Definition public_cases : list icase := filter i_public all_cases.
Lemma public_cases_count : length public_cases = 57%nat /\ length all_cases = 73%nat.
Proof. vm_compute. split; reflexivity. Qed.

(* nested invocations given as arguments expand in place: opts!(n, h, labels!{k => v}) inside a register macro *)
Lemma nested_argument_example :
  expand_call source_table "register_int_gauge_vec_with_registry"
    [T "opts"; T "!"; G "(" [A "NAME"; T ","; A "HELP"; T ","; T "labels"; T "!"; G "{" [A "K1"; T "=>"; A "V1"; T ","]]; T ",";
     A "LABELS"; T ","; A "REG"; T ","]
  = Some (render (call "gauge_vec" KIntGaugeVec (OO (ONew "NAME" "HELP" [LLit [("K1", "V1")]])) L R)).
Proof. vm_compute. reflexivity. Qed.

(* ====================================================================================== *)
(* B. meaning of the explicit-call terms in the world model                                *)
(* ====================================================================================== *)
Open Scope N_scope.

(* ---- label maps and options ---- *)
Lemma alookup_extend_map k (l : list (str * str)) m :
  alookup k (extend_map m l) = match alookup k (rev l) with Some v => Some v | None => alookup k m end.
Proof. unfold extend_map. exact (alookup_fold_ainsert k l m). Qed.

(* the value found under a key after extending with the maps in order: the last map that has it wins *)
Definition lookup_maps (k : str) (maps : list (list (str * str))) (init : option str) : option str :=
  fold_left (fun acc m => match alookup k (rev m) with Some v => Some v | None => acc end) maps init.
Lemma alookup_fold_extend k maps : forall m0,
  alookup k (fold_left extend_map maps m0) = lookup_maps k maps (alookup k m0).
Proof.
  unfold lookup_maps. induction maps as [|m maps IH]; intros m0; cbn [fold_left]; auto.
  rewrite IH, alookup_extend_map. reflexivity.
Qed.

(* labels!{k1 => v1, ...}: a key maps to the value of its last occurrence *)
Theorem labels_macro_lookup rho kvs k :
  alookup k (ev_lbl rho (LLit kvs))
  = alookup k (rev (map (fun kv : string * string => (v_str rho (fst kv), v_str rho (snd kv))) kvs)).
Proof. cbn [ev_lbl]. rewrite alookup_extend_map. destruct (alookup k (rev _)); reflexivity. Qed.

(* opts!(name, help, m1, ..., mn) = Opts::new(name, help) with the union of the maps, later maps winning *)
Theorem opts_macro_value rho n h ls :
  let o := ev_opts rho (ONew n h ls) in
  o_namespace o = [] /\ o_subsystem o = [] /\ o_name o = v_str rho n /\ o_help o = v_str rho h /\ o_vars o = []
  /\ opts_fq_name o = v_str rho n
  /\ forall k, alookup k (o_consts o) = lookup_maps k (map (ev_lbl rho) ls) None.
Proof.
  cbn [ev_opts o_namespace o_subsystem o_name o_help o_vars o_consts]. repeat split.
  - unfold opts_fq_name, build_fq_name. cbn [o_namespace o_subsystem o_name is_nil]. destruct (v_str rho n); reflexivity.
  - intros k. rewrite alookup_fold_extend. reflexivity.
Qed.

(* histogram_opts!: HistogramOpts::new(name, help) [.buckets(b)] [.const_labels(m)] *)
Theorem hopts_macro_value rho n h b cl :
  ev_hopts rho (HNew n h) = mkHOpts (mkOpts [] [] (v_str rho n) (v_str rho h) [] []) DEFAULT_BUCKETS
  /\ ev_hopts rho (HBuckets (HNew n h) b) = mkHOpts (mkOpts [] [] (v_str rho n) (v_str rho h) [] []) (v_f64s rho b)
  /\ ev_hopts rho (HConsts (HBuckets (HNew n h) b) (LVar cl))
     = mkHOpts (mkOpts [] [] (v_str rho n) (v_str rho h) (v_map rho cl) []) (v_f64s rho b).
Proof. repeat split. Qed.

(* ---- constructors of the world model ---- *)
Inductive created := CrV (c : vcore) | CrH (h : hcore) | CrVec (v : veccore).
Definition res_map {X Y} (f : X -> Y) (r : result X) : result Y := match r with Ok x => Ok (f x) | Err e => Err e end.

(* the explicit constructor call as a function of its arguments *)
Definition ctor_result (cop : op) : option (result created) :=
  match cop with
  | OpCounter k o => Some (res_map CrV (value_new o VCounter k []))
  | OpGauge k o => Some (res_map CrV (value_new o VGauge k []))
  | OpHistogram o => Some (res_map CrH (hcore_new o []))
  | OpCounterVec k o labels => Some (res_map CrVec (vec_create (opts_with_vars o labels) (VKValue VCounter k)))
  | OpGaugeVec k o labels => Some (res_map CrVec (vec_create (opts_with_vars o labels) (VKValue VGauge k)))
  | OpHistVec o labels => Some (res_map CrVec (vec_create (opts_with_vars (ho_common o) labels) (VKHist (ho_buckets o))))
  | _ => None
  end.
Definition install (w : world) (x : created) : world * handle :=
  match x with
  | CrV c => (set_v w (w_v w ++ [c]), HValue (length (w_v w)))
  | CrH h => (set_h w (w_h w ++ [h]), HHist (length (w_h w)))
  | CrVec v => (set_vec w (w_vec w ++ [v]), HVec (length (w_vec w)))
  end.
Definition created_desc (x : created) : Desc :=
  match x with CrV c => vc_desc c | CrH h => hc_desc h | CrVec v => v_desc v end.
Definition created_collector (w : world) (x : created) : collector :=
  match x with CrV _ => CValue (length (w_v w)) | CrH _ => CHist (length (w_h w)) | CrVec _ => CVec (length (w_vec w)) end.

Lemma ctor_step w cop r :
  ctor_result cop = Some r ->
  step w cop = match r with
               | Ok x => (push_slot (fst (install w x)) (snd (install w x)), ORes (Ok Datatypes.tt))
               | Err e => (push_slot w HDead, ORes (Err e))
               end.
Proof.
  destruct cop; cbn [ctor_result]; intros H; try discriminate; inversion H; subst; clear H; cbn [step].
  - destruct (value_new o VCounter k []); reflexivity.
  - destruct (value_new o VGauge k []); reflexivity.
  - destruct (hcore_new o []); reflexivity.
  - destruct (vec_create _ _); reflexivity.
  - destruct (vec_create _ _); reflexivity.
  - destruct (vec_create _ _); reflexivity.
Qed.

Lemma ctor_op_result rho c cop : ctor_op rho c = Some cop -> exists r, ctor_result cop = Some r.
Proof.
  unfold ctor_op. destruct (c_kind c), (c_opts c), (c_labels c); intros H; inversion H; subst; cbn [ctor_result]; eauto.
Qed.

Lemma nth_error_snoc {X} (l : list X) x : nth_error (l ++ [x]) (length l) = Some x.
Proof. induction l; cbn; auto. Qed.
Lemma nth_snoc {X} (l : list X) x d : nth (length l) (l ++ [x]) d = x.
Proof. induction l; cbn; auto. Qed.
Lemma nth_snoc_lt {X} (l : list X) x d i : (i < length l)%nat -> nth i (l ++ [x]) d = nth i l d.
Proof. intros. apply app_nth1. auto. Qed.

Lemma install_frame w x :
  w_reg (fst (install w x)) = w_reg w /\ w_slots (fst (install w x)) = w_slots w.
Proof. destruct x; cbn; auto. Qed.

Lemma collector_of_installed w x :
  let w1 := push_slot (fst (install w x)) (snd (install w x)) in
  slot w1 (length (w_slots w)) = snd (install w x)
  /\ collector_of w1 (snd (install w x)) = Some (created_collector w x, [created_desc x]).
Proof.
  destruct x; cbn [install fst snd created_collector created_desc]; unfold slot, push_slot, set_slots;
    cbn [w_slots w_v w_h w_vec set_v set_h set_vec collector_of]; rewrite nth_snoc, nth_error_snoc; auto.
Qed.

Lemma slot_kept w x i :
  (i < length (w_slots w))%nat -> slot (push_slot (fst (install w x)) (snd (install w x))) i = slot w i.
Proof.
  intros Hi. unfold slot, push_slot, set_slots. cbn [w_slots]. rewrite (proj2 (install_frame w x)). apply nth_snoc_lt. auto.
Qed.

Lemma reg_register_ok_shape {C} (r r' : regcore C) ds c :
  reg_register r ds c = Ok r' ->
  (exists cid, r_collectors r' = r_collectors r ++ [(cid, c)]) /\ r_prefix r' = r_prefix r /\ r_labels r' = r_labels r.
Proof.
  unfold reg_register. destruct (reg_check_descs r ds [] 0 []) as [[[seen cid] staged]|]; [|discriminate].
  destruct (nlookup cid (r_collectors r)); [discriminate|]. intros H. inversion H; subst. cbn. eauto.
Qed.

(* ---- the central description of eval_call ---- *)
Section Call.
  Variables (rho : valuation) (dflt : nat) (c : callx) (w : world) (cop : op).
  Hypothesis Hop : ctor_op rho c = Some cop.
  Let s := length (w_slots w).
  Let rs := reg_slot rho dflt (c_reg c).

  (* the constructor refuses: the unwrap panics, nothing is registered, no handle *)
  Lemma eval_call_ctor_err e :
    ctor_result cop = Some (Err e) -> eval_call rho dflt c w = (push_slot w HDead, OPanic).
  Proof. intros H. unfold eval_call. rewrite Hop, (ctor_step w cop _ H). reflexivity. Qed.

  Variable x : created.
  Hypothesis Hx : ctor_result cop = Some (Ok x).
  Let w1 := push_slot (fst (install w x)) (snd (install w x)).
  Variables (ri : nat) (rc : regcore collector).
  Hypothesis Hslot : slot w rs = HRegistry ri.
  Hypothesis Hlt : (rs < length (w_slots w))%nat.
  Hypothesis Hreg : nth_error (w_reg w) ri = Some rc.

  Lemma eval_call_unfold :
    eval_call rho dflt c w =
    match reg_register rc [created_desc x] (created_collector w x) with
    | Ok rc' => (set_reg w1 (list_set (w_reg w) ri rc'), ORes (Ok Datatypes.tt))
    | Err e => (put_slot w1 s HDead, ORes (Err e))
    end.
  Proof.
    unfold eval_call. rewrite Hop, (ctor_step w cop _ Hx). fold w1. fold s. fold rs.
    destruct (collector_of_installed w x) as [Hs Hc]. fold w1 in Hs, Hc. fold s in Hs.
    assert (Hr1 : slot w1 rs = HRegistry ri) by (unfold w1; rewrite slot_kept; auto).
    assert (Hg1 : nth_error (w_reg w1) ri = Some rc).
    { unfold w1, push_slot, set_slots. cbn [w_reg]. rewrite (proj1 (install_frame w x)). auto. }
    rewrite (world_register_step w1 rs s ri rc (created_collector w x) [created_desc x] Hr1); [|rewrite Hs; exact Hc|exact Hg1].
    assert (Ew : w_reg w1 = w_reg w) by (unfold w1, push_slot, set_slots; cbn [w_reg]; apply install_frame).
    rewrite Ew. destruct (reg_register rc [created_desc x] (created_collector w x)); reflexivity.
  Qed.

  (* refused registration: Err, no handle, no registry changed *)
  Lemma eval_call_refused e :
    reg_register rc [created_desc x] (created_collector w x) = Err e ->
    snd (eval_call rho dflt c w) = ORes (Err e)
    /\ w_reg (fst (eval_call rho dflt c w)) = w_reg w
    /\ slot (fst (eval_call rho dflt c w)) s = HDead
    /\ forall i, (i < s)%nat -> slot (fst (eval_call rho dflt c w)) i = slot w i.
  Proof.
    intros H. rewrite eval_call_unfold, H. cbn [fst snd]. split; [reflexivity|]. split; [|split].
    - unfold put_slot, set_slots, w1, push_slot, set_slots. cbn [w_reg]. apply install_frame.
    - unfold slot, put_slot, set_slots, w1, push_slot, set_slots. cbn [w_slots]. rewrite (proj2 (install_frame w x)). fold s.
      clear. subst s. induction (w_slots w); cbn; auto.
    - intros i Hi. unfold slot, put_slot, set_slots, w1, push_slot, set_slots. cbn [w_slots]. rewrite (proj2 (install_frame w x)).
      subst s. clear -Hi. revert i Hi. induction (w_slots w) as [|h l IH]; intros i Hi; cbn in *; [lia|].
      destruct i; cbn; auto. apply IH. lia.
  Qed.

  (* accepted: Ok; exactly the targeted registry changes, by exactly one collector, which is the
     metric behind the returned handle *)
  Lemma eval_call_accepted rc' :
    reg_register rc [created_desc x] (created_collector w x) = Ok rc' ->
    let w2 := fst (eval_call rho dflt c w) in
    snd (eval_call rho dflt c w) = ORes (Ok Datatypes.tt)
    /\ w_reg w2 = list_set (w_reg w) ri rc'
    /\ (forall j, j <> ri -> nth_error (w_reg w2) j = nth_error (w_reg w) j)
    /\ nth_error (w_reg w2) ri = Some rc'
    /\ (exists cid, r_collectors rc' = r_collectors rc ++ [(cid, created_collector w x)])
    /\ r_prefix rc' = r_prefix rc /\ r_labels rc' = r_labels rc
    /\ slot w2 s = snd (install w x)
    /\ collector_of w2 (slot w2 s) = Some (created_collector w x, [created_desc x])
    /\ forall i, (i < s)%nat -> slot w2 i = slot w i.
  Proof.
    intros H. cbn zeta. rewrite eval_call_unfold, H. cbn [fst snd].
    destruct (collector_of_installed w x) as [Hs Hc]. fold w1 in Hs, Hc. fold s in Hs.
    destruct (reg_register_ok_shape _ _ _ _ H) as (Hcs & Hp & Hl).
    assert (Hset : forall (l : list (regcore collector)) i v j, j <> i -> nth_error (list_set l i v) j = nth_error l j).
    { induction l as [|a l IH]; intros i v j Hj; cbn; auto. destruct i, j; cbn; auto; try congruence. }
    assert (Hset2 : forall (l : list (regcore collector)) i v a, nth_error l i = Some a -> nth_error (list_set l i v) i = Some v).
    { induction l as [|a l IH]; intros i v b Hb; destruct i; cbn in *; try discriminate; eauto. }
    assert (Hcol : forall h, collector_of (set_reg w1 (list_set (w_reg w) ri rc')) h = collector_of w1 h) by (destruct h; reflexivity).
    assert (Hsl : forall i, slot (set_reg w1 (list_set (w_reg w) ri rc')) i = slot w1 i) by reflexivity.
    split; [reflexivity|]. split; [reflexivity|].
    split; [intros j Hj; cbn [set_reg w_reg]; apply Hset; auto|].
    split; [cbn [set_reg w_reg]; eapply Hset2; eauto|].
    split; [exact Hcs|]. split; [exact Hp|]. split; [exact Hl|].
    split; [rewrite Hsl; exact Hs|].
    split; [rewrite Hcol, Hsl, Hs; exact Hc|].
    intros i Hi. rewrite Hsl. apply slot_kept. exact Hi.
  Qed.
End Call.

(* ---- what the explicit constructor creates: name, help, constant labels, variable labels, buckets ---- *)
Lemma describe_fields o d :
  describe o = Some d ->
  d_fq_name d = opts_fq_name o /\ d_help d = o_help o /\ d_const_pairs d = pairs_obs (o_consts o) /\ d_vars d = o_vars o.
Proof.
  unfold describe. intros H. apply desc_new_inv in H as (_ & _ & _ & names & _ & ->). cbn. auto.
Qed.

Definition created_buckets (x : created) : option (list f64) :=
  match x with
  | CrV _ => None
  | CrH h => Some (hc_bounds h)
  | CrVec v => match v_kind v with VKHist bs => Some bs | _ => None end
  end.

(* the options value the constructor was given, with the label names of the vector forms *)
Definition ctor_opts (cop : op) : option (Opts * option (list f64)) :=
  match cop with
  | OpCounter _ o | OpGauge _ o => Some (o, None)
  | OpHistogram o => Some (ho_common o, Some (ho_buckets o))
  | OpCounterVec _ o ls | OpGaugeVec _ o ls => Some (opts_with_vars o ls, None)
  | OpHistVec o ls => Some (opts_with_vars (ho_common o) ls, Some (ho_buckets o))
  | _ => None
  end.

Theorem created_metric cop x o bs :
  ctor_result cop = Some (Ok x) -> ctor_opts cop = Some (o, bs) ->
  d_fq_name (created_desc x) = opts_fq_name o
  /\ d_help (created_desc x) = o_help o
  /\ d_const_pairs (created_desc x) = pairs_obs (o_consts o)
  /\ d_vars (created_desc x) = o_vars o
  /\ match bs, cop with
     | None, _ => created_buckets x = None
     | Some b, OpHistogram _ => exists b', check_and_adjust_buckets b = Some b' /\ created_buckets x = Some b'
     | Some b, _ => created_buckets x = Some b      (* a vector keeps the list and validates it per child *)
     end.
Proof.
  destruct cop; cbn [ctor_result ctor_opts]; intros H1 H2; try discriminate; inversion H2; subst; clear H2;
    unfold value_new, hcore_new, hopts_describe, vec_create in H1;
    try (destruct (existsb _ _ || existsb _ _); [discriminate|]);
    match type of H1 with context [describe ?oo] => destruct (describe oo) as [d|] eqn:D; [|discriminate] end;
    destruct (describe_fields _ _ D) as (A1 & A2 & A3 & A4).
  - destruct (make_label_pairs d []); inversion H1; subst. cbn [created_desc vc_desc created_buckets]. auto.
  - destruct (make_label_pairs d []); inversion H1; subst. cbn [created_desc vc_desc created_buckets]. auto.
  - destruct (has_le_label d); [discriminate|]. destruct (make_label_pairs d []); [|discriminate].
    match type of H1 with context [check_and_adjust_buckets ?bb] => destruct (check_and_adjust_buckets bb) as [b'|] eqn:B end;
      inversion H1; subst.
    cbn [created_desc hc_desc created_buckets hc_bounds]. repeat split; auto. eauto.
  - inversion H1; subst. cbn [created_desc v_desc created_buckets v_kind]. auto.
  - inversion H1; subst. cbn [created_desc v_desc created_buckets v_kind]. auto.
  - inversion H1; subst. cbn [created_desc v_desc created_buckets v_kind]. auto.
Qed.

(* ---- updates through the returned handle are what the registry collects (scalar metrics) ---- *)
Lemma collect_collector_keeps_v w col fs w' : collect_collector w col = Some (fs, w') -> w_v w' = w_v w.
Proof.
  destruct col; cbn [collect_collector]; intros H.
  - destruct (nth_error (w_v w) c); inversion H; auto.
  - destruct (nth_error (w_h w) c); [|discriminate]. unfold collect_hist in H. destruct (nth_error (w_h w) c); [|discriminate].
    destruct (hist_metric _) as [[m h']|]; inversion H; subst. reflexivity.
  - destruct (nth_error (w_vec w) v) as [vv|]; [|discriminate].
    destruct (collect_children w (v_kind vv) (v_children vv)) as [[ms w1]|] eqn:E; inversion H; subst. clear H.
    revert w ms E. induction (v_children vv) as [|[k ch] l IH]; intros w ms E; cbn [collect_children] in E.
    + inversion E; auto.
    + destruct (v_kind vv) eqn:K.
      * destruct (nth_error (w_v w) ch); [|discriminate].
        destruct (collect_children w (VKValue t k0) l) as [[ms' w2]|] eqn:E2; inversion E; subst. eapply IH; eauto.
      * unfold collect_hist in E. destruct (nth_error (w_h w) ch); [|discriminate].
        destruct (hist_metric _) as [[m h']|]; [|discriminate].
        destruct (collect_children _ (VKHist buckets) l) as [[ms' w2]|] eqn:E2; inversion E; subst.
        rewrite (IH _ _ E2). reflexivity.
  - inversion H; auto.
  - inversion H; auto.
Qed.

Lemma collect_all_value cs : forall w fs w' k i vc,
  collect_all w cs = Some (fs, w') -> In (k, CValue i) cs -> nth_error (w_v w) i = Some vc -> In (value_collect vc) fs.
Proof.
  induction cs as [|[k0 c0] cs IH]; intros w fs w' k i vc H Hin Hv; [contradiction|].
  cbn [collect_all] in H. destruct (collect_collector w c0) as [[fs1 w1]|] eqn:E1; [|discriminate].
  destruct (collect_all w1 cs) as [[fs2 w2]|] eqn:E2; inversion H; subst. apply in_or_app. destruct Hin as [Hin|Hin].
  - inversion Hin; subst. left. cbn [collect_collector] in E1. rewrite Hv in E1. inversion E1; subst. left; auto.
  - right. eapply IH; eauto. rewrite (collect_collector_keeps_v _ _ _ _ E1). exact Hv.
Qed.

(* gathering a registry that holds the scalar metric behind a handle reports that metric's CURRENT
   value: the family collected from the core the handle updates is among the gathered input *)
Theorem gather_sees_handle_updates w r ri rc k i vc :
  slot w r = HRegistry ri -> nth_error (w_reg w) ri = Some rc -> In (k, CValue i) (r_collectors rc) ->
  nth_error (w_v w) i = Some vc ->
  match step w (OpGather r) with
  | (_, OFams g) => exists fs, g = gather_families (r_prefix rc) (r_labels rc) fs /\ In (value_collect vc) fs
  | (_, o) => o = OHung
  end.
Proof.
  intros H1 H2 H3 H4. rewrite (world_gather_step w r ri rc H1 H2).
  destruct (collect_all w (r_collectors rc)) as [[fs w']|] eqn:E; auto.
  exists fs. split; auto. eapply collect_all_value; eauto.
Qed.

(* the whole story for a scalar counter / gauge created by an accepted invocation: increment through
   the returned handle, then gather the targeted registry: the family collected for it carries the
   incremented value *)
Theorem call_inc_gather rho dflt c w cop vc ri rc rc' :
  ctor_op rho c = Some cop -> ctor_result cop = Some (Ok (CrV vc)) ->
  let rs := reg_slot rho dflt (c_reg c) in let s := length (w_slots w) in
  slot w rs = HRegistry ri -> (rs < length (w_slots w))%nat -> nth_error (w_reg w) ri = Some rc ->
  reg_register rc [vc_desc vc] (CValue (length (w_v w))) = Ok rc' ->
  let w2 := fst (eval_call rho dflt c w) in
  let w3 := fst (step w2 (OpInc s)) in
  let one := match vc_val vc with VF _ => VF f_one | VU _ => VU 1 | VI _ => VI 1%Z end in
  snd (step w2 (OpInc s)) = OUnit
  /\ match step w3 (OpGather rs) with
     | (_, OFams g) => exists fs, g = gather_families (r_prefix rc) (r_labels rc) fs
                                  /\ In (value_collect (mkVCore (vc_desc vc) (vc_type vc) (num_add (vc_val vc) one) (vc_labels vc))) fs
     | (_, o) => o = OHung
     end.
Proof.
  intros Hop Hx rs s Hslot Hlt Hreg Hok w2 w3 one.
  destruct (eval_call_accepted rho dflt c w cop Hop (CrV vc) Hx ri rc Hslot Hlt Hreg rc' Hok)
    as (_ & Hregs & _ & Hri & (cid & Hcs) & Hp & Hl & Hs & _ & Hkeep).
  fold w2 in Hregs, Hri, Hs, Hkeep. fold s in Hs, Hkeep. cbn [install snd] in Hs.
  assert (Hv2 : w_v w2 = w_v w ++ [vc]).
  { unfold w2. rewrite (eval_call_unfold rho dflt c w cop Hop (CrV vc) Hx ri rc Hslot Hlt Hreg).
    cbn [created_desc created_collector]. rewrite Hok. reflexivity. }
  assert (Hstep : step w2 (OpInc s) =
                  (set_v w2 (upd (w_v w2) (length (w_v w))
                                 (fun v => mkVCore (vc_desc v) (vc_type v) (num_add (vc_val v) (match vc_val v with VF _ => VF f_one | VU _ => VU 1 | VI _ => VI 1%Z end)) (vc_labels v))), OUnit)).
  { cbn [step]. rewrite Hs. reflexivity. }
  unfold w3. rewrite Hstep. cbn [fst snd]. split; [reflexivity|].
  set (w3' := set_v w2 _).
  assert (H3v : nth_error (w_v w3') (length (w_v w)) = Some (mkVCore (vc_desc vc) (vc_type vc) (num_add (vc_val vc) one) (vc_labels vc))).
  { unfold w3', set_v, upd. cbn [w_v]. rewrite Hv2, nth_error_snoc. clear. induction (w_v w); cbn; auto. }
  rewrite <- Hp, <- Hl. apply (gather_sees_handle_updates w3' rs ri rc' cid (length (w_v w))).
  - unfold w3'. change (slot w2 rs = HRegistry ri). rewrite Hkeep; auto.
  - exact Hri.
  - rewrite Hcs. apply in_or_app. right. left. reflexivity.
  - exact H3v.
Qed.

(* ====================================================================================== *)
(* non-vacuity: a concrete world in which the three outcomes occur                         *)
(* ====================================================================================== *)
Definition ex_rho : valuation :=
  mkVal (fun a => if String.eqb a "NAME" then [120%N] else [104%N])    (* NAME = "x", everything else "h" *)
        (fun _ => []) (fun _ => [[97%N]]) (fun _ => [bits2f 0x3ff0000000000000%N])
        (fun _ => mkOpts [] [] [] [104%N] [] [])                          (* an Opts value with an empty name: refused *)
        (fun _ => mkHOpts (mkOpts [] [] [121%N] [104%N] [] []) [])
        (fun _ => 1%nat).
Definition ex_world : world := run_world world0 [OpRegistry None None; OpRegistry (Some [112%N]) None].
Definition ex_call : callx := mkCall "counter" KCounter oN None R.

Example ex_ok_then_duplicate_err :
  mrun ex_rho 0 ex_world [MCall ex_call; MOp (OpInc 2); MOp (OpGather 1); MOp (OpGather 0); MCall ex_call]
  = [ORes (Ok Datatypes.tt); OUnit;
     OFams [mkMF [112; 95; 120]%N [104%N] COUNTER [mkMetric [] None (Some (bits2f 0x3ff0000000000000%N)) None None None None]];
     OFams []; ORes (Err EAlreadyReg)].
Proof. vm_compute. reflexivity. Qed.
Example ex_ctor_refused_panics :
  mrun ex_rho 0 ex_world [MCall (mkCall "counter" KCounter oV None RDefault); MOp (OpGather 0)] = [OPanic; OFams []].
Proof. vm_compute. reflexivity. Qed.
