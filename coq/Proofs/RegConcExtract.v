(* C06, concurrent part, 8: the marker bookkeeping of the spec ([qextract], indices = positions in the EVENT list) agrees with
   the ghost call records of the model (indices = positions in the LABEL trace, silent steps included), through the map
   [E tr j] = number of events among the first j labels.  For every reachable state. *)
Require Import PV.Base.Prelude PV.Base.StrFacts PV.Base.F64.
Require Import PV.Model.Proto PV.Model.Desc PV.Model.Value PV.Model.Registry PV.Model.Conc PV.Model.RegConc.
Require Import PV.Proofs.RegConcBase PV.Proofs.RegConcLin PV.Proofs.RegConcFacts PV.Proofs.RegConcOrder.
Require Import PV.Spec.SpecC06Conc.
From Coq Require Import Arith Lia Sorted.
Open Scope nat_scope.

Lemma firstn_add_split {A} (l : list A) j k : firstn (j + k) l = firstn j l ++ firstn k (skipn j l).
Proof. revert l; induction j as [|j IH]; intros l; cbn; auto. destruct l; cbn; [destruct k; reflexivity | rewrite IH; reflexivity]. Qed.

(* ------------------------------------------------------------------ label indices to event indices *)
Definition E (tr : list qlabel) (j : nat) : N := N.of_nat (length (qvisible (firstn j tr))).

Lemma E_snoc tr l j : j <= length tr -> E (tr ++ [l]) j = E tr j.
Proof. intros H. unfold E. rewrite firstn_app. replace (j - length tr) with 0 by lia. cbn [firstn]. rewrite app_nil_r. reflexivity. Qed.
Lemma E_all tr : E tr (length tr) = N.of_nat (length (qvisible tr)).
Proof. unfold E. rewrite firstn_all. reflexivity. Qed.
Lemma E_mono tr j k : j <= k -> (E tr j <= E tr k)%N.
Proof.
  intros H. unfold E. replace k with (j + (k - j)) by lia. rewrite firstn_add_split. rewrite qvisible_app, app_length. lia.
Qed.
Lemma E_event tr j e : nth_error tr j = Some (QE e) -> E tr (S j) = (E tr j + 1)%N.
Proof.
  intros H. unfold E. replace (S j) with (j + 1) by lia. rewrite firstn_add_split, qvisible_app, app_length.
  assert (X : firstn 1 (skipn j tr) = [QE e]).
  { rewrite <- (firstn_skipn j tr) in H. rewrite nth_error_app2 in H by (rewrite firstn_length; lia).
    assert (Hl : j < length tr) by (apply nth_error_Some; rewrite <- (firstn_skipn j tr) at 1; intros X; rewrite nth_error_app2 in X by (rewrite firstn_length; lia); congruence).
    rewrite firstn_length, Nat.min_l, Nat.sub_diag in H by lia. destruct (skipn j tr) as [|y r]; [discriminate|]. cbn in H. inversion H. reflexivity. }
  rewrite X. cbn. lia.
Qed.
Lemma E_event_lt tr j k e : nth_error tr j = Some (QE e) -> j < k -> (E tr j < E tr k)%N.
Proof. intros H Hk. pose proof (E_event tr j e H). pose proof (E_mono tr (S j) k ltac:(lia)). lia. Qed.

(* ------------------------------------------------------------------ what a step does to the ghost call records *)
Lemma qstep0_ghost s l s' : qstep0 s l = Some s' ->
  match l with
  | QE (RgCall t c) => q_pc s t = QIdle /\ qg_open s' = qupd (qg_open s) t (Some (c, qg_now s)) /\ qg_done s' = qg_done s
                       /\ (match c with RRegister i | RUnregister i => i < length (q_ct s) | RGather => True end)
  | QE (RgRet t r) => exists c ti, qg_open s t = Some (c, ti) /\ qg_open s' = qupd (qg_open s) t None
                                   /\ qg_done s' = (t, c, r, ti, qg_now s) :: qg_done s
  | QE (RgLock _ _ _ _) | QE (RgUnlock _ _ _) | QE (RgDesc _ _) | QE (RgCollect _ _) | QTau _ => qg_open s' = qg_open s /\ qg_done s' = qg_done s
  | QE _ => False
  end.
Proof.
  intros H. qinv_step H; qboolp; cbn [qg_open qg_done qset_pc qset_open qadd_done qset_lock qlin qset_tab]; auto.
  all: try (repeat match goal with |- context [match ?v with Ok _ => _ | Err _ => _ end] => destruct v end; cbn; auto; fail).
  all: try (match goal with Hl : Nat.ltb _ _ = true |- _ => apply Nat.ltb_lt in Hl end; auto; fail).
  - match goal with Hr : rret_eqb _ _ = true |- _ => apply rret_eqb_eq in Hr; subst end. eauto.
Qed.

(* ------------------------------------------------------------------ the open-call list of the spec *)
Lemma qopen_get_In t l v : qopen_get t l = Some v -> In t (map fst l).
Proof. induction l as [|[u x] l IH]; cbn; [discriminate|]. destruct (Nat.eqb u t) eqn:Eq; [apply Nat.eqb_eq in Eq; auto | auto]. Qed.
Lemma qopen_get_notin t l : ~ In t (map fst l) -> qopen_get t l = None.
Proof. intros H. destruct (qopen_get t l) eqn:Eq; auto. apply qopen_get_In in Eq. contradiction. Qed.
Lemma qopen_del_keys t l u : In u (map fst (qopen_del t l)) -> In u (map fst l).
Proof. induction l as [|[w x] l IH]; cbn; auto. destruct (Nat.eqb w t); cbn; [auto | intros [H|H]; auto]. Qed.
Lemma qopen_del_NoDup t l : NoDup (map fst l) -> NoDup (map fst (qopen_del t l)).
Proof.
  induction l as [|[w x] l IH]; cbn; auto. intros ND; inversion ND; subst. destruct (Nat.eqb w t); cbn; auto.
  constructor; auto. intros H. apply H1. eapply qopen_del_keys; eauto.
Qed.
Lemma qopen_get_del_same t l : NoDup (map fst l) -> qopen_get t (qopen_del t l) = None.
Proof.
  induction l as [|[w x] l IH]; cbn; auto. intros ND; inversion ND; subst. destruct (Nat.eqb w t) eqn:Eq.
  - apply Nat.eqb_eq in Eq; subst. apply qopen_get_notin; auto.
  - cbn. rewrite Eq. auto.
Qed.
Lemma qopen_get_del_other t u l : u <> t -> qopen_get u (qopen_del t l) = qopen_get u l.
Proof.
  intros Hn. induction l as [|[w x] l IH]; cbn; auto. destruct (Nat.eqb w t) eqn:Eq.
  - apply Nat.eqb_eq in Eq; subst. destruct (Nat.eqb t u) eqn:E2; auto. apply Nat.eqb_eq in E2. congruence.
  - cbn. rewrite IH. reflexivity.
Qed.

Lemma ssorted_snoc l (x : qcrec) : StronglySorted ri_lt l -> Forall (fun c => ri_lt c x) l -> StronglySorted ri_lt (l ++ [x]).
Proof.
  induction 1 as [|a l S IH F]; cbn; intros H; [repeat constructor|]. inversion H; subst. constructor; auto.
  apply Forall_app. split; auto.
Qed.

(* ------------------------------------------------------------------ the correspondence *)
Definition conv (tr : list qlabel) (d : qdrec) : qcrec :=
  let '(t, c, r, ti, trr) := d in {| qc_t := t; qc_call := c; qc_ret := r; qc_ci := E tr ti; qc_ri := E tr trr |}.
Definition x0 : qxst := {| qx_open := []; qx_done := []; qx_ok := true |}.
Definition xrun (es : list revent) : qxst * N := fold_left qxstep es (x0, 0%N).

Record XI (tr : list qlabel) (s : qstate) (xi : qxst * N) : Prop := {
  XI_i : snd xi = N.of_nat (length (qvisible tr));
  XI_ok : qx_ok (fst xi) = true;
  XI_nd : NoDup (map fst (qx_open (fst xi)));
  XI_open : forall t, qopen_get t (qx_open (fst xi)) = option_map (fun ci => (fst ci, E tr (snd ci))) (qg_open s t);
  XI_done : qx_done (fst xi) = map (conv tr) (rev (qg_done s));
  XI_below : Forall (fun c => (qc_ri c < snd xi)%N) (qx_done (fst xi));
  XI_sorted : StronglySorted ri_lt (qx_done (fst xi)) }.

Lemma conv_snoc tr l d : (let '(_, _, _, ti, trr) := d in ti <= length tr /\ trr <= length tr) -> conv (tr ++ [l]) d = conv tr d.
Proof. destruct d as [[[[t c] r] ti] trr]. intros [H1 H2]. unfold conv. rewrite !E_snoc by lia. reflexivity. Qed.

Lemma xi_step ct tr s l s' xi : qreach ct tr s -> qstep s l = Some s' -> XI tr s xi ->
  XI (tr ++ [l]) s' (match l with QE e => qxstep xi e | QTau _ => xi end).
Proof.
  intros R Hs X. pose proof (qreach_ginv ct tr s R) as G. pose proof (QG_now tr s G) as Hnow.
  unfold qstep in Hs. destruct (qstep0 s l) as [s0|] eqn:H0; [|discriminate]. inversion Hs; subst s'; clear Hs.
  pose proof (qstep0_ghost s l s0 H0) as Hg. destruct xi as [x i]. destruct X as [X1 X2 X3 X4 X5 X6 X7]. cbn [fst snd] in *.
  assert (Hdone_old : map (conv (tr ++ [l])) (rev (qg_done s)) = map (conv tr) (rev (qg_done s))).
  { apply map_ext_in. intros d Hd. apply conv_snoc. rewrite <- in_rev in Hd. destruct d as [[[[t c] r] ti] trr].
    destruct (QG_done tr s G _ _ _ _ _ Hd) as (A & B & _). lia. }
  assert (Hopen_old : forall t, option_map (fun ci : rcall * nat => (fst ci, E (tr ++ [l]) (snd ci))) (qg_open s t)
                                = option_map (fun ci => (fst ci, E tr (snd ci))) (qg_open s t)).
  { intros t. pose proof (QG_open tr s G t) as Ho. destruct (qg_open s t) as [[c ti]|]; cbn; auto. rewrite E_snoc; auto. destruct Ho. lia. }
  assert (Hframe : qg_open s0 = qg_open s -> qg_done s0 = qg_done s -> forall i', i' = N.of_nat (length (qvisible (tr ++ [l]))) -> (i <= i')%N ->
                   XI (tr ++ [l]) (qtick s0) (x, i')).
  { intros Eo Ed i' Ei Hle. constructor; cbn [fst snd qg_open qg_done qtick]; auto.
    - intros t. rewrite Eo, Hopen_old. apply X4.
    - rewrite Ed, Hdone_old. exact X5.
    - eapply Forall_impl; [|exact X6]. cbn. intros; lia. }
  destruct l as [e|t].
  - destruct e; try (destruct Hg; fail).
    + (* call *)
      destruct Hg as (Hidle & Eo & Ed & _). pose proof (q_idle_no_open tr s t G Hidle) as Hno.
      cbn [qxstep]. rewrite X4, Hno. cbn [option_map].
      constructor; cbn [fst snd qx_open qx_done qx_ok qg_open qg_done qtick map]; auto.
      * rewrite qvisible_app, app_length. cbn. lia.
      * constructor; auto. intros Hin. assert (Hx : qopen_get t (qx_open x) = None) by (rewrite X4, Hno; reflexivity).
        apply in_map_iff in Hin as ([u v] & Eu & Hin). cbn in Eu; subst u.
        clear - Hx Hin. induction (qx_open x) as [|[w y] q IH]; [destruct Hin|]. cbn in Hx. destruct (Nat.eqb w t) eqn:Eq; [discriminate|].
        destruct Hin as [Hin|Hin]; [inversion Hin; subst; rewrite Nat.eqb_refl in Eq; discriminate | auto].
      * intros u. rewrite Eo. unfold qupd. cbn [qopen_get]. rewrite (Nat.eqb_sym t u). destruct (Nat.eqb u t) eqn:Eu.
        -- cbn. rewrite Hnow, E_snoc, E_all, X1 by lia. reflexivity.
        -- rewrite Hopen_old. apply X4.
      * rewrite Ed, Hdone_old. exact X5.
      * eapply Forall_impl; [|exact X6]. cbn. intros; lia.
    + (* return *)
      destruct Hg as (c & ti & Ho & Eo & Ed). cbn [qxstep]. rewrite X4, Ho. cbn [option_map fst snd].
      constructor; cbn [fst snd qx_open qx_done qx_ok qg_open qg_done qtick]; auto.
      * rewrite qvisible_app, app_length. cbn. lia.
      * apply qopen_del_NoDup; auto.
      * intros u. rewrite Eo. unfold qupd. destruct (Nat.eqb u t) eqn:Eu.
        -- apply Nat.eqb_eq in Eu; subst. cbn. apply qopen_get_del_same; auto.
        -- apply Nat.eqb_neq in Eu. rewrite qopen_get_del_other by auto. rewrite Hopen_old. apply X4.
      * rewrite Ed. cbn [rev]. rewrite map_app, Hdone_old, <- X5. cbn [map]. f_equal. unfold conv.
        pose proof (QG_open tr s G t) as Hop. rewrite Ho in Hop. destruct Hop as (Hti & _).
        rewrite !E_snoc by lia. rewrite Hnow, E_all, X1. reflexivity.
      * apply Forall_app. split; [eapply Forall_impl; [|exact X6]; cbn; intros; lia | constructor; [cbn; lia | constructor]].
      * apply ssorted_snoc; auto.
    + destruct Hg as [Eo Ed]. cbn [qxstep]. apply Hframe; auto. rewrite qvisible_app, app_length. cbn. lia. lia.
    + destruct Hg as [Eo Ed]. cbn [qxstep]. apply Hframe; auto. rewrite qvisible_app, app_length. cbn. lia. lia.
    + destruct Hg as [Eo Ed]. cbn [qxstep]. apply Hframe; auto. rewrite qvisible_app, app_length. cbn. lia. lia.
    + destruct Hg as [Eo Ed]. cbn [qxstep]. apply Hframe; auto. rewrite qvisible_app, app_length. cbn. lia. lia.
  - destruct Hg as [Eo Ed]. apply Hframe; auto. rewrite qvisible_app, app_length. cbn. lia. lia.
Qed.

Lemma xi_init ct : XI [] (qstate0 ct) (x0, 0%N).
Proof. constructor; cbn; auto; constructor. Qed.

Theorem extract_corr ct tr s : qreach ct tr s -> XI tr s (xrun (qvisible tr)).
Proof.
  induction 1 as [|tr s l s' R IH Hs]; [apply xi_init|].
  pose proof (xi_step ct tr s l s' _ R Hs IH) as X. unfold xrun in *. rewrite qvisible_app, fold_left_app.
  destruct l as [e|t]; cbn [qvisible flat_map app fold_left]; exact X.
Qed.

(* every call marker of a reachable trace names a collector of the table *)
Lemma calls_range ct tr s : qreach ct tr s ->
  forall j t c, nth_error tr j = Some (QE (RgCall t c)) -> match c with RRegister i | RUnregister i => i < length ct | RGather => True end.
Proof.
  induction 1 as [|tr s l s' R IH Hs]; intros j t c Hn; [destruct j; discriminate|].
  apply q_nth_error_snoc_inv in Hn as [[_ Hn]|[_ Hn]]; [exact (IH j t c Hn)|]. subst l.
  unfold qstep in Hs. destruct (qstep0 s _) as [s0|] eqn:H0; [|discriminate]. apply qstep0_ghost in H0 as (_ & _ & _ & Hr).
  rewrite (qreach_ct ct tr s R) in Hr. exact Hr.
Qed.
