(* C04, layer 4: the writer model of src/encoder/text.rs against the render model, and the
   theorems about whole outputs.

   - writer = render: encode_impl fams w = (w ++ utf8 (unlines lines), flag) where (lines, flag) is
     what render_families computes  =>  append-only, one function behind the three entry points,
     the output is UTF-8 of a code-point list;
   - render_families = the lines of the families before the first bad one (+ the header of an
     UNTYPED family), flag = no bad family  =>  Err iff;
   - no rendered line contains LF, and the number of lines is a function of the shape;
   - the round trip: parse (encode fams) = view fams. *)
From Coq Require Import String Ascii.
Require Import PV.Base.Prelude PV.Base.F64 PV.Base.Utf8 PV.Base.Utf8Facts PV.Base.StrFacts.
Require Import PV.Model.Proto PV.Model.Desc PV.Model.Value PV.Model.Text PV.Model.TextParse.
Require Import PV.Spec.SpecC04.
Require Import PV.Proofs.TextEscape PV.Proofs.TextLine PV.Proofs.TextFamily.
Open Scope N_scope.

Lemma utf8_unlines_app a b : utf8 (unlines (a ++ b)) = utf8 (unlines a) ++ utf8 (unlines b).
Proof. now rewrite unlines_app, utf8_app. Qed.
Lemma unlines_one l : unlines [l] = l ++ [10].
Proof. unfold unlines. cbn. now rewrite app_nil_r. Qed.

Lemma utf8_cons c s : utf8 (c :: s) = utf8c c ++ utf8 s.
Proof. reflexivity. Qed.
Lemma utf8_nil : utf8 [] = [].
Proof. reflexivity. Qed.
(* normal form of byte strings: right-nested appends of utf8c c / utf8 s *)
Ltac u8 := unfold write_all;
  repeat (progress (rewrite ?utf8_app, ?utf8_cons, ?utf8_nil, ?app_nil_r, ?app_nil_l, <- ?app_comm_cons, <- ?app_assoc)).

Section Oracles.
  Variable show : f64 -> str.
  Variable showz : Z -> str.

  (* ================================================================== writer = render *)
  Fixpoint labels_text (sep : str) (ls : list LabelPair) : str :=
    match ls with
    | [] => []
    | l :: r => sep ++ render_label l ++ labels_text [COMMA] r
    end.
  Lemma write_pairs_eq pairs : forall w sep,
    write_pairs w sep pairs = (w ++ utf8 (labels_text sep pairs), if is_nil pairs then sep else [COMMA]).
  Proof.
    induction pairs as [|l r IH]; intros w sep; cbn [write_pairs labels_text is_nil].
    - cbn. now rewrite app_nil_r.
    - rewrite IH. unfold render_label. destruct r; u8; reflexivity.
  Qed.
  Lemma labels_text_app sep a b :
    labels_text sep (a ++ b) = labels_text sep a ++ labels_text (if is_nil a then sep else [COMMA]) b.
  Proof.
    revert sep. induction a as [|l a IH]; intros sep; [reflexivity|]. cbn [app labels_text is_nil].
    rewrite IH, <- !app_assoc. destruct a; reflexivity.
  Qed.
  Lemma render_label_tail_text ls : render_label_tail ls = labels_text [COMMA] ls ++ [RBRACE].
  Proof. induction ls as [|l ls IH]; [reflexivity|]. cbn [render_label_tail labels_text]. rewrite IH, <- !app_assoc. reflexivity. Qed.
  Lemma render_labels_text ls : ls <> [] -> render_labels ls = labels_text [LBRACE] ls ++ [RBRACE].
  Proof.
    destruct ls as [|l ls]; [congruence|]. intros _. cbn [render_labels labels_text].
    rewrite render_label_tail_text, <- !app_assoc. reflexivity.
  Qed.

  Definition add_lp (a : option (str * str)) : option LabelPair :=
    match a with Some (n, v) => Some (mkLP n v) | None => None end.

  Lemma label_pairs_to_text_eq pairs additional w :
    label_pairs_to_text pairs additional w = w ++ utf8 (render_labels (pairs ++ opt_list (add_lp additional))).
  Proof.
    unfold label_pairs_to_text. destruct pairs as [|l r]; destruct additional as [[n v]|]; cbn [is_nil andb add_lp opt_list].
    - cbn [write_pairs app render_labels render_label_tail render_label lp_name lp_value]. u8. reflexivity.
    - cbn. now rewrite app_nil_r.
    - rewrite write_pairs_eq. cbn [is_nil].
      rewrite render_labels_text by discriminate. rewrite labels_text_app. cbn [is_nil labels_text].
      unfold render_label. cbn [lp_name lp_value]. u8. reflexivity.
    - rewrite write_pairs_eq. cbn [is_nil]. rewrite app_nil_r.
      rewrite render_labels_text by discriminate. u8. reflexivity.
  Qed.

  Lemma write_sample_eq w name postfix m additional v :
    write_sample show showz w name postfix m additional v
    = w ++ utf8 (sample_line show showz name postfix m (add_lp additional) v ++ [10]).
  Proof.
    unfold write_sample, sample_line. rewrite label_pairs_to_text_eq.
    destruct postfix as [p|]; destruct (get_ts m =? 0)%Z; u8; reflexivity.
  Qed.

  Lemma write_buckets_eq name m bs : forall w inf_seen,
    write_buckets show showz w name m bs inf_seen
    = (w ++ utf8 (unlines (List.map (bucket_line show showz name m) bs)), inf_seen || existsb (fun b => ik_pos_inf (b_upper b)) bs).
  Proof.
    induction bs as [|b bs IH]; intros w inf_seen; cbn [write_buckets map existsb].
    - cbn. now rewrite app_nil_r, orb_false_r.
    - rewrite IH, write_sample_eq. cbn [add_lp]. rewrite unlines_cons, utf8_app, <- !app_assoc. f_equal.
      + f_equal. unfold bucket_line. rewrite utf8_app. reflexivity.
      + destruct (ik_pos_inf (b_upper b)), inf_seen; reflexivity.
  Qed.
  Lemma write_quantiles_eq name m qs : forall w,
    write_quantiles show showz w name m qs = w ++ utf8 (unlines (List.map (quantile_line show showz name m) qs)).
  Proof.
    induction qs as [|q qs IH]; intros w; cbn [write_quantiles map].
    - cbn. now rewrite app_nil_r.
    - rewrite IH, write_sample_eq. cbn [add_lp]. rewrite unlines_cons, utf8_app, <- !app_assoc. f_equal.
      f_equal. unfold quantile_line. rewrite utf8_app. reflexivity.
  Qed.

  Lemma write_metric_eq w t name m :
    write_metric show showz w t name m =
    match metric_lines show showz t name m with
    | Some ls => (w ++ utf8 (unlines ls), true)
    | None => (w, false)
    end.
  Proof.
    destruct t; cbn [write_metric metric_lines].
    - rewrite write_sample_eq, unlines_one. reflexivity.
    - rewrite write_sample_eq, unlines_one. reflexivity.
    - rewrite write_quantiles_eq, !write_sample_eq. cbn [add_lp]. unfold summary_lines.
      rewrite utf8_unlines_app. change [?a; ?b] with ([a] ++ [b]). rewrite utf8_unlines_app, !unlines_one, <- !app_assoc. reflexivity.
    - reflexivity.
    - rewrite write_buckets_eq. cbn [orb]. unfold hist_lines.
      destruct (existsb (fun b => ik_pos_inf (b_upper b)) (h_bucket (get_histogram m))).
      + rewrite !write_sample_eq. cbn [add_lp app].
        rewrite utf8_unlines_app. change [?a; ?b] with ([a] ++ [b]). rewrite utf8_unlines_app, !unlines_one, <- !app_assoc. reflexivity.
      + rewrite !write_sample_eq. cbn [add_lp].
        rewrite utf8_unlines_app. change [?a; ?b] with ([a] ++ [b]). rewrite !utf8_unlines_app, !unlines_one, <- !app_assoc. reflexivity.
  Qed.

  Lemma write_metrics_eq t name ms : forall w,
    write_metrics show showz w t name ms
    = (w ++ utf8 (unlines (fst (metrics_lines show showz t name ms))), snd (metrics_lines show showz t name ms)).
  Proof.
    induction ms as [|m ms IH]; intros w; cbn [write_metrics metrics_lines].
    - cbn. now rewrite app_nil_r.
    - rewrite write_metric_eq. destruct (metric_lines show showz t name m) as [ls|].
      + rewrite IH. destruct (metrics_lines show showz t name ms) as [ls' ok]. cbn [fst snd].
        rewrite utf8_unlines_app, <- app_assoc. reflexivity.
      + cbn. now rewrite app_nil_r.
  Qed.

  Definition hdr_w (w : writer) (mf : MetricFamily) : writer :=
    let w := if negb (is_nil (mf_help mf))
             then write_all (write_all (write_all (write_all (write_all w k_help) (mf_name mf)) [SP]) (escape_string (mf_help mf) false)) [Text.LF]
             else w in
    write_all (write_all (write_all (write_all (write_all w k_type) (mf_name mf)) [SP]) (type_word (mf_type mf))) [Text.LF].
  Lemma header_eq w mf : hdr_w w mf = w ++ utf8 (unlines (header_lines mf)).
  Proof.
    unfold hdr_w, header_lines. destruct (is_nil (mf_help mf)); cbn [negb app].
    - rewrite unlines_one. u8. reflexivity.
    - rewrite unlines_cons, unlines_one. u8. reflexivity.
  Qed.
  Lemma encode_impl_cons mf r w :
    encode_impl show showz (mf :: r) w =
    if negb (check_metric_family mf) then (w, false)
    else let '(w', ok) := write_metrics show showz (hdr_w w mf) (mf_type mf) (mf_name mf) (mf_metric mf) in
         if ok then encode_impl show showz r w' else (w', false).
  Proof. reflexivity. Qed.

  Theorem encode_impl_render fams : forall w,
    encode_impl show showz fams w
    = (w ++ utf8 (unlines (fst (render_families show showz fams))), snd (render_families show showz fams)).
  Proof.
    induction fams as [|mf fams IH]; intros w.
    - cbn. now rewrite app_nil_r.
    - rewrite encode_impl_cons. cbn [render_families]. destruct (negb (check_metric_family mf)).
      + cbn. now rewrite app_nil_r.
      + rewrite (header_eq w mf). rewrite write_metrics_eq.
        destruct (metrics_lines show showz (mf_type mf) (mf_name mf) (mf_metric mf)) as [ml ok]. cbn [fst snd].
        destruct ok.
        * rewrite IH. destruct (render_families show showz fams) as [rl ok']. cbn [fst snd].
          rewrite !utf8_unlines_app, <- !app_assoc. reflexivity.
        * cbn [fst snd]. rewrite utf8_unlines_app, <- !app_assoc. reflexivity.
  Qed.

  (* ================================================================== append-only, one function *)
  Definition text_of (fams : list MetricFamily) : str := text_cps show showz fams.
  Definition ok_of (fams : list MetricFamily) : bool := snd (render_families show showz fams).

  Theorem encode_eq buf fams :
    encode show showz buf fams = if ok_of fams then EOk (buf ++ utf8 (text_of fams)) else EErr EMsg (buf ++ utf8 (text_of fams)).
  Proof. unfold encode, finish. rewrite encode_impl_render. reflexivity. Qed.

  Theorem encode_append_only buf fams :
    encode show showz buf fams =
    match encode show showz [] fams with
    | EOk out => EOk (buf ++ out)
    | EErr e out => EErr e (buf ++ out)
    | EPanic => EPanic
    end.
  Proof. rewrite !encode_eq. destruct (ok_of fams); reflexivity. Qed.

  Theorem entry_points_same buf fams :
    encode_utf8 show showz buf fams = encode show showz buf fams
    /\ encode_to_string show showz fams =
       match encode show showz [] fams with EOk out => EOk out | EErr e _ => EErr e [] | EPanic => EPanic end.
  Proof. split; reflexivity. Qed.

  (* ================================================================== Err iff; the lines written *)
  (* the header of the first bad family, when it gets past check_metric_family (an UNTYPED family) *)
  Fixpoint bad_header (fams : list MetricFamily) : list str :=
    match fams with
    | [] => []
    | f :: r => if bad_family f then (if check_metric_family f then header_lines f else []) else bad_header r
    end.

  Theorem render_families_eq fams :
    render_families show showz fams
    = (flat_map (family_lines show showz) (good_prefix fams) ++ bad_header fams, negb (existsb bad_family fams)).
  Proof.
    induction fams as [|f fams IH]; [reflexivity|]. cbn [render_families good_prefix bad_header existsb].
    destruct (bad_family f) eqn:Eb.
    - cbn [orb negb flat_map app]. destruct (check_metric_family f) eqn:Ec; cbn [negb]; [|reflexivity].
      unfold bad_family, check_metric_family in Eb, Ec. apply andb_prop in Ec as [E1 E2].
      apply negb_true_iff in E1, E2. rewrite E1, E2 in Eb. cbn [orb] in Eb.
      destruct (mf_type f); try discriminate. destruct (mf_metric f) as [|m ms]; [discriminate|].
      cbn [metrics_lines metric_lines]. now rewrite app_nil_r.
    - destruct (good_family_inv f Eb) as (Hc & Ht & _). rewrite Hc. cbn [negb orb flat_map].
      rewrite (metrics_lines_good _ _ _ _ _ Ht), IH. unfold family_lines. rewrite <- !app_assoc. reflexivity.
  Qed.

  Theorem ok_of_iff fams : ok_of fams = negb (existsb bad_family fams).
  Proof. unfold ok_of. now rewrite render_families_eq. Qed.

  Lemma no_bad_good fams : existsb bad_family fams = false -> Forall good_family fams /\ good_prefix fams = fams /\ bad_header fams = [].
  Proof.
    induction fams as [|f fams IH]; cbn [existsb good_prefix bad_header]; [auto|]. intros H. apply orb_false_elim in H as [H1 H2].
    destruct (IH H2) as (IH1 & IH2 & IH3). rewrite H1, IH2, IH3. auto.
  Qed.
  Lemma good_prefix_good fams : Forall good_family (good_prefix fams).
  Proof. induction fams as [|f fams IH]; cbn [good_prefix]; [constructor|]. destruct (bad_family f) eqn:E; constructor; auto. Qed.

  (* ================================================================== characters of the lines of a family *)
  Definition spec_chars (s : lspec) : Prop :=
    let '(p, a, v) := s in
    forallb printable (opt_str p) = true
    /\ match a with None => True | Some l => forallb printable (lp_name l) = true /\ forallb printable (lp_value l) = true end
    /\ forallb printable (show v) = true.

  Lemma float_printable x : float_token_ok x (show x) = true -> forallb printable (show x) = true.
  Proof. intros H. apply float_token_parse in H as [_ H]. apply num_chars_printable, H. Qed.

  Lemma metric_specs_chars t m specs :
    metric_specs show t m = Some specs -> metric_nums show showz t m -> Forall spec_chars specs.
  Proof.
    intros Hs [Hn _]. destruct t; cbn [metric_specs] in Hs; inversion Hs; subst; clear Hs.
    - repeat constructor. apply float_printable, Hn. now left.
    - repeat constructor. apply float_printable, Hn. now left.
    - unfold summary_specs. apply Forall_app. split.
      + apply Forall_map, Forall_forall. intros q Hq. repeat split; try reflexivity.
        * apply float_printable, Hn. cbn [metric_floats]. apply in_or_app. left. apply in_flat_map. exists q. split; auto. now left.
        * apply float_printable, Hn. cbn [metric_floats]. apply in_or_app. left. apply in_flat_map. exists q. split; auto. right. now left.
      + repeat constructor; apply float_printable, Hn; cbn [metric_floats]; apply in_or_app; right; cbn; auto.
    - unfold hist_specs, hist_item_specs. rewrite !Forall_app. repeat split.
      + apply Forall_map, Forall_forall. intros b Hb. repeat split; try reflexivity.
        * apply float_printable, Hn. cbn [metric_floats]. apply in_or_app. left. apply in_flat_map. exists b. split; auto. now left.
        * apply float_printable, Hn. cbn [metric_floats]. apply in_or_app. left. apply in_flat_map. exists b. split; auto. right. now left.
      + destruct (existsb _ _); constructor; [|constructor]. repeat split; try reflexivity.
        apply float_printable, Hn. cbn [metric_floats]. apply in_or_app. right. now left.
      + repeat constructor; apply float_printable, Hn; cbn [metric_floats]; apply in_or_app; right; cbn; auto.
  Qed.

  Section Chars.
    Variables P Q : N -> bool.
    Hypothesis HPp : forall c, printable c = true -> P c = true.
    Hypothesis HQp : forall c, printable c = true -> Q c = true.
    Hypothesis HP32 : P 32 = true.
    Hypothesis HPesc : forall q s, forallb Q s = true -> forallb P (escape_plain q s) = true.

    Lemma spec_line_P name m s :
      forallb P name = true -> Forall (label_P P Q) (m_label m) -> spec_chars s -> ts_ok showz m ->
      forallb P (spec_line show showz name m s) = true.
    Proof.
      destruct s as [[p a] v]. intros Hn Hl (H1 & H2 & H3) Ht. cbn [spec_line].
      apply (sample_line_P show showz P Q HPp HP32 HPesc); auto.
      - revert H1. apply forallb_impl, HPp.
      - apply Forall_app. split; auto. destruct a as [l|]; cbn [opt_list]; constructor; [|constructor].
        destruct H2 as [Ha Hb]. split; [revert Ha; apply forallb_impl, HPp | revert Hb; apply forallb_impl, HQp].
      - revert H3. apply forallb_impl, HPp.
      - unfold ts_P. intros E. apply Ht in E. apply int_token_parse in E as [_ E]. apply num_chars_printable in E.
        revert E. apply forallb_impl, HPp.
    Qed.

    Lemma family_lines_P f :
      forallb P (mf_name f) = true -> forallb Q (mf_help f) = true ->
      (forall m, In m (mf_metric f) -> Forall (label_P P Q) (m_label m) /\ metric_nums show showz (mf_type f) m) ->
      Forall (fun l => forallb P l = true) (family_lines show showz f).
    Proof.
      intros Hn Hh Hm. unfold family_lines. apply Forall_app. split.
      - unfold header_lines. apply Forall_app. split.
        + destruct (is_nil (mf_help f)); constructor; [|constructor]. apply (help_line_P P Q HPp HP32 HPesc); auto.
        + constructor; [|constructor]. apply (type_line_P P HPp HP32); auto.
      - apply Forall_flat_map, Forall_forall. intros m Hin. destruct (Hm m Hin) as [Hl Hnum]. unfold metric_lines'.
        apply Forall_map. destruct (metric_specs show (mf_type f) m) as [specs|] eqn:E; [|constructor]. cbn [opt_specs].
        pose proof (metric_specs_chars _ _ _ E Hnum) as Hc. rewrite Forall_forall in Hc |- *.
        intros s Hs. apply spec_line_P; auto. apply Hnum.
    Qed.
  End Chars.

  (* names: what the library's validators accept *)
  Definition names_ok (f : MetricFamily) : Prop :=
    is_valid_metric_name (mf_name f) = true
    /\ forall m l, In m (mf_metric f) -> In l (m_label m) -> is_valid_label_name (lp_name l) = true.

  Lemma valid_metric_printable s : is_valid_metric_name s = true -> forallb printable s = true.
  Proof. intros H. apply valid_metric_name_p, p_valid_name_chars in H. revert H. apply forallb_impl, mname_char_printable. Qed.
  Lemma valid_label_printable s : is_valid_label_name s = true -> forallb printable s = true.
  Proof.
    intros H. apply valid_label_name_p, p_valid_name_chars in H. revert H. apply forallb_impl. intros c Hc.
    apply mname_char_printable, lname_char_mname, Hc.
  Qed.

  Definition fam_nums (fams : list MetricFamily) : Prop :=
    forall f m, In f fams -> In m (mf_metric f) -> metric_nums show showz (mf_type f) m.
  Lemma numbers_ok_fams fams : numbers_ok show showz fams = true -> fam_nums fams.
  Proof. intros H f m Hf Hm. eapply numbers_ok_metric; eauto. Qed.

  (* no rendered line contains a raw LF: for ANY help text and label values *)
  Theorem family_lines_nolf f :
    names_ok f -> (forall m, In m (mf_metric f) -> metric_nums show showz (mf_type f) m) ->
    Forall line_nolf (family_lines show showz f).
  Proof.
    intros [Hn Hl] Hm. apply (family_lines_P nolf (fun _ => true)); auto using nolf_printable, nolf_escape.
    - apply valid_metric_printable in Hn. revert Hn. apply forallb_impl, nolf_printable.
    - apply forallb_forall. auto.
    - intros m Hin. split; auto. apply Forall_forall. intros l Hlin. split.
      + specialize (Hl m l Hin Hlin). apply valid_label_printable in Hl. revert Hl. apply forallb_impl, nolf_printable.
      + apply forallb_forall. auto.
  Qed.
End Oracles.

(* ================================================================== counting LF *)
Lemma count_lf_app a b : count_lf (a ++ b) = count_lf a + count_lf b.
Proof. induction a as [|c a IH]; cbn [app count_lf]; [reflexivity|]. rewrite IH. lia. Qed.
Lemma count_lf_utf8c c : count_lf (utf8c c) = if c =? 10 then 1 else 0.
Proof.
  unfold utf8c. destruct (N.ltb_spec c 0x80) as [H|H]; [cbn [count_lf]; lia|].
  assert (E : (c =? 10) = false) by (apply N.eqb_neq; lia). rewrite E.
  assert (B : forall x y r, (128 <= x)%N -> count_lf (x + y :: r) = count_lf r).
  { intros x y r Hx. cbn [count_lf]. assert (E' : (x + y =? 10) = false) by (apply N.eqb_neq; lia). rewrite E'. lia. }
  destruct (c <? 0x800); [|destruct (c <? 0x10000)]; rewrite ?B by lia; reflexivity.
Qed.
(* the byte 10 occurs in UTF-8 only as the encoding of the code point 10 *)
Lemma count_lf_utf8 s : count_lf (utf8 s) = count_lf s.
Proof. induction s as [|c s IH]; [reflexivity|]. rewrite utf8_cons, count_lf_app, count_lf_utf8c, IH. reflexivity. Qed.
Lemma count_lf_nolf l : line_nolf l -> count_lf l = 0.
Proof.
  unfold line_nolf. induction l as [|c l IH]; cbn [forallb count_lf]; [reflexivity|]. intros H. apply andb_prop in H as [H1 H2].
  unfold nolf in H1. apply negb_true_iff in H1. rewrite H1, IH by auto. reflexivity.
Qed.
Lemma count_lf_unlines ls : Forall line_nolf ls -> count_lf (unlines ls) = lenN ls.
Proof.
  induction 1 as [|l ls Hl Hls IH]; [reflexivity|]. rewrite unlines_cons, count_lf_app, (count_lf_nolf _ Hl). cbn [count_lf].
  rewrite IH. unfold lenN. cbn [length]. rewrite Nat2N.inj_succ. change (10 =? 10) with true. cbn iota. lia.
Qed.

Lemma lenN_app {A} (a b : list A) : lenN (a ++ b) = lenN a + lenN b.
Proof. unfold lenN. rewrite app_length. lia. Qed.
Lemma lenN_map {A B} (f : A -> B) l : lenN (map f l) = lenN l.
Proof. unfold lenN. now rewrite map_length. Qed.
Lemma lenN_flat_map {A B} (f : A -> list B) l : lenN (flat_map f l) = sumN (map (fun x => lenN (f x)) l).
Proof. induction l as [|x l IH]; [reflexivity|]. cbn [flat_map map sumN fold_right]. rewrite lenN_app, IH. reflexivity. Qed.

Section Whole.
  Variable show : f64 -> str.
  Variable showz : Z -> str.

  (* ---- the number of lines of a family is its shape *)
  Lemma metric_lines_shape t name m : lenN (metric_lines' show showz t name m) = metric_shape_lines t m.
  Proof.
    unfold metric_lines'. rewrite lenN_map. destruct t; cbn [metric_specs opt_specs metric_shape_lines]; try reflexivity.
    - unfold summary_specs. rewrite lenN_app, lenN_map. reflexivity.
    - unfold hist_specs, hist_item_specs. rewrite !lenN_app, lenN_map.
      change (fun b => ik_pos_inf (b_upper b)) with (fun b => PrimFloat.eqb (b_upper b) infinity).
      destruct (existsb _ _); reflexivity.
  Qed.
  Lemma family_lines_shape f : lenN (family_lines show showz f) = family_shape_lines f.
  Proof.
    unfold family_lines, family_shape_lines, header_lines. rewrite !lenN_app, lenN_flat_map.
    rewrite (map_ext _ (metric_shape_lines (mf_type f))) by (intros; apply metric_lines_shape).
    destruct (is_nil (mf_help f)); reflexivity.
  Qed.
  Lemma families_lines_shape fams : lenN (flat_map (family_lines show showz) fams) = shape_lines fams.
  Proof.
    rewrite lenN_flat_map. unfold shape_lines. f_equal. apply map_ext. intros. apply family_lines_shape.
  Qed.

  (* a successful run: every family is good and the text is the lines of all families *)
  Lemma encode_ok_inv buf fams out :
    encode show showz buf fams = EOk out ->
    Forall good_family fams /\ out = buf ++ utf8 (unlines (flat_map (family_lines show showz) fams)).
  Proof.
    rewrite encode_eq, ok_of_iff. destruct (existsb bad_family fams) eqn:E; cbn [negb]; [discriminate|]. intros [= <-].
    destruct (no_bad_good _ E) as (Hg & Hp & Hb). split; auto.
    unfold text_of, text_cps. rewrite render_families_eq. cbn [fst]. rewrite Hp, Hb, app_nil_r. reflexivity.
  Qed.

  Lemma all_lines_nolf fams :
    Forall (names_ok) fams -> fam_nums show showz fams -> Forall line_nolf (flat_map (family_lines show showz) fams).
  Proof.
    intros Hn Hnum. apply Forall_flat_map, Forall_forall. intros f Hf. rewrite Forall_forall in Hn.
    apply family_lines_nolf; auto; intros m Hm; apply (Hnum f m); auto.
  Qed.

  (* ================================================================== line count *)
  Theorem line_count fams out :
    Forall names_ok fams -> numbers_ok show showz fams = true ->
    encode show showz [] fams = EOk out -> count_lf out = shape_lines fams.
  Proof.
    intros Hn Hnum He. apply encode_ok_inv in He as [Hg ->]. cbn [app].
    rewrite count_lf_utf8, count_lf_unlines by (apply all_lines_nolf; auto using numbers_ok_fams).
    apply families_lines_shape.
  Qed.

  (* ================================================================== UTF-8 *)
  Definition family_scalars (f : MetricFamily) : Prop :=
    forallb scalarb (mf_help f) = true
    /\ forall m l, In m (mf_metric f) -> In l (m_label m) -> forallb scalarb (lp_value l) = true.

  Lemma family_lines_scalar f :
    names_ok f -> family_scalars f -> (forall m, In m (mf_metric f) -> metric_nums show showz (mf_type f) m) ->
    Forall (fun l => forallb scalarb l = true) (family_lines show showz f).
  Proof.
    intros [Hn Hl] [Hh Hv] Hm. apply (family_lines_P show showz scalarb scalarb); auto using printable_scalar, scalarb_escape.
    - apply valid_metric_printable in Hn. revert Hn. apply forallb_impl, printable_scalar.
    - intros m Hin. split; auto. apply Forall_forall. intros l Hlin. split.
      + specialize (Hl m l Hin Hlin). apply valid_label_printable in Hl. revert Hl. apply forallb_impl, printable_scalar.
      + apply (Hv m l); auto.
  Qed.
  Lemma unlines_scalar ls : Forall (fun l => forallb scalarb l = true) ls -> forallb scalarb (unlines ls) = true.
  Proof.
    induction 1 as [|l ls Hl Hls IH]; [reflexivity|]. rewrite unlines_cons, forallb_app, Hl. cbn [forallb]. now rewrite IH.
  Qed.
  Lemma forallb_scalar_wf s : forallb scalarb s = true -> wf_str s.
  Proof.
    unfold wf_str. rewrite forallb_forall, Forall_forall. intros H c Hc. specialize (H c Hc). unfold scalarb in H. unfold scalar.
    now apply N.ltb_lt.
  Qed.
  Lemma decode_utf8_utf8 s : forallb scalarb s = true -> decode_utf8 (utf8 s) = Some s.
  Proof.
    intros H. unfold decode_utf8. rewrite utf8_dec_utf8 by (auto using forallb_scalar_wf). now rewrite H, list_eqN_refl.
  Qed.

  (* ================================================================== the round trip *)
  Definition family_wf (f : MetricFamily) : Prop :=
    names_ok f /\ family_scalars f
    /\ forall m, In m (mf_metric f) ->
         (mf_type f = HISTOGRAM -> label_free k_le m) /\ (mf_type f = SUMMARY -> label_free k_quantile m).

  Lemma names_ok_lname f m : names_ok f -> In m (mf_metric f) -> Forall lname_ok (m_label m).
  Proof. intros [_ H] Hm. apply Forall_forall. intros l Hl. apply valid_label_name_p. eauto. Qed.

  Theorem parse_text_families fams :
    Forall good_family fams -> Forall family_wf fams -> fam_nums show showz fams ->
    parse_text (unlines (flat_map (family_lines show showz) fams)) = Some (view fams).
  Proof.
    intros Hg Hwf Hnum. unfold parse_text. rewrite Forall_forall in Hwf.
    rewrite lines_of_unlines.
    2:{ apply all_lines_nolf; auto. apply Forall_forall. intros f Hf. apply (Hwf f Hf). }
    rewrite (map_opt_flat_map parse_line (family_lines show showz) (family_plines show) fams).
    - apply parse_plines_families; auto. intros f m Hf Hm. destruct (Hwf f Hf) as (_ & _ & Hr). destruct (Hr m Hm) as [H1 H2].
      split; [|split]; auto. exact (proj1 (Hnum f m Hf Hm)).
    - intros f Hf. destruct (Hwf f Hf) as (Hn & _ & _). apply parse_family_lines.
      + apply valid_metric_name_p, Hn.
      + intros m Hm. split; [eapply names_ok_lname; eauto | apply (Hnum f m Hf Hm)].
  Qed.

  Lemma text_scalar fams : Forall family_wf fams -> fam_nums show showz fams ->
    forallb scalarb (unlines (flat_map (family_lines show showz) fams)) = true.
  Proof.
    intros Hwf Hnum. apply unlines_scalar, Forall_flat_map, Forall_forall. intros f Hf. rewrite Forall_forall in Hwf.
    destruct (Hwf f Hf) as (Hn & Hs & _). apply family_lines_scalar; auto; intros m Hm; apply (Hnum f m Hf Hm).
  Qed.

  Theorem roundtrip fams out :
    Forall family_wf fams -> numbers_ok show showz fams = true ->
    encode show showz [] fams = EOk out -> parse out = Some (view fams).
  Proof.
    intros Hwf Hnum He. apply encode_ok_inv in He as [Hg ->]. cbn [app]. apply numbers_ok_fams in Hnum.
    unfold parse. rewrite decode_utf8_utf8 by (apply text_scalar; auto). apply parse_text_families; auto.
  Qed.

  (* the output of a successful run is the UTF-8 encoding of a list of scalar values (so: valid UTF-8) *)
  Theorem output_utf8 fams out :
    Forall family_wf fams -> numbers_ok show showz fams = true ->
    encode show showz [] fams = EOk out ->
    exists text, out = utf8 text /\ wf_str text /\ decode_utf8 out = Some text.
  Proof.
    intros Hwf Hnum He. apply encode_ok_inv in He as [Hg ->]. cbn [app]. apply numbers_ok_fams in Hnum.
    eexists. split; [reflexivity|]. pose proof (text_scalar _ Hwf Hnum) as Hs. split; [apply forallb_scalar_wf, Hs | apply decode_utf8_utf8, Hs].
  Qed.

  (* the executable family_ok of the spec is family_wf *)
  Lemma family_ok_wf f : family_ok f = true -> family_wf f.
  Proof.
    unfold family_ok. intros H. apply andb_prop in H as [H H3]. apply andb_prop in H as [H1 H2].
    rewrite forallb_forall in H3.
    assert (Hl : forall m l, In m (mf_metric f) -> In l (m_label m) -> label_ok (mf_type f) l = true).
    { intros m l Hm Hlin. specialize (H3 m Hm). rewrite forallb_forall in H3. auto. }
    assert (Hl' : forall m l, In m (mf_metric f) -> In l (m_label m) ->
              is_valid_label_name (lp_name l) = true /\ reserved_label (mf_type f) (lp_name l) = false /\ forallb scalarb (lp_value l) = true).
    { intros m l Hm Hlin. specialize (Hl m l Hm Hlin). unfold label_ok in Hl. apply andb_prop in Hl as [Hl Hc]. apply andb_prop in Hl as [Ha Hb].
      apply negb_true_iff in Hb. auto. }
    repeat split; auto.
    - intros m l Hm Hlin. apply (Hl' m l Hm Hlin).
    - intros m l Hm Hlin. apply (Hl' m l Hm Hlin).
    - intros Ht. apply Forall_forall. intros l Hlin. destruct (Hl' m l H Hlin) as (_ & Hr & _). rewrite Ht in Hr. cbn in Hr.
      apply str_eqb_neq in Hr. exact Hr.
    - intros Ht. apply Forall_forall. intros l Hlin. destruct (Hl' m l H Hlin) as (_ & Hr & _). rewrite Ht in Hr. cbn in Hr.
      apply str_eqb_neq in Hr. exact Hr.
  Qed.
  Lemma families_ok_wf fams : forallb family_ok fams = true -> Forall family_wf fams.
  Proof. rewrite forallb_forall, Forall_forall. intros H f Hf. apply family_ok_wf, H, Hf. Qed.
End Whole.

(* ================================================================== the executable spec holds of the model *)
Lemma list_eqb_refl {A} (e : A -> A -> bool) l : (forall x, e x x = true) -> list_eqb e l l = true.
Proof. intros H. induction l as [|x l IH]; cbn; auto. now rewrite H, IH. Qed.
Lemma payload_eqb_refl p : payload_eqb p p = true.
Proof.
  assert (H : forall x, ff_eqb x x = true) by (intros [a b]; unfold ff_eqb; cbn; now rewrite !f64_same_refl).
  destruct p; cbn; rewrite ?f64_same_refl, ?list_eqb_refl; auto.
Qed.
Lemma vmetric_eqb_refl m : vmetric_eqb m m = true.
Proof. unfold vmetric_eqb. now rewrite labels_eqb_refl, payload_eqb_refl, ots_eqb_refl. Qed.
Lemma vfamily_eqb_refl f : vfamily_eqb f f = true.
Proof.
  unfold vfamily_eqb. rewrite list_eqN_refl, (list_eqb_refl vmetric_eqb) by apply vmetric_eqb_refl.
  destruct (vf_help f), (vf_type f); cbn; rewrite ?list_eqN_refl; reflexivity.
Qed.
Lemma vfams_eqb_refl v : vfams_eqb v v = true.
Proof. apply list_eqb_refl, vfamily_eqb_refl. Qed.

Lemma good_prefix_incl fams f : In f (good_prefix fams) -> In f fams.
Proof.
  induction fams as [|g fams IH]; cbn [good_prefix]; [auto|]. destruct (bad_family g); [intros []|].
  intros [->|H]; [now left | right; auto].
Qed.
Lemma bad_header_cases fams :
  bad_header fams = [] \/ exists f, first_bad fams = Some f /\ check_metric_family f = true /\ bad_header fams = header_lines f.
Proof.
  induction fams as [|g fams IH]; cbn [bad_header first_bad]; [auto|]. destruct (bad_family g); [|exact IH].
  destruct (check_metric_family g) eqn:E; eauto.
Qed.

Section SpecModel.
  Variable show : f64 -> str.
  Variable showz : Z -> str.

  Lemma header_lines_P (P Q : N -> bool) f :
    (forall c, printable c = true -> P c = true) -> P 32 = true ->
    (forall q s, forallb Q s = true -> forallb P (escape_plain q s) = true) ->
    forallb P (mf_name f) = true -> forallb Q (mf_help f) = true ->
    Forall (fun l => forallb P l = true) (header_lines f).
  Proof.
    intros HPp HP32 HPesc Hn Hh. unfold header_lines. apply Forall_app. split.
    - destruct (is_nil (mf_help f)); constructor; [|constructor]. apply (help_line_P P Q HPp HP32 HPesc); auto.
    - constructor; [|constructor]. apply (type_line_P P HPp HP32); auto.
  Qed.

  (* an Err run: the lines of the families before the failing one, then possibly its header *)
  Theorem parse_text_families_hdr fams f :
    Forall good_family fams -> Forall family_wf fams -> fam_nums show showz fams ->
    is_valid_metric_name (mf_name f) = true -> forallb scalarb (mf_help f) = true ->
    let text := unlines (flat_map (family_lines show showz) fams ++ header_lines f) in
    forallb scalarb text = true
    /\ parse_text text = Some (view fams ++ [mkVF (mf_name f) (help_opt f) (mf_type f) []]).
  Proof.
    intros Hg Hwf Hnum Hn Hh. cbn zeta. pose proof (valid_metric_printable _ Hn) as Hpr. split.
    - rewrite unlines_app, forallb_app, text_scalar by auto. cbn [andb]. apply unlines_scalar.
      apply (header_lines_P scalarb scalarb); auto using printable_scalar, scalarb_escape.
      revert Hpr. apply forallb_impl, printable_scalar.
    - unfold parse_text. rewrite Forall_forall in Hwf. rewrite lines_of_unlines.
      2:{ apply Forall_app. split.
          - apply all_lines_nolf; auto. apply Forall_forall. intros f0 Hf. apply (Hwf f0 Hf).
          - apply (header_lines_P nolf (fun _ => true)); auto using nolf_printable, nolf_escape.
            + revert Hpr. apply forallb_impl, nolf_printable.
            + apply forallb_forall. auto. }
      rewrite (map_opt_app parse_line _ _ (flat_map (family_plines show) fams) (header_plines f)).
      + apply parse_plines_families_hdr; auto. intros f0 m Hf Hm. destruct (Hwf f0 Hf) as (_ & _ & Hr). destruct (Hr m Hm) as [H1 H2].
        split; [|split]; auto. exact (proj1 (Hnum f0 m Hf Hm)).
      + apply map_opt_flat_map. intros f0 Hf. destruct (Hwf f0 Hf) as (Hn0 & _ & _). apply parse_family_lines.
        * apply valid_metric_name_p, Hn0.
        * intros m Hm. split; [eapply names_ok_lname; eauto | apply (Hnum f0 m Hf Hm)].
      + apply parse_header_lines, valid_metric_name_p, Hn.
  Qed.

  Theorem spec_single_model fams :
    numbers_ok show showz fams = true -> spec_single fams (encode show showz [] fams) = true.
  Proof.
    intros Hnum. pose proof (numbers_ok_fams _ _ _ Hnum) as Hn.
    rewrite encode_eq, ok_of_iff. cbn [app]. unfold text_of, text_cps. rewrite render_families_eq. cbn [fst].
    destruct (existsb bad_family fams) eqn:Eb; cbn [negb spec_single andb]; rewrite ?Eb; cbn [negb andb].
    - destruct (forallb family_ok (good_prefix fams) && bad_header_ok fams) eqn:Ek; [|reflexivity].
      apply andb_prop in Ek as [Ek1 Ek2]. apply families_ok_wf in Ek1.
      assert (Hn' : fam_nums show showz (good_prefix fams)) by (intros f m Hf Hm; apply (Hn f m); auto using good_prefix_incl).
      pose proof (good_prefix_good fams) as Hg.
      destruct (bad_header_cases fams) as [E|(f & Ef & Ec & E)]; rewrite E.
      + rewrite app_nil_r. unfold parse. rewrite decode_utf8_utf8 by (apply text_scalar; auto).
        rewrite parse_text_families by auto. unfold view. rewrite <- (map_length view_family (good_prefix fams)), firstn_all.
        apply vfams_eqb_refl.
      + unfold bad_header_ok in Ek2. rewrite Ef in Ek2. unfold check_metric_family in Ec. apply andb_prop in Ec as [Ec1 Ec2].
        apply negb_true_iff in Ec1, Ec2. rewrite Ec1, Ec2 in Ek2. cbn [orb] in Ek2. apply andb_prop in Ek2 as [Hv Hs].
        destruct (parse_text_families_hdr (good_prefix fams) f Hg Ek1 Hn' Hv Hs) as [Hsc Hp].
        unfold parse. rewrite decode_utf8_utf8 by exact Hsc. rewrite Hp.
        rewrite firstn_app. unfold view at 1 2. rewrite map_length, Nat.sub_diag. cbn [firstn]. rewrite app_nil_r.
        rewrite <- (map_length view_family (good_prefix fams)), firstn_all. apply vfams_eqb_refl.
    - destruct (no_bad_good _ Eb) as (Hg & Hp & Hb). rewrite Hp, Hb, app_nil_r.
      destruct (forallb family_ok fams) eqn:Ek; [|reflexivity]. apply families_ok_wf in Ek.
      unfold parse. rewrite decode_utf8_utf8 by (apply text_scalar; auto). rewrite parse_text_families by auto.
      rewrite vfams_eqb_refl. cbn [andb].
      rewrite count_lf_utf8, count_lf_unlines, families_lines_shape. { apply N.eqb_refl. }
      apply all_lines_nolf; auto. rewrite Forall_forall in Ek |- *. intros f Hf. apply (Ek f Hf).
  Qed.

  (* the five runs of a scenario, as the model answers them *)
  Definition model_case (fams : list MetricFamily) (pt pu : list N) : c04_case :=
    mkCase fams pt pu (encode show showz [] fams) (encode show showz pt fams)
           (encode_utf8 show showz [] fams) (encode_utf8 show showz pu fams) (encode_to_string show showz fams).

  Theorem spec_c04_model fams pt pu :
    numbers_ok show showz fams = true -> spec_c04 (model_case fams pt pu) = true /\ model_agrees show showz (model_case fams pt pu) = true.
  Proof.
    intros Hnum. split.
    - unfold spec_c04, model_case. cbn [c_fams c_text0 c_textp c_utf80 c_utf8p c_string c_prefill_t c_prefill_u].
      rewrite (spec_single_model fams Hnum). unfold encode_to_string. change (encode_utf8 show showz) with (encode show showz). rewrite !encode_eq.
      destruct (ok_of show showz fams); cbn [extends_by string_of err_eqb is_nil app andb]; rewrite ?list_eqN_refl; reflexivity.
    - unfold model_agrees, model_case. cbn [c_fams c_text0 c_textp c_utf80 c_utf8p c_string c_prefill_t c_prefill_u].
      assert (R : forall r, eres_eqb r r = true) by (intros [o|e o|]; cbn; rewrite ?list_eqN_refl; auto; destruct e; cbn; rewrite ?N.eqb_refl; auto).
      now rewrite !R.
  Qed.
End SpecModel.

(* ================================================================== statements in readable form *)
(* the families the read-back is claimed for, spelled out *)
Definition family_valid (f : MetricFamily) : Prop :=
  is_valid_metric_name (mf_name f) = true
  /\ wf_str (mf_help f)
  /\ forall m l, In m (mf_metric f) -> In l (m_label m) ->
       is_valid_label_name (lp_name l) = true /\ wf_str (lp_value l)
       /\ (mf_type f = HISTOGRAM -> lp_name l <> k_le) /\ (mf_type f = SUMMARY -> lp_name l <> k_quantile).

Lemma wf_str_forallb s : wf_str s -> forallb scalarb s = true.
Proof.
  unfold wf_str. rewrite forallb_forall, Forall_forall. intros H c Hc. specialize (H c Hc). unfold scalar in H. unfold scalarb.
  now apply N.ltb_lt.
Qed.
Lemma family_valid_wf f : family_valid f -> family_wf f.
Proof.
  intros (Hn & Hh & Hl). repeat split; auto using wf_str_forallb.
  - intros m l Hm Hlin. apply (Hl m l Hm Hlin).
  - intros m l Hm Hlin. apply wf_str_forallb, (Hl m l Hm Hlin).
  - intros Ht. apply Forall_forall. intros l Hlin. apply (Hl m l H Hlin), Ht.
  - intros Ht. apply Forall_forall. intros l Hlin. apply (Hl m l H Hlin), Ht.
Qed.
Lemma family_valid_names f : family_valid f -> names_ok f.
Proof. intros H. apply family_valid_wf in H. apply H. Qed.

(* the contract of the number oracles, spelled out *)
Lemma numbers_ok_iff show showz fams :
  numbers_ok show showz fams = true <->
  (forall x, In x (fams_floats fams) -> parse_float (show x) = Some x /\ forallb num_char (show x) = true)
  /\ (forall z, In z (fams_ints fams) -> parse_int (showz z) = Some z /\ forallb num_char (showz z) = true).
Proof.
  unfold numbers_ok. rewrite andb_true_iff, !forallb_forall. split; intros [H1 H2]; split.
  - intros x Hx. apply float_token_parse, H1, Hx.
  - intros z Hz. apply int_token_parse, H2, Hz.
  - intros x Hx. destruct (H1 x Hx) as [Ha Hb]. unfold float_token_ok. now rewrite Ha, Hb, f64_same_refl.
  - intros z Hz. destruct (H2 z Hz) as [Ha Hb]. unfold int_token_ok. now rewrite Ha, Hb, Z.eqb_refl.
Qed.

Definition family_bad (f : MetricFamily) : Prop := mf_metric f = [] \/ mf_name f = [] \/ mf_type f = UNTYPED.
Lemma bad_family_iff f : bad_family f = true <-> family_bad f.
Proof.
  unfold bad_family, family_bad. rewrite !orb_true_iff. split.
  - intros [[H|H]|H].
    + left. destruct (mf_metric f); [reflexivity|discriminate].
    + right; left. destruct (mf_name f); [reflexivity|discriminate].
    + right; right. destruct (mf_type f); try discriminate. reflexivity.
  - intros [H|[H|H]]; rewrite H; auto.
Qed.

Section Results.
  Variable show : f64 -> str.
  Variable showz : Z -> str.

  Theorem encode_cases buf fams :
    ((exists f, In f fams /\ family_bad f) /\ exists out, encode show showz buf fams = EErr EMsg (buf ++ out))
    \/ ((forall f, In f fams -> ~ family_bad f) /\ exists out, encode show showz buf fams = EOk (buf ++ out)).
  Proof.
    rewrite encode_eq, ok_of_iff. destruct (existsb bad_family fams) eqn:E; cbn [negb]; [left|right]; split; eauto.
    - apply existsb_exists in E as (f & Hf & Hb). exists f. split; auto. now apply bad_family_iff.
    - intros f Hf Hb. apply bad_family_iff in Hb. assert (existsb bad_family fams = true) by (apply existsb_exists; eauto). congruence.
  Qed.

  Theorem err_iff buf fams :
    (exists e out, encode show showz buf fams = EErr e out) <-> (exists f, In f fams /\ family_bad f).
  Proof.
    destruct (encode_cases buf fams) as [[Hb [out E]]|[Hg [out E]]]; rewrite E; split; auto.
    - intros _. eauto.
    - intros (e & o & H). discriminate.
    - intros (f & Hf & Hb). exfalso. apply (Hg f Hf Hb).
  Qed.
  Theorem ok_iff buf fams :
    (exists out, encode show showz buf fams = EOk out) <-> (forall f, In f fams -> ~ family_bad f).
  Proof.
    destruct (encode_cases buf fams) as [[Hb [out E]]|[Hg [out E]]]; rewrite E; split; auto.
    - intros (o & H). discriminate.
    - intros Hg. destruct Hb as (f & Hf & Hb). exfalso. apply (Hg f Hf Hb).
    - intros _. eauto.
  Qed.
  Theorem never_panics buf fams : encode show showz buf fams <> EPanic.
  Proof. rewrite encode_eq. destruct (ok_of show showz fams); discriminate. Qed.

  Theorem roundtrip_valid fams out :
    Forall family_valid fams -> numbers_ok show showz fams = true ->
    encode show showz [] fams = EOk out -> parse out = Some (view fams).
  Proof. intros H. apply roundtrip. revert H. apply Forall_impl, family_valid_wf. Qed.

  Theorem line_count_valid fams out :
    Forall family_valid fams -> numbers_ok show showz fams = true ->
    encode show showz [] fams = EOk out -> count_lf out = shape_lines fams.
  Proof. intros H. apply line_count. revert H. apply Forall_impl, family_valid_names. Qed.

  Theorem output_utf8_valid fams out :
    Forall family_valid fams -> numbers_ok show showz fams = true ->
    encode show showz [] fams = EOk out ->
    exists text, out = utf8 text /\ wf_str text /\ decode_utf8 out = Some text.
  Proof. intros H. apply output_utf8. revert H. apply Forall_impl, family_valid_wf. Qed.
End Results.

(* shape_lines looks at nothing but the shape: changing help texts (non-empty to non-empty) and
   label values leaves it unchanged *)
Definition same_shape_metric (a b : Metric) : Prop :=
  List.map lp_name (m_label a) = List.map lp_name (m_label b)
  /\ m_gauge a = m_gauge b /\ m_counter a = m_counter b /\ m_summary a = m_summary b /\ m_untyped a = m_untyped b
  /\ m_histogram a = m_histogram b /\ m_ts a = m_ts b.
Definition same_shape_family (a b : MetricFamily) : Prop :=
  mf_name a = mf_name b /\ is_nil (mf_help a) = is_nil (mf_help b) /\ mf_type a = mf_type b
  /\ Forall2 same_shape_metric (mf_metric a) (mf_metric b).

Lemma same_shape_metric_lines t a b : same_shape_metric a b -> metric_shape_lines t a = metric_shape_lines t b.
Proof.
  intros (_ & _ & _ & Hs & _ & Hh & _). unfold metric_shape_lines, get_histogram, get_summary. now rewrite Hs, Hh.
Qed.
Lemma same_shape_family_lines a b : same_shape_family a b -> family_shape_lines a = family_shape_lines b.
Proof.
  intros (_ & Hh & Ht & Hm). unfold family_shape_lines. rewrite Hh, Ht. f_equal. f_equal.
  induction Hm as [|x y l l' Hxy Hl IH]; [reflexivity|]. cbn [map]. now rewrite (same_shape_metric_lines _ _ _ Hxy), IH.
Qed.
Theorem same_shape_lines fams fams' : Forall2 same_shape_family fams fams' -> shape_lines fams = shape_lines fams'.
Proof.
  intros H. unfold shape_lines. f_equal. induction H as [|x y l l' Hxy Hl IH]; [reflexivity|]. cbn [map].
  now rewrite (same_shape_family_lines _ _ Hxy), IH.
Qed.

(* the executable family_ok of the spec implies family_valid (and is equivalent to it) *)
Lemma family_ok_valid f : family_ok f = true -> family_valid f.
Proof.
  intros H. apply family_ok_wf in H. destruct H as ([Hn Hl] & [Hh Hv] & Hr). split; [exact Hn|]. split; [apply forallb_scalar_wf, Hh|].
  intros m l Hm Hlin. split; [apply (Hl m l); auto|]. split; [apply forallb_scalar_wf, (Hv m l); auto|]. split.
  - intros Ht. destruct (Hr m Hm) as [H1 _]. specialize (H1 Ht). unfold label_free in H1. rewrite Forall_forall in H1. auto.
  - intros Ht. destruct (Hr m Hm) as [_ H1]. specialize (H1 Ht). unfold label_free in H1. rewrite Forall_forall in H1. auto.
Qed.
Lemma families_ok_valid fams : forallb family_ok fams = true -> Forall family_valid fams.
Proof. rewrite forallb_forall, Forall_forall. intros H f Hf. apply family_ok_valid, H, Hf. Qed.
