(* The executable spec of C13 (Spec/SpecC13.v), which the check evaluates on the implementation's
   bytes, accepts the model's own answer, for all inputs; plus the concrete examples used as
   non-vacuity witnesses in Props/C13.v. *)
From Coq Require Import String.
Require Import PV.Base.Prelude PV.Base.Utf8 PV.Base.F64 PV.Base.StrFacts.
Require Import PV.Model.Proto PV.Model.Desc PV.Model.Value PV.Model.Registry PV.Model.Pb PV.Model.PbDecode.
Require Import PV.Proofs.PbFacts PV.Proofs.PbGather PV.Proofs.PbF64 PV.Spec.SpecC13.
Open Scope N_scope.

(* ------------------------------------------------------------------ refused, spelled out *)
Lemma refused_spelled_out f : refused f <-> pf_metric f = [] \/ pf_name f = None \/ pf_name f = Some [].
Proof.
  unfold refused, pf_name_str. destruct (pf_name f) as [[|c s]|]; split; intros [H|H]; auto;
    try (right; auto; fail); try discriminate; destruct H as [H|H]; discriminate.
Qed.
Lemma must_refuse_iff f : must_refuse f = true <-> refused f.
Proof.
  unfold must_refuse, no_name, no_samples, refused, pf_name_str.
  destruct (pf_name f) as [[|c s]|], (pf_metric f); cbn [is_nil orb]; split; intros H; auto; try discriminate;
    destruct H; discriminate.
Qed.
Lemma no_refuse_of_accepted fams : Forall accepted fams -> existsb must_refuse fams = false.
Proof.
  induction 1 as [|f fams [Hr _] _ IH]; cbn [existsb]; [reflexivity|]. rewrite IH, orb_false_r.
  destruct (must_refuse f) eqn:E; [|reflexivity]. apply must_refuse_iff in E. contradiction.
Qed.
Lemma before_refused_app pre f post :
  Forall accepted pre -> refused f -> before_refused (pre ++ f :: post) = pre /\ existsb must_refuse (pre ++ f :: post) = true.
Proof.
  intros Hp Hf. apply must_refuse_iff in Hf. induction Hp as [|g pre [Hr _] _ [IH1 IH2]]; cbn [app before_refused existsb].
  - rewrite Hf. split; reflexivity.
  - destruct (must_refuse g) eqn:E; [apply must_refuse_iff in E; contradiction|]. rewrite IH1, IH2. split; reflexivity.
Qed.

Lemma strip_prefix_app p s : strip_prefix p (p ++ s) = Some s.
Proof. induction p as [|x p IH]; cbn [app strip_prefix]; [destruct s; reflexivity|]. rewrite N.eqb_refl. exact IH. Qed.

(* ------------------------------------------------------------------ the boolean equalities are reflexive *)
Lemma list_eqb_refl {A} (e : A -> A -> bool) l : (forall x, e x x = true) -> list_eqb e l l = true.
Proof. intros H. induction l as [|x l IH]; cbn [list_eqb]; [reflexivity|]. rewrite H, IH. reflexivity. Qed.
Lemma opt_eqb_refl {A} (e : A -> A -> bool) o : (forall x, e x x = true) -> opt_eqb e o o = true.
Proof. intros H. destruct o; cbn [opt_eqb]; auto. Qed.
Lemma optN_refl o : opt_eqb N.eqb o o = true.
Proof. apply opt_eqb_refl, N.eqb_refl. Qed.
Lemma optstr_refl o : opt_eqb str_eqb o o = true.
Proof. apply opt_eqb_refl, str_eqb_refl. Qed.
Lemma plp_eqb_refl x : plp_eqb x x = true.
Proof. unfold plp_eqb. rewrite !optstr_refl. reflexivity. Qed.
Lemma pq_eqb_refl x : pq_eqb x x = true.
Proof. unfold pq_eqb. rewrite !optN_refl. reflexivity. Qed.
Lemma pbk_eqb_refl x : pbk_eqb x x = true.
Proof. unfold pbk_eqb. rewrite !optN_refl. reflexivity. Qed.
Lemma ps_eqb_refl x : ps_eqb x x = true.
Proof. unfold ps_eqb. rewrite !optN_refl, (list_eqb_refl _ _ pq_eqb_refl). reflexivity. Qed.
Lemma ph_eqb_refl x : ph_eqb x x = true.
Proof. unfold ph_eqb. rewrite !optN_refl, (list_eqb_refl _ _ pbk_eqb_refl). reflexivity. Qed.
Lemma pm_eqb_refl x : pm_eqb x x = true.
Proof.
  unfold pm_eqb. rewrite (list_eqb_refl _ _ plp_eqb_refl).
  rewrite (opt_eqb_refl (fun x y => opt_eqb N.eqb (pg_value x) (pg_value y))) by (intros; apply optN_refl).
  rewrite (opt_eqb_refl (fun x y => opt_eqb N.eqb (pc_value x) (pc_value y))) by (intros; apply optN_refl).
  rewrite (opt_eqb_refl _ _ ps_eqb_refl).
  rewrite (opt_eqb_refl (fun x y => opt_eqb N.eqb (pu_value x) (pu_value y))) by (intros; apply optN_refl).
  rewrite (opt_eqb_refl _ _ ph_eqb_refl).
  rewrite (opt_eqb_refl _ _ Z.eqb_refl). reflexivity.
Qed.
Lemma pf_eqb_refl x : pf_eqb x x = true.
Proof.
  unfold pf_eqb. rewrite !optstr_refl, (list_eqb_refl _ _ pm_eqb_refl).
  rewrite opt_eqb_refl by (intros []; reflexivity). reflexivity.
Qed.

(* ------------------------------------------------------------------ framing of the model's bytes *)
Lemma split_frames_S f bs :
  bs <> [] ->
  split_frames (S f) bs =
  match decode_varint bs with
  | None => None
  | Some (len, r) =>
      match take_bytes len r with
      | None => None
      | Some (body, r') => match split_frames f r' with None => None | Some more => Some (body :: more) end
      end
  end.
Proof. destruct bs; [congruence|reflexivity]. Qed.

Lemma split_frames_frames fams :
  Forall (fun f => blen (enc_Family f) < two64) fams ->
  forall fuel, (length (frames fams) <= fuel)%nat -> split_frames fuel (frames fams) = Some (map enc_Family fams).
Proof.
  induction 1 as [|f fams S _ IH]; intros fuel Hf.
  - destruct fuel; reflexivity.
  - unfold frames in *. cbn [flat_map map] in *. unfold frame at 1. unfold frame at 1 in Hf.
    rewrite <- app_assoc in *. rewrite !app_length in Hf.
    pose proof (varint_length_pos (blen (enc_Family f))) as Hpos.
    destruct fuel as [|fuel]; [lia|].
    rewrite split_frames_S by apply varint_nonempty.
    rewrite varint_roundtrip by exact S. rewrite take_bytes_app. rewrite IH by lia. reflexivity.
Qed.

Lemma frames_are_families fams :
  Forall (fun f => wf_Family f /\ blen (enc_Family f) < two64) fams ->
  all2 frame_is (map enc_Family fams) fams = true.
Proof.
  induction 1 as [|f fams [W S] _ IH]; cbn [map all2]; [reflexivity|].
  unfold frame_is at 1. rewrite dec_Family_ok by assumption. rewrite pf_eqb_refl, IH. reflexivity.
Qed.

(* ------------------------------------------------------------------ reading decoded messages back through the accessors *)
Lemma lib_lp_of l : lib_lp (pb_of_lp l) = Some l.
Proof. destruct l as [a b]; reflexivity. Qed.
Lemma lib_quantile_of q : lib_quantile (pb_of_quantile q) = Some q.
Proof. destruct q as [x y]. unfold lib_quantile, pb_of_quantile. cbn [pq_quantile pq_value q_quantile q_value]. rewrite !bits2f_f2bits. reflexivity. Qed.
Lemma lib_bucket_of b : lib_bucket (pb_of_bucket b) = Some b.
Proof. destruct b as [c u]. unfold lib_bucket, pb_of_bucket. cbn [pbk_cum pbk_upper b_cum b_upper]. rewrite bits2f_f2bits. reflexivity. Qed.
Lemma mapM_map_all {A B} (d : B -> option A) (e : A -> B) l : (forall y, d (e y) = Some y) -> mapM d (map e l) = Some l.
Proof. intros H. apply mapM_map. apply Forall_forall. intros y _. apply H. Qed.
Lemma lib_summary_of s : lib_summary (pb_of_summary s) = Some s.
Proof.
  destruct s as [c x qs]. unfold lib_summary, pb_of_summary. cbn [ps_count ps_sum ps_quantile s_count s_sum s_quantile].
  rewrite (mapM_map_all _ _ _ lib_quantile_of), bits2f_f2bits. reflexivity.
Qed.
Lemma lib_hist_of h : lib_hist (pb_of_hist h) = Some h.
Proof.
  destruct h as [c x bs]. unfold lib_hist, pb_of_hist. cbn [ph_count ph_sum ph_bucket h_count h_sum h_bucket].
  rewrite (mapM_map_all _ _ _ lib_bucket_of), bits2f_f2bits. reflexivity.
Qed.
Lemma lib_metric_of m : lib_metric (pb_of_metric m) = Some m.
Proof.
  destruct m as [ls g c s u h t]. unfold lib_metric, pb_of_metric.
  cbn [pm_label pm_gauge pm_counter pm_summary pm_untyped pm_histogram pm_ts
       m_label m_gauge m_counter m_summary m_untyped m_histogram m_ts].
  rewrite (mapM_map_all _ _ _ lib_lp_of).
  destruct g, c, s, u, h; cbn [option_map lib_opt lib_value pg_value pc_value pu_value];
    rewrite ?bits2f_f2bits, ?lib_summary_of, ?lib_hist_of; reflexivity.
Qed.
Lemma lib_family_of f : lib_family (pb_of_family f) = Some f.
Proof.
  destruct f as [n h t ms]. unfold lib_family, pb_of_family. cbn [pf_name pf_help pf_type pf_metric mf_name mf_help mf_type mf_metric].
  rewrite (mapM_map_all _ _ _ lib_metric_of). reflexivity.
Qed.
Lemma reads_as_of l : reads_as (map pb_of_family l) l = true.
Proof. unfold reads_as. rewrite (mapM_map_all _ _ _ lib_family_of). apply pb_of_families_inj. reflexivity. Qed.

(* ------------------------------------------------------------------ the stream the model writes passes the spec *)
Definition lib_matches (lib : option (list MetricFamily)) (fams : list PFamily) : Prop :=
  match lib with
  | None => True
  | Some l => fams = map pb_of_family (firstn (length fams) l)
  end.

Lemma stream_is_frames fams lib :
  Forall wf_Family fams -> Forall accepted fams -> lib_matches lib fams -> stream_is (frames fams) fams lib = true.
Proof.
  intros W A L.
  assert (WS : Forall (fun f => wf_Family f /\ blen (enc_Family f) < two64) fams).
  { rewrite Forall_forall in *. intros f Hf. split; [apply W; exact Hf|apply accepted_size, A; exact Hf]. }
  assert (D : decode_stream (frames fams) = Some fams).
  { pose proof (decode_stream_frames fams [] WS) as E. rewrite app_nil_r in E. rewrite E.
    change (decode_stream []) with (Some (@nil PFamily)). cbv iota beta. rewrite app_nil_r. reflexivity. }
  unfold stream_is. rewrite D. rewrite (list_eqb_refl _ _ pf_eqb_refl).
  unfold one_frame_per_family. rewrite split_frames_frames.
  - rewrite frames_are_families by exact WS. cbn [andb].
    destruct lib as [l|]; [|reflexivity]. cbn [lib_matches] in L. rewrite L at 1. apply reads_as_of.
  - eapply Forall_impl; [|exact WS]. intros f [_ S]. exact S.
  - apply le_n.
Qed.

Lemma map_app_firstn {A B} (g : A -> B) l pre rest : map g l = pre ++ rest -> pre = map g (firstn (length pre) l).
Proof.
  intros H. rewrite <- firstn_map, H. rewrite firstn_app, firstn_all, Nat.sub_diag. cbn [firstn]. rewrite app_nil_r. reflexivity.
Qed.

Theorem spec_of_model_gen buf lib fams :
  Forall wf_Family fams -> Forall (fun f => ~ too_large f) fams ->
  match lib with None => True | Some l => fams = map pb_of_family l end ->
  spec_c13 (mkCase13 buf lib fams (encode_to buf fams)) = true.
Proof.
  intros W NL L. unfold spec_c13. cbn [c_res c_pfams c_prefill c_lib].
  destruct (encode_to_cases buf fams) as [[A E]|[(pre & f & post & -> & A & R & E)|(pre & f & post & -> & A & NR & TL & E)]]; rewrite E.
  - rewrite no_refuse_of_accepted by exact A. cbn [negb andb]. rewrite strip_prefix_app.
    apply stream_is_frames; auto. destruct lib as [l|]; cbn [lib_matches]; [|exact I].
    subst fams. rewrite map_length, firstn_all. reflexivity.
  - destruct (before_refused_app pre f post A R) as [B1 B2]. rewrite B1, B2. cbn [andb]. rewrite strip_prefix_app.
    apply Forall_app in W as [Wp _]. apply stream_is_frames; auto.
    destruct lib as [l|]; cbn [lib_matches]; [|exact I]. eapply map_app_firstn. symmetry. exact L.
  - exfalso. apply Forall_app in NL as [_ NL]. inversion NL as [|? ? Hf _]; subst. exact (Hf TL).
Qed.

Theorem spec_of_model buf fams :
  Forall wf_Family fams -> Forall (fun f => ~ too_large f) fams ->
  spec_c13 (mkCase13 buf None fams (encode_to buf fams)) = true.
Proof. intros W NL. apply spec_of_model_gen; auto. Qed.
Theorem spec_of_model_lib buf lib :
  Forall wf_family lib -> Forall (fun f => ~ too_large (pb_of_family f)) lib ->
  spec_c13 (mkCase13 buf (Some lib) (map pb_of_family lib) (encode_to buf (map pb_of_family lib))) = true.
Proof.
  intros W NL. apply spec_of_model_gen; [| |reflexivity].
  - rewrite Forall_map. eapply Forall_impl; [|exact W]. intros f. apply wf_pb_of_family.
  - rewrite Forall_map. exact NL.
Qed.

(* ------------------------------------------------------------------ examples *)
(* src/encoder/pb.rs test_protobuf_encoder: CounterVec test_counter_vec{labelname="2230"} = 1 *)
Definition golden_family : MetricFamily :=
  mkMF [116;101;115;116;95;99;111;117;110;116;101;114;95;118;101;99]
       [104;101;108;112;32;105;110;102;111;114;109;97;116;105;111;110] COUNTER
       [mkMetric [mkLP [108;97;98;101;108;110;97;109;101] [50;50;51;48]] None (Some f_one) None None None None].
Definition golden_bytes : list N :=
  [70; 10; 16; 116; 101; 115; 116; 95; 99; 111; 117; 110; 116; 101; 114; 95;
   118; 101; 99; 18; 16; 104; 101; 108; 112; 32; 105; 110; 102; 111; 114; 109;
   97; 116; 105; 111; 110; 24; 0; 34; 30; 10; 17; 10; 9; 108; 97; 98; 101;
   108; 110; 97; 109; 101; 18; 4; 50; 50; 51; 48; 26; 9; 9; 0; 0; 0; 0; 0; 0;
   240; 63].

Lemma golden_wf : Forall wf_family [golden_family].
Proof.
  constructor; [|constructor]. unfold wf_family. repeat split; try reflexivity.
  constructor; [|constructor]. unfold wf_metric. cbn [golden_family m_label m_summary m_histogram m_ts oall].
  repeat split; auto. constructor; [|constructor]. split; reflexivity.
Qed.
Lemma golden_ok :
  Forall wf_family [golden_family] /\ Forall accepted [pb_of_family golden_family]
  /\ encode_stream [pb_of_family golden_family] = Ok golden_bytes
  /\ decode_stream golden_bytes = Some [pb_of_family golden_family].
Proof.
  split; [exact golden_wf|]. split; [|split].
  - constructor; [|constructor]. split.
    + intros [H|H]; discriminate.
    + unfold too_large. intros H. vm_compute in H. discriminate.
  - vm_compute. reflexivity.
  - vm_compute. reflexivity.
Qed.
Lemma gathered_example_ok :
  wf_prefix (Some [112]) /\ wf_common (Some [([107], [233; 128512])]) /\ Forall wf_family [golden_family]
  /\ length (gather_families (Some [112]) (Some [([107], [233; 128512])]) [golden_family]) = 1%nat.
Proof.
  split; [reflexivity|]. split; [|split; [exact golden_wf|vm_compute; reflexivity]].
  cbn [wf_common oall]. constructor; [|constructor]. split; reflexivity.
Qed.
Lemma refused_example_ok :
  encode_to [255] [pb_of_family golden_family; mkPFamily None (Some [104]) (Some GAUGE) [mkPMetric [] None None None None None None];
                   pb_of_family golden_family]
  = PErr EMsg ([255] ++ golden_bytes).
Proof. vm_compute. reflexivity. Qed.
