(* Facts for C16 (exposition does not depend on the protobuf feature).

   Model/DataModel.v writes the library's use of `crate::proto` once against the accessor
   interface [DM] and gives three instances ([pb], [plain], [wm] = the data model of the world
   model).  Here:
     1. [Hom A B]: a map between two instances that commutes with EVERY operation of the
        interface (69 laws for the 67 operations);
     2. the instances' homomorphisms: printing [pb] into the world model's terms, and the
        getter view of every instance into [plain];
     3. naturality of the shared code: every function of DataModel.v section Shared commutes
        with every homomorphism (labels, collectors, setter scripts, gather, text encoder);
     4. bridges: the shared code at instance [wm] IS Model/Registry.v's gather_families and
        Model/Text.v's encoder, and what the two builds print relates as the per-run check
        assumes;
     5. the simulation relation R (same getters) and its characterisation getter by getter; the
        defaults table itself (unset protobuf field = plain initial value) is stated in Props/C16.v;
     6. straight-line programs over the interface. *)
Require Import PV.Base.Prelude PV.Base.F64 PV.Base.Utf8 PV.Base.SortFacts.
Require Import PV.Model.Proto PV.Model.Desc PV.Model.Value PV.Model.Registry PV.Model.Text PV.Model.Hist PV.Model.Vec PV.Model.World PV.Model.DataModel.
Open Scope N_scope.

(* ====================================================================================== *)
(* 1. Homomorphisms of instances                                                            *)
(* ====================================================================================== *)
Record Hom (A B : DM) : Type := mkHom {
  hLP : tLP A -> tLP B; hG : tG A -> tG B; hC : tC A -> tC B; hU : tU A -> tU B; hQ : tQ A -> tQ B; hS : tS A -> tS B; hB : tB A -> tB B; hH : tH A -> tH B; hM : tM A -> tM B; hMF : tMF A -> tMF B;
  hom_LP_default : hLP (LP_default A) = LP_default B;
  hom_LP_set_name : forall x v, hLP (LP_set_name A x v) = LP_set_name B (hLP x) v;
  hom_LP_set_value : forall x v, hLP (LP_set_value A x v) = LP_set_value B (hLP x) v;
  hom_LP_name : forall x, LP_name A x = LP_name B (hLP x);
  hom_LP_value : forall x, LP_value A x = LP_value B (hLP x);
  hom_G_default : hG (G_default A) = G_default B;
  hom_G_set_value : forall x v, hG (G_set_value A x v) = G_set_value B (hG x) v;
  hom_G_value : forall x, G_value A x = G_value B (hG x);
  hom_C_default : hC (C_default A) = C_default B;
  hom_C_set_value : forall x v, hC (C_set_value A x v) = C_set_value B (hC x) v;
  hom_C_value : forall x, C_value A x = C_value B (hC x);
  hom_U_default : hU (U_default A) = U_default B;
  hom_U_set_value : forall x v, hU (U_set_value A x v) = U_set_value B (hU x) v;
  hom_U_value : forall x, U_value A x = U_value B (hU x);
  hom_Q_default : hQ (Q_default A) = Q_default B;
  hom_Q_set_quantile : forall x v, hQ (Q_set_quantile A x v) = Q_set_quantile B (hQ x) v;
  hom_Q_set_value : forall x v, hQ (Q_set_value A x v) = Q_set_value B (hQ x) v;
  hom_Q_quantile : forall x, Q_quantile A x = Q_quantile B (hQ x);
  hom_Q_value : forall x, Q_value A x = Q_value B (hQ x);
  hom_S_default : hS (S_default A) = S_default B;
  hom_S_set_sample_count : forall x v, hS (S_set_sample_count A x v) = S_set_sample_count B (hS x) v;
  hom_S_set_sample_sum : forall x v, hS (S_set_sample_sum A x v) = S_set_sample_sum B (hS x) v;
  hom_S_set_quantile : forall x v, hS (S_set_quantile A x v) = S_set_quantile B (hS x) (map hQ v);
  hom_S_sample_count : forall x, S_sample_count A x = S_sample_count B (hS x);
  hom_S_sample_sum : forall x, S_sample_sum A x = S_sample_sum B (hS x);
  hom_S_get_quantile : forall x, map hQ (S_get_quantile A x) = S_get_quantile B (hS x);
  hom_B_default : hB (B_default A) = B_default B;
  hom_B_set_cumulative_count : forall x v, hB (B_set_cumulative_count A x v) = B_set_cumulative_count B (hB x) v;
  hom_B_set_upper_bound : forall x v, hB (B_set_upper_bound A x v) = B_set_upper_bound B (hB x) v;
  hom_B_cumulative_count : forall x, B_cumulative_count A x = B_cumulative_count B (hB x);
  hom_B_upper_bound : forall x, B_upper_bound A x = B_upper_bound B (hB x);
  hom_H_default : hH (H_default A) = H_default B;
  hom_H_set_sample_count : forall x v, hH (H_set_sample_count A x v) = H_set_sample_count B (hH x) v;
  hom_H_set_sample_sum : forall x v, hH (H_set_sample_sum A x v) = H_set_sample_sum B (hH x) v;
  hom_H_set_bucket : forall x v, hH (H_set_bucket A x v) = H_set_bucket B (hH x) (map hB v);
  hom_H_get_sample_count : forall x, H_get_sample_count A x = H_get_sample_count B (hH x);
  hom_H_get_sample_sum : forall x, H_get_sample_sum A x = H_get_sample_sum B (hH x);
  hom_H_get_bucket : forall x, map hB (H_get_bucket A x) = H_get_bucket B (hH x);
  hom_M_default : hM (M_default A) = M_default B;
  hom_M_from_label : forall ls, hM (M_from_label A ls) = M_from_label B (map hLP ls);
  hom_M_from_gauge : forall g, hM (M_from_gauge A g) = M_from_gauge B (hG g);
  hom_M_set_label : forall x v, hM (M_set_label A x v) = M_set_label B (hM x) (map hLP v);
  hom_M_take_label_fst : forall x, map hLP (fst (M_take_label A x)) = fst (M_take_label B (hM x));
  hom_M_take_label_snd : forall x, hM (snd (M_take_label A x)) = snd (M_take_label B (hM x));
  hom_M_get_label : forall x, map hLP (M_get_label A x) = M_get_label B (hM x);
  hom_M_set_gauge : forall x v, hM (M_set_gauge A x v) = M_set_gauge B (hM x) (hG v);
  hom_M_get_gauge : forall x, hG (M_get_gauge A x) = M_get_gauge B (hM x);
  hom_M_set_counter : forall x v, hM (M_set_counter A x v) = M_set_counter B (hM x) (hC v);
  hom_M_get_counter : forall x, hC (M_get_counter A x) = M_get_counter B (hM x);
  hom_M_set_summary : forall x v, hM (M_set_summary A x v) = M_set_summary B (hM x) (hS v);
  hom_M_get_summary : forall x, hS (M_get_summary A x) = M_get_summary B (hM x);
  hom_M_set_untyped : forall x v, hM (M_set_untyped A x v) = M_set_untyped B (hM x) (hU v);
  hom_M_get_untyped : forall x, hU (M_get_untyped A x) = M_get_untyped B (hM x);
  hom_M_set_histogram : forall x v, hM (M_set_histogram A x v) = M_set_histogram B (hM x) (hH v);
  hom_M_get_histogram : forall x, hH (M_get_histogram A x) = M_get_histogram B (hM x);
  hom_M_set_timestamp_ms : forall x v, hM (M_set_timestamp_ms A x v) = M_set_timestamp_ms B (hM x) v;
  hom_M_timestamp_ms : forall x, M_timestamp_ms A x = M_timestamp_ms B (hM x);
  hom_MF_default : hMF (MF_default A) = MF_default B;
  hom_MF_set_name : forall x v, hMF (MF_set_name A x v) = MF_set_name B (hMF x) v;
  hom_MF_name : forall x, MF_name A x = MF_name B (hMF x);
  hom_MF_set_help : forall x v, hMF (MF_set_help A x v) = MF_set_help B (hMF x) v;
  hom_MF_help : forall x, MF_help A x = MF_help B (hMF x);
  hom_MF_set_field_type : forall x v, hMF (MF_set_field_type A x v) = MF_set_field_type B (hMF x) v;
  hom_MF_get_field_type : forall x, MF_get_field_type A x = MF_get_field_type B (hMF x);
  hom_MF_set_metric : forall x v, hMF (MF_set_metric A x v) = MF_set_metric B (hMF x) (map hM v);
  hom_MF_get_metric : forall x, map hM (MF_get_metric A x) = MF_get_metric B (hMF x);
  hom_MF_mut_metric : forall x (f : list (tM A) -> list (tM A)) (g : list (tM B) -> list (tM B)),
      (forall l, map hM (f l) = g (map hM l)) -> hMF (MF_mut_metric A x f) = MF_mut_metric B (hMF x) g;
  hom_MF_take_metric_fst : forall x, map hM (fst (MF_take_metric A x)) = fst (MF_take_metric B (hMF x));
  hom_MF_take_metric_snd : forall x, hMF (snd (MF_take_metric A x)) = snd (MF_take_metric B (hMF x))
}.
Arguments hLP {A B} _ _. Arguments hG {A B} _ _. Arguments hC {A B} _ _. Arguments hU {A B} _ _.
Arguments hQ {A B} _ _. Arguments hS {A B} _ _. Arguments hB {A B} _ _. Arguments hH {A B} _ _.
Arguments hM {A B} _ _. Arguments hMF {A B} _ _.

(* ====================================================================================== *)
(* 2. The homomorphisms between the three instances                                         *)
(* ====================================================================================== *)
Lemma mtype_i32_roundtrip t : mtype_from_i32 (mtype_i32 t) = Some t.
Proof. destruct t; reflexivity. Qed.

Lemma map_ext_eq {X Y} (f g : X -> Y) l : (forall x, f x = g x) -> map f l = map g l.
Proof. intros E; induction l; cbn; [reflexivity|rewrite E, IHl; reflexivity]. Qed.

Ltac hom_law :=
  intros; cbn in *; try reflexivity;
  try (match goal with x : _ |- _ => destruct x; cbn; reflexivity end);
  try (match goal with H : forall l, map _ (_ l) = _ |- _ =>
         unfold print_pb_mf, view_mf; cbn; rewrite H; reflexivity end);
  try (match goal with x : pbM |- _ => destruct x as [? [?|] [?|] [?|] [?|] [?|] ?]; reflexivity end);
  try (match goal with x : Metric |- _ => destruct x as [? [?|] [?|] [?|] [?|] [?|] [?|]]; reflexivity end).

(* what the harness prints for the protobuf build *)
Definition hom_pb_wm : Hom pb wm.
Proof.
  refine (@mkHom pb wm print_pb_lp (G_value pb) (C_value pb) (U_value pb) print_pb_q print_pb_s print_pb_b print_pb_h
                 print_pb_m print_pb_mf _ _ _ _ _ _ _ _ _ _ _ _ _ _ _ _ _ _ _ _ _ _ _ _ _ _ _ _ _ _ _ _ _ _ _ _ _ _ _ _ _ _ _ _ _ _ _ _ _ _ _ _ _ _ _ _ _ _ _ _ _ _ _ _ _ _ _ _ _); hom_law.
Defined.

(* the getter view of each instance (DataModel.v section View) *)
Definition hom_view_pb : Hom pb plain.
Proof.
  refine (@mkHom pb plain (view_lp pb) (view_g pb) (view_c pb) (view_u pb) (view_q pb) (view_s pb) (view_b pb) (view_h pb)
                 (view_m pb) (view_mf pb) _ _ _ _ _ _ _ _ _ _ _ _ _ _ _ _ _ _ _ _ _ _ _ _ _ _ _ _ _ _ _ _ _ _ _ _ _ _ _ _ _ _ _ _ _ _ _ _ _ _ _ _ _ _ _ _ _ _ _ _ _ _ _ _ _ _ _ _ _); hom_law.
Defined.
Definition hom_view_wm : Hom wm plain.
Proof.
  refine (@mkHom wm plain (view_lp wm) (view_g wm) (view_c wm) (view_u wm) (view_q wm) (view_s wm) (view_b wm) (view_h wm)
                 (view_m wm) (view_mf wm) _ _ _ _ _ _ _ _ _ _ _ _ _ _ _ _ _ _ _ _ _ _ _ _ _ _ _ _ _ _ _ _ _ _ _ _ _ _ _ _ _ _ _ _ _ _ _ _ _ _ _ _ _ _ _ _ _ _ _ _ _ _ _ _ _ _ _ _ _); hom_law.

Defined.

(* ====================================================================================== *)
(* 3. Naturality of the shared code                                                         *)
(* ====================================================================================== *)
Lemma is_nil_map {X Y} (f : X -> Y) l : is_nil (map f l) = is_nil l.
Proof. destruct l; reflexivity. Qed.

Lemma push_all_app {X} (v xs : list X) : push_all v xs = v ++ xs.
Proof.
  unfold push_all. revert v; induction xs as [|x xs IH]; intros v; cbn.
  - rewrite app_nil_r; reflexivity.
  - rewrite IH, <- app_assoc; reflexivity.
Qed.

Section SortMap.
  Context {X Y : Type} (f : X -> Y) (leX : X -> X -> bool) (leY : Y -> Y -> bool).
  Hypothesis le_f : forall a b, leX a b = leY (f a) (f b).
  Lemma insert_by_map x l : insert_by leY (f x) (map f l) = map f (insert_by leX x l).
  Proof.
    induction l as [|y t IH]; cbn; [reflexivity|].
    rewrite <- le_f. destruct (leX x y); cbn; [reflexivity|rewrite IH; reflexivity].
  Qed.
  Lemma sort_by_map l : sort_by leY (map f l) = map f (sort_by leX l).
  Proof.
    unfold sort_by. induction l as [|x t IH]; cbn; [reflexivity|].
    rewrite IH. apply insert_by_map.
  Qed.
End SortMap.

Lemma insert_by_ext {X} (le1 le2 : X -> X -> bool) (E : forall a b, le1 a b = le2 a b) x l :
  insert_by le1 x l = insert_by le2 x l.
Proof. induction l as [|y t IH]; cbn; [reflexivity|]. rewrite E, IH; reflexivity. Qed.
Lemma sort_by_ext {X} (le1 le2 : X -> X -> bool) (E : forall a b, le1 a b = le2 a b) l :
  sort_by le1 l = sort_by le2 l.
Proof.
  unfold sort_by. induction l as [|x t IH]; cbn; [reflexivity|].
  rewrite IH. apply insert_by_ext, E.
Qed.

Section Natural.
  Context {A B : DM} (h : Hom A B).

  Lemma opt_set_hom {TA TB X Y} (f : TA -> TB) (g : X -> Y) (setA : TA -> X -> TA) (setB : TB -> Y -> TB)
        (E : forall x v, f (setA x v) = setB (f x) (g v)) x o :
    f (opt_set setA x o) = opt_set setB (f x) (option_map g o).
  Proof. destruct o; cbn; [apply E|reflexivity]. Qed.
  Lemma opt_set_hom_id {TA TB X} (f : TA -> TB) (setA : TA -> X -> TA) (setB : TB -> X -> TB)
        (E : forall x v, f (setA x v) = setB (f x) v) x o :
    f (opt_set setA x o) = opt_set setB (f x) o.
  Proof. destruct o; cbn; [apply E|reflexivity]. Qed.

  (* ---------------------------------------------------------------- label pairs *)
  Lemma mk_label_pair_hom k v : hLP h (mk_label_pair A k v) = mk_label_pair B k v.
  Proof. unfold mk_label_pair. rewrite hom_LP_set_value, hom_LP_set_name, hom_LP_default. reflexivity. Qed.
  Lemma lp_leb_hom a b : lp_leb_dm A a b = lp_leb_dm B (hLP h a) (hLP h b).
  Proof. unfold lp_leb_dm. rewrite !(hom_LP_name _ _ h). reflexivity. Qed.
  Lemma mk_pairs_hom (kvs : list (str * str)) :
    map (hLP h) (map (fun kv => mk_label_pair A (fst kv) (snd kv)) kvs) = map (fun kv => mk_label_pair B (fst kv) (snd kv)) kvs.
  Proof. rewrite map_map. apply map_ext_eq. intros; apply mk_label_pair_hom. Qed.
  Lemma sorted_pairs_hom l : map (hLP h) (sort_by (lp_leb_dm A) l) = sort_by (lp_leb_dm B) (map (hLP h) l).
  Proof. symmetry. apply sort_by_map. apply lp_leb_hom. Qed.
  Lemma const_pairs_hom consts : map (hLP h) (const_pairs_dm A consts) = const_pairs_dm B consts.
  Proof. unfold const_pairs_dm. rewrite sorted_pairs_hom, mk_pairs_hom. reflexivity. Qed.
  Lemma make_label_pairs_hom vars cp :
    map (hLP h) (make_label_pairs_dm A vars cp) = make_label_pairs_dm B vars (map (hLP h) cp).
  Proof.
    unfold make_label_pairs_dm. rewrite is_nil_map.
    destruct (is_nil vars && is_nil cp); [reflexivity|].
    destruct (is_nil vars); [reflexivity|].
    rewrite sorted_pairs_hom, map_app, mk_pairs_hom. reflexivity.
  Qed.

  Lemma label_names_hom lps : label_names_dm A lps = label_names_dm B (map (hLP h) lps).
  Proof. unfold label_names_dm. rewrite map_map. apply map_ext_eq. intros; apply hom_LP_name. Qed.
  Lemma created_label_names_hom vars consts :
    label_names_dm A (make_label_pairs_dm A vars (const_pairs_dm A consts))
    = label_names_dm B (make_label_pairs_dm B vars (const_pairs_dm B consts))
    /\ label_names_dm A (const_pairs_dm A consts) = label_names_dm B (const_pairs_dm B consts).
  Proof. rewrite !label_names_hom, make_label_pairs_hom, const_pairs_hom. split; reflexivity. Qed.

  (* ---------------------------------------------------------------- the library's collectors *)
  Lemma value_metric_hom lps t v : hM h (value_metric_dm A lps t v) = value_metric_dm B (map (hLP h) lps) t v.
  Proof.
    unfold value_metric_dm. destruct t.
    - rewrite hom_M_set_counter, hom_M_from_label, hom_C_set_value, hom_C_default. reflexivity.
    - rewrite hom_M_set_gauge, hom_M_from_label, hom_G_set_value, hom_G_default. reflexivity.
  Qed.
  Lemma hist_proto_hom sum count buckets : hH h (hist_proto_dm A sum count buckets) = hist_proto_dm B sum count buckets.
  Proof.
    unfold hist_proto_dm.
    rewrite hom_H_set_bucket, hom_H_set_sample_count, hom_H_set_sample_sum, hom_H_default, map_map.
    f_equal. apply map_ext_eq. intros cb.
    rewrite hom_B_set_upper_bound, hom_B_set_cumulative_count, hom_B_default. reflexivity.
  Qed.
  Lemma hist_metric_hom lps x : hM h (hist_metric_dm A lps x) = hist_metric_dm B (map (hLP h) lps) (hH h x).
  Proof. unfold hist_metric_dm. rewrite hom_M_set_histogram, hom_M_from_label. reflexivity. Qed.
  Lemma pulling_metric_hom v : hM h (pulling_metric_dm A v) = pulling_metric_dm B v.
  Proof. unfold pulling_metric_dm. rewrite hom_M_from_gauge, hom_G_set_value, hom_G_default. reflexivity. Qed.
  Lemma family_hom name help ty ms : hMF h (family_dm A name help ty ms) = family_dm B name help ty (map (hM h) ms).
  Proof.
    unfold family_dm.
    rewrite hom_MF_set_metric, hom_MF_set_field_type, hom_MF_set_help, hom_MF_set_name, hom_MF_default. reflexivity.
  Qed.
  Lemma msrc_metric_hom s : hM h (msrc_metric A s) = msrc_metric B s.
  Proof.
    destruct s; cbn [msrc_metric].
    - rewrite value_metric_hom, make_label_pairs_hom, const_pairs_hom. reflexivity.
    - rewrite hist_metric_hom, make_label_pairs_hom, const_pairs_hom, hist_proto_hom. reflexivity.
    - apply pulling_metric_hom.
  Qed.

  (* ---------------------------------------------------------------- setter scripts *)
  Lemma run_lp_hom s : hLP h (run_lp A s) = run_lp B s.
  Proof.
    unfold run_lp.
    rewrite (opt_set_hom_id (hLP h) _ _ (hom_LP_set_value _ _ h)), (opt_set_hom_id (hLP h) _ _ (hom_LP_set_name _ _ h)), hom_LP_default.
    reflexivity.
  Qed.
  Lemma run_g_hom s : hG h (run_g A s) = run_g B s.
  Proof. unfold run_g. rewrite (opt_set_hom_id (hG h) _ _ (hom_G_set_value _ _ h)), hom_G_default. reflexivity. Qed.
  Lemma run_c_hom s : hC h (run_c A s) = run_c B s.
  Proof. unfold run_c. rewrite (opt_set_hom_id (hC h) _ _ (hom_C_set_value _ _ h)), hom_C_default. reflexivity. Qed.
  Lemma run_u_hom s : hU h (run_u A s) = run_u B s.
  Proof. unfold run_u. rewrite (opt_set_hom_id (hU h) _ _ (hom_U_set_value _ _ h)), hom_U_default. reflexivity. Qed.
  Lemma run_q_hom s : hQ h (run_q A s) = run_q B s.
  Proof.
    unfold run_q.
    rewrite (opt_set_hom_id (hQ h) _ _ (hom_Q_set_value _ _ h)), (opt_set_hom_id (hQ h) _ _ (hom_Q_set_quantile _ _ h)), hom_Q_default.
    reflexivity.
  Qed.
  Lemma run_b_hom s : hB h (run_b A s) = run_b B s.
  Proof.
    unfold run_b.
    rewrite (opt_set_hom_id (hB h) _ _ (hom_B_set_upper_bound _ _ h)), (opt_set_hom_id (hB h) _ _ (hom_B_set_cumulative_count _ _ h)),
      hom_B_default.
    reflexivity.
  Qed.
  Lemma run_s_hom s : hS h (run_s A s) = run_s B s.
  Proof.
    unfold run_s.
    rewrite hom_S_set_quantile, (opt_set_hom_id (hS h) _ _ (hom_S_set_sample_sum _ _ h)),
      (opt_set_hom_id (hS h) _ _ (hom_S_set_sample_count _ _ h)), hom_S_default, map_map.
    f_equal. apply map_ext_eq, run_q_hom.
  Qed.
  Lemma run_h_hom s : hH h (run_h A s) = run_h B s.
  Proof.
    unfold run_h.
    rewrite hom_H_set_bucket, (opt_set_hom_id (hH h) _ _ (hom_H_set_sample_sum _ _ h)),
      (opt_set_hom_id (hH h) _ _ (hom_H_set_sample_count _ _ h)), hom_H_default, map_map.
    f_equal. apply map_ext_eq, run_b_hom.
  Qed.
  Lemma option_map_hom {S X Y} (f : X -> Y) (ra : S -> X) (rb : S -> Y) (E : forall s, f (ra s) = rb s) (o : option S) :
    option_map f (option_map ra o) = option_map rb o.
  Proof. destruct o; cbn; [rewrite E|]; reflexivity. Qed.
  Lemma run_m_hom s : hM h (run_m A s) = run_m B s.
  Proof.
    unfold run_m.
    rewrite (opt_set_hom_id (hM h) _ _ (hom_M_set_timestamp_ms _ _ h)).
    rewrite (opt_set_hom (hM h) (hH h) _ _ (hom_M_set_histogram _ _ h)), (option_map_hom _ _ _ run_h_hom).
    rewrite (opt_set_hom (hM h) (hU h) _ _ (hom_M_set_untyped _ _ h)), (option_map_hom _ _ _ run_u_hom).
    rewrite (opt_set_hom (hM h) (hS h) _ _ (hom_M_set_summary _ _ h)), (option_map_hom _ _ _ run_s_hom).
    rewrite (opt_set_hom (hM h) (hC h) _ _ (hom_M_set_counter _ _ h)), (option_map_hom _ _ _ run_c_hom).
    rewrite (opt_set_hom (hM h) (hG h) _ _ (hom_M_set_gauge _ _ h)), (option_map_hom _ _ _ run_g_hom).
    rewrite hom_M_set_label, hom_M_default, map_map.
    rewrite (map_ext_eq (fun x => hLP h (run_lp A x)) (run_lp B) _ run_lp_hom). reflexivity.
  Qed.
  Lemma run_mf_hom s : hMF h (run_mf A s) = run_mf B s.
  Proof.
    unfold run_mf.
    rewrite (opt_set_hom (hMF h) (map (hM h)) _ _ (hom_MF_set_metric _ _ h)).
    rewrite (opt_set_hom_id (hMF h) _ _ (hom_MF_set_field_type _ _ h)), (opt_set_hom_id (hMF h) _ _ (hom_MF_set_help _ _ h)),
      (opt_set_hom_id (hMF h) _ _ (hom_MF_set_name _ _ h)), hom_MF_default.
    f_equal. destruct (s_mf_metric s) as [ms|]; cbn; [|reflexivity].
    rewrite map_map, (map_ext_eq _ _ ms run_m_hom). reflexivity.
  Qed.
  Lemma collect_hom c : map (hMF h) (collect_dm A c) = collect_dm B c.
  Proof.
    destruct c; cbn [collect_dm map].
    - rewrite family_hom, map_map, (map_ext_eq _ _ ms msrc_metric_hom). reflexivity.
    - rewrite map_map. apply map_ext_eq, run_mf_hom.
  Qed.
  Lemma collect_all_hom cs : map (hMF h) (flat_map (collect_dm A) cs) = flat_map (collect_dm B) cs.
  Proof. induction cs as [|c cs IH]; cbn; [reflexivity|]. rewrite map_app, collect_hom, IH. reflexivity. Qed.

  (* ---------------------------------------------------------------- gather *)
  Definition hKV (kv : str * tMF A) : str * tMF B := (fst kv, hMF h (snd kv)).

  Lemma bt_entry_hom name mf m : map hKV (bt_entry A name mf m) = bt_entry B name (hMF h mf) (map hKV m).
  Proof.
    induction m as [|[k x] t IH]; cbn; [reflexivity|].
    destruct (str_cmp name k); cbn.
    - unfold hKV at 1; cbn. f_equal. f_equal.
      apply hom_MF_mut_metric. intros l.
      rewrite !push_all_app, map_app, hom_MF_take_metric_fst. reflexivity.
    - reflexivity.
    - rewrite IH. reflexivity.
  Qed.
  Lemma merge_hom_acc collected acc :
    map hKV (fold_left (fun m mf => if is_nil (MF_get_metric A mf) then m else bt_entry A (MF_name A mf) mf m) collected acc)
    = fold_left (fun m mf => if is_nil (MF_get_metric B mf) then m else bt_entry B (MF_name B mf) mf m)
                (map (hMF h) collected) (map hKV acc).
  Proof.
    revert acc; induction collected as [|mf r IH]; intros acc; cbn; [reflexivity|].
    rewrite IH. f_equal.
    rewrite <- (hom_MF_get_metric _ _ h), is_nil_map, <- (hom_MF_name _ _ h).
    destruct (is_nil (MF_get_metric A mf)); [reflexivity|apply bt_entry_hom].
  Qed.
  Lemma merge_hom collected : map hKV (merge_dm A collected) = merge_dm B (map (hMF h) collected).
  Proof. apply (merge_hom_acc collected []). Qed.

  Lemma cmp_label_values_hom a b : cmp_label_values_dm A a b = cmp_label_values_dm B (map (hLP h) a) (map (hLP h) b).
  Proof.
    revert b; induction a as [|x a IH]; intros [|y b]; cbn; try reflexivity.
    rewrite <- !(hom_LP_value _ _ h), IH. reflexivity.
  Qed.
  Lemma metric_cmp_hom x y : metric_cmp_dm A x y = metric_cmp_dm B (hM h x) (hM h y).
  Proof.
    unfold metric_cmp_dm.
    rewrite <- !(hom_M_get_label _ _ h), !map_length, <- cmp_label_values_hom, <- !(hom_M_timestamp_ms _ _ h). reflexivity.
  Qed.
  Lemma metric_leb_hom x y : metric_leb_dm A x y = metric_leb_dm B (hM h x) (hM h y).
  Proof. unfold metric_leb_dm. rewrite metric_cmp_hom. reflexivity. Qed.
  Lemma sort_metrics_hom l : map (hM h) (sort_by (metric_leb_dm A) l) = sort_by (metric_leb_dm B) (map (hM h) l).
  Proof. symmetry. apply sort_by_map, metric_leb_hom. Qed.

  Lemma add_common_hom pairs m : hM h (add_common A pairs m) = add_common B (map (hLP h) pairs) (hM h m).
  Proof.
    unfold add_common.
    destruct (M_take_label A m) as [la ma] eqn:Ea. destruct (M_take_label B (hM h m)) as [lb mb] eqn:Eb.
    pose proof (hom_M_take_label_fst _ _ h m) as F. pose proof (hom_M_take_label_snd _ _ h m) as S.
    rewrite Ea, Eb in F, S. cbn in F, S. subst lb mb.
    rewrite hom_M_set_label, map_app. reflexivity.
  Qed.
  Lemma finish_family_hom prefix labels m : hMF h (finish_family A prefix labels m) = finish_family B prefix labels (hMF h m).
  Proof.
    unfold finish_family.
    assert (P : hMF h (match prefix with Some ns => MF_set_name A m (ns ++ [USCORE_] ++ MF_name A m) | None => m end)
                = match prefix with Some ns => MF_set_name B (hMF h m) (ns ++ [USCORE_] ++ MF_name B (hMF h m)) | None => hMF h m end).
    { destruct prefix; [|reflexivity]. rewrite hom_MF_set_name, <- (hom_MF_name _ _ h). reflexivity. }
    destruct labels as [hmap|]; [|exact P].
    rewrite <- P. apply hom_MF_mut_metric. intros l.
    rewrite map_map, <- mk_pairs_hom, <- sorted_pairs_hom, map_map.
    apply map_ext_eq. intros x. apply add_common_hom.
  Qed.
  Theorem gather_hom prefix labels collected :
    map (hMF h) (gather_dm A prefix labels collected) = gather_dm B prefix labels (map (hMF h) collected).
  Proof.
    unfold gather_dm. rewrite <- merge_hom, !map_map. apply map_ext_eq. intros [k x]; cbn.
    rewrite finish_family_hom. f_equal. apply hom_MF_mut_metric, sort_metrics_hom.
  Qed.

  (* ---------------------------------------------------------------- text encoder *)
  Variable show : f64 -> str.
  Variable showz : Z -> str.

  Lemma write_pairs_hom w sep pairs : write_pairs_dm A w sep pairs = write_pairs_dm B w sep (map (hLP h) pairs).
  Proof.
    revert w sep; induction pairs as [|lp r IH]; intros w sep; cbn; [reflexivity|].
    rewrite <- (hom_LP_name _ _ h), <- (hom_LP_value _ _ h). apply IH.
  Qed.
  Lemma label_pairs_to_text_hom pairs additional w :
    label_pairs_to_text_dm A pairs additional w = label_pairs_to_text_dm B (map (hLP h) pairs) additional w.
  Proof. unfold label_pairs_to_text_dm. rewrite is_nil_map, write_pairs_hom. reflexivity. Qed.
  Lemma write_sample_hom w name postfix mc additional value :
    write_sample_dm A show showz w name postfix mc additional value
    = write_sample_dm B show showz w name postfix (hM h mc) additional value.
  Proof.
    unfold write_sample_dm.
    rewrite <- (hom_M_get_label _ _ h), <- label_pairs_to_text_hom, <- (hom_M_timestamp_ms _ _ h). reflexivity.
  Qed.
  Lemma write_buckets_hom w name m bs inf_seen :
    write_buckets_dm A show showz w name m bs inf_seen
    = write_buckets_dm B show showz w name (hM h m) (map (hB h) bs) inf_seen.
  Proof.
    revert w inf_seen; induction bs as [|b r IH]; intros w inf_seen; cbn; [reflexivity|].
    rewrite <- (hom_B_upper_bound _ _ h), <- (hom_B_cumulative_count _ _ h), <- write_sample_hom. apply IH.
  Qed.
  Lemma write_quantiles_hom w name m qs :
    write_quantiles_dm A show showz w name m qs = write_quantiles_dm B show showz w name (hM h m) (map (hQ h) qs).
  Proof.
    revert w; induction qs as [|q r IH]; intros w; cbn; [reflexivity|].
    rewrite <- (hom_Q_quantile _ _ h), <- (hom_Q_value _ _ h), <- write_sample_hom. apply IH.
  Qed.
  Lemma write_metric_hom w t name m :
    write_metric_dm A show showz w t name m = write_metric_dm B show showz w t name (hM h m).
  Proof.
    unfold write_metric_dm. destruct t.
    - rewrite <- (hom_M_get_counter _ _ h), <- (hom_C_value _ _ h), <- write_sample_hom. reflexivity.
    - rewrite <- (hom_M_get_gauge _ _ h), <- (hom_G_value _ _ h), <- write_sample_hom. reflexivity.
    - rewrite <- (hom_M_get_summary _ _ h), <- (hom_S_get_quantile _ _ h), <- write_quantiles_hom,
        <- (hom_S_sample_sum _ _ h), <- (hom_S_sample_count _ _ h), <- !write_sample_hom. reflexivity.
    - reflexivity.
    - rewrite <- (hom_M_get_histogram _ _ h), <- (hom_H_get_bucket _ _ h), <- write_buckets_hom,
        <- (hom_H_get_sample_sum _ _ h), <- (hom_H_get_sample_count _ _ h).
      destruct (write_buckets_dm A show showz w name m (H_get_bucket A (M_get_histogram A m)) false) as [w1 inf].
      rewrite <- !write_sample_hom. reflexivity.
  Qed.
  Lemma write_metrics_hom w t name ms :
    write_metrics_dm A show showz w t name ms = write_metrics_dm B show showz w t name (map (hM h) ms).
  Proof.
    revert w; induction ms as [|m r IH]; intros w; cbn; [reflexivity|].
    rewrite <- write_metric_hom. destruct (write_metric_dm A show showz w t name m) as [w1 ok].
    destruct ok; [apply IH|reflexivity].
  Qed.
  Lemma check_metric_family_hom mf : check_metric_family_dm A mf = check_metric_family_dm B (hMF h mf).
  Proof.
    unfold check_metric_family_dm. rewrite <- (hom_MF_get_metric _ _ h), is_nil_map, <- (hom_MF_name _ _ h). reflexivity.
  Qed.
  Theorem encode_impl_hom fams w :
    encode_impl_dm A show showz fams w = encode_impl_dm B show showz (map (hMF h) fams) w.
  Proof.
    revert w; induction fams as [|mf r IH]; intros w; cbn; [reflexivity|].
    rewrite <- check_metric_family_hom, <- (hom_MF_name _ _ h), <- (hom_MF_help _ _ h), <- (hom_MF_get_field_type _ _ h),
      <- (hom_MF_get_metric _ _ h), <- write_metrics_hom.
    destruct (check_metric_family_dm A mf); cbn; [|reflexivity].
    match goal with |- (let '(_, _) := ?X in _) = _ => destruct X as [w1 ok] end.
    destruct ok; [apply IH|reflexivity].
  Qed.
  Theorem encode_hom buf fams : encode_dm A show showz buf fams = encode_dm B show showz buf (map (hMF h) fams).
  Proof. unfold encode_dm. rewrite encode_impl_hom. reflexivity. Qed.
  Theorem encode_to_string_hom fams :
    encode_to_string_dm A show showz fams = encode_to_string_dm B show showz (map (hMF h) fams).
  Proof. unfold encode_to_string_dm. rewrite encode_hom. reflexivity. Qed.

  (* ---------------------------------------------------------------- one exposition *)
  Theorem exposition_hom prefix labels cs :
    map (hMF h) (exposition_dm A prefix labels cs) = exposition_dm B prefix labels cs.
  Proof. unfold exposition_dm. rewrite gather_hom, collect_all_hom. reflexivity. Qed.
  Theorem exposition_text_hom prefix labels cs :
    exposition_text_dm A show showz prefix labels cs = exposition_text_dm B show showz prefix labels cs.
  Proof. unfold exposition_text_dm. rewrite encode_to_string_hom, exposition_hom. reflexivity. Qed.
End Natural.

(* ====================================================================================== *)
(* 4. Bridges to the world model and to what the harness prints                             *)
(* ====================================================================================== *)

Arguments push_all : simpl never.

(* ---- 4a. the shared gather at instance [wm] is Model/Registry.v's gather_families ---- *)
Lemma cmp_label_values_wm a b : cmp_label_values_dm wm a b = cmp_label_values a b.
Proof. revert b; induction a as [|x a IH]; intros [|y b]; cbn; try reflexivity; rewrite IH; reflexivity. Qed.
Lemma metric_leb_wm x y : metric_leb_dm wm x y = metric_leb x y.
Proof. unfold metric_leb_dm, metric_leb, metric_cmp_dm, metric_cmp. cbn. rewrite cmp_label_values_wm. reflexivity. Qed.

Definition keyed (m : list MetricFamily) : list (str * MetricFamily) := map (fun f => (mf_name f, f)) m.
Lemma bt_entry_wm mf acc : bt_entry wm (mf_name mf) mf (keyed acc) = keyed (bt_insert mf acc).
Proof.
  induction acc as [|x t IH]; [reflexivity|].
  change (keyed (x :: t)) with ((mf_name x, x) :: keyed t).
  cbn [bt_entry bt_insert].
  destruct (str_cmp (mf_name mf) (mf_name x)).
  - cbn. rewrite push_all_app. reflexivity.
  - reflexivity.
  - rewrite IH. reflexivity.
Qed.
Lemma merge_wm_acc collected acc :
  fold_left (fun m mf => if is_nil (MF_get_metric wm mf) then m else bt_entry wm (MF_name wm mf) mf m) collected (keyed acc)
  = keyed (fold_left (fun m mf => if is_nil (mf_metric mf) then m else bt_insert mf m) collected acc).
Proof.
  revert acc; induction collected as [|mf r IH]; intros acc; cbn; [reflexivity|].
  destruct (is_nil (mf_metric mf)); [apply IH|]. rewrite bt_entry_wm. apply IH.
Qed.
Lemma merge_wm collected : merge_dm wm collected = keyed (merge_families collected).
Proof. apply (merge_wm_acc collected []). Qed.
Lemma finish_family_wm p l f : finish_family wm p l f = apply_prefix_labels p l f.
Proof. destruct p, l, f; reflexivity. Qed.
Theorem gather_wm p l collected : gather_dm wm p l collected = gather_families p l collected.
Proof.
  unfold gather_dm, gather_families. rewrite merge_wm. unfold keyed. rewrite map_map.
  apply map_ext_eq. intros f. cbn. rewrite finish_family_wm.
  rewrite (sort_by_ext _ _ metric_leb_wm). reflexivity.
Qed.

(* ---- 4b. the shared text encoder at instance [wm] is Model/Text.v's writer model ---- *)
Section TextWm.
  Variable show : f64 -> str.
  Variable showz : Z -> str.
  Lemma write_pairs_wm w sep pairs : write_pairs_dm wm w sep pairs = write_pairs w sep pairs.
  Proof. revert w sep; induction pairs as [|lp r IH]; intros w sep; cbn; [reflexivity|apply IH]. Qed.
  Lemma label_pairs_to_text_wm pairs additional w : label_pairs_to_text_dm wm pairs additional w = label_pairs_to_text pairs additional w.
  Proof. unfold label_pairs_to_text_dm, label_pairs_to_text. rewrite write_pairs_wm. reflexivity. Qed.
  Lemma write_sample_wm w name postfix mc additional value :
    write_sample_dm wm show showz w name postfix mc additional value = write_sample show showz w name postfix mc additional value.
  Proof. unfold write_sample_dm, write_sample. cbn. rewrite label_pairs_to_text_wm. reflexivity. Qed.
  Lemma write_buckets_wm w name m bs inf_seen :
    write_buckets_dm wm show showz w name m bs inf_seen = write_buckets show showz w name m bs inf_seen.
  Proof.
    revert w inf_seen; induction bs as [|b r IH]; intros w inf_seen; cbn; [reflexivity|].
    rewrite write_sample_wm. apply IH.
  Qed.
  Lemma write_quantiles_wm w name m qs : write_quantiles_dm wm show showz w name m qs = write_quantiles show showz w name m qs.
  Proof. revert w; induction qs as [|q r IH]; intros w; cbn; [reflexivity|]. rewrite write_sample_wm. apply IH. Qed.
  Lemma write_metric_wm w t name m : write_metric_dm wm show showz w t name m = write_metric show showz w t name m.
  Proof.
    unfold write_metric_dm, write_metric.
    destruct t; cbn; rewrite ?write_quantiles_wm, ?write_buckets_wm, ?write_sample_wm; try reflexivity.
    all: try (destruct (write_buckets show showz w name m (h_bucket (get_histogram m)) false) as [w1 inf];
              rewrite ?write_sample_wm; reflexivity).
  Qed.
  Lemma write_metrics_wm w t name ms : write_metrics_dm wm show showz w t name ms = write_metrics show showz w t name ms.
  Proof.
    revert w; induction ms as [|m r IH]; intros w; cbn; [reflexivity|].
    rewrite write_metric_wm. destruct (write_metric show showz w t name m) as [w1 ok]. destruct ok; [apply IH|reflexivity].
  Qed.
  Theorem encode_impl_wm fams w : encode_impl_dm wm show showz fams w = encode_impl show showz fams w.
  Proof.
    revert w; induction fams as [|mf r IH]; intros w; cbn; [reflexivity|].
    change (check_metric_family_dm wm mf) with (check_metric_family mf).
    destruct (check_metric_family mf); cbn; [|reflexivity].
    rewrite write_metrics_wm.
    match goal with |- (let '(_, _) := ?X in _) = _ => destruct X as [w1 ok] end.
    destruct ok; [apply IH|reflexivity].
  Qed.
  Theorem encode_wm buf fams : encode_dm wm show showz buf fams = encode show showz buf fams.
  Proof. unfold encode_dm, encode. rewrite encode_impl_wm. reflexivity. Qed.
  Theorem encode_to_string_wm fams : encode_to_string_dm wm show showz fams = encode_to_string show showz fams.
  Proof. unfold encode_to_string_dm, encode_to_string, encode_utf8. rewrite encode_wm. reflexivity. Qed.
End TextWm.

(* ---- 4c. the world model's collectors are the shared collectors at instance [wm] ---- *)
Lemma value_collect_wm vc :
  value_collect vc = family_dm wm (d_fq_name (vc_desc vc)) (d_help (vc_desc vc)) (valtype_mtype (vc_type vc))
                               [value_metric_dm wm (vc_labels vc) (vc_type vc) (num_to_f64 (vc_val vc))].
Proof. unfold value_collect, value_metric, family_dm, value_metric_dm. destruct (vc_type vc); reflexivity. Qed.
Lemma hist_metric_wm lps (p : Histogram) :
  mkMetric lps None None None None (Some p) None = hist_metric_dm wm lps p.
Proof. reflexivity. Qed.
Lemma hist_proto_wm sum count buckets :
  hist_proto_dm wm sum count buckets = mkHist count sum (map (fun cb => mkBucket (fst cb) (snd cb)) buckets).
Proof. reflexivity. Qed.
Lemma pulling_family_wm name help v :
  mkMF name help GAUGE [mkMetric [] (Some v) None None None None None] = family_dm wm name help GAUGE [pulling_metric_dm wm v].
Proof. reflexivity. Qed.
Lemma const_pairs_wm consts : const_pairs_dm wm consts = sort_by lp_leb (map (fun kv => mkLP (fst kv) (snd kv)) consts).
Proof. reflexivity. Qed.
Lemma make_label_pairs_wm d vals ls :
  make_label_pairs d vals = Ok ls -> ls = make_label_pairs_dm wm (combine (d_vars d) vals) (d_const_pairs d).
Proof.
  unfold make_label_pairs, make_label_pairs_dm, lenN.
  destruct (N.of_nat (length (d_vars d)) =? N.of_nat (length vals)) eqn:E; cbn; [|discriminate].
  apply N.eqb_eq, Nat2N.inj in E.
  destruct (d_vars d) as [|v vs]; destruct vals as [|x xs]; cbn in *; try discriminate.
  - destruct (is_nil (d_const_pairs d)); intros [= <-]; reflexivity.
  - intros [= <-]. reflexivity.
Qed.

(* ---- 4d. the getter view of [plain] is the identity; views factor through printing ---- *)
Lemma map_id_ext {X} (f : X -> X) (E : forall x, f x = x) l : map f l = l.
Proof. induction l; cbn; [reflexivity|rewrite E, IHl; reflexivity]. Qed.
Lemma view_lp_plain x : view_lp plain x = x. Proof. destruct x; reflexivity. Qed.
Lemma view_g_plain x : view_g plain x = x. Proof. destruct x; reflexivity. Qed.
Lemma view_c_plain x : view_c plain x = x. Proof. destruct x; reflexivity. Qed.
Lemma view_u_plain x : view_u plain x = x. Proof. destruct x; reflexivity. Qed.
Lemma view_q_plain x : view_q plain x = x. Proof. destruct x; reflexivity. Qed.
Lemma view_b_plain x : view_b plain x = x. Proof. destruct x; reflexivity. Qed.
Lemma view_s_plain x : view_s plain x = x.
Proof. destruct x; unfold view_s; cbn. rewrite (map_id_ext _ view_q_plain). reflexivity. Qed.
Lemma view_h_plain x : view_h plain x = x.
Proof. destruct x; unfold view_h; cbn. rewrite (map_id_ext _ view_b_plain). reflexivity. Qed.
Lemma view_m_plain x : view_m plain x = x.
Proof.
  destruct x; unfold view_m; cbn.
  rewrite (map_id_ext _ view_lp_plain), view_g_plain, view_c_plain, view_s_plain, view_u_plain, view_h_plain. reflexivity.
Qed.
Lemma view_mf_plain x : view_mf plain x = x.
Proof. destruct x; unfold view_mf; cbn. rewrite (map_id_ext _ view_m_plain). reflexivity. Qed.

(* what the plain build prints for the view of a protobuf value = the getters normal form of what
   the protobuf build prints for that value *)
Lemma print_view_s s : print_pl_s (view_s pb s) = print_pb_s s.
Proof. destruct s as [c sm qs]; unfold print_pl_s, view_s, print_pb_s; cbn. rewrite map_map. reflexivity. Qed.
Lemma print_view_h x : print_pl_h (view_h pb x) = print_pb_h x.
Proof. destruct x as [c sm bs]; unfold print_pl_h, view_h, print_pb_h; cbn. rewrite map_map. reflexivity. Qed.
Lemma print_view_m m : print_pl_m (view_m pb m) = getters_metric (print_pb_m m).
Proof.
  unfold print_pl_m, getters_metric. cbn [pl_m_label pl_m_gauge pl_m_counter pl_m_summary pl_m_untyped pl_m_histogram pl_m_ts view_m].
  rewrite map_map, print_view_s, print_view_h.
  destruct m as [ls [g|] [c|] [s|] [u|] [x|] [t|]]; reflexivity.
Qed.
Lemma print_view_mf f : print_pl_mf (view_mf pb f) = getters_family (print_pb_mf f).
Proof.
  unfold print_pl_mf, getters_family, view_mf, print_pb_mf. cbn. rewrite !map_map.
  f_equal. apply map_ext_eq, print_view_m.
Qed.
(* and for the world model's own terms *)
Lemma print_view_wm_m m : print_pl_m (view_m wm m) = getters_metric m.
Proof.
  unfold print_pl_m, getters_metric, view_m, print_pl_s, print_pl_h, view_s, view_h; cbn. rewrite !map_map.
  rewrite (map_id_ext (fun x => print_pl_lp (view_lp wm x))); [|intros []; reflexivity].
  rewrite (map_id_ext (fun x => mkQuantile _ _)); [|intros []; reflexivity].
  rewrite (map_id_ext (fun x => mkBucket _ _)); [|intros []; reflexivity].
  destruct (get_summary m), (get_histogram m); reflexivity.
Qed.
Lemma print_view_wm_mf f : print_pl_mf (view_mf wm f) = getters_family f.
Proof.
  unfold print_pl_mf, getters_family, view_mf. cbn. rewrite map_map. f_equal. apply map_ext_eq, print_view_wm_m.
Qed.

(* ---- 4e. one step of the world model; the two builds' printed gather / text ---- *)
Theorem world_gather_dm w r ri rc fs w' :
  slot w r = HRegistry ri -> nth_error (w_reg w) ri = Some rc -> collect_all w (r_collectors rc) = Some (fs, w') ->
  step w (OpGather r) = (w', OFams (gather_dm wm (r_prefix rc) (r_labels rc) fs)).
Proof. intros H1 H2 H3. unfold step. rewrite H1, H2, H3, gather_wm. reflexivity. Qed.

Theorem printed_gather_two_builds p l (cpb : list pbMF) :
  map print_pb_mf (gather_dm pb p l cpb) = gather_families p l (map print_pb_mf cpb)
  /\ map print_pl_mf (gather_dm plain p l (map (view_mf pb) cpb))
     = map getters_family (gather_families p l (map print_pb_mf cpb)).
Proof.
  assert (E : map print_pb_mf (gather_dm pb p l cpb) = gather_families p l (map print_pb_mf cpb)).
  { rewrite <- gather_wm. exact (gather_hom hom_pb_wm p l cpb). }
  split; [exact E|].
  rewrite <- E.
  transitivity (map print_pl_mf (map (view_mf pb) (gather_dm pb p l cpb))).
  - f_equal. symmetry. exact (gather_hom hom_view_pb p l cpb).
  - rewrite !map_map. apply map_ext_eq, print_view_mf.
Qed.
Theorem text_two_builds show showz buf (fams : list pbMF) :
  encode_dm pb show showz buf fams = encode show showz buf (map print_pb_mf fams)
  /\ encode_dm plain show showz buf (map (view_mf pb) fams) = encode show showz buf (map print_pb_mf fams).
Proof.
  assert (E : encode_dm pb show showz buf fams = encode show showz buf (map print_pb_mf fams)).
  { rewrite <- encode_wm. exact (encode_hom hom_pb_wm show showz buf fams). }
  split; [exact E|]. rewrite <- E. symmetry. exact (encode_hom hom_view_pb show showz buf fams).
Qed.

(* ====================================================================================== *)
(* 5. The simulation relation: same getters                                                 *)
(* ====================================================================================== *)
(* A protobuf-side value and a plain value are related iff every getter, recursively, returns
   the same thing: view (pb value) = plain value (the plain records are their own view, 4d). *)
Definition R_LP (x : pbLP) (y : plLP) : Prop := view_lp pb x = y.
Definition R_G (x : pbG) (y : plG) : Prop := view_g pb x = y.
Definition R_C (x : pbC) (y : plC) : Prop := view_c pb x = y.
Definition R_U (x : pbU) (y : plU) : Prop := view_u pb x = y.
Definition R_Q (x : pbQ) (y : plQ) : Prop := view_q pb x = y.
Definition R_S (x : pbS) (y : plS) : Prop := view_s pb x = y.
Definition R_B (x : pbB) (y : plB) : Prop := view_b pb x = y.
Definition R_H (x : pbH) (y : plH) : Prop := view_h pb x = y.
Definition R_M (x : pbM) (y : plM) : Prop := view_m pb x = y.
Definition R_MF (x : pbMF) (y : plMF) : Prop := view_mf pb x = y.

Lemma map_eq_Forall2 {X Y} (f : X -> Y) l l' : map f l = l' <-> Forall2 (fun a b => f a = b) l l'.
Proof.
  split.
  - intros <-. induction l; constructor; auto.
  - induction 1; cbn; [reflexivity|]. subst. reflexivity.
Qed.

Lemma R_LP_iff x y : R_LP x y <-> LP_name pb x = LP_name plain y /\ LP_value pb x = LP_value plain y.
Proof. unfold R_LP, view_lp. destruct y; cbn. split; [intros [= <- <-]; auto|intros [<- <-]; reflexivity]. Qed.
Lemma R_G_iff x y : R_G x y <-> G_value pb x = G_value plain y.
Proof. unfold R_G, view_g. destruct y; cbn. split; [intros [= <-]; auto|intros <-; reflexivity]. Qed.
Lemma R_C_iff x y : R_C x y <-> C_value pb x = C_value plain y.
Proof. unfold R_C, view_c. destruct y; cbn. split; [intros [= <-]; auto|intros <-; reflexivity]. Qed.
Lemma R_U_iff x y : R_U x y <-> U_value pb x = U_value plain y.
Proof. unfold R_U, view_u. destruct y; cbn. split; [intros [= <-]; auto|intros <-; reflexivity]. Qed.
Lemma R_Q_iff x y : R_Q x y <-> Q_quantile pb x = Q_quantile plain y /\ Q_value pb x = Q_value plain y.
Proof. unfold R_Q, view_q. destruct y; cbn. split; [intros [= <- <-]; auto|intros [<- <-]; reflexivity]. Qed.
Lemma R_B_iff x y : R_B x y <-> B_cumulative_count pb x = B_cumulative_count plain y /\ B_upper_bound pb x = B_upper_bound plain y.
Proof. unfold R_B, view_b. destruct y; cbn. split; [intros [= <- <-]; auto|intros [<- <-]; reflexivity]. Qed.
Lemma R_S_iff x y :
  R_S x y <-> S_sample_count pb x = S_sample_count plain y /\ S_sample_sum pb x = S_sample_sum plain y
              /\ Forall2 R_Q (S_get_quantile pb x) (S_get_quantile plain y).
Proof.
  unfold R_S, view_s, R_Q. destruct y; cbn. rewrite <- map_eq_Forall2.
  split; [intros [= <- <- <-]; auto|intros (<- & <- & <-); reflexivity].
Qed.
Lemma R_H_iff x y :
  R_H x y <-> H_get_sample_count pb x = H_get_sample_count plain y /\ H_get_sample_sum pb x = H_get_sample_sum plain y
              /\ Forall2 R_B (H_get_bucket pb x) (H_get_bucket plain y).
Proof.
  unfold R_H, view_h, R_B. destruct y; cbn. rewrite <- map_eq_Forall2.
  split; [intros [= <- <- <-]; auto|intros (<- & <- & <-); reflexivity].
Qed.
Lemma R_M_iff x y :
  R_M x y <-> Forall2 R_LP (M_get_label pb x) (M_get_label plain y)
              /\ R_G (M_get_gauge pb x) (M_get_gauge plain y) /\ R_C (M_get_counter pb x) (M_get_counter plain y)
              /\ R_S (M_get_summary pb x) (M_get_summary plain y) /\ R_U (M_get_untyped pb x) (M_get_untyped plain y)
              /\ R_H (M_get_histogram pb x) (M_get_histogram plain y)
              /\ M_timestamp_ms pb x = M_timestamp_ms plain y.
Proof.
  unfold R_M, view_m, R_LP, R_G, R_C, R_S, R_U, R_H. destruct y; cbn.
  rewrite <- map_eq_Forall2.
  split; [intros [= <- <- <- <- <- <- <-]; repeat split; reflexivity|intros (<- & <- & <- & <- & <- & <- & <-); reflexivity].
Qed.
Lemma R_MF_iff x y :
  R_MF x y <-> MF_name pb x = MF_name plain y /\ MF_help pb x = MF_help plain y
               /\ MF_get_field_type pb x = MF_get_field_type plain y
               /\ Forall2 R_M (MF_get_metric pb x) (MF_get_metric plain y).
Proof.
  unfold R_MF, view_mf, R_M. destruct y; cbn.
  rewrite <- map_eq_Forall2.
  split; [intros [= <- <- <- <-]; repeat split; reflexivity|intros (<- & <- & <- & <-); reflexivity].
Qed.

(* the relation is not the identity on representations: presence is invisible to the getters *)
Lemma R_forgets_presence :
  R_M pb_m0 pl_m0 /\ R_M (M_set_timestamp_ms pb pb_m0 0%Z) pl_m0 /\ pb_m0 <> M_set_timestamp_ms pb pb_m0 0%Z.
Proof. repeat split; discriminate. Qed.

(* every operation preserves it: that is [hom_view_pb : Hom pb plain], whose maps are the views.
   Relational reading of the laws, for the three shapes of operation: *)
Lemma R_preserved_shapes :
  (forall x y v, R_MF x y -> R_MF (MF_set_name pb x v) (MF_set_name plain y v))                             (* scalar setter *)
  /\ (forall x y g g', R_M x y -> R_G g g' -> R_M (M_set_gauge pb x g) (M_set_gauge plain y g'))            (* message setter *)
  /\ (forall x y, R_M x y -> R_H (M_get_histogram pb x) (M_get_histogram plain y))                          (* message getter *)
  /\ (forall x y, R_M x y -> M_timestamp_ms pb x = M_timestamp_ms plain y)                                  (* scalar getter *)
  /\ (forall x y, R_M x y -> Forall2 R_LP (fst (M_take_label pb x)) (fst (M_take_label plain y))
                             /\ R_M (snd (M_take_label pb x)) (snd (M_take_label plain y)))                 (* take_* *)
  /\ (forall x y f g, R_MF x y -> (forall l l', Forall2 R_M l l' -> Forall2 R_M (f l) (g l')) ->
                      R_MF (MF_mut_metric pb x f) (MF_mut_metric plain y g)).                               (* mut_* *)
Proof.
  refine (conj _ (conj _ (conj _ (conj _ (conj _ _))))).
  - intros x y v <-. apply (hom_MF_set_name _ _ hom_view_pb).
  - intros x y g g' <- <-. apply (hom_M_set_gauge _ _ hom_view_pb).
  - intros x y <-. apply (hom_M_get_histogram _ _ hom_view_pb).
  - intros x y <-. apply (hom_M_timestamp_ms _ _ hom_view_pb).
  - intros x y <-. split.
    + apply map_eq_Forall2. apply (hom_M_take_label_fst _ _ hom_view_pb).
    + apply (hom_M_take_label_snd _ _ hom_view_pb).
  - intros x y f g <- Hfg. apply (hom_MF_mut_metric _ _ hom_view_pb).
    intros l. apply map_eq_Forall2. apply Hfg. apply map_eq_Forall2. reflexivity.
Qed.

(* ---- 5b. defaults: the table itself is stated in full in Props/C16.v (c16_defaults) ---- *)
Definition both {X} (a b v : X) : Prop := a = v /\ b = v.
(* an EnumOrUnknown that holds no known value (only parsing wire bytes can produce one; the
   library never parses) would read as COUNTER; set_field_type never stores one *)
Lemma unknown_enum_reads_counter name help ms : MF_get_field_type pb (mkPbMF name help (Some 7%Z) ms) = COUNTER.
Proof. reflexivity. Qed.
Lemma set_field_type_roundtrip f t : MF_get_field_type pb (MF_set_field_type pb f t) = t.
Proof. destruct t; reflexivity. Qed.

(* ---- 5c. gather and the text encoder on related arguments ---- *)
Theorem gather_R prefix labels cpb cpl :
  Forall2 R_MF cpb cpl -> Forall2 R_MF (gather_dm pb prefix labels cpb) (gather_dm plain prefix labels cpl).
Proof.
  intros H. apply map_eq_Forall2 in H. subst cpl. apply map_eq_Forall2.
  exact (gather_hom hom_view_pb prefix labels cpb).
Qed.
Theorem encode_R show showz buf fpb fpl :
  Forall2 R_MF fpb fpl ->
  encode_dm pb show showz buf fpb = encode_dm plain show showz buf fpl
  /\ encode_to_string_dm pb show showz fpb = encode_to_string_dm plain show showz fpl.
Proof.
  intros H. apply map_eq_Forall2 in H. subst fpl. split.
  - exact (encode_hom hom_view_pb show showz buf fpb).
  - exact (encode_to_string_hom hom_view_pb show showz fpb).
Qed.

(* ====================================================================================== *)
(* 6. Straight-line programs over the interface                                             *)
(* ====================================================================================== *)
(* Any client of `crate::proto` that only uses the common interface: a program is a sequence of
   instructions; every instruction applies one interface operation (or a list / scalar helper)
   to earlier results and appends its result to the store (single assignment), operands are
   store indices.  Scalars read by getters can flow back into setters through arbitrary pure
   functions.  An ill-typed operand makes the instruction return its first operand unchanged
   (any fixed choice would do: it is the same choice in both instances). *)
Inductive val (I : DM) : Type :=
| VLP (x : tLP I) | VG (x : tG I) | VC (x : tC I) | VU (x : tU I) | VQ (x : tQ I) | VS (x : tS I)
| VB (x : tB I) | VH (x : tH I) | VM (x : tM I) | VMF (x : tMF I)
| VLPs (l : list (tLP I)) | VQs (l : list (tQ I)) | VBs (l : list (tB I)) | VMs (l : list (tM I))
| VStr (s : str) | VF (f : f64) | VN (n : N) | VZ (z : Z) | VTy (t : MetricType).
Arguments VLP {I}. Arguments VG {I}. Arguments VC {I}. Arguments VU {I}. Arguments VQ {I}. Arguments VS {I}.
Arguments VB {I}. Arguments VH {I}. Arguments VM {I}. Arguments VMF {I}.
Arguments VLPs {I}. Arguments VQs {I}. Arguments VBs {I}. Arguments VMs {I}.
Arguments VStr {I}. Arguments VF {I}. Arguments VN {I}. Arguments VZ {I}. Arguments VTy {I}.

Inductive op0 :=
| KLP | KG | KC | KU | KQ | KS | KB | KH | KM | KMF                       (* X::default() *)
| KNilLP | KNilQ | KNilB | KNilM                                          (* Vec::new() *)
| KStr (s : str) | KF (f : f64) | KN (n : N) | KZ (z : Z) | KTy (t : MetricType).
Inductive op1 :=
| LPName | LPValue | GValue | CValue | UValue | QQuantile | QValue
| SCount | SSum | SQuantile | BCum | BUpper | HCount | HSum | HBucket
| MFromLabel | MFromGauge | MTakeLabelTaken | MTakeLabelLeft | MGetLabel
| MGetGauge | MGetCounter | MGetSummary | MGetUntyped | MGetHistogram | MTimestamp
| MFName | MFHelp | MFType | MFGetMetric | MFTakeMetricTaken | MFTakeMetricLeft
| Head | Tail | SortPairs | SortMetrics                                   (* slices; sort() / gather's sort_by *)
| StrFun (f : str -> str) | StrLen.
Inductive op2 :=
| LPSetName | LPSetValue | GSetValue | CSetValue | USetValue | QSetQuantile | QSetValue
| SSetCount | SSetSum | SSetQuantile | BSetCum | BSetUpper | HSetCount | HSetSum | HSetBucket
| MSetLabel | MSetGauge | MSetCounter | MSetSummary | MSetUntyped | MSetHistogram | MSetTimestamp
| MFSetName | MFSetHelp | MFSetType | MFSetMetric | MFMutMetric            (* mut_metric(): overwrite through the reference *)
| Cons | App | StrFun2 (f : str -> str -> str).
Inductive instr := I0 (o : op0) | I1 (o : op1) (a : nat) | I2 (o : op2) (a b : nat).

Section Exec.
  Variable I : DM.
  Definition apply0 (o : op0) : val I :=
    match o with
    | KLP => VLP (LP_default I) | KG => VG (G_default I) | KC => VC (C_default I) | KU => VU (U_default I)
    | KQ => VQ (Q_default I) | KS => VS (S_default I) | KB => VB (B_default I) | KH => VH (H_default I)
    | KM => VM (M_default I) | KMF => VMF (MF_default I)
    | KNilLP => VLPs [] | KNilQ => VQs [] | KNilB => VBs [] | KNilM => VMs []
    | KStr s => VStr s | KF f => VF f | KN n => VN n | KZ z => VZ z | KTy t => VTy t
    end.
  Definition apply1 (o : op1) (v : val I) : val I :=
    match o, v with
    | LPName, VLP x => VStr (LP_name I x) | LPValue, VLP x => VStr (LP_value I x)
    | GValue, VG x => VF (G_value I x) | CValue, VC x => VF (C_value I x) | UValue, VU x => VF (U_value I x)
    | QQuantile, VQ x => VF (Q_quantile I x) | QValue, VQ x => VF (Q_value I x)
    | SCount, VS x => VN (S_sample_count I x) | SSum, VS x => VF (S_sample_sum I x) | SQuantile, VS x => VQs (S_get_quantile I x)
    | BCum, VB x => VN (B_cumulative_count I x) | BUpper, VB x => VF (B_upper_bound I x)
    | HCount, VH x => VN (H_get_sample_count I x) | HSum, VH x => VF (H_get_sample_sum I x) | HBucket, VH x => VBs (H_get_bucket I x)
    | MFromLabel, VLPs l => VM (M_from_label I l) | MFromGauge, VG g => VM (M_from_gauge I g)
    | MTakeLabelTaken, VM x => VLPs (fst (M_take_label I x)) | MTakeLabelLeft, VM x => VM (snd (M_take_label I x))
    | MGetLabel, VM x => VLPs (M_get_label I x)
    | MGetGauge, VM x => VG (M_get_gauge I x) | MGetCounter, VM x => VC (M_get_counter I x)
    | MGetSummary, VM x => VS (M_get_summary I x) | MGetUntyped, VM x => VU (M_get_untyped I x)
    | MGetHistogram, VM x => VH (M_get_histogram I x) | MTimestamp, VM x => VZ (M_timestamp_ms I x)
    | MFName, VMF x => VStr (MF_name I x) | MFHelp, VMF x => VStr (MF_help I x) | MFType, VMF x => VTy (MF_get_field_type I x)
    | MFGetMetric, VMF x => VMs (MF_get_metric I x)
    | MFTakeMetricTaken, VMF x => VMs (fst (MF_take_metric I x)) | MFTakeMetricLeft, VMF x => VMF (snd (MF_take_metric I x))
    | Head, VLPs l => VLP (hd (LP_default I) l) | Head, VQs l => VQ (hd (Q_default I) l)
    | Head, VBs l => VB (hd (B_default I) l) | Head, VMs l => VM (hd (M_default I) l)
    | Tail, VLPs l => VLPs (tl l) | Tail, VQs l => VQs (tl l) | Tail, VBs l => VBs (tl l) | Tail, VMs l => VMs (tl l)
    | SortPairs, VLPs l => VLPs (sort_by (lp_leb_dm I) l) | SortMetrics, VMs l => VMs (sort_by (metric_leb_dm I) l)
    | StrFun f, VStr s => VStr (f s) | StrLen, VStr s => VN (N.of_nat (length s))
    | _, _ => v
    end.
  Definition apply2 (o : op2) (v w : val I) : val I :=
    match o, v with
    | LPSetName, VLP x => match w with VStr s => VLP (LP_set_name I x s) | _ => v end
    | LPSetValue, VLP x => match w with VStr s => VLP (LP_set_value I x s) | _ => v end
    | GSetValue, VG x => match w with VF f => VG (G_set_value I x f) | _ => v end
    | CSetValue, VC x => match w with VF f => VC (C_set_value I x f) | _ => v end
    | USetValue, VU x => match w with VF f => VU (U_set_value I x f) | _ => v end
    | QSetQuantile, VQ x => match w with VF f => VQ (Q_set_quantile I x f) | _ => v end
    | QSetValue, VQ x => match w with VF f => VQ (Q_set_value I x f) | _ => v end
    | SSetCount, VS x => match w with VN n => VS (S_set_sample_count I x n) | _ => v end
    | SSetSum, VS x => match w with VF f => VS (S_set_sample_sum I x f) | _ => v end
    | SSetQuantile, VS x => match w with VQs l => VS (S_set_quantile I x l) | _ => v end
    | BSetCum, VB x => match w with VN n => VB (B_set_cumulative_count I x n) | _ => v end
    | BSetUpper, VB x => match w with VF f => VB (B_set_upper_bound I x f) | _ => v end
    | HSetCount, VH x => match w with VN n => VH (H_set_sample_count I x n) | _ => v end
    | HSetSum, VH x => match w with VF f => VH (H_set_sample_sum I x f) | _ => v end
    | HSetBucket, VH x => match w with VBs l => VH (H_set_bucket I x l) | _ => v end
    | MSetLabel, VM x => match w with VLPs l => VM (M_set_label I x l) | _ => v end
    | MSetGauge, VM x => match w with VG y => VM (M_set_gauge I x y) | _ => v end
    | MSetCounter, VM x => match w with VC y => VM (M_set_counter I x y) | _ => v end
    | MSetSummary, VM x => match w with VS y => VM (M_set_summary I x y) | _ => v end
    | MSetUntyped, VM x => match w with VU y => VM (M_set_untyped I x y) | _ => v end
    | MSetHistogram, VM x => match w with VH y => VM (M_set_histogram I x y) | _ => v end
    | MSetTimestamp, VM x => match w with VZ z => VM (M_set_timestamp_ms I x z) | _ => v end
    | MFSetName, VMF x => match w with VStr s => VMF (MF_set_name I x s) | _ => v end
    | MFSetHelp, VMF x => match w with VStr s => VMF (MF_set_help I x s) | _ => v end
    | MFSetType, VMF x => match w with VTy t => VMF (MF_set_field_type I x t) | _ => v end
    | MFSetMetric, VMF x => match w with VMs l => VMF (MF_set_metric I x l) | _ => v end
    | MFMutMetric, VMF x => match w with VMs l => VMF (MF_mut_metric I x (fun _ => l)) | _ => v end
    | Cons, VLP x => match w with VLPs l => VLPs (x :: l) | _ => v end
    | Cons, VQ x => match w with VQs l => VQs (x :: l) | _ => v end
    | Cons, VB x => match w with VBs l => VBs (x :: l) | _ => v end
    | Cons, VM x => match w with VMs l => VMs (x :: l) | _ => v end
    | App, VLPs k => match w with VLPs l => VLPs (k ++ l) | _ => v end
    | App, VQs k => match w with VQs l => VQs (k ++ l) | _ => v end
    | App, VBs k => match w with VBs l => VBs (k ++ l) | _ => v end
    | App, VMs k => match w with VMs l => VMs (k ++ l) | _ => v end
    | StrFun2 f, VStr s => match w with VStr t => VStr (f s t) | _ => v end
    | _, _ => v
    end.
  Definition reg (s : list (val I)) (i : nat) : val I := nth i s (VStr []).
  Definition exec (s : list (val I)) (i : instr) : list (val I) :=
    s ++ [match i with
          | I0 o => apply0 o
          | I1 o a => apply1 o (reg s a)
          | I2 o a b => apply2 o (reg s a) (reg s b)
          end].
  Definition run_prog (p : list instr) : list (val I) := fold_left exec p [].
  (* what the program can hand to the outside world: the scalars *)
  Inductive scalar_val := XStr (s : str) | XF (f : f64) | XN (n : N) | XZ (z : Z) | XTy (t : MetricType) | XOpaque.
  Definition scalar_of (v : val I) : scalar_val :=
    match v with VStr s => XStr s | VF f => XF f | VN n => XN n | VZ z => XZ z | VTy t => XTy t | _ => XOpaque end.
End Exec.

Section ProgHom.
  Context {A B : DM} (h : Hom A B).
  Definition hVal (v : val A) : val B :=
    match v with
    | VLP x => VLP (hLP h x) | VG x => VG (hG h x) | VC x => VC (hC h x) | VU x => VU (hU h x) | VQ x => VQ (hQ h x)
    | VS x => VS (hS h x) | VB x => VB (hB h x) | VH x => VH (hH h x) | VM x => VM (hM h x) | VMF x => VMF (hMF h x)
    | VLPs l => VLPs (map (hLP h) l) | VQs l => VQs (map (hQ h) l) | VBs l => VBs (map (hB h) l) | VMs l => VMs (map (hM h) l)
    | VStr s => VStr s | VF f => VF f | VN n => VN n | VZ z => VZ z | VTy t => VTy t
    end.
  Lemma map_hd {X Y} (f : X -> Y) d l : f (hd d l) = hd (f d) (map f l).
  Proof. destruct l; reflexivity. Qed.
  Lemma map_tl {X Y} (f : X -> Y) l : map f (tl l) = tl (map f l).
  Proof. destruct l; reflexivity. Qed.

  Lemma apply0_hom o : hVal (apply0 A o) = apply0 B o.
  Proof.
    destruct o; cbn;
      rewrite ?hom_LP_default, ?hom_G_default, ?hom_C_default, ?hom_U_default, ?hom_Q_default, ?hom_S_default,
        ?hom_B_default, ?hom_H_default, ?hom_M_default, ?hom_MF_default; reflexivity.
  Qed.
  Lemma apply1_hom o v : hVal (apply1 A o v) = apply1 B o (hVal v).
  Proof.
    destruct o; destruct v; cbn; try reflexivity; f_equal;
      first [ apply (hom_LP_name _ _ h) | apply (hom_LP_value _ _ h) | apply (hom_G_value _ _ h) | apply (hom_C_value _ _ h)
            | apply (hom_U_value _ _ h) | apply (hom_Q_quantile _ _ h) | apply (hom_Q_value _ _ h)
            | apply (hom_S_sample_count _ _ h) | apply (hom_S_sample_sum _ _ h) | apply (hom_S_get_quantile _ _ h)
            | apply (hom_B_cumulative_count _ _ h) | apply (hom_B_upper_bound _ _ h)
            | apply (hom_H_get_sample_count _ _ h) | apply (hom_H_get_sample_sum _ _ h) | apply (hom_H_get_bucket _ _ h)
            | apply (hom_M_from_label _ _ h) | apply (hom_M_from_gauge _ _ h)
            | apply (hom_M_take_label_fst _ _ h) | apply (hom_M_take_label_snd _ _ h) | apply (hom_M_get_label _ _ h)
            | apply (hom_M_get_gauge _ _ h) | apply (hom_M_get_counter _ _ h) | apply (hom_M_get_summary _ _ h)
            | apply (hom_M_get_untyped _ _ h) | apply (hom_M_get_histogram _ _ h) | apply (hom_M_timestamp_ms _ _ h)
            | apply (hom_MF_name _ _ h) | apply (hom_MF_help _ _ h) | apply (hom_MF_get_field_type _ _ h)
            | apply (hom_MF_get_metric _ _ h) | apply (hom_MF_take_metric_fst _ _ h) | apply (hom_MF_take_metric_snd _ _ h)
            | (rewrite (map_hd (hLP h)), (hom_LP_default _ _ h); reflexivity)
            | (rewrite (map_hd (hQ h)), (hom_Q_default _ _ h); reflexivity)
            | (rewrite (map_hd (hB h)), (hom_B_default _ _ h); reflexivity)
            | (rewrite (map_hd (hM h)), (hom_M_default _ _ h); reflexivity)
            | apply map_tl | apply (sorted_pairs_hom h) | apply (sort_metrics_hom h)
            | (rewrite map_length; reflexivity) ].
  Qed.
  Lemma apply2_hom o v w : hVal (apply2 A o v w) = apply2 B o (hVal v) (hVal w).
  Proof.
    destruct o; destruct v; cbn; try reflexivity; destruct w; cbn; try reflexivity; f_equal;
      first [ apply (hom_LP_set_name _ _ h) | apply (hom_LP_set_value _ _ h) | apply (hom_G_set_value _ _ h)
            | apply (hom_C_set_value _ _ h) | apply (hom_U_set_value _ _ h) | apply (hom_Q_set_quantile _ _ h)
            | apply (hom_Q_set_value _ _ h) | apply (hom_S_set_sample_count _ _ h) | apply (hom_S_set_sample_sum _ _ h)
            | apply (hom_S_set_quantile _ _ h) | apply (hom_B_set_cumulative_count _ _ h) | apply (hom_B_set_upper_bound _ _ h)
            | apply (hom_H_set_sample_count _ _ h) | apply (hom_H_set_sample_sum _ _ h) | apply (hom_H_set_bucket _ _ h)
            | apply (hom_M_set_label _ _ h) | apply (hom_M_set_gauge _ _ h) | apply (hom_M_set_counter _ _ h)
            | apply (hom_M_set_summary _ _ h) | apply (hom_M_set_untyped _ _ h) | apply (hom_M_set_histogram _ _ h)
            | apply (hom_M_set_timestamp_ms _ _ h) | apply (hom_MF_set_name _ _ h) | apply (hom_MF_set_help _ _ h)
            | apply (hom_MF_set_field_type _ _ h) | apply (hom_MF_set_metric _ _ h)
            | (apply (hom_MF_mut_metric _ _ h); intros; reflexivity)
            | apply map_app ].
  Qed.
  Lemma reg_hom s i : hVal (reg A s i) = reg B (map hVal s) i.
  Proof. unfold reg. change (VStr []) with (hVal (VStr [])) at 2. symmetry. apply map_nth. Qed.
  Lemma exec_hom s i : map hVal (exec A s i) = exec B (map hVal s) i.
  Proof.
    unfold exec. rewrite map_app. f_equal. cbn. f_equal.
    destruct i; [apply apply0_hom|rewrite apply1_hom, reg_hom; reflexivity|rewrite apply2_hom, !reg_hom; reflexivity].
  Qed.
  Theorem run_prog_hom p : map hVal (run_prog A p) = run_prog B p.
  Proof.
    unfold run_prog. change (@nil (val B)) with (map hVal []).
    generalize (@nil (val A)) as s. induction p as [|i r IH]; intros s; cbn; [reflexivity|].
    rewrite IH, exec_hom. reflexivity.
  Qed.
  Lemma scalar_of_hom v : scalar_of B (hVal v) = scalar_of A v.
  Proof. destruct v; reflexivity. Qed.
  (* every scalar a program computes is the same in both instances *)
  Theorem run_prog_scalars p : map (scalar_of A) (run_prog A p) = map (scalar_of B) (run_prog B p).
  Proof. rewrite <- run_prog_hom, map_map. apply map_ext_eq. intros v. symmetry. apply scalar_of_hom. Qed.
End ProgHom.
