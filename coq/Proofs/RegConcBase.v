(* C06, concurrent part, 1: the lock invariant and the table invariant of Model/RegConc.v, for every reachable
   state, any number of threads, any schedule.
     LockInv  the lock word agrees with the ghost holders; a writer excludes everybody else;
     TabInv   the ghost sequential registry IS the concrete tables; a registration that has CHECKED but not yet
              COMMITTED holds the verdict of the tables as they are NOW (nobody changed them in between: that is what
              the write lock buys); a gather holds the view of the tables as they are now. *)
Require Import PV.Base.Prelude PV.Base.F64.
Require Import PV.Model.Proto PV.Model.Desc PV.Model.Value PV.Model.Registry PV.Model.Conc PV.Model.RegConc.
From Coq Require Import Arith Lia.
Open Scope N_scope.

(* ------------------------------------------------------------------ small list facts *)
Lemma qremove_tid_In t u l : In u (qremove_tid t l) -> In u l.
Proof.
  induction l as [|x l IH]; cbn; auto. destruct (Nat.eqb x t); cbn; [auto | intros [H|H]; auto].
Qed.
Lemma qremove_tid_NoDup t l : NoDup l -> NoDup (qremove_tid t l).
Proof.
  induction l as [|x l IH]; cbn; auto. intros ND; inversion ND; subst.
  destruct (Nat.eqb x t); auto. constructor; auto. intros H; apply H1. eapply qremove_tid_In; eauto.
Qed.
Lemma qremove_tid_spec t l : NoDup l -> forall u, In u (qremove_tid t l) <-> In u l /\ u <> t.
Proof.
  induction l as [|x l IH]; cbn; [tauto|]. intros ND u; inversion ND; subst.
  destruct (Nat.eqb x t) eqn:E.
  - apply Nat.eqb_eq in E; subst. split; [intros H; split; auto; intros ->; auto | intros [[H|H] N]; congruence].
  - apply Nat.eqb_neq in E. cbn. rewrite IH; auto. split; [intros [H|H]; [subst; auto | tauto] | tauto].
Qed.
Lemma qremove_tid_length t l : In t l -> length (qremove_tid t l) = pred (length l).
Proof.
  induction l as [|x l IH]; cbn; [tauto|]. destruct (Nat.eqb x t) eqn:E; auto.
  apply Nat.eqb_neq in E. intros [H|H]; [congruence|]. cbn. rewrite IH; auto. destruct l; [destruct H | auto].
Qed.

(* ------------------------------------------------------------------ inverting a step *)
Ltac qinv_step H :=
  unfold qstep0 in H; cbv zeta in H;
  repeat match type of H with
         | match ?x with _ => _ end = Some _ => let E := fresh "E" in destruct x eqn:E; try discriminate H
         | (if ?b then _ else _) = Some _ => let E := fresh "E" in destruct b eqn:E; try discriminate H
         end;
  inversion H; subst; clear H.

Ltac qboolp :=
  repeat match goal with
         | H : _ && _ = true |- _ => apply andb_true_iff in H; destruct H
         | H : _ || _ = false |- _ => apply orb_false_iff in H; destruct H
         | H : negb _ = false |- _ => apply negb_false_iff in H
         | H : negb _ = true |- _ => apply negb_true_iff in H
         | H : Nat.eqb _ _ = true |- _ => apply Nat.eqb_eq in H
         | H : Nat.eqb _ _ = false |- _ => apply Nat.eqb_neq in H
         | H : N.eqb _ _ = true |- _ => apply N.eqb_eq in H
         | H : N.eqb _ _ = false |- _ => apply N.eqb_neq in H
         end.

Lemma qupd_same {A} (f : nat -> A) t x : qupd f t x t = x.
Proof. unfold qupd. rewrite Nat.eqb_refl; auto. Qed.
Lemma qupd_other {A} (f : nat -> A) t x u : u <> t -> qupd f t x u = f u.
Proof. unfold qupd. intros N. apply Nat.eqb_neq in N. rewrite N; auto. Qed.
Lemma qupd_cases {A} (f : nat -> A) t x (P : A -> Prop) : P x -> (forall u, u <> t -> P (f u)) -> forall u, P (qupd f t x u).
Proof.
  intros Hx Hf u. unfold qupd. destruct (Nat.eqb u t) eqn:E; auto. apply Nat.eqb_neq in E; auto.
Qed.

(* ------------------------------------------------------------------ the lock invariant *)
Record QLockInv (s : qstate) : Prop := {
  QL_rd : q_rd s = length (qg_rh s);
  QL_nd : NoDup (qg_rh s);
  QL_rh : forall t, In t (qg_rh s) <-> q_holds_read (q_pc s t) = true;
  QL_wh : forall t, qg_wh s = Some t <-> q_holds_write (q_pc s t) = true;
  QL_wr : q_wr s = match qg_wh s with Some _ => true | None => false end;
  QL_ex : qg_wh s <> None -> qg_rh s = [] }.

Lemma qlock_init ct : QLockInv (qstate0 ct).
Proof.
  constructor; cbn; auto.
  - constructor.
  - intros; split; [tauto | discriminate].
  - intros; split; discriminate.
Qed.

Lemma qlock_same s s' t p :
  QLockInv s ->
  q_rd s' = q_rd s -> q_wr s' = q_wr s -> qg_rh s' = qg_rh s -> qg_wh s' = qg_wh s -> q_pc s' = qupd (q_pc s) t p ->
  q_holds_read p = q_holds_read (q_pc s t) -> q_holds_write p = q_holds_write (q_pc s t) -> QLockInv s'.
Proof.
  intros [] E1 E2 E3 E4 E5 Hr Hw. constructor; rewrite ?E1, ?E2, ?E3, ?E4, ?E5; auto.
  - intros u. unfold qupd. destruct (Nat.eqb u t) eqn:E; [apply Nat.eqb_eq in E; subst; rewrite Hr|]; auto.
  - intros u. unfold qupd. destruct (Nat.eqb u t) eqn:E; [apply Nat.eqb_eq in E; subst; rewrite Hw|]; auto.
Qed.
Lemma qlock_unchanged s : QLockInv s -> forall s', q_rd s' = q_rd s -> q_wr s' = q_wr s -> qg_rh s' = qg_rh s -> qg_wh s' = qg_wh s ->
  q_pc s' = q_pc s -> QLockInv s'.
Proof. intros [] s' E1 E2 E3 E4 E5. constructor; rewrite ?E1, ?E2, ?E3, ?E4, ?E5; auto. Qed.

Lemma q_no_writer s : QLockInv s -> q_wr s = false -> qg_wh s = None.
Proof. intros [] E. rewrite QL_wr0 in E. destruct (qg_wh s); [discriminate | auto]. Qed.
Lemma q_no_reader s : QLockInv s -> q_rd s = 0%nat -> qg_rh s = [].
Proof. intros [] E. rewrite QL_rd0 in E. destruct (qg_rh s); [auto | discriminate]. Qed.

Lemma qlock_acq_read s s' t p :
  QLockInv s -> q_pc s' = qupd (q_pc s) t p -> q_wr s = false ->
  q_holds_read (q_pc s t) = false -> q_holds_read p = true -> q_holds_write p = false ->
  q_rd s' = S (q_rd s) -> q_wr s' = false -> qg_rh s' = t :: qg_rh s -> qg_wh s' = qg_wh s ->
  QLockInv s'.
Proof.
  intros I E5 W R0 R1 W1 E1 E2 E3 E4. pose proof (q_no_writer s I W) as Hnw. destruct I as [I1 I2 I3 I4 I5 I6].
  constructor; rewrite ?E1, ?E2, ?E3, ?E4, ?E5, ?Hnw; cbn [length]; auto.
  - constructor; auto. rewrite I3, R0. discriminate.
  - intros u. unfold qupd. destruct (Nat.eqb u t) eqn:Eu.
    + apply Nat.eqb_eq in Eu; subst. cbn. rewrite R1. tauto.
    + apply Nat.eqb_neq in Eu. cbn. rewrite <- I3. split; [intros [H|H]; [congruence | auto] | auto].
  - intros u. unfold qupd. destruct (Nat.eqb u t) eqn:Eu.
    + rewrite W1. split; discriminate.
    + rewrite <- I4, Hnw. tauto.
  - congruence.
Qed.

Lemma qlock_acq_write s s' t p :
  QLockInv s -> q_pc s' = qupd (q_pc s) t p -> q_wr s = false -> q_rd s = 0%nat ->
  q_holds_read p = false -> q_holds_write p = true ->
  q_rd s' = 0%nat -> q_wr s' = true -> qg_rh s' = qg_rh s -> qg_wh s' = Some t ->
  QLockInv s'.
Proof.
  intros I E5 W R R1 W1 E1 E2 E3 E4. pose proof (q_no_writer s I W) as Hnw. pose proof (q_no_reader s I R) as Hnr.
  destruct I as [I1 I2 I3 I4 I5 I6].
  constructor; rewrite ?E1, ?E2, ?E3, ?E4, ?E5, ?Hnr; cbn [length]; auto.
  - constructor.
  - intros u. unfold qupd. destruct (Nat.eqb u t) eqn:Eu.
    + rewrite R1. cbn. split; [tauto | discriminate].
    + rewrite <- I3, Hnr. tauto.
  - intros u. unfold qupd. destruct (Nat.eqb u t) eqn:Eu.
    + apply Nat.eqb_eq in Eu; subst. rewrite W1. tauto.
    + apply Nat.eqb_neq in Eu. rewrite <- I4, Hnw. split; [intros H; inversion H; congruence | discriminate].
Qed.

Lemma qlock_rel_read s s' t p :
  QLockInv s -> q_pc s' = qupd (q_pc s) t p -> q_holds_read (q_pc s t) = true -> q_holds_read p = false -> q_holds_write p = false ->
  q_rd s' = pred (q_rd s) -> q_wr s' = q_wr s -> qg_rh s' = qremove_tid t (qg_rh s) -> qg_wh s' = qg_wh s ->
  QLockInv s'.
Proof.
  intros I E5 R0 R1 W1 E1 E2 E3 E4. destruct I as [I1 I2 I3 I4 I5 I6].
  assert (Hin : In t (qg_rh s)) by (apply I3; auto).
  assert (Hnw : qg_wh s = None).
  { destruct (qg_wh s) eqn:E; auto. rewrite I6 in Hin; [destruct Hin | discriminate]. }
  constructor; rewrite ?E1, ?E2, ?E3, ?E4, ?E5; auto.
  - rewrite qremove_tid_length, I1; auto.
  - apply qremove_tid_NoDup; auto.
  - intros u. rewrite qremove_tid_spec by auto. unfold qupd. destruct (Nat.eqb u t) eqn:Eu.
    + apply Nat.eqb_eq in Eu; subst. rewrite R1. split; [tauto | discriminate].
    + apply Nat.eqb_neq in Eu. rewrite <- I3. tauto.
  - intros u. unfold qupd. destruct (Nat.eqb u t) eqn:Eu.
    + rewrite W1, Hnw. split; discriminate.
    + apply I4.
  - rewrite Hnw. tauto.
Qed.

Lemma qlock_rel_write s s' t p :
  QLockInv s -> q_pc s' = qupd (q_pc s) t p -> q_holds_write (q_pc s t) = true -> q_holds_read p = false -> q_holds_write p = false ->
  q_rd s' = q_rd s -> q_wr s' = false -> qg_rh s' = qg_rh s -> qg_wh s' = None ->
  QLockInv s'.
Proof.
  intros I E5 W0 R1 W1 E1 E2 E3 E4. destruct I as [I1 I2 I3 I4 I5 I6].
  assert (Hw : qg_wh s = Some t) by (apply I4; auto).
  assert (Hnr : qg_rh s = []) by (apply I6; congruence).
  constructor; rewrite ?E1, ?E2, ?E3, ?E4, ?E5; auto.
  - intros u. unfold qupd. destruct (Nat.eqb u t) eqn:Eu.
    + rewrite R1, Hnr. cbn. split; [tauto | discriminate].
    + apply I3.
  - intros u. unfold qupd. destruct (Nat.eqb u t) eqn:Eu.
    + rewrite W1. split; discriminate.
    + apply Nat.eqb_neq in Eu. rewrite <- I4, Hw. split; [discriminate | intros H; inversion H; congruence].
Qed.

Ltac qproj := cbn [q_ct q_rd q_wr q_tab q_pc qg_rh qg_wh qg_abs qg_lin qg_open qg_done qg_now
                   qset_pc qset_lock qset_tab qlin qset_open qadd_done qtick].
Ltac qpcrw := match goal with E : q_pc _ _ = _ |- _ => rewrite E; reflexivity end.

Lemma qlock_step0 s l s' : QLockInv s -> qstep0 s l = Some s' -> QLockInv s'.
Proof.
  intros I H. qinv_step H; qboolp.
  all: try solve [exact I].
  all: repeat match goal with |- context [match ?v with Ok _ => _ | Err _ => _ end] => destruct v end.
  all: try solve [eapply qlock_same; [exact I | reflexivity | reflexivity | reflexivity | reflexivity | reflexivity | qpcrw | qpcrw]].
  all: try solve [eapply qlock_acq_read; [exact I | reflexivity | assumption | qpcrw | reflexivity | reflexivity | reflexivity | reflexivity | reflexivity | reflexivity]].
  all: try solve [eapply qlock_acq_write; [exact I | reflexivity | assumption | assumption | reflexivity | reflexivity | reflexivity | reflexivity | reflexivity | reflexivity]].
  all: try solve [eapply qlock_rel_read; [exact I | reflexivity | qpcrw | reflexivity | reflexivity | reflexivity | reflexivity | reflexivity | reflexivity]].
  all: try solve [eapply qlock_rel_write; [exact I | reflexivity | qpcrw | reflexivity | reflexivity | reflexivity | reflexivity | reflexivity | reflexivity]].
Qed.

Lemma qlock_step s l s' : QLockInv s -> qstep s l = Some s' -> QLockInv s'.
Proof.
  unfold qstep. intros I H. destruct (qstep0 s l) eqn:E; [|discriminate]. inversion H; subst.
  eapply qlock_unchanged; [eapply qlock_step0; eauto | ..]; reflexivity.
Qed.

(* a writer excludes everybody else *)
Lemma q_excl_w s t u : QLockInv s -> q_holds_write (q_pc s t) = true -> u <> t ->
  q_holds_write (q_pc s u) = false /\ q_holds_read (q_pc s u) = false.
Proof.
  intros [] W Hn. assert (Hw : qg_wh s = Some t) by (apply QL_wh0; auto). split.
  - destruct (q_holds_write (q_pc s u)) eqn:E; auto. apply QL_wh0 in E. congruence.
  - destruct (q_holds_read (q_pc s u)) eqn:E; auto. apply QL_rh0 in E. rewrite QL_ex0 in E; [destruct E | congruence].
Qed.

(* ------------------------------------------------------------------ the table invariant *)
Definition pc_tab (ct : ctable) (tb : table) (p : qpc) : Prop :=
  match p with
  | QReg3 i v => v = reg_register tb (descs_of ct i) i
  | QGa3 view _ => view = gather_view ct tb
  | _ => True
  end.

Record QTabInv (s : qstate) : Prop := {
  QT_abs : qg_abs s = q_tab s;
  QT_pc : forall t, pc_tab (q_ct s) (q_tab s) (q_pc s t) }.

Lemma qtab_init ct : QTabInv (qstate0 ct).
Proof. constructor; cbn; auto. Qed.

(* steps that leave the tables and the abstract registry alone *)
Lemma qtab_frame s s' t p :
  QTabInv s -> q_ct s' = q_ct s -> q_tab s' = q_tab s -> qg_abs s' = qg_abs s ->
  q_pc s' = qupd (q_pc s) t p -> pc_tab (q_ct s) (q_tab s) p -> QTabInv s'.
Proof.
  intros [] E1 E2 E3 E4 Hp. constructor; rewrite ?E1, ?E2, ?E3, ?E4; auto.
  intros u. unfold qupd. destruct (Nat.eqb u t); auto.
Qed.
Lemma qtab_unchanged s s' :
  QTabInv s -> q_ct s' = q_ct s -> q_tab s' = q_tab s -> qg_abs s' = qg_abs s -> q_pc s' = q_pc s -> QTabInv s'.
Proof. intros [] E1 E2 E3 E4. constructor; rewrite ?E1, ?E2, ?E3, ?E4; auto. Qed.

(* a step of the writer: nobody else is inside a critical section, so nobody else's program counter speaks about the tables *)
Lemma q_others_pc_tab s t ct' tb' :
  QLockInv s -> q_holds_write (q_pc s t) = true -> forall u, u <> t -> pc_tab ct' tb' (q_pc s u).
Proof.
  intros LI W u Hn. destruct (q_excl_w s t u LI W Hn) as [Hw Hr].
  destruct (q_pc s u); cbn in *; auto; discriminate.
Qed.

(* a writer's effect: tables and abstract registry move together *)
Lemma qtab_write s s' t p :
  QLockInv s -> QTabInv s -> q_holds_write (q_pc s t) = true ->
  q_ct s' = q_ct s -> qg_abs s' = q_tab s' -> q_pc s' = qupd (q_pc s) t p -> pc_tab (q_ct s) (q_tab s') p -> QTabInv s'.
Proof.
  intros LI TI W E1 E2 E3 Hp. constructor; rewrite ?E1, ?E3; auto.
  apply qupd_cases; auto. intros u Hu. eapply q_others_pc_tab; eauto.
Qed.

Lemma qtab_step0 s l s' : QLockInv s -> QTabInv s -> qstep0 s l = Some s' -> QTabInv s'.
Proof.
  intros LI TI H. qinv_step H; qboolp.
  all: try solve [exact TI].
  (* no table access *)
  all: try solve [eapply qtab_frame; [exact TI | reflexivity | reflexivity | reflexivity | reflexivity | exact I]].
  all: try (match goal with E : q_pc ?s ?t = _ |- _ => pose proof (QT_pc s TI t) as Hpc; rewrite E in Hpc; cbn [pc_tab] in Hpc end).
  all: try solve [eapply qtab_frame; [exact TI | reflexivity | reflexivity | reflexivity | reflexivity | exact Hpc]].
  - (* register: the check *)
    eapply qtab_frame; [exact TI | reflexivity | reflexivity | reflexivity | reflexivity | reflexivity].
  - (* register: the commit *)
    assert (W : q_holds_write (q_pc s t) = true) by qpcrw.
    subst v. destruct (reg_register (q_tab s) (descs_of (q_ct s) i) i) as [tb|e] eqn:Ev.
    + eapply qtab_write with (t := t); [exact LI | exact TI | exact W | reflexivity | | reflexivity | exact I].
      qproj. cbn [qspec fst]. rewrite (QT_abs s TI), Ev. reflexivity.
    + eapply qtab_write with (t := t); [exact LI | exact TI | exact W | reflexivity | | reflexivity | exact I].
      qproj. cbn [qspec fst]. rewrite (QT_abs s TI), Ev. reflexivity.
  - (* unregister *)
    assert (W : q_holds_write (q_pc s t) = true) by qpcrw.
    destruct (reg_unregister (q_tab s) (descs_of (q_ct s) i)) as [tb|e] eqn:Ev.
    + eapply qtab_write with (t := t); [exact LI | exact TI | exact W | reflexivity | | reflexivity | exact I].
      qproj. cbn [qspec fst]. rewrite (QT_abs s TI), Ev. reflexivity.
    + eapply qtab_write with (t := t); [exact LI | exact TI | exact W | reflexivity | | reflexivity | exact I].
      qproj. cbn [qspec fst]. rewrite (QT_abs s TI), Ev. reflexivity.
  - (* gather: the read *)
    eapply qtab_frame; [exact TI | reflexivity | reflexivity | reflexivity | reflexivity | reflexivity].
Qed.

Lemma qtab_step s l s' : QLockInv s -> QTabInv s -> qstep s l = Some s' -> QTabInv s'.
Proof.
  unfold qstep. intros LI TI H. destruct (qstep0 s l) eqn:E; [|discriminate]. inversion H; subst.
  eapply qtab_unchanged; [eapply qtab_step0; eauto | ..]; reflexivity.
Qed.

(* ------------------------------------------------------------------ reachability *)
Inductive qreach (ct : ctable) : list qlabel -> qstate -> Prop :=
| qreach_nil : qreach ct [] (qstate0 ct)
| qreach_snoc tr s l s' : qreach ct tr s -> qstep s l = Some s' -> qreach ct (tr ++ [l]) s'.

Lemma qrun_reach_gen ct pre s tr s' : qreach ct pre s -> qrun s tr = Some s' -> qreach ct (pre ++ tr) s'.
Proof.
  revert pre s. induction tr as [|l tr IH]; intros pre s R H; cbn in H.
  - inversion H; subst. rewrite app_nil_r; auto.
  - destruct (qstep s l) eqn:E; [|discriminate]. replace (pre ++ l :: tr) with ((pre ++ [l]) ++ tr) by (rewrite <- app_assoc; auto).
    eapply IH; eauto. econstructor; eauto.
Qed.
Lemma qrun_reach ct tr s : qrun (qstate0 ct) tr = Some s -> qreach ct tr s.
Proof. intros H. apply (qrun_reach_gen ct [] (qstate0 ct) tr s); [constructor | auto]. Qed.
Lemma qreach_run ct tr s : qreach ct tr s -> qrun (qstate0 ct) tr = Some s.
Proof.
  assert (G : forall s0 tr1 s1 l s2, qrun s0 tr1 = Some s1 -> qstep s1 l = Some s2 -> qrun s0 (tr1 ++ [l]) = Some s2).
  { intros s0 tr1; revert s0; induction tr1 as [|x tr1 IH]; intros s0 s1 l s2 H1 H2; cbn in *.
    - inversion H1; subst. rewrite H2; auto.
    - destruct (qstep s0 x); [eauto | discriminate]. }
  induction 1; cbn; eauto.
Qed.

Lemma qreach_lock ct tr s : qreach ct tr s -> QLockInv s.
Proof. induction 1; [apply qlock_init | eapply qlock_step; eauto]. Qed.
Lemma qreach_tab ct tr s : qreach ct tr s -> QTabInv s.
Proof. induction 1; [apply qtab_init | eapply qtab_step; eauto using qreach_lock]. Qed.
Lemma qstep0_ct s l s' : qstep0 s l = Some s' -> q_ct s' = q_ct s.
Proof. intros H. qinv_step H; try reflexivity; repeat match goal with |- context [match ?v with Ok _ => _ | Err _ => _ end] => destruct v end; reflexivity. Qed.
Lemma qreach_ct ct tr s : qreach ct tr s -> q_ct s = ct.
Proof.
  intros R; induction R as [|tr s l s' R IH Hs]; auto. unfold qstep in Hs. destruct (qstep0 s l) as [s0|] eqn:E; [|discriminate]. inversion Hs; subst s'.
  cbn [q_ct qtick]. rewrite <- IH. eapply qstep0_ct; eauto.
Qed.
