(* Proofs about Model/AtomicConc.v (C01 counters, C11 gauges).  Everything is proved for ALL traces accepted by the
   model from its initial state, i.e. for all interleavings, all programs (which call a thread makes next is part of
   the trace), all spurious failures and any number of threads.
     aexec_sound / aexec_complete   the executable step function and the step relation coincide
     phases_shape, lin_after_inv, res_after_lin, lin_real_time
                                    generic: in a well-formed history every linearisation point lies between the call's
                                    invocation and its response, hence real-time order is respected
     inv1_step                      invariant: cell = state of the sequential specification; per-thread protocol; the
                                    linearised calls replayed on the specification give the recorded return values
     inv2_step                      invariant: invoked = linearised + pending (nothing lost, nothing twice)
     linearizable, quiescent_complete, final_value, exactly_once, read_prefix, call_window, read_not_torn
     c01_final_sum_u64, c01_read_sum_u64, c01_monotone_u64, c01_monotone_f64, flush lemmas
     c11_sub_undoes_add_i64, c11_sub_is_add_neg_f64, c11_sub_undoes_add_f64_exact
   Assumptions: FloatAxioms (float flavour), and the classical / real-number axioms Flocq uses (only
   c01_monotone_f64 through F4 and c11_sub_undoes_add_f64_exact). *)
Require Import PV.Base.Prelude PV.Base.F64 PV.Model.Conc PV.Model.AtomicConc PV.Proofs.F64Facts.
From Coq Require Import Lia Permutation Floats Reals Lra.
From Flocq Require Import Core BinarySingleNaN PrimFloat.
Import ListNotations.
Open Scope N_scope.
Local Instance Hprec : FLX.Prec_gt_0 prec := eq_refl _.
Local Instance Hmax : Prec_lt_emax prec emax := eq_refl _.

Lemma akind_eqb_eq a b : akind_eqb a b = true -> a = b.
Proof. destruct a, b; cbn; congruence. Qed.

Section Gen.
Variable O : vops.

Lemma aexec_sound s e s' : aexec O s e = Some s' -> astep O s e s'.
Proof.
  destruct e as [t c|t r|t cl k o o2 before after ok|t cl lk aq|t cl lk|t|t| | | |]; cbn [aexec]; try discriminate.
  - destruct (thr s t) eqn:Ht; try discriminate.
    destruct (plan_of O c) as [p|] eqn:Hp; try discriminate.
    destruct p; intros H;
      try (inversion H; subst; eapply S_call; eauto; reflexivity).
    unfold linearise in H. destruct (spec_step O (g_abs s) c) as [[a r]|] eqn:Hs; inversion H; subst.
    eapply S_call_noop; eauto.
  - destruct (thr s t) eqn:Ht; try discriminate.
    destruct (retv_matches O r r0) eqn:Hr; try discriminate.
    intros H; inversion H; subst. eapply S_ret; eauto.
  - destruct (cl =? 0) eqn:Hc; cbn [negb]; try discriminate.
    apply N.eqb_eq in Hc; subst cl.
    destruct (same_bits O before (cell s)) eqn:Hb; cbn [negb]; try discriminate.
    destruct (thr s t) eqn:Ht; try discriminate.
    + destruct (plan_of O c) as [p|] eqn:Hp; try discriminate.
      assert (Hone : forall p0, p0 = p ->
                (match one_step O p0 (cell s) with
                 | Some (k1, v, mr) => if akind_eqb k k1 && same_bits O after v && ok then linearise O s t c v mr [] else None
                 | None => None end) = Some s' -> astep O s (EAt t 0 k o o2 before after ok) s').
      { intros p0 -> H. destruct (one_step O p (cell s)) as [[[k1 v] mr]|] eqn:H1; try discriminate.
        destruct (akind_eqb k k1) eqn:Hk; cbn [andb] in H; try discriminate.
        destruct (same_bits O after v) eqn:Ha; cbn [andb] in H; try discriminate.
        destruct ok; try discriminate.
        apply akind_eqb_eq in Hk; subst k1.
        unfold linearise in H. destruct (spec_step O (g_abs s) c) as [[a r]|] eqn:Hs; inversion H; subst.
        eapply S_atomic; eauto. }
      destruct p; try (apply Hone; reflexivity).
      intros H.
      destruct (akind_eqb k KLoad) eqn:Hk; cbn [andb] in H; try discriminate.
      destruct (same_bits O after (cell s)) eqn:Ha; cbn [andb] in H; try discriminate.
      destruct ok; try discriminate. apply akind_eqb_eq in Hk; subst k.
      inversion H; subst. eapply S_loop_load; eauto.
    + destruct (akind_eqb k KCasWeak) eqn:Hk; cbn [negb]; try discriminate.
      apply akind_eqb_eq in Hk; subst k.
      destruct ok.
      * destruct (veqb O (cell s) cur) eqn:Hv; cbn [andb]; try discriminate.
        destruct (same_bits O after (vadd O cur d)) eqn:Ha; try discriminate.
        unfold linearise. destruct (spec_step O (g_abs s) c) as [[a r]|] eqn:Hs; intros H; inversion H; subst.
        eapply S_cas_ok; eauto.
      * destruct (same_bits O after (cell s)) eqn:Ha; try discriminate.
        intros H; inversion H; subst. eapply S_cas_fail; eauto.
Qed.

Lemma one_step_not_loop p cur x : one_step O p cur = Some x -> match p with PLoop _ => False | _ => True end.
Proof. destruct p; cbn; auto; discriminate. Qed.

Lemma aexec_complete s e s' : astep O s e s' -> aexec O s e = Some s'.
Proof.
  intros H; destruct H; cbn [aexec].
  - rewrite H, H0. destruct p; try reflexivity; discriminate.
  - rewrite H, H0. unfold linearise. now rewrite H1.
  - rewrite N.eqb_refl. cbn [negb]. rewrite H2. cbn [negb]. rewrite H, H0.
    destruct p; cbn in H1; try discriminate; inversion H1; subst; cbn [one_step akind_eqb andb];
      rewrite H3; cbn [andb]; unfold linearise; rewrite H4; reflexivity.
  - rewrite N.eqb_refl. cbn [negb]. rewrite H1. cbn [negb]. rewrite H, H0. cbn [akind_eqb andb]. rewrite H2. reflexivity.
  - rewrite N.eqb_refl. cbn [negb]. rewrite H1. cbn [negb]. rewrite H. cbn [akind_eqb negb]. rewrite H0, H2. cbn [andb].
    unfold linearise. now rewrite H3.
  - rewrite N.eqb_refl. cbn [negb]. rewrite H0. cbn [negb]. rewrite H. cbn [akind_eqb negb]. now rewrite H1.
  - rewrite H, H0. reflexivity.
Qed.

Lemma arun_sound es : forall s s', arun O s es = Some s' -> asteps O s es s'.
Proof.
  induction es as [|e es IH]; cbn; intros s s' H.
  - inversion H; constructor.
  - destruct (aexec O s e) as [s1|] eqn:E; try discriminate. econstructor; eauto using aexec_sound.
Qed.
Lemma arun_complete es : forall s s', asteps O s es s' -> arun O s es = Some s'.
Proof. induction 1; cbn; auto. now rewrite (aexec_complete _ _ _ H). Qed.

Lemma validate_arun es : forall s i, match validate (aexec O) s i es with (None, s') => arun O s es = Some s' | (Some _, _) => arun O s es = None end.
Proof.
  induction es as [|e es IH]; cbn; intros s i; auto.
  destruct (aexec O s e) as [s1|]; auto. apply IH.
Qed.
End Gen.
Open Scope nat_scope.

(* ------------------------------------------------------------------ counting lemmas *)
Section Count.
Context {A : Type} (p : A -> bool).
Lemma count_app a b : count p (a ++ b) = count p a + count p b.
Proof. unfold count. now rewrite filter_app, app_length. Qed.
Lemma count_one m : count p [m] = if p m then 1 else 0.
Proof. unfold count; cbn. now destruct (p m). Qed.
End Count.

Lemma kth_lt p h k i : kth p h k i -> i < length h.
Proof. intros [[m [H _]] _]. apply nth_error_Some. congruence. Qed.

Lemma kth_app_l p a b k i : kth p a k i -> kth p (a ++ b) k i.
Proof.
  intros H. pose proof (kth_lt _ _ _ _ H) as Hl. destruct H as [[m [H1 H2]] H3]. split.
  - exists m. split; auto. rewrite nth_error_app1; auto.
  - rewrite firstn_app. replace (i - length a) with 0 by lia. cbn. now rewrite app_nil_r.
Qed.
Lemma kth_app_inv p a b k i : i < length a -> kth p (a ++ b) k i -> kth p a k i.
Proof.
  intros Hl [[m [H1 H2]] H3]. split.
  - exists m. split; auto. rewrite nth_error_app1 in H1; auto.
  - rewrite firstn_app in H3. replace (i - length a) with 0 in H3 by lia. cbn in H3. now rewrite app_nil_r in H3.
Qed.
Lemma kth_snoc_new p a m : p m = true -> kth p (a ++ [m]) (count p a) (length a).
Proof.
  intros H. split.
  - exists m. split; auto. rewrite nth_error_app2 by lia. now rewrite Nat.sub_diag.
  - rewrite firstn_app, Nat.sub_diag, firstn_all. cbn. now rewrite app_nil_r.
Qed.
Lemma kth_snoc_inv p a m k i : kth p (a ++ [m]) k i -> (i < length a /\ kth p a k i) \/ (i = length a /\ k = count p a /\ p m = true).
Proof.
  intros H. pose proof (kth_lt _ _ _ _ H) as Hl. rewrite app_length in Hl. cbn in Hl.
  destruct (Nat.eq_dec i (length a)) as [->|Hn].
  - right. destruct H as [[m' [H1 H2]] H3]. rewrite nth_error_app2 in H1 by lia. rewrite Nat.sub_diag in H1. cbn in H1.
    inversion H1; subst m'. rewrite firstn_app, Nat.sub_diag, firstn_all in H3. cbn in H3. rewrite app_nil_r in H3. auto.
  - left. split; [lia|]. apply kth_app_inv in H; auto. lia.
Qed.

Lemma count_firstn_mono {A} (p : A -> bool) h : forall i j, i <= j -> count p (firstn i h) <= count p (firstn j h).
Proof.
  induction h as [|x h IH]; intros i j Hij.
  - rewrite !firstn_nil. lia.
  - destruct i as [|i]; [cbn; lia|]. destruct j as [|j]; [lia|]. cbn [firstn].
    change (x :: firstn i h) with ([x] ++ firstn i h). change (x :: firstn j h) with ([x] ++ firstn j h).
    rewrite !count_app. specialize (IH i j). lia.
Qed.
Lemma kth_unique p h k i j : kth p h k i -> kth p h k j -> i = j.
Proof.
  assert (W : forall i j, i < j -> kth p h k i -> kth p h k j -> False).
  { clear i j. intros i j Hij [[m [H1 H2]] H3] [_ H4].
    assert (count p (firstn (S i) h) <= count p (firstn j h)) by (apply count_firstn_mono; lia).
    assert (E : firstn (S i) h = firstn i h ++ [m]).
    { clear - H1. revert h H1. induction i as [|i IH]; intros [|x h] H1; cbn in *; try discriminate.
      - now inversion H1.
      - f_equal. now apply IH. }
    rewrite E, count_app, count_one, H2 in H. lia. }
  intros Hi Hj. destruct (Nat.lt_trichotomy i j) as [L|[E|L]]; auto; exfalso; eauto.
Qed.

(* ------------------------------------------------------------------ shape of well-formed histories *)
Lemma call_eqb_eq a b : call_eqb a b = true -> a = b.
Proof. destruct a, b; cbn; try discriminate; auto; intros H; apply N.eqb_eq in H; now subst. Qed.
Lemma retv_eqb_eq a b : retv_eqb a b = true -> a = b.
Proof. destruct a, b; cbn; try discriminate; auto; intros H; apply N.eqb_eq in H; now subst. Qed.
Lemma call_eqb_refl a : (match a with CInc | CDec | CAdd _ | CSub _ | CSet _ | CGet | CReset | CFlush _ => True | _ => False end) -> call_eqb a a = true.
Proof. destruct a; cbn; auto; try contradiction; intros _; apply N.eqb_refl. Qed.

Lemma phases_app h1 : forall ph h2, phases ph (h1 ++ h2) = match phases ph h1 with Some p1 => phases p1 h2 | None => None end.
Proof. induction h1 as [|m h1 IH]; cbn; intros; auto. destruct (phase_step ph m); auto. Qed.
Lemma phases_snoc h m ph : phases ph (h ++ [m]) = match phases ph h with Some p1 => phase_step p1 m | None => None end.
Proof. rewrite phases_app. destruct (phases ph h) as [p1|]; auto. cbn. now destruct (phase_step p1 m). Qed.

Definition idle0 : nat -> phase := fun _ => PIdle.

Definition cI t h := count (is_inv t) h.
Definition cL t h := count (is_lin t) h.
Definition cR t h := count (is_res t) h.

(* what the phase of thread t says about the history so far *)
Definition phase_inv (h : list mark) (t : nat) (p : phase) : Prop :=
  match p with
  | PIdle => cI t h = cL t h /\ cL t h = cR t h
  | PInv c => cI t h = S (cL t h) /\ cL t h = cR t h /\
              exists i, at_inv h t (cL t h) i /\ nth_error h i = Some (MInv t c)
  | PLin c x => cI t h = cL t h /\ cL t h = S (cR t h) /\
              (exists i, at_inv h t (cR t h) i /\ nth_error h i = Some (MInv t c)) /\
              (exists l, at_lin h t (cR t h) l /\ nth_error h l = Some (MLin t c x))
  end.
(* every linearisation mark has its invocation before it, every response its linearisation (same call, same value) *)
Definition hist_facts (h : list mark) : Prop :=
  (forall t k l c x, at_lin h t k l -> nth_error h l = Some (MLin t c x) ->
      exists i, i < l /\ at_inv h t k i /\ nth_error h i = Some (MInv t c)) /\
  (forall t k r c x, at_res h t k r -> nth_error h r = Some (MRes t c x) ->
      exists l, l < r /\ at_lin h t k l /\ nth_error h l = Some (MLin t c x)).

Lemma upd_same {A} (f : nat -> A) t x : upd f t x t = x.
Proof. unfold upd. now rewrite Nat.eqb_refl. Qed.
Lemma upd_other {A} (f : nat -> A) t u x : u <> t -> upd f t x u = f u.
Proof. unfold upd. intros H. apply Nat.eqb_neq in H. now rewrite H. Qed.

Lemma nth_error_snoc_old {A} (a : list A) m i : i < length a -> nth_error (a ++ [m]) i = nth_error a i.
Proof. intros; now rewrite nth_error_app1. Qed.

Lemma phases_shape h : forall ph, phases idle0 h = Some ph -> (forall t, phase_inv h t (ph t)) /\ hist_facts h.
Proof.
  induction h as [|m h IH] using rev_ind; intros ph H.
  - cbn in H. inversion H; subst. split.
    + intros t. cbn. unfold cI, cL, cR, count; cbn; auto.
    + split; intros t k l c x [[m [E _]] _]; destruct l; discriminate.
  - rewrite phases_snoc in H. destruct (phases idle0 h) as [p1|] eqn:E1; try discriminate.
    destruct (IH _ eq_refl) as [J [Ga Gb]]. clear IH.
    assert (lift_inv : forall t k i mm, at_inv h t k i -> nth_error h i = Some mm ->
                                      at_inv (h ++ [m]) t k i /\ nth_error (h ++ [m]) i = Some mm).
    { intros t k i mm Hk Hn. split; [now apply kth_app_l|]. rewrite nth_error_snoc_old; auto. eapply kth_lt; eauto. }
    assert (lift_lin : forall t k i mm, at_lin h t k i -> nth_error h i = Some mm ->
                                      at_lin (h ++ [m]) t k i /\ nth_error (h ++ [m]) i = Some mm).
    { intros t k i mm Hk Hn. split; [now apply kth_app_l|]. rewrite nth_error_snoc_old; auto. eapply kth_lt; eauto. }
    (* facts about old marks are inherited *)
    assert (Ga' : forall t k l c x, l < length h -> at_lin (h ++ [m]) t k l -> nth_error (h ++ [m]) l = Some (MLin t c x) ->
                  exists i, i < l /\ at_inv (h ++ [m]) t k i /\ nth_error (h ++ [m]) i = Some (MInv t c)).
    { intros t k l c x Hl Hk Hn. apply kth_app_inv in Hk; auto. rewrite nth_error_snoc_old in Hn; auto.
      destruct (Ga _ _ _ _ _ Hk Hn) as [i [Hi [Hki Hni]]]. exists i. split; [auto|]. now apply lift_inv. }
    assert (Gb' : forall t k r c x, r < length h -> at_res (h ++ [m]) t k r -> nth_error (h ++ [m]) r = Some (MRes t c x) ->
                  exists l, l < r /\ at_lin (h ++ [m]) t k l /\ nth_error (h ++ [m]) l = Some (MLin t c x)).
    { intros t k r c x Hl Hk Hn. apply kth_app_inv in Hk; auto. rewrite nth_error_snoc_old in Hn; auto.
      destruct (Gb _ _ _ _ _ Hk Hn) as [l [Hi [Hki Hni]]]. exists l. split; [auto|]. now apply lift_lin. }
    assert (Hlast : nth_error (h ++ [m]) (length h) = Some m).
    { rewrite nth_error_app2 by lia. now rewrite Nat.sub_diag. }
    unfold cI, cL, cR in *.
    destruct m as [u c|u c x|u c x]; cbn [phase_step] in H.
    + (* invocation *)
      destruct (p1 u) eqn:Eu; try discriminate. inversion H; subst ph; clear H.
      pose proof (J u) as Ju. rewrite Eu in Ju. cbn in Ju. destruct Ju as [J1 J2]. unfold cI, cL, cR in J1, J2.
      split.
      * intros t. destruct (Nat.eq_dec t u) as [->|Hne].
        -- rewrite upd_same. cbn. unfold cI, cL, cR. rewrite !count_app, !count_one. cbn [is_inv is_lin is_res]. rewrite Nat.eqb_refl.
           split; [lia|]. split; [lia|]. exists (length h). split; auto.
           replace (count (is_lin u) h + 0) with (count (is_inv u) h) by lia.
           apply (kth_snoc_new (is_inv u)). cbn. apply Nat.eqb_refl.
        -- rewrite upd_other by auto. specialize (J t).
           assert (Eq : Nat.eqb u t = false) by (apply Nat.eqb_neq; congruence).
           destruct (p1 t) as [|c'|c' x']; cbn in *; unfold cI, cL, cR in *; rewrite !count_app, !count_one; cbn [is_inv is_lin is_res]; rewrite Eq, !Nat.add_0_r.
           ++ auto.
           ++ destruct J as [A [B [i [C D]]]]. repeat split; auto. exists i. now apply lift_inv.
           ++ destruct J as [A [B [[i [C D]] [l [E F]]]]]. repeat split; auto; [exists i; now apply lift_inv|exists l; now apply lift_lin].
      * split.
        -- intros t k l c0 x Hk Hn. destruct (kth_snoc_inv _ _ _ _ _ Hk) as [[Hl _]|[-> [_ Hp]]]; [eapply Ga'; eauto|]. cbn in Hp. discriminate.
        -- intros t k r c0 x Hk Hn. destruct (kth_snoc_inv _ _ _ _ _ Hk) as [[Hl _]|[-> [_ Hp]]]; [eapply Gb'; eauto|]. cbn in Hp. discriminate.
    + (* linearisation *)
      destruct (p1 u) as [|c'|] eqn:Eu; try discriminate.
      destruct (call_eqb c c') eqn:Ec; try discriminate. apply call_eqb_eq in Ec; subst c'.
      inversion H; subst ph; clear H.
      pose proof (J u) as Ju. rewrite Eu in Ju. cbn in Ju. destruct Ju as [J1 [J2 [i0 [J3 J4]]]]. unfold cI, cL, cR in J1, J2, J3.
      split.
      * intros t. destruct (Nat.eq_dec t u) as [->|Hne].
        -- rewrite upd_same. cbn. unfold cI, cL, cR. rewrite !count_app, !count_one. cbn [is_inv is_lin is_res]. rewrite Nat.eqb_refl.
           split; [lia|]. split; [lia|]. rewrite Nat.add_0_r. split.
           ++ exists i0. rewrite <- J2. now apply lift_inv.
           ++ exists (length h). split; auto. rewrite <- J2. apply (kth_snoc_new (is_lin u)). cbn. apply Nat.eqb_refl.
        -- rewrite upd_other by auto. specialize (J t).
           assert (Eq : Nat.eqb u t = false) by (apply Nat.eqb_neq; congruence).
           destruct (p1 t) as [|c'|c' x']; cbn in *; unfold cI, cL, cR in *; rewrite !count_app, !count_one; cbn [is_inv is_lin is_res]; rewrite Eq, !Nat.add_0_r.
           ++ auto.
           ++ destruct J as [A [B [i [C D]]]]. repeat split; auto. exists i. now apply lift_inv.
           ++ destruct J as [A [B [[i [C D]] [l [E F]]]]]. repeat split; auto; [exists i; now apply lift_inv|exists l; now apply lift_lin].
      * split.
        -- intros t k l c0 x0 Hk Hn. destruct (kth_snoc_inv _ _ _ _ _ Hk) as [[Hl _]|[-> [Hkk Hp]]]; [eapply Ga'; eauto|].
           rewrite Hlast in Hn. inversion Hn; subst. exists i0. split; [eapply kth_lt; eauto|]. now apply lift_inv.
        -- intros t k r c0 x0 Hk Hn. destruct (kth_snoc_inv _ _ _ _ _ Hk) as [[Hl _]|[-> [_ Hp]]]; [eapply Gb'; eauto|]. cbn in Hp. discriminate.
    + (* response *)
      destruct (p1 u) as [| |c' x'] eqn:Eu; try discriminate.
      destruct (call_eqb c c') eqn:Ec; cbn [andb] in H; try discriminate. apply call_eqb_eq in Ec; subst c'.
      destruct (retv_eqb x x') eqn:Ex; try discriminate. apply retv_eqb_eq in Ex; subst x'.
      inversion H; subst ph; clear H.
      pose proof (J u) as Ju. rewrite Eu in Ju. cbn in Ju. destruct Ju as [J1 [J2 [[i0 [J3 J4]] [l0 [J5 J6]]]]]. unfold cI, cL, cR in J1, J2, J3, J5.
      split.
      * intros t. destruct (Nat.eq_dec t u) as [->|Hne].
        -- rewrite upd_same. cbn. unfold cI, cL, cR. rewrite !count_app, !count_one. cbn [is_inv is_lin is_res]. rewrite Nat.eqb_refl. lia.
        -- rewrite upd_other by auto. specialize (J t).
           assert (Eq : Nat.eqb u t = false) by (apply Nat.eqb_neq; congruence).
           destruct (p1 t) as [|c'|c' x']; cbn in *; unfold cI, cL, cR in *; rewrite !count_app, !count_one; cbn [is_inv is_lin is_res]; rewrite Eq, !Nat.add_0_r.
           ++ auto.
           ++ destruct J as [A [B [i [C D]]]]. repeat split; auto. exists i. now apply lift_inv.
           ++ destruct J as [A [B [[i [C D]] [l [E F]]]]]. repeat split; auto; [exists i; now apply lift_inv|exists l; now apply lift_lin].
      * split.
        -- intros t k l c0 x0 Hk Hn. destruct (kth_snoc_inv _ _ _ _ _ Hk) as [[Hl _]|[-> [_ Hp]]]; [eapply Ga'; eauto|]. cbn in Hp. discriminate.
        -- intros t k r c0 x0 Hk Hn. destruct (kth_snoc_inv _ _ _ _ _ Hk) as [[Hl _]|[-> [Hkk Hp]]]; [eapply Gb'; eauto|].
           rewrite Hlast in Hn. inversion Hn; subst. exists l0. split; [eapply kth_lt; eauto|]. now apply lift_lin.
Qed.

(* ------------------------------------------------------------------ generic consequences *)
Lemma is_inv_form t m : is_inv t m = true -> exists c, m = MInv t c.
Proof. destruct m; cbn; try discriminate. intros H. apply Nat.eqb_eq in H. subst. eauto. Qed.
Lemma is_lin_form t m : is_lin t m = true -> exists c x, m = MLin t c x.
Proof. destruct m; cbn; try discriminate. intros H. apply Nat.eqb_eq in H. subst. eauto. Qed.
Lemma is_res_form t m : is_res t m = true -> exists c x, m = MRes t c x.
Proof. destruct m; cbn; try discriminate. intros H. apply Nat.eqb_eq in H. subst. eauto. Qed.

Lemma hist_wf_facts h : hist_wf h -> hist_facts h.
Proof. intros [ph H]. exact (proj2 (phases_shape h ph H)). Qed.

(* a linearisation point lies after the invocation of the same call (same thread, same call number, same call) *)
Theorem lin_after_inv h : hist_wf h -> forall t k l c x, at_lin h t k l -> nth_error h l = Some (MLin t c x) ->
  exists i, i < l /\ at_inv h t k i /\ nth_error h i = Some (MInv t c).
Proof. intros W. exact (proj1 (hist_wf_facts h W)). Qed.
(* ... and before its response, which carries the same value *)
Theorem res_after_lin h : hist_wf h -> forall t k r c x, at_res h t k r -> nth_error h r = Some (MRes t c x) ->
  exists l, l < r /\ at_lin h t k l /\ nth_error h l = Some (MLin t c x).
Proof. intros W. exact (proj2 (hist_wf_facts h W)). Qed.

(* THE generic lemma: linearisation points inside [invocation, response] respect real-time order:
   if call (t,k) returned before call (u,m) was invoked, it is linearised first. *)
Theorem lin_real_time h : hist_wf h ->
  forall t k r u m i l', at_res h t k r -> at_inv h u m i -> r < i -> at_lin h u m l' ->
  exists l, at_lin h t k l /\ l < l'.
Proof.
  intros W t k r u m i l' Hr Hi Hri Hl'.
  destruct Hr as [[mr [Hr1 Hr2]] Hr3]. destruct (is_res_form _ _ Hr2) as [c [x ->]].
  destruct (res_after_lin h W t k r c x) as [l [Hl [Hal _]]]; [split; eauto|auto|].
  destruct Hl' as [[ml [Hl1 Hl2]] Hl3]. destruct (is_lin_form _ _ Hl2) as [c' [x' ->]].
  destruct (lin_after_inv h W u m l' c' x') as [i' [Hi' [Hai _]]]; [split; eauto|auto|].
  assert (i' = i) by (eapply kth_unique; eauto). subst i'.
  exists l. split; auto. lia.
Qed.

(* ------------------------------------------------------------------ the specification *)
Section Model.
Variable O : vops.

Record vlaws : Prop := {
  veqb_eq : forall a b, veqb O a b = true -> a = b;
  vsub_neg : use_cas O = true -> forall a b, vsub O a b = vadd O a (vneg O b)
}.
Hypothesis L : vlaws.

Lemma spec_run_app cs1 : forall s cs2,
  spec_run O s (cs1 ++ cs2) =
  match spec_run O s cs1 with
  | Some (s1, x1) => match spec_run O s1 cs2 with Some (s2, x2) => Some (s2, x1 ++ x2) | None => None end
  | None => None
  end.
Proof.
  induction cs1 as [|c cs1 IH]; intros s cs2; cbn.
  - destruct (spec_run O s cs2) as [[s2 x2]|]; auto.
  - destruct (spec_step O s c) as [[s1 x]|]; auto. rewrite IH.
    destruct (spec_run O s1 cs1) as [[s2 x2]|]; auto. destruct (spec_run O s2 cs2) as [[s3 x3]|]; auto.
Qed.

Lemma spec_step_supported s c x : spec_step O s c = Some x -> call_eqb c c = true.
Proof. destruct c; cbn; try discriminate; intros _; auto using N.eqb_refl. Qed.
Lemma spec_step_ret s c a r : spec_step O s c = Some (a, r) -> retv_eqb r r = true.
Proof. destruct c; cbn; try discriminate; intros H; inversion H; subst; cbn; auto using N.eqb_refl. Qed.

Lemma one_step_spec c p s k v mr : plan_of O c = Some p -> one_step O p s = Some (k, v, mr) -> spec_step O s c = Some (v, mr).
Proof.
  unfold adder, subber. destruct c; cbn; try discriminate; unfold adder, subber.
  all: try (destruct (use_cas O); intros H; inversion H; subst; cbn; intros H1; inversion H1; subst; reflexivity).
  all: try (intros H; inversion H; subst; cbn; intros H1; inversion H1; subst; reflexivity).
  destruct (vis_zero O (of_bits O bits)).
  - intros H; inversion H; subst; cbn; discriminate.
  - destruct (use_cas O); intros H; inversion H; subst; cbn; intros H1; inversion H1; subst; reflexivity.
Qed.
Lemma plan_loop_spec c d s : plan_of O c = Some (PLoop d) -> spec_step O s c = Some (vadd O s d, RUnit).
Proof.
  destruct c; cbn; try discriminate; unfold adder, subber.
  all: try (destruct (use_cas O) eqn:U; intros H; inversion H; subst; try reflexivity; now rewrite (vsub_neg L U)).
  destruct (vis_zero O (of_bits O bits)); try discriminate.
  destruct (use_cas O); intros H; inversion H; subst; reflexivity.
Qed.
Lemma plan_noop_spec c s : plan_of O c = Some PNoop -> spec_step O s c = Some (s, RUnit).
Proof.
  destruct c; cbn; try discriminate; unfold adder, subber; try (destruct (use_cas O); discriminate).
  destruct (vis_zero O (of_bits O bits)); auto. destruct (use_cas O); discriminate.
Qed.
Lemma plan_supported c p s : plan_of O c = Some p -> exists x, spec_step O s c = Some x.
Proof. destruct c; cbn; try discriminate; eauto. Qed.

(* ------------------------------------------------------------------ invariant 1: cell = specification state *)
Definition agrees (x : tstate O) (p : phase) : Prop :=
  match x, p with
  | TIdle, PIdle => True
  | TCalled c, PInv c' => c = c'
  | TCas c d cur, PInv c' => c = c' /\ forall s, spec_step O s c = Some (vadd O s d, RUnit)
  | TDone c mr, PLin c' r => c = c' /\ mr = r /\ call_eqb c c = true /\ retv_eqb r r = true
  | _, _ => False
  end.

Definition hist (s : astate O) : list mark := rev (g_hist s).

Record Inv1 (s : astate O) : Prop := {
  i1_cell : cell s = g_abs s;
  i1_ph : exists ph, phases idle0 (hist s) = Some ph /\ forall t, agrees (thr s t) (ph t);
  i1_spec : spec_run O (vzero O) (lin_calls (hist s)) = Some (g_abs s, lin_rets (hist s))
}.

Lemma lin_calls_app a b : lin_calls (a ++ b) = lin_calls a ++ lin_calls b.
Proof. unfold lin_calls. apply flat_map_app. Qed.
Lemma lin_rets_app a b : lin_rets (a ++ b) = lin_rets a ++ lin_rets b.
Proof. unfold lin_rets. apply flat_map_app. Qed.

Lemma agrees_upd thr0 ph t x p : (forall u, agrees (thr0 u) (ph u)) -> agrees x p -> forall u, agrees (upd thr0 t x u) (upd ph t p u).
Proof. intros H Hx u. unfold upd. destruct (Nat.eqb u t); auto. Qed.

Lemma inv1_init : Inv1 (ainit O).
Proof. split; cbn; auto. exists idle0. split; auto. intros t; exact I. Qed.

(* a pending call of thread t linearises: the common part of the three linearising rules *)
Lemma inv1_lin s t c v mr a r :
  Inv1 s -> (match thr s t with TCalled c' => c' = c | TCas c' _ _ => c' = c | _ => False end) ->
  spec_step O (g_abs s) c = Some (a, r) -> v = a -> mr = r ->
  Inv1 (lin_state O s t c v mr [] a r).
Proof.
  intros [I1 [ph [I2 I3]] I4] Ht Hs -> ->. split.
  - reflexivity.
  - unfold hist in *. cbn [lin_state g_hist thr app rev].
    exists (upd ph t (PLin c r)). split.
    + rewrite phases_snoc, I2. cbn [phase_step]. specialize (I3 t).
      destruct (thr s t) eqn:E; try contradiction; subst; destruct (ph t) eqn:Ep; cbn in I3; try contradiction.
      * subst. now rewrite (spec_step_supported _ _ _ Hs).
      * destruct I3 as [<- _]. now rewrite (spec_step_supported _ _ _ Hs).
    + apply agrees_upd; auto. cbn. repeat split; eauto using spec_step_supported, spec_step_ret.
  - unfold hist in *. cbn [lin_state g_hist g_abs app rev].
    rewrite lin_calls_app, lin_rets_app, spec_run_app, I4. cbn. now rewrite Hs.
Qed.

Lemma inv1_step s e s' : astep O s e s' -> Inv1 s -> Inv1 s'.
Proof.
  intros H I. destruct H.
  - (* call *)
    destruct I as [I1 [ph [I2 I3]] I4]. split; cbn; auto.
    + unfold hist in *. cbn. exists (upd ph t (PInv c)). split.
      * rewrite phases_snoc, I2. cbn. specialize (I3 t). rewrite H in I3. destruct (ph t); cbn in I3; try contradiction. reflexivity.
      * apply agrees_upd; auto. cbn. reflexivity.
    + unfold hist in *. cbn. rewrite lin_calls_app, lin_rets_app. cbn. now rewrite !app_nil_r.
  - (* call of a no-op: invocation and linearisation at once *)
    pose proof (plan_noop_spec c (g_abs s) H0) as Hn. rewrite Hn in H1. inversion H1; subst a r. clear H1.
    destruct I as [I1 [ph [I2 I3]] I4]. split.
    + cbn. exact I1.
    + unfold hist in *. cbn [lin_state g_hist thr app rev]. exists (upd (upd ph t (PInv c)) t (PLin c RUnit)). split.
      * rewrite phases_snoc, phases_snoc, I2. cbn [phase_step]. specialize (I3 t). rewrite H in I3.
        destruct (ph t); cbn in I3; try contradiction. rewrite upd_same. now rewrite (spec_step_supported _ _ _ Hn).
      * intros u. unfold upd. destruct (Nat.eqb u t) eqn:E; auto. cbn. repeat split; eauto using spec_step_supported.
    + unfold hist in *. cbn [lin_state g_hist g_abs app rev].
      rewrite !lin_calls_app, !lin_rets_app, !spec_run_app. cbn. rewrite !app_nil_r, I4. cbn. rewrite Hn. now rewrite !app_nil_r.
  - (* one-step call *)
    eapply inv1_lin; eauto.
    + now rewrite H.
    + pose proof (one_step_spec _ _ _ _ _ _ H0 H1) as Hs. rewrite (i1_cell _ I) in Hs. rewrite Hs in H4. now inversion H4.
    + pose proof (one_step_spec _ _ _ _ _ _ H0 H1) as Hs. rewrite (i1_cell _ I) in Hs. rewrite Hs in H4. now inversion H4.
  - (* load of the loop *)
    destruct I as [I1 [ph [I2 I3]] I4]. split; cbn; auto.
    exists ph. split; auto. intros u. unfold upd. destruct (Nat.eqb u t) eqn:E; auto. apply Nat.eqb_eq in E; subst u.
    specialize (I3 t). rewrite H in I3. destruct (ph t); cbn in *; try contradiction. split; auto.
    intros s0. now apply plan_loop_spec.
  - (* successful compare-exchange: the cell still holds what was loaded *)
    apply (veqb_eq L) in H0.
    assert (Hd : spec_step O (g_abs s) c = Some (vadd O (g_abs s) d, RUnit)).
    { destruct I as [I1 [ph [I2 I3]] I4]. specialize (I3 t). rewrite H in I3. destruct (ph t); cbn in I3; try contradiction. apply I3. }
    rewrite Hd in H3. inversion H3; subst a r.
    eapply inv1_lin; eauto.
    + now rewrite H.
    + now rewrite <- H0, (i1_cell _ I).
  - (* failed compare-exchange *)
    destruct I as [I1 [ph [I2 I3]] I4]. split; cbn; auto.
    exists ph. split; auto. intros u. unfold upd. destruct (Nat.eqb u t) eqn:E; auto. apply Nat.eqb_eq in E; subst u.
    specialize (I3 t). rewrite H in I3. destruct (ph t); cbn in *; try contradiction. tauto.
  - (* return *)
    destruct I as [I1 [ph [I2 I3]] I4]. split; cbn; auto.
    + unfold hist in *. cbn. exists (upd ph t PIdle). split.
      * rewrite phases_snoc, I2. cbn. specialize (I3 t). rewrite H in I3. destruct (ph t); cbn in I3; try contradiction.
        destruct I3 as [<- [<- [E1 E2]]]. now rewrite E1, E2.
      * apply agrees_upd; auto. exact I.
    + unfold hist in *. cbn. rewrite lin_calls_app, lin_rets_app. cbn. now rewrite !app_nil_r.
Qed.

Lemma inv1_steps s es s' : asteps O s es s' -> Inv1 s -> Inv1 s'.
Proof. induction 1; auto. intros; eauto using inv1_step. Qed.

End Model.

(* ================================================================== invariants 2 and 3, main theorems *)
Section Model2.
Variable O : vops.
Hypothesis L : vlaws O.

(* ------------------------------------------------------------------ invariant 2: pending calls, nothing lost *)
Definition pending_state (x : tstate O) (c : call) : Prop :=
  match x with TCalled c' => c' = c | TCas c' _ _ => c' = c | _ => False end.

Record Inv2 (s : astate O) : Prop := {
  i2_in : forall t c, In (t, c) (g_pend s) -> pending_state (thr s t) c;
  i2_st : forall t c, pending_state (thr s t) c -> In (t, c) (g_pend s);
  i2_nd : NoDup (map fst (g_pend s));
  i2_perm : Permutation (inv_tcalls (hist O s)) (lin_tcalls (hist O s) ++ g_pend s)
}.

Lemma drop_thread_in t l u c : In (u, c) (drop_thread t l) <-> u <> t /\ In (u, c) l.
Proof.
  unfold drop_thread. rewrite filter_In. cbn. split.
  - intros [H1 H2]. split; auto. intros ->. now rewrite Nat.eqb_refl in H2.
  - intros [H1 H2]. split; auto. apply Nat.eqb_neq in H1. now rewrite H1.
Qed.
Lemma drop_thread_nodup t l : NoDup (map fst l) -> NoDup (map fst (drop_thread t l)).
Proof.
  induction l as [|[u c] l IH]; cbn; intros H; [constructor|]. inversion H; subst.
  destruct (Nat.eqb u t); cbn; auto. constructor; auto.
  intros Hin. apply H2. apply in_map_iff in Hin. destruct Hin as [[u' c'] [E Hin]]. cbn in E; subst u'.
  apply drop_thread_in in Hin. apply in_map_iff. exists (u, c'). tauto.
Qed.
Lemma drop_thread_notin t l : (forall c, ~ In (t, c) l) -> drop_thread t l = l.
Proof.
  induction l as [|[u c] l IH]; cbn; intros H; auto.
  destruct (Nat.eqb u t) eqn:E; cbn.
  - apply Nat.eqb_eq in E; subst. exfalso. apply (H c). now left.
  - f_equal. apply IH. intros c' Hc. apply (H c'). now right.
Qed.
Lemma drop_thread_perm t c l : NoDup (map fst l) -> In (t, c) l -> Permutation l ((t, c) :: drop_thread t l).
Proof.
  induction l as [|[u c'] l IH]; cbn; intros Hn Hin; [contradiction|]. inversion Hn; subst.
  destruct Hin as [E|Hin].
  - inversion E; subst. rewrite Nat.eqb_refl. cbn. constructor. fold (drop_thread t l).
    rewrite drop_thread_notin; auto. intros c0 Hc. apply H1. apply in_map_iff. exists (t, c0). auto.
  - assert (u <> t). { intros ->. apply H1. apply in_map_iff. exists (t, c). auto. }
    apply Nat.eqb_neq in H. rewrite H. cbn. fold (drop_thread t l). rewrite perm_swap. constructor. auto.
Qed.

Lemma inv_tcalls_app a b : inv_tcalls (a ++ b) = inv_tcalls a ++ inv_tcalls b.
Proof. unfold inv_tcalls. apply flat_map_app. Qed.
Lemma lin_tcalls_app a b : lin_tcalls (a ++ b) = lin_tcalls a ++ lin_tcalls b.
Proof. unfold lin_tcalls. apply flat_map_app. Qed.

Lemma inv2_init : Inv2 (ainit O).
Proof. split; cbn; auto; try contradiction. constructor. Qed.

Lemma inv2_lin s t c v mr a r :
  Inv2 s -> pending_state (thr s t) c -> Inv2 (lin_state O s t c v mr [] a r).
Proof.
  intros [A B C D] Ht. split; cbn [lin_state g_pend thr].
  - intros u c0 Hin. apply drop_thread_in in Hin. destruct Hin as [Hu Hin]. rewrite upd_other by auto. auto.
  - intros u c0 Hp. destruct (Nat.eq_dec u t) as [->|Hu].
    + rewrite upd_same in Hp. contradiction.
    + rewrite upd_other in Hp by auto. apply drop_thread_in. auto.
  - now apply drop_thread_nodup.
  - unfold hist in *. cbn [lin_state g_hist app rev]. rewrite inv_tcalls_app, lin_tcalls_app. cbn. rewrite app_nil_r.
    rewrite D. rewrite <- app_assoc. apply Permutation_app_head. cbn. apply drop_thread_perm; auto.
Qed.

Lemma inv2_step s e s' : astep O s e s' -> Inv2 s -> Inv2 s'.
Proof.
  intros H I. destruct H.
  - destruct I as [A B C D].
    assert (Hno : forall c0, ~ In (t, c0) (g_pend s)). { intros c0 Hin. apply A in Hin. now rewrite H in Hin. }
    split; cbn.
    + intros u c0 [E|Hin].
      * inversion E; subst. now rewrite upd_same.
      * assert (u <> t). { intros ->. now apply (Hno c0). } rewrite upd_other by auto. auto.
    + intros u c0 Hp. destruct (Nat.eq_dec u t) as [->|Hu].
      * rewrite upd_same in Hp. cbn in Hp. subst. now left.
      * rewrite upd_other in Hp by auto. right. auto.
    + constructor; auto. intros Hin. apply in_map_iff in Hin. destruct Hin as [[u c0] [E Hin]]. cbn in E; subst. now apply (Hno c0).
    + unfold hist in *. cbn. rewrite inv_tcalls_app, lin_tcalls_app. cbn. rewrite app_nil_r. rewrite D.
      rewrite <- app_assoc. apply Permutation_app_head. apply Permutation_sym, Permutation_cons_append.
  - destruct I as [A B C D].
    assert (Hno : forall c0, ~ In (t, c0) (g_pend s)). { intros c0 Hin. apply A in Hin. now rewrite H in Hin. }
    split; cbn [lin_state g_pend thr].
    + intros u c0 Hin. apply drop_thread_in in Hin. destruct Hin as [Hu Hin]. rewrite upd_other by auto. auto.
    + intros u c0 Hp. destruct (Nat.eq_dec u t) as [->|Hu].
      * rewrite upd_same in Hp. contradiction.
      * rewrite upd_other in Hp by auto. apply drop_thread_in. auto.
    + now apply drop_thread_nodup.
    + unfold hist in *. cbn [lin_state g_hist app rev]. rewrite !inv_tcalls_app, !lin_tcalls_app. cbn. rewrite !app_nil_r.
      rewrite drop_thread_notin by auto. rewrite D. rewrite <- !app_assoc. apply Permutation_app_head.
      apply Permutation_app_comm.
  - apply inv2_lin; auto. now rewrite H.
  - destruct I as [A B C D]. split; cbn; auto.
    + intros u c0 Hin. specialize (A _ _ Hin). destruct (Nat.eq_dec u t) as [->|Hu].
      * rewrite upd_same. rewrite H in A. exact A.
      * now rewrite upd_other.
    + intros u c0 Hp. apply B. destruct (Nat.eq_dec u t) as [->|Hu].
      * rewrite upd_same in Hp. now rewrite H.
      * now rewrite upd_other in Hp.
  - apply inv2_lin; auto. now rewrite H.
  - destruct I as [A B C D]. split; cbn; auto.
    + intros u c0 Hin. specialize (A _ _ Hin). destruct (Nat.eq_dec u t) as [->|Hu].
      * rewrite upd_same. rewrite H in A. exact A.
      * now rewrite upd_other.
    + intros u c0 Hp. apply B. destruct (Nat.eq_dec u t) as [->|Hu].
      * rewrite upd_same in Hp. now rewrite H.
      * now rewrite upd_other in Hp.
  - destruct I as [A B C D]. split; cbn; auto.
    + intros u c0 Hin. specialize (A _ _ Hin). destruct (Nat.eq_dec u t) as [->|Hu].
      * rewrite H in A. contradiction.
      * now rewrite upd_other.
    + intros u c0 Hp. apply B. destruct (Nat.eq_dec u t) as [->|Hu].
      * rewrite upd_same in Hp. contradiction.
      * now rewrite upd_other in Hp.
    + unfold hist in *. cbn. rewrite inv_tcalls_app, lin_tcalls_app. cbn. now rewrite !app_nil_r.
Qed.

(* ------------------------------------------------------------------ invariant 3: the history projects to the trace's markers *)
Lemma proj_hist_app a b : proj_hist (a ++ b) = proj_hist a ++ proj_hist b.
Proof. unfold proj_hist. apply flat_map_app. Qed.
Lemma proj_ev_app a b : proj_ev O (a ++ b) = proj_ev O a ++ proj_ev O b.
Proof. unfold proj_ev. apply flat_map_app. Qed.

Lemma retv_matches_canon r mr : retv_matches O r mr = true -> canon_retv O r = mr.
Proof. destruct r, mr; cbn; try discriminate; auto. intros H. apply N.eqb_eq in H. now subst. Qed.

Lemma proj_step s e s' : astep O s e s' -> proj_hist (hist O s') = proj_hist (hist O s) ++ proj_ev O [e].
Proof.
  intros H. destruct H; unfold hist; cbn [lin_state g_hist rev app]; rewrite ?proj_hist_app; cbn; rewrite ?app_nil_r; auto.
  now rewrite (retv_matches_canon _ _ H0).
Qed.
Lemma proj_steps s es s' : asteps O s es s' -> proj_hist (hist O s') = proj_hist (hist O s) ++ proj_ev O es.
Proof.
  induction 1; [now rewrite app_nil_r|]. rewrite IHasteps, (proj_step _ _ _ H), <- app_assoc. f_equal.
  cbn. now rewrite app_nil_r.
Qed.

Lemma inv2_steps s es s' : asteps O s es s' -> Inv2 s -> Inv2 s'.
Proof. induction 1; auto. intros; eauto using inv2_step. Qed.

(* threads that never made a call are idle *)
Lemma untouched_idle s es s' : asteps O s es s' -> forall t, thr s t = TIdle -> ~ In t (threads_of es) -> thr s' t = TIdle.
Proof.
  induction 1; intros u Hu Hn; auto. apply IHasteps.
  - destruct H; cbn [thr lin_state]; try (destruct (Nat.eq_dec u t) as [->|Ne]; [congruence|now rewrite upd_other]).
    + rewrite upd_other; auto. intros ->. apply Hn. cbn. now left.
    + rewrite upd_other; auto. intros ->. apply Hn. cbn. now left.
  - intros Hin. apply Hn. unfold threads_of in *. cbn. apply in_or_app. now right.
Qed.

(* ------------------------------------------------------------------ MAIN THEOREM: linearizability *)
Definition reachable (es : list event) (s : astate O) : Prop := asteps O (ainit O) es s.
Definition quiescent (s : astate O) : Prop := forall t, thr s t = TIdle.

Theorem cell_is_spec es s : reachable es s -> cell s = g_abs s.
Proof. intros H. exact (i1_cell _ _ (inv1_steps O L _ _ _ H (inv1_init O))). Qed.

Theorem linearizable es s : reachable es s ->
  let h := hist O s in
  proj_hist h = proj_ev O es /\ hist_wf h /\
  spec_run O (vzero O) (lin_calls h) = Some (cell s, lin_rets h).
Proof.
  intros H h. pose proof (inv1_steps O L _ _ _ H (inv1_init O)) as [I1 [ph [I2 I3]] I4].
  split; [|split].
  - apply (proj_steps _ _ _ H).
  - exists ph. exact I2.
  - rewrite I1. exact I4.
Qed.

(* nothing is lost: once every thread has returned, the linearised calls are exactly the invoked calls *)
Theorem quiescent_complete es s : reachable es s -> quiescent s ->
  Permutation (inv_tcalls (hist O s)) (lin_tcalls (hist O s)).
Proof.
  intros H Q. pose proof (inv2_steps _ _ _ H inv2_init) as [A B C D].
  destruct (g_pend s) as [|[t c] l] eqn:E.
  - now rewrite app_nil_r in D.
  - exfalso. specialize (A t c (or_introl eq_refl)). now rewrite (Q t) in A.
Qed.

Theorem trace_ok_reachable es : trace_ok O es = true -> exists s, reachable es s /\ quiescent s.
Proof.
  unfold trace_ok. pose proof (validate_arun O es (ainit O) 0) as V.
  destruct (validate (aexec O) (ainit O) 0 es) as [[i|] s]; try discriminate. intros Hq.
  apply arun_sound in V. exists s. split; auto. intros t.
  destruct (in_dec Nat.eq_dec t (threads_of es)) as [Hin|Hn].
  - rewrite forallb_forall in Hq. specialize (Hq t Hin). now destruct (thr s t).
  - eapply untouched_idle; eauto.
Qed.

(* every call of a thread that has returned was linearised exactly once *)
Theorem exactly_once es s t : reachable es s -> thr s t = TIdle ->
  cI t (hist O s) = cL t (hist O s) /\ cL t (hist O s) = cR t (hist O s).
Proof.
  intros H Ht. pose proof (inv1_steps O L _ _ _ H (inv1_init O)) as [I1 [ph [I2 I3]] I4].
  destruct (phases_shape _ _ I2) as [J _]. specialize (J t). specialize (I3 t). rewrite Ht in I3.
  destruct (ph t); cbn in I3; try contradiction. exact J.
Qed.

(* ------------------------------------------------------------------ reads *)
Lemma spec_run_length cs : forall s s' xs, spec_run O s cs = Some (s', xs) -> length xs = length cs.
Proof.
  induction cs as [|c cs IH]; cbn; intros s s' xs H.
  - now inversion H.
  - destruct (spec_step O s c) as [[s1 x]|]; try discriminate. destruct (spec_run O s1 cs) as [[s2 x2]|] eqn:E; try discriminate.
    inversion H; subst. cbn. f_equal. eauto.
Qed.
Lemma app_eq_len {A} (a a' b b' : list A) : length a = length a' -> a ++ b = a' ++ b' -> a = a' /\ b = b'.
Proof.
  revert a'. induction a as [|x a IH]; intros [|y a'] Hl H; cbn in *; try discriminate; auto.
  inversion H; subst. destruct (IH a') as [-> ->]; auto.
Qed.
Lemma lin_len h : length (lin_rets h) = length (lin_calls h).
Proof. induction h as [|[| |] h IH]; cbn; auto. Qed.

Lemma nth_split h : forall l (m : mark), nth_error h l = Some m -> h = firstn l h ++ m :: skipn (S l) h.
Proof.
  induction h as [|x h IH]; intros [|l] m H; cbn in *; try discriminate.
  - now inversion H.
  - f_equal. now apply IH.
Qed.

(* the calls linearised before index l, replayed on the specification, give the state a read linearised at l returns *)
Theorem read_prefix es s : reachable es s -> forall t l c x, nth_error (hist O s) l = Some (MLin t c x) ->
  exists sv, spec_run O (vzero O) (lin_calls (firstn l (hist O s))) = Some (sv, lin_rets (firstn l (hist O s))) /\
             exists a, spec_step O sv c = Some (a, x).
Proof.
  intros H t l c x Hn. destruct (linearizable es s H) as [_ [_ Hs]].
  rewrite (nth_split _ _ _ Hn) in Hs. rewrite lin_calls_app, lin_rets_app, spec_run_app in Hs.
  destruct (spec_run O (vzero O) (lin_calls (firstn l (hist O s)))) as [[s1 x1]|] eqn:E1; try discriminate.
  cbn in Hs. destruct (spec_step O s1 c) as [[s2 x2]|] eqn:E2; try discriminate.
  destruct (spec_run O s2 _) as [[s3 x3]|] eqn:E3; try discriminate.
  inversion Hs; subst. apply app_eq_len in H2.
  - destruct H2 as [-> H2]. inversion H2; subst. exists s1. split; auto. eauto.
  - rewrite (spec_run_length _ _ _ _ E1). symmetry. apply lin_len.
Qed.

End Model2.

(* ================================================================== generic corollaries *)
Section Cor.
Variable O : vops.
Hypothesis L : vlaws O.

(* the window of a call: everything that returned before it was invoked is linearised before it,
   everything invoked after it returned is linearised after it *)
Theorem call_window es s : reachable O es s -> let h := hist O s in
  forall t k i l r, at_inv h t k i -> at_lin h t k l -> at_res h t k r ->
  (forall u m r', at_res h u m r' -> r' < i -> exists l', at_lin h u m l' /\ l' < l) /\
  (forall u m i' l', at_inv h u m i' -> r < i' -> at_lin h u m l' -> l < l').
Proof.
  intros H h t k i l r Hi Hl Hr. destruct (linearizable O L es s H) as [_ [W _]]. fold h in W. split.
  - intros u m r' Hr' Hlt. eapply lin_real_time; eauto.
  - intros u m i' l' Hi' Hlt Hl'. destruct (lin_real_time h W t k r u m i' l' Hr Hi' Hlt Hl') as [l0 [Hl0 Hlt0]].
    assert (l0 = l) by (eapply kth_unique; eauto). subst. auto.
Qed.

Lemma read_prefix_split es s a t c x d : reachable O es s -> hist O s = a ++ MLin t c x :: d ->
  exists sv, spec_run O (vzero O) (lin_calls a) = Some (sv, lin_rets a) /\ exists a', spec_step O sv c = Some (a', x).
Proof.
  intros H E. destruct (read_prefix O L es s H t (length a) c x) as [sv [H1 H2]].
  - rewrite E, nth_error_app2 by lia. now rewrite Nat.sub_diag.
  - rewrite E, firstn_app, Nat.sub_diag, firstn_all in H1. cbn in H1. rewrite app_nil_r in H1. eauto.
Qed.

(* the final value: the invoked calls, each exactly once, replayed in linearisation order *)
Definition ecalls (es : list event) : list (nat * call) :=
  flat_map (fun e => match e with ECall t c => [(t, c)] | _ => [] end) es.
Definition pcalls (l : list (nat * (call + retv))) : list (nat * call) :=
  flat_map (fun x => match snd x with inl c => [(fst x, c)] | inr _ => [] end) l.
Lemma pcalls_hist h : pcalls (proj_hist h) = inv_tcalls h.
Proof. induction h as [|m h IH]; [reflexivity|]. destruct m; unfold pcalls, proj_hist, inv_tcalls in *; cbn; rewrite ?IH; reflexivity. Qed.
Lemma pcalls_ev es : pcalls (proj_ev O es) = ecalls es.
Proof. induction es as [|e es IH]; [reflexivity|]. destruct e; unfold pcalls, proj_ev, ecalls in *; cbn; rewrite ?IH; reflexivity. Qed.
Lemma lin_calls_tcalls h : lin_calls h = map snd (lin_tcalls h).
Proof. induction h as [|m h IH]; [reflexivity|]. destruct m; unfold lin_calls, lin_tcalls in *; cbn; rewrite ?IH; reflexivity. Qed.

Theorem final_value es s : reachable O es s -> quiescent O s ->
  exists order, Permutation order (ecalls es) /\
                exists xs, spec_run O (vzero O) (map snd order) = Some (cell s, xs).
Proof.
  intros H Q. destruct (linearizable O L es s H) as [P [_ S]].
  exists (lin_tcalls (hist O s)). split.
  - rewrite <- pcalls_ev, <- P, pcalls_hist. apply Permutation_sym. eapply quiescent_complete; eauto.
  - rewrite <- lin_calls_tcalls. eauto.
Qed.

(* what a state of the specification can be *)
Definition is_arith (c : call) : bool :=
  match c with CInc | CDec | CAdd _ | CSub _ | CFlush _ => true | _ => false end.
Lemma spec_run_last_write cs : forall s0 s xs, spec_run O s0 cs = Some (s, xs) ->
  s = s0 \/ (exists b, In (CSet b) cs /\ s = of_bits O b) \/ (In CReset cs /\ s = vzero O) \/
  (exists s' c, In c cs /\ is_arith c = true /\ spec_step O s' c = Some (s, RUnit)).
Proof.
  induction cs as [|c cs IH]; cbn; intros s0 s xs H.
  - inversion H; auto.
  - destruct (spec_step O s0 c) as [[s1 x]|] eqn:E; try discriminate.
    destruct (spec_run O s1 cs) as [[s2 x2]|] eqn:E2; try discriminate. inversion H; subst; clear H.
    destruct (IH _ _ _ E2) as [->|[[b [Hin ->]]|[[Hin ->]|[s' [c' [Hin [Ha Hs]]]]]]].
    + destruct c as [ | |b|b|b| | |b|b|b| | | |k0 d0|k0| | | ]; cbn in E; try discriminate; inversion E; subst; auto.
      * right. right. right. exists s0, CInc. cbn. auto.
      * right. right. right. exists s0, CDec. cbn. auto.
      * right. right. right. exists s0, (CAdd b). cbn. auto.
      * right. right. right. exists s0, (CSub b). cbn. auto.
      * right. left. exists b. auto.
      * right. right. left. auto.
      * destruct (vis_zero O (of_bits O b)) eqn:Z; auto.
        right. right. right. exists s0, (CFlush b). cbn. rewrite Z. auto.
    + right. left. exists b. auto.
    + right. right. left. auto.
    + right. right. right. exists s', c'. auto.
Qed.

(* a read returns the initial value, the argument of a set (or reset's zero) linearised before it, or the result of an
   addition / subtraction linearised before it: never a mixture *)
Theorem read_not_torn es s : reachable O es s -> forall t l v, nth_error (hist O s) l = Some (MLin t CGet (RVal v)) ->
  let before := lin_calls (firstn l (hist O s)) in
  exists sv, v = to_bits O sv /\
    (sv = vzero O \/ (exists b, In (CSet b) before /\ sv = of_bits O b) \/ (In CReset before /\ sv = vzero O) \/
     (exists s' c, In c before /\ is_arith c = true /\ spec_step O s' c = Some (sv, RUnit))).
Proof.
  intros H t l v Hn before. destruct (read_prefix O L es s H t l CGet (RVal v) Hn) as [sv [H1 [a H2]]].
  exists sv. split.
  - cbn in H2. now inversion H2.
  - exact (spec_run_last_write _ _ _ _ H1).
Qed.
End Cor.

(* ================================================================== the integer flavour *)
Open Scope N_scope.
Lemma int_laws : vlaws IntOps.
Proof. split; cbn; [intros a b H; now apply N.eqb_eq|discriminate]. Qed.

Lemma two64_pos : two64 <> 0. Proof. discriminate. Qed.
Lemma wrap64_lt x : wrap64 x < two64. Proof. apply N.mod_lt, two64_pos. Qed.
Lemma wrap64_small x : x < two64 -> wrap64 x = x. Proof. apply N.mod_small. Qed.
Lemma wrap64_add_l a b : wrap64 (wrap64 a + b) = wrap64 (a + b). Proof. apply N.add_mod_idemp_l, two64_pos. Qed.
Lemma wrap64_add_r a b : wrap64 (a + wrap64 b) = wrap64 (a + b). Proof. apply N.add_mod_idemp_r, two64_pos. Qed.

Definition sumN (l : list N) : N := fold_right N.add 0 l.
Lemma sumN_app a b : sumN (a ++ b) = sumN a + sumN b.
Proof. unfold sumN. induction a as [|x a IH]; cbn [app fold_right]; [lia|]. rewrite IH. lia. Qed.
Lemma sumN_perm a b : Permutation a b -> sumN a = sumN b.
Proof. unfold sumN. induction 1; cbn [fold_right]; lia. Qed.

(* amount a call adds, modulo 2^64 (harness amounts are < 2^64, so delta64 (CAdd d) = d) *)
Definition delta64 (c : call) : N :=
  match c with
  | CInc => 1 | CDec => two64 - 1
  | CAdd d | CFlush d => wrap64 d
  | CSub d => two64 - wrap64 d
  | _ => 0
  end.
Definition is_arith_get (c : call) : bool := match c with CGet => true | _ => is_arith c end.
Definition is_ctr_inc (c : call) : bool := match c with CInc | CAdd _ | CFlush _ | CGet => true | _ => false end.
Lemma ctr_inc_arith c : is_ctr_inc c = true -> is_arith_get c = true.
Proof. destruct c; cbn; auto. Qed.

Lemma int_state_bounded cs : forall s s' xs, spec_run IntOps s cs = Some (s', xs) -> s < two64 -> s' < two64.
Proof.
  induction cs as [|c cs IH]; cbn; intros s s' xs H Hs.
  - inversion H; subst; auto.
  - destruct (spec_step IntOps s c) as [[s1 x]|] eqn:E; try discriminate.
    destruct (spec_run IntOps s1 cs) as [[s2 x2]|] eqn:E2; try discriminate. inversion H; subst.
    apply (IH _ _ _ E2). destruct c as [ | |b|b|b| | |b|b|b| | | |k0 d0|k0| | | ]; cbn in E; try discriminate; inversion E; subst; auto using wrap64_lt.
    + reflexivity.
    + destruct (wrap64 b =? 0); auto using wrap64_lt.
Qed.

(* additions, subtractions and reads: the state is the initial state plus the sum of the amounts, modulo 2^64 *)
Lemma int_arith_run cs : forall s, forallb is_arith_get cs = true -> s < two64 ->
  exists xs, spec_run IntOps s cs = Some (wrap64 (s + sumN (map delta64 cs)), xs).
Proof.
  induction cs as [|c cs IH]; intros s Hf Hs.
  - cbn. rewrite N.add_0_r, wrap64_small by auto. eauto.
  - cbn [forallb] in Hf. apply andb_prop in Hf. destruct Hf as [Hc Hf].
    assert (K : forall s1, s1 < two64 -> wrap64 (s1 + sumN (map delta64 cs)) = wrap64 (s + sumN (map delta64 (c :: cs))) ->
                forall x, spec_step IntOps s c = Some (s1, x) ->
                exists xs, spec_run IntOps s (c :: cs) = Some (wrap64 (s + sumN (map delta64 (c :: cs))), xs)).
    { intros s1 Hs1 Heq x Hx. cbn [spec_run]. rewrite Hx. destruct (IH s1 Hf Hs1) as [xs Hxs]. rewrite Hxs, Heq. eauto. }
    destruct c as [ | |b|b|b| | |b|b|b| | | |k0 d0|k0| | | ]; cbn in Hc; try discriminate; cbn [map sumN fold_right delta64].
    + eapply K; [apply wrap64_lt| |reflexivity]. cbn. rewrite wrap64_add_l. f_equal. unfold sumN. lia.
    + eapply K; [apply wrap64_lt| |reflexivity]. cbn. rewrite wrap64_add_l. f_equal. change (wrap64 1) with 1. unfold sumN. lia.
    + eapply K; [apply wrap64_lt| |reflexivity]. cbn. rewrite wrap64_add_l. f_equal. unfold sumN. lia.
    + eapply K; [apply wrap64_lt| |reflexivity]. cbn. rewrite wrap64_add_l. f_equal. rewrite (wrap64_small (wrap64 b)) by apply wrap64_lt. unfold sumN. lia.
    + eapply K; [| |reflexivity]; auto.
    + cbn [spec_step IntOps V vis_zero of_bits vadd].
      destruct (wrap64 b =? 0) eqn:Z.
      * pose proof (proj1 (N.eqb_eq _ _) Z) as Z'. eapply K; [exact Hs| |cbn; rewrite Z; reflexivity].
        cbn [map delta64]. unfold sumN. cbn [fold_right]. rewrite Z'. reflexivity.
      * eapply K; [apply wrap64_lt| |cbn; rewrite Z; reflexivity]. rewrite wrap64_add_l. cbn [map delta64]. unfold sumN. cbn [fold_right]. f_equal. lia.
Qed.

(* ---- C01, integer counter *)
Theorem c01_final_sum_u64 es s : reachable IntOps es s -> quiescent IntOps s ->
  forallb is_ctr_inc (map snd (ecalls es)) = true ->
  cell s = wrap64 (sumN (map delta64 (map snd (ecalls es)))).
Proof.
  intros H Q F. destruct (final_value IntOps int_laws es s H Q) as [order [P [xs S]]].
  assert (F' : forallb is_arith_get (map snd order) = true).
  { rewrite forallb_forall in *. intros c Hc. apply ctr_inc_arith, F.
    apply in_map_iff in Hc. destruct Hc as [tc [<- Hc]]. apply in_map. eapply Permutation_in; eauto. }
  destruct (int_arith_run _ 0 F') as [xs' S']; [reflexivity|]. cbn [IntOps vzero] in S. rewrite S' in S. inversion S.
  rewrite N.add_0_l. f_equal. apply sumN_perm. now apply Permutation_map, Permutation_map.
Qed.

(* a read returns the sum of the increments linearised before it *)
Theorem c01_read_sum_u64 es s : reachable IntOps es s -> forall t l v,
  nth_error (hist IntOps s) l = Some (MLin t CGet (RVal v)) ->
  forallb is_ctr_inc (lin_calls (firstn l (hist IntOps s))) = true ->
  v = wrap64 (sumN (map delta64 (lin_calls (firstn l (hist IntOps s))))).
Proof.
  intros H t l v Hn F. destruct (read_prefix IntOps int_laws es s H t l CGet (RVal v) Hn) as [sv [H1 [a H2]]].
  cbn in H2. inversion H2; subst.
  destruct (int_arith_run _ 0 (proj2 (forallb_forall _ _) (fun c Hc => ctr_inc_arith c (proj1 (forallb_forall _ _) F c Hc)))) as [xs S]; [reflexivity|].
  cbn [IntOps vzero] in H1. rewrite S in H1. inversion H1. now rewrite N.add_0_l.
Qed.

(* reads that follow one another do not decrease unless a reset (or a wrap-around) intervened *)
Theorem c01_monotone_u64 es s a t1 v1 b t2 v2 d : reachable IntOps es s ->
  hist IntOps s = a ++ MLin t1 CGet (RVal v1) :: b ++ MLin t2 CGet (RVal v2) :: d ->
  forallb is_ctr_inc (lin_calls b) = true ->
  v1 + sumN (map delta64 (lin_calls b)) < two64 ->
  v1 <= v2.
Proof.
  intros H E F W.
  destruct (read_prefix_split IntOps int_laws es s a t1 CGet (RVal v1) _ H E) as [s1 [R1 [a1 Q1]]].
  assert (E2 : hist IntOps s = (a ++ MLin t1 CGet (RVal v1) :: b) ++ MLin t2 CGet (RVal v2) :: d) by (rewrite E, <- app_assoc; reflexivity).
  destruct (read_prefix_split IntOps int_laws es s _ t2 CGet (RVal v2) _ H E2) as [s2 [R2 [a2 Q2]]].
  cbn in Q1, Q2. inversion Q1; inversion Q2; subst. clear Q1 Q2.
  rewrite lin_calls_app, spec_run_app, R1 in R2.
  change (lin_calls (MLin t1 CGet (RVal v1) :: b)) with (CGet :: lin_calls b) in R2. cbn [spec_run spec_step] in R2.
  assert (B1 : v1 < two64) by (eapply int_state_bounded; eauto; reflexivity).
  destruct (int_arith_run _ v1 (proj2 (forallb_forall _ _) (fun c Hc => ctr_inc_arith c (proj1 (forallb_forall _ _) F c Hc))) B1) as [xs S].
  cbn [IntOps V] in *. rewrite S in R2. inversion R2. rewrite wrap64_small by auto. lia.
Qed.

(* ---- C11, integer gauge: sub x undoes add x wherever the two are linearised among additions / subtractions *)
Definition final_int (s : N) (cs : list call) : option N := option_map fst (spec_run IntOps s cs).
Theorem c11_sub_undoes_add_i64 s x a b c : s < two64 ->
  forallb is_arith_get a = true -> forallb is_arith_get b = true -> forallb is_arith_get c = true ->
  final_int s (a ++ CAdd x :: b ++ CSub x :: c) = final_int s (a ++ b ++ c).
Proof.
  intros Hs Fa Fb Fc. unfold final_int.
  assert (F1 : forallb is_arith_get (a ++ CAdd x :: b ++ CSub x :: c) = true).
  { rewrite forallb_app. cbn. rewrite forallb_app. cbn. now rewrite Fa, Fb, Fc. }
  assert (F2 : forallb is_arith_get (a ++ b ++ c) = true) by (rewrite !forallb_app; now rewrite Fa, Fb, Fc).
  destruct (int_arith_run _ s F1 Hs) as [x1 ->]. destruct (int_arith_run _ s F2 Hs) as [x2 ->]. cbn. f_equal.
  change (a ++ CAdd x :: b ++ CSub x :: c) with (a ++ [CAdd x] ++ b ++ [CSub x] ++ c).
  rewrite !map_app, !sumN_app.
  change (sumN (map delta64 [CAdd x])) with (wrap64 x + 0). change (sumN (map delta64 [CSub x])) with (two64 - wrap64 x + 0).
  pose proof (wrap64_lt x).
  set (X := s + (sumN (map delta64 a) + (sumN (map delta64 b) + sumN (map delta64 c)))).
  replace (s + (sumN (map delta64 a) + (wrap64 x + 0 + (sumN (map delta64 b) + (two64 - wrap64 x + 0 + sumN (map delta64 c))))))
    with (two64 + X) by (unfold X; lia).
  unfold wrap64. rewrite <- (N.add_mod_idemp_l two64 X two64) by apply two64_pos. rewrite N.mod_same by apply two64_pos. now rewrite N.add_0_l.
Qed.
Corollary c11_sub_undoes_add_i64_adjacent s x : s < two64 -> final_int s [CAdd x; CSub x] = Some s.
Proof.
  intros Hs. change [CAdd x; CSub x] with ([] ++ CAdd x :: [] ++ CSub x :: []).
  rewrite c11_sub_undoes_add_i64; auto.
Qed.

(* ================================================================== the float flavour *)
Lemma SFsub_add_opp x y : SFsub prec emax x y = SFadd prec emax x (SFopp y).
Proof.
  destruct x as [sx|sx| |sx mx ex], y as [sy|sy| |sy my ey]; cbn; try reflexivity.
  destruct sy; reflexivity.
Qed.
(* AtomicF64::dec_by(d) = inc_by(-d) computes the subtraction *)
Lemma sub_add_opp (x y : flt) : (x - y)%float = (x + - y)%float.
Proof. apply Prim2SF_inj. rewrite sub_spec, add_spec, opp_spec. apply SFsub_add_opp. Qed.

Lemma float_laws : vlaws FloatOps.
Proof.
  split; cbn.
  - intros a b H. now apply FloatAxioms.Leibniz.eqb_spec.
  - intros _ a b. apply sub_add_opp.
Qed.

Lemma SF_leb_trans (a b c : spec_float) : SFleb a b = true -> SFleb b c = true -> SFleb a c = true.
Proof.
  unfold SFleb.
  destruct a as [sa|sa| |sa ma ea], b as [sb|sb| |sb mb eb], c as [sc|sc| |sc mc ec]; cbn;
    try discriminate; try reflexivity; sf_cmp_crush.
Qed.
Lemma leb_trans (a b c : flt) : PrimFloat.leb a b = true -> PrimFloat.leb b c = true -> PrimFloat.leb a c = true.
Proof. rewrite !leb_spec. apply SF_leb_trans. Qed.
Lemma leb_refl_nonneg (a : flt) : PrimFloat.leb 0 a = true -> PrimFloat.leb a a = true.
Proof.
  rewrite !leb_spec. unfold SFleb. change (Prim2SF 0) with (S754_zero false).
  destruct (Prim2SF a) as [sa|sa| |sa ma ea]; cbn; try discriminate; try reflexivity.
  - destruct sa; auto.
  - destruct sa; try discriminate. intros _. rewrite Z.compare_refl. rewrite Pos.compare_cont_refl. reflexivity.
Qed.

Local Opaque bits2f f2bits.
(* counter calls and their (float) amounts *)
Definition is_ctr_call (c : call) : bool := match c with CInc | CAdd _ | CFlush _ | CGet | CReset => true | _ => false end.
Definition famt (c : call) : flt :=
  match c with CInc => 1%float | CAdd d | CFlush d => bits2f d | _ => 0%float end.
Definition nonneg_call (c : call) : bool := is_ctr_call c && PrimFloat.leb 0 (famt c).
Definition nonneg_inc (c : call) : bool := is_ctr_inc c && PrimFloat.leb 0 (famt c).

Lemma f_step_nonneg c s s' x : nonneg_call c = true -> PrimFloat.leb 0 s = true -> spec_step FloatOps s c = Some (s', x) ->
  PrimFloat.leb 0 s' = true.
Proof.
  unfold nonneg_call. intros Hc Hs. apply andb_prop in Hc. destruct Hc as [Hk Ha].
  destruct c as [ | |b|b|b| | |b|b|b| | | |k0 d0|k0| | | ]; cbn in Hk; try discriminate Hk;
    cbn [spec_step FloatOps vadd vsub V vone vzero of_bits to_bits vis_zero famt] in *; intros E; inversion E; subst; clear E.
  - apply (add_mono s 1 Hs Ha).
  - apply (add_mono s (bits2f b) Hs Ha).
  - exact Hs.
  - reflexivity.
  - destruct (PrimFloat.eqb (bits2f b) 0); [exact Hs|]. apply (add_mono s (bits2f b) Hs Ha).
Qed.
Lemma f_run_nonneg cs : forall s s' xs, forallb nonneg_call cs = true -> PrimFloat.leb 0 s = true ->
  spec_run FloatOps s cs = Some (s', xs) -> PrimFloat.leb 0 s' = true.
Proof.
  induction cs as [|c cs IH]; cbn; intros s s' xs F Hs H.
  - inversion H; subst; exact Hs.
  - apply andb_prop in F. destruct F as [Fc F].
    destruct (spec_step FloatOps s c) as [[s1 x]|] eqn:E; try discriminate H.
    destruct (spec_run FloatOps s1 cs) as [[s2 x2]|] eqn:E2; try discriminate H. inversion H; subst.
    eapply (IH s1); [exact F| |exact E2]. eapply f_step_nonneg; [exact Fc|exact Hs|exact E].
Qed.
Lemma f_step_mono c s s' x : nonneg_inc c = true -> PrimFloat.leb 0 s = true -> spec_step FloatOps s c = Some (s', x) ->
  PrimFloat.leb s s' = true.
Proof.
  unfold nonneg_inc. intros Hc Hs. apply andb_prop in Hc. destruct Hc as [Hk Ha].
  destruct c as [ | |b|b|b| | |b|b|b| | | |k0 d0|k0| | | ]; cbn in Hk; try discriminate Hk;
    cbn [spec_step FloatOps vadd vsub V vone vzero of_bits to_bits vis_zero famt] in *; intros E; inversion E; subst; clear E.
  - apply (add_mono s 1 Hs Ha).
  - apply (add_mono s (bits2f b) Hs Ha).
  - apply leb_refl_nonneg, Hs.
  - destruct (PrimFloat.eqb (bits2f b) 0); [apply leb_refl_nonneg, Hs|]. apply (add_mono s (bits2f b) Hs Ha).
Qed.
Lemma nonneg_inc_call c : nonneg_inc c = true -> nonneg_call c = true.
Proof. unfold nonneg_inc, nonneg_call. destruct c; cbn [is_ctr_inc is_ctr_call andb]; intros H; first [exact H | discriminate H]. Qed.
Lemma f_run_mono cs : forall s s' xs, forallb nonneg_inc cs = true -> PrimFloat.leb 0 s = true ->
  spec_run FloatOps s cs = Some (s', xs) -> PrimFloat.leb s s' = true.
Proof.
  induction cs as [|c cs IH]; cbn; intros s s' xs F Hs H.
  - inversion H; subst. apply leb_refl_nonneg, Hs.
  - apply andb_prop in F. destruct F as [Fc F].
    destruct (spec_step FloatOps s c) as [[s1 x]|] eqn:E; try discriminate H.
    destruct (spec_run FloatOps s1 cs) as [[s2 x2]|] eqn:E2; try discriminate H. inversion H; subst.
    eapply leb_trans; [eapply f_step_mono; [exact Fc|exact Hs|exact E]|].
    eapply (IH s1); [exact F| |exact E2]. eapply f_step_nonneg; [apply nonneg_inc_call, Fc|exact Hs|exact E].
Qed.

(* ---- C01, float counter: reads that follow one another do not decrease (non-negative, non-NaN increments;
        no reset linearised between them) *)
Theorem c01_monotone_f64 es s a t1 v1 b t2 v2 d : reachable FloatOps es s ->
  hist FloatOps s = a ++ MLin t1 CGet (RVal v1) :: b ++ MLin t2 CGet (RVal v2) :: d ->
  forallb nonneg_call (lin_calls a) = true ->
  forallb nonneg_inc (lin_calls b) = true ->
  exists x1 x2 : flt, v1 = f2bits x1 /\ v2 = f2bits x2 /\ PrimFloat.leb x1 x2 = true.
Proof.
  intros H E Fa Fb.
  destruct (read_prefix_split FloatOps float_laws es s a t1 CGet (RVal v1) _ H E) as [s1 [R1 [a1 Q1]]].
  assert (E2 : hist FloatOps s = (a ++ MLin t1 CGet (RVal v1) :: b) ++ MLin t2 CGet (RVal v2) :: d) by (rewrite E, <- app_assoc; reflexivity).
  destruct (read_prefix_split FloatOps float_laws es s _ t2 CGet (RVal v2) _ H E2) as [s2 [R2 [a2 Q2]]].
  cbn in Q1, Q2. exists s1, s2. split; [now inversion Q1|]. split; [now inversion Q2|].
  rewrite lin_calls_app, spec_run_app, R1 in R2.
  change (lin_calls (MLin t1 CGet (RVal v1) :: b)) with (CGet :: lin_calls b) in R2. cbn [spec_run spec_step] in R2.
  destruct (spec_run FloatOps s1 (lin_calls b)) as [[s3 x3]|] eqn:E3; try discriminate. inversion R2; subst.
  eapply f_run_mono; eauto. eapply f_run_nonneg; eauto. reflexivity.
Qed.

(* ---- C11, float gauge: sub x is the atomic addition of -x ... *)
Theorem c11_sub_is_add_neg_f64 (s : flt) (x : N) :
  spec_step FloatOps s (CSub x) = Some ((s + - bits2f x)%float, RUnit) /\
  plan_of FloatOps (CSub x) = Some (@PLoop FloatOps (- bits2f x)%float).
Proof. split; cbn [spec_step plan_of subber FloatOps use_cas vsub vneg V of_bits]; [now rewrite sub_add_opp|reflexivity]. Qed.

(* ... which gives back s (as a number) exactly when s + x was exact *)
Theorem c11_sub_undoes_add_f64_exact (s x : flt) :
  is_finite (Prim2B s) = true -> is_finite (Prim2B x) = true -> is_finite (Prim2B (s + x)) = true ->
  B2R (Prim2B (s + x)) = (B2R (Prim2B s) + B2R (Prim2B x))%R ->
  B2R (Prim2B ((s + x) - x)) = B2R (Prim2B s) /\ PrimFloat.eqb ((s + x) - x) s = true.
Proof.
  intros Fs Fx Fy Ex.
  pose proof (Bminus_correct prec emax Hprec Hmax mode_NE (Prim2B (s + x)) (Prim2B x) Fy Fx) as C.
  rewrite Ex in C. replace (B2R (Prim2B s) + B2R (Prim2B x) - B2R (Prim2B x))%R with (B2R (Prim2B s)) in C by lra.
  rewrite (round_generic radix2 (SpecFloat.fexp prec emax) (round_mode mode_NE) (B2R (Prim2B s))) in C by apply generic_format_B2R.
  rewrite Rlt_bool_true in C by apply abs_B2R_lt_emax.
  destruct C as [C1 [C2 _]]. rewrite <- sub_equiv in C1, C2. split; auto.
  rewrite eqb_equiv, (Beqb_correct prec emax _ _ C2 Fs), C1. apply Req_bool_true. reflexivity.
Qed.

(* ================================================================== local counter flush *)
Definition event_thread (e : event) : option nat :=
  match e with ECall t _ | ERet t _ | EAt t _ _ _ _ _ _ _ | ELock t _ _ _ | EUnlock t _ _ | EPanic t | EOther t => Some t | _ => None end.

Section Flush.
Variable O : vops.
(* a call that is linearised can only return: in particular a flush of a zero amount (linearised at its
   invocation) performs no shared step at all *)
Lemma done_only_returns s t c mr e s' : thr s t = TDone c mr -> astep O s e s' -> event_thread e = Some t ->
  exists r, e = ERet t r /\ thr s' t = TIdle.
Proof.
  intros Ht H He. destruct H; cbn in He; inversion He; subst; try congruence.
  exists r. split; auto. cbn. apply upd_same.
Qed.
Lemma noop_call_is_done s t c s' : astep O s (ECall t c) s' -> plan_of O c = Some PNoop ->
  thr s' t = TDone c RUnit /\ cell s' = cell s.
Proof.
  intros H Hp. inversion H; subst.
  - rewrite Hp in H4. inversion H4; subst. discriminate.
  - cbn. split; auto. apply upd_same.
Qed.
(* a flush of a non-zero amount contributes exactly that amount to the specification state, at its one
   linearisation point; a flush of a zero amount contributes nothing *)
Lemma flush_effect (s : V O) b : spec_step O s (CFlush b) = Some (if vis_zero O (of_bits O b) then s else vadd O s (of_bits O b), RUnit).
Proof. reflexivity. Qed.
End Flush.

(* after a flush the local amount is zero, and flushing a zero amount is the no-op *)
Lemma flush_twice_int (v : N) : let '(c1, v1) := local_flush IntOps v in let '(c2, v2) := local_flush IntOps v1 in
  c1 = CFlush v /\ plan_of IntOps c2 = Some PNoop /\ v2 = 0%N.
Proof. cbn. auto. Qed.
Lemma flush_twice_float (v : flt) : let '(c1, v1) := local_flush FloatOps v in let '(c2, v2) := local_flush FloatOps v1 in
  c1 = CFlush (f2bits v) /\ plan_of FloatOps c2 = Some PNoop /\ v2 = 0%float.
Proof. cbn [local_flush FloatOps to_bits vzero]. split; [reflexivity|]. split; [|reflexivity].
  cbn [plan_of FloatOps vis_zero of_bits V].
  replace (PrimFloat.eqb (bits2f (f2bits 0)) 0) with true by (vm_compute; reflexivity). reflexivity.
Qed.
