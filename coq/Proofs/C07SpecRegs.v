(* Layer C1 of the C07/C14 spec proofs: the registry operations, the executable domain of the
   theorems, and the correspondence between the registries the spec tracks from the operations
   ([reginfo]) and the registries of the world. *)
Require Import PV.Base.Prelude PV.Base.Utf8 PV.Base.Fnv PV.Base.F64 PV.Base.StrFacts PV.Base.SortFacts.
Require Import PV.Model.Proto PV.Model.Desc PV.Model.Value PV.Model.Hist PV.Model.Vec PV.Model.Registry PV.Model.World.
Require Import PV.Proofs.DescFacts PV.Proofs.GatherFacts PV.Proofs.C07SpecGather PV.Proofs.C07SpecLabels PV.Proofs.C07SpecHist
               PV.Proofs.C07SpecWorld PV.Proofs.C07SpecShape PV.Proofs.C07SpecStep.
Require Import PV.Spec.SpecC07.
From Coq Require Import Permutation Sorting.Sorted.
Open Scope N_scope.

(* ====================================================================================== *)
(* The domain.                                                                             *)
(* ====================================================================================== *)
(* same-name descriptors already registered must be compatible with the new one *)
Definition register_compat (S : sigs) (rc : regcore collector) (d : Desc) : bool :=
  forallb (fun kc => negb (str_eqb (d_fq_name (cdescS S (snd kc))) (d_fq_name d)) || desc_compat (cdescS S (snd kc)) d) (r_collectors rc).
Definition op_dyn (w : world) (regs : list reginfo) (o : op) (ob : obs) : bool :=
  match o, ob with
  | OpRegister r s, ORes (Ok _) =>
      match slot w r, collector_of w (slot w s) with
      | HRegistry ri, Some (c, _) =>
          match nth_error (w_reg w) ri with
          | Some rc => register_compat (sigs_of w) rc (cdescS (sigs_of w) c)
          | None => true
          end
      | _, _ => true
      end
  | OpUnregister r s, ORes (Ok _) =>
      match ri_find r regs with Some x => existsb (Nat.eqb s) (ri_members x) | None => true end
  | _, _ => true
  end.
Definition track (w : world) (regs : list reginfo) (o : op) (ob : obs) : list reginfo :=
  match o, ob with
  | OpRegistry p l, ORes (Ok _) => mkRI (length (w_slots w)) p l [] :: regs
  | OpRegister r s, ORes (Ok _) => ri_update r (fun m => s :: m) regs
  | OpUnregister r s, ORes (Ok _) => ri_update r (remove_nat s) regs
  | _, _ => regs
  end.
Fixpoint dom_walk (w : world) (regs : list reginfo) (ops : list op) : bool :=
  match ops with
  | [] => true
  | o :: ops' =>
      let ob := snd (step w o) in
      op_lang o && clone_ok w o && op_dyn w regs o ob && dom_walk (fst (step w o)) (track w regs o ob) ops'
  end.
(* The domain of the theorems:
   - operations of the covered sub-language (no local metrics, timers, OpDrop, OpCustom), const
     labels given as maps (distinct keys), registries not cloned;
   - a registration the model accepts finds the same-name descriptors of the registry compatible
     (same help and same label names - what the dimension hash enforces absent an FNV collision -
     with the same names being constant labels);
   - an unregistration the model accepts names a slot that was registered (the spec identifies
     collectors with slots). *)
Definition dom07 (ops : list op) : bool := dom_walk world0 [] ops.

(* ====================================================================================== *)
(* Registry operations.                                                                    *)
(* ====================================================================================== *)
Lemma FOP_snoc {A} (R : A -> A -> Prop) l x : ForallOrdPairs R l -> Forall (fun a => R a x) l -> ForallOrdPairs R (l ++ [x]).
Proof.
  intros F; induction F as [|a l Ha F IH]; intros H; cbn; [repeat constructor|]. inversion H; subst. constructor; auto.
  apply Forall_app. split; auto.
Qed.
Lemma FOP_sub_nremove {V} (R : N * V -> N * V -> Prop) k l : ForallOrdPairs R l -> ForallOrdPairs R (nremove k l).
Proof.
  intros F; induction F as [|[k' v'] l Ha F IH]; cbn; [constructor|]. destruct (k =? k'); auto. constructor; auto.
  eapply Forall_sub; [|exact Ha]. intros x. apply nremove_sub.
Qed.

Lemma reg_register_single {C} (rc : regcore C) d c rc' : reg_register rc [d] c = Ok rc' ->
  nlookup (collector_id [d]) (r_collectors rc) = None
  /\ r_collectors rc' = r_collectors rc ++ [(collector_id [d], c)] /\ r_prefix rc' = r_prefix rc /\ r_labels rc' = r_labels rc.
Proof.
  unfold reg_register. cbn [reg_check_descs].
  destruct (memN (d_id d) (r_desc_ids rc)); [discriminate|].
  destruct (match r_labels rc with Some common => _ | None => false end); [discriminate|].
  destruct (match match alookup (d_fq_name d) (r_dim_hashes rc) with Some h => Some h | None => alookup (d_fq_name d) [] end with
            | Some h => negb (h =? d_dim d) | None => false end); [discriminate|].
  cbn [memN]. change (collector_id [d]) with (ids_hash [d_id d]).
  destruct (nlookup (ids_hash [d_id d]) (r_collectors rc)); [discriminate|]. intros H. inversion H. cbn. auto.
Qed.
Lemma reg_unregister_spec {C} (rc : regcore C) ds rc' : reg_unregister rc ds = Ok rc' ->
  r_collectors rc' = nremove (collector_id ds) (r_collectors rc) /\ r_prefix rc' = r_prefix rc /\ r_labels rc' = r_labels rc.
Proof.
  unfold reg_unregister. destruct (nlookup (collector_id ds) (r_collectors rc)); [|discriminate]. intros H. inversion H. cbn. auto.
Qed.

Lemma register_regwf S rc d c rc' : regwf S rc -> clibS S c -> d = cdescS S c -> register_compat S rc d = true ->
  reg_register rc [d] c = Ok rc' -> regwf S rc'.
Proof.
  intros (F & ND & FO) L Ed Hc H. apply reg_register_single in H as (Hn & Ec & _ & _). unfold regwf. rewrite Ec. split; [|split].
  - apply Forall_app. split; auto. constructor; auto. cbn. split; auto. unfold ckeyS. rewrite Ed. reflexivity.
  - rewrite map_app. cbn. apply NoDup_app_intro; auto; [repeat constructor; auto|]. intros x [<-|[]]. apply nlookup_None_notin. exact Hn.
  - apply FOP_snoc; auto. unfold register_compat in Hc. rewrite forallb_forall in Hc. apply Forall_forall. intros kc Hkc.
    specialize (Hc kc Hkc). unfold compat_rel. cbn [snd]. rewrite <- Ed. intros En. rewrite En, str_eqb_refl in Hc. exact Hc.
Qed.
Lemma unregister_regwf S (rc : regcore collector) ds rc' : regwf S rc -> reg_unregister rc ds = Ok rc' -> regwf S rc'.
Proof.
  intros (F & ND & FO) H. apply reg_unregister_spec in H as (Ec & _ & _). unfold regwf. rewrite Ec. split; [|split].
  - eapply Forall_sub; [|exact F]. intros x. apply nremove_sub.
  - apply nremove_nodup. exact ND.
  - apply FOP_sub_nremove. exact FO.
Qed.

(* ====================================================================================== *)
(* Tracked registries.                                                                     *)
(* ====================================================================================== *)
Definition cof (w : world) (s : nat) : collector := cofh (slot w s).
Definition reg_of (w : world) (x : reginfo) : option (regcore collector) :=
  match nth_error (w_slots w) (ri_slot x) with
  | Some (HRegistry ri) => nth_error (w_reg w) ri
  | _ => None
  end.
Definition RI1 (w : world) (x : reginfo) : Prop :=
  exists rc, reg_of w x = Some rc
    /\ r_prefix rc = ri_prefix x /\ r_labels rc = option_map (@amap_of str) (ri_labels x)
    /\ Permutation (map snd (r_collectors rc)) (map (cof w) (ri_members x))
    /\ Forall (fun s => (s < length (w_slots w))%nat /\ is_coll (slot w s) = true) (ri_members x).
Definition RI (w : world) (regs : list reginfo) : Prop := Forall (RI1 w) regs.
Definition Tracked (w : world) (regs : list reginfo) : Prop :=
  forall s ri, nth_error (w_slots w) s = Some (HRegistry ri) -> exists x, In x regs /\ ri_slot x = s.

Lemma slot_prefix w w' s : prefix (w_slots w) (w_slots w') -> (s < length (w_slots w))%nat -> slot w' s = slot w s.
Proof. intros [c E] H. unfold slot. rewrite E. apply app_nth1. exact H. Qed.
Lemma slot_nth w s h : nth_error (w_slots w) s = Some h -> slot w s = h.
Proof. intros H. unfold slot. apply nth_error_nth. exact H. Qed.
Lemma slot_coll_lt w s : is_coll (slot w s) = true -> (s < length (w_slots w))%nat.
Proof.
  intros H. destruct (Nat.ltb s (length (w_slots w))) eqn:E; [apply Nat.ltb_lt; auto|]. apply Nat.ltb_ge in E.
  unfold slot in H. rewrite nth_overflow in H by lia. discriminate.
Qed.

Lemma RI1_frame w w' x : prefix (w_slots w) (w_slots w') ->
  (forall ri rc, nth_error (w_reg w) ri = Some rc -> nth_error (w_reg w') ri = Some rc) -> RI1 w x -> RI1 w' x.
Proof.
  intros P Hr (rc & Er & Ep & El & Pm & Fm). exists rc. unfold reg_of in *.
  destruct (nth_error (w_slots w) (ri_slot x)) as [h|] eqn:E; [|discriminate]. rewrite (prefix_nth _ _ _ _ P E).
  destruct h; try discriminate. split; [apply Hr; auto|]. split; auto. split; auto. split.
  - replace (map (cof w') (ri_members x)) with (map (cof w) (ri_members x)); auto. apply map_ext_in. intros s Hs.
    rewrite Forall_forall in Fm. unfold cof. rewrite (slot_prefix w w' s P); auto. apply Fm; auto.
  - eapply Forall_impl; [|exact Fm]. intros s [A B]. rewrite (slot_prefix w w' s P A). split; auto.
    pose proof (prefix_length _ _ P). lia.
Qed.
Lemma Tracked_same w w' regs : w_slots w' = w_slots w -> Tracked w regs -> Tracked w' regs.
Proof. intros E T s ri. rewrite E. apply T. Qed.
Lemma Tracked_push w w' regs h : w_slots w' = w_slots w ++ [h] -> not_registry h -> Tracked w regs -> Tracked w' regs.
Proof.
  intros E Nr T s ri H. rewrite E in H. destruct (Nat.ltb s (length (w_slots w))) eqn:El.
  - apply Nat.ltb_lt in El. rewrite nth_error_app1 in H by auto. eapply T; eauto.
  - apply Nat.ltb_ge in El. rewrite nth_error_app2 in H by auto. destruct (s - length (w_slots w))%nat as [|k]; cbn in H.
    + inversion H. exfalso. eapply Nr; eauto.
    + destruct k; discriminate.
Qed.

(* registry handles are unique *)
Lemma regslots_unique sl : NoDup (regslots sl) -> forall s s' r,
  nth_error sl s = Some (HRegistry r) -> nth_error sl s' = Some (HRegistry r) -> s = s'.
Proof.
  induction sl as [|h t IH]; intros ND s s' r H1 H2; [destruct s; discriminate|].
  assert (NDt : NoDup (regslots t)).
  { change (h :: t) with ([h] ++ t) in ND. rewrite regslots_app in ND. eapply NoDup_app_r; eauto. }
  assert (Hin : forall j, nth_error t j = Some (HRegistry r) -> In r (regslots t)).
  { intros j Hj. unfold regslots. apply in_flat_map. exists (HRegistry r). split; [eapply nth_error_In; eauto|left; auto]. }
  destruct s, s'; cbn in H1, H2; auto.
  - inversion H1; subst h. cbn in ND. inversion ND; subst. exfalso. apply H3. eapply Hin; eauto.
  - inversion H2; subst h. cbn in ND. inversion ND; subst. exfalso. apply H3. eapply Hin; eauto.
  - f_equal. eapply IH; eauto.
Qed.
Lemma WI_reg_unique w s s' r : WI w -> nth_error (w_slots w) s = Some (HRegistry r) -> nth_error (w_slots w) s' = Some (HRegistry r) -> s = s'.
Proof. intros W. apply regslots_unique. rewrite (wi_regslots _ W). apply seq_NoDup. Qed.

Lemma ri_find_some r regs x : ri_find r regs = Some x -> In x regs /\ ri_slot x = r.
Proof.
  induction regs as [|y t IH]; cbn; [discriminate|]. destruct (Nat.eqb (ri_slot y) r) eqn:E.
  - intros H. inversion H; subst. apply Nat.eqb_eq in E. auto.
  - intros H. destruct (IH H). auto.
Qed.
Lemma ri_find_none r regs : ri_find r regs = None -> forall x, In x regs -> ri_slot x <> r.
Proof.
  induction regs as [|y t IH]; cbn; [tauto|]. destruct (Nat.eqb (ri_slot y) r) eqn:E; [discriminate|]. apply Nat.eqb_neq in E.
  intros H x [<-|Hx]; auto.
Qed.

Lemma remove_nat_perm s l : In s l -> Permutation l (s :: remove_nat s l).
Proof.
  induction l as [|x l IH]; cbn; [tauto|]. destruct (Nat.eqb x s) eqn:E.
  - apply Nat.eqb_eq in E. subst. auto.
  - apply Nat.eqb_neq in E. intros [H|H]; [congruence|]. rewrite (IH H) at 1. apply perm_swap.
Qed.
Lemma remove_nat_sub s l x : In x (remove_nat s l) -> In x l.
Proof. induction l as [|y l IH]; cbn; auto. destruct (Nat.eqb y s); cbn; intros H; auto. destruct H; auto. Qed.
Lemma nremove_split {V} k (c : V) cs : NoDup (map fst cs) -> In (k, c) cs ->
  exists l1 l2, cs = l1 ++ (k, c) :: l2 /\ nremove k cs = l1 ++ l2.
Proof.
  induction cs as [|[k' c'] cs IH]; cbn; [tauto|]. intros ND. inversion ND as [|? ? Nk ND']; subst. intros [E|H].
  - inversion E; subst. rewrite N.eqb_refl. exists [], cs. split; auto.
    clear -Nk. induction cs as [|[k2 c2] cs IH]; cbn; auto. cbn in Nk. destruct (k =? k2) eqn:E.
    + apply N.eqb_eq in E. subst. tauto.
    + f_equal. apply IH. tauto.
  - destruct (k =? k') eqn:E.
    + apply N.eqb_eq in E. subst. exfalso. apply Nk. apply in_map_iff. exists (k', c). auto.
    + destruct (IH ND' H) as (l1 & l2 & -> & En). exists ((k', c') :: l1), l2. cbn. rewrite En. auto.
Qed.

(* the three registry operations on a tracked registry *)
Lemma RI_newreg w p l r regs : WI w -> RI w regs -> r = mkReg [] [] [] (option_map (@amap_of str) l) p ->
  RI (push_slot (set_reg w (w_reg w ++ [r])) (HRegistry (length (w_reg w)))) (mkRI (length (w_slots w)) p l [] :: regs).
Proof.
  intros W R Er. constructor.
  - exists r. unfold reg_of. cbn [ri_slot push_slot set_slots set_reg w_slots w_reg].
    rewrite nth_error_app2 by lia. rewrite Nat.sub_diag. cbn [nth_error]. rewrite nth_error_app2 by lia. rewrite Nat.sub_diag. cbn.
    rewrite Er. cbn. repeat split; auto.
  - eapply Forall_impl; [|exact R]. intros x. apply RI1_frame.
    + cbn. apply prefix_snoc.
    + intros ri rc H. cbn. rewrite nth_error_app1; auto. apply nth_error_Some. congruence.
Qed.
Lemma RI_setreg_other w ri rc' x : WI w -> RI1 w x -> (forall rc, reg_of w x = Some rc -> nth_error (w_slots w) (ri_slot x) <> Some (HRegistry ri)) ->
  RI1 (set_reg w (list_set (w_reg w) ri rc')) x.
Proof.
  intros W (rc & Er & Rest) Hn. exists rc. split; [|exact Rest]. unfold reg_of in *. cbn [set_reg w_slots w_reg].
  destruct (nth_error (w_slots w) (ri_slot x)) as [h|] eqn:E; [|discriminate]. destruct h; try discriminate.
  rewrite nth_list_set_neq; auto. intros ->. eapply Hn; eauto.
Qed.
