(* C06  the executable spec written from the property text (Spec/SpecC06.v) holds of the model.

   A. descriptors: the spec's structural descriptors (constructor arguments) against the model's
      Desc values built by Desc::new - the spec's "equal" / "agree" / "clashes" are the
      boolean forms of same_id / same_dim / clashes of C06Facts;
   B. verdicts: the spec's expected result kind against spec_register / spec_unregister of the
      abstract registry of C06Facts;
   C. the world: an invariant relating the spec's replay state (slots, abstract registries) to the
      world model, preserved by every operation of the domain; the theorem. *)
Require Import PV.Base.Prelude PV.Base.StrFacts PV.Base.SortFacts PV.Base.Utf8 PV.Base.Fnv PV.Base.F64.
Require Import PV.Model.Proto PV.Model.Desc PV.Model.Value PV.Model.Hist PV.Model.Vec PV.Model.Registry PV.Model.World.
Require Import PV.Proofs.DescFacts PV.Proofs.C06Facts PV.Proofs.C06More.
Require Import PV.Spec.SpecC15 PV.Spec.SpecC07 PV.Spec.SpecC06.
From Coq Require Import Permutation Lia.
Open Scope N_scope.

(* ====================================================================================== *)
(* 0. list facts                                                                           *)
(* ====================================================================================== *)
Lemma insert_by_map {A B} (f : A -> B) (leb : B -> B -> bool) x l :
  map f (insert_by (fun a b => leb (f a) (f b)) x l) = insert_by leb (f x) (map f l).
Proof. induction l as [|y l IH]; cbn; auto. destruct (leb (f x) (f y)); cbn; auto. rewrite IH. reflexivity. Qed.
Lemma sort_by_map {A B} (f : A -> B) (leb : B -> B -> bool) l :
  map f (sort_by (fun a b => leb (f a) (f b)) l) = sort_by leb (map f l).
Proof. induction l as [|y l IH]; cbn; auto. rewrite insert_by_map. unfold sort_by in IH. rewrite IH. reflexivity. Qed.

Lemma F2_existsb {A B} (R : A -> B -> Prop) (f : A -> bool) (g : B -> bool) l l' :
  Forall2 R l l' -> (forall a b, R a b -> f a = g b) -> existsb f l = existsb g l'.
Proof. intros F H. induction F; cbn; auto. rewrite (H _ _ H0), IHF. reflexivity. Qed.
Lemma F2_forallb {A B} (R : A -> B -> Prop) (f : A -> bool) (g : B -> bool) l l' :
  Forall2 R l l' -> (forall a b, R a b -> f a = g b) -> forallb f l = forallb g l'.
Proof. intros F H. induction F; cbn; auto. rewrite (H _ _ H0), IHF. reflexivity. Qed.
Lemma F2_filter {A B} (R : A -> B -> Prop) (f : A -> bool) (g : B -> bool) l l' :
  Forall2 R l l' -> (forall a b, R a b -> f a = g b) -> Forall2 R (filter f l) (filter g l').
Proof. intros F H. induction F; cbn; auto. rewrite (H _ _ H0). destruct (g y); auto. Qed.
Lemma F2_length {A B} (R : A -> B -> Prop) l l' : Forall2 R l l' -> length l = length l'.
Proof. induction 1; cbn; auto. Qed.
Lemma F2_app {A B} (R : A -> B -> Prop) a a' b b' : Forall2 R a a' -> Forall2 R b b' -> Forall2 R (a ++ b) (a' ++ b').
Proof. induction 1; cbn; auto. Qed.
Lemma existsb_concat {A} (f : A -> bool) ls : existsb f (concat ls) = existsb (existsb f) ls.
Proof. induction ls as [|l ls IH]; cbn; auto. rewrite existsb_app, IH. reflexivity. Qed.
Lemma existsb_map' {A B} (g : A -> B) (f : B -> bool) l : existsb f (map g l) = existsb (fun x => f (g x)) l.
Proof. induction l as [|a l IH]; cbn; auto. rewrite IH. reflexivity. Qed.
Lemma existsb_ext_iff {A} (f : A -> bool) l l' : (forall x, In x l <-> In x l') -> existsb f l = existsb f l'.
Proof.
  intros H. apply eq_true_iff_eq. rewrite !existsb_exists. split; intros (x & Hx & E); exists x; split; auto; apply H; auto.
Qed.

(* the keys of a map built by successive inserts are the keys inserted *)
Lemma amap_of_keys {V} (kvs : list (str * V)) x : In x (map fst (amap_of kvs)) <-> In x (map fst kvs).
Proof.
  assert (K : forall (m : list (str * V)), In x (map fst m) <-> alookup x m <> None).
  { intros m. rewrite alookup_None. destruct (in_dec (list_eq_dec N.eq_dec) x (map fst m)); tauto. }
  rewrite K. change (amap_of kvs) with (fold_left ains kvs []). rewrite alookup_fold_ainsert. cbn [alookup].
  rewrite (in_rev (map fst kvs)), <- map_rev, K. destruct (alookup x (rev kvs)); split; congruence.
Qed.

(* two elements of a list satisfy f  <->  the filter has at least two elements *)
Lemma filter_two {A} (f : A -> bool) l :
  Nat.ltb 1 (length (filter f l)) = true <->
  exists l1 x l2 y l3, l = l1 ++ x :: l2 ++ y :: l3 /\ f x = true /\ f y = true.
Proof.
  split.
  - induction l as [|a l IH]; cbn; [discriminate|]. destruct (f a) eqn:E.
    + cbn [length]. intros H. destruct (filter f l) as [|b t] eqn:Ef; [discriminate|].
      assert (Hb : In b (filter f l)) by (rewrite Ef; left; auto). apply filter_In in Hb as [Hb Hfb].
      apply in_split in Hb as (l2 & l3 & ->). exists [], a, l2, b, l3. auto.
    + intros H. destruct (IH H) as (l1 & x & l2 & y & l3 & -> & Hx & Hy). exists (a :: l1), x, l2, y, l3. auto.
  - intros (l1 & x & l2 & y & l3 & -> & Hx & Hy). rewrite filter_app. cbn [filter]. rewrite Hx, filter_app. cbn [filter]. rewrite Hy.
    rewrite app_length. cbn [length]. rewrite app_length. cbn [length]. apply Nat.ltb_lt. lia.
Qed.
Lemma FOP_split {A} (R : A -> A -> Prop) l :
  ForallOrdPairs R l <-> forall l1 x l2 y l3, l = l1 ++ x :: l2 ++ y :: l3 -> R x y.
Proof.
  split.
  - induction 1 as [|a l Ha F IH]; intros l1 x l2 y l3 E.
    + destruct l1; discriminate.
    + destruct l1 as [|b l1]; cbn in E; inversion E; subst.
      * rewrite Forall_forall in Ha. apply Ha. apply in_or_app. right. left. auto.
      * eapply IH. reflexivity.
  - induction l as [|a l IH]; intros H; constructor.
    + apply Forall_forall. intros y Hy. apply in_split in Hy as (l2 & l3 & ->). apply (H [] a l2 y l3). reflexivity.
    + apply IH. intros l1 x l2 y l3 ->. apply (H (a :: l1) x l2 y l3). reflexivity.
Qed.

(* ====================================================================================== *)
(* A. descriptors                                                                          *)
(* ====================================================================================== *)
(* the model's Desc of a descriptor written in the scenario *)
Definition srel (sd : sdesc) (D : Desc) : Prop :=
  desc_new (sd_fq sd) (sd_help sd) (sd_vars sd) (amap_of (sd_consts sd)) = Some D.
Definition rel : list sdesc -> list Desc -> Prop := Forall2 srel.

Lemma srel_fields sd D : srel sd D ->
  d_fq_name D = sd_fq sd /\ d_help D = sd_help sd /\ d_vars D = sd_vars sd /\ d_const_pairs D = cpairs (amap_of (sd_consts sd)).
Proof. intros H. apply desc_new_inv in H as (_ & _ & _ & names & _ & ->). cbn. auto. Qed.

Lemma srel_cvalues sd D : srel sd D -> cvalues D = map snd (sorted_pairs (sd_consts sd)).
Proof.
  intros H. apply srel_fields in H as (_ & _ & _ & E). unfold cvalues. rewrite E. unfold cpairs, sorted_pairs.
  rewrite <- (sort_by_map (fun kv : str * str => mkLP (fst kv) (snd kv)) lp_leb). rewrite map_map. reflexivity.
Qed.
Lemma srel_cnames sd D x : srel sd D -> (In x (cnames_of D) <-> In x (map fst (sd_consts sd))).
Proof.
  intros H. apply srel_fields in H as (_ & _ & _ & E). unfold cnames_of. rewrite E, cpairs_names.
  rewrite <- (amap_of_keys (sd_consts sd) x). split; apply Permutation_in; [|apply Permutation_sym]; apply cnames_perm.
Qed.

Lemma srel_same_id a Da b Db : srel a Da -> srel b Db ->
  same_identity (sd_fq a) (sd_consts a) (sd_fq b) (sd_consts b) = same_idb Da Db.
Proof.
  intros Ha Hb. unfold same_identity, same_idb. rewrite (srel_cvalues _ _ Ha), (srel_cvalues _ _ Hb).
  apply srel_fields in Ha as (-> & _). apply srel_fields in Hb as (-> & _). reflexivity.
Qed.
Lemma set_eqb_ext a a' b b' :
  (forall x, In x a <-> In x a') -> (forall x, In x b <-> In x b') -> C06Facts.set_eqb a b = C06Facts.set_eqb a' b'.
Proof.
  intros Ha Hb. apply eq_true_iff_eq. rewrite !set_eqb_spec. split; intros H x.
  - rewrite <- Ha, <- Hb. apply H.
  - rewrite Ha, Hb. apply H.
Qed.
Lemma srel_same_dim a Da b Db : srel a Da -> srel b Db ->
  same_dims (sd_help a) (sd_vars a) (sd_consts a) (sd_help b) (sd_vars b) (sd_consts b) = same_dimb Da Db.
Proof.
  intros Ha Hb. unfold same_dims, same_dimb. change SpecC15.set_eqb with C06Facts.set_eqb.
  rewrite (set_eqb_ext (cnames_of Da) (map fst (sd_consts a)) (cnames_of Db) (map fst (sd_consts b)))
    by (intros x; apply srel_cnames; auto).
  apply srel_fields in Ha as (_ & -> & -> & _). apply srel_fields in Hb as (_ & -> & -> & _). reflexivity.
Qed.
Lemma srel_disagrees a Da b Db : srel a Da -> srel b Db -> disagrees false a b = name_disagrees Da Db.
Proof.
  intros Ha Hb. unfold disagrees, name_disagrees, eq_sig. rewrite (srel_same_dim _ _ _ _ Ha Hb).
  apply srel_fields in Ha as (-> & _). apply srel_fields in Hb as (-> & _). reflexivity.
Qed.
Lemma srel_eq_ident a Da b Db : srel a Da -> srel b Db -> eq_ident false a b = same_idb Da Db.
Proof. intros Ha Hb. unfold eq_ident. apply srel_same_id; auto. Qed.

Lemma srel_label_names sd D x : srel sd D -> (In x (desc_label_names D) <-> In x (sd_label_names sd)).
Proof.
  intros H. unfold desc_label_names, sd_label_names. rewrite !in_app_iff. fold (cnames_of D). rewrite (srel_cnames sd D x H).
  rewrite amap_of_keys. apply srel_fields in H as (_ & _ & -> & _). tauto.
Qed.
Lemma srel_clashes l sd D : srel sd D ->
  clashes (match l with Some l => Some (amap_of l) | None => None end) D
  = match l with
    | Some l => existsb (fun n => existsb (fun kv => str_eqb n (fst kv)) l) (sd_label_names sd)
    | None => false
    end.
Proof.
  intros H. destruct l as [l|]; cbn [clashes]; auto.
  rewrite (existsb_ext_iff _ _ (sd_label_names sd) (fun x => srel_label_names sd D x H)).
  apply existsb_ext_in. intros n _. apply eq_true_iff_eq. rewrite existsb_exists. split.
  - destruct (alookup n (amap_of l)) eqn:E; [|discriminate]. intros _.
    assert (Hin : In n (map fst (amap_of l))) by (intros; destruct (in_dec (list_eq_dec N.eq_dec) n (map fst (amap_of l))); auto; apply alookup_None in n0; congruence).
    apply (proj1 (amap_of_keys l n)) in Hin. apply in_map_iff in Hin as (kv & <- & Hkv). exists kv. split; auto. apply str_eqb_refl.
  - intros (kv & Hkv & E). apply str_eqb_eq in E. subst n.
    destruct (alookup (fst kv) (amap_of l)) eqn:E; auto. apply alookup_None in E. exfalso. apply E. apply (proj2 (amap_of_keys l (fst kv))). apply in_map. exact Hkv.
Qed.

Lemma rel_same_coll a Da b Db : rel a Da -> rel b Db -> same_collector false a b = same_collb Da Db.
Proof.
  intros Ha Hb. unfold same_collector, same_collb. f_equal.
  - apply (F2_forallb srel _ _ _ _ Ha). intros x X Hx. apply (F2_existsb srel _ _ _ _ Hb). intros y Y Hy. apply srel_eq_ident; auto.
  - apply (F2_forallb srel _ _ _ _ Hb). intros x X Hx. apply (F2_existsb srel _ _ _ _ Ha). intros y Y Hy. apply srel_eq_ident; auto.
Qed.

(* ====================================================================================== *)
(* B. verdicts                                                                             *)
(* ====================================================================================== *)
Definition cur_rel (a : list (collector * list sdesc)) (b : list (list Desc * collector)) : Prop :=
  Forall2 (fun e f => fst e = snd f /\ rel (snd e) (fst f)) a b.
(* the spec's abstract registry x and the abstract registry st of C06Facts are the same thing *)
Definition areg_rel (x : areg) (st : sstate collector) : Prop := cur_rel (ar_cur x) (s_cur st) /\ rel (ar_ever x) (s_hist st).
Definition mlabels (x : areg) : option (list (str * str)) := match ar_labels x with Some l => Some (amap_of l) | None => None end.

(* the expected result kind, computed on the model's descriptors *)
Definition d_eqr (st : sstate collector) (d : Desc) : bool := existsb (same_idb d) (cur_descs st).
Definition d_obj (st : sstate collector) labels (ds : list Desc) (d : Desc) : bool :=
  clashes labels d || existsb (fun d' => name_disagrees d' d) (s_hist st) || existsb (fun d' => name_disagrees d' d) ds
  || Nat.ltb 1 (length (filter (same_idb d) ds)).
Definition d_expected (st : sstate collector) labels (ds : list Desc) : expect :=
  match existsb (d_eqr st) ds, existsb (fun d => negb (d_eqr st d) && d_obj st labels ds d) ds with
  | false, false => if registered_b st ds then XAlready else XOk
  | true, false => XAlready
  | false, true => XOtherErr
  | true, true => XAnyErr
  end.

Lemma eqr_corr x st sd D : areg_rel x st -> srel sd D -> eq_registered false x sd = d_eqr st D.
Proof.
  intros [Hc _] H. unfold eq_registered, d_eqr, cur_descs. rewrite existsb_concat, existsb_map'.
  apply (F2_existsb _ _ _ _ _ Hc). intros e f [_ Hr]. apply (F2_existsb srel _ _ _ _ Hr). intros y Y Hy. apply srel_eq_ident; auto.
Qed.
Lemma registered_corr x st sds Ds : areg_rel x st -> rel sds Ds -> SpecC06.coll_registered false x sds = registered_b st Ds.
Proof.
  intros [Hc _] H. unfold SpecC06.coll_registered, registered_b. apply (F2_existsb _ _ _ _ _ Hc). intros e f [_ Hr]. apply rel_same_coll; auto.
Qed.
Lemma obj_corr x st sds Ds sd D : areg_rel x st -> rel sds Ds -> srel sd D ->
  SpecC06.objection false x sds sd = d_obj st (mlabels x) Ds D.
Proof.
  intros [_ He] Hr H. unfold SpecC06.objection, d_obj, clashes_common, mlabels. rewrite (srel_clashes (ar_labels x) sd D H).
  f_equal; [f_equal; [f_equal|]|].
  - apply (F2_existsb srel _ _ _ _ He). intros y Y Hy. apply srel_disagrees; auto.
  - apply (F2_existsb srel _ _ _ _ Hr). intros y Y Hy. apply srel_disagrees; auto.
  - f_equal. apply (F2_length srel). apply F2_filter; auto. intros y Y Hy. apply srel_eq_ident; auto.
Qed.
Lemma expected_corr x st sds Ds : areg_rel x st -> rel sds Ds ->
  expected_register false x sds = d_expected st (mlabels x) Ds.
Proof.
  intros A Hr. unfold expected_register, d_expected.
  rewrite (F2_existsb srel (eq_registered false x) (d_eqr st) _ _ Hr) by (intros; apply eqr_corr; auto).
  rewrite (F2_existsb srel (fun d => negb (eq_registered false x d) && SpecC06.objection false x sds d)
                           (fun d => negb (d_eqr st d) && d_obj st (mlabels x) Ds d) _ _ Hr)
    by (intros a b Hab; rewrite (eqr_corr x st a b A Hab), (obj_corr x st sds Ds a b A Hr Hab); reflexivity).
  rewrite (registered_corr x st sds Ds A Hr). reflexivity.
Qed.

(* ---- the expected kind is the kind spec_register returns ---- *)
Lemma same_idb_refl d : same_idb d d = true. Proof. apply same_idb_spec, same_id_refl. Qed.
Lemma same_idb_sym a b : same_idb a b = same_idb b a.
Proof. apply eq_true_iff_eq. rewrite !same_idb_spec. split; apply same_id_sym. Qed.

Section Verdict.
  Variables (st : sstate collector) (labels : option (list (str * str))).

  Lemma fine_no_objection ds :
    descs_fine st labels ds <-> forall d, In d ds -> d_eqr st d = false /\ d_obj st labels ds d = false.
  Proof.
    unfold descs_fine. split.
    - intros (H1 & H2 & H3 & H4 & H5) d Hd. split.
      + destruct (d_eqr st d) eqn:E; auto. apply equal_registered_b in E. exfalso. eapply H1; eauto.
      + unfold d_obj. rewrite (H2 d Hd). cbn [orb].
        assert (E1 : existsb (fun d' => name_disagrees d' d) (s_hist st) = false)
          by (apply existsb_false_iff; intros d' Hd'; apply name_disagrees_false; auto).
        assert (E2 : existsb (fun d' => name_disagrees d' d) ds = false)
          by (apply existsb_false_iff; intros d' Hd'; apply name_disagrees_false; auto).
        rewrite E1, E2. cbn [orb]. destruct (Nat.ltb 1 (length (filter (same_idb d) ds))) eqn:E3; auto.
        apply filter_two in E3 as (l1 & x & l2 & y & l3 & E & Hx & Hy). exfalso.
        apply (proj1 (FOP_split _ ds) H5 l1 x l2 y l3 E). apply same_idb_spec in Hx, Hy.
        eapply same_id_trans; [apply same_id_sym; exact Hy|exact Hx].
    - intros H. split; [|split; [|split; [|split]]].
      + intros d Hd He. apply equal_registered_b in He. destruct (H d Hd). unfold d_eqr in *. congruence.
      + intros d Hd. destruct (H d Hd) as [_ Ho]. unfold d_obj in Ho. rewrite !orb_false_iff in Ho. tauto.
      + intros d d' Hd Hd'. destruct (H d Hd) as [_ Ho]. unfold d_obj in Ho. rewrite !orb_false_iff in Ho.
        apply name_disagrees_false. destruct Ho as [[[_ Ho] _] _]. apply (proj1 (existsb_false_iff _ _) Ho d' Hd').
      + intros d d' Hd Hd'. destruct (H d Hd) as [_ Ho]. unfold d_obj in Ho. rewrite !orb_false_iff in Ho.
        apply name_disagrees_false. destruct Ho as [[_ Ho] _]. apply (proj1 (existsb_false_iff _ _) Ho d' Hd').
      + apply FOP_split. intros l1 x l2 y l3 E Hs. assert (Hy : In y ds) by (subst ds; apply in_or_app; right; right; apply in_or_app; right; left; auto).
        destruct (H y Hy) as [_ Ho]. unfold d_obj in Ho. rewrite !orb_false_iff in Ho. destruct Ho as [_ Ho].
        assert (T : Nat.ltb 1 (length (filter (same_idb y) ds)) = true).
        { apply filter_two. exists l1, x, l2, y, l3. split; auto. split; [apply same_idb_spec; exact Hs|apply same_idb_refl]. }
        congruence.
  Qed.

  Lemma msg_has_objection ds a d b :
    ds = a ++ d :: b -> a_verdict st labels a d = Some EMsg -> d_eqr st d = false /\ d_obj st labels ds d = true.
  Proof.
    intros E H. apply a_verdict_Msg in H as [Hn Ho]. split.
    - destruct (d_eqr st d) eqn:Ee; auto. apply equal_registered_b in Ee. contradiction.
    - unfold d_obj. destruct Ho as [Ho|[(d' & I & En & Hd)|[(d' & I & En & Hd)|(d' & I & Hs)]]].
      + rewrite Ho. reflexivity.
      + assert (X : existsb (fun d' => name_disagrees d' d) (s_hist st) = true)
          by (apply existsb_exists; exists d'; split; auto; apply name_disagrees_true; auto).
        rewrite X, !orb_true_r. reflexivity.
      + assert (X : existsb (fun d' => name_disagrees d' d) ds = true).
        { apply existsb_exists. exists d'. split; [subst ds; apply in_or_app; auto|]. apply name_disagrees_true. auto. }
        rewrite X, !orb_true_r. reflexivity.
      + assert (X : Nat.ltb 1 (length (filter (same_idb d) ds)) = true).
        { apply filter_two. apply in_split in I as (a1 & a2 & ->). exists a1, d', a2, d, b. split.
          - subst ds. rewrite <- app_assoc. reflexivity.
          - split; [apply same_idb_spec; exact Hs|apply same_idb_refl]. }
        rewrite X, !orb_true_r. reflexivity.
  Qed.

  Theorem expected_is_spec_register ds c :
    res_matches (d_expected st labels ds) (ORes (res_unit (spec_register st labels ds c))) = true.
  Proof.
    unfold d_expected, spec_register.
    destruct (existsb (d_eqr st) ds) eqn:EA; destruct (existsb (fun d => negb (d_eqr st d) && d_obj st labels ds d) ds) eqn:EM.
    - (* both: some error *)
      destruct (first_by (a_verdict st labels) [] ds) as [e|] eqn:F; [destruct e; reflexivity|].
      apply a_first_fine in F. pose proof (proj1 (fine_no_objection ds) F) as F0. clear F. rename F0 into F. apply existsb_exists in EA as (d & Hd & E). destruct (F d Hd). congruence.
    - (* only equal descriptors: AlreadyReg *)
      destruct (first_by (a_verdict st labels) [] ds) as [e|] eqn:F.
      + pose proof F as F'. apply first_by_Some in F' as (a & d & b & E & _ & Hv). cbn [app] in Hv.
        destruct (a_verdict_kinds st labels a d e Hv) as [->| ->]; [reflexivity|].
        destruct (msg_has_objection ds a d b E Hv) as [H1 H2]. exfalso.
        assert (X : existsb (fun d => negb (d_eqr st d) && d_obj st labels ds d) ds = true).
        { apply existsb_exists. exists d. split; [subst ds; apply in_or_app; right; left; auto|]. rewrite H1, H2. reflexivity. }
        congruence.
      + apply a_first_fine in F. pose proof (proj1 (fine_no_objection ds) F) as F0. clear F. rename F0 into F. apply existsb_exists in EA as (d & Hd & E). destruct (F d Hd). congruence.
    - (* only other objections: not AlreadyReg *)
      destruct (first_by (a_verdict st labels) [] ds) as [e|] eqn:F.
      + pose proof F as F'. apply first_by_Some in F' as (a & d & b & E & _ & Hv). cbn [app] in Hv.
        destruct (a_verdict_kinds st labels a d e Hv) as [->| ->]; [|reflexivity].
        apply a_verdict_AlreadyReg, equal_registered_b in Hv. exfalso.
        assert (X : existsb (d_eqr st) ds = true) by (apply existsb_exists; exists d; split; [subst ds; apply in_or_app; right; left; auto|exact Hv]).
        congruence.
      + apply a_first_fine in F. pose proof (proj1 (fine_no_objection ds) F) as F0. clear F. rename F0 into F. apply existsb_exists in EM as (d & Hd & E). destruct (F d Hd) as [H1 H2].
        rewrite H1, H2 in E. discriminate.
    - (* no objection at all *)
      assert (F : first_by (a_verdict st labels) [] ds = None).
      { apply a_first_fine, fine_no_objection. intros d Hd.
        pose proof (proj1 (existsb_false_iff _ _) EA d Hd) as H1. pose proof (proj1 (existsb_false_iff _ _) EM d Hd) as H2. cbn in H2.
        rewrite H1 in H2. cbn in H2. auto. }
      rewrite F. destruct (registered_b st ds); reflexivity.
  Qed.
End Verdict.

(* ====================================================================================== *)
(* C. the world                                                                            *)
(* ====================================================================================== *)
(* ---- the domain of the theorem ---- *)
(* the constant labels of an Opts value are a HashMap: distinct keys (the harness and the
   generators always build them with amap_of) *)
Definition opts_ok (o : Opts) : bool := nodup_str (map fst (o_consts o)).
Definition op_ok (o : op) : bool :=
  match o with
  | OpCounter _ o' | OpGauge _ o' | OpCounterVec _ o' _ | OpGaugeVec _ o' _ => opts_ok o'
  | OpHistogram ho | OpHistVec ho _ => opts_ok (ho_common ho)
  | OpCustom _ _ | OpPulling _ _ _ | OpRegistry _ _ | OpRegister _ _ | OpUnregister _ _ | OpGather _ => true
  | OpInc _ | OpIncBy _ _ | OpDec _ | OpAdd _ _ | OpSub _ _ | OpSet _ _ | OpGet _ | OpObserve _ _ => true
  | OpDesc _ _ _ _ | OpFqName _ _ _ | OpLinearBuckets _ _ _ | OpExpBuckets _ _ _ => true
  | OpReset _ | OpSampleSum _ | OpSampleCount _ | OpCollect _ | OpDescOf _ => true
  | _ => false
  end.
Definition not_hung (ob : obs) : bool := match ob with OHung => false | _ => true end.
Definition in_domain (ops : list op) : bool := forallb op_ok ops && forallb not_hung (run world0 ops).

(* the descriptors the model builds for a constructor operation *)
Definition one (o : option Desc) : option (list Desc) := match o with Some d => Some [d] | None => None end.
Definition op_descs (o : op) : option (list Desc) :=
  match o with
  | OpCounter _ o' | OpGauge _ o' => one (describe o')
  | OpCounterVec _ o' ls | OpGaugeVec _ o' ls => one (describe (opts_with_vars o' ls))
  | OpHistogram ho => one (describe (ho_common ho))
  | OpHistVec ho ls => one (describe (opts_with_vars (ho_common ho) ls))
  | OpPulling n h _ => one (desc_new n h [] [])
  | OpCustom ds _ => build_descs ds
  | _ => None
  end.
Definition pool_colls (ops : list op) : list (list Desc) :=
  flat_map (fun o => match op_descs o with Some l => [l] | None => [] end) ops.
(* executable form of ids_exact_on / dims_exact_on / cids_exact_on over the history's descriptors *)
Definition no_collision (ops : list op) : bool :=
  ids_exact_list_b (concat (pool_colls ops)) && dims_exact_list_b (concat (pool_colls ops)) && cids_exact_list_b (pool_colls ops).

Lemma amap_of_id_gen {V} (l : list (str * V)) : forall acc,
  NoDup (map fst (acc ++ l)) -> fold_left (fun m kv => ainsert (fst kv) (snd kv) m) l acc = acc ++ l.
Proof.
  induction l as [|[k v] l IH]; intros acc ND; cbn [fold_left].
  - rewrite app_nil_r. reflexivity.
  - assert (E : alookup k acc = None).
    { apply alookup_None. intros Hin. rewrite map_app in ND. cbn in ND. apply NoDup_remove_2 in ND. apply ND. apply in_or_app. auto. }
    cbv beta. cbn [fst snd]. replace (ainsert k v acc) with (acc ++ [(k, v)]) by (unfold ainsert; rewrite E; reflexivity).
    rewrite IH; rewrite <- app_assoc; [reflexivity|exact ND].
Qed.
Lemma amap_of_id {V} (l : list (str * V)) : NoDup (map fst l) -> amap_of l = l.
Proof. intros ND. unfold amap_of. rewrite amap_of_id_gen; auto. Qed.

Lemma opts_srel o vars D : opts_ok o = true -> desc_new (opts_fq_name o) (o_help o) vars (o_consts o) = Some D -> srel (opts_sdesc o vars) D.
Proof. intros Hok H. unfold srel, opts_sdesc. cbn [sd_fq sd_help sd_vars sd_consts]. rewrite amap_of_id; auto. apply nodup_str_NoDup. exact Hok. Qed.
Lemma build_descs_rel ds : forall l, build_descs ds = Some l -> rel ds l.
Proof.
  induction ds as [|[[[fq help] vars] consts] ds IH]; intros l H; cbn in H.
  - inversion H. constructor.
  - destruct (desc_new fq help vars (amap_of consts)) as [d|] eqn:E; [|discriminate].
    destruct (build_descs ds) as [l'|]; [|discriminate]. inversion H; subst. constructor; [exact E|apply IH; reflexivity].
Qed.

(* ====================================================================================== *)
(* G. gather: the samples of the gathered families are the collected samples               *)
(* ====================================================================================== *)
Definition is_equiv {A} (e : A -> A -> bool) : Prop :=
  (forall a, e a a = true) /\ (forall a b, e a b = true -> e b a = true)
  /\ (forall a b c, e a b = true -> e b c = true -> e a c = true).
Lemma equiv_on {A B} (f : A -> B) e : is_equiv e -> is_equiv (fun a b => e (f a) (f b)).
Proof. intros (R & S & T). repeat split; intros; eauto. Qed.
Lemma equiv_and {A} (e1 e2 : A -> A -> bool) : is_equiv e1 -> is_equiv e2 -> is_equiv (fun a b => e1 a b && e2 a b).
Proof.
  intros (R1 & S1 & T1) (R2 & S2 & T2). repeat split.
  - intros a. rewrite R1, R2. reflexivity.
  - intros a b H. apply andb_true_iff in H as [H1 H2]. rewrite (S1 _ _ H1), (S2 _ _ H2). reflexivity.
  - intros a b c H H'. apply andb_true_iff in H as [H1 H2]. apply andb_true_iff in H' as [H1' H2'].
    rewrite (T1 _ _ _ H1 H1'), (T2 _ _ _ H2 H2'). reflexivity.
Qed.
Lemma equiv_of_iff {A} (e : A -> A -> bool) : (forall a b, e a b = true <-> a = b) -> is_equiv e.
Proof.
  intros H. repeat split.
  - intros a. apply H. reflexivity.
  - intros a b E. apply H. symmetry. apply H. exact E.
  - intros a b c E1 E2. apply H. apply H in E1, E2. congruence.
Qed.
Lemma equiv_list {A} (e : A -> A -> bool) : is_equiv e -> is_equiv (list_eqb e).
Proof.
  intros (R & S & T). repeat split.
  - intros a. induction a; cbn; auto. rewrite R, IHa. reflexivity.
  - intros a. induction a as [|x a IH]; intros [|y b] H; cbn in *; try discriminate; auto.
    apply andb_true_iff in H as [H1 H2]. rewrite (S _ _ H1), (IH _ H2). reflexivity.
  - intros a. induction a as [|x a IH]; intros [|y b] [|z c] H H'; cbn in *; try discriminate; auto.
    apply andb_true_iff in H as [H1 H2]. apply andb_true_iff in H' as [H1' H2']. rewrite (T _ _ _ H1 H1'), (IH _ _ H2 H2'). reflexivity.
Qed.
Lemma equiv_opt {A} (e : A -> A -> bool) : is_equiv e -> is_equiv (opt_eqb e).
Proof.
  intros (R & S & T). repeat split.
  - intros [a|]; cbn; auto.
  - intros [a|] [b|] H; cbn in *; try discriminate; auto.
  - intros [a|] [b|] [c|] H H'; cbn in *; try discriminate; eauto.
Qed.
Lemma equiv_N : is_equiv N.eqb. Proof. apply equiv_of_iff. apply N.eqb_eq. Qed.
Lemma equiv_Z : is_equiv Z.eqb. Proof. apply equiv_of_iff. apply Z.eqb_eq. Qed.
Lemma equiv_str : is_equiv str_eqb. Proof. apply equiv_of_iff. apply str_eqb_eq. Qed.
Lemma equiv_f64 : is_equiv f64_eqb. Proof. apply (equiv_on f2bits N.eqb equiv_N). Qed.
Lemma equiv_metric : is_equiv metric_eqb.
Proof.
  unfold metric_eqb.
  repeat (apply (equiv_and (A := Metric))).
  - apply (equiv_on m_label), equiv_list. apply equiv_and; [apply (equiv_on lp_name), equiv_str|apply (equiv_on lp_value), equiv_str].
  - apply (equiv_on m_gauge), equiv_opt, equiv_f64.
  - apply (equiv_on m_counter), equiv_opt, equiv_f64.
  - apply (equiv_on m_summary), equiv_opt. unfold summary_eqb. repeat (apply (equiv_and (A := Summary))).
    + apply (equiv_on s_count), equiv_N.
    + apply (equiv_on s_sum), equiv_f64.
    + apply (equiv_on s_quantile), equiv_list. apply equiv_and; [apply (equiv_on q_quantile), equiv_f64|apply (equiv_on q_value), equiv_f64].
  - apply (equiv_on m_untyped), equiv_opt, equiv_f64.
  - apply (equiv_on m_histogram), equiv_opt. unfold hist_eqb. repeat (apply (equiv_and (A := Histogram))).
    + apply (equiv_on h_count), equiv_N.
    + apply (equiv_on h_sum), equiv_f64.
    + apply (equiv_on h_bucket), equiv_list. apply equiv_and; [apply (equiv_on b_cum), equiv_N|apply (equiv_on b_upper), equiv_f64].
  - apply (equiv_on m_ts), equiv_opt, equiv_Z.
Qed.
Lemma equiv_sample : is_equiv sample_eqb.
Proof. unfold sample_eqb. apply equiv_and; [apply (equiv_on fst), equiv_str|apply (equiv_on snd), equiv_metric]. Qed.

Section MS.
  Context {A : Type} (e : A -> A -> bool) (He : is_equiv e).
  Let E (a b : A) : Prop := e a b = true.
  Definition msR (a b : list A) : Prop := exists c, Permutation a c /\ Forall2 E c b.

  Lemma remove_first_some x l :
    (exists y, In y l /\ e x y = true) -> exists l1 y l2, l = l1 ++ y :: l2 /\ e x y = true /\ remove_first e x l = Some (l1 ++ l2).
  Proof.
    induction l as [|z l IH]; intros (y & Hy & Ey); [destruct Hy|]. cbn [remove_first]. destruct (e x z) eqn:Ez.
    - exists [], z, l. auto.
    - destruct Hy as [->|Hy]; [congruence|]. destruct (IH (ex_intro _ y (conj Hy Ey))) as (l1 & y0 & l2 & -> & E0 & ->).
      exists (z :: l1), y0, l2. auto.
  Qed.
  Lemma F2_perm_r c b b' : Forall2 E c b -> Permutation b b' -> exists c', Permutation c c' /\ Forall2 E c' b'.
  Proof.
    intros F Pm. revert c F. induction Pm; intros c F.
    - inversion F; subst. exists []. auto.
    - inversion F as [|u ? c0 ? Hu F0]; subst. destruct (IHPm c0 F0) as (c' & P' & F'). exists (u :: c'). auto.
    - inversion F as [|u ? c0 ? Hu F0]; subst. inversion F0 as [|v ? c1 ? Hv F1]; subst. exists (v :: u :: c1). split; [apply perm_swap|auto].
    - destruct (IHPm1 c F) as (c1 & P1 & F1). destruct (IHPm2 c1 F1) as (c2 & P2 & F2). exists c2. split; [eapply Permutation_trans; eauto|auto].
  Qed.
  Lemma msR_perm_r a b b' : msR a b -> Permutation b b' -> msR a b'.
  Proof.
    intros (c & Pc & F) Pm. destruct (F2_perm_r c b b' F Pm) as (c' & P' & F'). exists c'. split; [eapply Permutation_trans; eauto|auto].
  Qed.
  Lemma msR_head a y y' b : msR a (y :: b) -> E y y' -> msR a (y' :: b).
  Proof.
    intros (c & Pc & F) Hy. inversion F as [|u ? c0 ? Hu F0]; subst. exists (u :: c0). split; auto. constructor; auto.
    destruct He as (_ & _ & T). exact (T _ _ _ Hu Hy).
  Qed.
  Lemma perm_cons_cases (y y' : A) B B' :
    Permutation (y :: B) (y' :: B') -> (y = y' /\ Permutation B B') \/ (exists B0, Permutation B (y' :: B0) /\ Permutation B' (y :: B0)).
  Proof.
    intros Pm. assert (Hin : In y' (y :: B)) by (eapply Permutation_in; [apply Permutation_sym; exact Pm|left; auto]).
    destruct Hin as [->|Hin].
    - left. split; auto. eapply Permutation_cons_inv; eauto.
    - right. apply in_split in Hin as (B1 & B2 & ->). exists (B1 ++ B2). split; [apply Permutation_sym, Permutation_middle|].
      apply Permutation_sym. apply (Permutation_cons_inv (a := y')).
      eapply Permutation_trans; [apply perm_swap|]. eapply Permutation_trans; [|exact Pm]. constructor. apply Permutation_middle.
  Qed.
  Lemma msR_cons x a' b : msR (x :: a') b -> exists y' B', Permutation b (y' :: B') /\ E x y' /\ msR a' B'.
  Proof.
    intros (c & Pc & F). assert (Hin : In x c) by (eapply Permutation_in; [exact Pc|left; auto]).
    apply in_split in Hin as (c1 & c2 & ->). apply Forall2_app_inv_l in F as (b1 & b2' & F1 & F2 & ->).
    inversion F2 as [|? y' ? b2 Hy F2']; subst. exists y', (b1 ++ b2). split; [apply Permutation_sym, Permutation_middle|]. split; auto.
    exists (c1 ++ c2). split; [eapply Permutation_cons_app_inv; exact Pc|apply F2_app; auto].
  Qed.
  Lemma ms_of_R a : forall b, msR a b -> multiset_eqb e a b = true.
  Proof.
    destruct He as (Rf & Sy & Tr). induction a as [|x a IH]; intros b H.
    - destruct H as (c & Pc & F). apply Permutation_nil in Pc. subst c. inversion F. reflexivity.
    - destruct (msR_cons x a b H) as (y' & B' & Pb & Hy' & HR). cbn [multiset_eqb].
      destruct (remove_first_some x b) as (l1 & y & l2 & -> & Hy & ->).
      { exists y'. split; auto. eapply Permutation_in; [apply Permutation_sym; exact Pb|left; auto]. }
      apply IH. assert (Pm : Permutation (y :: l1 ++ l2) (y' :: B')) by (eapply Permutation_trans; [apply Permutation_middle|exact Pb]).
      destruct (perm_cons_cases _ _ _ _ Pm) as [[-> P1]|(B0 & P1 & P2)].
      + eapply msR_perm_r; [exact HR|apply Permutation_sym; exact P1].
      + eapply msR_perm_r; [|apply Permutation_sym; exact P1]. apply (msR_head a y y' B0).
        * eapply msR_perm_r; [exact HR|exact P2].
        * exact (Tr _ _ _ (Sy _ _ Hy) Hy').
  Qed.
  Lemma ms_of_perm a b : Permutation a b -> multiset_eqb e a b = true.
  Proof.
    intros Pm. apply ms_of_R. exists b. split; auto. destruct He as (Rf & _). clear Pm. induction b; constructor; auto. apply Rf.
  Qed.
End MS.

Lemma flatten_app a b : flatten (a ++ b) = flatten a ++ flatten b.
Proof. unfold flatten. apply flat_map_app. Qed.
Lemma flatten_bt_insert mf m : Permutation (flatten (bt_insert mf m)) (flatten m ++ flatten [mf]).
Proof.
  induction m as [|x t IH]; cbn [bt_insert].
  - cbn. rewrite app_nil_r. apply Permutation_refl.
  - destruct (str_cmp (mf_name mf) (mf_name x)) eqn:Ec.
    + apply str_cmp_eq in Ec. change (x :: t) with ([x] ++ t). change (?a :: t) with ([a] ++ t). rewrite !flatten_app.
      unfold flatten at 1 3 5. cbn [flat_map mf_name mf_metric]. rewrite !app_nil_r, map_app, Ec.
      rewrite <- !app_assoc. apply Permutation_app_head. apply Permutation_app_comm.
    + change (mf :: x :: t) with ([mf] ++ (x :: t)). rewrite flatten_app. apply Permutation_app_comm.
    + change (x :: bt_insert mf t) with ([x] ++ bt_insert mf t). change (x :: t) with ([x] ++ t). rewrite !flatten_app, <- app_assoc.
      apply Permutation_app_head. exact IH.
Qed.
Lemma flatten_merge_gen l : forall m,
  Permutation (flatten (fold_left (fun m mf => if is_nil (mf_metric mf) then m else bt_insert mf m) l m)) (flatten m ++ flatten l).
Proof.
  induction l as [|mf l IH]; intros m; cbn [fold_left].
  - cbn. rewrite app_nil_r. apply Permutation_refl.
  - eapply Permutation_trans; [apply IH|]. change (mf :: l) with ([mf] ++ l). rewrite flatten_app, app_assoc.
    apply Permutation_app_tail. destruct (mf_metric mf) eqn:Em; cbn [is_nil].
    + unfold flatten at 3. cbn. rewrite Em. cbn. rewrite app_nil_r. apply Permutation_refl.
    + apply flatten_bt_insert.
Qed.
Lemma flatten_merge collected : Permutation (flatten (merge_families collected)) (flatten collected).
Proof. unfold merge_families. apply (flatten_merge_gen collected []). Qed.

Lemma flat_map_perm {A B} (f g : A -> list B) l : (forall x, Permutation (f x) (g x)) -> Permutation (flat_map f l) (flat_map g l).
Proof. intros H. induction l; cbn; auto. apply Permutation_app; auto. Qed.
Lemma flat_map_map_out {A B C} (f : A -> list B) (h : B -> C) l : flat_map (fun x => map h (f x)) l = map h (flat_map f l).
Proof. induction l; cbn; auto. rewrite map_app, IHl. reflexivity. Qed.

Definition relabel_sample (p : option str) (l : option (list (str * str))) (nm : sample) : sample :=
  (spec_prefix p (fst nm), spec_relabel (spec_common l) (snd nm)).
Lemma expected_samples_eq p l collected : expected_samples p l collected = map (relabel_sample p l) (flatten collected).
Proof.
  unfold expected_samples, flatten. rewrite <- flat_map_map_out. apply flat_map_ext. intros f. rewrite map_map. reflexivity.
Qed.
Lemma metric_eta m : mkMetric (m_label m) (m_gauge m) (m_counter m) (m_summary m) (m_untyped m) (m_histogram m) (m_ts m) = m.
Proof. destruct m; reflexivity. Qed.
Lemma gathered_family_samples p l g :
  let g' := apply_prefix_labels p (match l with Some l0 => Some (amap_of l0) | None => None end)
              (mkMF (mf_name g) (mf_help g) (mf_type g) (sort_by metric_leb (mf_metric g))) in
  map (fun m => (mf_name g', m)) (mf_metric g')
  = map (relabel_sample p l) (map (fun m => (mf_name g, m)) (sort_by metric_leb (mf_metric g))).
Proof.
  cbn zeta. unfold apply_prefix_labels. cbn [mf_name mf_metric]. rewrite map_map. unfold relabel_sample. cbn [fst snd].
  destruct l as [l0|].
  - rewrite map_map. apply map_ext. intros m. apply (f_equal2 pair).
    + destruct p; reflexivity.
    + unfold spec_relabel, spec_common. f_equal. f_equal.
      rewrite <- (sort_by_map (fun kv : str * str => mkLP (fst kv) (snd kv)) lp_leb). reflexivity.
  - apply map_ext. intros m. apply (f_equal2 pair).
    + destruct p; reflexivity.
    + unfold spec_relabel, spec_common. rewrite app_nil_r. symmetry. apply metric_eta.
Qed.
Theorem gather_samples p l collected :
  Permutation (expected_samples p l collected)
              (flatten (gather_families p (match l with Some l0 => Some (amap_of l0) | None => None end) collected)).
Proof.
  rewrite expected_samples_eq. unfold gather_families, flatten at 2. rewrite flat_map_concat_map, map_map, <- flat_map_concat_map.
  apply Permutation_sym.
  eapply Permutation_trans.
  { apply flat_map_perm. intros g. rewrite gathered_family_samples. apply Permutation_map, Permutation_map. apply sort_by_perm. }
  rewrite (flat_map_map_out (fun g => map (fun m => (mf_name g, m)) (mf_metric g)) (relabel_sample p l)).
  apply Permutation_map. apply flatten_merge.
Qed.
Theorem gather_multiset p l collected :
  multiset_eqb sample_eqb (expected_samples p l collected)
               (flatten (gather_families p (match l with Some l0 => Some (amap_of l0) | None => None end) collected)) = true.
Proof. apply (ms_of_perm sample_eqb equiv_sample). apply gather_samples. Qed.

Section Model.
  Variable ops0 : list op.                 (* the whole history: its descriptors are the pool *)
  Hypothesis NC : no_collision ops0 = true.
  Let P (d : Desc) : Prop := In d (concat (pool_colls ops0)).
  Let CP (ds : list Desc) : Prop := In ds (pool_colls ops0).
  Lemma CP_P ds d : CP ds -> In d ds -> P d.
  Proof. intros H Hd. apply in_concat. eauto. Qed.
  Lemma Hids : ids_exact_on P.
  Proof. unfold no_collision in NC. rewrite !andb_true_iff in NC. apply ids_exact_on_list. tauto. Qed.
  Lemma Hdims : dims_exact_on P.
  Proof. unfold no_collision in NC. rewrite !andb_true_iff in NC. apply dims_exact_on_list. tauto. Qed.
  Lemma Hcids : cids_exact_on CP.
  Proof. unfold no_collision in NC. rewrite !andb_true_iff in NC. apply cids_exact_on_list. tauto. Qed.
  Lemma op_descs_CP o l : In o ops0 -> op_descs o = Some l -> CP l.
  Proof. intros Ho E. apply in_flat_map. exists o. split; auto. rewrite E. left. auto. Qed.

  (* ---- the invariant ---- *)
  Definition reg_ok (w : world) (x : areg) : Prop :=
    exists ri rc st,
      (forall r, In r (ar_slots x) <-> slot w r = HRegistry ri)
      /\ nth_error (w_reg w) ri = Some rc
      /\ reg_abs st rc /\ st_in P CP st /\ areg_rel x st
      /\ r_labels rc = mlabels x /\ r_prefix rc = ar_prefix x.
  Definition Inv (w : world) (slots : list (option (list sdesc))) (regs : list areg) : Prop :=
    length slots = length (w_slots w)
    /\ (forall s sds, nth s slots None = Some sds -> exists c Ds, collector_of w (slot w s) = Some (c, Ds) /\ rel sds Ds /\ CP Ds)
    /\ (forall s, nth s slots None = None -> slot w s = HDead \/ exists ri, slot w s = HRegistry ri)
    /\ (forall s ri, slot w s = HRegistry ri -> (ri < length (w_reg w))%nat)
    /\ Forall (reg_ok w) regs.

  (* worlds that differ only in the values of the metrics *)
  Definition vext (w w' : world) : Prop :=
    (forall i x, nth_error (w_v w) i = Some x -> exists x', nth_error (w_v w') i = Some x' /\ vc_desc x' = vc_desc x)
    /\ (forall i x, nth_error (w_h w) i = Some x -> exists x', nth_error (w_h w') i = Some x' /\ hc_desc x' = hc_desc x)
    /\ (forall i x, nth_error (w_vec w) i = Some x -> exists x', nth_error (w_vec w') i = Some x' /\ v_desc x' = v_desc x).
  Definition frame (w w' : world) : Prop := vext w w' /\ w_reg w' = w_reg w /\ w_slots w' = w_slots w.

  Lemma vext_refl w : vext w w.
  Proof. repeat split; intros; eauto. Qed.
  Lemma vext_trans a b c : vext a b -> vext b c -> vext a c.
  Proof.
    intros (A1 & A2 & A3) (B1 & B2 & B3). repeat split; intros i x H.
    - destruct (A1 i x H) as (x' & H' & E). destruct (B1 i x' H') as (x'' & H'' & E'). exists x''. split; auto. congruence.
    - destruct (A2 i x H) as (x' & H' & E). destruct (B2 i x' H') as (x'' & H'' & E'). exists x''. split; auto. congruence.
    - destruct (A3 i x H) as (x' & H' & E). destruct (B3 i x' H') as (x'' & H'' & E'). exists x''. split; auto. congruence.
  Qed.
  Lemma frame_refl w : frame w w.
  Proof. split; [apply vext_refl|auto]. Qed.
  Lemma vext_collector_of w w' h c Ds : vext w w' -> collector_of w h = Some (c, Ds) -> collector_of w' h = Some (c, Ds).
  Proof.
    intros (A1 & A2 & A3) H. destruct h; cbn in *; try discriminate; auto.
    - destruct (nth_error (w_v w) c0) as [x|] eqn:E; [|discriminate]. destruct (A1 _ _ E) as (x' & -> & Ed). rewrite Ed. exact H.
    - destruct (nth_error (w_h w) c0) as [x|] eqn:E; [|discriminate]. destruct (A2 _ _ E) as (x' & -> & Ed). rewrite Ed. exact H.
    - destruct (nth_error (w_vec w) v) as [x|] eqn:E; [|discriminate]. destruct (A3 _ _ E) as (x' & -> & Ed). rewrite Ed. exact H.
  Qed.

  Lemma reg_ok_frame w w' x : frame w w' -> reg_ok w x -> reg_ok w' x.
  Proof.
    intros (_ & Er & Es) (ri & rc & st & H1 & H2 & H3). exists ri, rc, st. unfold slot in *. rewrite Er, Es. auto.
  Qed.
  Lemma inv_frame w w' slots regs : frame w w' -> Inv w slots regs -> Inv w' slots regs.
  Proof.
    intros F (I1 & I2 & I3 & I4 & I5). pose proof F as (V & Er & Es). unfold Inv, slot in *. rewrite Er, Es. repeat split; auto.
    - intros s sds H. destruct (I2 s sds H) as (c & Ds & H1 & H2). exists c, Ds. split; auto. eapply vext_collector_of; eauto.
    - eapply Forall_impl; [|exact I5]. intros x. apply reg_ok_frame. exact F.
  Qed.

  (* pushing a slot that is not a registry *)
  Lemma slot_push_old w h s : (s < length (w_slots w))%nat -> slot (push_slot w h) s = slot w s.
  Proof. intros H. unfold slot, push_slot. cbn. apply app_nth1. exact H. Qed.
  Lemma slot_push_new w h : slot (push_slot w h) (length (w_slots w)) = h.
  Proof. unfold slot, push_slot. cbn. rewrite app_nth2, Nat.sub_diag; auto. Qed.
  Lemma slot_push_beyond w h s : (length (w_slots w) < s)%nat -> slot (push_slot w h) s = HDead.
  Proof. intros H. unfold slot, push_slot. cbn. apply nth_overflow. rewrite app_length. cbn. lia. Qed.
  Lemma slot_beyond w s : (length (w_slots w) <= s)%nat -> slot w s = HDead.
  Proof. intros H. unfold slot. apply nth_overflow. exact H. Qed.
  Lemma collector_of_push w h h' : collector_of (push_slot w h) h' = collector_of w h'.
  Proof. destruct h'; reflexivity. Qed.

  Lemma slot_push_registry w h s ri :
    (forall r, h <> HRegistry r) -> (slot (push_slot w h) s = HRegistry ri <-> slot w s = HRegistry ri).
  Proof.
    intros Hh. destruct (Nat.lt_trichotomy s (length (w_slots w))) as [L|[->|L]].
    - rewrite slot_push_old; tauto.
    - rewrite slot_push_new, slot_beyond by lia. split; [intros E; destruct (Hh _ E)|discriminate].
    - rewrite slot_push_beyond, slot_beyond by lia. tauto.
  Qed.
  Lemma reg_ok_push w h x : (forall r, h <> HRegistry r) -> reg_ok w x -> reg_ok (push_slot w h) x.
  Proof.
    intros Hh (ri & rc & st & H1 & H2). exists ri, rc, st. split; [|exact H2].
    intros r. rewrite (slot_push_registry w h r ri Hh). apply H1.
  Qed.

  Lemma inv_push w slots regs h entry :
    Inv w slots regs ->
    match entry with
    | Some sds => exists c Ds, collector_of w h = Some (c, Ds) /\ rel sds Ds /\ CP Ds
    | None => h = HDead
    end ->
    Inv (push_slot w h) (slots ++ [entry]) regs.
  Proof.
    intros (I1 & I2 & I3 & I4 & I5) He.
    assert (Hh : forall r, h <> HRegistry r).
    { intros r ->. destruct entry as [sds|]; [|discriminate]. destruct He as (c & Ds & H & _). discriminate. }
    unfold Inv. split; [|split; [|split; [|split]]].
    - rewrite app_length. cbn. unfold push_slot. cbn. rewrite app_length. cbn. lia.
    - intros s sds H. destruct (Nat.lt_trichotomy s (length slots)) as [L|[->|L]].
      + rewrite app_nth1 in H by exact L. rewrite slot_push_old by lia. rewrite collector_of_push. apply I2. exact H.
      + rewrite app_nth2, Nat.sub_diag in H by lia. cbn in H. subst entry. rewrite I1, slot_push_new, collector_of_push. exact He.
      + rewrite nth_overflow in H; [discriminate|]. rewrite app_length. cbn. lia.
    - intros s H. destruct (Nat.lt_trichotomy s (length slots)) as [L|[->|L]].
      + rewrite app_nth1 in H by exact L. rewrite slot_push_old by lia. apply I3. exact H.
      + rewrite app_nth2, Nat.sub_diag in H by lia. cbn in H. subst entry. rewrite I1, slot_push_new. auto.
      + rewrite slot_push_beyond by lia. auto.
    - intros s ri H. apply (slot_push_registry w h s ri Hh) in H. apply (I4 s ri H).
    - eapply Forall_impl; [|exact I5]. intros x. apply reg_ok_push. exact Hh.
  Qed.

  (* ---- replay, one step at a time ---- *)
  Definition special (o : op) : bool :=
    match o with OpRegistry _ _ | OpClone _ | OpRegister _ _ | OpUnregister _ _ | OpGather _ => true | _ => false end.
  Lemma replay_plain o w slots regs ops' ob obs' : special o = false ->
    replay false w slots regs (o :: ops') (ob :: obs')
    = replay false (fst (step w o)) (match c6_slot o ob slots with Some e => slots ++ [e] | None => slots end) regs ops' obs'.
  Proof. intros H. destruct o; try discriminate H; reflexivity. Qed.

  Definition step_ok (w : world) slots regs (o : op) : Prop :=
    exists slots' regs', Inv (fst (step w o)) slots' regs'
      /\ forall ops' obs', replay false (fst (step w o)) slots' regs' ops' obs' = true ->
                           replay false w slots regs (o :: ops') (snd (step w o) :: obs') = true.

  Lemma step_ok_quiet o w slots regs :
    special o = false -> Inv w slots regs -> (forall ob, c6_slot o ob slots = None) -> frame w (fst (step w o)) -> step_ok w slots regs o.
  Proof.
    intros Hs I Hc F. exists slots, regs. split; [eapply inv_frame; eauto|].
    intros ops' obs' H. rewrite replay_plain by exact Hs. rewrite Hc. exact H.
  Qed.
  Lemma step_ok_push o w slots regs w1 h entry :
    special o = false -> Inv w slots regs -> frame w w1 -> fst (step w o) = push_slot w1 h ->
    c6_slot o (snd (step w o)) slots = Some entry ->
    match entry with
    | Some sds => exists c Ds, collector_of w1 h = Some (c, Ds) /\ rel sds Ds /\ CP Ds
    | None => h = HDead
    end -> step_ok w slots regs o.
  Proof.
    intros Hs I F E Hc He. exists (slots ++ [entry]), regs. split.
    - rewrite E. apply inv_push; auto. eapply inv_frame; eauto.
    - intros ops' obs' H. rewrite replay_plain by exact Hs. rewrite Hc. exact H.
  Qed.

  (* ---- value updates ---- *)
  Lemma c6_nth_error_list_set_neq {A} (l : list A) : forall i j x, i <> j -> nth_error (list_set l i x) j = nth_error l j.
  Proof. induction l as [|a l IH]; intros [|i] [|j] x H; cbn; auto; try congruence. Qed.
  Lemma c6_list_set_length {A} (l : list A) : forall i x, length (list_set l i x) = length l.
  Proof. induction l as [|a l IH]; intros [|i] x; cbn; auto. Qed.
  Lemma nth_error_upd {A} (l : list A) c f i x :
    nth_error l i = Some x -> exists x', nth_error (upd l c f) i = Some x' /\ (x' = x \/ x' = f x).
  Proof.
    intros H. unfold upd. destruct (nth_error l c) as [y|] eqn:E; [|eauto].
    destruct (Nat.eq_dec c i) as [->|Hn].
    - rewrite (c6_nth_error_list_set l i (f y) y E). exists (f y). split; auto. right. congruence.
    - rewrite c6_nth_error_list_set_neq by exact Hn. eauto.
  Qed.
  Lemma frame_upd_v w c f : (forall vc, vc_desc (f vc) = vc_desc vc) -> frame w (set_v w (upd (w_v w) c f)).
  Proof.
    intros Hf. split; [|auto]. split; [|split; intros; eauto]. cbn. intros i x H.
    destruct (nth_error_upd _ c f i x H) as (x' & H' & [->| ->]); eauto.
  Qed.
  Lemma frame_upd_h w c f : (forall h, hc_desc (f h) = hc_desc h) -> frame w (set_h w (upd (w_h w) c f)).
  Proof.
    intros Hf. split; [|auto]. split; [intros; eauto|split; [|intros; eauto]]. cbn. intros i x H.
    destruct (nth_error_upd _ c f i x H) as (x' & H' & [->| ->]); eauto.
  Qed.
  Lemma nth_error_snoc {A} (l : list A) y i x : nth_error l i = Some x -> nth_error (l ++ [y]) i = Some x.
  Proof. intros H. rewrite nth_error_app1; auto. apply nth_error_Some. congruence. Qed.
  Lemma nth_error_snoc_new {A} (l : list A) y : nth_error (l ++ [y]) (length l) = Some y.
  Proof. rewrite nth_error_app2, Nat.sub_diag; auto. Qed.
  Lemma frame_app_v w c : frame w (set_v w (w_v w ++ [c])).
  Proof. split; [|auto]. repeat split; intros i x H; cbn; eauto using nth_error_snoc. Qed.
  Lemma frame_app_h w c : frame w (set_h w (w_h w ++ [c])).
  Proof. split; [|auto]. repeat split; intros i x H; cbn; eauto using nth_error_snoc. Qed.
  Lemma frame_app_vec w c : frame w (set_vec w (w_vec w ++ [c])).
  Proof. split; [|auto]. repeat split; intros i x H; cbn; eauto using nth_error_snoc. Qed.

  (* every slot is a collector, dead, or a registry: nothing else is ever created in the domain *)
  Definition plain_handle (h : handle) : Prop :=
    match h with HDead | HValue _ | HHist _ | HVec _ | HRegistry _ | HCustom _ _ | HPulling _ _ => True | _ => False end.
  Lemma inv_plain w slots regs s : Inv w slots regs -> plain_handle (slot w s).
  Proof.
    intros (_ & I2 & I3 & _). destruct (nth s slots None) as [sds|] eqn:E.
    - destruct (I2 s sds E) as (c & Ds & H & _). destruct (slot w s); cbn in *; auto; discriminate.
    - destruct (I3 s E) as [->|[ri ->]]; cbn; auto.
  Qed.
  Lemma hc_observe_desc h v : hc_desc (hc_observe h v) = hc_desc h.
  Proof. unfold hc_observe, hc_set_shard, hc_set_claim. destruct (hc_hot h); reflexivity. Qed.

  Lemma frame_trans a b c : frame a b -> frame b c -> frame a c.
  Proof. intros (V1 & R1 & S1) (V2 & R2 & S2). split; [eapply vext_trans; eauto|]. split; congruence. Qed.
  Lemma hc_proto_desc h p h' : hc_proto h = Some (p, h') -> hc_desc h' = hc_desc h.
  Proof.
    unfold hc_proto. destruct (negb _); [discriminate|]. intros H. inversion H.
    unfold hc_set_shard, hc_set_claim. destruct (hc_hot h); reflexivity.
  Qed.
  Lemma collect_hist_frame w c m w' : collect_hist w c = Some (m, w') -> frame w w'.
  Proof.
    unfold collect_hist, hist_metric. destruct (nth_error (w_h w) c) as [h|] eqn:E; [|discriminate].
    destruct (hc_proto h) as [[p h']|] eqn:Ep; [|discriminate]. intros H. inversion H; subst. apply hc_proto_desc in Ep.
    split; [|auto]. split; [intros; eauto|split; [|intros; eauto]]. cbn. intros i x Hx.
    destruct (Nat.eq_dec c i) as [->|Hn].
    - rewrite (c6_nth_error_list_set _ i h' h E). exists h'. split; auto. congruence.
    - rewrite c6_nth_error_list_set_neq by exact Hn. eauto.
  Qed.
  Lemma collect_children_frame k cs : forall w ms w', collect_children w k cs = Some (ms, w') -> frame w w'.
  Proof.
    induction cs as [|[hh c] cs IH]; intros w ms w' H; cbn [collect_children] in H.
    - inversion H. apply frame_refl.
    - destruct k.
      + destruct (nth_error (w_v w) c); [|discriminate]. destruct (collect_children w (VKValue t k) cs) as [[ms1 w1]|] eqn:E; [|discriminate].
        inversion H; subst. eapply IH; eauto.
      + destruct (collect_hist w c) as [[m w1]|] eqn:E1; [|discriminate].
        destruct (collect_children w1 (VKHist buckets) cs) as [[ms1 w2]|] eqn:E2; [|discriminate]. inversion H; subst.
        eapply frame_trans; [eapply collect_hist_frame; eauto|eapply IH; eauto].
  Qed.
  Lemma collect_collector_frame w c fs w' : collect_collector w c = Some (fs, w') -> frame w w'.
  Proof.
    destruct c; cbn [collect_collector].
    - destruct (nth_error (w_v w) c); [|discriminate]. intros H. inversion H. apply frame_refl.
    - destruct (nth_error (w_h w) c); [|discriminate]. destruct (collect_hist w c) as [[m w1]|] eqn:E; [|discriminate].
      intros H. inversion H; subst. eapply collect_hist_frame; eauto.
    - destruct (nth_error (w_vec w) v) as [vc|]; [|discriminate].
      destruct (collect_children w (v_kind vc) (v_children vc)) as [[ms w1]|] eqn:E; [|discriminate].
      intros H. inversion H; subst. eapply collect_children_frame; eauto.
    - intros H. inversion H. apply frame_refl.
    - intros H. inversion H. apply frame_refl.
  Qed.
  Lemma frame_upd_vec w c f : (forall v, v_desc (f v) = v_desc v) -> frame w (set_vec w (upd (w_vec w) c f)).
  Proof.
    intros Hf. split; [|auto]. split; [intros; eauto|split; [intros; eauto|]]. cbn. intros i x H.
    destruct (nth_error_upd _ c f i x H) as (x' & H' & [->| ->]); eauto.
  Qed.
  Definition quiet (o : op) : bool :=
    match o with
    | OpInc _ | OpIncBy _ _ | OpDec _ | OpAdd _ _ | OpSub _ _ | OpSet _ _ | OpGet _ | OpObserve _ _ | OpDesc _ _ _ _ | OpFqName _ _ _
    | OpLinearBuckets _ _ _ | OpExpBuckets _ _ _ | OpReset _ | OpSampleSum _ | OpSampleCount _ | OpCollect _ | OpDescOf _ => true
    | _ => false
    end.
  Lemma quiet_frame o w slots regs : quiet o = true -> Inv w slots regs -> frame w (fst (step w o)).
  Proof.
    intros Hq I. destruct o; try discriminate Hq; cbn [step]; try apply frame_refl;
    try (match goal with |- context [collector_of w (slot w ?s)] =>
                destruct (collector_of w (slot w s)) as [[c0 ds0]|]; cbn [fst]; [|apply frame_refl] end;
              try apply frame_refl;
              match goal with |- context [collect_collector w ?c] =>
                destruct (collect_collector w c) as [[fs w']|] eqn:Ec; cbn [fst]; [eapply collect_collector_frame; eauto|apply frame_refl] end);
    match goal with |- context [slot w ?s] => pose proof (inv_plain w slots regs s I) as Hp end;
      destruct (slot w _); cbn in Hp; try contradiction; cbn [fst]; try apply frame_refl;
      try (apply frame_upd_v; intros; reflexivity); try (apply frame_upd_vec; intros; reflexivity);
      try (apply frame_upd_h; intros; apply hc_observe_desc);
      try (destruct (nth_error _ _); apply frame_refl).
  Qed.
  Lemma quiet_ok o w slots regs : quiet o = true -> Inv w slots regs -> step_ok w slots regs o.
  Proof.
    intros Hq I. apply step_ok_quiet; auto.
    - destruct o; try discriminate Hq; reflexivity.
    - intros ob. destruct o; try discriminate Hq; reflexivity.
    - eapply quiet_frame; eauto.
  Qed.

  (* ---- constructors ---- *)
  Lemma value_new_desc o t k c : value_new o t k [] = Ok c -> describe o = Some (vc_desc c).
  Proof.
    unfold value_new. destruct (describe o) as [d|]; [|discriminate]. destruct (make_label_pairs d []); [|discriminate].
    intros H. inversion H. reflexivity.
  Qed.
  Lemma hcore_new_desc o c : hcore_new o [] = Ok c -> describe (ho_common o) = Some (hc_desc c).
  Proof.
    unfold hcore_new, hopts_describe. destruct (describe (ho_common o)) as [d|]; [|discriminate].
    destruct (has_le_label d); [discriminate|]. destruct (make_label_pairs d []); [|discriminate].
    destruct (check_and_adjust_buckets (ho_buckets o)); [|discriminate]. intros H. inversion H. reflexivity.
  Qed.
  Lemma vec_create_desc o k v : vec_create o k = Ok v -> describe o = Some (v_desc v).
  Proof.
    unfold vec_create. destruct (match k with VKHist _ => _ | _ => false end); [discriminate|].
    destruct (describe o) as [d|]; [|discriminate]. intros H. inversion H. reflexivity.
  Qed.

  Definition ctor (o : op) : bool :=
    match o with
    | OpCounter _ _ | OpGauge _ _ | OpHistogram _ | OpCounterVec _ _ _ | OpGaugeVec _ _ _ | OpHistVec _ _ | OpCustom _ _ | OpPulling _ _ _ => true
    | _ => false
    end.

  Lemma ctor_value_ok o w slots regs k o' t :
    (o = OpCounter k o' /\ t = VCounter) \/ (o = OpGauge k o' /\ t = VGauge) ->
    op_ok o = true -> In o ops0 -> Inv w slots regs -> step_ok w slots regs o.
  Proof.
    intros Ho Hok Hin I.
    assert (St : step w o = match value_new o' t k [] with
                            | Ok c => (push_slot (set_v w (w_v w ++ [c])) (HValue (length (w_v w))), ORes (Ok tt))
                            | Err e => (push_slot w HDead, ORes (Err e))
                            end) by (destruct Ho as [[-> ->]|[-> ->]]; reflexivity).
    assert (Hd : op_descs o = one (describe o')) by (destruct Ho as [[-> _]|[-> _]]; reflexivity).
    assert (Hk : opts_ok o' = true) by (destruct Ho as [[-> _]|[-> _]]; exact Hok).
    assert (Hsp : special o = false) by (destruct Ho as [[-> _]|[-> _]]; reflexivity).
    assert (Hc : forall ob, c6_slot o ob slots = Some (if is_ok ob then Some [opts_sdesc o' (o_vars o')] else None))
      by (destruct Ho as [[-> _]|[-> _]]; reflexivity).
    destruct (value_new o' t k []) as [c|e] eqn:E.
    - apply (step_ok_push o w slots regs (set_v w (w_v w ++ [c])) (HValue (length (w_v w))) (Some [opts_sdesc o' (o_vars o')]) Hsp I).
      + apply frame_app_v.
      + rewrite St. reflexivity.
      + rewrite Hc, St. cbn. reflexivity.
      + pose proof (value_new_desc _ _ _ _ E) as Hdesc. exists (CValue (length (w_v w))), [vc_desc c]. split; [|split].
        * cbn. rewrite nth_error_snoc_new. reflexivity.
        * constructor; [|constructor]. apply opts_srel; auto.
        * apply (op_descs_CP o); auto. rewrite Hd, Hdesc. reflexivity.
    - apply (step_ok_push o w slots regs w HDead None Hsp I).
      + apply frame_refl.
      + rewrite St. reflexivity.
      + rewrite Hc, St. cbn. reflexivity.
      + reflexivity.
  Qed.

  Lemma ctor_hist_ok w slots regs ho :
    op_ok (OpHistogram ho) = true -> In (OpHistogram ho) ops0 -> Inv w slots regs -> step_ok w slots regs (OpHistogram ho).
  Proof.
    intros Hok Hin I. cbn in Hok.
    assert (St : step w (OpHistogram ho) = match hcore_new ho [] with
                            | Ok c => (push_slot (set_h w (w_h w ++ [c])) (HHist (length (w_h w))), ORes (Ok tt))
                            | Err e => (push_slot w HDead, ORes (Err e))
                            end) by reflexivity.
    destruct (hcore_new ho []) as [c|e] eqn:E.
    - apply (step_ok_push (OpHistogram ho) w slots regs (set_h w (w_h w ++ [c])) (HHist (length (w_h w))) (Some [opts_sdesc (ho_common ho) (o_vars (ho_common ho))]) eq_refl I).
      + apply frame_app_h.
      + rewrite St. reflexivity.
      + rewrite St. cbn. reflexivity.
      + pose proof (hcore_new_desc _ _ E) as Hdesc. exists (CHist (length (w_h w))), [hc_desc c]. split; [|split].
        * cbn. rewrite nth_error_snoc_new. reflexivity.
        * constructor; [|constructor]. apply opts_srel; auto.
        * apply (op_descs_CP (OpHistogram ho)); auto. cbn. rewrite Hdesc. reflexivity.
    - apply (step_ok_push (OpHistogram ho) w slots regs w HDead None eq_refl I).
      + apply frame_refl.
      + rewrite St. reflexivity.
      + rewrite St. cbn. reflexivity.
      + reflexivity.
  Qed.

  Lemma ctor_vec_ok o w slots regs o' ls vk :
    (exists k, o = OpCounterVec k o' ls /\ vk = VKValue VCounter k) \/ (exists k, o = OpGaugeVec k o' ls /\ vk = VKValue VGauge k)
    \/ (exists ho, o = OpHistVec ho ls /\ o' = ho_common ho /\ vk = VKHist (ho_buckets ho)) ->
    op_ok o = true -> In o ops0 -> Inv w slots regs -> step_ok w slots regs o.
  Proof.
    intros Ho Hok Hin I.
    assert (St : step w o = match vec_create (opts_with_vars o' ls) vk with
                            | Ok v => (push_slot (set_vec w (w_vec w ++ [v])) (HVec (length (w_vec w))), ORes (Ok tt))
                            | Err e => (push_slot w HDead, ORes (Err e))
                            end) by (destruct Ho as [(k & -> & ->)|[(k & -> & ->)|(ho & -> & -> & ->)]]; reflexivity).
    assert (Hd : op_descs o = one (describe (opts_with_vars o' ls)))
      by (destruct Ho as [(k & -> & _)|[(k & -> & _)|(ho & -> & -> & _)]]; reflexivity).
    assert (Hk : opts_ok o' = true) by (destruct Ho as [(k & -> & _)|[(k & -> & _)|(ho & -> & -> & _)]]; exact Hok).
    assert (Hsp : special o = false) by (destruct Ho as [(k & -> & _)|[(k & -> & _)|(ho & -> & -> & _)]]; reflexivity).
    assert (Hc : forall ob, c6_slot o ob slots = Some (if is_ok ob then Some [opts_sdesc o' ls] else None))
      by (destruct Ho as [(k & -> & _)|[(k & -> & _)|(ho & -> & -> & _)]]; reflexivity).
    destruct (vec_create (opts_with_vars o' ls) vk) as [v|e] eqn:E.
    - apply (step_ok_push o w slots regs (set_vec w (w_vec w ++ [v])) (HVec (length (w_vec w))) (Some [opts_sdesc o' ls]) Hsp I).
      + apply frame_app_vec.
      + rewrite St. reflexivity.
      + rewrite Hc, St. cbn. reflexivity.
      + pose proof (vec_create_desc _ _ _ E) as Hdesc. exists (CVec (length (w_vec w))), [v_desc v]. split; [|split].
        * cbn. rewrite nth_error_snoc_new. reflexivity.
        * constructor; [|constructor]. apply opts_srel; auto.
        * apply (op_descs_CP o); auto. rewrite Hd, Hdesc. reflexivity.
    - apply (step_ok_push o w slots regs w HDead None Hsp I).
      + apply frame_refl.
      + rewrite St. reflexivity.
      + rewrite Hc, St. cbn. reflexivity.
      + reflexivity.
  Qed.

  Lemma ctor_custom_ok w slots regs ds fams :
    In (OpCustom ds fams) ops0 -> Inv w slots regs -> step_ok w slots regs (OpCustom ds fams).
  Proof.
    intros Hin I.
    assert (St : step w (OpCustom ds fams) = match build_descs ds with
                            | Some l => (push_slot w (HCustom l fams), ORes (Ok tt))
                            | None => (push_slot w HDead, ORes (Err EMsg))
                            end) by reflexivity.
    destruct (build_descs ds) as [l|] eqn:E.
    - apply (step_ok_push (OpCustom ds fams) w slots regs w (HCustom l fams) (Some ds) eq_refl I).
      + apply frame_refl.
      + rewrite St. reflexivity.
      + rewrite St. cbn. reflexivity.
      + exists (CCustom l fams), l. split; [reflexivity|]. split; [apply build_descs_rel; exact E|].
        apply (op_descs_CP (OpCustom ds fams)); auto.
    - apply (step_ok_push (OpCustom ds fams) w slots regs w HDead None eq_refl I).
      + apply frame_refl.
      + rewrite St. reflexivity.
      + rewrite St. cbn. reflexivity.
      + reflexivity.
  Qed.
  Lemma ctor_pulling_ok w slots regs n h v :
    In (OpPulling n h v) ops0 -> Inv w slots regs -> step_ok w slots regs (OpPulling n h v).
  Proof.
    intros Hin I.
    assert (St : step w (OpPulling n h v) = match desc_new n h [] [] with
                            | Some d => (push_slot w (HPulling d v), ORes (Ok tt))
                            | None => (push_slot w HDead, ORes (Err EMsg))
                            end) by reflexivity.
    destruct (desc_new n h [] []) as [d|] eqn:E.
    - apply (step_ok_push (OpPulling n h v) w slots regs w (HPulling d v) (Some [(n, h, [], [])]) eq_refl I).
      + apply frame_refl.
      + rewrite St. reflexivity.
      + rewrite St. cbn. reflexivity.
      + exists (CPulling d v), [d]. split; [reflexivity|]. split; [constructor; [exact E|constructor]|].
        apply (op_descs_CP (OpPulling n h v)); auto. cbn. rewrite E. reflexivity.
    - apply (step_ok_push (OpPulling n h v) w slots regs w HDead None eq_refl I).
      + apply frame_refl.
      + rewrite St. reflexivity.
      + rewrite St. cbn. reflexivity.
      + reflexivity.
  Qed.

  (* ---- registries ---- *)
  Lemma has_slot_In r x : has_slot r x = true <-> In r (ar_slots x).
  Proof.
    unfold has_slot. rewrite existsb_exists. split.
    - intros (y & Hy & E). apply Nat.eqb_eq in E. subst. exact Hy.
    - intros H. exists r. split; auto. apply Nat.eqb_refl.
  Qed.
  Lemma find_reg_Some r regs x : find_reg r regs = Some x -> In x regs /\ has_slot r x = true.
  Proof.
    induction regs as [|y regs IH]; cbn; [discriminate|]. destruct (has_slot r y) eqn:E.
    - intros H. inversion H; subst. auto.
    - intros H. destruct (IH H). auto.
  Qed.
  Lemma find_reg_None r regs x : find_reg r regs = None -> In x regs -> has_slot r x = false.
  Proof.
    induction regs as [|y regs IH]; cbn; [intros _ []|]. destruct (has_slot r y) eqn:E; [discriminate|].
    intros H [->|Hx]; auto.
  Qed.
  Lemma reg_ok_slot w x r ri : reg_ok w x -> has_slot r x = true -> slot w r = HRegistry ri ->
    exists rc st, (forall r, In r (ar_slots x) <-> slot w r = HRegistry ri) /\ nth_error (w_reg w) ri = Some rc
      /\ reg_abs st rc /\ st_in P CP st /\ areg_rel x st /\ r_labels rc = mlabels x /\ r_prefix rc = ar_prefix x.
  Proof.
    intros (ri' & rc & st & H1 & H2) Hs Hr. apply has_slot_In in Hs. apply H1 in Hs. rewrite Hr in Hs. inversion Hs; subst ri'.
    exists rc, st. auto.
  Qed.

  (* the model replaces the registry at [ri] (reached through slot [r]); the spec updates the
     abstract registries that hold slot [r] *)
  Lemma reg_update w regs r ri rc rc' (f : areg -> areg) :
    slot w r = HRegistry ri -> nth_error (w_reg w) ri = Some rc ->
    Forall (reg_ok w) regs ->
    (forall x st, In x regs -> has_slot r x = true -> reg_abs st rc -> st_in P CP st -> areg_rel x st ->
                  r_labels rc = mlabels x -> r_prefix rc = ar_prefix x ->
       exists st', reg_abs st' rc' /\ st_in P CP st' /\ areg_rel (f x) st' /\ r_labels rc' = mlabels (f x)
                   /\ r_prefix rc' = ar_prefix (f x) /\ ar_slots (f x) = ar_slots x) ->
    Forall (reg_ok (set_reg w (list_set (w_reg w) ri rc'))) (upd_reg r f regs).
  Proof.
    intros Hr Hrc F Hf. unfold upd_reg. apply Forall_forall. intros y Hy. apply in_map_iff in Hy as (x & <- & Hx).
    rewrite Forall_forall in F. pose proof (F x Hx) as Hok. destruct (has_slot r x) eqn:E.
    - destruct (reg_ok_slot w x r ri Hok E Hr) as (rc0 & st & H1 & H2 & H3 & H4 & H5 & H6 & H7).
      rewrite Hrc in H2. inversion H2; subst rc0.
      destruct (Hf x st Hx E H3 H4 H5 H6 H7) as (st' & A & B & C & D & G & Hsl).
      exists ri, rc', st'. split; [|split; [|auto 6]].
      + intros r0. rewrite Hsl. apply H1.
      + cbn. eapply c6_nth_error_list_set. exact Hrc.
    - destruct Hok as (ri' & rc0 & st & H1 & H2 & H3). exists ri', rc0, st. split; [exact H1|]. split; [|exact H3].
      cbn. rewrite c6_nth_error_list_set_neq; auto. intros ->. apply H1 in Hr. apply has_slot_In in Hr. congruence.
  Qed.
  Lemma upd_reg_id r regs : upd_reg r (fun x => x) regs = regs.
  Proof. unfold upd_reg. induction regs as [|x regs IH]; cbn; auto. rewrite IH. destruct (has_slot r x); reflexivity. Qed.

  Lemma inv_set_reg w slots regs regs' ri rc' rc :
    Inv w slots regs -> nth_error (w_reg w) ri = Some rc ->
    Forall (reg_ok (set_reg w (list_set (w_reg w) ri rc'))) regs' ->
    Inv (set_reg w (list_set (w_reg w) ri rc')) slots regs'.
  Proof.
    intros (I1 & I2 & I3 & I4 & I5) Hrc F. unfold Inv. split; [exact I1|]. split; [|split; [exact I3|split; [|exact F]]].
    - intros s sds H. destruct (I2 s sds H) as (c & Ds & H1 & H2). exists c, Ds. split; [|exact H2].
      change (slot (set_reg w (list_set (w_reg w) ri rc')) s) with (slot w s). rewrite collector_of_set_reg. exact H1.
    - intros s ri0 H. cbn. rewrite c6_list_set_length. apply (I4 s ri0 H).
  Qed.

  Lemma replay_registry w slots regs p l ops' ob obs' :
    replay false w slots regs (OpRegistry p l :: ops') (ob :: obs')
    = replay false (fst (step w (OpRegistry p l))) (slots ++ [None])
             (if is_ok ob then mkAR [length slots] p l [] [] :: regs else regs) ops' obs'.
  Proof. reflexivity. Qed.
  Lemma registry_ok w slots regs p l : Inv w slots regs -> step_ok w slots regs (OpRegistry p l).
  Proof.
    intros I. pose proof I as (I1 & I2 & I3 & I4 & I5).
    set (labels := match l with Some l0 => Some (amap_of l0) | None => None end).
    assert (St : step w (OpRegistry p l) = match reg_new_custom p labels with
                   | Ok r => (push_slot (set_reg w (w_reg w ++ [r])) (HRegistry (length (w_reg w))), ORes (Ok tt))
                   | Err e => (push_slot w HDead, ORes (Err e))
                   end) by reflexivity.
    destruct (reg_new_custom p labels) as [rn|e] eqn:E.
    - exists (slots ++ [None]), (mkAR [length slots] p l [] [] :: regs). rewrite St. cbn [fst snd]. split; [|intros ops' obs' H; rewrite replay_registry, St; exact H].
      assert (Ern : rn = mkReg [] [] [] labels p).
      { unfold reg_new_custom in E. destruct (_ || _); inversion E. reflexivity. }
      set (w1 := set_reg w (w_reg w ++ [rn])). set (n := length (w_reg w)).
      assert (Hold : forall s, (s < length (w_slots w))%nat -> slot (push_slot w1 (HRegistry n)) s = slot w s)
        by (intros s Hs; apply (slot_push_old w1 (HRegistry n) s Hs)).
      assert (Hnew : slot (push_slot w1 (HRegistry n)) (length (w_slots w)) = HRegistry n) by apply (slot_push_new w1).
      assert (Hbey : forall s, (length (w_slots w) < s)%nat -> slot (push_slot w1 (HRegistry n)) s = HDead)
        by (intros s Hs; apply (slot_push_beyond w1 (HRegistry n) s Hs)).
      assert (Hreg : forall s ri, (ri < n)%nat -> (slot (push_slot w1 (HRegistry n)) s = HRegistry ri <-> slot w s = HRegistry ri)).
      { intros s ri Hri. destruct (Nat.lt_trichotomy s (length (w_slots w))) as [L|[->|L]].
        - rewrite Hold by exact L. tauto.
        - rewrite Hnew, slot_beyond by lia. split; [intros X; inversion X; lia|discriminate].
        - rewrite Hbey, slot_beyond by lia. tauto. }
      unfold Inv. split; [|split; [|split; [|split]]].
      + rewrite app_length. unfold push_slot. cbn. rewrite app_length. cbn. lia.
      + intros s sds H. destruct (Nat.lt_trichotomy s (length slots)) as [L|[->|L]].
        * rewrite app_nth1 in H by exact L. rewrite Hold by lia. rewrite collector_of_push. unfold w1. rewrite collector_of_set_reg. apply I2. exact H.
        * rewrite app_nth2, Nat.sub_diag in H by lia. discriminate.
        * rewrite nth_overflow in H; [discriminate|]. rewrite app_length. cbn. lia.
      + intros s H. destruct (Nat.lt_trichotomy s (length (w_slots w))) as [L|[->|L]].
        * rewrite Hold by exact L. apply I3. rewrite app_nth1 in H by lia. exact H.
        * rewrite Hnew. eauto.
        * rewrite Hbey by exact L. auto.
      + intros s ri H. unfold push_slot, w1. cbn. rewrite app_length. cbn. fold n.
        destruct (Nat.lt_trichotomy s (length (w_slots w))) as [L|[->|L]].
        * rewrite Hold in H by exact L. pose proof (I4 s ri H). lia.
        * rewrite Hnew in H. inversion H. lia.
        * rewrite Hbey in H by exact L. discriminate.
      + constructor.
        * exists n, rn, s_empty. split; [|split; [|split; [|split; [|split; [|split]]]]].
          -- intros r0. cbn [ar_slots In]. split.
             ++ intros [<-|[]]. rewrite I1. exact Hnew.
             ++ intros H. left. destruct (Nat.lt_trichotomy r0 (length (w_slots w))) as [L|[->|L]].
                ** rewrite Hold in H by exact L. pose proof (I4 r0 n H). lia.
                ** auto.
                ** rewrite Hbey in H by exact L. discriminate.
          -- unfold push_slot, w1. cbn. apply nth_error_snoc_new.
          -- rewrite Ern. apply reg_abs_empty.
          -- split; intros ? [].
          -- split; constructor.
          -- rewrite Ern. reflexivity.
          -- rewrite Ern. reflexivity.
        * eapply Forall_impl; [|exact I5]. intros x (ri & rc & st & H1 & H2 & H3).
          assert (Hri : (ri < n)%nat) by (apply nth_error_Some; congruence).
          exists ri, rc, st. split; [|split; [|exact H3]].
          -- intros r0. rewrite (Hreg r0 ri Hri). apply H1.
          -- unfold push_slot, w1. cbn. apply nth_error_snoc. exact H2.
    - exists (slots ++ [None]), regs. rewrite St. cbn [fst snd]. split; [|intros ops' obs' H; rewrite replay_registry, St; exact H].
      apply inv_push; auto.
  Qed.

  (* ---- register ---- *)
  Lemma replay_register w slots regs r s ops' ob obs' :
    replay false w slots regs (OpRegister r s :: ops') (ob :: obs')
    = match find_reg r regs, nth s slots None, collector_of w (slot w s) with
      | Some x, Some ds, Some (c, _) =>
          res_matches (expected_register false x ds) ob
          && replay false (fst (step w (OpRegister r s))) slots (if is_okres ob then upd_reg r (ar_add c ds) regs else regs) ops' obs'
      | _, _, _ => replay false (fst (step w (OpRegister r s))) slots regs ops' obs'
      end.
  Proof. reflexivity. Qed.
  Lemma replay_unregister w slots regs r s ops' ob obs' :
    replay false w slots regs (OpUnregister r s :: ops') (ob :: obs')
    = match find_reg r regs, nth s slots None with
      | Some x, Some ds =>
          (if SpecC06.coll_registered false x ds then is_okres ob else is_errres ob)
          && replay false (fst (step w (OpUnregister r s))) slots (if is_okres ob then upd_reg r (ar_del false ds) regs else regs) ops' obs'
      | _, _ => replay false (fst (step w (OpUnregister r s))) slots regs ops' obs'
      end.
  Proof. reflexivity. Qed.

  Lemma untracked_set_reg w slots regs r ri rc rc' :
    Inv w slots regs -> find_reg r regs = None -> slot w r = HRegistry ri -> nth_error (w_reg w) ri = Some rc ->
    Inv (set_reg w (list_set (w_reg w) ri rc')) slots regs.
  Proof.
    intros I Hf Hr Hrc. apply (inv_set_reg w slots regs regs ri rc' rc I Hrc).
    rewrite <- (upd_reg_id r regs). apply (reg_update w regs r ri rc rc' (fun x => x) Hr Hrc).
    - apply I.
    - intros x st Hx Hs. rewrite (find_reg_None r regs x Hf Hx) in Hs. discriminate.
  Qed.
  Lemma register_untracked w slots regs r s :
    Inv w slots regs -> find_reg r regs = None -> Inv (fst (step w (OpRegister r s))) slots regs.
  Proof.
    intros I Hf. cbn [step]. destruct (slot w r) eqn:Hr; try exact I. destruct (collector_of w (slot w s)) as [[c ds]|]; try exact I.
    destruct (nth_error (w_reg w) r0) as [rc|] eqn:Hrc; try exact I. destruct (reg_register rc ds c); cbn [fst]; try exact I.
    eapply untracked_set_reg; eauto.
  Qed.
  Lemma unregister_untracked w slots regs r s :
    Inv w slots regs -> find_reg r regs = None -> Inv (fst (step w (OpUnregister r s))) slots regs.
  Proof.
    intros I Hf. cbn [step]. destruct (slot w r) eqn:Hr; try exact I. destruct (collector_of w (slot w s)) as [[c ds]|]; try exact I.
    destruct (nth_error (w_reg w) r0) as [rc|] eqn:Hrc; try exact I. destruct (reg_unregister rc ds); cbn [fst]; try exact I.
    eapply untracked_set_reg; eauto.
  Qed.
  Lemma dead_slot_no_collector w slots regs s : Inv w slots regs -> nth s slots None = None -> collector_of w (slot w s) = None.
  Proof. intros (_ & _ & I3 & _) H. destruct (I3 s H) as [->|[ri ->]]; reflexivity. Qed.

  Lemma register_ok w slots regs r s : Inv w slots regs -> step_ok w slots regs (OpRegister r s).
  Proof.
    intros I. destruct (find_reg r regs) as [x|] eqn:Hf.
    2:{ exists slots, regs. split; [apply register_untracked; auto|]. intros ops' obs' H. rewrite replay_register, Hf. exact H. }
    destruct (nth s slots None) as [sds|] eqn:Hn.
    2:{ exists slots, regs. pose proof (dead_slot_no_collector w slots regs s I Hn) as Hc.
        assert (St : step w (OpRegister r s) = (w, OBad)) by (cbn [step]; rewrite Hc; destruct (slot w r); reflexivity).
        rewrite St. split; [exact I|]. intros ops' obs' H. rewrite replay_register, Hf, Hn, St. exact H. }
    pose proof I as (I1 & I2 & I3 & I4 & I5).
    destruct (find_reg_Some r regs x Hf) as [Hx Hs]. rewrite Forall_forall in I5. pose proof (I5 x Hx) as Hok.
    destruct Hok as (ri & rc & st & H1 & Hrc & A & S & AR & Hl & Hp).
    assert (Hr : slot w r = HRegistry ri) by (apply H1, has_slot_In; exact Hs).
    destruct (I2 s sds Hn) as (c & Ds & Hc & Hrel & HCP).
    pose proof (world_register_step w r s ri rc c Ds Hr Hc Hrc) as St.
    pose proof (register_refines P CP CP_P Hids Hdims Hcids st rc Ds c A S HCP) as R.
    pose proof (expected_is_spec_register st (r_labels rc) Ds c) as X. rewrite Hl, <- (expected_corr x st sds Ds AR Hrel) in X.
    destruct (reg_register rc Ds c) as [rc'|e] eqn:E.
    - destruct R as (R1 & _). rewrite Hl in R1. rewrite R1 in X. cbn [res_unit] in X.
      exists slots, (upd_reg r (ar_add c sds) regs). rewrite St. cbn [fst snd]. split.
      + apply (inv_set_reg w slots regs _ ri rc' rc I Hrc). apply (reg_update w regs r ri rc rc' (ar_add c sds) Hr Hrc).
        * apply Forall_forall. exact I5.
        * intros y st0 Hy Hsy A0 S0 AR0 Hl0 Hp0.
          pose proof (register_refines P CP CP_P Hids Hdims Hcids st0 rc Ds c A0 S0 HCP) as R0. rewrite E in R0.
          destruct R0 as (_ & A' & S' & Hl'). exists (s_add st0 Ds c). split; [exact A'|]. split; [exact S'|]. split; [|split; [|split]].
          -- destruct AR0 as [C0 E0]. split; cbn [ar_add ar_cur ar_ever s_add s_cur s_hist].
             ++ apply F2_app; [exact C0|]. constructor; [|constructor]. split; [reflexivity|exact Hrel].
             ++ apply F2_app; [exact E0|exact Hrel].
          -- rewrite Hl', Hl0. reflexivity.
          -- apply register_ok_inv in E as (_ & _ & ->). cbn. exact Hp0.
          -- reflexivity.
      + intros ops' obs' H. rewrite replay_register, Hf, Hn, Hc, St. cbn [fst is_okres]. rewrite X, H. reflexivity.
    - rewrite Hl in R. rewrite R in X. cbn [res_unit] in X.
      exists slots, regs. rewrite St. cbn [fst snd]. split; [exact I|].
      intros ops' obs' H. rewrite replay_register, Hf, Hn, Hc, St. cbn [fst is_okres]. rewrite X, H. reflexivity.
  Qed.

  (* ---- unregister ---- *)
  Lemma spec_unregister_Ok_inv (st : sstate collector) ds st' :
    spec_unregister st ds = Ok st' ->
    registered_b st ds = true /\ st' = mkS (filter (fun e => negb (same_collb ds (fst e))) (s_cur st)) (s_hist st).
  Proof. unfold spec_unregister. destruct (registered_b st ds); [|discriminate]. intros H. inversion H. auto. Qed.
  Lemma spec_unregister_Err_inv (st : sstate collector) ds e : spec_unregister st ds = Err e -> registered_b st ds = false.
  Proof. unfold spec_unregister. destruct (registered_b st ds); [discriminate|]. auto. Qed.

  Lemma unregister_ok w slots regs r s : Inv w slots regs -> step_ok w slots regs (OpUnregister r s).
  Proof.
    intros I. destruct (find_reg r regs) as [x|] eqn:Hf.
    2:{ exists slots, regs. split; [apply unregister_untracked; auto|]. intros ops' obs' H. rewrite replay_unregister, Hf. exact H. }
    destruct (nth s slots None) as [sds|] eqn:Hn.
    2:{ exists slots, regs. pose proof (dead_slot_no_collector w slots regs s I Hn) as Hc.
        assert (St : step w (OpUnregister r s) = (w, OBad)) by (cbn [step]; rewrite Hc; destruct (slot w r); reflexivity).
        rewrite St. split; [exact I|]. intros ops' obs' H. rewrite replay_unregister, Hf, Hn, St. exact H. }
    pose proof I as (I1 & I2 & I3 & I4 & I5).
    destruct (find_reg_Some r regs x Hf) as [Hx Hs]. rewrite Forall_forall in I5. pose proof (I5 x Hx) as Hok.
    destruct Hok as (ri & rc & st & H1 & Hrc & A & S & AR & Hl & Hp).
    assert (Hr : slot w r = HRegistry ri) by (apply H1, has_slot_In; exact Hs).
    destruct (I2 s sds Hn) as (c & Ds & Hc & Hrel & HCP).
    pose proof (world_unregister_step w r s ri rc c Ds Hr Hc Hrc) as St.
    pose proof (unregister_refines P CP CP_P Hids Hcids st rc Ds A S HCP) as R.
    pose proof (registered_corr x st sds Ds AR Hrel) as X.
    destruct (reg_unregister rc Ds) as [rc'|e] eqn:E.
    - destruct R as (R1 & _). apply spec_unregister_Ok_inv in R1 as [R1 _]. rewrite R1 in X.
      exists slots, (upd_reg r (ar_del false sds) regs). rewrite St. cbn [fst snd]. split.
      + apply (inv_set_reg w slots regs _ ri rc' rc I Hrc). apply (reg_update w regs r ri rc rc' (ar_del false sds) Hr Hrc).
        * apply Forall_forall. exact I5.
        * intros y st0 Hy Hsy A0 S0 AR0 Hl0 Hp0.
          pose proof (unregister_refines P CP CP_P Hids Hcids st0 rc Ds A0 S0 HCP) as R0. rewrite E in R0.
          destruct R0 as (U & A' & S' & Hl'). exists (s_del st0 (collector_id Ds)). split; [exact A'|]. split; [exact S'|]. split; [|split; [|split]].
          -- apply spec_unregister_Ok_inv in U as [_ ->]. destruct AR0 as [C0 E0]. split; cbn [ar_del ar_cur ar_ever s_cur s_hist]; [|exact E0].
             apply F2_filter; [exact C0|]. intros e f [_ Hef]. f_equal. apply rel_same_coll; auto.
          -- rewrite Hl', Hl0. reflexivity.
          -- apply unregister_ok_inv in E as (_ & ->). cbn. exact Hp0.
          -- reflexivity.
      + intros ops' obs' H. rewrite replay_unregister, Hf, Hn, St. cbn [fst is_okres]. rewrite X, H. reflexivity.
    - apply spec_unregister_Err_inv in R. rewrite R in X.
      exists slots, regs. rewrite St. cbn [fst snd]. split; [exact I|].
      intros ops' obs' H. rewrite replay_unregister, Hf, Hn, St. cbn [fst is_okres is_errres]. rewrite X, H. reflexivity.
  Qed.

  (* ---- gather ---- *)
  Lemma collect_all_frame cs : forall w fs w', collect_all w cs = Some (fs, w') -> frame w w'.
  Proof.
    induction cs as [|[k c] cs IH]; intros w fs w' H; cbn [collect_all] in H.
    - inversion H. apply frame_refl.
    - destruct (collect_collector w c) as [[fs1 w1]|] eqn:E1; [|discriminate].
      destruct (collect_all w1 cs) as [[fs2 w2]|] eqn:E2; [|discriminate]. inversion H; subst.
      eapply frame_trans; [eapply collect_collector_frame; eauto|eapply IH; eauto].
  Qed.
  Lemma gather_frame w r : frame w (fst (step w (OpGather r))).
  Proof.
    cbn [step]. destruct (slot w r); try apply frame_refl. destruct (nth_error (w_reg w) r0) as [rc|]; try apply frame_refl.
    destruct (collect_all w (r_collectors rc)) as [[fs w']|] eqn:E; cbn [fst]; [|apply frame_refl]. eapply collect_all_frame; eauto.
  Qed.
  Lemma collect_corr a b : cur_rel a b -> forall w,
    collect_registered w a = match collect_all w (map entry_key b) with Some (fs, _) => Some fs | None => None end.
  Proof.
    induction 1 as [|[c sds] [Ds c'] a b [Hc _] F IH]; intros w; cbn [collect_registered collect_all map entry_key fst snd].
    - reflexivity.
    - cbn in Hc. subst c'. destruct (collect_collector w c) as [[fs w1]|]; [|reflexivity]. rewrite IH.
      destruct (collect_all w1 (map entry_key b)) as [[fs2 w2]|]; reflexivity.
  Qed.

  Lemma replay_gather w slots regs r ops' ob obs' :
    replay false w slots regs (OpGather r :: ops') (ob :: obs')
    = match find_reg r regs with
      | Some x => match ob with OFams fams => gather_exact w x fams | _ => false end
                  && replay false (fst (step w (OpGather r))) slots regs ops' obs'
      | None => replay false (fst (step w (OpGather r))) slots regs ops' obs'
      end.
  Proof. reflexivity. Qed.
  Lemma gather_ok w slots regs r :
    Inv w slots regs -> not_hung (snd (step w (OpGather r))) = true -> step_ok w slots regs (OpGather r).
  Proof.
    intros I NH. exists slots, regs. split; [eapply inv_frame; [apply gather_frame|exact I]|].
    intros ops' obs' H. rewrite replay_gather. destruct (find_reg r regs) as [x|] eqn:Hf; [|exact H]. rewrite H, andb_true_r.
    pose proof I as (_ & _ & _ & _ & I5). destruct (find_reg_Some r regs x Hf) as [Hx Hs]. rewrite Forall_forall in I5.
    destruct (I5 x Hx) as (ri & rc & st & H1 & Hrc & A & S & AR & Hl & Hp).
    assert (Hr : slot w r = HRegistry ri) by (apply H1, has_slot_In; exact Hs).
    rewrite (world_gather_step w r ri rc Hr Hrc) in *.
    pose proof (collect_corr _ _ (proj1 AR) w) as Hc. rewrite <- (abs_coll st rc A) in Hc.
    destruct (collect_all w (r_collectors rc)) as [[fs w']|]; cbn [snd] in *; [|discriminate NH].
    unfold gather_exact. rewrite Hc, Hl, Hp. apply gather_multiset.
  Qed.

  (* ---- every operation of the domain ---- *)
  Lemma op_step_ok o w slots regs :
    op_ok o = true -> In o ops0 -> not_hung (snd (step w o)) = true -> Inv w slots regs -> step_ok w slots regs o.
  Proof.
    intros Hok Hin NH I. destruct o; try discriminate Hok; try (apply quiet_ok; [reflexivity|exact I]).
    - eapply ctor_value_ok; eauto.
    - eapply ctor_value_ok; eauto.
    - apply ctor_hist_ok; auto.
    - eapply (ctor_vec_ok _ w slots regs o labels); eauto.
    - eapply (ctor_vec_ok _ w slots regs o labels); eauto.
    - eapply (ctor_vec_ok _ w slots regs (ho_common o) labels); eauto 7.
    - apply registry_ok; auto.
    - apply register_ok; auto.
    - apply unregister_ok; auto.
    - apply gather_ok; auto.
    - apply ctor_custom_ok; auto.
    - apply ctor_pulling_ok; auto.
  Qed.

  Lemma run_cons w o ops : run w (o :: ops) = snd (step w o) :: run (fst (step w o)) ops.
  Proof. cbn [run]. destruct (step w o). reflexivity. Qed.

  Theorem replay_model ops : forall w slots regs,
    Inv w slots regs -> forallb op_ok ops = true -> (forall o, In o ops -> In o ops0) -> forallb not_hung (run w ops) = true ->
    replay false w slots regs ops (run w ops) = true.
  Proof.
    induction ops as [|o ops IH]; intros w slots regs I Hok Hin NH; [reflexivity|].
    rewrite run_cons in *. cbn [forallb] in Hok, NH. apply andb_true_iff in Hok as [Ho Hok]. apply andb_true_iff in NH as [N1 N2].
    destruct (op_step_ok o w slots regs Ho (Hin o (or_introl eq_refl)) N1 I) as (slots' & regs' & I' & Hrep).
    apply Hrep. apply IH; auto. intros o' Ho'. apply Hin. right. exact Ho'.
  Qed.
End Model.

Lemma inv_world0 ops0 : Inv ops0 world0 [] [].
Proof.
  unfold Inv. cbn. repeat split; auto.
  - intros [|s] sds H; discriminate.
  - intros [|s] _; auto.
  - intros [|s] ri H; discriminate.
Qed.

(* The executable spec written from the property text holds of the model on every history of the
   domain whose descriptors do not collide under the 64-bit hashes. *)
Theorem spec_c06_model ops : in_domain ops = true -> no_collision ops = true -> spec_c06 ops (run world0 ops) = true.
Proof.
  intros D NC. unfold in_domain in D. apply andb_true_iff in D as [D1 D2]. unfold spec_c06.
  apply (replay_model ops NC ops world0 [] []); auto. apply inv_world0.
Qed.

(* ====================================================================================== *)
(* the corpus scenarios of tools/p_C06.py (rendered by pvlib.scen_coq)                     *)
(* ====================================================================================== *)
Definition corpus_defect_already : list op :=
  [(OpRegistry None None);
   (OpCounter NF (mkOpts [] [] [116] [104] (amap_of []) []));
   (OpIncBy 1%nat (VF (bits2f 0x3ff0000000000000)));
   (OpRegister 0%nat 1%nat);
   (OpCustom [([102;114;101;115;104],[104;101;108;112;32;65],[],[]);([116],[104],[],[])] [(mkMF [102;114;101;115;104] [104;101;108;112;32;65] COUNTER [(mkMetric [] None (Some (bits2f 0x401c000000000000)) None None None None)])]);
   (OpRegister 0%nat 2%nat);
   (OpGather 0%nat);
   (OpCounter NF (mkOpts [] [] [102;114;101;115;104] [104;101;108;112;32;66] (amap_of []) []));
   (OpIncBy 3%nat (VF (bits2f 0x4000000000000000)));
   (OpRegister 0%nat 3%nat);
   (OpGather 0%nat);
   (OpUnregister 0%nat 3%nat);
   (OpRegister 0%nat 2%nat);
   (OpGauge NF (mkOpts [] [] [102;114;101;115;104] [104] (amap_of [([107],[49])]) []));
   (OpRegister 0%nat 4%nat);
   (OpGather 0%nat)].

Definition corpus_defect_msg : list op :=
  [(OpRegistry None None);
   (OpCounter NF (mkOpts [] [] [116] [104] (amap_of []) []));
   (OpIncBy 1%nat (VF (bits2f 0x3ff0000000000000)));
   (OpRegister 0%nat 1%nat);
   (OpCustom [([102;114;101;115;104],[104;101;108;112;32;65],[],[]);([116],[111;116;104;101;114;32;104;101;108;112],[],[([107],[49])])] [(mkMF [102;114;101;115;104] [104;101;108;112;32;65] COUNTER [(mkMetric [] None (Some (bits2f 0x401c000000000000)) None None None None)])]);
   (OpRegister 0%nat 2%nat);
   (OpGather 0%nat);
   (OpCounter NF (mkOpts [] [] [102;114;101;115;104] [104;101;108;112;32;66] (amap_of []) []));
   (OpIncBy 3%nat (VF (bits2f 0x4000000000000000)));
   (OpRegister 0%nat 3%nat);
   (OpGather 0%nat);
   (OpUnregister 0%nat 3%nat);
   (OpRegister 0%nat 2%nat);
   (OpGauge NF (mkOpts [] [] [102;114;101;115;104] [104] (amap_of [([107],[49])]) []));
   (OpRegister 0%nat 4%nat);
   (OpGather 0%nat)].

Definition corpus_defect_dup : list op :=
  [(OpRegistry None None);
   (OpCounter NF (mkOpts [] [] [116] [104] (amap_of []) []));
   (OpIncBy 1%nat (VF (bits2f 0x3ff0000000000000)));
   (OpRegister 0%nat 1%nat);
   (OpCustom [([102;114;101;115;104],[104;101;108;112;32;65],[],[]);([102;114;101;115;104],[104;101;108;112;32;65],[],[])] [(mkMF [102;114;101;115;104] [104;101;108;112;32;65] COUNTER [(mkMetric [] None (Some (bits2f 0x401c000000000000)) None None None None)])]);
   (OpRegister 0%nat 2%nat);
   (OpGather 0%nat);
   (OpCounter NF (mkOpts [] [] [102;114;101;115;104] [104;101;108;112;32;66] (amap_of []) []));
   (OpIncBy 3%nat (VF (bits2f 0x4000000000000000)));
   (OpRegister 0%nat 3%nat);
   (OpGather 0%nat);
   (OpUnregister 0%nat 3%nat);
   (OpRegister 0%nat 2%nat);
   (OpGauge NF (mkOpts [] [] [102;114;101;115;104] [104] (amap_of [([107],[49])]) []));
   (OpRegister 0%nat 4%nat);
   (OpGather 0%nat)].

Definition corpus_collision : list op :=
  [(OpRegistry None None);
   (OpCounter NF (mkOpts [] [] [105;110;100;98;102;113;101;121;115;98;110;112;115;102] [104] (amap_of []) []));
   (OpCounter NF (mkOpts [] [] [105;118;108;116;108;100;103;109;111;99;116;121;98;100] [104] (amap_of []) []));
   (OpIncBy 1%nat (VF (bits2f 0x3ff0000000000000)));
   (OpIncBy 2%nat (VF (bits2f 0x4000000000000000)));
   (OpRegister 0%nat 1%nat);
   (OpRegister 0%nat 2%nat);
   (OpGather 0%nat);
   (OpUnregister 0%nat 2%nat);
   (OpGather 0%nat);
   (OpRegister 0%nat 2%nat);
   (OpGather 0%nat)].

Lemma corpus_in_domain :
  (in_domain corpus_defect_already && no_collision corpus_defect_already)
  && (in_domain corpus_defect_msg && no_collision corpus_defect_msg)
  && (in_domain corpus_defect_dup && no_collision corpus_defect_dup) = true.
Proof. vm_compute. reflexivity. Qed.
(* the collision witness is inside the domain but (of course) not collision free; on it the spec
   fails on the model's own run and the failure is in the known class *)
Lemma corpus_collision_outside :
  in_domain corpus_collision = true /\ no_collision corpus_collision = false
  /\ spec_c06 corpus_collision (run world0 corpus_collision) = false
  /\ known_c06 corpus_collision (run world0 corpus_collision) = true.
Proof. vm_compute. auto. Qed.
