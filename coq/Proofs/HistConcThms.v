(* C02 / C03: what holds along every validated execution of the concurrent histogram. *)
Require Import PV.Base.Prelude PV.Base.F64 PV.Model.Conc PV.Model.HistConc PV.Model.HistExec.
Require Import PV.Proofs.HistConcLemmas PV.Proofs.HistConcInv PV.Proofs.HistConcProof PV.Proofs.HistConcOwn.
Require Import PV.Proofs.HistExecSound PV.Proofs.HistExecInv.
From Coq Require Import ZArith Lia Bool Arith.
Open Scope Z_scope.

Section S.
Variable bounds : list Z.
Notation B := (length bounds).
(* any orderings that are sufficient; the executable model checks the orderings of the
   implementation's publish and wait-success events at run time *)
Variable Od : ords.
Hypothesis Od_ok : sufficient_orderings Od = true.

Notation Inv := (Inv B).

(* all invariants together *)
Definition Good (x : xst) : Prop := Inv (base x) /\ XInv x /\ Own (base x).

Lemma good_init : Good xinit.
Proof. split; [apply inv_init|split; [apply xinv_init|apply own_init]]. Qed.

Lemma good_step x e x' : Good x -> hexec bounds x e = Some x' -> Good x'.
Proof.
  intros (I & X & O) H. pose proof (hexec_sound bounds Od x e x' H) as [E|S].
  - split; [rewrite E; auto|split; [eapply hexec_xinv; eauto|rewrite E; auto]].
  - split; [eapply (step_inv B Od Od_ok); eauto|split; [eapply hexec_xinv; eauto|eapply step_own; eauto]].
Qed.

Lemma good_run es : forall x x', Good x -> xrun bounds x es = Some x' -> Good x'.
Proof.
  induction es as [|e es IH]; intros x x' G H; cbn in H.
  - inversion H; subst; auto.
  - destruct (hexec bounds x e) as [x1|] eqn:E; [|discriminate]. eapply IH; [eapply good_step; eauto|eauto].
Qed.

Theorem run_good es x : xrun bounds xinit es = Some x -> Good x.
Proof. apply good_run. apply good_init. Qed.

(* monotonicity of the ticket list along a run *)
Lemma hexec_len x e x' : hexec bounds x e = Some x' -> (lenr x <= lenr x')%nat.
Proof.
  intros H. pose proof (hexec_sound bounds Od x e x' H) as [E|S]; unfold lenr; [rewrite E; lia|].
  destruct S; cbn [recs mk]; rewrite ?app_length, ?set_nth_length; cbn [length]; lia.
Qed.
Lemma xrun_len es : forall x x', xrun bounds x es = Some x' -> (lenr x <= lenr x')%nat.
Proof.
  induction es as [|e es IH]; intros x x' H; cbn in H.
  - inversion H; subst; lia.
  - destruct (hexec bounds x e) as [x1|] eqn:E; [|discriminate]. pose proof (hexec_len _ _ _ E). pose proof (IH _ _ H). lia.
Qed.

(* ---- C02: every snapshot is one consistent cut ---- *)
Theorem snapshot_is_prefix es x c :
  xrun bounds xinit es = Some x -> In c (cuts x) ->
  cut_res c = summary B (firstn (cut_k c) (recs (base x)))
  /\ (cut_l0 c <= cut_k c)%nat /\ (cut_k c <= cut_l1 c)%nat /\ (cut_l1 c <= lenr x)%nat.
Proof.
  intros R Hc. destruct (run_good _ _ R) as (I & X & _).
  destruct (X_cuts _ X c Hc) as (H1 & H2 & H3 & H4).
  destruct (I_snaps _ _ I _ _ H4) as [_ Hs]. auto.
Qed.

(* the values a validated return marker carries are exactly the recorded cut *)
Theorem returned_snapshot_is_cut x t cnt sum bks x' :
  hexec bounds x (ERet t (RSnap cnt sum bks)) = Some x' ->
  exists c, cuts x' = c :: cuts x /\ cut_l1 c = lenr x
    /\ Z.of_N cnt = fst (fst (cut_res c)) /\ sum = zbits (snd (fst (cut_res c)))
    /\ map Z.of_N bks = cumulz 0 (snd (cut_res c)).
Proof.
  intros H. unfold HistExec.hexec in H. break_match H; inversion H; subst. boolfacts.
  eexists. split; [reflexivity|]. cbn. repeat split; auto.
  clear - H1. revert H1. generalize (map Z.of_N bks) (cumulz 0 (rev bs)). induction l as [|a l IH]; intros [|b l'] Hh; cbn in Hh; try discriminate; auto.
  boolfacts. f_equal; auto.
Qed.

(* ---- C03 ---- *)
(* snapshots taken one after another describe growing prefixes *)
Theorem snapshots_grow es x c1 c2 :
  xrun bounds xinit es = Some x -> In c1 (cuts x) -> In c2 (cuts x) ->
  (cut_l1 c1 <= cut_l0 c2)%nat ->          (* c1 returned before c2 was invoked *)
  (cut_k c1 <= cut_k c2)%nat
  /\ firstn (cut_k c1) (recs (base x)) = firstn (cut_k c1) (firstn (cut_k c2) (recs (base x))).
Proof.
  intros R H1 H2 Hrt. destruct (snapshot_is_prefix _ _ _ R H1) as (_ & A1 & A2 & A3).
  destruct (snapshot_is_prefix _ _ _ R H2) as (_ & B1 & B2 & B3).
  assert (cut_k c1 <= cut_k c2)%nat by lia. split; auto.
  rewrite firstn_firstn. rewrite Nat.min_l by lia. reflexivity.
Qed.

(* a collection during which no observation was claimed describes exactly the observations claimed before it *)
Theorem exact_when_no_overlap es x c :
  xrun bounds xinit es = Some x -> In c (cuts x) -> cut_l0 c = cut_l1 c ->
  cut_res c = summary B (firstn (cut_l0 c) (recs (base x))).
Proof.
  intros R Hc E. destruct (snapshot_is_prefix _ _ _ R Hc) as (Hs & A1 & A2 & A3).
  assert (cut_k c = cut_l0 c) by lia. congruence.
Qed.

(* the wait loop can be left exactly when every observation claimed before the flip has published *)
Theorem wait_exact s t N :
  Inv s -> thr s t = CIn (CWait N) ->
  (cnt (sh s (negb (hot s))) = N <-> forall r, In r (firstn (K s) (recs s)) -> r_pub r = true).
Proof.
  intros I Ht. assert (Ha : active s = Some (CWait N)) by (eapply active_holder; eauto).
  pose proof (I_cold_cnt _ _ I) as Hc. unfold stg_cnt, cold in Hc. rewrite Ha in Hc. cbn in Hc.
  pose proof (I_cpc _ _ I _ Ha) as Hp. cbn in Hp. fold (old s). rewrite Hc, Hp. split.
  - intros E. apply (pub_all (old s)); auto. intros r Hr. apply In_firstn in Hr. destruct (I_wf _ _ I r Hr); auto.
  - intros Hall. unfold oldP. apply sumf_ext. intros r Hr. unfold pubcnt. rewrite (Hall r Hr). reflexivity.
Qed.

(* quiescence: when no observe / flush is in progress every record is published and fully
   applied, the hot shard holds exactly all of them and the cold one is empty *)
Theorem quiescent_exact s :
  Inv s -> Own s -> (forall t i, thr s t <> OWork i) -> lock s = None ->
  (forall r, In r (recs s) -> r_pub r = true)
  /\ n s = sumf r_cnt (recs s)
  /\ cnt (sh s (hot s)) = sumf r_cnt (recs s)
  /\ (forall c, cells (sh s (hot s)) c = sumf (full c) (recs s))
  /\ cnt (sh s (negb (hot s))) = 0 /\ (forall c, cells (sh s (negb (hot s))) c = 0).
Proof.
  intros I O Hq Hl.
  assert (Hpub : forall r, In r (recs s) -> r_pub r = true).
  { intros r Hr. destruct (r_pub r) eqn:E; auto. apply In_nth_error in Hr as [i Hi].
    destruct (O i r Hi E) as [t Ht]. exfalso. eapply Hq; eauto. }
  assert (Ha : active s = None) by (unfold active; rewrite Hl; reflexivity).
  pose proof (I_K0 _ _ I Ha) as HK.
  assert (Hold : old s = []) by (unfold old; rewrite HK; reflexivity).
  assert (Hnew : new s = recs s) by (unfold new; rewrite HK; reflexivity).
  repeat split; auto.
  - apply (I_n _ _ I).
  - rewrite (I_hot_cnt _ _ I). unfold stg_cnt. rewrite Ha. unfold newP. rewrite Hnew.
    rewrite Z.add_0_r. apply sumf_ext. intros r Hr. unfold pubcnt. rewrite (Hpub r Hr). reflexivity.
  - intros c. rewrite (I_hot_cell _ _ I). unfold stg_cell. rewrite Ha. unfold newA. rewrite Hnew. rewrite Z.add_0_r.
    apply sumf_ext. intros r Hr. apply all_done_applied. apply (I_pub_done _ _ I); auto.
  - pose proof (I_cold_cnt _ _ I) as Hc. unfold cold, stg_cnt in Hc. rewrite Ha in Hc. unfold oldP in Hc. rewrite Hold in Hc. exact Hc.
  - intros c. pose proof (I_cold_cell _ _ I c) as Hc. unfold cold, stg_cell in Hc. rewrite Ha in Hc. unfold oldA in Hc. rewrite Hold in Hc. exact Hc.
Qed.

End S.
