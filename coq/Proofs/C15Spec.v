(* C15, the uniform theorem: the executable spec written from the property text (Spec/SpecC15.v)
   holds of the world model for ALL histories.

     spec_c15_model : forall ops, dom15 ops = true -> spec_c15 ops (run world0 ops) = true

   [dom15] is executable and collects the one side condition the argument uses: the help text and
   the constant-label VALUES of every Desc::new call are lists of Unicode scalar values (what a
   Rust String is; the model's strings are arbitrary lists of N).  Names need no condition: an
   accepted name is ASCII.  No hypothesis about hash collisions is needed: the spec itself excuses
   an equality of the 64-bit values by a genuine collision of FNV-1a on different serialised bytes
   ([true_collision]), and the proof shows that this is the only way the model can deviate. *)
Require Import PV.Base.Prelude PV.Base.Utf8 PV.Base.Fnv PV.Base.StrFacts PV.Base.SortFacts PV.Base.Utf8Facts.
Require Import PV.Model.Proto PV.Model.Desc PV.Model.Value PV.Model.World.
Require Import PV.Proofs.DescFacts PV.Proofs.C09Facts PV.Proofs.OracleFacts PV.Spec.SpecC15.
From Coq Require Import Permutation Sorting.Sorted.
Open Scope N_scope.

(* ---------- the domain ---------- *)
Definition wf_strb (s : str) : bool := forallb scalarb s.
Definition op_dom15 (o : op) : bool :=
  match o with
  | OpDesc _ help _ consts => wf_strb help && forallb (fun kv => wf_strb (snd kv)) consts
  | _ => true
  end.
Definition dom15 (ops : list op) : bool := forallb op_dom15 ops.

Lemma wf_strb_spec s : wf_strb s = true <-> wf_str s.
Proof.
  unfold wf_strb, wf_str. rewrite forallb_forall, Forall_forall. unfold scalarb, scalar.
  split; intros H x Hx; specialize (H x Hx); [apply N.ltb_lt in H|apply N.ltb_lt]; exact H.
Qed.

(* ---------- generic list facts ---------- *)
Lemma all_pairs_true {A} (f : A -> A -> bool) l :
  (forall x y, In x l -> In y l -> f x y = true) -> all_pairs f l = true.
Proof.
  induction l as [|x l IH]; intros H; cbn [all_pairs]; auto. apply andb_true_iff. split.
  - apply forallb_forall. intros y Hy. apply H; [left; reflexivity|right; exact Hy].
  - apply IH. intros a b Ha Hb. apply H; right; assumption.
Qed.

Lemma map_insert_by {A B} (f : A -> B) (leA : A -> A -> bool) (leB : B -> B -> bool) x l :
  (forall a b, leB (f a) (f b) = leA a b) -> map f (insert_by leA x l) = insert_by leB (f x) (map f l).
Proof.
  intros H. induction l as [|y l IH]; cbn [insert_by map]; auto. rewrite H. destruct (leA x y); cbn [map]; [reflexivity|].
  f_equal. exact IH.
Qed.
Lemma map_sort_by {A B} (f : A -> B) (leA : A -> A -> bool) (leB : B -> B -> bool) l :
  (forall a b, leB (f a) (f b) = leA a b) -> map f (sort_by leA l) = sort_by leB (map f l).
Proof.
  intros H. induction l as [|y l IH]; cbn [sort_by fold_right map]; auto.
  fold (sort_by leA l). fold (sort_by leB (map f l)). rewrite (map_insert_by f leA leB) by exact H. f_equal. exact IH.
Qed.

(* values of a HashMap built by inserts come from the inserted pairs *)
Lemma ainsert_vals {V} k (v : V) m x : In x (map snd (ainsert k v m)) -> x = v \/ In x (map snd m).
Proof.
  unfold ainsert. destruct (alookup k m).
  - rewrite map_map. intros H. apply in_map_iff in H as (kv & <- & Hkv). destruct (str_eqb k (fst kv)); cbn; auto.
    right. apply in_map. exact Hkv.
  - rewrite map_app, in_app_iff. cbn. intros [H|[H|[]]]; auto.
Qed.
Lemma amap_of_vals {V} (kvs : list (str * V)) x : In x (map snd (amap_of kvs)) -> In x (map snd kvs).
Proof.
  unfold amap_of. assert (G : forall m, In x (map snd (fold_left (fun m kv => ainsert (fst kv) (snd kv) m) kvs m)) ->
                                        In x (map snd kvs) \/ In x (map snd m)).
  { induction kvs as [|[k v] kvs IH]; intros m H; cbn [fold_left fst snd map] in *; auto.
    destruct (IH _ H) as [H1|H1]; [left; right; exact H1|]. apply ainsert_vals in H1 as [->|H1]; auto. left; left; reflexivity. }
  intros H. destruct (G [] H) as [H1|[]]. exact H1.
Qed.

(* ---------- the spec's serialisations are the model's ---------- *)
Definition kleb (a b : str * str) : bool := str_leb (fst a) (fst b).
Lemma sorted_pairs_unfold c : sorted_pairs c = sort_by kleb (amap_of c).
Proof. reflexivity. Qed.

Lemma sorted_keys (m : list (str * str)) : map fst (sort_by kleb m) = cnames m.
Proof. unfold cnames. apply map_sort_by. reflexivity. Qed.
Lemma sorted_vals (m : list (str * str)) : NoDup (map fst m) -> map snd (sort_by kleb m) = cvals m.
Proof.
  intros ND. unfold cvals. rewrite <- sorted_keys, map_map. apply map_ext_in. intros [k v] Hin. cbn [fst snd].
  apply -> (sort_by_In kleb) in Hin. rewrite (alookup_NoDup_In k v m ND Hin). reflexivity.
Qed.
Lemma sorted_lps (m : list (str * str)) : map (fun a => mkLP (fst a) (snd a)) (sort_by kleb m) = cpairs m.
Proof. unfold cpairs. apply map_sort_by. reflexivity. Qed.

Lemma id_bytes_model fq c : id_bytes fq c = desc_id_bytes fq (amap_of c).
Proof.
  unfold id_bytes, desc_id_bytes, id_preimage. rewrite sorted_pairs_unfold, sorted_vals; [reflexivity|apply amap_of_nodup].
Qed.

Lemma valid_keys_sorted m : Forall (fun n => is_valid_label_name n = true) (map fst m) ->
  Forall (fun n => is_valid_label_name n = true) (cnames m).
Proof. intros F. eapply Permutation_Forall; [apply Permutation_sym, cnames_perm|exact F]. Qed.

Lemma names_are_sorted_union (m : list (str * str)) v names :
  NoDup (map fst m) -> add_vars v (cnames m) = Some names ->
  names = sort_by str_leb (map fst m ++ map (fun x => DOLLAR :: x) v).
Proof.
  intros ND H. destruct (add_vars_spec v _ _ (cnames_sorted m) (cnames_nodup m ND) H) as (S & _ & P & _ & _).
  apply sorted_strs_unique; [exact S|apply sort_strs_sorted|].
  eapply Permutation_trans; [exact P|]. eapply Permutation_trans; [|apply Permutation_sym, sort_by_perm].
  eapply Permutation_trans; [apply Permutation_app_comm|]. apply Permutation_app; [apply cnames_perm|].
  apply Permutation_map. apply Permutation_sym, Permutation_rev.
Qed.
Lemma dim_bytes_model h v c b : desc_dim_bytes h v (amap_of c) = Some b -> dim_bytes h v c = b.
Proof.
  unfold desc_dim_bytes, dim_bytes. destruct (add_vars v (cnames (amap_of c))) as [names|] eqn:E; [|discriminate].
  cbn [option_map]. intros H. inversion H; subst. unfold dim_preimage.
  rewrite (names_are_sorted_union _ _ _ (amap_of_nodup c) E). reflexivity.
Qed.

(* what Desc::new returned, in the spec's vocabulary *)
Lemma desc_new_spec_view fq h v c d : desc_new fq h v (amap_of c) = Some d ->
  d_id d = fnv1a (id_bytes fq c) /\ d_dim d = fnv1a (dim_bytes h v c)
  /\ d_const_pairs d = map (fun a => mkLP (fst a) (snd a)) (sorted_pairs c).
Proof.
  intros H. destruct (desc_new_hashes _ _ _ _ _ H) as (Hid & b & Hb & Hdim). split; [|split].
  - rewrite id_bytes_model. exact Hid.
  - rewrite (dim_bytes_model _ _ _ _ Hb). exact Hdim.
  - apply desc_new_fields in H as (_ & _ & E & _). rewrite E, sorted_pairs_unfold, sorted_lps. reflexivity.
Qed.

(* ---------- equal hashes: equal bytes, or a true collision ---------- *)
Lemma hash_eq_ok (a b : list N) (s : bool) :
  (a = b <-> s = true) -> (Bool.eqb (fnv1a a =? fnv1a b) s || true_collision a b) = true.
Proof.
  intros H. unfold true_collision. destruct (list_eqb N.eqb a b) eqn:E.
  - apply (list_eqb_spec N.eqb N.eqb_eq) in E. subst b. rewrite N.eqb_refl. rewrite (proj1 H eq_refl). reflexivity.
  - assert (Hs : s = false).
    { destruct s; auto. pose proof (proj2 H eq_refl) as Eab. subst b.
      rewrite (proj2 (list_eqb_spec N.eqb N.eqb_eq a a) eq_refl) in E. discriminate. }
    subst s. cbn [negb andb]. destruct (fnv1a a =? fnv1a b); reflexivity.
Qed.

(* ---------- identity ---------- *)
Definition wf_vals (c : list (str * str)) : Prop := Forall (fun kv => wf_str (snd kv)) c.

Lemma amap_wf_consts c : wf_vals c -> Forall (fun n => is_valid_label_name n = true) (map fst (amap_of c)) ->
  wf_consts (amap_of c).
Proof.
  intros W F. apply Forall_forall. intros [k v] Hin. cbn [fst snd]. split.
  - apply valid_label_name_wf. rewrite Forall_forall in F. apply F. apply (in_map fst) in Hin. exact Hin.
  - apply (in_map snd) in Hin. apply amap_of_vals in Hin. apply in_map_iff in Hin as (kv & E & Hkv). cbn in E. subst v.
    unfold wf_vals in W. rewrite Forall_forall in W. apply W. exact Hkv.
Qed.

Lemma same_identity_iff fq1 c1 fq2 c2 :
  same_identity fq1 c1 fq2 c2 = true <-> fq1 = fq2 /\ cvals (amap_of c1) = cvals (amap_of c2).
Proof.
  unfold same_identity. rewrite andb_true_iff, str_eqb_eq, (list_eqb_spec str_eqb str_eqb_eq), !sorted_pairs_unfold.
  rewrite !sorted_vals by apply amap_of_nodup. tauto.
Qed.

Lemma id_part_ok fq1 h1 v1 c1 d1 fq2 h2 v2 c2 d2 :
  wf_vals c1 -> wf_vals c2 ->
  desc_new fq1 h1 v1 (amap_of c1) = Some d1 -> desc_new fq2 h2 v2 (amap_of c2) = Some d2 ->
  (id_bytes fq1 c1 = id_bytes fq2 c2 <-> same_identity fq1 c1 fq2 c2 = true).
Proof.
  intros W1 W2 H1 H2.
  apply desc_new_inv in H1 as (_ & Hfq1 & Fc1 & _). apply desc_new_inv in H2 as (_ & Hfq2 & Fc2 & _).
  rewrite !id_bytes_model, same_identity_iff. apply desc_id_bytes_iff.
  - apply valid_metric_name_wf; exact Hfq1.
  - apply amap_wf_consts; assumption.
  - apply valid_metric_name_wf; exact Hfq2.
  - apply amap_wf_consts; assumption.
Qed.

(* ---------- dimension signature ---------- *)
Lemma set_eqb_iff a b : set_eqb a b = true <-> (forall x, In x a <-> In x b).
Proof.
  unfold set_eqb. rewrite andb_true_iff, !forallb_forall. split.
  - intros [H1 H2] x. split; intros Hx; [apply mem_str_In, H1|apply mem_str_In, H2]; exact Hx.
  - intros H. split; intros x Hx; apply mem_str_In; apply H; exact Hx.
Qed.
Lemma set_eqb_perm a b a' b' :
  NoDup a' -> NoDup b' -> (forall x, In x a' <-> In x a) -> (forall x, In x b' <-> In x b) ->
  (set_eqb a b = true <-> Permutation a' b').
Proof.
  intros Na Nb Ha Hb. rewrite set_eqb_iff. split.
  - intros H. apply NoDup_Permutation; auto. intros x. rewrite Ha, Hb. apply H.
  - intros P x. rewrite <- Ha, <- Hb. split; apply Permutation_in; [exact P|apply Permutation_sym; exact P].
Qed.

Lemma dim_part_ok fq1 h1 v1 c1 d1 fq2 h2 v2 c2 d2 :
  wf_str h1 -> wf_str h2 ->
  desc_new fq1 h1 v1 (amap_of c1) = Some d1 -> desc_new fq2 h2 v2 (amap_of c2) = Some d2 ->
  (dim_bytes h1 v1 c1 = dim_bytes h2 v2 c2 <-> same_dims h1 v1 c1 h2 v2 c2 = true).
Proof.
  intros W1 W2 H1 H2.
  destruct (desc_new_hashes _ _ _ _ _ H1) as (_ & b1 & Hb1 & _). destruct (desc_new_hashes _ _ _ _ _ H2) as (_ & b2 & Hb2 & _).
  apply desc_new_inv in H1 as (_ & _ & Fc1 & n1 & Ha1 & _). apply desc_new_inv in H2 as (_ & _ & Fc2 & n2 & Ha2 & _).
  pose proof (amap_of_nodup c1) as N1. pose proof (amap_of_nodup c2) as N2.
  pose proof (add_vars_nodup_vars _ _ _ (cnames_sorted _) (cnames_nodup _ N1) Ha1) as Nv1.
  pose proof (add_vars_nodup_vars _ _ _ (cnames_sorted _) (cnames_nodup _ N2) Ha2) as Nv2.
  rewrite (dim_bytes_model _ _ _ _ Hb1), (dim_bytes_model _ _ _ _ Hb2).
  rewrite (desc_dim_bytes_iff h1 v1 (amap_of c1) b1 h2 v2 (amap_of c2) b2 W1 W2 N1 N2 Fc1 Fc2 Hb1 Hb2).
  unfold same_dims. rewrite !andb_true_iff, str_eqb_eq.
  rewrite (set_eqb_perm (map fst c1) (map fst c2) (map fst (amap_of c1)) (map fst (amap_of c2)) N1 N2
             (amap_of_keys c1) (amap_of_keys c2)).
  rewrite (set_eqb_perm v1 v2 v1 v2 Nv1 Nv2 (fun x => iff_refl _) (fun x => iff_refl _)). tauto.
Qed.

(* ---------- one pair of calls, one call ---------- *)
Lemma pair_ok_model w1 w2 o1 o2 :
  op_dom15 o1 = true -> op_dom15 o2 = true -> pair_ok (o1, snd (step w1 o1)) (o2, snd (step w2 o2)) = true.
Proof.
  intros D1 D2. destruct o1 as [fq1 h1 v1 c1| | | | | | | | | | | | | | | | | | | | | | | | | | | | | | | | | | | | | | | | | | | ];
    try reflexivity.
  cbn [step snd]. destruct (desc_new fq1 h1 v1 (amap_of c1)) as [d1|] eqn:E1; [|reflexivity].
  destruct o2 as [fq2 h2 v2 c2| | | | | | | | | | | | | | | | | | | | | | | | | | | | | | | | | | | | | | | | | | | ];
    try reflexivity.
  cbn [step snd]. destruct (desc_new fq2 h2 v2 (amap_of c2)) as [d2|] eqn:E2; [|reflexivity].
  cbn [op_dom15] in D1, D2. apply andb_true_iff in D1 as [Wh1 Wc1]. apply andb_true_iff in D2 as [Wh2 Wc2].
  apply wf_strb_spec in Wh1, Wh2.
  assert (Wv1 : wf_vals c1).
  { apply Forall_forall. intros kv Hkv. rewrite forallb_forall in Wc1. apply wf_strb_spec. apply Wc1. exact Hkv. }
  assert (Wv2 : wf_vals c2).
  { apply Forall_forall. intros kv Hkv. rewrite forallb_forall in Wc2. apply wf_strb_spec. apply Wc2. exact Hkv. }
  destruct (desc_new_spec_view _ _ _ _ _ E1) as (I1 & M1 & _). destruct (desc_new_spec_view _ _ _ _ _ E2) as (I2 & M2 & _).
  unfold pair_ok. rewrite I1, I2, M1, M2. apply andb_true_iff. split.
  - apply hash_eq_ok. eapply id_part_ok; eauto.
  - apply hash_eq_ok. eapply dim_part_ok; eauto.
Qed.

Lemma pairs_ok_model w o : pairs_ok (o, snd (step w o)) = true.
Proof.
  destruct o as [fq h v c| | | | | | | | | | | | | | | | | | | | | | | | | | | | | | | | | | | | | | | | | | | ]; try reflexivity.
  cbn [step snd]. destruct (desc_new fq h v (amap_of c)) as [d|] eqn:E; [|reflexivity].
  destruct (desc_new_spec_view _ _ _ _ _ E) as (_ & _ & P). unfold pairs_ok. rewrite P.
  apply (list_eqb_spec lp_eqb lp_eqb_spec). reflexivity.
Qed.

(* ---------- histories ---------- *)
Lemma in_combine_run ops : forall w o ob, In (o, ob) (combine ops (run w ops)) -> In o ops /\ exists w', ob = snd (step w' o).
Proof.
  induction ops as [|a ops IH]; intros w o ob H; cbn [run combine] in H; [destruct H|].
  destruct (step w a) as [w1 ob1] eqn:E. cbn [combine] in H. destruct H as [H|H].
  - inversion H; subst. split; [left; reflexivity|]. exists w. rewrite E. reflexivity.
  - destruct (IH _ _ _ H) as [Hin Hw]. split; [right; exact Hin|exact Hw].
Qed.

Theorem spec_c15_model_from w ops : dom15 ops = true -> spec_c15 ops (run w ops) = true.
Proof.
  intros D. unfold dom15 in D. rewrite forallb_forall in D. unfold spec_c15. apply andb_true_iff. split.
  - apply all_pairs_true. intros [o1 ob1] [o2 ob2] H1 H2.
    destruct (in_combine_run _ _ _ _ H1) as (I1 & w1 & ->). destruct (in_combine_run _ _ _ _ H2) as (I2 & w2 & ->).
    apply pair_ok_model; apply D; assumption.
  - apply forallb_forall. intros [o ob] H. destruct (in_combine_run _ _ _ _ H) as (_ & w1 & ->). apply pairs_ok_model.
Qed.

Theorem spec_c15_model ops : dom15 ops = true -> spec_c15 ops (run world0 ops) = true.
Proof. apply spec_c15_model_from. Qed.

(* Corollary for the oracle: whenever the implementation's observations agree with the model's
   (obs_eqb step by step, what the correspondence check establishes), the spec evaluated on the
   implementation's observations is the spec evaluated on the model's, hence true. *)
Lemma opt_desc_eqb_eq (x y : option (N * N * list LabelPair)) :
  opt_eqb (fun p q => let '(i, d, c) := p in let '(i', d', c') := q in (i =? i') && (d =? d') && list_eqb lp_eqb c c') x y = true ->
  x = y.
Proof.
  destruct x as [[[i d] c]|], y as [[[i' d'] c']|]; cbn; try discriminate; auto.
  rewrite !andb_true_iff, !N.eqb_eq, (list_eqb_spec lp_eqb lp_eqb_spec). intros [[-> ->] ->]. reflexivity.
Qed.
Lemma pair_ok_obs_ext o1 a1 b1 o2 a2 b2 :
  obs_eqb a1 b1 = true -> obs_eqb a2 b2 = true -> pair_ok (o1, a1) (o2, a2) = pair_ok (o1, b1) (o2, b2).
Proof.
  intros E1 E2. destruct o1; try reflexivity. destruct o2.
  2-44: (destruct a1, b1; try discriminate E1; try reflexivity; apply opt_desc_eqb_eq in E1; subst; reflexivity).
  destruct a1, b1; try discriminate E1; try reflexivity. apply opt_desc_eqb_eq in E1. subst.
  destruct a2, b2; try discriminate E2; try reflexivity. apply opt_desc_eqb_eq in E2. subst. reflexivity.
Qed.
Lemma pairs_ok_obs_ext o a b : obs_eqb a b = true -> pairs_ok (o, a) = pairs_ok (o, b).
Proof.
  intros E. destruct o; try reflexivity. destruct a, b; try discriminate E; try reflexivity.
  apply opt_desc_eqb_eq in E. subst. reflexivity.
Qed.

Lemma all_pairs_rel {A} (R : A -> A -> Prop) (f : A -> A -> bool) l l' :
  (forall x x' y y', R x x' -> R y y' -> f x y = f x' y') -> Forall2 R l l' -> all_pairs f l = all_pairs f l'.
Proof.
  intros Hf. induction 1 as [|x y l l' Hxy H IH]; cbn [all_pairs]; auto. rewrite IH. f_equal.
  apply (forallb_rel2 R); auto.
Qed.

Theorem spec_c15_agree ops a b : obs_agree a b -> spec_c15 ops a = spec_c15 ops b.
Proof.
  intros H. unfold spec_c15. pose proof (combine_agree ops a b H) as C. f_equal.
  - apply (all_pairs_rel rel_oo); auto. intros [o1 a1] [o1' b1] [o2 a2] [o2' b2] [E1 H1] [E2 H2]. cbn [fst snd] in *. subst.
    apply pair_ok_obs_ext; assumption.
  - apply (forallb_rel rel_oo); auto. intros [o1 a1] [o1' b1] [E1 H1]. cbn [fst snd] in *. subst. apply pairs_ok_obs_ext; assumption.
Qed.

(* the oracle is silent whenever the implementation's observations agree with the model's *)
Theorem spec_c15_oracle_silent ops impl :
  dom15 ops = true -> first_diff 0 (run world0 ops) impl = None -> spec_c15 ops impl = true.
Proof.
  intros D F. rewrite <- (spec_c15_agree ops _ _ (first_diff_none _ _ _ F)). apply spec_c15_model. exact D.
Qed.

(* ---------- non-vacuity: what the generator of tools/p_C15.py emits lies inside dom15 ---------- *)
(* a generated scenario (seed 7): reordered constant labels, a name moved to the variable labels, the collision name *)
Definition ex15_gen : list op :=
  [(OpDesc [120] [104;101;108;112;32;116;101;120;116] [] [([90],[49]);([90;98],[97;98])]);
   (OpDesc [120] [104;101;108;112;32;116;101;120;116] [] [([90;98],[97;98]);([90],[49])]);
   (OpDesc [120] [104;101;108;112;32;116;101;120;116] [] [([90],[49]);([90;98],[97;98])]);
   (OpDesc [120] [104;101;108;112;32;116;101;120;116] [[90;98]] [([90],[49])]);
   (OpDesc [120] [104;101;108;112;32;116;101;120;116] [] [([90],[49]);([90;98],[97;98])]);
   (OpDesc [105;118;108;116;108;100;103;109;111;99;116;121;98;100] [104;101;108;112;32;116;101;120;116] [] [])].
(* the FNV-1a collision pair as two names (equal ids, different identities: excused by true_collision), a
   boundary-shifted pair, a refused descriptor, non-ASCII / NUL / U+10FFFF in help and values *)
Definition ex15_hard : list op :=
  [OpDesc [105;110;100;98;102;113;101;121;115;98;110;112;115;102] [104] [] [];
   OpDesc [105;118;108;116;108;100;103;109;111;99;116;121;98;100] [104] [] [];
   OpDesc [97;98] [104] [] [([107], [99])];
   OpDesc [97] [104] [] [([107], [98;99])];
   OpDesc [49] [104] [] [];
   OpDesc [99] [233;1114111] [[118]] [([107], [0;233;65535]); ([107], [])];
   OpFqName [97] [] [98]].
Definition accepted (obs : list obs) : nat :=
  length (filter (fun o => match o with ODesc (Some _) => true | _ => false end) obs).
Definition ids_of (obs : list obs) : list N :=
  flat_map (fun o => match o with ODesc (Some (i, _, _)) => [i] | _ => [] end) obs.

Example spec_c15_model_nonvacuous :
  dom15 ex15_gen = true /\ accepted (run world0 ex15_gen) = 6%nat /\ spec_c15 ex15_gen (run world0 ex15_gen) = true
  /\ dom15 ex15_hard = true /\ accepted (run world0 ex15_hard) = 5%nat /\ spec_c15 ex15_hard (run world0 ex15_hard) = true
  /\ (* the collision pair really has equal ids in the model *)
     (match ids_of (run world0 ex15_hard) with a :: b :: _ => a =? b | _ => false end) = true.
Proof. vm_compute. repeat split. Qed.
(* a string that is not a list of scalar values is outside the domain *)
Example dom15_excludes_non_scalar : dom15 [OpDesc [97] [0x110000] [] []] = false.
Proof. vm_compute. reflexivity. Qed.
