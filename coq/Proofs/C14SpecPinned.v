(* C14: the executable spec written from the property text ([spec_c14], Spec/SpecC14.v) holds of the
   world model.  Only pinned statements, closed by [exact], with their assumptions printed.

     forall ops, dom14 ops = true ->
       spec_c14 ops (run world0 ops) = true \/ known_c14 ops (run world0 ops) = true

   for the histories of ALL operations of Model/World.v except OpCustom, [dom14] = [dom07] (see
   Proofs/C07SpecPinned.v: no OpCustom; const labels are maps; registries not cloned; no FNV-1a
   collision between the dimension hashes of same-name descriptors of one registry; unregistration
   by the slot that was registered).  The [..._partial] names are kept as aliases. *)
Require Import PV.Base.Prelude PV.Base.F64.
Require Import PV.Model.Proto PV.Model.Desc PV.Model.Value PV.Model.Registry PV.Model.World.
Require Import PV.Proofs.C07SpecStep PV.Proofs.C07SpecRegs PV.Proofs.C07Spec PV.Proofs.C14Spec.
Require Import PV.Spec.SpecC07 PV.Spec.SpecC14.

Theorem c14_spec_of_model : forall ops, dom14 ops = true ->
  spec_c14 ops (run world0 ops) = true \/ known_c14 ops (run world0 ops) = true.
Proof. exact c14_spec_model. Qed.
Theorem c14_spec_model_partial : forall ops, dom14 ops = true ->
  spec_c14 ops (run world0 ops) = true \/ known_c14 ops (run world0 ops) = true.
Proof. exact c14_spec_of_model. Qed.
(* the sharper form: every gathered family is homogeneous and back-to-back gathers declare the same
   types unless collectors of different kinds are registered under one name in one registry *)
Theorem c14_spec_of_model_strict : forall ops, dom14 ops = true ->
  mixed_kinds_registered ops (run world0 ops) = false -> spec_c14 ops (run world0 ops) = true.
Proof. exact c14_spec_strict. Qed.
Theorem c14_spec_strict_partial : forall ops, dom14 ops = true ->
  mixed_kinds_registered ops (run world0 ops) = false -> spec_c14 ops (run world0 ops) = true.
Proof. exact c14_spec_of_model_strict. Qed.

Example c14_dom_many_labels : dom14 ex_many_labels = true /\ spec_c14 ex_many_labels (run world0 ex_many_labels) = true.
Proof. exact ex_many_labels_c14. Qed.
Example c14_dom_gathergen : dom14 ex_gathergen = true /\ spec_c14 ex_gathergen (run world0 ex_gathergen) = true.
Proof. exact ex_gathergen_c14. Qed.
Example c14_dom_witness : dom14 ex_c14_witness = true /\ known_c14 ex_c14_witness (run world0 ex_c14_witness) = true.
Proof. exact ex_c14_witness_c14. Qed.

Example c14_dom_locals_drop : dom14 ex_locals_drop = true /\ spec_c14 ex_locals_drop (run world0 ex_locals_drop) = true.
Proof. exact ex_locals_drop_c14. Qed.

Check c14_spec_of_model : forall ops, dom14 ops = true ->
  spec_c14 ops (run world0 ops) = true \/ known_c14 ops (run world0 ops) = true.
Check c14_spec_of_model_strict : forall ops, dom14 ops = true ->
  mixed_kinds_registered ops (run world0 ops) = false -> spec_c14 ops (run world0 ops) = true.
Check c14_spec_model_partial : forall ops, dom14 ops = true ->
  spec_c14 ops (run world0 ops) = true \/ known_c14 ops (run world0 ops) = true.
Check c14_spec_strict_partial : forall ops, dom14 ops = true ->
  mixed_kinds_registered ops (run world0 ops) = false -> spec_c14 ops (run world0 ops) = true.
Print Assumptions c14_spec_of_model.
Print Assumptions c14_spec_of_model_strict.
Print Assumptions c14_dom_locals_drop.
Print Assumptions c14_spec_model_partial.
Print Assumptions c14_spec_strict_partial.
Print Assumptions c14_dom_many_labels.
Print Assumptions c14_dom_gathergen.
Print Assumptions c14_dom_witness.

(* ---- the same for histories with user-written collectors exposing no families (the generator's overlap scenarios); dom14c = dom07c *)
Require PV.Proofs.C07SpecCustom PV.Proofs.C14SpecCustom PV.Proofs.C07SpecCustomSub.
Theorem c14_spec_of_model_custom : forall ops, C14SpecCustom.dom14c ops = true ->
  spec_c14 ops (run world0 ops) = true \/ known_c14 ops (run world0 ops) = true.
Proof. exact C14SpecCustom.c14_spec_model_custom. Qed.
Theorem c14_spec_of_model_strict_custom : forall ops, C14SpecCustom.dom14c ops = true ->
  mixed_kinds_registered ops (run world0 ops) = false -> spec_c14 ops (run world0 ops) = true.
Proof. exact C14SpecCustom.c14_spec_strict_custom. Qed.
Theorem c14_dom_contained_in_custom_dom : forall ops, dom14 ops = true -> C14SpecCustom.dom14c ops = true.
Proof. exact C07SpecCustomSub.dom14_sub_dom14c. Qed.
Example c14_dom_custom_gen : C14SpecCustom.dom14c C07SpecCustom.ex_custom_gen = true
  /\ spec_c14 C07SpecCustom.ex_custom_gen (run world0 C07SpecCustom.ex_custom_gen) = true.
Proof. exact C14SpecCustom.ex_custom_gen_c14. Qed.
Example c14_dom_custom_accepted : C14SpecCustom.dom14c C07SpecCustom.ex_custom_accepted = true
  /\ spec_c14 C07SpecCustom.ex_custom_accepted (run world0 C07SpecCustom.ex_custom_accepted) = true.
Proof. exact C14SpecCustom.ex_custom_accepted_c14. Qed.
Check c14_spec_of_model_custom : forall ops, C14SpecCustom.dom14c ops = true ->
  spec_c14 ops (run world0 ops) = true \/ known_c14 ops (run world0 ops) = true.
Check c14_spec_of_model_strict_custom : forall ops, C14SpecCustom.dom14c ops = true ->
  mixed_kinds_registered ops (run world0 ops) = false -> spec_c14 ops (run world0 ops) = true.
Print Assumptions c14_spec_of_model_custom.
Print Assumptions c14_spec_of_model_strict_custom.
Print Assumptions c14_dom_contained_in_custom_dom.
Print Assumptions c14_dom_custom_gen.
Print Assumptions c14_dom_custom_accepted.
