(* C10, part 4: a consequence stated purely on the call / return markers of the trace (real-time form of
   "a removed child no longer appears in collections"), derived from the linearisation log. *)
Require Import PV.Base.Prelude PV.Base.StrFacts PV.Model.Conc PV.Model.VecConc.
Require Import PV.Proofs.VecConcBase PV.Proofs.VecConcLin PV.Proofs.VecConcFacts.
From Coq Require Import Arith Lia Permutation Sorted.
Open Scope nat_scope.

(* ---- splitting a time-sorted log (newest first) at two of its entries *)
Lemma sorted_before (A : list lent) x rest :
  StronglySorted (fun a b => le_time b < le_time a) (A ++ x :: rest) ->
  Forall (fun b => le_time b < le_time x) rest /\ Forall (fun a => le_time x < le_time a) A
  /\ StronglySorted (fun a b => le_time b < le_time a) rest.
Proof.
  induction A as [|a A IH]; cbn; intros H.
  - apply StronglySorted_inv in H as [H1 H2]. auto.
  - apply StronglySorted_inv in H as [H1 H2]. destruct (IH H1) as (I1 & I2 & I3). repeat split; auto.
    constructor; auto. rewrite Forall_forall in H2. apply H2. apply in_app_iff. right; left; auto.
Qed.

Lemma sorted_split log e1 e2 :
  StronglySorted (fun a b => le_time b < le_time a) log -> In e1 log -> In e2 log -> le_time e1 < le_time e2 ->
  exists A B C, log = A ++ e2 :: B ++ e1 :: C /\ forall x, In x B -> le_time e1 < le_time x < le_time e2.
Proof.
  intros S H1 H2 Hlt. apply in_split in H2 as (A & rest & ->).
  destruct (sorted_before A e2 rest S) as (I1 & I2 & I3).
  apply in_app_iff in H1 as [H1|[H1|H1]].
  - rewrite Forall_forall in I2. apply I2 in H1. lia.
  - subst. lia.
  - apply in_split in H1 as (B & C & ->). exists A, B, C. split; auto.
    destruct (sorted_before B e1 C I3) as (J1 & J2 & _). intros x Hx. split.
    + rewrite Forall_forall in J2. auto.
    + rewrite Forall_forall in I1. apply I1. apply in_app_iff; auto.
Qed.

(* ---- membership in a call's logged operations *)
Lemma lins_in_In t ti trr log x :
  In x (lins_in t ti trr log) <-> exists e, In e log /\ winb t ti trr e = true /\ opres e = x.
Proof.
  unfold lins_in. rewrite in_map_iff. split.
  - intros (e & E & H). rewrite <- in_rev in H. apply filter_In in H as [H1 H2]. eauto.
  - intros (e & H1 & H2 & E). exists e. split; auto. rewrite <- in_rev. apply filter_In; auto.
Qed.
Lemma lins_of_In t ti log x :
  In x (lins_of t ti log) <-> exists e, In e log /\ mineb t ti e = true /\ opres e = x.
Proof.
  unfold lins_of. rewrite in_map_iff. split.
  - intros (e & E & H). rewrite <- in_rev in H. apply filter_In in H as [H1 H2]. eauto.
  - intros (e & H1 & H2 & E). exists e. split; auto. rewrite <- in_rev. apply filter_In; auto.
Qed.

Lemma reads_no_get vis k r : ~ In (AGet k, r) (reads vis).
Proof. unfold reads. intros H. apply in_map_iff in H as (x & E & _). discriminate. Qed.

(* a get-or-create of k is only ever logged for a with_label_values(k) call *)
Lemma ret_matches_get nl c r ls k x : ret_matches nl c r ls -> In (AGet k, x) ls -> exists d, c = CWithInc k d.
Proof.
  destruct c; cbn; try tauto.
  - destruct (Nat.eqb (length k0) nl).
    + intros (_ & ch & ->) [H|[H|[]]]; inversion H; subst. eauto.
    + intros (_ & ->) [].
  - destruct (Nat.eqb (length k0) nl).
    + intros [(_ & ->)|(_ & ->)] [H|[]]; discriminate.
    + intros (_ & ->) [].
  - intros (_ & ->) [H|[]]; discriminate.
  - intros (snap & vis & _ & -> & _) [H|H]; [discriminate | apply reads_no_get in H; tauto].
Qed.
Lemma pc_shape_get nl c p ls k x : pc_shape nl c p ls -> In (AGet k, x) ls -> exists d, c = CWithInc k d.
Proof.
  destruct p as [ | | | ? ? [?|] | | | | | | | | | | | | | | ]; cbn [pc_shape]; try tauto.
  all: try solve [intros (_ & _ & ->) []].
  all: try solve [intros (-> & _ & ->) [HH|[]]; inversion HH; subst; eauto].
  all: try solve [intros (_ & _ & ->) [HH|[]]; discriminate].
  all: try solve [intros (_ & ->) []].
  all: try solve [intros (_ & ->) [HH|[]]; discriminate].
  - intros (_ & ->) [HH|HH]; [discriminate | apply reads_no_get in HH; tauto].
  - apply ret_matches_get.
Qed.

Definition removal_call (nl : nat) (k : key) (c : call) : Prop := c = CVReset \/ (c = CRemove k /\ length k = nl).

Section RT.
Variables (nl : nat) (tr : list label) (s : vstate).
Hypothesis R : reach nl tr s.

(* If a remove of k (or a reset) returned before a collection was invoked, and every with_label_values(k) call invoked before
   the collection returned had already returned before that removal was invoked, the collection does not show k. *)
Theorem removed_not_collected_rt k t1 c1 r1 ti1 tr1 t2 l ti2 tr2 :
  In (t1, c1, r1, ti1, tr1) (g_done s) -> removal_call nl k c1 ->
  In (t2, CVCollect, RColl l, ti2, tr2) (g_done s) -> tr1 < ti2 ->
  (forall i t d, nth_error tr i = Some (LE (ECall t (CWithInc k d))) -> i < tr2 ->
                 exists j r, nth_error tr j = Some (LE (ERet t r)) /\ i < j < ti1) ->
  ~ In k (map fst l).
Proof.
  intros HR Hrc HC Hlt Hno. pose proof (reach_ginv nl tr s R) as G. pose proof (reach_nl nl tr s R) as Hnl.
  destruct (G_done tr s G _ _ _ _ _ HR) as (_ & _ & MR & _). destruct (G_done tr s G _ _ _ _ _ HC) as (_ & _ & MC & _).
  rewrite Hnl in MR, MC.
  (* the removal's logged operation *)
  assert (HeR : exists eR, In eR (g_lin s) /\ winb t1 ti1 tr1 eR = true /\ kills k (le_op eR)).
  { destruct Hrc as [->|[-> Hk]]; cbn in MR.
    - destruct MR as (_ & MR). assert (Hin : In (AReset, RDone) (lins_in t1 ti1 tr1 (g_lin s))) by (rewrite MR; left; auto).
      apply lins_in_In in Hin as (e & A & B & C). exists e. repeat split; auto. left. inversion C; auto.
    - apply Nat.eqb_eq in Hk. rewrite Hk in MR.
      assert (Hin : exists x, In (ARemove k, x) (lins_in t1 ti1 tr1 (g_lin s))) by (destruct MR as [(_ & ->)|(_ & ->)]; eexists; left; eauto).
      destruct Hin as (x & Hin). apply lins_in_In in Hin as (e & A & B & C). exists e. repeat split; auto. right. inversion C; auto. }
  destruct HeR as (eR & ReIn & ReW & ReK).
  (* the collection's key snapshot *)
  cbn in MC. destruct MC as (snap & vis & Hl & Hls & Hperm). inversion Hl; subst l.
  assert (HeC : In (ACollect, RKeys snap) (lins_in t2 ti2 tr2 (g_lin s))) by (rewrite Hls; left; auto).
  apply lins_in_In in HeC as (eC & CeIn & CeW & CeO).
  assert (Htimes : le_time eR <= tr1 /\ ti1 <= le_time eR /\ ti2 <= le_time eC /\ le_time eC <= tr2).
  { unfold winb, mineb in *. repeat match goal with H : _ && _ = true |- _ => apply andb_true_iff in H; destruct H end.
    repeat match goal with H : Nat.leb _ _ = true |- _ => apply Nat.leb_le in H end. lia. }
  destruct (sorted_split (g_lin s) eR eC (G_sorted tr s G) ReIn CeIn ltac:(lia)) as (A & B & C & Elog & HB).
  (* the log, oldest first *)
  assert (Echron : chron s = map opres (rev C) ++ opres eR :: map opres (rev B) ++ opres eC :: map opres (rev A)).
  { unfold chron. rewrite Elog. rewrite rev_app_distr. cbn [rev]. rewrite rev_app_distr. cbn [rev].
    rewrite <- !app_assoc. cbn [app]. rewrite map_app. cbn [map]. rewrite map_app. cbn [map]. reflexivity. }
  assert (Hsnap : ~ In k (map fst snap)).
  { unfold opres in Echron at 2. rewrite CeO in Echron.
    eapply (removed_not_collected nl tr s R _ (le_op eR) (le_res eR) k _ snap _); [exact Echron | exact ReK |].
    intros o' r' Hin Ho'. subst o'. apply in_map_iff in Hin as (x & Ex & Hx). rewrite <- in_rev in Hx.
    specialize (HB x Hx).
    assert (Hxin : In x (g_lin s)) by (rewrite Elog; apply in_app_iff; right; right; apply in_app_iff; left; auto).
    assert (Hxop : opres x = (AGet k, r')) by exact Ex.
    destruct (G_owner tr s G x Hxin) as [(c & ti & Ho & Hle)|(c & r & ti & trr & Hd & Hle)].
    - (* owner still open *)
      pose proof (G_open tr s G (le_tid x)) as Gop. rewrite Ho in Gop. destruct Gop as (_ & Hsh & Hcall & Hbefore).
      assert (Hm : In (AGet k, r') (lins_of (le_tid x) ti (g_lin s))).
      { apply lins_of_In. exists x. repeat split; auto. unfold mineb. rewrite Nat.eqb_refl. apply Nat.leb_le in Hle. rewrite Hle. auto. }
      destruct (pc_shape_get _ _ _ _ _ _ Hsh Hm) as (d & ->).
      destruct (Hno _ _ _ Hcall ltac:(lia)) as (j & r & Hj & Hjr).
      destruct (G_rets tr s G _ _ _ Hj) as (c' & ti' & Hd'). apply Hbefore in Hd'. lia.
    - (* owner completed *)
      destruct (G_done tr s G _ _ _ _ _ Hd) as (_ & _ & Mw & Hcall & _).
      assert (Hm : In (AGet k, r') (lins_in (le_tid x) ti trr (g_lin s))).
      { apply lins_in_In. exists x. repeat split; auto. unfold winb, mineb. rewrite Nat.eqb_refl.
        destruct Hle as [Hle1 Hle2]. apply Nat.leb_le in Hle1, Hle2. rewrite Hle1, Hle2. auto. }
      destruct (ret_matches_get _ _ _ _ _ _ Mw Hm) as (d & ->).
      destruct (Hno _ _ _ Hcall ltac:(lia)) as (j & r0 & Hj & Hjr).
      destruct (G_rets tr s G _ _ _ Hj) as (c' & ti' & Hd').
      destruct (G_done tr s G _ _ _ _ _ Hd') as (Hti' & _).
      destruct (G_disj tr s G _ _ _ _ _ _ _ _ _ Hd Hd') as [E|[E|E]]; [inversion E; subst; lia | lia | lia]. }
  intros Hk. apply Hsnap. apply (Permutation_map fst) in Hperm. eapply Permutation_in; [exact Hperm|].
  unfold vis_result, vis_keys in *. rewrite map_map in *. cbn in *. exact Hk.
Qed.
End RT.

Theorem removed_not_collected_real_time nl tr s k t1 c1 r1 ti1 tr1 t2 l ti2 tr2 :
  vrun (vinit nl) tr = Some s ->
  In (t1, c1, r1, ti1, tr1) (g_done s) -> removal_call nl k c1 ->
  In (t2, CVCollect, RColl l, ti2, tr2) (g_done s) -> tr1 < ti2 ->
  (forall i t d, nth_error tr i = Some (LE (ECall t (CWithInc k d))) -> i < tr2 ->
                 exists j r, nth_error tr j = Some (LE (ERet t r)) /\ i < j < ti1) ->
  ~ In k (map fst l).
Proof. intros H. apply removed_not_collected_rt. apply vrun_reach; auto. Qed.
