From Coq Require Import List ZArith Lia Bool Arith.
Import ListNotations.
Require Import PV.Model.HistConc.
Open Scope Z_scope.

Lemma sumf_app {A} (f : A -> Z) l1 l2 : sumf f (l1 ++ l2) = sumf f l1 + sumf f l2.
Proof. induction l1; cbn; lia. Qed.

Lemma sumf_set_nth {A} (f : A -> Z) l i x y :
  nth_error l i = Some x -> sumf f (set_nth i y l) = sumf f l - f x + f y.
Proof.
  revert i; induction l as [|h t IH]; intros [|i] H; cbn in *; try discriminate.
  - inversion H; subst; lia.
  - rewrite (IH _ H); lia.
Qed.

Lemma sumf_ext {A} (f g : A -> Z) l : (forall x, In x l -> f x = g x) -> sumf f l = sumf g l.
Proof. induction l; cbn; intros H; [reflexivity|]. rewrite H, IHl; auto. Qed.

Lemma set_nth_length {A} i (y : A) l : length (set_nth i y l) = length l.
Proof. revert i; induction l; intros [|i]; cbn; auto. Qed.

Lemma firstn_set_nth {A} k i (y : A) l :
  firstn k (set_nth i y l) = if (i <? k)%nat then set_nth i y (firstn k l) else firstn k l.
Proof.
  revert k i; induction l as [|h t IH]; intros [|k] [|i]; cbn [firstn set_nth]; auto.
  all: try (destruct (_ <? _)%nat; reflexivity).
  rewrite IH. change (S i <? S k)%nat with (i <? k)%nat. destruct (i <? k)%nat; reflexivity.
Qed.

Lemma skipn_set_nth {A} k i (y : A) l :
  skipn k (set_nth i y l) = if (i <? k)%nat then skipn k l else set_nth (i - k) y (skipn k l).
Proof.
  revert k i; induction l as [|h t IH]; intros [|k] [|i]; cbn [skipn set_nth Nat.sub]; auto.
  all: try (destruct (_ <? _)%nat; try reflexivity; destruct (_ - _)%nat; reflexivity).
  rewrite IH. change (S i <? S k)%nat with (i <? k)%nat. reflexivity.
Qed.

Lemma nth_error_firstn_lt {A} k i (l : list A) : (i < k)%nat -> nth_error (firstn k l) i = nth_error l i.
Proof.
  revert k i; induction l as [|h t IH]; intros [|k] [|i] H; cbn; auto; try lia.
  apply IH; lia.
Qed.

Lemma nth_error_skipn {A} k i (l : list A) : nth_error (skipn k l) i = nth_error l (k + i).
Proof.
  revert k; induction l as [|h t IH]; intros [|k]; cbn; auto. destruct i; reflexivity.
Qed.


Lemma sumf_firstn_set_nth {A} (f : A -> Z) k i x y l :
  nth_error l i = Some x ->
  sumf f (firstn k (set_nth i y l)) = sumf f (firstn k l) + (if (i <? k)%nat then f y - f x else 0).
Proof.
  intros H. rewrite firstn_set_nth. destruct (Nat.ltb_spec i k); [|lia].
  rewrite (sumf_set_nth f _ i x y); [lia|]. rewrite nth_error_firstn_lt; auto.
Qed.

Lemma sumf_skipn_set_nth {A} (f : A -> Z) k i x y l :
  nth_error l i = Some x ->
  sumf f (skipn k (set_nth i y l)) = sumf f (skipn k l) + (if (i <? k)%nat then 0 else f y - f x).
Proof.
  intros H. rewrite skipn_set_nth. destruct (Nat.ltb_spec i k); [lia|].
  rewrite (sumf_set_nth f _ (i - k) x y); [lia|]. rewrite nth_error_skipn. replace (k + (i - k))%nat with i by lia. auto.
Qed.

Lemma firstn_app_le {A} k (l : list A) r : (k <= length l)%nat -> firstn k (l ++ r) = firstn k l.
Proof. intros H. rewrite firstn_app. replace (k - length l)%nat with O by lia. rewrite firstn_O. apply app_nil_r. Qed.

Lemma skipn_app_le {A} k (l : list A) r : (k <= length l)%nat -> skipn k (l ++ r) = skipn k l ++ r.
Proof. intros H. rewrite skipn_app. replace (k - length l)%nat with O by lia. reflexivity. Qed.

Lemma In_set_nth {A} i (y : A) l z : In z (set_nth i y l) -> z = y \/ In z l.
Proof.
  revert i; induction l as [|h t IH]; intros [|i]; cbn; auto.
  - intros [->|H]; auto.
  - intros [->|H]; auto. destruct (IH _ H); auto.
Qed.

Lemma nth_error_set_nth_eq {A} i (y : A) l : (i < length l)%nat -> nth_error (set_nth i y l) i = Some y.
Proof. revert i; induction l as [|h t IH]; intros [|i] H; cbn in *; auto; try lia. apply IH; lia. Qed.

Lemma nth_error_set_nth_neq {A} i j (y : A) l : i <> j -> nth_error (set_nth i y l) j = nth_error l j.
Proof. revert i j; induction l as [|h t IH]; intros [|i] [|j] H; cbn in *; auto; try lia. Qed.

Lemma In_firstn {A} k (l : list A) x : In x (firstn k l) -> In x l.
Proof. revert k; induction l as [|h t IH]; intros [|k]; cbn; auto; try tauto. intros [->|H]; eauto. Qed.
