(* C04, layer 1: characters, escaping and the small lexing combinators.

   - the validators of Model/Desc.v (what the library accepts as a name) imply the name syntax of
     the reader (Model/TextParse.v);
   - escape_string (with its fast path) = escape every character;
   - the reader's unescaping inverts it: read_quoted for label values, unescape_help for HELP texts;
   - span / token / skip_blanks on a rendered prefix;
   - number tokens: the contract float_token_ok / int_token_ok gives Leibniz equality of the value
     read back, and token characters only. *)
From Coq Require Import String Ascii.
Require Import PV.Base.Prelude PV.Base.F64 PV.Base.Utf8 PV.Base.Utf8Facts PV.Base.StrFacts.
Require Import PV.Model.Proto PV.Model.Desc PV.Model.Text PV.Model.TextParse.
Open Scope N_scope.

(* ------------------------------------------------------------------ tactics *)
Ltac ucon := unfold Text.LF, BS, DQ, SP, LBRACE, RBRACE, EQC, COMMA, LOWER_N,
  c_lf, c_tab, c_space, c_hash, c_bslash, c_dquote, c_lbrace, c_rbrace, c_equals, c_comma, c_n in *.

Ltac closedP p := lazymatch p with xH => idtac | xO ?q => closedP q | xI ?q => closedP q end.
Ltac closedN n := lazymatch n with N0 => idtac | Npos ?p => closedP p end.
(* evaluates comparisons between numerals (N.eqb & co are `simpl never`) *)
Ltac evN := repeat match goal with
  | |- context [N.eqb ?a ?b] => closedN a; closedN b; let v := eval vm_compute in (N.eqb a b) in change (N.eqb a b) with v
  | |- context [N.leb ?a ?b] => closedN a; closedN b; let v := eval vm_compute in (N.leb a b) in change (N.leb a b) with v
  | |- context [N.ltb ?a ?b] => closedN a; closedN b; let v := eval vm_compute in (N.ltb a b) in change (N.ltb a b) with v
  end.

Ltac b2p := repeat match goal with
  | H : _ && _ = true |- _ => apply andb_prop in H; destruct H
  | H : _ || _ = false |- _ => apply orb_false_elim in H; destruct H
  | H : negb _ = true |- _ => apply negb_true_iff in H
  | H : negb _ = false |- _ => apply negb_false_iff in H
  | H : (_ =? _) = true |- _ => apply N.eqb_eq in H
  | H : (_ =? _) = false |- _ => apply N.eqb_neq in H
  | H : (_ <=? _) = true |- _ => apply N.leb_le in H
  | H : (_ <=? _) = false |- _ => apply N.leb_gt in H
  | H : (_ <? _) = true |- _ => apply N.ltb_lt in H
  | H : (_ <? _) = false |- _ => apply N.ltb_ge in H
  end.
Ltac b2p_or := repeat (b2p; match goal with
  | H : _ || _ = true |- _ => apply orb_prop in H; destruct H
  | H : _ && _ = false |- _ => apply andb_false_elim in H; destruct H
  end); b2p.

(* a boolean statement about one character, by arithmetic *)
Ltac charb :=
  match goal with
  | |- ?X = true => destruct X eqn:?E; [reflexivity | exfalso; b2p_or; subst; try lia; try discriminate]
  | |- ?X = false => destruct X eqn:?E; [exfalso; b2p_or; subst; try lia; try discriminate | reflexivity]
  end.

(* ------------------------------------------------------------------ character classes *)
Definition printable (c : N) : bool := (33 <=? c) && (c <=? 126).     (* visible ASCII *)

Lemma mname_char_printable c : mname_char c = true -> printable c = true.
Proof. unfold mname_char, lname_char, p_alpha, p_digit, printable. intros H. charb. Qed.
Lemma lname_char_mname c : lname_char c = true -> mname_char c = true.
Proof. unfold mname_char. intros ->. reflexivity. Qed.
Lemma num_char_printable c : num_char c = true -> printable c = true.
Proof. unfold num_char, p_alpha, p_digit, printable. intros H. charb. Qed.
Lemma printable_not_blank c : printable c = true -> is_blank c = false.
Proof. unfold printable, is_blank. ucon. intros H. charb. Qed.
Lemma printable_scalar c : printable c = true -> scalarb c = true.
Proof. unfold printable, scalarb. intros H. charb. Qed.
Lemma printable_not_lf c : printable c = true -> (c =? 10) = false.
Proof. unfold printable. intros H. charb. Qed.

Lemma forallb_impl {A} (p q : A -> bool) l : (forall x, p x = true -> q x = true) -> forallb p l = true -> forallb q l = true.
Proof. intros H. induction l as [|x l IH]; cbn; auto. intros E. apply andb_prop in E as [E1 E2]. rewrite (H _ E1), IH; auto. Qed.

(* Desc validators => reader's name syntax *)
Lemma valid_metric_name_p s : is_valid_metric_name s = true -> p_valid_name mname_char s = true.
Proof.
  unfold is_valid_metric_name, is_valid_ident, p_valid_name. destruct s as [|c r]; [discriminate|]. intros H.
  apply andb_prop in H as [H1 H2]. cbn [forallb].
  assert (Hc : negb (p_digit c) = true /\ mname_char c = true).
  { unfold cs_colon, cs_nocolon, is_ascii_alpha in H1. unfold mname_char, lname_char, p_alpha, p_digit. split; charb. }
  destruct Hc as [-> ->]. cbn [andb].
  revert H2. apply forallb_impl. intros x Hx.
  unfold cs_colon, cs_nocolon, is_ascii_alpha, is_ascii_digit in Hx. unfold mname_char, lname_char, p_alpha, p_digit. charb.
Qed.
Lemma valid_label_name_p s : is_valid_label_name s = true -> p_valid_name lname_char s = true.
Proof.
  unfold is_valid_label_name, is_valid_ident, p_valid_name. destruct s as [|c r]; [discriminate|]. intros H.
  apply andb_prop in H as [H1 H2]. cbn [forallb].
  assert (Hc : negb (p_digit c) = true /\ lname_char c = true).
  { unfold cs_nocolon, is_ascii_alpha in H1. unfold lname_char, p_alpha, p_digit. split; charb. }
  destruct Hc as [-> ->]. cbn [andb].
  revert H2. apply forallb_impl. intros x Hx.
  unfold cs_nocolon, is_ascii_alpha, is_ascii_digit in Hx. unfold lname_char, p_alpha, p_digit. charb.
Qed.

Lemma p_valid_name_chars ch s : p_valid_name ch s = true -> forallb ch s = true.
Proof. destruct s; [discriminate|]. unfold p_valid_name. intros H. apply andb_prop in H as [_ H]. exact H. Qed.
Lemma p_valid_name_nonempty ch s : p_valid_name ch s = true -> s <> [].
Proof. destruct s; [discriminate|]. discriminate. Qed.
Lemma p_valid_name_app ch a b : p_valid_name ch a = true -> forallb ch b = true -> p_valid_name ch (a ++ b) = true.
Proof.
  destruct a as [|c a]; [discriminate|]. unfold p_valid_name. cbn [app]. intros H Hb. apply andb_prop in H as [H1 H2].
  rewrite H1. cbn [andb]. change (c :: a ++ b) with ((c :: a) ++ b). rewrite forallb_app, H2, Hb. reflexivity.
Qed.

(* ------------------------------------------------------------------ list_eqN *)
Lemma list_eqN_refl a : list_eqN a a = true.
Proof. induction a as [|x a IH]; cbn; auto. rewrite N.eqb_refl, IH. reflexivity. Qed.
Lemma list_eqN_eq a b : list_eqN a b = true <-> a = b.
Proof.
  split; [|intros ->; apply list_eqN_refl]. revert b. induction a as [|x a IH]; destruct b as [|y b]; cbn; try discriminate; auto.
  intros H. apply andb_prop in H as [H1 H2]. apply N.eqb_eq in H1. subst. f_equal. auto.
Qed.
Lemma list_eqN_neq a b : a <> b -> list_eqN a b = false.
Proof. intros H. destruct (list_eqN a b) eqn:E; auto. apply list_eqN_eq in E. contradiction. Qed.

(* ------------------------------------------------------------------ span, token, skip_blanks *)
Lemma span_app p a c r : forallb p a = true -> p c = false -> span p (a ++ c :: r) = (a, c :: r).
Proof. induction a as [|x a IH]; cbn; intros H Hc; [now rewrite Hc|]. apply andb_prop in H as [Hx Ha]. rewrite Hx, IH; auto. Qed.
Lemma span_all p a : forallb p a = true -> span p a = (a, []).
Proof. induction a as [|x a IH]; cbn; intros H; auto. apply andb_prop in H as [Hx Ha]. rewrite Hx, IH; auto. Qed.

Lemma token_app a c r : forallb printable a = true -> is_blank c = true -> token (a ++ c :: r) = (a, c :: r).
Proof.
  intros Ha Hc. unfold token. apply span_app; [|now rewrite Hc].
  revert Ha. apply forallb_impl. intros x Hx. now rewrite (printable_not_blank _ Hx).
Qed.
Lemma token_all a : forallb printable a = true -> token a = (a, []).
Proof.
  intros Ha. unfold token. apply span_all. revert Ha. apply forallb_impl. intros x Hx. now rewrite (printable_not_blank _ Hx).
Qed.
Lemma skip_blanks_id c r : is_blank c = false -> skip_blanks (c :: r) = c :: r.
Proof. intros H. cbn. now rewrite H. Qed.
Lemma skip_blanks_sp r : skip_blanks (32 :: r) = skip_blanks r.
Proof. reflexivity. Qed.
Lemma skip_blanks_printable a r : forallb printable a = true -> a <> [] -> skip_blanks (a ++ r) = a ++ r.
Proof. destruct a as [|c a]; [congruence|]. cbn [forallb app]. intros H _. apply andb_prop in H as [H _]. apply skip_blanks_id, printable_not_blank, H. Qed.

(* ------------------------------------------------------------------ escape_string = escape every character *)
Lemma esc_char_id q c : needs_escape q c = false -> esc_char q c = [c].
Proof.
  unfold needs_escape, esc_char. intros H. apply orb_false_elim in H as [H H3]. apply orb_false_elim in H as [H1 H2].
  now rewrite H1, H2, H3.
Qed.
Lemma split_first_some p s a b : split_first p s = Some (a, b) -> s = a ++ b /\ forallb (fun c => negb (p c)) a = true.
Proof.
  revert a b. induction s as [|c s IH]; cbn; [discriminate|]. intros a b. destruct (p c) eqn:E.
  - intros [= <- <-]. auto.
  - destruct (split_first p s) as [[a' b']|]; [|discriminate]. intros [= <- <-]. destruct (IH a' b' eq_refl) as [-> H].
    cbn. now rewrite E, H.
Qed.
Lemma split_first_none p s : split_first p s = None -> forallb (fun c => negb (p c)) s = true.
Proof.
  induction s as [|c s IH]; cbn; auto. destruct (p c) eqn:E; [discriminate|].
  destruct (split_first p s) as [[a' b']|]; [discriminate|]. intros _. now rewrite IH.
Qed.
Lemma escape_plain_id q s : forallb (fun c => negb (needs_escape q c)) s = true -> escape_plain q s = s.
Proof.
  induction s as [|c s IH]; cbn; auto. intros H. apply andb_prop in H as [H1 H2]. apply negb_true_iff in H1.
  unfold escape_plain in IH. rewrite (esc_char_id _ _ H1), IH; auto.
Qed.
Theorem escape_string_plain s q : escape_string s q = escape_plain q s.
Proof.
  unfold escape_string. destruct (split_first (needs_escape q) s) as [[a b]|] eqn:E.
  - apply split_first_some in E as [-> H]. unfold escape_plain at 1. rewrite flat_map_app. f_equal.
    symmetry. apply (escape_plain_id q a H).
  - apply split_first_none in E. symmetry. apply escape_plain_id, E.
Qed.

Lemma escape_plain_cons q c s : escape_plain q (c :: s) = esc_char q c ++ escape_plain q s.
Proof. reflexivity. Qed.

(* the three shapes of an escaped character *)
Lemma esc_char_cases q c :
  (c = 92 /\ esc_char q c = [92; 92]) \/ (c = 10 /\ esc_char q c = [92; 110])
  \/ (q = true /\ c = 34 /\ esc_char q c = [92; 34])
  \/ (c <> 92 /\ c <> 10 /\ (q = true -> c <> 34) /\ esc_char q c = [c]).
Proof.
  unfold esc_char. ucon. destruct (N.eqb_spec c 92) as [->|H1]; [auto|]. destruct (N.eqb_spec c 10) as [->|H2]; [auto|].
  destruct q; cbn [andb].
  - destruct (N.eqb_spec c 34) as [->|H3]; [auto 6|]. right; right; right. auto.
  - right; right; right. repeat split; auto. discriminate.
Qed.

(* ------------------------------------------------------------------ the reader inverts the escaping *)
Theorem read_quoted_escape v r : read_quoted (escape_plain true v ++ 34 :: r) = Some (v, r).
Proof.
  induction v as [|c v IH]; [reflexivity|].
  rewrite escape_plain_cons, <- app_assoc.
  destruct (esc_char_cases true c) as [[-> ->]|[[-> ->]|[(_ & -> & ->)|(H1 & H2 & H3 & ->)]]];
    cbn [app read_quoted]; ucon; evN; cbn iota; try (rewrite IH; reflexivity).
  apply N.eqb_neq in H1. specialize (H3 eq_refl). apply N.eqb_neq in H3. rewrite H3, H1, IH. reflexivity.
Qed.

Theorem unescape_help_escape s : unescape_help (escape_plain false s) = s.
Proof.
  induction s as [|c s IH]; [reflexivity|].
  rewrite escape_plain_cons.
  destruct (esc_char_cases false c) as [[-> ->]|[[-> ->]|[(E & _)|(H1 & H2 & H3 & ->)]]]; try discriminate;
    cbn [app unescape_help]; ucon; evN; cbn iota; try (rewrite IH; reflexivity).
  apply N.eqb_neq in H1. rewrite H1, IH. reflexivity.
Qed.

(* ------------------------------------------------------------------ characters of an escaped string *)
Lemma escape_plain_no_lf q s : forallb (fun c => negb (c =? 10)) (escape_plain q s) = true.
Proof.
  induction s as [|c s IH]; [reflexivity|]. rewrite escape_plain_cons, forallb_app, IH, andb_true_r.
  destruct (esc_char_cases q c) as [[-> ->]|[[-> ->]|[(_ & -> & ->)|(H1 & H2 & H3 & ->)]]]; try reflexivity.
  cbn. apply N.eqb_neq in H2. now rewrite H2.
Qed.
Lemma escape_plain_scalar q s : forallb scalarb s = true -> forallb scalarb (escape_plain q s) = true.
Proof.
  induction s as [|c s IH]; [reflexivity|]. cbn [forallb]. intros H. apply andb_prop in H as [Hc Hs].
  rewrite escape_plain_cons, forallb_app, IH, andb_true_r by auto.
  destruct (esc_char_cases q c) as [[-> ->]|[[-> ->]|[(_ & -> & ->)|(H1 & H2 & H3 & ->)]]]; try reflexivity.
  cbn. now rewrite Hc.
Qed.

(* ------------------------------------------------------------------ number tokens *)
Lemma sf_eqb_eq a b : sf_eqb a b = true -> a = b.
Proof.
  destruct a as [s|s| |s m e], b as [s'|s'| |s' m' e']; cbn; try discriminate; auto.
  - intros H. apply Bool.eqb_prop in H. now subst.
  - intros H. apply Bool.eqb_prop in H. now subst.
  - intros H. apply andb_prop in H as [H H3]. apply andb_prop in H as [H1 H2].
    apply Bool.eqb_prop in H1. apply Pos.eqb_eq in H2. apply Z.eqb_eq in H3. now subst.
Qed.
Lemma sf_eqb_refl a : sf_eqb a a = true.
Proof. destruct a as [s|s| |s m e]; cbn; auto using Bool.eqb_reflx. now rewrite Bool.eqb_reflx, Pos.eqb_refl, Z.eqb_refl. Qed.
Lemma f64_same_eq x y : f64_same x y = true -> x = y.
Proof. unfold f64_same. intros H. apply sf_eqb_eq in H. apply Prim2SF_inj, H. Qed.
Lemma f64_same_refl x : f64_same x x = true.
Proof. apply sf_eqb_refl. Qed.

Lemma float_token_parse x s : float_token_ok x s = true -> parse_float s = Some x /\ forallb num_char s = true.
Proof.
  unfold float_token_ok. intros H. apply andb_prop in H as [H1 H2]. split; auto.
  destruct (parse_float s) as [y|]; [|discriminate]. apply f64_same_eq in H1. now subst.
Qed.
Lemma int_token_parse z s : int_token_ok z s = true -> parse_int s = Some z /\ forallb num_char s = true.
Proof.
  unfold int_token_ok. intros H. apply andb_prop in H as [H1 H2]. split; auto.
  destruct (parse_int s) as [y|]; [|discriminate]. apply Z.eqb_eq in H1. now subst.
Qed.
Lemma parse_float_nonempty s x : parse_float s = Some x -> s <> [].
Proof. destruct s; [discriminate|]. discriminate. Qed.
Lemma parse_int_nonempty s x : parse_int s = Some x -> s <> [].
Proof. destruct s; [discriminate|]. discriminate. Qed.
Lemma num_chars_printable s : forallb num_char s = true -> forallb printable s = true.
Proof. apply forallb_impl, num_char_printable. Qed.

Lemma parse_float_pos_inf : parse_float k_pos_inf = Some infinity.
Proof. vm_compute. reflexivity. Qed.
