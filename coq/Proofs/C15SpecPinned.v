(* C15: the uniform theorem, pinned.  Only statements, closed by [exact], pinned by [Check], with
   their assumptions printed (to be re-exported by Props/C15.v).

   spec_c15 (Spec/SpecC15.v) is the executable spec written from the property text and evaluated on
   the IMPLEMENTATION's observations on every run.  c15_spec_model: the world model satisfies it for
   ALL histories over the full operation language; c15_oracle_silent: hence the oracle cannot raise
   an alarm when the implementation's observations agree with the model's.
   dom15 ops (executable): in every Desc::new call of ops the help text and the constant-label
   values are lists of Unicode scalar values (< 0x110000), i.e. Rust Strings.  No hypothesis on hash
   collisions: the spec excuses exactly the genuine FNV-1a collisions on different serialised bytes. *)
Require Import PV.Base.Prelude PV.Model.World PV.Spec.SpecC15 PV.Proofs.OracleFacts PV.Proofs.C15Spec.

Theorem c15_spec_model ops : dom15 ops = true -> spec_c15 ops (run world0 ops) = true.
Proof. exact (spec_c15_model ops). Qed.

Theorem c15_oracle_silent ops impl :
  dom15 ops = true -> first_diff 0 (run world0 ops) impl = None -> spec_c15 ops impl = true.
Proof. exact (spec_c15_oracle_silent ops impl). Qed.

(* non-vacuity: a generated scenario and a hard one (collision pair, boundary shift, non-ASCII, NUL,
   U+10FFFF) lie in the domain, 6 resp. 5 descriptors are accepted, the collision pair has equal ids *)
Example c15_spec_model_nonvacuous :
  dom15 ex15_gen = true /\ accepted (run world0 ex15_gen) = 6%nat /\ spec_c15 ex15_gen (run world0 ex15_gen) = true
  /\ dom15 ex15_hard = true /\ accepted (run world0 ex15_hard) = 5%nat /\ spec_c15 ex15_hard (run world0 ex15_hard) = true
  /\ (match ids_of (run world0 ex15_hard) with a :: b :: _ => N.eqb a b | _ => false end) = true.
Proof. exact spec_c15_model_nonvacuous. Qed.

Check c15_spec_model : forall ops, dom15 ops = true -> spec_c15 ops (run world0 ops) = true.
Check c15_oracle_silent : forall ops impl,
  dom15 ops = true -> first_diff 0 (run world0 ops) impl = None -> spec_c15 ops impl = true.
Print Assumptions c15_spec_model.
Print Assumptions c15_oracle_silent.
Print Assumptions c15_spec_model_nonvacuous.
