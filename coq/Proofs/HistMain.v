(* End-to-end statements about the values a collection hands back to its caller, along any
   validated trace: they are count / sum / cumulative bucket counts of the set S of values of a
   ticket prefix; later snapshots describe extensions; a flushed batch is one ticket. *)
Require Import PV.Base.Prelude PV.Base.F64 PV.Model.Conc PV.Model.HistConc PV.Model.HistExec.
Require Import PV.Proofs.HistConcLemmas PV.Proofs.HistConcInv PV.Proofs.HistConcProof PV.Proofs.HistConcOwn.
Require Import PV.Proofs.HistExecSound PV.Proofs.HistExecInv PV.Proofs.HistConcThms PV.Proofs.HistValues PV.Proofs.HistLog.
From Coq Require Import ZArith Lia Bool Arith.
Open Scope Z_scope.

Definition od_sc : ords := {| pub_release := true; wait_acquire := true |}.
Lemma od_sc_ok : sufficient_orderings od_sc = true. Proof. reflexivity. Qed.

Section M.
Variable bounds : list Z.
Notation B := (length bounds).

Lemma orun_good es o : orun bounds oinit es = Some o -> Good bounds (ox o) /\ OInv bounds o.
Proof.
  intros H. split.
  - apply (run_good bounds od_sc od_sc_ok es). apply (orun_xrun bounds es oinit o H).
  - eapply orun_inv; eauto. apply oinv_init.
Qed.

(* the set of values described by the ticket prefix of length k *)
Definition prefix_values (o : ost) (k : nat) : list Z := concat (firstn k (vlog o)).

Theorem cut_describes_set es o c :
  orun bounds oinit es = Some o -> In c (cuts (ox o)) ->
  let vsS := prefix_values o (cut_k c) in
  (cut_l0 c <= cut_k c)%nat /\ (cut_k c <= cut_l1 c)%nat /\ (cut_l1 c <= length (vlog o))%nat
  /\ cut_res c = (Z.of_nat (length vsS), zsum vsS, map (fun j => zcount (in_bucket bounds j) vsS) (seq 0 B))
  /\ (nondecr bounds -> cumulz 0 (snd (cut_res c)) = map (fun b => zcount (fun v => v <=? b) vsS) bounds).
Proof.
  intros H Hc vsS. destruct (orun_good _ _ H) as [(I & X & _) OI].
  destruct (X_cuts _ X c Hc) as (H1 & H2 & H3 & H4). destruct (I_snaps _ _ I _ _ H4) as [_ Hs].
  rewrite (O_vlen _ _ OI). unfold lenr in H3. repeat split; auto.
  - rewrite Hs. apply (prefix_summary_values bounds o (cut_k c) OI).
  - intros Hn. rewrite Hs, (prefix_summary_values bounds o (cut_k c) OI). cbn [snd]. apply (cumulative_counts bounds _ Hn).
Qed.

(* what the caller of collect receives *)
Theorem returned_snapshot_describes_set es o t cnt sum bks o' :
  orun bounds oinit es = Some o -> ostep bounds o (ERet t (RSnap cnt sum bks)) = Some o' ->
  exists c, cuts (ox o') = c :: cuts (ox o)
    /\ (cut_l0 c <= cut_k c)%nat /\ (cut_k c <= cut_l1 c)%nat /\ cut_l1 c = length (vlog o)
    /\ let vsS := prefix_values o' (cut_k c) in
       Z.of_N cnt = Z.of_nat (length vsS) /\ sum = zbits (zsum vsS)
       /\ (nondecr bounds -> map Z.of_N bks = map (fun b => zcount (fun v => v <=? b) vsS) bounds).
Proof.
  intros H Hs. assert (Hr : orun bounds oinit (es ++ [ERet t (RSnap cnt sum bks)]) = Some o').
  { clear - H Hs. revert H. generalize oinit. induction es as [|e es IH]; intros o0 H; cbn in *.
    - inversion H; subst. rewrite Hs. reflexivity.
    - destruct (ostep bounds o0 e); [auto|discriminate]. }
  destruct (orun_good _ _ H) as [_ OI].
  unfold ostep in Hs. destruct (hexec bounds (ox o) (ERet t (RSnap cnt sum bks))) as [x'|] eqn:E; [|discriminate].
  destruct (returned_snapshot_is_cut bounds _ _ _ _ _ _ E) as (c & Hc & Hl1 & Hcnt & Hsum & Hb).
  assert (Hox : ox o' = x') by (inversion Hs; reflexivity).
  exists c. rewrite Hox. split; auto.
  assert (Hin : In c (cuts (ox o'))) by (rewrite Hox, Hc; left; reflexivity).
  destruct (cut_describes_set _ _ _ Hr Hin) as (A1 & A2 & A3 & A4 & A5).
  split; auto. split; auto. split; [rewrite Hl1; unfold lenr; symmetry; apply (O_vlen _ _ OI)|].
  cbv zeta. rewrite A4 in Hcnt, Hsum. cbn [fst snd] in Hcnt, Hsum. split; auto. split; auto.
  intros Hn. rewrite Hb. apply A5; auto.
Qed.

(* C03: snapshots taken one after another describe growing sets *)
Lemma firstn_prefix {A} (l : list A) k1 k2 : (k1 <= k2)%nat -> exists rest, firstn k2 l = firstn k1 l ++ rest.
Proof.
  revert k1 k2; induction l as [|a l IH]; intros k1 k2 H.
  - exists []. rewrite !firstn_nil. reflexivity.
  - destruct k1 as [|k1]; [eexists; reflexivity|]. destruct k2 as [|k2]; [lia|].
    destruct (IH k1 k2 ltac:(lia)) as [r Hr]. exists r. cbn. rewrite Hr. reflexivity.
Qed.

Theorem snapshots_grow_values es o c1 c2 :
  orun bounds oinit es = Some o -> In c1 (cuts (ox o)) -> In c2 (cuts (ox o)) ->
  (cut_l1 c1 <= cut_l0 c2)%nat ->
  (cut_k c1 <= cut_k c2)%nat /\ exists more, prefix_values o (cut_k c2) = prefix_values o (cut_k c1) ++ more.
Proof.
  intros H H1 H2 Hrt.
  destruct (cut_describes_set _ _ _ H H1) as (_ & A2 & _). destruct (cut_describes_set _ _ _ H H2) as (B1 & _).
  assert (Hk : (cut_k c1 <= cut_k c2)%nat) by lia. split; auto.
  destruct (firstn_prefix (vlog o) _ _ Hk) as [r Hr]. exists (concat r). unfold prefix_values. rewrite Hr, concat_app. reflexivity.
Qed.

(* C03: a flushed batch (any observe / flush call) is ONE ticket: the set described by a prefix holds all its values
   (ticket inside the prefix) or is built without it (ticket outside) *)
Theorem batch_atomic o i vs k :
  OInv bounds o -> nth_error (vlog o) i = Some vs ->
  (exists r, nth_error (recs (base (ox o))) i = Some r /\ r_cnt r = Z.of_nat (length vs) /\ vs <> [])
  /\ ((i < k)%nat -> exists before after, prefix_values o k = before ++ vs ++ after)
  /\ ((k <= i)%nat -> prefix_values o k = concat (firstn k (firstn i (vlog o)))).
Proof.
  intros OI Hv. split; [|split].
  - assert (Hi : (i < length (recs (base (ox o))))%nat) by (rewrite <- (O_vlen _ _ OI); apply nth_error_Some; congruence).
    destruct (nth_error (recs (base (ox o))) i) as [r|] eqn:Er; [|apply nth_error_None in Er; lia].
    exists r. destruct (O_vals _ _ OI _ _ _ Er Hv) as (P1 & P2 & _). auto.
  - intros Hik. unfold prefix_values.
    assert (Hs : exists l1 l2, firstn k (vlog o) = l1 ++ vs :: l2).
    { apply in_split. rewrite <- (nth_error_firstn_lt k i (vlog o) Hik) in Hv. eapply nth_error_In; eauto. }
    destruct Hs as (l1 & l2 & ->). exists (concat l1), (concat l2). rewrite concat_app. reflexivity.
  - intros Hki. unfold prefix_values. rewrite firstn_firstn, Nat.min_l by lia. reflexivity.
Qed.

End M.
