(* The executable specs of C01 / C11 hold on every trace the validator accepts: clause (C), the search for a linearisation.
     search_complete      if a real-time-consistent order of the calls replays to the returned values, lin_search finds one
     sim_step / sim_steps the marker bookkeeping of the spec (calls_of) simulates the model: along every execution there is an
                          order `ord` of the linearised calls that replays on the SPEC's sequential object, respects real time,
                          and contains every returned call
     spec_search_of_validated  trace_ok O es = true -> calls within the object's interface -> the search succeeds. *)
Require Import PV.Base.Prelude PV.Base.F64 PV.Model.Conc PV.Model.AtomicConc PV.Proofs.AtomicConcFacts PV.Spec.SpecC01 PV.Spec.SpecC11.
From Coq Require Import Lia Floats.
Import ListNotations.
Open Scope nat_scope.

Lemma first_true_In {A} (f : A -> bool) l x : In x l -> f x = true -> first_true f l = true.
Proof.
  induction l as [|y l IH]; cbn; intros Hin Hf; [contradiction|].
  destruct (f y) eqn:E; auto. destruct Hin as [->|Hin]; [congruence|auto].
Qed.

Fixpoint RT (ord : list crec) : Prop :=
  match ord with [] => True | b :: l => (forall a, In a l -> returned_before a b = false) /\ RT l end.
Lemma RT_snoc ord x : RT ord -> (forall b, In b ord -> returned_before x b = false) -> RT (ord ++ [x]).
Proof.
  induction ord as [|b l IH]; cbn; intros H Hx; [split; auto; intros a []|].
  destruct H as [H1 H2]. split.
  - intros a Ha. apply in_app_or in Ha. destruct Ha as [Ha|[<-|[]]]; auto.
  - apply IH; auto.
Qed.
Lemma RT_map g ord : RT ord ->
  (forall a b, In a ord -> In b ord -> returned_before a b = false -> returned_before (g a) (g b) = false) -> RT (map g ord).
Proof.
  induction ord as [|b l IH]; cbn; intros H Hg; auto. destruct H as [H1 H2]. split.
  - intros a Ha. apply in_map_iff in Ha. destruct Ha as [a0 [<- Ha0]]. apply Hg; auto.
  - apply IH; auto.
Qed.

Section SearchComplete.
Variable S : Type.
Variable step : S -> call -> option (S * option N).
Variable same : N -> N -> bool.

Fixpoint W (pend : list crec) (s : S) (ord : list crec) : Prop :=
  match ord with
  | [] => pend = []
  | c :: r => In c pend /\ minimal c pend = true /\
              exists s1 o, step s (c_call c) = Some (s1, o) /\ ret_ok same c o = true /\ W (without c pend) s1 r
  end.

Lemma W_search ord : forall pend s fuel, W pend s ord -> length ord < fuel -> lin_search S step same fuel pend s = true.
Proof.
  induction ord as [|c r IH]; intros pend s fuel H Hl; (destruct fuel as [|f]; [lia|]); cbn [lin_search].
  - cbn in H. subst. reflexivity.
  - destruct (forallb _ pend); auto.
    destruct H as [Hin [Hmin [s1 [o [Hs [Hr Hw]]]]]].
    eapply first_true_In; eauto. cbn beta. rewrite Hmin, Hs, Hr. apply IH; auto. cbn in Hl. lia.
Qed.

Fixpoint replay (s : S) (ord : list crec) : option (S * list (option N)) :=
  match ord with
  | [] => Some (s, [])
  | c :: r => match step s (c_call c) with
              | Some (s1, o) => match replay s1 r with Some (s2, os) => Some (s2, o :: os) | None => None end
              | None => None
              end
  end.
Lemma replay_snoc ord : forall s x, replay s (ord ++ [x]) =
  match replay s ord with
  | Some (sf, os) => match step sf (c_call x) with Some (sf', o) => Some (sf', os ++ [o]) | None => None end
  | None => None
  end.
Proof.
  induction ord as [|c r IH]; intros s x; cbn.
  - destruct (step s (c_call x)) as [[s1 o]|]; auto.
  - destruct (step s (c_call c)) as [[s1 o]|]; auto. rewrite IH.
    destruct (replay s1 r) as [[s2 os]|]; auto. destruct (step s2 (c_call x)) as [[s3 o3]|]; auto.
Qed.
Lemma replay_calls ord ord' : map c_call ord = map c_call ord' -> forall s, replay s ord = replay s ord'.
Proof.
  revert ord'. induction ord as [|c r IH]; intros [|c' r'] H s; cbn in *; try discriminate; auto.
  inversion H. rewrite H1. destruct (step s (c_call c')) as [[s1 o]|]; auto. now rewrite (IH r' H2 s1).
Qed.

Lemma V_W ord : forall pend s sf os,
  (forall x, In x pend <-> In x ord) -> NoDup (map c_inv ord) -> RT ord ->
  (forall c, In c ord -> returned_before c c = false) ->
  replay s ord = Some (sf, os) -> Forall2 (fun c o => ret_ok same c o = true) ord os -> W pend s ord.
Proof.
  induction ord as [|c r IH]; intros pend s sf os Hm Hn Hrt Hself Hrep Hf; cbn.
  - destruct pend as [|x p]; auto. exfalso. apply (Hm x). now left.
  - cbn in Hrep. destruct (step s (c_call c)) as [[s1 o]|] eqn:Es; try discriminate.
    destruct (replay s1 r) as [[s2 os2]|] eqn:Er; try discriminate. inversion Hrep; subst. inversion Hf; subst.
    cbn in Hrt. destruct Hrt as [Hrt1 Hrt2]. cbn [map] in Hn. apply NoDup_cons_iff in Hn. destruct Hn as [Hn1 Hn2].
    split; [apply Hm; now left|]. split.
    + unfold minimal. apply forallb_forall. intros d Hd. apply Hm in Hd. destruct Hd as [<-|Hd].
      * rewrite Hself; auto. now left.
      * rewrite Hrt1; auto.
    + exists s1, o. repeat split; auto. eapply IH; eauto.
      * intros x. unfold without. rewrite filter_In. split.
        -- intros [Hx Hne]. apply Hm in Hx. destruct Hx as [<-|Hx]; auto. rewrite Nat.eqb_refl in Hne. discriminate.
        -- intros Hx. split; [apply Hm; now right|].
           destruct (Nat.eqb (c_inv x) (c_inv c)) eqn:E; auto. apply Nat.eqb_eq in E. exfalso. apply Hn1. rewrite <- E. now apply in_map.
      * intros c0 Hc0. apply Hself. now right.
Qed.
End SearchComplete.

(* ================================================================== simulation *)
Lemma NoDup_map_inj_in {A B} (f : A -> B) l : NoDup (map f l) -> forall a b, In a l -> In b l -> f a = f b -> a = b.
Proof.
  induction l as [|x l IH]; cbn; intros H a b Ha Hb E; [contradiction|]. inversion H; subst.
  destruct Ha as [<-|Ha], Hb as [<-|Hb]; auto.
  - exfalso. apply H2. rewrite E. now apply in_map.
  - exfalso. apply H2. rewrite <- E. now apply in_map.
Qed.
Lemma Forall2_impl_in {A B} (P Q : A -> B -> Prop) l os :
  Forall2 P l os -> (forall c o, In c l -> P c o -> Q c o) -> Forall2 Q l os.
Proof. induction 1; intros H1; constructor; [apply H1; auto; now left|apply IHForall2; intros; apply H1; auto; now right]. Qed.
Lemma Forall2_map_in {A B} (g : A -> A) (P Q : A -> B -> Prop) l os :
  Forall2 P l os -> (forall c o, In c l -> P c o -> Q (g c) o) -> Forall2 Q (map g l) os.
Proof. induction 1; intros H1; cbn; constructor; [apply H1; auto; now left|apply IHForall2; intros; apply H1; auto; now right]. Qed.
Lemma Forall2_snoc {A B} (P : A -> B -> Prop) l os x o : Forall2 P l os -> P x o -> Forall2 P (l ++ [x]) (os ++ [o]).
Proof. induction 1; cbn; intros; constructor; auto. Qed.

Lemma NoDup_snoc {A} (l : list A) x : NoDup l -> ~ In x l -> NoDup (l ++ [x]).
Proof.
  induction l as [|y l IH]; cbn; intros H Hn; [constructor; auto; constructor|]. inversion H; subst.
  constructor; [|apply IH; auto]. intros Hin. apply in_app_or in Hin. destruct Hin as [Hin|[<-|[]]]; auto.
Qed.

Definition expected (o : option N) : retv := match o with None => RUnit | Some w => RVal w end.
Definition closer (t i : nat) (r : retv) (c : crec) : crec :=
  if Nat.eqb (c_t c) t && match c_res c with None => true | Some _ => false end
  then {| c_t := c_t c; c_call := c_call c; c_inv := c_inv c; c_res := Some i; c_ret := r |} else c.
Lemma close_call_map t i r l : close_call t i r l = map (closer t i r) l.
Proof. reflexivity. Qed.
Lemma closer_inv t i r c : c_inv (closer t i r c) = c_inv c. Proof. unfold closer. now destruct (_ && _). Qed.
Lemma closer_t t i r c : c_t (closer t i r c) = c_t c. Proof. unfold closer. now destruct (_ && _). Qed.
Lemma closer_call t i r c : c_call (closer t i r c) = c_call c. Proof. unfold closer. now destruct (_ && _). Qed.
Lemma closer_other t i r c : (c_t c <> t \/ c_res c <> None) -> closer t i r c = c.
Proof.
  unfold closer. intros [H|H].
  - apply Nat.eqb_neq in H. now rewrite H.
  - destruct (c_res c); [now rewrite andb_false_r|congruence].
Qed.
Lemma closer_hit t i r c : c_t c = t -> c_res c = None -> c_res (closer t i r c) = Some i /\ c_ret (closer t i r c) = r.
Proof. unfold closer. intros -> ->. rewrite Nat.eqb_refl. cbn. auto. Qed.
Lemma closer_res t i r c : c_res (closer t i r c) = c_res c \/ (c_t c = t /\ c_res c = None /\ c_res (closer t i r c) = Some i).
Proof.
  unfold closer. destruct (Nat.eqb (c_t c) t) eqn:E; cbn; auto. destruct (c_res c) eqn:E2; cbn; auto.
  right. apply Nat.eqb_eq in E. auto.
Qed.

Definition calls_step (e : event) (i : nat) (acc : list crec) : list crec :=
  match e with
  | ECall t c => acc ++ [{| c_t := t; c_call := c; c_inv := i; c_res := None; c_ret := RUnit |}]
  | ERet t x => close_call t i x acc
  | _ => acc
  end.
Lemma calls_of_step e es i acc : bad_event e = false -> calls_of (e :: es) i acc = calls_of es (S i) (calls_step e i acc).
Proof. destruct e; cbn; intros H; try discriminate; reflexivity. Qed.

Section Sim.
Variable O : vops.
Hypothesis L : vlaws O.
Variable S : Type.
Variable step : S -> call -> option (S * option N).
Variable same : N -> N -> bool.
Variable R : S -> V O -> Prop.
Variable dom : call -> bool.
Variable s0 : S.
Hypothesis Hstep : forall sf a c a' r, R sf a -> dom c = true -> spec_step O a c = Some (a', r) ->
  exists sf' o, step sf c = Some (sf', o) /\ R sf' a' /\ expected o = r.
Hypothesis Hsame : forall v w, retv_matches O (RVal v) (RVal w) = true -> same v w = true.

Definition P (s : astate O) (c : crec) (o : option N) : Prop :=
  match c_res c with
  | Some _ => ret_ok same c o = true
  | None => exists c0, thr s (c_t c) = TDone c0 (expected o)
  end.

Record Struct (acc : list crec) (i : nat) (ord : list crec) : Prop := {
  st1 : forall c, In c acc -> c_inv c < i /\ (forall r, c_res c = Some r -> c_inv c < r /\ r < i);
  st2 : NoDup (map c_inv acc);
  st3 : forall c, In c ord -> In c acc;
  st3b : NoDup (map c_inv ord);
  st4 : forall c, In c acc -> c_res c <> None -> In c ord;
  st5u : forall x y, In x acc -> In y acc -> c_t x = c_t y -> c_res x = None -> c_res y = None -> x = y;
  st7 : RT ord;
  st8 : forall c, In c acc -> dom (c_call c) = true
}.
Definition ThrOK (acc : list crec) (s : astate O) (ord : list crec) : Prop := forall t,
  match thr s t with
  | TIdle => forall c, In c acc -> c_t c = t -> c_res c <> None
  | TCalled c0 | TCas c0 _ _ => exists x, In x acc /\ c_t x = t /\ c_res x = None /\ c_call x = c0 /\ ~ In x ord
  | TDone c0 mr => exists x, In x acc /\ c_t x = t /\ c_res x = None /\ c_call x = c0 /\ In x ord
  end.
Definition RepOK (s : astate O) (ord : list crec) : Prop :=
  exists sf os, replay S step s0 ord = Some (sf, os) /\ R sf (g_abs s) /\ Forall2 (P s) ord os.

Lemma struct_bump acc i ord : Struct acc i ord -> Struct acc (Datatypes.S i) ord.
Proof.
  intros [A B C D E F G H]. split; auto. intros c Hc. destruct (A c Hc) as [A1 A2]. split; [lia|].
  intros r Hr. destruct (A2 r Hr). lia.
Qed.

Lemma P_frame s s' t ord os : (forall u, u <> t -> thr s' u = thr s u) ->
  (forall c, In c ord -> c_res c = None -> c_t c <> t) -> Forall2 (P s) ord os -> Forall2 (P s') ord os.
Proof.
  intros Hu Ht H. eapply Forall2_impl_in; eauto. intros c o Hc. unfold P. destruct (c_res c) eqn:E; auto.
  rewrite Hu; auto.
Qed.

(* the open record of a thread, if any, is unique *)
Lemma open_unique acc i ord x y : Struct acc i ord -> In x acc -> In y acc -> c_t x = c_t y -> c_res x = None -> c_res y = None -> x = y.
Proof. intros St. apply (st5u _ _ _ St). Qed.

(* ---- a pending call of thread t linearises *)
Lemma sim_lin acc i ord s s' t c mr a r :
  Struct acc i ord -> ThrOK acc s ord -> RepOK s ord ->
  (match thr s t with TCalled c' => c' = c | TCas c' _ _ => c' = c | _ => False end) ->
  spec_step O (g_abs s) c = Some (a, r) -> mr = r ->
  (forall u, thr s' u = upd (thr s) t (TDone c mr) u) -> g_abs s' = a ->
  exists ord', Struct acc i ord' /\ ThrOK acc s' ord' /\ RepOK s' ord'.
Proof.
  intros St Th [sf [os [Rp [Rr Fp]]]] Ht Hs -> Hthr Habs.
  assert (Hx : exists x, In x acc /\ c_t x = t /\ c_res x = None /\ c_call x = c /\ ~ In x ord).
  { specialize (Th t). destruct (thr s t); try contradiction; subst; exact Th. }
  destruct Hx as [x [X1 [X2 [X3 [X4 X5]]]]].
  exists (ord ++ [x]).
  assert (Hno : forall c1, In c1 ord -> c_res c1 = None -> c_t c1 <> t).
  { intros c1 Hc1 Ho Ht1. apply X5. rewrite (open_unique _ _ _ x c1 St X1 (st3 _ _ _ St _ Hc1)); auto. congruence. }
  split; [|split].
  - destruct St as [A B C D E F G H]. split; auto.
    + intros c1 Hc1. apply in_app_or in Hc1. destruct Hc1 as [Hc1|[<-|[]]]; auto.
    + rewrite map_app. cbn. apply NoDup_snoc; auto.
      intros Hin. apply in_map_iff in Hin. destruct Hin as [c1 [E1 Hc1]].
      apply X5. rewrite <- (NoDup_map_inj_in c_inv acc B c1 x); auto.
    + intros c1 Hc1 Hr. apply in_or_app. left. auto.
    + apply RT_snoc; auto. intros b _. unfold returned_before. now rewrite X3.
  - intros u. rewrite Hthr. destruct (Nat.eq_dec u t) as [->|Hu].
    + rewrite upd_same. exists x. repeat split; auto. apply in_or_app. right. now left.
    + rewrite upd_other by auto. specialize (Th u). destruct (thr s u); auto.
      * destruct Th as [y [Y1 [Y2 [Y3 [Y4 Y5]]]]]. exists y. repeat split; auto.
        intros Hin. apply in_app_or in Hin. destruct Hin as [Hin|[<-|[]]]; auto. congruence.
      * destruct Th as [y [Y1 [Y2 [Y3 [Y4 Y5]]]]]. exists y. repeat split; auto.
        intros Hin. apply in_app_or in Hin. destruct Hin as [Hin|[<-|[]]]; auto. congruence.
      * destruct Th as [y [Y1 [Y2 [Y3 [Y4 Y5]]]]]. exists y. repeat split; auto. apply in_or_app. now left.
  - assert (Hd : dom c = true) by (rewrite <- X4; apply (st8 _ _ _ St x X1)).
    destruct (Hstep sf (g_abs s) c a r Rr Hd Hs) as [sf' [o [S1 [S2 S3]]]].
    exists sf', (os ++ [o]). split; [|split].
    + rewrite replay_snoc, Rp, X4, S1. reflexivity.
    + now rewrite Habs.
    + apply Forall2_snoc.
      * apply (P_frame s _ t); [intros u Hu; rewrite Hthr; now rewrite upd_other | exact Hno | exact Fp].
      * unfold P. rewrite X3. exists c. rewrite Hthr, X2, upd_same. now rewrite S3.
Qed.

(* ---- invocation *)
Lemma sim_call acc i ord s s' t c :
  Struct acc i ord -> ThrOK acc s ord -> RepOK s ord -> thr s t = TIdle -> dom c = true ->
  (forall u, thr s' u = upd (thr s) t (TCalled c) u) -> g_abs s' = g_abs s ->
  let n := {| c_t := t; c_call := c; c_inv := i; c_res := None; c_ret := RUnit |} in
  Struct (acc ++ [n]) (Datatypes.S i) ord /\ ThrOK (acc ++ [n]) s' ord /\ RepOK s' ord.
Proof.
  intros St Th [sf [os [Rp [Rr Fp]]]] Ht Hd Hthr Habs n.
  assert (Hidle : forall c1, In c1 acc -> c_t c1 = t -> c_res c1 <> None).
  { specialize (Th t). now rewrite Ht in Th. }
  assert (Hn : ~ In n acc). { intros Hin. destruct (st1 _ _ _ St n Hin) as [H _]. cbn in H. lia. }
  split; [|split].
  - destruct St as [A B C D E F G H]. split; auto.
    + intros c1 Hc1. apply in_app_or in Hc1. destruct Hc1 as [Hc1|[<-|[]]].
      * destruct (A c1 Hc1) as [A1 A2]. split; [lia|]. intros r0 Hr. destruct (A2 r0 Hr). lia.
      * cbn. split; [lia|discriminate].
    + rewrite map_app. cbn. apply NoDup_snoc; auto. intros Hin. apply in_map_iff in Hin. destruct Hin as [c1 [E1 Hc1]].
      destruct (A c1 Hc1) as [A1 _]. lia.
    + intros c1 Hc1. apply in_or_app. left. auto.
    + intros c1 Hc1 Hr. apply in_app_or in Hc1. destruct Hc1 as [Hc1|[<-|[]]]; auto. cbn in Hr. congruence.
    + intros x y Hx Hy Et Hx0 Hy0. apply in_app_or in Hx. apply in_app_or in Hy.
      destruct Hx as [Hx|[<-|[]]], Hy as [Hy|[<-|[]]]; auto.
      * exfalso. apply (Hidle x Hx); auto.
      * exfalso. apply (Hidle y Hy); auto.
    + intros c1 Hc1. apply in_app_or in Hc1. destruct Hc1 as [Hc1|[<-|[]]]; auto.
  - intros u. rewrite Hthr. destruct (Nat.eq_dec u t) as [->|Hu].
    + rewrite upd_same. exists n. repeat split; auto. apply in_or_app. right. now left.
      intros Hin. apply Hn. apply (st3 _ _ _ St). exact Hin.
    + rewrite upd_other by auto. specialize (Th u). destruct (thr s u).
      * intros c1 Hc1 Hct. apply in_app_or in Hc1. destruct Hc1 as [Hc1|[<-|[]]]; auto; try (cbn in Hct; congruence).
      * destruct Th as [y [Y1 Y2]]. exists y. split; auto. apply in_or_app. now left.
      * destruct Th as [y [Y1 Y2]]. exists y. split; auto. apply in_or_app. now left.
      * destruct Th as [y [Y1 Y2]]. exists y. split; auto. apply in_or_app. now left.
  - exists sf, os. split; auto. split; [now rewrite Habs|].
    apply (P_frame s _ t); auto.
    + intros u Hu. rewrite Hthr. now rewrite upd_other.
    + intros c1 Hc1 Ho Hct. apply (Hidle c1); auto. apply (st3 _ _ _ St). exact Hc1.
Qed.

(* ---- a step that only moves thread t between "called" states *)
Lemma sim_stutter acc i ord s s' t c X :
  Struct acc i ord -> ThrOK acc s ord -> RepOK s ord ->
  (match thr s t with TCalled c' => c' = c | TCas c' _ _ => c' = c | _ => False end) ->
  (match X with TCalled c' => c' = c | TCas c' _ _ => c' = c | _ => False end) ->
  (forall u, thr s' u = upd (thr s) t X u) -> g_abs s' = g_abs s ->
  Struct acc (Datatypes.S i) ord /\ ThrOK acc s' ord /\ RepOK s' ord.
Proof.
  intros St Th [sf [os [Rp [Rr Fp]]]] Ht HX Hthr Habs.
  assert (Hx : exists x, In x acc /\ c_t x = t /\ c_res x = None /\ c_call x = c /\ ~ In x ord).
  { specialize (Th t). destruct (thr s t); try contradiction; subst; exact Th. }
  destruct Hx as [x [X1 [X2 [X3 [X4 X5]]]]].
  split; [now apply struct_bump|]. split.
  - intros u. rewrite Hthr. destruct (Nat.eq_dec u t) as [->|Hu].
    + rewrite upd_same. destruct X; try contradiction; subst; exists x; repeat split; auto.
    + rewrite upd_other by auto. apply Th.
  - exists sf, os. split; auto. split; [now rewrite Habs|].
    apply (P_frame s _ t); auto.
    + intros u Hu. rewrite Hthr. now rewrite upd_other.
    + intros c1 Hc1 Ho Hct. apply X5. rewrite (open_unique _ _ _ x c1 St X1 (st3 _ _ _ St _ Hc1)); auto. congruence.
Qed.

(* ---- return *)
Lemma sim_ret acc i ord s s' t c mr r :
  Struct acc i ord -> ThrOK acc s ord -> RepOK s ord -> thr s t = TDone c mr -> retv_matches O r mr = true ->
  (forall u, thr s' u = upd (thr s) t TIdle u) -> g_abs s' = g_abs s ->
  Struct (close_call t i r acc) (Datatypes.S i) (close_call t i r ord) /\
  ThrOK (close_call t i r acc) s' (close_call t i r ord) /\ RepOK s' (close_call t i r ord).
Proof.
  intros St Th [sf [os [Rp [Rr Fp]]]] Ht Hm Hthr Habs. rewrite !close_call_map. set (g := closer t i r).
  assert (Hx : exists x, In x acc /\ c_t x = t /\ c_res x = None /\ c_call x = c /\ In x ord).
  { specialize (Th t). now rewrite Ht in Th. }
  destruct Hx as [x [X1 [X2 [X3 [X4 X5]]]]].
  assert (Hhit : forall c1, In c1 acc -> c_t c1 = t -> c_res c1 = None -> c1 = x).
  { intros c1 H1 H2 H3. apply (open_unique _ _ _ c1 x St); auto. congruence. }
  assert (Ginj : forall a b, In a acc -> In b acc -> c_inv (g a) = c_inv (g b) -> a = b).
  { intros a b Ha Hb E. unfold g in E. rewrite !closer_inv in E. eapply NoDup_map_inj_in; eauto. apply (st2 _ _ _ St). }
  split; [|split].
  - split.
    + intros y Hy. apply in_map_iff in Hy. destruct Hy as [c1 [<- Hc1]]. unfold g. rewrite closer_inv.
      destruct (st1 _ _ _ St c1 Hc1) as [A1 A2]. split; [lia|]. intros r0 Hr.
      destruct (closer_res t i r c1) as [E|[_ [_ E]]]; rewrite E in Hr.
      * destruct (A2 r0 Hr). lia.
      * inversion Hr; subst. lia.
    + rewrite map_map. erewrite map_ext; [apply (st2 _ _ _ St)|]. intros a. apply closer_inv.
    + intros y Hy. apply in_map_iff in Hy. destruct Hy as [c1 [<- Hc1]]. apply in_map. apply (st3 _ _ _ St). exact Hc1.
    + rewrite map_map. erewrite map_ext; [apply (st3b _ _ _ St)|]. intros a. apply closer_inv.
    + intros y Hy Hr. apply in_map_iff in Hy. destruct Hy as [c1 [<- Hc1]]. apply in_map.
      destruct (closer_res t i r c1) as [E|[E1 [E2 _]]].
      * apply (st4 _ _ _ St); auto. unfold g in Hr. now rewrite E in Hr.
      * rewrite (Hhit c1); auto.
    + intros y z Hy Hz Et Hy0 Hz0. apply in_map_iff in Hy. apply in_map_iff in Hz.
      destruct Hy as [a [<- Ha]], Hz as [b [<- Hb]]. unfold g in *. rewrite !closer_t in Et.
      destruct (closer_res t i r a) as [Ea|[_ [_ Ea]]]; rewrite Ea in Hy0; try discriminate.
      destruct (closer_res t i r b) as [Eb|[_ [_ Eb]]]; rewrite Eb in Hz0; try discriminate.
      f_equal. apply (st5u _ _ _ St); auto.
    + apply RT_map; [apply (st7 _ _ _ St)|]. intros a b Ha Hb Hrb. unfold returned_before in *. unfold g. rewrite closer_inv.
      destruct (closer_res t i r a) as [E|[_ [_ E]]]; rewrite E; auto.
      destruct (st1 _ _ _ St b (st3 _ _ _ St b Hb)) as [A1 _]. apply Nat.ltb_ge. lia.
    + intros y Hy. apply in_map_iff in Hy. destruct Hy as [c1 [<- Hc1]]. unfold g. rewrite closer_call. apply (st8 _ _ _ St). exact Hc1.
  - intros u. rewrite Hthr. destruct (Nat.eq_dec u t) as [->|Hu].
    + rewrite upd_same. intros y Hy Hct. apply in_map_iff in Hy. destruct Hy as [c1 [<- Hc1]]. unfold g in *. rewrite closer_t in Hct.
      destruct (c_res c1) eqn:E.
      * rewrite closer_other; [congruence|right; congruence].
      * destruct (closer_hit t i r c1 Hct E) as [-> _]. discriminate.
    + rewrite upd_other by auto. specialize (Th u).
      assert (Hsame_rec : forall y, In y acc -> c_t y = u -> g y = y).
      { intros y _ Hy. apply closer_other. left. congruence. }
      destruct (thr s u).
      * intros y Hy Hct. apply in_map_iff in Hy. destruct Hy as [c1 [<- Hc1]]. unfold g in *. rewrite closer_t in Hct.
        rewrite closer_other; [auto|left; congruence].
      * destruct Th as [y [Y1 [Y2 [Y3 [Y4 Y5]]]]]. exists y. rewrite <- (Hsame_rec y Y1 Y2) at 1. repeat split; auto; [now apply in_map|].
        intros Hin. apply in_map_iff in Hin. destruct Hin as [c1 [E1 Hc1]]. apply Y5.
        rewrite <- (Hsame_rec y Y1 Y2) in E1. rewrite <- (Ginj c1 y); auto. apply (st3 _ _ _ St). exact Hc1. now rewrite E1.
      * destruct Th as [y [Y1 [Y2 [Y3 [Y4 Y5]]]]]. exists y. rewrite <- (Hsame_rec y Y1 Y2) at 1. repeat split; auto; [now apply in_map|].
        intros Hin. apply in_map_iff in Hin. destruct Hin as [c1 [E1 Hc1]]. apply Y5.
        rewrite <- (Hsame_rec y Y1 Y2) in E1. rewrite <- (Ginj c1 y); auto. apply (st3 _ _ _ St). exact Hc1. now rewrite E1.
      * destruct Th as [y [Y1 [Y2 [Y3 [Y4 Y5]]]]]. exists y. repeat split; auto; rewrite <- (Hsame_rec y Y1 Y2); now apply in_map.
  - exists sf, os. split; [|split].
    + rewrite <- Rp. apply replay_calls. rewrite map_map. apply map_ext. intros a. apply closer_call.
    + now rewrite Habs.
    + eapply Forall2_map_in; [exact Fp|]. intros c1 o Hc1 Hp. unfold P in *.
      destruct (c_res c1) eqn:E.
      * unfold g. rewrite closer_other; [|right; congruence]. now rewrite E.
      * destruct (Nat.eq_dec (c_t c1) t) as [Et|Net].
        -- destruct (closer_hit t i r c1 Et E) as [G1 G2]. fold g in G1, G2. rewrite G1.
           destruct Hp as [c0 Hp]. rewrite Et, Ht in Hp. inversion Hp; subst mr.
           unfold ret_ok. rewrite G1, G2. destruct o as [w|]; cbn [expected] in Hm.
           ++ destruct r; cbn in Hm; try discriminate. apply Hsame. exact Hm.
           ++ destruct r; cbn in Hm; try discriminate. reflexivity.
        -- unfold g. rewrite closer_other; [|left; auto]. rewrite E. destruct Hp as [c0 Hp]. exists c0.
           rewrite Hthr, upd_other; auto.
Qed.

Hypothesis Hinit : R s0 (vzero O).

Lemma sim_step acc i ord s e s' :
  astep O s e s' -> Inv1 O s -> Struct acc i ord -> ThrOK acc s ord -> RepOK s ord ->
  (match e with ECall _ c => dom c = true | _ => True end) ->
  bad_event e = false /\
  exists ord', Struct (calls_step e i acc) (Datatypes.S i) ord' /\ ThrOK (calls_step e i acc) s' ord' /\ RepOK s' ord'.
Proof.
  intros H I1 St Th Rp Hd. destruct H; (split; [reflexivity|]); cbn [calls_step].
  - exists ord. eapply sim_call; eauto; reflexivity.
  - set (s1 := {| cell := cell s; thr := upd (thr s) t (TCalled c); g_abs := g_abs s; g_hist := g_hist s; g_pend := g_pend s |}).
    destruct (sim_call acc i ord s s1 t c St Th Rp H Hd (fun u => eq_refl) eq_refl) as [St1 [Th1 Rp1]].
    pose proof (plan_noop_spec O c (g_abs s) H0) as Hn. rewrite Hn in H1. inversion H1; subst a r.
    eapply (sim_lin _ _ _ s1 _ t c RUnit (g_abs s) RUnit); eauto.
    + cbn. now rewrite upd_same.
    + intros u. cbn. unfold upd. now destruct (Nat.eqb u t).
  - destruct (sim_lin acc i ord s (lin_state O s t c v mr [] a r) t c mr a r St Th Rp) as [ord' [A [B C]]]; auto.
    + now rewrite H.
    + pose proof (one_step_spec O _ _ _ _ _ _ H0 H1) as Hs. rewrite (i1_cell _ _ I1) in Hs. rewrite Hs in H4. now inversion H4.
    + exists ord'. split; auto. now apply struct_bump.
  - exists ord. eapply (sim_stutter acc i ord s _ t c (TCas c d (cell s))); eauto; try reflexivity. now rewrite H.
  - assert (Hr : r = RUnit).
    { destruct I1 as [_ [ph [_ I3]] _]. specialize (I3 t). rewrite H in I3. destruct (ph t); cbn in I3; try contradiction.
      destruct I3 as [_ I3]. rewrite (I3 (g_abs s)) in H3. now inversion H3. }
    destruct (sim_lin acc i ord s (lin_state O s t c (vadd O cur d) RUnit [] a r) t c RUnit a r St Th Rp) as [ord' [A [B C]]]; auto.
    + now rewrite H.
    + exists ord'. split; auto. now apply struct_bump.
  - exists ord. eapply (sim_stutter acc i ord s _ t c (TCalled c)); eauto; try reflexivity. now rewrite H.
  - exists (close_call t i r ord). eapply sim_ret; eauto; reflexivity.
Qed.

Lemma sim_steps s es s' : asteps O s es s' -> forall acc i ord,
  Inv1 O s -> Struct acc i ord -> ThrOK acc s ord -> RepOK s ord ->
  (forall t c, In (ECall t c) es -> dom c = true) ->
  exists acc' ord', calls_of es i acc = (acc', true) /\ Struct acc' (i + length es) ord' /\ ThrOK acc' s' ord' /\ RepOK s' ord'.
Proof.
  induction 1; intros acc i ord I1 St Th Rp Hd.
  - exists acc, ord. cbn. rewrite Nat.add_0_r. auto.
  - destruct (sim_step acc i ord s e s1 H I1 St Th Rp) as [Hb [ord1 [St1 [Th1 Rp1]]]].
    { destruct e; auto. apply (Hd t c). now left. }
    destruct (IHasteps (calls_step e i acc) (Datatypes.S i) ord1) as [acc' [ord' [E [A [B C]]]]]; auto.
    + eapply inv1_step; eauto.
    + intros t c Hin. apply (Hd t c). now right.
    + exists acc', ord'. rewrite calls_of_step by auto. cbn [length]. rewrite Nat.add_succ_r. auto.
Qed.

Theorem spec_search_of_validated es :
  trace_ok O es = true -> (forall t c, In (ECall t c) es -> dom c = true) ->
  exists cs, calls_of es 0 [] = (cs, true) /\ forallb (fun c => dom (c_call c)) cs = true /\
             lin_search S step same (Datatypes.S (length cs)) cs s0 = true.
Proof.
  intros Hok Hd. destruct (trace_ok_reachable O es Hok) as [s [Hr Hq]].
  destruct (sim_steps _ _ _ Hr [] 0 []) as [cs [ord [E [St [Th [sf [os [Rp [Rr Fp]]]]]]]]]; auto.
  - apply inv1_init.
  - split; cbn; auto; try contradiction; constructor.
  - intros t. cbn. intros c [].
  - exists s0, []. cbn. repeat split; auto; try constructor.
  - exists cs. split; auto. split; [apply forallb_forall; intros c Hc; apply (st8 _ _ _ St c Hc)|].
    assert (Hret : forall c, In c cs -> c_res c <> None).
    { intros c Hc. specialize (Th (c_t c)). rewrite (Hq (c_t c)) in Th. apply Th; auto. }
    apply (W_search S step same ord).
    + apply (V_W S step same ord cs s0 sf os).
      * intros x. split; [intros Hx; apply (st4 _ _ _ St); auto|apply (st3 _ _ _ St)].
      * apply (st3b _ _ _ St).
      * apply (st7 _ _ _ St).
      * intros c Hc. pose proof (st3 _ _ _ St c Hc) as Hc'. unfold returned_before.
        destruct (c_res c) as [r|] eqn:Er; auto. destruct (st1 _ _ _ St c Hc') as [_ A2]. destruct (A2 r Er). apply Nat.ltb_ge. lia.
      * exact Rp.
      * eapply Forall2_impl_in; [exact Fp|]. intros c o Hc Hp. unfold P in Hp.
        destruct (c_res c) eqn:Er; auto. exfalso. apply (Hret c); auto. apply (st3 _ _ _ St). exact Hc.
    + apply Nat.lt_succ_r. apply NoDup_incl_length.
      * eapply NoDup_map_inv. apply (st3b _ _ _ St).
      * intros c Hc. apply (st3 _ _ _ St). exact Hc.
Qed.

(* the linearisation itself: an order of ALL calls of the trace (each returned) that replays on the spec's sequential object to
   the returned values and respects real time *)
Theorem lin_of_validated es :
  trace_ok O es = true -> (forall t c, In (ECall t c) es -> dom c = true) ->
  exists cs ord sf os, calls_of es 0 [] = (cs, true) /\ forallb (fun c => dom (c_call c)) cs = true /\
    (forall x, In x cs <-> In x ord) /\ NoDup (map c_inv ord) /\ NoDup (map c_inv cs) /\ RT ord /\
    (forall c, In c cs -> exists r, c_res c = Some r /\ c_inv c < r) /\
    replay S step s0 ord = Some (sf, os) /\ Forall2 (fun c o => ret_ok same c o = true) ord os.
Proof.
  intros Hok Hd. destruct (trace_ok_reachable O es Hok) as [s [Hr Hq]].
  destruct (sim_steps _ _ _ Hr [] 0 []) as [cs [ord [E [St [Th [sf [os [Rp [Rr Fp]]]]]]]]]; auto.
  - apply inv1_init.
  - split; cbn; auto; try contradiction; constructor.
  - intros t. cbn. intros c [].
  - exists s0, []. cbn. repeat split; auto; try constructor.
  - assert (Hret : forall c, In c cs -> c_res c <> None).
    { intros c Hc. specialize (Th (c_t c)). rewrite (Hq (c_t c)) in Th. apply Th; auto. }
    exists cs, ord, sf, os. split; auto. split; [apply forallb_forall; intros c Hc; apply (st8 _ _ _ St c Hc)|].
    split; [intros x; split; [intros Hx; apply (st4 _ _ _ St); auto|apply (st3 _ _ _ St)]|].
    split; [apply (st3b _ _ _ St)|]. split; [apply (st2 _ _ _ St)|]. split; [apply (st7 _ _ _ St)|].
    split.
    + intros c Hc. destruct (c_res c) as [r|] eqn:Er; [|exfalso; now apply (Hret c)].
      exists r. split; auto. destruct (st1 _ _ _ St c Hc) as [_ A2]. now destruct (A2 r Er).
    + split; auto. eapply Forall2_impl_in; [exact Fp|]. intros c o Hc Hp. unfold P in Hp.
      destruct (c_res c) eqn:Er; auto. exfalso. apply (Hret c); auto. apply (st3 _ _ _ St). exact Hc.
Qed.
End Sim.

(* ================================================================== the four sequential objects of the specs *)
Open Scope N_scope.
Lemma i64_add s d : i64_of_Z (i64_to_Z s + i64_to_Z d) = wrap64 (s + d).
Proof.
  unfold i64_of_Z, i64_to_Z, wrap64.
  assert (H : forall z k, Z.to_N ((z + k * 0x10000000000000000) mod 0x10000000000000000) = Z.to_N (z mod 0x10000000000000000))
    by (intros; now rewrite Z_mod_plus_full).
  assert (G : Z.to_N (Z.of_N (s + d) mod 0x10000000000000000) = (s + d) mod two64).
  { change 0x10000000000000000%Z with (Z.of_N two64). rewrite <- N2Z.inj_mod. apply N2Z.id. }
  rewrite <- G.
  destruct (s <? 9223372036854775808), (d <? 9223372036854775808).
  - f_equal. f_equal. lia.
  - replace (Z.of_N s + (Z.of_N d - 18446744073709551616))%Z with (Z.of_N (s + d) + (-1) * 18446744073709551616)%Z by lia. apply H.
  - replace (Z.of_N s - 18446744073709551616 + Z.of_N d)%Z with (Z.of_N (s + d) + (-1) * 18446744073709551616)%Z by lia. apply H.
  - replace (Z.of_N s - 18446744073709551616 + (Z.of_N d - 18446744073709551616))%Z with (Z.of_N (s + d) + (-2) * 18446744073709551616)%Z by lia. apply H.
Qed.
Lemma i64_sub s d : d < two64 -> i64_of_Z (i64_to_Z s - i64_to_Z d) = wrap64 (s + (two64 - d)).
Proof.
  intros Hd. unfold i64_of_Z, i64_to_Z, wrap64.
  assert (H : forall z k, Z.to_N ((z + k * 0x10000000000000000) mod 0x10000000000000000) = Z.to_N (z mod 0x10000000000000000))
    by (intros; now rewrite Z_mod_plus_full).
  assert (G : Z.to_N (Z.of_N (s + (two64 - d)) mod 0x10000000000000000) = (s + (two64 - d)) mod two64).
  { change 0x10000000000000000%Z with (Z.of_N two64). rewrite <- N2Z.inj_mod. apply N2Z.id. }
  rewrite <- G. unfold two64 in *.
  assert (E : Z.of_N (s + (18446744073709551616 - d)) = (Z.of_N s + 18446744073709551616 - Z.of_N d)%Z).
  { rewrite N2Z.inj_add, N2Z.inj_sub by lia. lia. }
  rewrite E.
  destruct (s <? 9223372036854775808), (d <? 9223372036854775808).
  - replace (Z.of_N s - Z.of_N d)%Z with (Z.of_N s + 18446744073709551616 - Z.of_N d + (-1) * 18446744073709551616)%Z by lia. apply H.
  - replace (Z.of_N s - (Z.of_N d - 18446744073709551616))%Z with (Z.of_N s + 18446744073709551616 - Z.of_N d + 0 * 18446744073709551616)%Z by lia. apply H.
  - replace (Z.of_N s - 18446744073709551616 - Z.of_N d)%Z with (Z.of_N s + 18446744073709551616 - Z.of_N d + (-2) * 18446744073709551616)%Z by lia. apply H.
  - replace (Z.of_N s - 18446744073709551616 - (Z.of_N d - 18446744073709551616))%Z with (Z.of_N s + 18446744073709551616 - Z.of_N d + (-1) * 18446744073709551616)%Z by lia. apply H.
Qed.

Definition Rint (s a : N) : Prop := s = a /\ a < two64.

Lemma ctr_int_step sf a c a' r : Rint sf a -> counter_call c = true -> spec_step IntOps a c = Some (a', r) ->
  exists sf' o, ctr_step_int sf c = Some (sf', o) /\ Rint sf' a' /\ expected o = r.
Proof.
  intros [-> Hb] Hc. unfold Rint.
  destruct c as [ | |b|b|b| | |b|b|b| | | |k0 d0|k0| | | ]; cbn in Hc; try discriminate Hc; cbn; intros E; inversion E; subst; clear E.
  - eexists _, None. repeat split; auto using wrap64_lt.
  - eexists _, None. repeat split; auto using wrap64_lt; try (now rewrite wrap64_add_r).
  - eexists _, (Some a'). repeat split; auto.
  - eexists _, None. repeat split; auto; try reflexivity.
  - eexists _, None. split; [reflexivity|]. split; [|reflexivity]. split.
    + destruct (wrap64 b =? 0) eqn:Z.
      * apply N.eqb_eq in Z. rewrite <- wrap64_add_r, Z, N.add_0_r. now apply wrap64_small.
      * now rewrite wrap64_add_r.
    + destruct (wrap64 b =? 0); auto using wrap64_lt.
Qed.
Lemma int_same v w : retv_matches IntOps (RVal v) (RVal w) = true -> same_int v w = true.
Proof. auto. Qed.

Local Opaque bits2f f2bits.
Lemma ctr_float_step (sf a : f64) c (a' : f64) r : sf = a -> counter_call c = true -> spec_step FloatOps a c = Some (a', r) ->
  exists sf' o, ctr_step_float sf c = Some (sf', o) /\ sf' = a' /\ expected o = r.
Proof.
  intros -> Hc.
  destruct c as [ | |b|b|b| | |b|b|b| | | |k0 d0|k0| | | ]; cbn in Hc; try discriminate Hc;
    cbn [spec_step ctr_step_float FloatOps V vadd vsub vone vzero of_bits to_bits vis_zero]; intros E; inversion E; subst; clear E.
  - eexists _, None. repeat split.
  - eexists _, None. repeat split.
  - eexists _, (Some (f2bits a')). repeat split.
  - eexists _, None. repeat split.
  - eexists _, None. repeat split.
Qed.
Lemma float_same v w : retv_matches FloatOps (RVal v) (RVal w) = true -> same_float v w = true.
Proof. auto. Qed.

Definition arg_u64 (c : call) : bool := match c with CSet v | CAdd v | CSub v => v <? two64 | _ => true end.
Definition gauge_dom (c : call) : bool := gauge_call c && arg_u64 c.
Lemma gauge_int_step (sf a : N) c (a' : N) r : sf = a -> gauge_dom c = true -> spec_step IntOps a c = Some (a', r) ->
  exists sf' o, gauge_step_int sf c = Some (sf', o) /\ sf' = a' /\ expected o = r.
Proof.
  intros -> Hc. unfold gauge_dom in Hc. apply andb_prop in Hc. destruct Hc as [Hc Hb].
  destruct c as [ | |b|b|b| | |b|b|b| | | |k0 d0|k0| | | ]; cbn in Hc; try discriminate Hc; cbn in Hb; cbn; intros E; inversion E; subst; clear E.
  - eexists _, None. repeat split. change 1%Z with (i64_to_Z 1). apply i64_add.
  - eexists _, None. repeat split. change (i64_to_Z a + -1)%Z with (i64_to_Z a - i64_to_Z 1)%Z. rewrite i64_sub by reflexivity. reflexivity.
  - eexists _, None. repeat split. rewrite i64_add. now rewrite wrap64_add_r.
  - eexists _, None. repeat split. apply N.ltb_lt in Hb. change (i64_to_Z a + - i64_to_Z b)%Z with (i64_to_Z a - i64_to_Z b)%Z.
    rewrite i64_sub by auto. now rewrite !(wrap64_small b) by auto.
  - eexists _, None. repeat split. apply N.ltb_lt in Hb. symmetry. now apply wrap64_small.
  - eexists _, (Some a'). repeat split.
Qed.
Lemma gauge_float_step (sf a : f64) c (a' : f64) r : sf = a -> gauge_call c = true -> spec_step FloatOps a c = Some (a', r) ->
  exists sf' o, gauge_step_float sf c = Some (sf', o) /\ sf' = a' /\ expected o = r.
Proof.
  intros -> Hc.
  destruct c as [ | |b|b|b| | |b|b|b| | | |k0 d0|k0| | | ]; cbn in Hc; try discriminate Hc;
    cbn [spec_step gauge_step_float FloatOps V vadd vsub vone vzero of_bits to_bits vis_zero]; intros E; inversion E; subst; clear E.
  - eexists _, None. repeat split.
  - eexists _, None. repeat split.
  - eexists _, None. repeat split.
  - eexists _, None. repeat split.
  - eexists _, None. repeat split.
  - eexists _, (Some (f2bits a')). repeat split.
Qed.

(* ---- executable side conditions and the clauses that are proved *)
Definition calls_in (dom : call -> bool) (es : list event) : bool :=
  forallb (fun e => match e with ECall _ c => dom c | _ => true end) es.
Lemma calls_in_spec dom es : calls_in dom es = true -> forall t c, In (ECall t c) es -> dom c = true.
Proof. unfold calls_in. rewrite forallb_forall. intros H t c Hin. exact (H _ Hin). Qed.

(* clauses "no panic / hang", "only calls of the object's interface", "(C) a linearisation is found" of spec_c01 / spec_c11,
   the search being run whatever the number of calls *)
Definition spec_c01_core (isf : bool) (es : list event) : bool :=
  let '(cs, ok) := calls_of es O [] in
  ok && forallb (fun c => counter_call (c_call c)) cs
  && (if isf then lin_search f64 ctr_step_float same_float (Datatypes.S (length cs)) cs 0%float
      else lin_search N ctr_step_int same_int (Datatypes.S (length cs)) cs 0%N).
Definition spec_c11_core (isf : bool) (es : list event) : bool :=
  let '(cs, ok) := calls_of es O [] in
  ok && forallb (fun c => gauge_call (c_call c)) cs
  && (if isf then lin_search f64 gauge_step_float same_float (Datatypes.S (length cs)) cs 0%float
      else lin_search N gauge_step_int same_int (Datatypes.S (length cs)) cs 0%N).

Theorem c01_core_of_validated_int es : trace_ok IntOps es = true -> calls_in counter_call es = true -> spec_c01_core false es = true.
Proof.
  intros H D. unfold spec_c01_core.
  destruct (spec_search_of_validated IntOps int_laws N ctr_step_int same_int Rint counter_call 0%N ctr_int_step int_same
              (conj eq_refl eq_refl) es H (calls_in_spec _ _ D)) as [cs [E [F G]]].
  rewrite E. cbn [andb]. now rewrite F, G.
Qed.
Theorem c01_core_of_validated_float es : trace_ok FloatOps es = true -> calls_in counter_call es = true -> spec_c01_core true es = true.
Proof.
  intros H D. unfold spec_c01_core.
  destruct (spec_search_of_validated FloatOps float_laws f64 ctr_step_float same_float eq counter_call 0%float ctr_float_step float_same
              eq_refl es H (calls_in_spec _ _ D)) as [cs [E [F G]]].
  rewrite E. cbn [andb]. now rewrite F, G.
Qed.
Theorem c11_core_of_validated_int es : trace_ok IntOps es = true -> calls_in gauge_dom es = true -> spec_c11_core false es = true.
Proof.
  intros H D. unfold spec_c11_core.
  destruct (spec_search_of_validated IntOps int_laws N gauge_step_int same_int eq gauge_dom 0%N gauge_int_step int_same
              eq_refl es H (calls_in_spec _ _ D)) as [cs [E [F G]]].
  rewrite E. cbn [andb]. rewrite G, andb_true_r. apply forallb_forall. intros c Hc.
  rewrite forallb_forall in F. specialize (F c Hc). unfold gauge_dom in F. now apply andb_prop in F.
Qed.
Theorem c11_core_of_validated_float es : trace_ok FloatOps es = true -> calls_in gauge_call es = true -> spec_c11_core true es = true.
Proof.
  intros H D. unfold spec_c11_core.
  destruct (spec_search_of_validated FloatOps float_laws f64 gauge_step_float same_float eq gauge_call 0%float gauge_float_step float_same
              eq_refl es H (calls_in_spec _ _ D)) as [cs [E [F G]]].
  rewrite E. cbn [andb]. now rewrite F, G.
Qed.

(* ---- the remaining clauses of the specs: (A) read-subset and (B) monotone reads for C01, the read-subset clause for C11 *)
Definition spec_c01_AB (isf : bool) (es : list event) : bool :=
  let '(cs, _) := calls_of es O [] in
  (if all_decode isf cs then forallb (fun g => if is_get (c_call g) then read_subset_ok isf cs g else true) cs else true)
  && monotone_ok isf cs.
Definition spec_c11_A (isf : bool) (es : list event) : bool :=
  let '(cs, _) := calls_of es O [] in
  if negb (existsb (fun c => is_set (c_call c)) cs) && small_amounts isf cs
  then forallb (fun g => if is_get (c_call g) then gauge_read_ok isf cs g else true) cs else true.

Lemma spec_c01_from_clauses isf es : spec_c01_core isf es = true -> spec_c01_AB isf es = true -> spec_c01 isf es = true.
Proof.
  unfold spec_c01_core, spec_c01_AB, spec_c01. destruct (calls_of es 0 []) as [cs ok]. intros H1 H2.
  apply andb_prop in H1. destruct H1 as [H1 H3]. apply andb_prop in H1. destruct H1 as [H0 H1].
  apply andb_prop in H2. destruct H2 as [HA HB].
  rewrite H0, H1, HA, HB. cbn [andb]. destruct (Nat.leb (length cs) search_limit); auto.
Qed.
Lemma spec_c11_from_clauses isf es : spec_c11_core isf es = true -> spec_c11_A isf es = true -> spec_c11 isf es = true.
Proof.
  unfold spec_c11_core, spec_c11_A, spec_c11. destruct (calls_of es 0 []) as [cs ok]. intros H1 H2.
  apply andb_prop in H1. destruct H1 as [H1 H3]. apply andb_prop in H1. destruct H1 as [H0 H1].
  rewrite H0, H1, H2. cbn [andb]. destruct (Nat.leb (length cs) search_limit11); auto.
Qed.
